/-
C14 — tokenization and the YY string form.
-/
import Verif.C14.Model
import Verif.Common.CodecLemmas

namespace Verif.C14.L
open Verif.C13 Verif.C14
open Verif.Codec hiding Str

private theorem slice_length (s : Str) (a b : Nat) : (slice s a b).length = min (b - a) (s.length - a) := by
  simp [slice]

private theorem slice_isEmpty_false (s : Str) (a b : Nat) (h1 : a < b) (h2 : b ≤ s.length) :
    (slice s a b).isEmpty = false := by
  have h := slice_length s a b
  cases hs : slice s a b with
  | nil => rw [hs] at h; simp at h; omega
  | cons _ _ => rfl

private theorem slice_nil (s : Str) (a b : Nat) (h : b ≤ a) : slice s a b = [] := by
  have h' := slice_length s a b
  cases hs : slice s a b with
  | nil => rfl
  | cons _ _ => rw [hs] at h'; simp at h'; omega

private theorem slice_to_end (s : Str) (a : Nat) : slice s a s.length = s.drop a := by
  unfold slice
  apply List.take_of_length_le
  simp

private theorem mkTok_form {r : Result} {a b : Nat} {t : Tok} (h : mkTok r a b = some t) :
    t.form = slice r.string a b := by
  unfold mkTok at h
  split at h
  · cases h; rfl
  · cases h

private theorem tokLoop_forms (r : Result) : ∀ (seps : List (Nat × Nat)) (pos : Nat) (toks : List Tok),
    ValidSeps r.string.length pos seps → pos ≤ r.string.length → tokLoop r seps pos = some toks →
    toks.map (·.form) = (splitAt r.string seps pos).filter (fun p => !p.isEmpty) := by
  intro seps
  induction seps with
  | nil =>
    intro pos toks _ hp h
    simp only [tokLoop] at h
    simp only [splitAt]
    split at h
    · rename_i hlt
      cases hm : mkTok r pos r.string.length with
      | none => rw [hm] at h; cases h
      | some t =>
        rw [hm] at h; cases h
        have hf := mkTok_form hm
        rw [slice_to_end] at hf
        have he := slice_isEmpty_false r.string pos r.string.length hlt (Nat.le_refl _)
        rw [slice_to_end] at he
        simp [List.filter, he, hf]
    · rename_i hlt
      cases h
      have : r.string.drop pos = [] := by
        apply List.drop_eq_nil_of_le; omega
      simp [this]
  | cons sp rest ih =>
    obtain ⟨ms, me⟩ := sp
    intro pos toks hv hp h
    obtain ⟨h1, h2, h3, h4⟩ := hv
    simp only [tokLoop] at h
    simp only [splitAt]
    split at h
    · rename_i hlt
      cases hm : mkTok r pos ms with
      | none => rw [hm] at h; cases h
      | some t =>
        cases hl : tokLoop r rest me with
        | none => rw [hm, hl] at h; cases h
        | some ts =>
          rw [hm, hl] at h; cases h
          have hf := mkTok_form hm
          have he := slice_isEmpty_false r.string pos ms hlt (by omega)
          have := ih me ts h4 h3 hl
          simp [List.filter, he, hf, this]
    · rename_i hlt
      have := ih me toks h4 h3 h
      rw [slice_nil r.string pos ms (by omega)]
      simp [List.filter, this]

/-- tokens are exactly the non-empty pieces of splitting the output at the separator matches, in order. -/
theorem tokenize_forms (r : Result) (seps : List (Nat × Nat)) (toks : List Tok)
    (hv : ValidSeps r.string.length 0 seps) (h : tokenize r seps = some toks) :
    toks.map (·.form) = (splitAt r.string seps 0).filter (fun p => !p.isEmpty) :=
  tokLoop_forms r seps 0 toks hv (Nat.zero_le _) h

private theorem pyGet_nat (xs : List Int) (i : Nat) : pyGet xs (i : Int) = xs[i]? := by
  unfold pyGet
  have : (0 : Int) ≤ (i : Int) := Int.natCast_nonneg i
  simp [this]

private theorem pyGet_nat_succ (xs : List Int) (i : Nat) : pyGet xs ((i : Int) + 1) = xs[i + 1]? := by
  have := pyGet_nat xs (i + 1)
  simpa using this

private theorem mkTok_ok (r : Result) (a b : Nat)
    (hs : r.startmap.length = r.string.length + 2) (he : r.endmap.length = r.string.length + 2)
    (ha : a ≤ r.string.length) (hb : b ≤ r.string.length) : ∃ t, mkTok r a b = some t := by
  unfold mkTok
  rw [pyGet_nat_succ, pyGet_nat]
  have h1 : a + 1 < r.startmap.length := by omega
  have h2 : b < r.endmap.length := by omega
  rw [List.getElem?_eq_getElem h1, List.getElem?_eq_getElem h2]
  exact ⟨_, rfl⟩

private theorem tokLoop_ok (r : Result)
    (hs : r.startmap.length = r.string.length + 2) (he : r.endmap.length = r.string.length + 2) :
    ∀ (seps : List (Nat × Nat)) (pos : Nat),
    ValidSeps r.string.length pos seps → pos ≤ r.string.length → ∃ toks, tokLoop r seps pos = some toks := by
  intro seps
  induction seps with
  | nil =>
    intro pos _ hp
    simp only [tokLoop]
    split
    · obtain ⟨t, ht⟩ := mkTok_ok r pos r.string.length hs he hp (Nat.le_refl _)
      rw [ht]; exact ⟨_, rfl⟩
    · exact ⟨_, rfl⟩
  | cons sp rest ih =>
    obtain ⟨ms, me⟩ := sp
    intro pos hv hp
    obtain ⟨h1, h2, h3, h4⟩ := hv
    obtain ⟨ts, hts⟩ := ih me h4 h3
    simp only [tokLoop]
    split
    · obtain ⟨t, ht⟩ := mkTok_ok r pos ms hs he hp (by omega)
      rw [ht, hts]; exact ⟨_, rfl⟩
    · exact ⟨ts, hts⟩

/-- no IndexError when the maps have one entry per position plus two sentinels. -/
theorem tokenize_ok (r : Result) (seps : List (Nat × Nat)) (hv : ValidSeps r.string.length 0 seps)
    (hs : r.startmap.length = r.string.length + 2) (he : r.endmap.length = r.string.length + 2) :
    ∃ toks, tokenize r seps = some toks :=
  tokLoop_ok r hs he seps 0 hv (Nat.zero_le _)

private theorem tokLoop_mem (r : Result) : ∀ (seps : List (Nat × Nat)) (pos : Nat) (toks : List Tok),
    ValidSeps r.string.length pos seps → pos ≤ r.string.length → tokLoop r seps pos = some toks →
    ∀ t ∈ toks, ∃ a b, a < b ∧ b ≤ r.string.length ∧ mkTok r a b = some t := by
  intro seps
  induction seps with
  | nil =>
    intro pos toks _ hp h t ht
    simp only [tokLoop] at h
    split at h
    · rename_i hlt
      cases hm : mkTok r pos r.string.length with
      | none => rw [hm] at h; cases h
      | some t' =>
        rw [hm] at h; cases h
        simp at ht; subst ht
        exact ⟨pos, _, hlt, Nat.le_refl _, hm⟩
    · cases h; cases ht
  | cons sp rest ih =>
    obtain ⟨ms, me⟩ := sp
    intro pos toks hv hp h t ht
    obtain ⟨h1, h2, h3, h4⟩ := hv
    simp only [tokLoop] at h
    split at h
    · rename_i hlt
      cases hm : mkTok r pos ms with
      | none => rw [hm] at h; cases h
      | some t' =>
        cases hl : tokLoop r rest me with
        | none => rw [hm, hl] at h; cases h
        | some ts =>
          rw [hm, hl] at h; cases h
          rcases List.mem_cons.mp ht with e | e
          · subst e; exact ⟨pos, ms, hlt, by omega, hm⟩
          · exact ih me ts h4 h3 hl t e
    · exact ih me toks h4 h3 h t ht

/-- every token is `mkTok` of a maximal separator-free piece `[a, b)`, `a < b ≤ |string|`. -/
theorem tokenize_mem (r : Result) (seps : List (Nat × Nat)) (toks : List Tok)
    (hv : ValidSeps r.string.length 0 seps) (h : tokenize r seps = some toks) (t : Tok) (ht : t ∈ toks) :
    ∃ a b, a < b ∧ b ≤ r.string.length ∧ mkTok r a b = some t :=
  tokLoop_mem r seps 0 toks hv (Nat.zero_le _) h t ht

/-- a piece made only of contiguous carried-over characters gets exactly its original span, and
the original text at that span is the form. -/
theorem mkTok_carried (orig : Str) (r : Result) (a b p : Nat) (hab : a < b) (hb : b ≤ r.string.length)
    (hc : ∀ k, k < b - a →
      p + k < orig.length ∧ r.string[a + k]? = orig[p + k]? ∧
      r.startmap[a + k + 1]? = some (((p + k : Nat) : Int) - ((a + k : Nat) : Int)) ∧
      r.endmap[a + k + 1]? = some (((p + k : Nat) : Int) - ((a + k : Nat) : Int))) :
    mkTok r a b = some ⟨(p : Int), ((p + (b - a) : Nat) : Int), slice orig p (p + (b - a))⟩ := by
  have _ := hb
  have h0 := hc 0 (by omega)
  have h1 := hc (b - a - 1) (by omega)
  have e1 : a + (b - a - 1) + 1 = b := by omega
  simp only [Nat.add_zero] at h0
  rw [e1] at h1
  unfold mkTok
  rw [pyGet_nat_succ, pyGet_nat, h0.2.2.1, h1.2.2.2]
  have hsl : slice r.string a b = slice orig p (p + (b - a)) := by
    apply List.ext_getElem?
    intro i
    unfold slice
    rw [List.getElem?_take, List.getElem?_take, List.getElem?_drop, List.getElem?_drop]
    have : p + (b - a) - p = b - a := by omega
    rw [this]
    split
    · rename_i hi; exact (hc i hi).2.1
    · rfl
  simp only [hsl, Option.some.injEq, Tok.mk.injEq, and_true]
  constructor <;> omega


/-- shape of the lnk values that survive: unspecified, or a character span other than `<-1:-1>`
(which `Lnk.__bool__` treats as missing). -/
def LnkOk : Lnk → Prop
  | .unspec => True
  | .charspan a b => ¬ (a = -1 ∧ b = -1)
  | _ => False

/-! ### scanners on printed text -/

private theorem scanInt_nat (n : Nat) (c : Char) (r : Str) (hc : c.isDigit = false) :
    scanInt (natStr n ++ c :: r) = some ((n : Int), c :: r) := by
  have hall : ∀ a ∈ natStr n, a.isDigit = true := fun a ha => mem_natStr_isDigit ha
  have htw : (natStr n ++ c :: r).takeWhile Char.isDigit = natStr n := by
    rw [List.takeWhile_append_of_pos hall]; simp [List.takeWhile, hc]
  have hdw : (natStr n ++ c :: r).dropWhile Char.isDigit = c :: r := by
    rw [List.dropWhile_append_of_pos hall]; simp [List.dropWhile, hc]
  have hp : parseInt (natStr n) = some (n : Int) := parseInt_intStr (Int.ofNat n)
  have hne : (natStr n).isEmpty = false := by
    cases h : natStr n with
    | nil => exact absurd h (natStr_ne_nil n)
    | cons _ _ => rfl
  unfold scanInt
  split
  · rename_i r' heq
    cases h : natStr n with
    | nil => exact absurd h (natStr_ne_nil n)
    | cons d t =>
      rw [h] at heq
      simp at heq
      exact absurd (heq.1 ▸ h) (natStr_head_ne_minus n t)
  · simp only [htw, hdw, hne, hp]
    simp

private theorem scanInt_intStr (i : Int) (c : Char) (r : Str) (hc : c.isDigit = false) :
    scanInt (intStr i ++ c :: r) = some (i, c :: r) := by
  cases i with
  | ofNat n => exact scanInt_nat n c r hc
  | negSucc n =>
    have hall : ∀ a ∈ natStr (n + 1), a.isDigit = true := fun a ha => mem_natStr_isDigit ha
    have htw : (natStr (n + 1) ++ c :: r).takeWhile Char.isDigit = natStr (n + 1) := by
      rw [List.takeWhile_append_of_pos hall]; simp [List.takeWhile, hc]
    have hdw : (natStr (n + 1) ++ c :: r).dropWhile Char.isDigit = c :: r := by
      rw [List.dropWhile_append_of_pos hall]; simp [List.dropWhile, hc]
    have hp : parseInt ('-' :: natStr (n + 1)) = some (Int.negSucc n) := parseInt_intStr (Int.negSucc n)
    have hne : (natStr (n + 1)).isEmpty = false := by
      cases h : natStr (n + 1) with
      | nil => exact absurd h (natStr_ne_nil _)
      | cons _ _ => rfl
    simp only [intStr, List.cons_append, scanInt, htw, hdw, hne, hp]
    simp

private theorem scanInt_comma (i : Int) (r : Str) : scanInt (intStr i ++ ',' :: r) = some (i, ',' :: r) :=
  scanInt_intStr i _ r (by decide)
private theorem scanInt_colon (i : Int) (r : Str) : scanInt (intStr i ++ ':' :: r) = some (i, ':' :: r) :=
  scanInt_intStr i _ r (by decide)
private theorem scanInt_gt (i : Int) (r : Str) : scanInt (intStr i ++ '>' :: r) = some (i, '>' :: r) :=
  scanInt_intStr i _ r (by decide)
private theorem scanInt_sp (i : Int) (r : Str) : scanInt (intStr i ++ ' ' :: r) = some (i, ' ' :: r) :=
  scanInt_intStr i _ r (by decide)

private theorem skipWs_sp (r : Str) : skipWs (' ' :: r) = skipWs r := by
  simp [skipWs, isWs]

private theorem skipWs_nonws (c : Char) (r : Str) (h : isWs c = false) : skipWs (c :: r) = c :: r := by
  simp [skipWs, h]

private theorem intStr_head (i : Int) : ∃ c t, intStr i = c :: t ∧ isWs c = false ∧ c ≠ '<' ∧ c ≠ '(' := by
  cases h : intStr i with
  | nil => exact absurd h (intStr_ne_nil i)
  | cons c t =>
    refine ⟨c, t, rfl, ?_⟩
    have : c ∈ intStr i := by rw [h]; simp
    rcases mem_intStr this with h' | h'
    · have hd : c.isDigit = true → isWs c = false ∧ c ≠ '<' ∧ c ≠ '(' := by
        intro hd
        simp only [Char.isDigit, Bool.and_eq_true, decide_eq_true_eq] at hd
        refine ⟨?_, ?_, ?_⟩
        · simp only [isWs, Bool.or_eq_false_iff, decide_eq_false_iff_not]
          refine ⟨⟨⟨⟨⟨?_, ?_⟩, ?_⟩, ?_⟩, ?_⟩, ?_⟩ <;> (intro e; subst e; revert hd; decide)
        · intro e; subst e; revert hd; decide
        · intro e; subst e; revert hd; decide
      exact hd h'
    · subst h'; decide

private theorem skipWs_intStr (i : Int) (r : Str) : skipWs (intStr i ++ r) = intStr i ++ r := by
  obtain ⟨c, t, h, hw, _⟩ := intStr_head i
  rw [h, List.cons_append, skipWs_nonws c _ hw]

private theorem scanComma_cs (r : Str) : scanComma (',' :: ' ' :: r) = some (skipWs r) := by
  simp [scanComma, skipWs, isWs]

private theorem scanString_quoted (f rest : Str) :
    scanString ('"' :: (escapeDQ f ++ '"' :: rest)) = some (escapeDQ f, rest) := by
  simp only [scanString, scanDQ_escapeDQ]

private theorem joinSp_cons2 (a b : Str) (l : List Str) : joinSp (a :: b :: l) = a ++ ' ' :: joinSp (b :: l) := rfl

private theorem scanPaths_comma (f : Nat) (r : Str) : scanPaths f (',' :: r) = none := by
  cases f with
  | zero => rfl
  | succ f => simp [scanPaths, scanInt]

private theorem skipWs_paths (ps : List Int) (hne : ps ≠ []) (r : Str) :
    skipWs (joinSp (ps.map intStr) ++ r) = joinSp (ps.map intStr) ++ r := by
  match ps, hne with
  | [p], _ => simp only [List.map, joinSp, skipWs_intStr]
  | p :: q :: qs, _ =>
    simp only [List.map, joinSp_cons2, List.append_assoc, skipWs_intStr]

private theorem scanPaths_join : ∀ (ps : List Int), ps ≠ [] → ∀ (f : Nat) (r : Str),
    (joinSp (ps.map intStr)).length ≤ f →
    scanPaths f (joinSp (ps.map intStr) ++ ',' :: r) = some (ps, ',' :: r) := by
  intro ps
  induction ps with
  | nil => intro h; exact absurd rfl h
  | cons p qs ih =>
    intro _ f r hf
    have hpl : 0 < (intStr p).length := List.length_pos_iff.mpr (intStr_ne_nil p)
    cases qs with
    | nil =>
      simp only [List.map, joinSp] at hf ⊢
      cases f with
      | zero => omega
      | succ f =>
        simp only [scanPaths, scanInt_comma, skipWs_nonws ',' r (by decide), scanPaths_comma]
    | cons q qs =>
      simp only [List.map, joinSp_cons2, List.length_append, List.length_cons] at hf
      cases f with
      | zero => omega
      | succ f =>
        have := ih (by simp) f r (by simp only [List.map]; omega)
        simp only [List.map] at this
        simp only [List.map, joinSp_cons2, List.append_assoc, List.cons_append, scanPaths, scanInt_sp,
          skipWs_sp]
        have hs := skipWs_paths (q :: qs) (by simp) (',' :: r)
        simp only [List.map] at hs
        rw [hs, this]

private theorem pathsGlued_comma (f : Nat) (r : Str) : pathsGlued f (',' :: r) = false := by
  cases f with
  | zero => rfl
  | succ f => simp [pathsGlued, scanInt]

/-- what `YYToken.__str__` prints for the paths (integers joined by single blanks) is never glued. -/
private theorem pathsGlued_join : ∀ (ps : List Int), ps ≠ [] → ∀ (f : Nat) (r : Str),
    pathsGlued f (joinSp (ps.map intStr) ++ ',' :: r) = false := by
  intro ps
  induction ps with
  | nil => intro h; exact absurd rfl h
  | cons p qs ih =>
    intro _ f r
    cases f with
    | zero => rfl
    | succ f =>
      cases qs with
      | nil =>
        simp only [List.map, joinSp, pathsGlued, scanInt_comma, skipWs_nonws ',' r (by decide), pathsGlued_comma,
          List.head?_cons, Bool.or_false]
        have : (some ',' == some '-') = false := by decide
        rw [this, Bool.false_and]
      | cons q qs =>
        have := ih (by simp) f r
        simp only [List.map] at this
        have hs := skipWs_paths (q :: qs) (by simp) (',' :: r)
        simp only [List.map] at hs
        simp only [List.map, joinSp_cons2, List.append_assoc, List.cons_append, pathsGlued, scanInt_sp,
          skipWs_sp, hs, this, List.head?_cons, Bool.or_false]
        have h2 : (some ' ' == some '-') = false := by decide
        rw [h2, Bool.false_and]

private theorem scanLnk_paths (ps : List Int) (hne : ps ≠ []) (r : Str) :
    scanLnk (joinSp (ps.map intStr) ++ r) = none := by
  have : ∃ c t, joinSp (ps.map intStr) ++ r = c :: t ∧ c ≠ '<' := by
    match ps, hne with
    | [p], _ =>
      obtain ⟨c, t, h, _, h2, _⟩ := intStr_head p
      exact ⟨c, t ++ r, by simp [joinSp, h], h2⟩
    | p :: q :: qs, _ =>
      obtain ⟨c, t, h, _, h2, _⟩ := intStr_head p
      exact ⟨c, t ++ ' ' :: joinSp ((q :: qs).map intStr) ++ r, by simp [joinSp, h], h2⟩
  obtain ⟨c, t, h, hc⟩ := this
  rw [h]
  unfold scanLnk
  split
  · rename_i heq; simp at heq; exact absurd heq.1 hc
  · rfl

private theorem scanLnk_span (a b : Int) (r : Str) :
    scanLnk ('<' :: (intStr a ++ ':' :: (intStr b ++ '>' :: ',' :: ' ' :: r))) =
      some (Lnk.charspan a b, skipWs r) := by
  simp only [scanLnk, scanInt_colon, scanInt_gt, scanComma_cs]
  rfl

private theorem scanStrings_null (f : Nat) (rest : Str) :
    scanStrings (f + 1) ('"' :: 'n' :: 'u' :: 'l' :: 'l' :: '"' :: ')' :: rest) =
      some (["null".toList], ')' :: rest) := by
  have h := scanString_quoted "null".toList (')' :: rest)
  have he : escapeDQ "null".toList = ['n', 'u', 'l', 'l'] := by decide
  rw [he] at h
  simp only [List.cons_append, List.nil_append] at h
  have h2 : ∀ g, scanStrings g (')' :: rest) = none := by
    intro g; cases g with
    | zero => rfl
    | succ g => simp [scanStrings, scanString]
  simp only [scanStrings, h, skipWs_nonws ')' rest (by decide), h2]
  rfl


private theorem scanString_comma (r : Str) : scanString (',' :: r) = none := by simp [scanString]

private theorem len_le_append_succ (a b : Str) : a.length ≤ (a ++ b).length + 1 := by
  simp only [List.length_append]; omega

private theorem skipWs_dq (r : Str) : skipWs ('"' :: r) = '"' :: r := skipWs_nonws _ r (by decide)
private theorem skipWs_comma (r : Str) : skipWs (',' :: r) = ',' :: r := skipWs_nonws _ r (by decide)
private theorem skipWs_rp (r : Str) : skipWs (')' :: r) = ')' :: r := skipWs_nonws _ r (by decide)
private theorem skipWs_lt (r : Str) : skipWs ('<' :: r) = '<' :: r := skipWs_nonws _ r (by decide)

private theorem matchTok_str (t : YTok) (rest : Str) (hp : t.paths ≠ []) (hl : LnkOk t.lnk) :
    matchTok (t.str ++ rest) = .tok t rest := by
  obtain ⟨id, st, en, lnk, paths, form, surface, ipos⟩ := t
  simp only at hp hl
  have hpe : paths.isEmpty = false := by
    cases paths with
    | nil => exact absurd rfl hp
    | cons _ _ => rfl
  have hcs : ", ".toList = [',', ' '] := by decide
  have hnl : ", \"null\")".toList = [',', ' ', '"', 'n', 'u', 'l', 'l', '"', ')'] := by decide
  cases lnk with
  | unspec =>
    cases surface with
    | none =>
      simp only [YTok.str, Lnk.truthy, hpe, hcs, hnl, quoted, List.append_assoc, List.cons_append,
        List.nil_append, Bool.false_eq_true, if_false, matchTok, optBind, skipWs_intStr, scanInt_comma,
        scanComma_cs, skipWs_paths _ hp, scanLnk_paths _ hp,
        scanPaths_join _ hp _ _ (len_le_append_succ _ _), pathsGlued_join _ hp,
        skipWs_dq, skipWs_comma, skipWs_rp, scanString_quoted, scanString_comma, scanStrings_null,
        unescapeDQ_escapeDQ, if_true, Option.map]
    | some sf =>
      simp only [YTok.str, Lnk.truthy, hpe, hcs, hnl, quoted, List.append_assoc, List.cons_append,
        List.nil_append, Bool.false_eq_true, if_false, matchTok, optBind, skipWs_intStr, scanInt_comma,
        scanComma_cs, skipWs_paths _ hp, scanLnk_paths _ hp,
        scanPaths_join _ hp _ _ (len_le_append_succ _ _), pathsGlued_join _ hp,
        skipWs_dq, skipWs_rp, skipWs_sp, scanString_quoted,
        scanStrings_null, unescapeDQ_escapeDQ, if_true, Option.map]
  | charspan a b =>
    have htr : (Lnk.charspan a b).truthy = true := by
      simp only [LnkOk] at hl
      simp only [Lnk.truthy, Bool.not_eq_true', Bool.and_eq_false_iff, decide_eq_false_iff_not]
      by_cases h : a = -1
      · right; exact fun hb => hl ⟨h, hb⟩
      · left; exact h
    cases surface with
    | none =>
      simp only [YTok.str, htr, Lnk.str, hpe, hcs, hnl, quoted, List.append_assoc, List.cons_append,
        List.nil_append, Bool.false_eq_true, if_false, matchTok, optBind, skipWs_intStr, scanInt_comma,
        scanComma_cs, skipWs_paths _ hp, skipWs_lt, scanLnk_span,
        scanPaths_join _ hp _ _ (len_le_append_succ _ _), pathsGlued_join _ hp,
        skipWs_dq, skipWs_comma, skipWs_rp, scanString_quoted, scanString_comma, scanStrings_null,
        unescapeDQ_escapeDQ, if_true, Option.map]
    | some sf =>
      simp only [YTok.str, htr, Lnk.str, hpe, hcs, hnl, quoted, List.append_assoc, List.cons_append,
        List.nil_append, Bool.false_eq_true, if_false, matchTok, optBind, skipWs_intStr, scanInt_comma,
        scanComma_cs, skipWs_paths _ hp, skipWs_lt, scanLnk_span,
        scanPaths_join _ hp _ _ (len_le_append_succ _ _), pathsGlued_join _ hp,
        skipWs_dq, skipWs_rp, skipWs_sp, scanString_quoted,
        scanStrings_null, unescapeDQ_escapeDQ, if_true, Option.map]
  | _ => exact absurd hl (by simp [LnkOk])

private theorem str_cons (t : YTok) : ∃ r, t.str = '(' :: r := ⟨_, rfl⟩

private theorem yyParse_tok (f : Nat) (s rest : Str) (t : YTok) (hs : s ≠ []) (h : matchTok s = .tok t rest) :
    yyParse (f + 1) s = (yyParse f rest).map (t :: ·) := by
  cases s with
  | nil => exact absurd rfl hs
  | cons c r => simp only [yyParse, h]

private theorem yyParse_sp (f : Nat) (r : Str) : yyParse (f + 1) (' ' :: r) = yyParse f r := by
  simp [yyParse, matchTok]

private theorem yyParse_join : ∀ (ts : List YTok), (∀ t ∈ ts, t.paths ≠ [] ∧ LnkOk t.lnk) →
    ∀ f, (joinSp (ts.map YTok.str)).length + 1 ≤ f → yyParse f (joinSp (ts.map YTok.str)) = some ts := by
  intro ts
  induction ts with
  | nil =>
    intro _ f _
    cases f <;> rfl
  | cons t us ih =>
    intro h f hf
    have ht := h t (by simp)
    obtain ⟨r0, hr0⟩ := str_cons t
    have hne : ∀ x : Str, t.str ++ x ≠ [] := by intro x; rw [hr0]; simp
    cases us with
    | nil =>
      simp only [List.map, joinSp] at hf ⊢
      cases f with
      | zero => omega
      | succ f =>
        have hm := matchTok_str t [] ht.1 ht.2
        rw [List.append_nil] at hm
        rw [yyParse_tok f _ [] t (by rw [hr0]; simp) hm]
        cases f <;> rfl
    | cons u us =>
      have hl : 0 < t.str.length := by rw [hr0]; simp
      simp only [List.map, joinSp_cons2, List.length_append, List.length_cons] at hf
      have ih' := ih (fun x hx => h x (by simp [hx]))
      simp only [List.map] at ih'
      simp only [List.map, joinSp_cons2]
      cases f with
      | zero => omega
      | succ f =>
        rw [yyParse_tok f _ _ t (hne _) (matchTok_str t _ ht.1 ht.2)]
        cases f with
        | zero => omega
        | succ f =>
          rw [yyParse_sp, ih' f (by omega)]
          rfl

/-- "the token lattice survives YY serialization and parsing unchanged": any forms and surfaces
(quotes, backslashes, parentheses, commas, blanks, line feeds …). -/
theorem yy_roundtrip (ts : List YTok) (h : ∀ t ∈ ts, t.paths ≠ [] ∧ LnkOk t.lnk) :
    latParse (latStr ts) = some ts :=
  yyParse_join ts h _ (Nat.le_refl _)

private theorem latticeOf_ok : ∀ (toks : List Tok) (i : Nat), (∀ t ∈ toks, 0 ≤ t.cfrom) →
    ∀ y ∈ latticeOf toks i, y.paths ≠ [] ∧ LnkOk y.lnk := by
  intro toks
  induction toks with
  | nil => intro i _ y hy; cases hy
  | cons t r ih =>
    intro i h y hy
    simp only [latticeOf, List.mem_cons] at hy
    rcases hy with e | e
    · subst e
      refine ⟨by simp, ?_⟩
      have := h t (by simp)
      simp only [LnkOk]
      omega
    · exact ih (i + 1) (fun x hx => h x (by simp [hx])) y e

/-- the lattice `tokenize_result` builds, when all spans are non-negative. -/
theorem yy_roundtrip_lattice (toks : List Tok) (h : ∀ t ∈ toks, 0 ≤ t.cfrom) :
    latParse (latStr (latticeOf toks 0)) = some (latticeOf toks 0) :=
  yy_roundtrip _ (latticeOf_ok toks 0 h)

end Verif.C14.L
