/- C14 line-protocol driver for the C14-only operations (extended YY tokens, tokenization pattern choice):
`lake env lean --run Verif/C14/Driver.lean`.  The rule / trace / tokenize operations are served by the shared
driver `Verif/C13/Driver.lean`. -/
import Verif.Common.Proto
import Verif.C14.YYX
import Verif.Generated.TablesC14
open Lean Verif.Proto Verif.C13 Verif.C14

namespace Verif.C14.Driver

def jLnk : Verif.Codec.Lnk → Json
  | .charspan a b => Json.arr #[jInt a, jInt b]
  | _ => Json.null

def jYTokX (t : YTokX) : Json :=
  Json.mkObj [("id", jInt t.tok.id), ("start", jInt t.tok.start), ("end", jInt t.tok.stop), ("lnk", jLnk t.tok.lnk),
              ("paths", jList jInt t.tok.paths), ("form", cps t.tok.form), ("surface", optCps t.tok.surface),
              ("ipos", jInt t.tok.ipos), ("lrules", jList cps t.lrules),
              ("pos", jList (fun p => Json.arr #[cps p.1, cps p.2]) t.pos)]

def ofPos (j : Json) : Except String (Str × Str) := do
  let a ← j.getArr?
  match a.toList with
  | [x, y] => pure (← ofCps x, ← ofCps y)
  | _ => throw "bad pos"

def ofYTokX (j : Json) : Except String YTokX := do
  let l ← j.getObjVal? "lnk"
  let lnk : Verif.Codec.Lnk ← match l with
    | Json.null => pure Verif.Codec.Lnk.unspec
    | _ => do
      let a ← l.getArr?
      match a.toList with
      | [x, y] => pure (Verif.Codec.Lnk.charspan (← x.getInt?) (← y.getInt?))
      | _ => throw "bad lnk"
  let id ← getInt j "id"
  let start ← getInt j "start"
  let stop ← getInt j "end"
  let paths ← (← getArr j "paths").mapM (·.getInt?)
  let form ← getCps j "form"
  let surface ← getOptCps j "surface"
  let ipos ← getInt j "ipos"
  let tok : YTok := ⟨id, start, stop, lnk, paths, form, surface, ipos⟩
  pure { tok := tok, lrules := ← (← getArr j "lrules").mapM ofCps, pos := ← (← getArr j "pos").mapM ofPos }

def jParsedX : Option (List YTokX) → Json
  | none => jErr "ValueError"
  | some ts => jList jYTokX ts

def handle (j : Json) : Except String Json := do
  let op ← getStr j "op"
  match op with
  | "yyx" =>
    let toks ← (← getArr j "tokens").mapM ofYTokX
    let str := latStrX toks
    pure (Json.mkObj [("yy", cps str), ("reparsed", jParsedX (latParseX str))])
  | "yyxparse" =>
    pure (Json.mkObj [("reparsed", jParsedX (latParseX (← getCps j "s")))])
  | "tokpat" =>
    let arg ← getOptCps j "arg"
    let declared ← getOptCps j "declared"
    let dflt := Verif.Tables.c14DefaultTokenizer.toList
    pure (Json.mkObj [("tokenize", cps (tokPattern dflt arg declared)),
                      ("tokenize_result", cps (tokResultPattern dflt arg))])
  | _ => throw s!"bad op {op}"

end Verif.C14.Driver

def main : IO Unit := Verif.Proto.serve Verif.C14.Driver.handle
