/-
C14 — theorems about the pattern choice of `REPP.tokenize` / `tokenize_result` and about the YY token
printer / parser at full width (several lrules, pos tags; YYX.lean).
-/
import Verif.C14.YYX
import Verif.C14.LemmasYYX
import Verif.C14.LemmasTok

namespace Verif.C14
open Verif.C13
open Verif.Codec hiding Str

/-! ## `pattern=` / declared `:` line / default: "explicit argument wins, else declared, else default" -/

/-- an explicitly passed pattern wins over the module's `:` line and over the default (wave-G change 3). -/
theorem tokPattern_explicit (dflt p : Str) (declared : Option Str) : tokPattern dflt (some p) declared = p := rfl

/-- no argument: the module's `:` line (even the empty expression). -/
theorem tokPattern_declared (dflt p : Str) : tokPattern dflt none (some p) = p := rfl

/-- neither: `DEFAULT_TOKENIZER`. -/
theorem tokPattern_default (dflt : Str) : tokPattern dflt none none = dflt := rfl

/-- the three cases are all there is: the chosen pattern is the argument, or (no argument) the declared one,
or (neither) the default — and never anything else. -/
theorem tokPattern_cases (dflt : Str) (arg declared : Option Str) :
    (∃ p, arg = some p ∧ tokPattern dflt arg declared = p)
    ∨ (arg = none ∧ ∃ p, declared = some p ∧ tokPattern dflt arg declared = p)
    ∨ (arg = none ∧ declared = none ∧ tokPattern dflt arg declared = dflt) := by
  cases arg with
  | some p => exact Or.inl ⟨p, rfl, rfl⟩
  | none =>
    cases declared with
    | some p => exact Or.inr (Or.inl ⟨rfl, p, rfl, rfl⟩)
    | none => exact Or.inr (Or.inr ⟨rfl, rfl, rfl⟩)

/-- `tokenize_result` never looks at the `:` line: explicit pattern or the default; and `tokenize` is
`tokenize_result` with the pattern `tokPattern` chose. -/
theorem tokResultPattern_spec (dflt : Str) (arg declared : Option Str) :
    tokResultPattern dflt none = dflt ∧ (∀ p, tokResultPattern dflt (some p) = p)
    ∧ tokResultPattern dflt (some (tokPattern dflt arg declared)) = tokPattern dflt arg declared :=
  ⟨rfl, fun _ => rfl, rfl⟩

/-! ## the printer at full width extends the printer of `tokenize_result`'s tokens -/

/-- a token with `lrules = ["null"]` and no pos tags prints as `YTok.str` (the printer `yy_roundtrip` is about). -/
theorem strX_null (t : YTok) : (⟨t, ["null".toList], []⟩ : YTokX).str = t.str := by
  simp only [YTokX.str, YTok.head, YTok.str, List.map, joinSp, dq, List.isEmpty_nil, if_true, List.append_nil,
    List.append_assoc]
  rfl

theorem latStrX_null (ts : List YTok) : latStrX (ts.map (fun t => ⟨t, ["null".toList], []⟩)) = latStr ts := by
  simp only [latStrX, latStr, List.map_map]
  congr 1
  apply List.map_congr_left
  intro t _
  exact strX_null t

/-! ## the lrules field: `' '.join('"{}"'.format(r))` read back by `.strip().split()` and `_qstrip` -/

/-- The lrules field survives: what `YYToken.__str__` writes for any list of rule names without blanks
(quotes and backslashes allowed — nothing is escaped, nothing is unescaped) is read back by
`list(map(_qstrip, text.strip().split()))` as the same list. -/
theorem lrules_field_roundtrip (rs : List Str) (h : ∀ r ∈ rs, ∀ c ∈ r, isWs c = false) (f : Nat) (hf : rs.length ≤ f) :
    (splitWs f (joinSp (rs.map dq))).map qstrip = rs := by
  rw [splitWs_join (rs.map dq) (by
    intro w hw
    obtain ⟨r, hr, rfl⟩ := List.mem_map.mp hw
    exact word_dq r (h r hr)) f (by simpa using hf)]
  rw [List.map_map]
  conv => rhs; rw [← List.map_id rs]
  apply List.map_congr_left
  intro r _
  exact qstrip_dq r

/-- … and the hypothesis is necessary: a rule name with a blank comes back as two (empty) names — nothing
is escaped on the way out, `split()` cuts inside the quotes on the way in, `_qstrip` drops a character at
each end of each piece. -/
theorem lrules_blank_breaks :
    (splitWs 9 (joinSp (["a b".toList].map dq))).map qstrip = [[], []] := by decide

end Verif.C14
