/-
C14 — characterization maps of REPP: composition of per-step maps (`_mergemap`, `REPP._trace`),
tokenization (`_tokenize`, `tokenize_result`), the independent provenance semantics, and the YY
token string form (`YYToken.__str__`, `YYTokenLattice.__str__/from_string`).
The rule-level model (`_process_match` …) is `Verif.C13.Model`.  Core Lean only.
-/
import Verif.C13.Model
import Verif.Common.Codec

namespace Verif.C14
open Verif.C13

/-! ### `_mergemap` and `REPP._trace` -/

/-- `xs[i]` with Python's index rule (negative indices count from the end); `none` = IndexError. -/
def pyGet (xs : List Int) (i : Int) : Option Int :=
  if 0 ≤ i then xs[i.toNat]?
  else if -(xs.length : Int) ≤ i then xs[((xs.length : Int) + i).toNat]?
  else none

/-- `for i, shift in enumerate(map2): merged[i] = shift + map1[i + shift]` from index `i` on. -/
def mergeAux (m1 : List Int) : List Int → Nat → Option (List Int)
  | [], _ => some []
  | sh :: r, i =>
    match pyGet m1 ((i : Int) + sh) with
    | none => none
    | some v =>
      match mergeAux m1 r (i + 1) with
      | none => none
      | some rest => some ((sh + v) :: rest)

def mergeMap (m1 m2 : List Int) : Option (List Int) := mergeAux m1 m2 0

/-- `startmap = _zeromap(s); startmap[0] = 1`. -/
def initStart (s : Str) : List Int := 1 :: List.replicate (s.length + 1) 0
/-- `endmap = _zeromap(s); endmap[-1] = -1`. -/
def initEnd (s : Str) : List Int := List.replicate (s.length + 1) 0 ++ [-1]

/-- the merging loop of `_trace` over the yielded steps (only applied steps are merged). -/
def mergeSteps : List Step → List Int → List Int → Option (List Int × List Int)
  | [], sm, em => some (sm, em)
  | st :: r, sm, em =>
    if st.applied then
      match mergeMap sm st.sm, mergeMap em st.em with
      | some sm', some em' => mergeSteps r sm' em'
      | _, _ => none
    else mergeSteps r sm em

structure Result where
  string : Str
  startmap : List Int
  endmap : List Int
deriving Repr, DecidableEq

/-- `REPP.apply(s)` / `last(REPP._trace(s, active, verbose))`, together with all yielded steps. -/
def apply (eng : Eng) (fuel : Nat) (ops : List Op) (s : Str) : Except Err (List Step × Result) :=
  match traceSteps eng fuel ops s with
  | .error e => .error e
  | .ok (st, o) =>
    match mergeSteps st (initStart s) (initEnd s) with
    | none => .error .indexError
    | some (sm, em) => .ok (st, ⟨o, sm, em⟩)

/-! ### `_tokenize` -/

structure Tok where
  cfrom : Int
  cto : Int
  form : Str
deriving Repr, DecidableEq

/-- one `toks.append((pos + sm[pos+1], e + em[e], s[pos:e]))`. -/
def mkTok (r : Result) (pos e : Nat) : Option Tok :=
  match pyGet r.startmap ((pos : Int) + 1), pyGet r.endmap (e : Int) with
  | some a, some b => some ⟨(pos : Int) + a, (e : Int) + b, slice r.string pos e⟩
  | _, _ => none

/-- the loop of `_tokenize` over the separator matches `(start, end)` from position `pos` on. -/
def tokLoop (r : Result) : List (Nat × Nat) → Nat → Option (List Tok)
  | [], pos =>
    if pos < r.string.length then (mkTok r pos r.string.length).map (fun t => [t]) else some []
  | (ms, me) :: rest, pos =>
    if pos < ms then
      match mkTok r pos ms, tokLoop r rest me with
      | some t, some ts => some (t :: ts)
      | _, _ => none
    else tokLoop r rest me

def tokenize (r : Result) (seps : List (Nat × Nat)) : Option (List Tok) := tokLoop r seps 0

/-! ### independent provenance semantics

`prov[j] = some p`: output character `j` IS original character `p`, carried over unchanged — it
lies outside every match, or inside a participating capture group that the template references in
order (the group starts at or after the end of everything of the match accounted for so far).
Everything else (literals, out-of-order or repeated groups, groups after the trackable prefix) is
inserted text: `none`. -/

abbrev Prov := List (Option Nat)

def idProv (a b : Nat) : Prov := (List.range (b - a)).map (fun k => some (a + k))
def noProv (n : Nat) : Prov := List.replicate n none

/-- provenance of the expansion of the trackable prefix of a template for one match, `cur` = end of
the matched material accounted for so far. -/
def provTracked (m : M) : List Seg → Nat → Prov × Nat
  | [], cur => ([], cur)
  | .lit l :: r, cur =>
    -- a literal stands for the matched text up to the next in-order group (or the end of the match)
    let e := nextStart m cur r
    let q := provTracked m r e
    (noProv l.length ++ q.1, q.2)
  | .grp g :: r, cur =>
    match m.span g with
    | none => provTracked m r cur
    | some (gs, ge) =>
      if gs < cur then
        let q := provTracked m r cur
        (noProv (ge - gs) ++ q.1, q.2)
      else
        let q := provTracked m r ge
        (idProv gs ge ++ q.1, q.2)

def provMatch (s : Str) (m : M) (tracked untracked : List Seg) : Prov :=
  (provTracked m tracked m.s).1 ++ noProv (expand s m untracked).length

def provRule (s : Str) (tracked untracked : List Seg) : List M → Nat → Prov
  | [], pos => idProv pos s.length
  | m :: ms, pos => idProv pos m.s ++ provMatch s m tracked untracked ++ provRule s tracked untracked ms m.e

/-- follow a character back through one more step. -/
def composeProv (acc step : Prov) : Prov := step.map (fun o => o.bind (fun j => (acc[j]?).join))

/-- provenance of one yielded step relative to the string before it: a rule step follows the
rule's matches on its input; mask and group-summary steps change nothing. -/
def stepProv (eng : Eng) (st : Step) : Prov :=
  match st.kind with
  | .rule id tr un => provRule st.inp tr un (eng id st.inp) 0
  | _ => idProv 0 st.out.length

/-- provenance after a list of steps, following every character back to the original input. -/
def provSteps (eng : Eng) : List Step → Prov → Prov
  | [], acc => acc
  | st :: r, acc => provSteps eng r (composeProv acc (stepProv eng st))

/-! ### specification vocabulary for the maps -/

/-- every entry of a step map is a valid index into a map of length `n + 2`. -/
def MapInRange (n : Nat) (m : List Int) : Prop :=
  ∀ (i : Nat) (v : Int), m[i]? = some v → 0 ≤ (i : Int) + v ∧ (i : Int) + v ≤ (n : Int) + 1

/-- `pv` attributes: output character `j` is original character `p`, both maps point from `j` to `p`. -/
def Attributes (orig out : Str) (sm em : List Int) (pv : Prov) : Prop :=
  pv.length = out.length ∧
  ∀ (j p : Nat), pv[j]? = some (some p) →
    p < orig.length ∧ out[j]? = orig[p]? ∧
    sm[j + 1]? = some ((p : Int) - (j : Int)) ∧ em[j + 1]? = some ((p : Int) - (j : Int))

/-- everything the rule-level analysis establishes about one rule application. -/
def RuleOK (s : Str) (ms : List M) (tr un : List Seg) : Prop :=
  let r := applyRule s ms tr un
  r.sm.length = r.out.length + 2 ∧ r.em.length = r.out.length + 2 ∧
  MapInRange s.length r.sm ∧ MapInRange s.length r.em ∧
  Attributes s r.out r.sm r.em (provRule s tr un ms 0)

/-- The Python expression `next((m.start(g) for _, g in tracked[i+1:] if g and m.start(g) >= pos), m.end())`
read literally: the list of starts of the later group references with a non-zero number that took part
in the match and start at or after `pos`; its first element, else the end of the match.  (Declarative
reading of `Verif.C13.nextStart`, which the provenance semantics `provTracked` uses; `nextStart_spec`.) -/
def nextStartSpec (m : M) (pos : Nat) (segs : List Seg) : Nat :=
  ((segs.filterMap (fun seg =>
      match seg with
      | .grp g => if g ≠ 0 then (m.span g).bind (fun sp => if pos ≤ sp.1 then some sp.1 else none) else none
      | .lit _ => none)).head?).getD m.e

/-- the separator matches of the tokenizer: ordered, non-overlapping, inside the string. -/
def ValidSeps (n : Nat) : Nat → List (Nat × Nat) → Prop
  | _, [] => True
  | pos, (a, b) :: r => pos ≤ a ∧ a ≤ b ∧ b ≤ n ∧ ValidSeps n b r

/-- plain splitting of `s` at the separator matches (what `re.split` gives). -/
def splitAt (s : Str) : List (Nat × Nat) → Nat → List Str
  | [], pos => [s.drop pos]
  | (a, b) :: r, pos => slice s pos a :: splitAt s r b

/-! ### YY tokens (`delphin/tokens.py`) for the token shapes `tokenize_result` builds -/

open Verif.Codec hiding Str

/-- A YY token with `lrules = ["null"]` and `pos = []` (what `tokenize_result` builds, with or
without a surface string). -/
structure YTok where
  id : Int
  start : Int
  stop : Int
  lnk : Lnk              -- `.unspec` or `.charspan`
  paths : List Int
  form : Str
  surface : Option Str
  ipos : Int
deriving Repr, DecidableEq

/-- `tokenize_result`: token `i` spans vertices `i..i+1`. -/
def latticeOf : List Tok → Nat → List YTok
  | [], _ => []
  | t :: r, i => ⟨i, i, (i : Int) + 1, .charspan t.cfrom t.cto, [1], t.form, none, 0⟩ :: latticeOf r (i + 1)

def quoted (s : Str) : Str := '"' :: escapeDQ s ++ ['"']

/-- `YYToken.__str__`. -/
def YTok.str (t : YTok) : Str :=
  '(' :: intStr t.id ++ ", ".toList ++ intStr t.start ++ ", ".toList ++ intStr t.stop ++ ", ".toList
    ++ (if t.lnk.truthy then t.lnk.str ++ ", ".toList else [])
    ++ joinSp ((if t.paths.isEmpty then [1] else t.paths).map intStr) ++ ", ".toList
    ++ (match t.surface with
        | none => quoted t.form
        | some sf => quoted t.form ++ ' ' :: quoted sf)
    ++ ", ".toList ++ intStr t.ipos ++ ", \"null\")".toList

/-- `YYTokenLattice.__str__`. -/
def latStr (ts : List YTok) : Str := joinSp (ts.map YTok.str)

/-- `\s` (ASCII part). -/
def isWs (c : Char) : Bool :=
  c = ' ' || c = '\t' || c = '\n' || c = '\r' || c = Char.ofNat 11 || c = Char.ofNat 12

def skipWs : Str → Str
  | [] => []
  | c :: r => if isWs c then skipWs r else c :: r

/-- `-?\d+` (greedy) and the text after it. -/
def scanInt (s : Str) : Option (Int × Str) :=
  match s with
  | '-' :: r =>
    let ds := r.takeWhile Char.isDigit
    if ds.isEmpty then none else (parseInt ('-' :: ds)).map (fun i => (i, r.dropWhile Char.isDigit))
  | _ =>
    let ds := s.takeWhile Char.isDigit
    if ds.isEmpty then none else (parseInt ds).map (fun i => (i, s.dropWhile Char.isDigit))

/-- `\s*,\s*`. -/
def scanComma (s : Str) : Option Str :=
  match skipWs s with
  | ',' :: r => some (skipWs r)
  | _ => none

/-- `{string}`: an opening quote, then `scanDQ`. -/
def scanString (s : Str) : Option (Str × Str) :=
  match s with
  | '"' :: r => scanDQ r
  | _ => none

/-- `(?:{integer}\s*)+` with fuel. -/
def scanPaths : Nat → Str → Option (List Int × Str)
  | 0, _ => none
  | f + 1, s =>
    match scanInt s with
    | none => none
    | some (i, r) =>
      let r' := skipWs r
      match scanPaths f r' with
      | some (is, r'') => some (i :: is, r'')
      | none => some ([i], r')

/-- `list(map(int, d['paths'].strip().split()))`: the regex `(?:-?\d+\s*)+` also accepts two integers
with no blank between them (`1-0`, `3 10-2`: a digit directly followed by `-` and a digit); splitting the
matched text on blanks then gives a piece that `int()` rejects — `from_string` raises ValueError.
`pathsGlued f s` = the paths text starting at `s` contains such a pair. -/
def pathsGlued : Nat → Str → Bool
  | 0, _ => false
  | f + 1, s =>
    match scanInt s with
    | none => false
    | some (_, r) => ((r.head? == some '-') && (scanInt r).isSome) || pathsGlued f (skipWs r)

/-- `(?:{string}\s*)+`: the raw strings. -/
def scanStrings : Nat → Str → Option (List Str × Str)
  | 0, _ => none
  | f + 1, s =>
    match scanString s with
    | none => none
    | some (a, r) =>
      let r' := skipWs r
      match scanStrings f r' with
      | some (as, r'') => some (a :: as, r'')
      | none => some ([a], r')

/-- `(?:<(?P<lnkfrom>int):(?P<lnkto>int)>{comma})?` -/
def scanLnk (s : Str) : Option (Lnk × Str) :=
  match s with
  | '<' :: r =>
    match scanInt r with
    | some (a, ':' :: r2) =>
      match scanInt r2 with
      | some (b, '>' :: r3) => (scanComma r3).map (fun r4 => (Lnk.charspan a b, r4))
      | _ => none
    | _ => none
  | _ => none

/-- `\d+` then the continuation. -/
def digitsThen (s : Str) (k : Str → Bool) : Bool :=
  let ds := s.takeWhile Char.isDigit
  !ds.isEmpty && k (s.dropWhile Char.isDigit)

/-- `[eE][-+]?\d+` then the continuation (the optional sign is given back when no digit follows it). -/
def expThen (s : Str) (k : Str → Bool) : Bool :=
  match s with
  | c :: r =>
    if c = 'e' || c = 'E' then
      (match r with
       | d :: r' => (d = '-' || d = '+') && digitsThen r' k
       | [] => false) || digitsThen r k
    else false
  | [] => false

/-- `{float}` = `-?(0|[1-9]\d*)(\.\d+[eE][-+]?|\.|[eE][-+]?)\d+` then the continuation; the three
alternatives of the middle group are tried in the regex's order. -/
def floatThen (s : Str) (k : Str → Bool) : Bool :=
  let s1 := match s with | '-' :: r => r | _ => s
  let afterInt : Option Str := match s1 with
    | '0' :: r => some r
    | c :: r => if c.isDigit then some (r.dropWhile Char.isDigit) else none
    | [] => none
  match afterInt with
  | none => false
  | some r =>
    (match r with
     | '.' :: r1 =>
       -- `\.\d+[eE][-+]?` `\d+`   |   `\.` `\d+`
       (let ds := r1.takeWhile Char.isDigit
        !ds.isEmpty && expThen (r1.dropWhile Char.isDigit) k) || digitsThen r1 k
     | _ => false) || expThen r k

/-- `(?:{string}\s+{float}\s*)+` followed by `\s*\)`: does the optional pos part of `_yy_re` match here? -/
def posThenClose : Nat → Str → Bool
  | 0, _ => false
  | f + 1, s =>
    match s with
    | '"' :: r =>
      match scanDQ r with
      | none => false
      | some (_, r1) =>
        match r1 with
        | c :: _ =>
          isWs c && floatThen (skipWs r1) (fun r2 =>
            let r3 := skipWs r2
            (match r3 with | ')' :: _ => true | _ => false) || posThenClose f r3)
        | [] => false
    | _ => false

inductive MT where
  | nomatch                          -- `_yy_re` does not match at this position
  | unmodelled                       -- it matches a token with lrules ≠ ["null"] or with pos tags
  | valueError                       -- it matches, but `int()` of a piece of the paths text raises ValueError
  | tok (t : YTok) (rest : Str)
deriving Repr, DecidableEq

def optBind {α} (o : Option α) (f : α → MT) : MT := match o with | none => .nomatch | some a => f a

/-- `_yy_re` tried at the start of `s` (the token classes of the regex are disjoint, so the
deterministic left-to-right reading agrees with the backtracking engine). -/
def matchTok (s : Str) : MT :=
  match s with
  | '(' :: r0 =>
    optBind (scanInt (skipWs r0)) fun (id, r1) =>
    optBind (scanComma r1) fun r2 =>
    optBind (scanInt r2) fun (st, r3) =>
    optBind (scanComma r3) fun r4 =>
    optBind (scanInt r4) fun (en, r5) =>
    optBind (scanComma r5) fun r6 =>
    let (lnk, r7) := match scanLnk r6 with
      | some (l, r) => (l, r)
      | none => (Lnk.unspec, r6)
    optBind (scanPaths (r7.length + 1) r7) fun (paths, r8) =>
    optBind (scanComma r8) fun r9 =>
    optBind (scanString r9) fun (form, r10) =>
    let (surface, r11) := match scanString (skipWs r10) with
      | some (sf, r) => (some sf, r)
      | none => (none, r10)
    optBind (scanComma r11) fun r12 =>
    optBind (scanInt r12) fun (ipos, r13) =>
    optBind (scanComma r13) fun r14 =>
    optBind (scanStrings (r14.length + 1) r14) fun (lrules, r15) =>
    match skipWs r15 with
    | ')' :: r16 =>
      if pathsGlued (r7.length + 1) r7 then .valueError
      else if lrules = ["null".toList] then
        .tok ⟨id, st, en, lnk, paths, unescapeDQ form, surface.map unescapeDQ, ipos⟩ r16
      else .unmodelled
    | ',' :: r16 =>
      -- `(?:{comma}(?P<pos>…))?\s*\)`: a token with pos tags (outside the modelled shapes) only if that
      -- optional part really matches up to the closing parenthesis; otherwise the regex does not match here
      if posThenClose (r16.length + 1) (skipWs r16) then
        (if pathsGlued (r7.length + 1) r7 then .valueError else .unmodelled)
      else .nomatch
    | _ => .nomatch
  | _ => .nomatch

/-- `_yy_re.finditer(s)`: `none` = a token outside the modelled shapes was met, or `from_string` raises
ValueError (glued paths); the driver protocol has one answer for both. -/
def yyParse : Nat → Str → Option (List YTok)
  | 0, _ => some []
  | _ + 1, [] => some []
  | f + 1, c :: r =>
    match matchTok (c :: r) with
    | .nomatch => yyParse f r
    | .unmodelled => none
    | .valueError => none
    | .tok t rest => (yyParse f rest).map (t :: ·)

def latParse (s : Str) : Option (List YTok) := yyParse (s.length + 1) s

end Verif.C14
