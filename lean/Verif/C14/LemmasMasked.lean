/- C14 — lemmas for programs with masks: structure of the masked trace, the merging loop over it. -/
import Verif.C13.Lemmas
import Verif.C13.MaskLemmas
import Verif.C14.Masked
import Verif.C14.LemmasRule
import Verif.C14.LemmasMerge
import Verif.C14.LemmasTok

namespace Verif.C14.L
open Verif.C13

/-! ### `lastMask` -/

theorem lastMask_cons_ne (x : StepM) (r : List StepM) (a b : MaskA) : lastMask (x :: r) a = lastMask (x :: r) b := by
  induction r generalizing x with
  | nil => simp only [lastMask]
  | cons y r ih => simp only [lastMask]; exact ih y

theorem lastMask_append (a b : List StepM) (mk : MaskA) : lastMask (a ++ b) mk = lastMask b (lastMask a mk) := by
  induction a with
  | nil => simp only [List.nil_append, lastMask]
  | cons x r ih =>
    cases r with
    | nil =>
      cases b with
      | nil => simp only [List.append_nil, lastMask]
      | cons y b => simp only [List.cons_append, List.nil_append, lastMask]; exact lastMask_cons_ne y b _ _
    | cons y r =>
      simp only [List.cons_append, lastMask] at ih ⊢
      exact ih

theorem lastMask_snoc (a : List StepM) (x : StepM) (mk : MaskA) : lastMask (a ++ [x]) mk = x.mask := by
  rw [lastMask_append]; simp only [lastMask]

theorem lastOutM_append (a b : List StepM) (s : Str) :
    lastOut ((a ++ b).map (·.step)) s = lastOut (b.map (·.step)) (lastOut (a.map (·.step)) s) := by
  rw [List.map_append, Verif.C13.L.lastOut_append]

theorem lastOutM_snoc (a : List StepM) (x : StepM) (s : Str) : lastOut ((a ++ [x]).map (·.step)) s = x.step.out := by
  rw [List.map_append, List.map_cons, List.map_nil, Verif.C13.L.lastOut_snoc]

/-! ### structure of the masked trace -/

theorem traceFromM_append (eng : Eng) (a b c : Str) (ma mb mc : MaskA) (st1 st2 : List StepM)
    (h1 : TraceFromM eng a ma st1 b mb) (h2 : TraceFromM eng b mb st2 c mc) :
    TraceFromM eng a ma (st1 ++ st2) c mc := by
  induction st1 generalizing a ma with
  | nil =>
    simp only [TraceFromM] at h1
    obtain ⟨e1, e2⟩ := h1
    subst e1 e2
    exact h2
  | cons st r ih =>
    rcases st with ⟨⟨k, i, ou, ap, sm, em⟩, mk⟩
    cases k with
    | rule id tr un =>
      simp only [List.cons_append, TraceFromM] at h1 ⊢
      exact ⟨h1.1, ih _ _ h1.2⟩
    | mask id =>
      simp only [List.cons_append, TraceFromM] at h1 ⊢
      exact ⟨h1.1, ih _ _ h1.2⟩
    | group =>
      simp only [List.cons_append, TraceFromM] at h1 ⊢
      exact ⟨h1.1, h1.2.1, ih _ _ h1.2.2⟩

theorem traceM_joint (eng meng : Eng) (f : Nat) :
    (∀ op s mk st, applyOpM eng meng f op s mk = some st →
      TraceFromM eng s mk st (lastOut (st.map (·.step)) s) (lastMask st mk)) ∧
    (∀ ops s mk st o mk2, applyOpsM eng meng f ops s mk = some (st, o, mk2) → TraceFromM eng s mk st o mk2) ∧
    (∀ ops s mk st, groupApplyM eng meng f ops s mk = some st →
      TraceFromM eng s mk st (lastOut (st.map (·.step)) s) (lastMask st mk)) ∧
    (∀ ops s mk st, iterApplyM eng meng f ops s mk = some st →
      TraceFromM eng s mk st (lastOut (st.map (·.step)) s) (lastMask st mk)) := by
  induction f with
  | zero =>
    refine ⟨?_, ?_, ?_, ?_⟩
    · intro op s mk st h; simp only [applyOpM] at h; cases h
    · intro ops s mk st o mk2 h; simp only [applyOpsM] at h; cases h
    · intro ops s mk st h; simp only [groupApplyM] at h; cases h
    · intro ops s mk st h; simp only [iterApplyM] at h; cases h
  | succ f ih =>
    obtain ⟨h1, h2, h3, h4⟩ := ih
    refine ⟨?_, ?_, ?_, ?_⟩
    · intro op s mk st h
      cases op with
      | rule id tr un =>
        simp only [applyOpM, Option.some.injEq] at h
        subst h
        simp only [TraceFromM, ruleStepM, List.map_cons, List.map_nil, lastOut, lastMask, and_self]
      | mask id =>
        simp only [applyOpM] at h
        cases hm : maskApply mk (meng id s) mk with
        | none => simp only [hm] at h; cases h
        | some nw =>
          simp only [hm, Option.some.injEq] at h
          subst h
          simp only [TraceFromM, maskStep, List.map_cons, List.map_nil, lastOut, lastMask, and_self]
      | iter ops => simp only [applyOpM] at h; exact h4 ops s mk st h
      | ext a ops =>
        simp only [applyOpM] at h
        cases a with
        | true => simp only [if_true] at h; exact h3 ops s mk st h
        | false =>
          simp only [Bool.false_eq_true, if_false, Option.some.injEq] at h
          subst h
          simp only [TraceFromM, List.map_nil, lastOut, lastMask, and_self]
    · intro ops s mk st o mk2 h
      cases ops with
      | nil =>
        simp only [applyOpsM, Option.some.injEq, Prod.mk.injEq] at h
        obtain ⟨e1, e2, e3⟩ := h
        subst e1 e2 e3
        simp only [TraceFromM, and_self]
      | cons op r =>
        simp only [applyOpsM] at h
        cases hop : applyOpM eng meng f op s mk with
        | none => simp only [hop] at h; cases h
        | some st1 =>
          simp only [hop] at h
          cases hops : applyOpsM eng meng f r (lastOut (st1.map (·.step)) s) (lastMask st1 mk) with
          | none => simp only [hops] at h; cases h
          | some p =>
            obtain ⟨st2, o2, m2⟩ := p
            simp only [hops, Option.some.injEq, Prod.mk.injEq] at h
            obtain ⟨e1, e2, e3⟩ := h
            subst e1 e2 e3
            exact traceFromM_append eng _ _ _ _ _ _ _ _ (h1 op s mk st1 hop) (h2 r _ _ st2 o2 m2 hops)
    · intro ops s mk st h
      simp only [groupApplyM] at h
      cases hops : applyOpsM eng meng f ops s mk with
      | none => simp only [hops] at h; cases h
      | some p =>
        obtain ⟨st1, o, m2⟩ := p
        simp only [hops, Option.some.injEq] at h
        subst h
        rw [lastOutM_snoc, lastMask_snoc]
        refine traceFromM_append eng s o _ mk m2 _ st1 _ (h2 ops s mk st1 o m2 hops) ?_
        simp only [TraceFromM, summaryStep, and_self, and_true]
        exact ⟨s, _, rfl⟩
    · intro ops s mk st h
      simp only [iterApplyM] at h
      cases hg : groupApplyM eng meng f ops s mk with
      | none => simp only [hg] at h; cases h
      | some st1 =>
        simp only [hg] at h
        by_cases ho : lastOut (st1.map (·.step)) s = s
        · simp only [ho, if_true, Option.some.injEq] at h
          subst h
          exact h3 ops s mk st1 hg
        · simp only [ho, if_false] at h
          cases hi : iterApplyM eng meng f ops (lastOut (st1.map (·.step)) s) (lastMask st1 mk) with
          | none => simp only [hi] at h; cases h
          | some st2 =>
            simp only [hi, Option.some.injEq] at h
            subst h
            rw [lastOutM_append, lastMask_append]
            exact traceFromM_append eng _ _ _ _ _ _ _ _ (h3 ops s mk st1 hg) (h4 ops _ _ st2 hi)

/-- every masked trace has the `TraceFromM` structure, starting from the all-zero mask. -/
theorem traceStepsM_structure (eng meng : Eng) (f : Nat) (ops : List Op) (s : Str) (stm : List StepM) (o : Str)
    (h : traceStepsM eng meng f ops s = .ok (stm, o)) :
    TraceFromM eng s (zeroMask s) stm o (lastMask stm (zeroMask s)) := by
  unfold traceStepsM at h
  cases hg : groupApplyM eng meng f ops s (zeroMask s) with
  | none => rw [hg] at h; cases h
  | some st =>
    rw [hg] at h
    simp only [Except.ok.injEq, Prod.mk.injEq] at h
    obtain ⟨e1, e2⟩ := h
    subst e1 e2
    exact (traceM_joint eng meng f).2.2.1 ops s (zeroMask s) st hg

/-! ### one rule step under a mask -/

/-- no match survives the blocking tests (or there is none): string unchanged, not applied. -/
theorem applyRuleM_no_live (s : Str) (ms : List M) (mk : MaskA) (tr un : List Seg)
    (h : liveMatches s ms mk tr un = []) :
    (applyRuleM s ms mk tr un).res.out = s ∧ (applyRuleM s ms mk tr un).res.applied = false := by
  cases ms with
  | nil => simp only [applyRuleM, List.isEmpty_nil, if_true, and_self]
  | cons m r =>
    have hb : ∀ x ∈ m :: r, (blockedM s x mk tr un).1 = true := by
      intro x hx
      unfold liveMatches at h
      rw [List.filter_eq_nil_iff] at h
      have := h x hx
      simpa using this
    obtain ⟨h1, h2, _, _⟩ := Verif.C13.L.applyRuleM_all_blocked s (m :: r) mk tr un (by simp) hb
    exact ⟨h1, h2⟩

theorem applyRule_applied (s : Str) (ms : List M) (tr un : List Seg) (h : ms ≠ []) :
    (applyRule s ms tr un).applied = true := by
  unfold applyRule
  cases ms with
  | nil => exact absurd rfl h
  | cons a b => simp only [List.isEmpty_cons, Bool.false_eq_true, if_false]

/-! ### the merging loop over a masked trace -/

theorem mainM (eng : Eng) (hv : EngValid eng) (s : Str) :
    ∀ (st : List StepM) (cur : Str) (mk : MaskA) (A E : List Int) (acc : Prov) (o : Str) (mo : MaskA),
      TraceFromM eng cur mk st o mo → Inv s cur A E acc →
      ∃ sm em, mergeSteps (st.map (·.step)) A E = some (sm, em) ∧ Inv s o sm em (provStepsM eng st mk acc) := by
  intro st
  induction st with
  | nil =>
    intro cur mk A E acc o mo ht hi
    simp only [TraceFromM] at ht
    obtain ⟨e1, _⟩ := ht
    subst e1
    exact ⟨A, E, rfl, hi⟩
  | cons x r ih =>
    intro cur mk A E acc o mo ht hi
    rcases x with ⟨⟨kind, inp, out, applied, xsm, xem⟩, xmk⟩
    cases kind with
    | rule id tr un =>
      simp only [TraceFromM] at ht
      obtain ⟨hx, ht'⟩ := ht
      simp only [ruleStepM, StepM.mk.injEq, Step.mk.injEq, true_and] at hx
      obtain ⟨⟨e1, e2, e3, e4, e5⟩, e6⟩ := hx
      have hP : stepProvM eng mk ⟨⟨.rule id tr un, inp, out, applied, xsm, xem⟩, xmk⟩
          = provRule cur tr un (liveMatches cur (eng id cur) mk tr un) 0 := by
        simp only [stepProvM, e1]
      simp only [provStepsM, hP, List.map_cons]
      by_cases hl : liveMatches cur (eng id cur) mk tr un = []
      · obtain ⟨ho, ha⟩ := applyRuleM_no_live cur (eng id cur) mk tr un hl
        rw [ho] at e2
        rw [ha] at e3
        subst e2 e3
        rw [hl]
        have hid : provRule out tr un [] 0 = idProv 0 out.length := rfl
        rw [hid]
        obtain ⟨_, _, h3⟩ := inv_zero s out A E acc _ hi (attr_id out)
        obtain ⟨sm2, em2, h4, h5⟩ := ih out xmk A E _ o mo ht' h3
        refine ⟨sm2, em2, ?_, h5⟩
        simp only [mergeSteps, Bool.false_eq_true, if_false]
        exact h4
      · have hres := Verif.C13.L.applyRuleM_live cur (eng id cur) mk tr un hl
        rw [hres] at e2 e3 e4 e5
        have hok := ruleOK cur (liveMatches cur (eng id cur) mk tr un) tr un
          (Verif.C13.L.liveMatches_valid cur (eng id cur) mk tr un (hv id cur))
        simp only [RuleOK] at hok
        obtain ⟨l1, l2, r1, r2, hat⟩ := hok
        have happ := applyRule_applied cur (liveMatches cur (eng id cur) mk tr un) tr un hl
        rw [happ] at e3
        subst e2 e3 e4 e5
        obtain ⟨sm, em, h1, h2, h3⟩ := inv_step s cur _ A E _ _ acc _ hi l1 l2 r1 r2 hat
        obtain ⟨sm2, em2, h4, h5⟩ := ih _ xmk sm em _ o mo ht' h3
        refine ⟨sm2, em2, ?_, h5⟩
        simp only [mergeSteps, h1, h2, if_true]
        exact h4
    | mask id =>
      simp only [TraceFromM] at ht
      obtain ⟨hx, ht'⟩ := ht
      simp only [maskStep, Step.mk.injEq, true_and] at hx
      obtain ⟨e1, e2, e3, e4, e5⟩ := hx
      have hP : stepProvM eng mk ⟨⟨.mask id, inp, out, applied, xsm, xem⟩, xmk⟩ = idProv 0 cur.length := by
        simp only [stepProvM, e2]
      simp only [provStepsM, hP, List.map_cons]
      obtain ⟨zA, zE, h3⟩ := inv_zero s cur A E acc _ hi (attr_id cur)
      obtain ⟨sm2, em2, h4, h5⟩ := ih cur xmk A E _ o mo ht' h3
      refine ⟨sm2, em2, ?_, h5⟩
      rw [mergeSteps_cons_zero _ _ cur A E e4 e5 zA zE]
      exact h4
    | group =>
      simp only [TraceFromM] at ht
      obtain ⟨⟨a, b, hx⟩, hm, ht'⟩ := ht
      simp only [summaryStep, Step.mk.injEq, true_and] at hx
      obtain ⟨e1, e2, e3, e4, e5⟩ := hx
      have hP : stepProvM eng mk ⟨⟨.group, inp, out, applied, xsm, xem⟩, xmk⟩ = idProv 0 cur.length := by
        simp only [stepProvM, e2]
      simp only [provStepsM, hP, List.map_cons]
      subst hm
      obtain ⟨zA, zE, h3⟩ := inv_zero s cur A E acc _ hi (attr_id cur)
      obtain ⟨sm2, em2, h4, h5⟩ := ih cur xmk A E _ o mo ht' h3
      refine ⟨sm2, em2, ?_, h5⟩
      rw [mergeSteps_cons_zero _ _ cur A E e4 e5 zA zE]
      exact h4

/-- Program level with masks: along any masked trace the merging loop never raises, the final maps
have one entry per output position plus two sentinels, attribute every carried-over character
(blocked matches included) to its origin, and every reported span lies inside the original. -/
theorem mergeStepsM_spec (eng : Eng) (hv : EngValid eng) (s : Str) (st : List StepM) (o : Str) (mo : MaskA)
    (ht : TraceFromM eng s (zeroMask s) st o mo) :
    ∃ sm em, mergeSteps (st.map (·.step)) (initStart s) (initEnd s) = some (sm, em) ∧
      sm.length = o.length + 2 ∧ em.length = o.length + 2 ∧
      Attributes s o sm em (provStepsM eng st (zeroMask s) (idProv 0 s.length)) ∧
      (∀ (j : Nat) (a b : Int), j < o.length → sm[j + 1]? = some a → em[j + 1]? = some b →
        0 ≤ (j : Int) + a ∧ (j : Int) + a ≤ s.length ∧ 0 ≤ (j : Int) + 1 + b ∧ (j : Int) + 1 + b ≤ s.length) := by
  obtain ⟨sm, em, h1, hA, hE, rA, rE, hat⟩ := mainM eng hv s st s _ _ _ _ o mo ht (inv_init s)
  refine ⟨sm, em, h1, hA, hE, hat, ?_⟩
  intro j a b _ ha hb
  have := rA _ _ ha
  have := rE _ _ hb
  omega

/-! ### tokens of any result whose maps have the right length and stay inside the original -/

private theorem pyGet_nat' (xs : List Int) (i : Int) (n : Nat) (h : i = (n : Int)) : pyGet xs i = xs[n]? := by
  subst h
  unfold pyGet
  rw [if_pos (Int.natCast_nonneg n), Int.toNat_natCast]

private theorem getElem?_some_of_lt' (xs : List Int) (n : Nat) (h : n < xs.length) : ∃ v, xs[n]? = some v :=
  ⟨xs[n], List.getElem?_eq_getElem h⟩

/-- generic in the program facts (lengths, spans inside): every token has both ends inside the original. -/
theorem tokens_within_of_facts (n : Nat) (res : Result)
    (h1 : res.startmap.length = res.string.length + 2) (h2 : res.endmap.length = res.string.length + 2)
    (h4 : ∀ (j : Nat) (a b : Int), j < res.string.length → res.startmap[j + 1]? = some a → res.endmap[j + 1]? = some b →
      0 ≤ (j : Int) + a ∧ (j : Int) + a ≤ n ∧ 0 ≤ (j : Int) + 1 + b ∧ (j : Int) + 1 + b ≤ n)
    (seps : List (Nat × Nat)) (hs : ValidSeps res.string.length 0 seps) (toks : List Tok)
    (ht : tokenize res seps = some toks) :
    ∀ t ∈ toks, 0 ≤ t.cfrom ∧ t.cfrom ≤ n ∧ 0 ≤ t.cto ∧ t.cto ≤ n := by
  intro t htm
  obtain ⟨a, b, hab, hb, hmk⟩ := tokenize_mem res seps toks hs ht t htm
  unfold mkTok at hmk
  rw [pyGet_nat' res.startmap ((a : Int) + 1) (a + 1) (by omega), pyGet_nat' res.endmap (b : Int) b rfl] at hmk
  obtain ⟨x, hx⟩ := getElem?_some_of_lt' res.startmap (a + 1) (by omega)
  obtain ⟨y', hy'⟩ := getElem?_some_of_lt' res.endmap (a + 1) (by omega)
  obtain ⟨x', hx'⟩ := getElem?_some_of_lt' res.startmap (b - 1 + 1) (by omega)
  obtain ⟨y, hy⟩ := getElem?_some_of_lt' res.endmap (b - 1 + 1) (by omega)
  have ha := h4 a x y' (by omega) hx hy'
  have hbb := h4 (b - 1) x' y (by omega) hx' hy
  have eb : b - 1 + 1 = b := by omega
  rw [eb] at hy
  rw [hx, hy] at hmk
  simp only [Option.some.injEq] at hmk
  subst hmk
  simp only
  omega

end Verif.C14.L
