/- C14 — lemmas about `str.split()` / `_qstrip` on printed YY fields (YYX.lean). -/
import Verif.C14.YYX

namespace Verif.C14
open Verif.C13
open Verif.Codec hiding Str

/-- a word `split()` keeps whole: non-empty, no blank. -/
def Word (w : Str) : Prop := w ≠ [] ∧ ∀ c ∈ w, isWs c = false

theorem dropWhile_ws_word (w rest : Str) (h : Word w) : (w ++ rest).dropWhile isWs = w ++ rest := by
  obtain ⟨hne, hall⟩ := h
  cases w with
  | nil => exact absurd rfl hne
  | cons c t => simp [hall c (by simp)]

theorem splitWs_sp (f : Nat) (x : Str) : splitWs (f + 1) (' ' :: x) = splitWs (f + 1) x := by
  have h : isWs ' ' = true := by decide
  simp only [splitWs, List.dropWhile_cons, h, if_true]

theorem takeWhile_word (w rest : Str) (h : Word w) :
    (w ++ ' ' :: rest).takeWhile (fun c => !isWs c) = w ∧ (w ++ ' ' :: rest).dropWhile (fun c => !isWs c) = ' ' :: rest := by
  have hall : ∀ a ∈ w, (fun c => !isWs c) a = true := by
    intro a ha; simp [h.2 a ha]
  have hsp : isWs ' ' = true := by decide
  constructor
  · rw [List.takeWhile_append_of_pos hall]; simp [List.takeWhile, hsp]
  · rw [List.dropWhile_append_of_pos hall]; simp [List.dropWhile, hsp]

theorem takeWhile_word_end (w : Str) (h : Word w) :
    w.takeWhile (fun c => !isWs c) = w ∧ w.dropWhile (fun c => !isWs c) = [] := by
  have hall : ∀ a ∈ w, (fun c => !isWs c) a = true := by
    intro a ha; simp [h.2 a ha]
  have a := List.takeWhile_append_of_pos (l₂ := ([] : Str)) hall
  have b := List.dropWhile_append_of_pos (l₂ := ([] : Str)) hall
  simp only [List.append_nil, List.takeWhile_nil, List.dropWhile_nil] at a b
  exact ⟨a, b⟩

theorem splitWs_nil (f : Nat) : splitWs f [] = [] := by
  cases f <;> simp [splitWs]

/-- `split()` of blank-joined words gives the words back. -/
theorem splitWs_join : ∀ (ws : List Str), (∀ w ∈ ws, Word w) → ∀ f, ws.length ≤ f → splitWs f (joinSp ws) = ws := by
  intro ws
  induction ws with
  | nil => intro _ f _; simp only [joinSp]; exact splitWs_nil f
  | cons w rest ih =>
    intro hw f hf
    have hw0 := hw w (by simp)
    cases f with
    | zero => simp at hf
    | succ f =>
      cases rest with
      | nil =>
        have hd := dropWhile_ws_word w [] hw0
        simp only [List.append_nil] at hd
        obtain ⟨t1, t2⟩ := takeWhile_word_end w hw0
        have hne : w.isEmpty = false := by
          cases w with
          | nil => exact absurd rfl hw0.1
          | cons _ _ => rfl
        simp only [joinSp, splitWs, hd, hne, Bool.false_eq_true, if_false, t1, t2, splitWs_nil]
      | cons w2 r =>
        have hd := dropWhile_ws_word w (' ' :: joinSp (w2 :: r)) hw0
        obtain ⟨t1, t2⟩ := takeWhile_word w (joinSp (w2 :: r)) hw0
        have hne : (w ++ ' ' :: joinSp (w2 :: r)).isEmpty = false := by
          cases w with
          | nil => exact absurd rfl hw0.1
          | cons _ _ => rfl
        have hrec := ih (fun x hx => hw x (by simp [hx])) f (by simp at hf ⊢; omega)
        cases f with
        | zero => simp at hf
        | succ f' =>
          have e : joinSp (w :: w2 :: r) = w ++ ' ' :: joinSp (w2 :: r) := rfl
          rw [e]
          show splitWs (f' + 1 + 1) (w ++ ' ' :: joinSp (w2 :: r)) = _
          rw [splitWs]
          simp only [hd, hne, Bool.false_eq_true, if_false, t1, t2, splitWs_sp, hrec]

theorem qstrip_dq (r : Str) : qstrip (dq r) = r := by
  simp [qstrip, dq]

theorem word_dq (r : Str) (h : ∀ c ∈ r, isWs c = false) : Word (dq r) := by
  refine ⟨by simp [dq], ?_⟩
  intro c hc
  simp only [dq, List.mem_cons, List.mem_append, List.not_mem_nil, or_false] at hc
  rcases hc with (rfl | hc) | rfl
  · decide
  · exact h c hc
  · decide

end Verif.C14
