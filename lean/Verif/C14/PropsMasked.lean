/-
C14 — property theorems for programs WITH mask rules before rewrite rules (the mask-threading
semantics `Verif.C13.traceStepsM`): the clauses of C14 hold of `applyM` for every program, fuel and
input, whatever is blocked.  A blocked match is not rewritten; its characters count as carried over.
The regex engines (`eng` for rules, `meng` for mask patterns) are parameters; only `EngValid eng`
is needed (the mask engine's answers only decide which matches are blocked).
-/
import Verif.C13.Link
import Verif.C14.LemmasMasked
import Verif.C14.LemmasCompose

namespace Verif.C14
open Verif.C13

/-! ## "the start and end offset maps have one entry per output position plus two sentinels, every
reported span lies within the original string, and every output character that was carried over
unchanged … is attributed to exactly its original position" — with masks -/

/-- the merging loop of `_trace` never raises IndexError on a masked trace. -/
theorem applyM_no_indexError (eng meng : Eng) (hv : EngValid eng) (f : Nat) (ops : List Op) (s : Str) :
    applyM eng meng f ops s ≠ .error .indexError := by
  unfold applyM
  cases ht : traceStepsM eng meng f ops s with
  | error e =>
    simp only
    unfold traceStepsM at ht
    cases hg : groupApplyM eng meng f ops s (zeroMask s) with
    | none => rw [hg] at ht; cases ht; simp
    | some st => rw [hg] at ht; cases ht
  | ok p =>
    obtain ⟨st, o⟩ := p
    have htf := L.traceStepsM_structure eng meng f ops s st o ht
    obtain ⟨sm, em, hm, -⟩ := L.mergeStepsM_spec eng hv s st o _ htf
    simp only [hm]
    intro h; cases h

/-- Whole programs with masks: lengths, exact attribution of every carried-over character — followed
back through all steps by `provStepsM`, which at a rule step follows only the matches that are not
blocked under the mask in force — and all spans inside the original. -/
theorem provenance_program_masked (eng meng : Eng) (hv : EngValid eng) (f : Nat) (ops : List Op) (s : Str)
    (st : List StepM) (res : Result) (h : applyM eng meng f ops s = .ok (st, res)) :
    res.startmap.length = res.string.length + 2 ∧ res.endmap.length = res.string.length + 2 ∧
    Attributes s res.string res.startmap res.endmap (provStepsM eng st (zeroMask s) (idProv 0 s.length)) ∧
    (∀ (j : Nat) (a b : Int), j < res.string.length → res.startmap[j + 1]? = some a → res.endmap[j + 1]? = some b →
      0 ≤ (j : Int) + a ∧ (j : Int) + a ≤ s.length ∧ 0 ≤ (j : Int) + 1 + b ∧ (j : Int) + 1 + b ≤ s.length) := by
  unfold applyM at h
  cases ht : traceStepsM eng meng f ops s with
  | error e => rw [ht] at h; cases h
  | ok p =>
    obtain ⟨st', o⟩ := p
    rw [ht] at h
    have htf := L.traceStepsM_structure eng meng f ops s st' o ht
    obtain ⟨sm, em, hm, h1, h2, h3, h4⟩ := L.mergeStepsM_spec eng hv s st' o _ htf
    simp only [hm, Except.ok.injEq, Prod.mk.injEq] at h
    obtain ⟨rfl, rfl⟩ := h
    exact ⟨h1, h2, h3, h4⟩

/-- every yielded step of a masked run is the rule's own step on the current string and mask, a mask
step, or a group summary (the structure `provStepsM` walks). -/
theorem applyM_trace (eng meng : Eng) (f : Nat) (ops : List Op) (s : Str) (st : List StepM) (res : Result)
    (h : applyM eng meng f ops s = .ok (st, res)) :
    TraceFromM eng s (zeroMask s) st res.string (lastMask st (zeroMask s)) := by
  unfold applyM at h
  cases ht : traceStepsM eng meng f ops s with
  | error e => rw [ht] at h; cases h
  | ok p =>
    obtain ⟨st', o⟩ := p
    rw [ht] at h
    have htf := L.traceStepsM_structure eng meng f ops s st' o ht
    cases hm : mergeSteps (st'.map (·.step)) (initStart s) (initEnd s) with
    | none => simp only [hm] at h; cases h
    | some q =>
      obtain ⟨sm, em⟩ := q
      simp only [hm, Except.ok.injEq, Prod.mk.injEq] at h
      obtain ⟨rfl, rfl⟩ := h
      exact htf

/-- a rule step all of whose matches are blocked (or that has none) carries every character over:
its provenance is the identity. -/
theorem blocked_step_identity (eng : Eng) (mk xmk : MaskA) (id : Nat) (tr un : List Seg) (inp out : Str)
    (ap : Bool) (sm em : List Int) (h : liveMatches inp (eng id inp) mk tr un = []) :
    stepProvM eng mk ⟨⟨.rule id tr un, inp, out, ap, sm, em⟩, xmk⟩ = idProv 0 inp.length := by
  simp only [stepProvM, h]
  rfl

/-- a program without mask rules: `applyM` is `apply` (same string, same maps, same steps). -/
theorem applyM_maskFree (eng meng : Eng) (f : Nat) (ops : List Op) (s : Str) (hf : opsMaskFree ops = true) :
    (applyM eng meng f ops s).map (fun p => (p.1.map (·.step), p.2)) = apply eng f ops s := by
  have hm := Verif.C13.L.traceStepsM_maskFree eng meng f ops s hf
  unfold applyM apply
  rw [← hm]
  cases ht : traceStepsM eng meng f ops s with
  | error e => rfl
  | ok p =>
    obtain ⟨stm, o⟩ := p
    simp only [Except.map]
    cases hq : mergeSteps (stm.map (·.step)) (initStart s) (initEnd s) with
    | none => rfl
    | some q => rfl

/-! ## tokens of a masked run -/

/-- "a token consisting only of contiguous carried-over characters satisfies original[from:to] == form". -/
theorem token_text_masked (eng meng : Eng) (hv : EngValid eng) (f : Nat) (ops : List Op) (s : Str)
    (st : List StepM) (res : Result) (h : applyM eng meng f ops s = .ok (st, res))
    (a b p : Nat) (hab : a < b) (hb : b ≤ res.string.length)
    (hc : ∀ k, k < b - a → (provStepsM eng st (zeroMask s) (idProv 0 s.length))[a + k]? = some (some (p + k))) :
    mkTok res a b = some ⟨(p : Int), ((p + (b - a) : Nat) : Int), slice s p (p + (b - a))⟩ := by
  obtain ⟨-, -, hat, -⟩ := provenance_program_masked eng meng hv f ops s st res h
  apply L.mkTok_carried s res a b p hab hb
  intro k hk
  obtain ⟨h1, h2, h3, h4⟩ := hat.2 (a + k) (p + k) (hc k hk)
  exact ⟨h1, h2, h3, h4⟩

/-- every token of a masked run has both ends inside the original. -/
theorem tokens_within_masked (eng meng : Eng) (hv : EngValid eng) (f : Nat) (ops : List Op) (s : Str)
    (st : List StepM) (res : Result) (h : applyM eng meng f ops s = .ok (st, res))
    (seps : List (Nat × Nat)) (hs : ValidSeps res.string.length 0 seps) (toks : List Tok)
    (ht : tokenize res seps = some toks) :
    ∀ t ∈ toks, 0 ≤ t.cfrom ∧ t.cfrom ≤ s.length ∧ 0 ≤ t.cto ∧ t.cto ≤ s.length := by
  obtain ⟨h1, h2, -, h4⟩ := provenance_program_masked eng meng hv f ops s st res h
  exact L.tokens_within_of_facts s.length res h1 h2 h4 seps hs toks ht

/-- tokenization of a masked run never raises, and "the token lattice survives YY serialization and
parsing unchanged" with no side condition. -/
theorem yy_roundtrip_tokenize_masked (eng meng : Eng) (hv : EngValid eng) (f : Nat) (ops : List Op) (s : Str)
    (st : List StepM) (res : Result) (h : applyM eng meng f ops s = .ok (st, res))
    (seps : List (Nat × Nat)) (hs : ValidSeps res.string.length 0 seps) :
    ∃ toks, tokenize res seps = some toks ∧ latParse (latStr (latticeOf toks 0)) = some (latticeOf toks 0) := by
  obtain ⟨h1, h2, -, -⟩ := provenance_program_masked eng meng hv f ops s st res h
  obtain ⟨toks, ht⟩ := L.tokenize_ok res seps hs h1 h2
  exact ⟨toks, ht, L.yy_roundtrip_lattice toks
    (fun t htm => (tokens_within_masked eng meng hv f ops s st res h seps hs toks ht t htm).1)⟩

/-! ## tie to the function the driver runs on programs with masks -/

/-- `Verif.C13.Link.afterLoadM` (loaded text → linked operation tree → run; what the correspondence
check executes for the 'masked' stream) is `applyM` on the linked tree. -/
theorem afterLoadM_eq_applyM (E : Link.LinkEnv) (eng meng : Eng) (f : Nat) (s : Str)
    (lm : Loader.Module × List (Str × Loader.Module)) (ops : List Op)
    (hl : Link.linkModule { E with mods := E.mods ++ lm.2 } f lm.1 = .ok ops) :
    Link.afterLoadM E eng meng f s lm =
      (match applyM eng meng f ops s with
       | .error e => .error (.run e)
       | .ok r => .ok r) := by
  unfold Link.afterLoadM applyM
  rw [hl]
  simp only
  cases ht : traceStepsM eng meng f ops s with
  | error e => rfl
  | ok p =>
    obtain ⟨stm, o⟩ := p
    simp only
    cases hq : mergeSteps (stm.map (·.step)) (initStart s) (initEnd s) with
    | none => rfl
    | some q => rfl

/-! ## non-vacuity: a blocked match on a concrete run -/

/-- mask `=ab`, then rule `!(a)<TAB>x\1`, on "ab a": the first match lies in
masked material and is blocked, the second is rewritten; the `a` of the blocked match stays at 0, the
second `a` moves from 3 to 4. -/
example :
    (applyM (fun _ s => if s = "ab a".toList then [⟨0, 1, [some (0, 1)]⟩, ⟨3, 4, [some (3, 4)]⟩] else [])
            (fun _ s => if s = "ab a".toList then [⟨0, 2, []⟩] else [])
            5 [.mask 0, .rule 0 [.lit ['x'], .grp 1] []] "ab a".toList).toOption.map (fun p => (p.2.string, p.2.startmap, p.2.endmap,
              provStepsM (fun _ s => if s = "ab a".toList then [⟨0, 1, [some (0, 1)]⟩, ⟨3, 4, [some (3, 4)]⟩] else [])
                p.1 (zeroMask "ab a".toList) (idProv 0 4)))
      = some ("ab xa".toList, [1, 0, 0, 0, 0, -1, -1], [0, 0, 0, 0, -1, -1, -2],
              [some 0, some 1, some 2, none, some 3]) := by
  decide

end Verif.C14
