/-
C14 — rule level: the shift/delta accounting of `_process_match` / `_REPPRule._apply` attributes
every carried-over character to its original position; lengths; index ranges.
-/
import Verif.C14.Model

namespace Verif.C14.L
open Verif.C13 Verif.C14

/-- A part emitted when `base` output characters precede it, with its provenance list. -/
structure POK (s : Str) (base : Nat) (p : Part) (pv : Prov) : Prop where
  lsm : p.sm.length = p.out.length
  lem : p.em.length = p.out.length
  lpv : pv.length = p.out.length
  attr : ∀ (k q : Nat), pv[k]? = some (some q) →
    q < s.length ∧ p.out[k]? = s[q]? ∧
    p.sm[k]? = some ((q : Int) - ((base : Int) + (k : Int))) ∧
    p.em[k]? = some ((q : Int) - ((base : Int) + (k : Int)))
  rsm : ∀ (k : Nat) (v : Int), p.sm[k]? = some v →
    0 ≤ (base : Int) + (k : Int) + v ∧ (base : Int) + (k : Int) + v ≤ (s.length : Int)
  rem : ∀ (k : Nat) (v : Int), p.em[k]? = some v →
    -1 ≤ (base : Int) + (k : Int) + v ∧ (base : Int) + (k : Int) + v ≤ (s.length : Int) - 1

theorem append_out (p q : Part) : (p ++ q).out = p.out ++ q.out := rfl
theorem append_sm (p q : Part) : (p ++ q).sm = p.sm ++ q.sm := rfl
theorem append_em (p q : Part) : (p ++ q).em = p.em ++ q.em := rfl

theorem pok_empty (s : Str) (base : Nat) : POK s base Part.empty [] := by
  constructor <;> simp [Part.empty]

theorem pok_append {s : Str} {base : Nat} {p1 p2 : Part} {pv1 pv2 : Prov}
    (h1 : POK s base p1 pv1) (h2 : POK s (base + p1.out.length) p2 pv2) :
    POK s base (p1 ++ p2) (pv1 ++ pv2) := by
  have a1 := h1.lsm
  have a2 := h1.lem
  have a3 := h1.lpv
  have b1 := h2.lsm
  have b2 := h2.lem
  have b3 := h2.lpv
  refine ⟨?_, ?_, ?_, ?_, ?_, ?_⟩
  · simp only [append_sm, append_out, List.length_append]; omega
  · simp only [append_em, append_out, List.length_append]; omega
  · simp only [append_out, List.length_append]; omega
  · intro k q hk
    rw [append_out, append_sm, append_em]
    by_cases hlt : k < pv1.length
    · rw [List.getElem?_append_left hlt] at hk
      have := h1.attr k q hk
      rw [List.getElem?_append_left (by omega), List.getElem?_append_left (by omega),
        List.getElem?_append_left (by omega)]
      exact this
    · rw [List.getElem?_append_right (by omega)] at hk
      have := h2.attr (k - pv1.length) q hk
      rw [List.getElem?_append_right (by omega), List.getElem?_append_right (by omega),
        List.getElem?_append_right (by omega)]
      have e : ((q : Int) - (((base + p1.out.length : Nat) : Int) + ((k - pv1.length : Nat) : Int)))
          = (q : Int) - ((base : Int) + (k : Int)) := by omega
      rw [e] at this
      rw [← a3, a1, a2, ← a3]
      exact this
  · intro k v hk
    rw [append_sm] at hk
    by_cases hlt : k < p1.sm.length
    · rw [List.getElem?_append_left hlt] at hk
      exact h1.rsm k v hk
    · rw [List.getElem?_append_right (by omega)] at hk
      have := h2.rsm _ v hk
      omega
  · intro k v hk
    rw [append_em] at hk
    by_cases hlt : k < p1.em.length
    · rw [List.getElem?_append_left hlt] at hk
      exact h1.rem k v hk
    · rw [List.getElem?_append_right (by omega)] at hk
      have := h2.rem _ v hk
      omega

theorem slice_length (s : Str) (a b : Nat) (hb : b ≤ s.length) : (slice s a b).length = b - a := by
  simp only [slice, List.length_take, List.length_drop]; omega

theorem slice_get (s : Str) (a b k : Nat) (hk : k < b - a) : (slice s a b)[k]? = s[a + k]? := by
  simp only [slice, List.getElem?_take, List.getElem?_drop, hk, if_true]

theorem pok_insert (s : Str) (base pos : Nat) (txt : Str) (w sh : Int)
    (hsh : sh = (pos : Int) - (base : Int)) (hw : 0 ≤ w) (hle : (pos : Int) + w ≤ (s.length : Int)) :
    POK s base (insertPart txt w sh) (noProv txt.length) := by
  refine ⟨?_, ?_, ?_, ?_, ?_, ?_⟩
  · simp [insertPart]
  · simp [insertPart]
  · simp [insertPart, noProv]
  · intro k q hk
    simp [noProv, List.getElem?_replicate] at hk
  · intro k v hk
    simp only [insertPart, List.getElem?_map] at hk
    by_cases hlt : k < txt.length
    · rw [List.getElem?_range hlt] at hk
      simp only [Option.map_some, Option.some.injEq] at hk
      omega
    · rw [List.getElem?_eq_none (by simp; omega)] at hk
      simp at hk
  · intro k v hk
    simp only [insertPart, List.getElem?_map] at hk
    by_cases hlt : k < txt.length
    · rw [List.getElem?_range hlt] at hk
      simp only [Option.map_some, Option.some.injEq] at hk
      omega
    · rw [List.getElem?_eq_none (by simp; omega)] at hk
      simp at hk

theorem pok_copy (s : Str) (base a b : Nat) (sh : Int)
    (hsh : sh = (a : Int) - (base : Int)) (hb : b ≤ s.length) :
    POK s base (copyPart (slice s a b) sh) (idProv a b) := by
  have hl := slice_length s a b hb
  refine ⟨?_, ?_, ?_, ?_, ?_, ?_⟩
  · simp [copyPart]
  · simp [copyPart]
  · simp [copyPart, idProv, hl]
  · intro k q hk
    simp only [idProv, List.getElem?_map] at hk
    by_cases hlt : k < b - a
    · rw [List.getElem?_range hlt] at hk
      simp only [Option.map_some, Option.some.injEq] at hk
      subst hk
      refine ⟨by omega, ?_, ?_, ?_⟩
      · simp only [copyPart]; exact slice_get s a b k hlt
      · simp only [copyPart, List.getElem?_replicate, hl, hlt, if_true]; congr 1; omega
      · simp only [copyPart, List.getElem?_replicate, hl, hlt, if_true]; congr 1; omega
    · rw [List.getElem?_eq_none (by simp; omega)] at hk
      simp at hk
  · intro k v hk
    simp only [copyPart, List.getElem?_replicate, hl] at hk
    split at hk
    · simp only [Option.some.injEq] at hk; omega
    · simp at hk
  · intro k v hk
    simp only [copyPart, List.getElem?_replicate, hl] at hk
    split at hk
    · simp only [Option.some.injEq] at hk; omega
    · simp at hk

theorem span_inside {n : Nat} {m : M} (hv : m.Valid n) {g a b : Nat} (h : m.span g = some (a, b)) :
    m.s ≤ a ∧ a ≤ b ∧ b ≤ m.e := by
  obtain ⟨h1, _, h3⟩ := hv
  cases g with
  | zero =>
    simp only [M.span, Option.some.injEq, Prod.mk.injEq] at h
    omega
  | succ g =>
    simp only [M.span] at h
    cases hg : m.groups[g]? with
    | none => rw [hg] at h; simp at h
    | some o =>
      rw [hg] at h
      simp only [Option.join_some] at h
      subst h
      have := h3 _ (List.mem_of_getElem? hg)
      exact this

theorem nextStart_bounds {n : Nat} {m : M} (hv : m.Valid n) (pos : Nat) (hp : pos ≤ m.e) (rest : List Seg) :
    pos ≤ nextStart m pos rest ∧ nextStart m pos rest ≤ m.e := by
  induction rest with
  | nil => simp only [nextStart]; omega
  | cons sg rest ih =>
    cases sg with
    | lit l => simpa only [nextStart] using ih
    | grp g =>
      simp only [nextStart]
      split
      · exact ih
      · split
        · rename_i gs ge hsp
          have := span_inside hv hsp
          split
          · omega
          · exact ih
        · exact ih

theorem procTracked_ok (s : Str) (m : M) (shift : Int) (hv : m.Valid s.length) (segs : List Seg) :
    ∀ (pos : Nat) (delta : Int) (base : Nat), m.s ≤ pos → pos ≤ m.e →
      shift + delta = (pos : Int) - (base : Int) →
      POK s base (procTracked s m shift segs pos delta).1 (provTracked m segs pos).1 ∧
      (procTracked s m shift segs pos delta).2.1 = (provTracked m segs pos).2 ∧
      m.s ≤ (procTracked s m shift segs pos delta).2.1 ∧
      (procTracked s m shift segs pos delta).2.1 ≤ m.e ∧
      shift + (procTracked s m shift segs pos delta).2.2 =
        ((procTracked s m shift segs pos delta).2.1 : Int) -
          ((base : Int) + ((procTracked s m shift segs pos delta).1.out.length : Int)) := by
  have hme : m.e ≤ s.length := hv.2.1
  induction segs with
  | nil =>
    intro pos delta base h1 h2 h3
    rw [show procTracked s m shift [] pos delta = (Part.empty, pos, delta) from rfl,
      show provTracked m [] pos = ([], pos) from rfl]
    refine ⟨pok_empty s base, rfl, h1, h2, ?_⟩
    simp only [Part.empty, List.length_nil]; omega
  | cons sg rest ih =>
    intro pos delta base h1 h2 h3
    cases sg with
    | lit l =>
      simp only [procTracked, provTracked]
      have hb := nextStart_bounds hv pos h2 rest
      have hi := ih (nextStart m pos rest) (delta + ((nextStart m pos rest : Int) - (pos : Int)) - (l.length : Int))
        (base + l.length) (by omega) hb.2 (by omega)
      obtain ⟨i1, i2, i3, i4, i5⟩ := hi
      have hp := pok_insert s base pos l ((nextStart m pos rest : Int) - (pos : Int)) (shift + delta) h3
        (by omega) (by omega)
      have hpl : (insertPart l ((nextStart m pos rest : Int) - (pos : Int)) (shift + delta)).out.length = l.length := rfl
      refine ⟨pok_append hp (by rw [hpl]; exact i1), i2, i3, i4, ?_⟩
      rw [append_out, List.length_append, hpl]
      omega
    | grp g =>
      cases hsp : m.span g with
      | none =>
        simp only [procTracked, provTracked, hsp]
        exact ih pos delta base h1 h2 h3
      | some sp =>
        obtain ⟨gs, ge⟩ := sp
        have hin := span_inside hv hsp
        have hl := slice_length s gs ge (by omega)
        by_cases hlt : gs < pos
        · simp only [procTracked, provTracked, hsp, hlt, if_true]
          have hi := ih pos (delta - ((slice s gs ge).length : Int)) (base + (slice s gs ge).length) h1 h2 (by omega)
          obtain ⟨i1, i2, i3, i4, i5⟩ := hi
          have hp := pok_insert s base pos (slice s gs ge) 0 (shift + delta) h3 (by omega) (by omega)
          have hpl : (insertPart (slice s gs ge) 0 (shift + delta)).out.length = (slice s gs ge).length := rfl
          rw [hl] at hp
          refine ⟨pok_append hp (by rw [hpl]; exact i1), i2, i3, i4, ?_⟩
          rw [append_out, List.length_append, hpl]
          omega
        · simp only [procTracked, provTracked, hsp, hlt, if_false]
          have hi := ih ge (delta + ((gs : Int) - (pos : Int))) (base + (slice s gs ge).length) (by omega) (by omega) (by omega)
          obtain ⟨i1, i2, i3, i4, i5⟩ := hi
          have hp := pok_copy s base gs ge (shift + (delta + ((gs : Int) - (pos : Int)))) (by omega) (by omega)
          have hpl : (copyPart (slice s gs ge) (shift + (delta + ((gs : Int) - (pos : Int))))).out.length = (slice s gs ge).length := rfl
          refine ⟨pok_append hp (by rw [hpl]; exact i1), i2, i3, i4, ?_⟩
          rw [append_out, List.length_append, hpl]
          omega

theorem expand_nil (s : Str) (m : M) : expand s m [] = [] := rfl

theorem processMatch_ok (s : Str) (m : M) (shift : Int) (tr un : List Seg) (base : Nat)
    (hv : m.Valid s.length) (hsh : shift = (m.s : Int) - (base : Int)) :
    POK s base (processMatch s m shift tr un).1 (provMatch s m tr un) ∧
    shift + (processMatch s m shift tr un).2 =
      (m.e : Int) - ((base : Int) + ((processMatch s m shift tr un).1.out.length : Int)) := by
  have hse : m.s ≤ m.e := hv.1
  have hme : m.e ≤ s.length := hv.2.1
  obtain ⟨i1, i2, i3, i4, i5⟩ := procTracked_ok s m shift hv tr m.s 0 base (Nat.le_refl _) hse (by omega)
  unfold processMatch provMatch
  by_cases hun : un = []
  · subst hun
    simp only [List.isEmpty_nil, Bool.and_true, expand_nil, List.length_nil, noProv, List.replicate_zero,
      List.append_nil, if_true]
    by_cases htr : tr = []
    · subst htr
      simp only [List.isEmpty_nil, if_true]
      rw [show provTracked m [] m.s = ([], m.s) from rfl]
      refine ⟨pok_empty s base, ?_⟩
      simp only [Part.empty, List.length_nil]; omega
    · have : tr.isEmpty = false := by cases tr with
        | nil => exact absurd rfl htr
        | cons _ _ => rfl
      simp only [this, Bool.false_eq_true, if_false]
      refine ⟨i1, ?_⟩
      omega
  · have : un.isEmpty = false := by cases un with
      | nil => exact absurd rfl hun
      | cons _ _ => rfl
    simp only [this, Bool.and_false, Bool.false_eq_true, if_false]
    have hp := pok_insert s (base + (procTracked s m shift tr m.s 0).1.out.length)
      (procTracked s m shift tr m.s 0).2.1 (expand s m un)
      ((m.e : Int) - ((procTracked s m shift tr m.s 0).2.1 : Int))
      (shift + (procTracked s m shift tr m.s 0).2.2) (by omega) (by omega) (by omega)
    refine ⟨pok_append i1 hp, ?_⟩
    rw [append_out, List.length_append]
    have : (insertPart (expand s m un) ((m.e : Int) - ((procTracked s m shift tr m.s 0).2.1 : Int))
      (shift + (procTracked s m shift tr m.s 0).2.2)).out.length = (expand s m un).length := rfl
    rw [this]
    omega

theorem drop_eq_slice (s : Str) (pos : Nat) : s.drop pos = slice s pos s.length := by
  simp only [slice]
  rw [List.take_of_length_le (by simp)]

theorem ruleLoop_ok (s : Str) (tr un : List Seg) (ms : List M) :
    ∀ (pos : Nat) (shift : Int) (base : Nat), ValidFrom s.length pos ms → pos ≤ s.length →
      shift = (pos : Int) - (base : Int) →
      POK s base (ruleLoop s tr un ms pos shift).1 (provRule s tr un ms pos) ∧
      (ruleLoop s tr un ms pos shift).2 =
        (s.length : Int) - ((base : Int) + ((ruleLoop s tr un ms pos shift).1.out.length : Int)) := by
  induction ms with
  | nil =>
    intro pos shift base _ hp hsh
    simp only [ruleLoop, provRule]
    by_cases hlt : pos < s.length
    · simp only [hlt, if_true]
      rw [drop_eq_slice]
      refine ⟨pok_copy s base pos s.length shift hsh (Nat.le_refl _), ?_⟩
      simp only [copyPart, slice_length s pos s.length (Nat.le_refl _)]
      omega
    · simp only [hlt, if_false]
      have : s.length - pos = 0 := by omega
      simp only [idProv, this, List.range_zero, List.map_nil]
      refine ⟨pok_empty s base, ?_⟩
      simp only [Part.empty, List.length_nil]; omega
  | cons m ms ih =>
    intro pos shift base hvf hp hsh
    obtain ⟨hpm, hv, hrest⟩ := hvf
    have hse : m.s ≤ m.e := hv.1
    have hme : m.e ≤ s.length := hv.2.1
    simp only [ruleLoop, provRule]
    -- the gap
    have hgap : POK s base (if pos < m.s then copyPart (slice s pos m.s) shift else Part.empty) (idProv pos m.s) ∧
        ((if pos < m.s then copyPart (slice s pos m.s) shift else Part.empty).out.length = m.s - pos) := by
      by_cases hlt : pos < m.s
      · simp only [hlt, if_true]
        refine ⟨pok_copy s base pos m.s shift hsh (by omega), ?_⟩
        simp only [copyPart, slice_length s pos m.s (by omega)]
      · simp only [hlt, if_false]
        have : m.s - pos = 0 := by omega
        simp only [idProv, this, List.range_zero, List.map_nil]
        exact ⟨pok_empty s base, rfl⟩
    obtain ⟨g1, g2⟩ := hgap
    obtain ⟨p1, p2⟩ := processMatch_ok s m shift tr un (base + (m.s - pos)) hv (by omega)
    obtain ⟨r1, r2⟩ := ih m.e (shift + (processMatch s m shift tr un).2)
      (base + (m.s - pos) + (processMatch s m shift tr un).1.out.length) hrest hme (by omega)
    refine ⟨pok_append (pok_append g1 (by rw [g2]; exact p1)) (by rw [append_out, List.length_append, g2, ← Nat.add_assoc]; exact r1), ?_⟩
    rw [r2, append_out, append_out, List.length_append, List.length_append, g2]
    omega

/-- Main rule-level result: for every template (any trackable prefix, any order of group
references, unmatched groups, material outside groups) and every valid match list. -/
theorem ruleOK (s : Str) (ms : List M) (tr un : List Seg) (hv : ValidMatches s ms) : RuleOK s ms tr un := by
  unfold RuleOK applyRule
  cases ms with
  | nil =>
    simp only [List.isEmpty_nil, if_true, zeromap, List.length_replicate, provRule, true_and]
    refine ⟨?_, ?_, ?_⟩
    · intro i v h
      rw [List.getElem?_replicate] at h
      split at h
      · simp only [Option.some.injEq] at h; omega
      · simp at h
    · intro i v h
      rw [List.getElem?_replicate] at h
      split at h
      · simp only [Option.some.injEq] at h; omega
      · simp at h
    · refine ⟨by simp [idProv], ?_⟩
      intro j p h
      simp only [idProv, List.getElem?_map, Nat.sub_zero, Nat.zero_add] at h
      by_cases hlt : j < s.length
      · rw [List.getElem?_range hlt] at h
        simp only [Option.map_some, Option.some.injEq] at h
        subst h
        refine ⟨hlt, rfl, ?_, ?_⟩ <;>
        · rw [List.getElem?_replicate, if_pos (by omega)]; congr 1; omega
      · rw [List.getElem?_eq_none (by simp; omega)] at h
        simp at h
  | cons m ms' =>
    obtain ⟨h1, h2⟩ := ruleLoop_ok s tr un (m :: ms') 0 0 0 hv (Nat.zero_le _) (by simp)
    simp only [List.isEmpty_cons, Bool.false_eq_true, if_false]
    generalize ruleLoop s tr un (m :: ms') 0 0 = r at h1 h2
    generalize provRule s tr un (m :: ms') 0 = pv at h1
    obtain ⟨part, sh⟩ := r
    simp only at h1 h2 ⊢
    have a1 := h1.lsm
    have a2 := h1.lem
    have a3 := h1.lpv
    refine ⟨?_, ?_, ?_, ?_, a3, ?_⟩
    · simp only [List.cons_append, List.length_cons, List.length_append, List.length_nil]; omega
    · simp only [List.cons_append, List.length_cons, List.length_append, List.length_nil]; omega
    · intro i v h
      cases i with
      | zero => simp only [List.cons_append, List.getElem?_cons_zero, Option.some.injEq] at h; omega
      | succ j =>
        simp only [List.cons_append, List.getElem?_cons_succ] at h
        by_cases hlt : j < part.sm.length
        · rw [List.getElem?_append_left hlt] at h
          have := h1.rsm j v h
          omega
        · rw [List.getElem?_append_right (by omega)] at h
          have hj : j - part.sm.length = 0 := by
            have := (List.getElem?_eq_some_iff.mp h).1
            simp only [List.length_cons, List.length_nil] at this
            omega
          rw [hj] at h
          simp only [List.getElem?_cons_zero, Option.some.injEq] at h
          omega
    · intro i v h
      cases i with
      | zero => simp only [List.cons_append, List.getElem?_cons_zero, Option.some.injEq] at h; omega
      | succ j =>
        simp only [List.cons_append, List.getElem?_cons_succ] at h
        by_cases hlt : j < part.em.length
        · rw [List.getElem?_append_left hlt] at h
          have := h1.rem j v h
          omega
        · rw [List.getElem?_append_right (by omega)] at h
          have hj : j - part.em.length = 0 := by
            have := (List.getElem?_eq_some_iff.mp h).1
            simp only [List.length_cons, List.length_nil] at this
            omega
          rw [hj] at h
          simp only [List.getElem?_cons_zero, Option.some.injEq] at h
          omega
    · intro j p h
      obtain ⟨b1, b2, b3, b4⟩ := h1.attr j p h
      have hj : j < pv.length := (List.getElem?_eq_some_iff.mp h).1
      refine ⟨b1, b2, ?_, ?_⟩
      · simp only [List.cons_append, List.getElem?_cons_succ]
        rw [List.getElem?_append_left (by omega), b3]; congr 1; omega
      · simp only [List.cons_append, List.getElem?_cons_succ]
        rw [List.getElem?_append_left (by omega), b4]; congr 1; omega

end Verif.C14.L
