/-
C14 — the SOURCE-TRANSLATION tie (TRANSLATOR.md).  `Verif/Generated/TransC14.lean` is regenerated on every run from the
current source text of `delphin.repp._mergemap` by harness/common/py2lean.py; `mergemap_translated` proves the
regenerated definition equal, for all inputs, to the model's `mergeMap` (Model.lean), whose `none` is `IndexError`.
(`array('i', …)` is a list of unbounded integers on both sides.)
-/
import Verif.Generated.TransC14
import Verif.C14.Model
import Verif.Common.PyRtLemmas

namespace Verif.C14
open Verif.PyRt Verif.Py

/-- the model's `pyGet` is the runtime's `xs[i]`. -/
theorem pyGetItem_eq (xs : List Int) (i : Int) :
    pyGetItem xs i = match pyGet xs i with | some v => .ok v | none => .error .IndexError := by
  unfold pyGetItem getIndex pyGet
  by_cases h0 : 0 ≤ i
  · have : ¬ i < 0 := by omega
    simp [h0, this]
    cases xs[i.toNat]? <;> rfl
  · have hlt : i < 0 := by omega
    by_cases h1 : -(xs.length : Int) ≤ i
    · have : ¬ (i + (xs.length : Int) < 0) := by omega
      simp [h0, hlt, h1, this, Int.add_comm]
      cases xs[(i + (xs.length : Int)).toNat]? <;> rfl
    · have : (i + (xs.length : Int) < 0) := by omega
      simp [h0, hlt, h1, this]

/-- the loop body of the translated `_mergemap`. -/
def mergeBody (map1 : List Int) (p : Int × Int) (merged : List Int) : Except PyErr (ForInStep (List Int)) := do
  let t ← pyGetItem map1 (p.1 + p.2)
  let m ← pySetItem merged p.1 (p.2 + t)
  pure (.yield m)

/-- loop invariant: the first `k` cells are final, the rest still zero. -/
theorem merge_loop (m1 : List Int) (r : List Int) : ∀ (k : Nat) (pre : List Int), pre.length = k →
    forIn (enumFrom k r) (pre ++ List.replicate r.length (0 : Int)) (mergeBody m1)
      = optErr ((mergeAux m1 r k).map (pre ++ ·)) := by
  induction r with
  | nil => intro k pre _; simp [enumFrom, mergeAux, optErr]; rfl
  | cons sh r ih =>
    intro k pre hk
    subst hk
    simp only [enumFrom, List.length_cons, List.replicate_succ, List.forIn_cons, mergeAux]
    rw [show mergeBody m1 ((pre.length : Int), sh) (pre ++ 0 :: List.replicate r.length 0)
          = (do let t ← pyGetItem m1 ((pre.length : Int) + sh)
                let m ← pySetItem (pre ++ 0 :: List.replicate r.length 0) (pre.length : Int) (sh + t)
                pure (.yield m)) from rfl]
    rw [pyGetItem_eq]
    cases hg : pyGet m1 ((pre.length : Int) + sh) with
    | none => simp [optErr]; rfl
    | some v =>
      simp only [pySetItem_mid]
      have := ih (pre.length + 1) (pre ++ [sh + v]) (by simp)
      simp only [List.append_assoc, List.singleton_append] at this
      show forIn (m := Except PyErr) (enumFrom (pre.length + 1) r) _ (mergeBody m1) = _
      rw [this]
      cases mergeAux m1 r (pre.length + 1) <;> simp [optErr]

/-- `repp._mergemap` (source) = `mergeMap` (model). -/
theorem mergemap_translated (m1 m2 : List Int) :
    Verif.Trans.C14.mergemap m1 m2 = optErr (mergeMap m1 m2) := by
  unfold Verif.Trans.C14.mergemap mergeMap
  have h := merge_loop m1 m2 0 [] rfl
  simp only [List.nil_append] at h
  have hr : pyRepeat [(0 : Int)] (pyLen m2) = List.replicate m2.length 0 := by
    simp [pyRepeat, pyLen]
  rw [hr, pyEnumerate_eq]
  have hb : (fun (x : Int × Int) (__s : List Int) =>
        (match x with
          | (i, shift) => do
            let t1_ ← pyGetItem m1 (i + shift)
            let merged ← pySetItem __s i (shift + t1_)
            pure (ForInStep.yield merged) : Except PyErr (ForInStep (List Int)))) = mergeBody m1 := by
    funext x st; rcases x with ⟨i, sh⟩; rfl
  show (forIn (m := Except PyErr) (enumFrom 0 m2) (List.replicate m2.length 0) _ >>= fun s => pure s) = _
  rw [bind_pure]
  simp only [Option.map_id'] at h
  exact hb ▸ h

end Verif.C14
