/-
C14 — SOURCE-TRANSLATION tie, round 2 (TRANSLATOR.md): `repp._zeromap`, `repp._copy_part`, `repp._insert_part`.
`_copy_part` / `_insert_part` MUTATE their arguments `parts`, `smap`, `emap` (out-parameters): the translated functions
return the new values of the three lists.  The theorems say that, for ALL arguments, the new values are the old ones
extended by exactly the part the model (`Verif.C13.copyPart` / `insertPart`, which `procTracked`, `processMatch` and
`ruleLoop` are built from) describes.  (`array('i', …)` is a list of unbounded integers on both sides; the three
arguments are distinct objects, as at every call site in `_process_match` / `_REPPRule._apply`.)
-/
import Verif.Generated.TransC14
import Verif.C14.Model
import Verif.Common.PyRtLemmas

namespace Verif.C14
open Verif.PyRt Verif.Py Verif.C13

/-- `repp._zeromap` (source) = `zeromap` (model). -/
theorem zeromap_translated (s : List Char) : Verif.Trans.C14.zeromap s = Verif.C13.zeromap s := by
  unfold Verif.Trans.C14.zeromap Verif.C13.zeromap
  exact pyRepeat_single_len_add 0 s 2

/-- `repp._copy_part` (source): `parts`, `smap`, `emap` are extended by the model's `copyPart`. -/
theorem copy_part_translated (s : List Char) (shift : Int) (parts : List (List Char)) (smap emap : List Int) :
    Verif.Trans.C14.copy_part s shift parts smap emap
      = (parts ++ [(copyPart s shift).out], smap ++ (copyPart s shift).sm, emap ++ (copyPart s shift).em) := by
  simp only [Verif.Trans.C14.copy_part, copyPart, pyRepeat_single_len]
  rfl

/-- `repp._insert_part` (source): `parts`, `smap`, `emap` are extended by the model's `insertPart`. -/
theorem insert_part_translated (s : List Char) (width shift : Int) (parts : List (List Char)) (smap emap : List Int) :
    Verif.Trans.C14.insert_part s width shift parts smap emap
      = (parts ++ [(insertPart s width shift).out], smap ++ (insertPart s width shift).sm,
         emap ++ (insertPart s width shift).em) := by
  have h1 : pyRange shift (shift - pyLen s) (-(1 : Int)) = (List.range s.length).map (fun (k : Nat) => shift - (k : Int)) :=
    pyRange_down shift s.length
  have h2 : pyRange (shift + (width - 1)) (shift - pyLen s + (width - 1)) (-(1 : Int))
      = (List.range s.length).map (fun (k : Nat) => shift + (width - 1) - (k : Int)) := by
    have : shift - pyLen s + (width - 1) = (shift + (width - 1)) - (s.length : Int) := by simp [pyLen]; omega
    rw [this]
    exact pyRange_down _ s.length
  simp only [Verif.Trans.C14.insert_part, insertPart]
  show (parts ++ [s], smap ++ pyRange shift (shift - pyLen s) (-(1 : Int)),
        emap ++ pyRange (shift + (width - 1)) (shift - pyLen s + (width - 1)) (-(1 : Int))) = _
  rw [h1, h2]

end Verif.C14
