/-
C19 — property theorems, second part (round 6): the content of the response for a refused input, and the
exit status `close()` returns after a failure on the last input for EVERY configuration (parser/tsdb included).
Same conventions as Props.lean: statements about `Verif.C19.run` for all configurations, items, oracle streams.
-/
import Verif.C19.Lemmas3

namespace Verif.C19
open Verif.Tables

/-- "inputs the processor cannot accept (blank parser input, text without an MRS for generation or transfer) are
reported as skipped without being sent": in a whole session the response for a refused input is exactly the one
`interact` fabricates — it records the input, carries the one refusal note, the input itself as (SKIP) surface,
no warnings, no errors, no results, and nothing was written to or read from the processor for it.
No hypothesis on the processor (`WF` is not needed). -/
theorem skipped_response_content (c : Cfg) (items : List Item) (orc : List Bool)
    (j : Nat) (o : Except Err Resp) (it : Item) (hj : (run c items orc).resps[j]? = some o)
    (hit : items[j]? = some it) (href : validate c.front it.text = none) :
    ∃ r, o = Except.ok r ∧ r.input = it.text ∧ r.skipped = true ∧ r.notes = [tRefusal]
      ∧ r.surface = some (Surf.input it.text) ∧ r.warnings = [] ∧ r.errors = [] ∧ r.isEmpty = true
      ∧ r.src = [] ∧ r.wrote = none ∧ r.served = false ∧ r.eof = false := by
  unfold run at hj
  obtain ⟨it', s', h1, h2⟩ := runFrom_getElem c items 0 (init c orc) j o hj
  rw [hit] at h1; injection h1 with h1; subst h1
  rw [skipped_not_sent_eq c (0 + j) it s' href] at h2
  exact ⟨_, h2, rfl, rfl, rfl, rfl, rfl, rfl, rfl, rfl, rfl, rfl, rfl⟩

/-- the skipped response is not vacuous: a generator session `[no brackets, an MRS]` skips the first input with the
refusal note and the input as surface, and serves the second -/
example :
    let c : Cfg := { front := .generator, tsdb := false }
    let items : List Item := [{ text := "no mrs".toList, out := [], die := none },
                              { text := "[ x ]".toList, out := [{ full := 9, payload := 9 }, { parseNote := true, cls := .note }],
                                die := none }]
    (run c items []).resps.map (fun o => match o with
      | .ok r => (r.skipped, r.notes, r.surface, r.isEmpty) | .error _ => (false, [], none, false))
      = [(true, [tRefusal], some (Surf.input "no mrs".toList), true), (false, [0], none, false)] := by decide

/-! ## `close()` after a failure on the last input, every configuration -/

/-- "closing returns the exit status", session level, EVERY configuration (parser/tsdb included): when the LAST
input was read by a live processor that then exited with status `d.code` (before, in the middle of, or after its
answer; any exit schedule), `close()` returns `d.code` if that processor is still the current one — the response's
run record is the last — and otherwise (only `_tsdb_receive` of the parser replaces a processor inside the
interaction) the normal status of the fresh processor, which ends at end of input.  The number of run records
says which. -/
theorem close_status_of_failed_last_any (c : Cfg) (pre : List Item) (it : Item) (orc : List Bool)
    (hwf : ∀ x ∈ pre, WF c x) (d : Die) (hdie : it.die = some d) (r : Resp)
    (hr : (run c (pre ++ [it]) orc).resps.getLast? = some (Except.ok r)) (hs : r.served = true) :
    (run c (pre ++ [it]) orc).close =
      (if (run c (pre ++ [it]) orc).runs.length = r.run + 1 then d.code else c.exitOk) ∧
    ((run c (pre ++ [it]) orc).runs.length = r.run + 1 ∨
      ((usesTsdb c && c.front == .parser) = true ∧ (run c (pre ++ [it]) orc).runs.length = r.run + 2)) := by
  have h0 := init_spec c orc
  have hp := runFrom_spec c pre 0 (init c orc) h0.1 h0.2 hwf
  unfold run at hr ⊢
  rw [runFrom_snoc] at hr ⊢
  simp only [Nat.zero_add] at hr ⊢
  simp only [List.getLast?_append, List.getLast?_singleton, Option.some_or, Option.some.injEq] at hr
  have hst := interact_last_state c pre.length it (runFrom c 0 pre (init c orc)).2 hp.inv hp.runs_ne d hdie r hr hs
  have hf := settle_fields (interact c pre.length it (runFrom c 0 pre (init c orc)).2).1
  have hl := settle_level (interact c pre.length it (runFrom c 0 pre (init c orc)).2).1
  have hcl := closeProc_spec c (settle (interact c pre.length it (runFrom c 0 pre (init c orc)).2).1)
  have hpar : (usesTsdb c && c.front == .parser) = false →
      (interact c pre.length it (runFrom c 0 pre (init c orc)).2).1.proc.dying = true := by
    intro hc
    -- without the parser's tsdb receiver nothing restarts a processor after the read
    rcases hst with h | h
    · exact h.1
    · exfalso
      -- the second alternative needs `afterRead` to act
      have := interact_no_restart c pre.length it _ hp.inv hp.runs_ne r hr hs hc
      omega
  simp only [hcl.1, hl.2]
  rcases hst with ⟨k1, k2, k3⟩ | ⟨k1, k2, k3⟩
  · refine ⟨?_, Or.inl k3⟩
    simp only [closeProc, hf.1, hf.2.2, k1, k2, k3]
    simp
  · have hc : (usesTsdb c && c.front == .parser) = true := by
      cases hcc : (usesTsdb c && c.front == .parser) with
      | true => rfl
      | false => have := hpar hcc; rw [k1] at this; cases this
    refine ⟨?_, Or.inr ⟨hc, k3⟩⟩
    simp only [closeProc, hf.1, hf.2.1, k1, k2, k3]
    simp

/-- both branches occur: a parser with the tsdb protocol whose processor answers the only input completely and
exits with status 7.  If the exit is visible when `_tsdb_receive` polls (`exited`), a second processor is started
and `close()` returns the normal status 0 with two run records; if it becomes visible only later (`afterItem`),
`close()` returns 7 with one run record. -/
theorem close_status_both_branches :
    let c : Cfg := { front := .parser, tsdb := true }
    let ans : List Line := [{ toks := [.lp, .txt kResults, .dot, .lp, .rp, .rp] }, { blank := true, empty := true },
                            { blank := true, empty := true }]
    let it (p : Policy) : Item := { text := "a".toList, out := ans, die := some { code := 7, pol := p, closeStdin := false } }
    ((run c [it .exited] []).close, (run c [it .exited] []).runs.length) = (0, 2) ∧
    ((run c [it .afterItem] []).close, (run c [it .afterItem] []).runs.length) = (7, 1) := by decide

/-! ## run records -/

/-- "a restarted processor with a new run record" / run bookkeeping: at the end of EVERY session — any
configuration, any items (no hypothesis on the processor), any oracle stream — the run records carry the ids
0, 1, …, n-1 in order: only `_open` adds a record, numbered with the count so far; `close()` and the run notes
never touch an id.  With `restart_after_failure` (a later response has a strictly larger run id): the record of
the restarted processor is a new entry, distinct from every earlier one. -/
theorem run_records_numbered (c : Cfg) (items : List Item) (orc : List Bool) :
    (run c items orc).runs.map (·.id) = List.range (run c items orc).runs.length := by
  have h := closeProc_numbered c _ (runFrom_numbered c items 0 (init c orc) (init_numbered c orc))
  unfold run
  exact h

/-! ## the protocol in effect -/

/-- the protocol in effect is the tsdb one exactly from version 0.9.24 on and only when requested; Python's tuple
order: `(0, 9)` and the unparsable answer's `(0, 9, 0)` are below, `(0, 9, 24, 1)`, `(0, 10)` and `(1,)` above -/
theorem protocol_thresholds :
    [[0, 9, 0], [0, 9, 13], [0, 9, 14], [0, 9, 23], [0, 9, 24], [0, 9, 30], [0, 9], [0, 9, 24, 1], [0, 10], [1], []].map
        (protocolInEffect true)
      = [false, false, false, false, true, true, false, true, true, true, false]
    ∧ (∀ v, protocolInEffect false v = false) := by
  refine ⟨by decide, fun v => rfl⟩

/-- whatever was requested, a transferer is never started with the tsdb options, and a front end is started with
them exactly when the model decodes the tsdb protocol (`usesTsdb` of the configuration the driver builds) -/
theorem cmdline_matches_protocol (f : Front) (ti : Bool) (v : List Nat) (user : List String)
    (hu : "--tsdb-stdout" ∉ user) :
    ("--tsdb-stdout" ∈ cmdline f ti v user) ↔
      usesTsdb { front := f, tsdb := protocolInEffect ti v } = true := by
  unfold cmdline usesTsdb protocolInEffect
  cases f <;> cases ti <;> cases h : verGe v [0, 9, 24] <;> cases h2 : verGe v [0, 9, 14] <;> simp [hu]

/-! ## one written line per accepted input (F60, repaired in 0806f59) -/

/-- what `send` writes for an input is ONE line, for every input text: after `rstrip` every run of CR/LF has become
one blank, so the text before the final newline contains neither `\n` nor `\r` -/
theorem wire_one_line (v : List Char) : ∀ ch ∈ wire v, ch ≠ '\n' ∧ ch ≠ '\r' := by
  intro ch h
  have hb := oneLineAux_no_break (rstrip v) false ch h
  unfold isBreak at hb
  constructor
  · intro e; subst e; simp at hb
  · intro e; subst e; simp at hb

/-- an input without line breaks is written as before: only its trailing white space is removed -/
theorem wire_without_breaks (v : List Char) (h : ∀ ch ∈ v, isBreak ch = false) : wire v = rstrip v := by
  unfold wire oneLine
  exact oneLineAux_id _ (fun ch hch => h ch (rstrip_sub v ch hch))

/-- "each interaction returns exactly one response … any results in a response are the results the processor
produced for that very input and never those of another", the clause F60 contradicted: in EVERY session (any
configuration, any items — inputs with line breaks anywhere —, any oracle stream, no hypothesis on the processor)
whatever was written for an accepted input is `wire` of its validated text and contains no line break: the
processor, which reads its input line by line, is handed exactly one line per accepted input.  (That one written
line is one `react` of the child is how `write` is built; `alignment` then needs no assumption on the input text.) -/
theorem one_line_per_input (c : Cfg) (items : List Item) (orc : List Bool) (j : Nat) (r : Resp) (it : Item)
    (w : List Char) (hj : (run c items orc).resps[j]? = some (Except.ok r)) (hit : items[j]? = some it)
    (hw : r.wrote = some w) :
    (∃ v, validate c.front it.text = some v ∧ w = wire v) ∧ ∀ ch ∈ w, ch ≠ '\n' ∧ ch ≠ '\r' := by
  unfold run at hj
  obtain ⟨it', s', h1, h2⟩ := runFrom_getElem c items 0 (init c orc) j _ hj
  rw [hit] at h1; injection h1 with h1; subst h1
  obtain ⟨v, hv, hwv⟩ := interact_wrote c (0 + j) it s' r w h2.symm hw
  exact ⟨⟨v, hv, hwv⟩, by rw [hwv]; exact wire_one_line v⟩

/-- the witness of F60 in the model: the indented MRS `[ a\n [ x ] ]` and the sentence `dogs\r\n\r\nbark\n` each
go out as one line -/
theorem multi_line_input_one_line :
    (validate .generator "[ a\n [ x ] ]".toList).map wire = some "[ a  [ x ] ]".toList ∧
    (validate .parser "dogs\r\n\r\nbark\n".toList).map wire = some "dogs bark".toList ∧
    (validate .transferer "\n[ a\r]".toList).map wire = some " [ a ]".toList := by decide

end Verif.C19
