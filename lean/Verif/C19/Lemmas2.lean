/-
C19 — helper lemmas for Props2.lean (round 6): every outcome of a session is an `interact` outcome; the state an
interaction leaves behind when its input was read by a processor that then exits.
-/
import Verif.C19.Lemmas

namespace Verif.C19
open Verif.Tables

/-- every outcome of a session is the outcome of `interact` on its own item from some state -/
theorem runFrom_getElem (c : Cfg) : ∀ (items : List Item) (k : Nat) (s : St) (j : Nat) (o : Except Err Resp),
    (runFrom c k items s).1[j]? = some o →
    ∃ it s', items[j]? = some it ∧ o = (interact c (k + j) it s').2 := by
  intro items
  induction items with
  | nil => intro k s j o h; simp [runFrom] at h
  | cons a rest ih =>
    intro k s j o h
    simp only [runFrom] at h
    cases j with
    | zero =>
      simp only [List.getElem?_cons_zero, Option.some.injEq] at h
      exact ⟨a, s, rfl, h.symm⟩
    | succ j =>
      simp only [List.getElem?_cons_succ] at h
      obtain ⟨it, s', h1, h2⟩ := ih (k + 1) _ j o h
      refine ⟨it, s', by simpa using h1, ?_⟩
      rw [h2]
      have : k + 1 + j = k + (j + 1) := by omega
      rw [this]

theorem skipped_not_sent_eq (c : Cfg) (i : Nat) (it : Item) (s : St) (h : validate c.front it.text = none) :
    (interact c i it s).2 = Except.ok (skipResp it.text (curRun s)) := by
  simp [interact, h]

theorem poll_code (s : St) : (poll s).2.proc.code = s.proc.code := by
  unfold poll nextBit
  by_cases hw : (s.proc.waited || s.proc.exited) = true
  · simp [hw]
  · by_cases hd : s.proc.dying = true
    · simp only [hw, hd]
      cases hp : s.proc.pol <;> cases ho : s.orc <;> simp
    · simp [hw, hd]

/-- what `receive` leaves behind when it returns a response: the state after the read loop (`sA`: same number of run
records; a dying child still dying with its exit code) passed through `afterRead`, and the response carries the run
id that was current when the read began -/
theorem receive_state (c : Cfg) (inp : List Char) (s1 : St) (r : Resp) (h : (receive c inp s1).2 = .ok r) :
    r.run = curRun s1 ∧
    ∃ sA, (receive c inp s1).1 = afterRead c sA ∧ sA.runs.length = s1.runs.length ∧
      (s1.proc.dying = true → sA.proc.dying = true ∧ sA.proc.code = s1.proc.code) := by
  obtain ⟨t, ts, ht⟩ := termini_ne_nil c
  unfold receive resultLines at h ⊢
  simp only [ht] at h ⊢
  generalize hr : readLines t s1.proc.dying (usesTsdb c) s1.proc.buf (ts.length + 1) = rr at h ⊢
  have hfold : ({ s1 with proc := { s1.proc with buf := rr.rest }, runs := applyNotes rr.notes s1.runs } : St)
      = afterLines s1 rr := rfl
  rw [hfold] at h ⊢
  have hal := afterLines_spec s1 rr
  cases hs : rr.stop with
  | hang => rw [hs] at h; cases h
  | done =>
    rw [hs] at h
    dsimp only at h
    split at h
    · cases h
    · rename_i rs hdec
      simp only [hdec]
      injection h with h; subst h
      refine ⟨(fixSurface_fields _).2.1, afterLines s1 rr, rfl, hal.1, ?_⟩
      intro hd; exact ⟨by simpa [afterLines] using hd, by simp [afterLines]⟩
  | eof =>
    rw [hs] at h
    dsimp only at h
    split at h
    · cases h
    · rename_i rs hdec
      simp only [hdec]
      injection h with h; subst h
      refine ⟨(fixSurface_fields _).2.1, (closeProc c (afterLines s1 rr)).2, rfl, ?_, ?_⟩
      · rw [(closeProc_spec c _).1, hal.1]
      · intro hd; simp [closeProc, afterLines, hd]

/-- the state after an interaction whose input was read by a living processor that then exits (`it.die = some d`):
EITHER the dying processor is still the current one — no run record was added after the response's, and its exit
code is the one `close()` will return — OR (`_tsdb_receive` of the parser saw the exit after reading) a fresh,
living processor has been started under exactly one new run record. -/
theorem interact_last_state (c : Cfg) (i : Nat) (it : Item) (s : St) (hinv : Inv s) (hne : s.runs ≠ [])
    (d : Die) (hdie : it.die = some d) (r : Resp) (ho : (interact c i it s).2 = .ok r) (hs : r.served = true) :
    ((interact c i it s).1.proc.dying = true ∧ (interact c i it s).1.proc.code = d.code
        ∧ (interact c i it s).1.runs.length = r.run + 1) ∨
    ((interact c i it s).1.proc.dying = false ∧ (interact c i it s).1.proc.waited = false
        ∧ (interact c i it s).1.runs.length = r.run + 2) := by
  unfold interact at ho ⊢
  cases hv : validate c.front it.text with
  | none => simp only [hv] at ho; injection ho with ho; subst ho; cases hs
  | some v =>
    simp only [hv] at ho ⊢
    obtain ⟨sv, s1, he, hpost⟩ := send_spec c i it s hinv
    simp only [he] at ho ⊢
    have hpos : 1 ≤ s1.runs.length := by
      have h1 : 1 ≤ s.runs.length := by
        cases hsr : s.runs with
        | nil => exact absurd hsr hne
        | cons a r => simp
      have := hpost.runs_ge
      omega
    generalize hrv : receive c it.text s1 = rv at ho ⊢
    obtain ⟨s2, o2⟩ := rv
    cases o2 with
    | error e => simp only [] at ho; cases ho
    | ok r0 =>
      simp only [] at ho ⊢
      injection ho with ho; subst ho
      have hsv : sv = true := hs
      have h2 : (receive c it.text s1).2 = .ok r0 := by rw [hrv]
      obtain ⟨hrun, sA, hst, hlen, hkeep⟩ := receive_state c it.text s1 r0 h2
      have hs2 : s2 = afterRead c sA := by rw [← hst, hrv]
      obtain ⟨_, _, _, hdy⟩ := hpost.servedBuf hsv
      have hd1 : s1.proc.dying = true := by rw [hdy, hdie]; rfl
      obtain ⟨k1, k2⟩ := hkeep hd1
      have hcode : s1.proc.code = d.code := hpost.servedCode hsv d hdie
      have hrun' : r0.run + 1 = s1.runs.length := by rw [hrun]; unfold curRun; omega
      show (s2.proc.dying = true ∧ s2.proc.code = d.code ∧ s2.runs.length = r0.run + 1) ∨
        (s2.proc.dying = false ∧ s2.proc.waited = false ∧ s2.runs.length = r0.run + 2)
      rw [hs2]
      unfold afterRead
      have hp := poll_spec sA
      split
      · by_cases hg : (poll sA).1 = true
        · rw [if_pos hg]
          have hop := openProc_spec c (poll sA).2
          right
          exact ⟨hop.2.2.1, hop.2.1, by rw [hop.1, hp.1, hlen]; omega⟩
        · rw [if_neg hg]
          left
          exact ⟨by rw [hp.2.2.2.1]; exact k1, by rw [poll_code, k2, hcode], by rw [hp.1, hlen]; omega⟩
      · left
        exact ⟨k1, by rw [k2, hcode], by rw [hlen]; omega⟩

/-- without the parser's tsdb receiver nothing restarts a processor after the read -/
theorem interact_no_restart (c : Cfg) (i : Nat) (it : Item) (s : St) (hinv : Inv s) (hne : s.runs ≠ [])
    (r : Resp) (ho : (interact c i it s).2 = .ok r) (hs : r.served = true)
    (hc : (usesTsdb c && c.front == .parser) = false) :
    (interact c i it s).1.runs.length = r.run + 1 := by
  unfold interact at ho ⊢
  cases hv : validate c.front it.text with
  | none => simp only [hv] at ho; injection ho with ho; subst ho; cases hs
  | some v =>
    simp only [hv] at ho ⊢
    obtain ⟨sv, s1, he, hpost⟩ := send_spec c i it s hinv
    simp only [he] at ho ⊢
    have hpos : 1 ≤ s1.runs.length := by
      have h1 : 1 ≤ s.runs.length := by
        cases hsr : s.runs with
        | nil => exact absurd hsr hne
        | cons a r => simp
      have := hpost.runs_ge
      omega
    generalize hrv : receive c it.text s1 = rv at ho ⊢
    obtain ⟨s2, o2⟩ := rv
    cases o2 with
    | error e => simp only [] at ho; cases ho
    | ok r0 =>
      simp only [] at ho ⊢
      injection ho with ho; subst ho
      have h2 : (receive c it.text s1).2 = .ok r0 := by rw [hrv]
      obtain ⟨hrun, sA, hst, hlen, _⟩ := receive_state c it.text s1 r0 h2
      have hs2 : s2 = afterRead c sA := by rw [← hst, hrv]
      show s2.runs.length = r0.run + 1
      have : afterRead c sA = sA := by unfold afterRead; simp [hc]
      rw [hs2, this, hlen, hrun]; unfold curRun; omega

end Verif.C19
