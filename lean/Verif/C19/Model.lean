/-
C19 — model of `delphin/ace.py` (ACEProcess and its three front ends) talking to a scripted child.

What is modelled (the decisions the code takes):
* `interact` / `_validate_input` / `_possible_mrs` on real strings (`List Char`);
* `send` (poll → reopen, write, reopen-and-resend on a failed write, `ValueError` on a stdin the client
  closed itself), `_result_lines` (first terminus counted `len(termini)` times, run notes consumed on the
  fly, end-of-file ⇒ `close()`), `_tsdb_receive` (parser: poll → reopen after reading; generator: no poll),
  the three `_default_receive`s (the generator's look-ahead loop with its `IndexError`),
  `_make_response`, `_sexpr_data` / `_tsdb_response` over a token-level model of `util.SExpr.parse`
  (a line-by-line copy of the stack machine, including what it returns for unclosed input),
  `_open`, `close`, `run_infos`.
* the child process: a buffer of written-but-unread lines that stays readable after death, a per-input
  behaviour (lines written, then go on or die), and the moment at which its exit becomes visible to
  `poll()` / makes a write fail: `Policy` (`race` consumes the next bit of an oracle stream at every
  observation; the other three are the schedules the harness can force on the real stand-in).

What is NOT modelled: pipes, buffering, signals, time.  A line is a record of the attributes the code
looks at (computed from the real text by the harness with `==`, `startswith`, `in`).
Every line carries a ghost `owner`: the index of the input the child was processing when it wrote it.
-/
import Verif.Generated.TablesC19

namespace Verif.C19
open Verif.Tables

/-! ## input validation (real strings) -/

/-- Python `str.isspace`: the table `c19SpaceCodes` is generated from the running interpreter
(`[c for c in range(0x110000) if chr(c).isspace()]`) and pinned in `c19_pins` -/
def isPySpace (c : Char) : Bool := c19SpaceCodes.contains c.toNat

def lstrip : List Char → List Char
  | [] => []
  | c :: cs => if isPySpace c then lstrip cs else c :: cs

def rstrip (s : List Char) : List Char := (lstrip s.reverse).reverse

def strip (s : List Char) : List Char := rstrip (lstrip s)

/-- the scan of `_possible_mrs`: position, depth (an `Int`: a leading `]` makes it negative), start -/
def pmScan : List Char → (i : Nat) → (depth : Int) → (start : Option Nat) → Option Nat × Option Nat
  | [], _, _, start => (start, none)
  | c :: cs, i, depth, start =>
    if c = '[' then
      pmScan cs (i + 1) (depth + 1) (if depth = 0 then some i else start)
    else if c = ']' then
      if depth - 1 = 0 then (start, some (i + 1))
      else pmScan cs (i + 1) (depth - 1) start
    else pmScan cs (i + 1) depth start

/-- `_possible_mrs(s)`; `[]` stands for the empty (falsy) string -/
def possibleMrs (s : List Char) : List Char :=
  match pmScan s 0 0 none with
  | (some st, some en) =>
    if st ≠ 0 ∧ en ≠ s.length then (s.drop st).take (en - st) else s
  | _ => []

inductive Front | parser | transferer | generator
deriving DecidableEq, Repr

/-- `_validate_input`: the (truthy) string that is passed to `send`, or `none` when the input is refused -/
def validate (f : Front) (s : List Char) : Option (List Char) :=
  let v := match f with
    | .parser => strip s
    | _ => possibleMrs s
  if v = [] then none else some v

/-- a line break as `send` understands it: the class `[\r\n]` of its `re.sub` -/
def isBreak (c : Char) : Bool := c = '\n' || c = '\r'

/-- `re.sub(r'[\r\n]+', ' ', ·)`: every maximal run of CR/LF becomes one blank (`inRun`: the previous character
was part of a run that has already been replaced) -/
def oneLineAux : Bool → List Char → List Char
  | _, [] => []
  | inRun, c :: cs =>
    if isBreak c then (if inRun then oneLineAux true cs else ' ' :: oneLineAux true cs)
    else c :: oneLineAux false cs

def oneLine (s : List Char) : List Char := oneLineAux false s

/-- what `send` writes (without the newline it appends): `re.sub(r'[\r\n]+', ' ', datum.rstrip())` (0806f59) -/
def wire (v : List Char) : List Char := oneLine (rstrip v)

/-! ## S-expressions (token level) -/

inductive Tok
  | lp | rp | dot
  | num (n : Int)        -- an integer, possibly negative (`-` directly followed by a digit)
  | txt (t : Nat)        -- a symbol or a complete quoted string (id of its text)
  | truncNum             -- digits running into the end of the text: `s[j]` raises IndexError
  | truncStr             -- unterminated string: IndexError
  | bad                  -- a character no symbol can start with (`[`, `{`, `;`, a lone `\\` …): ValueError
deriving DecidableEq, Repr

inductive SVal
  | num (n : Int)
  | txt (t : Nat)
  | dot
  | list (xs : List SVal)
  | pair (a b : SVal)
deriving Repr

inductive Err
  | valueError        -- write to a stdin the client closed
  | hang              -- readline on a live child that has nothing more to say
  | unmodelled        -- shapes the generators never produce
deriving DecidableEq, Repr

/-- `_SExpr_parse` after the leading `(`: returns `data` and the remaining tokens. `none` = IndexError.
`ValueError` (token `bad`: `_SExpr_parse_symbol` finds no symbol) makes `_sexpr_data` log and stop, which is also what
it does with data that is not a pair: the model returns the non-pair `.dot` with nothing left, so that `sexprData`
stops there. -/
def sxLoop : List Tok → List (List SVal) → List SVal → SVal → Option (SVal × List Tok)
  | [], _, _, data => some (data, [])
  | .truncNum :: _, _, _, _ => none
  | .truncStr :: _, _, _, _ => none
  | .bad :: _, _, _, _ => some (.dot, [])
  | .num n :: ts, st, vals, data => sxLoop ts st (vals ++ [.num n]) data
  | .txt t :: ts, st, vals, data => sxLoop ts st (vals ++ [.txt t]) data
  | .dot :: ts, st, vals, data => sxLoop ts st (vals ++ [.dot]) data
  | .lp :: ts, st, vals, data => sxLoop ts (vals :: st) [] data
  | .rp :: ts, st, vals, _ =>
    let d : SVal := match vals with
      | [a, .dot, b] => .pair a b
      | _ => .list vals
    match st with
    | [] => some (d, ts)
    | top :: rest => sxLoop ts rest (top ++ [d]) d

theorem sxLoop_rest_le : ∀ (ts : List Tok) st vals data d r,
    sxLoop ts st vals data = some (d, r) → r.length ≤ ts.length := by
  intro ts
  induction ts with
  | nil => intro st vals data d r h; simp [sxLoop] at h; simp [h.2.symm]
  | cons t ts ih =>
    intro st vals data d r h
    cases t with
    | lp => simp only [sxLoop] at h; have := ih _ _ _ _ _ h; simp; omega
    | rp =>
      simp only [sxLoop] at h
      cases st with
      | nil => simp at h; simp [h.2.symm]
      | cons top rest => simp only at h; have := ih _ _ _ _ _ h; simp; omega
    | dot => simp only [sxLoop] at h; have := ih _ _ _ _ _ h; simp; omega
    | num n => simp only [sxLoop] at h; have := ih _ _ _ _ _ h; simp; omega
    | txt n => simp only [sxLoop] at h; have := ih _ _ _ _ _ h; simp; omega
    | truncNum => simp [sxLoop] at h
    | truncStr => simp [sxLoop] at h
    | bad => simp only [sxLoop, Option.some.injEq, Prod.mk.injEq] at h; simp [h.2.symm]

/-- text ids the code itself knows -/
def tIncomplete : Nat := 0   -- 'incomplete output from ACE'
def kError : Nat := 1        -- ':error'
def kPInput : Nat := 2       -- ':p-input'
def kPTokens : Nat := 3      -- ':p-tokens'
def kResults : Nat := 4      -- ':results'
def kChart : Nat := 5        -- ':chart'
def kSurface : Nat := 6      -- ':surface'
def tRefusal : Nat := 7      -- 'PyDelphin could not validate the input and refused to send it to ACE'

/-- `_sexpr_data`: the (key, value) pairs yielded before the loop stops (it stops, with a logged error,
at text that does not start with `(`, at data that is not a pair, at a key that is not a string) -/
def sexprData : Nat → List Tok → List (Nat × SVal)
  | 0, _ => []
  | _, [] => []
  | fuel + 1, t :: ts =>
    if t ≠ .lp then [] else
    let (data, rest) : SVal × List Tok :=
      match sxLoop ts [] [] (.list []) with
      | some r => r
      | none => (.pair (.txt kError) (.txt tIncomplete), [])
    let kv : Option (SVal × SVal) := match data with
      | .pair a b => some (a, b)
      | .list [a, b] => some (a, b)
      | _ => none
    match kv with
    | some (.txt k, v) => (k, v) :: sexprData fuel rest
    | _ => []

def assocSet {β} (k : Nat) (v : β) : List (Nat × β) → List (Nat × β)
  | [] => [(k, v)]
  | (k', v') :: r => if k' = k then (k, v) :: r else (k', v') :: assocSet k v r

/-- one entry of `:results`: a list of pairs with text keys; dict assignment in source order -/
def fieldOf : SVal → Option (Nat × SVal)
  | .pair (.txt k) v => some (k, v)
  | .list [.txt k, v] => some (k, v)      -- `reskey, resval = [k, v]` unpacks a two-element list as well
  | _ => none

def resultFieldsOrdered (xs : List SVal) : Option (List (Nat × SVal)) :=
  xs.foldlM (fun acc x => (fieldOf x).map (fun kv => assocSet kv.1 kv.2 acc)) []

def resultList : List SVal → Option (List (List (Nat × SVal)))
  | [] => some []
  | .list fs :: r => do
    let a ← resultFieldsOrdered fs
    let b ← resultList r
    pure (a :: b)
  | _ => none

structure Tsdb where
  results : List (List (Nat × SVal)) := []
  tokInitial : Option SVal := none
  tokInternal : Option SVal := none
  extra : List (Nat × SVal) := []
deriving Repr

/-- `_tsdb_response` -/
def tsdbFold : List (Nat × SVal) → Tsdb → Except Err Tsdb
  | [], acc => .ok acc
  | (k, v) :: r, acc =>
    if k = kPInput then
      match v with
      | .txt _ => tsdbFold r { acc with tokInitial := some v }
      | _ => .error .unmodelled
    else if k = kPTokens then
      match v with
      | .txt _ => tsdbFold r { acc with tokInternal := some v }
      | _ => .error .unmodelled
    else if k = kResults then
      match v with
      | .list xs =>
        match resultList xs with
        | some rs => tsdbFold r { acc with results := acc.results ++ rs }
        | none => .error .unmodelled
      | _ => .error .unmodelled
    else if k = kChart then .error .unmodelled
    else tsdbFold r { acc with extra := assocSet k v acc.extra }

/-! ## lines, behaviours, the child -/

inductive Cls | note | warning | error | surface | content
deriving DecidableEq, Repr

structure Line where
  owner : Option Nat := none   -- ghost: input index the child was processing; none for run notes
  nl : Bool := true            -- s.endswith('\n'): false only for a last line cut short by the exit
  blank : Bool := false        -- s == "\n"            (`^$`)
  parseNote : Bool := false    -- 'NOTE: tsdb parse: ' in s
  resOpen : Bool := false      -- '(:results .' in s
  runNote : Bool := false      -- s.startswith('NOTE: tsdb run:')
  empty : Bool := false        -- s.rstrip() == ''
  cls : Cls := .content        -- prefix class of `_make_response`
  dtree : Bool := false        -- startswith('DTREE = ')
  mrsp : Bool := false         -- startswith('MRS = ')
  full : Nat := 0              -- id of the stripped line
  payload : Nat := 0           -- id of the text after the prefix (NOTE: / SENT: / DTREE = …), stripped
  pidTag : Nat := 0            -- run notes: the `:pid-tag` value
  toks : List Tok := []        -- tokens of the line (tsdb protocol)
deriving Repr

def Line.hits (l : Line) : Terminus → Bool
  | .blank => l.blank
  | .parseNote => l.parseNote
  | .resultsOpen => l.resOpen

/-- when the exit of a dying child becomes visible -/
inductive Policy
  | exited      -- visible before its last output is (helper process writes after the exit)
  | afterItem   -- not during the interaction in which it died, certainly before the next one
  | onInput     -- stays alive with stdin open until the next line (or end of input) arrives, swallows it
  | race        -- every observation consumes the next oracle bit
deriving DecidableEq, Repr

structure Die where
  code : Nat
  pol : Policy
  closeStdin : Bool
deriving Repr

structure Item where
  text : List Char
  out : List Line
  die : Option Die
deriving Repr

structure Proc where
  buf : List Line := []
  dying : Bool := false
  exited : Bool := false
  pol : Policy := .race
  stdinClosed : Bool := false   -- by the child
  waited : Bool := false        -- `close()` ran on it: stdin closed by the client, return code known
  code : Nat := 0
deriving Repr

structure Run where
  id : Nat
  ended : Bool := false
  note : Option Nat := none
deriving Repr

structure Cfg where
  front : Front
  tsdb : Bool
  showTree : Bool := false
  showMrs : Bool := false
  runnote : Bool := true
  exitOk : Nat := 0
deriving Repr

structure St where
  proc : Proc
  opens : Nat                -- number of `_open` calls so far (= pid-tag of the next child)
  runs : List Run
  orc : List Bool
deriving Repr

/-- Python's comparison `a >= b` of two version tuples (lexicographic; a proper prefix is smaller) -/
def verGe : List Nat → List Nat → Bool
  | _, [] => true
  | [], _ :: _ => false
  | x :: xs, y :: ys => if x = y then verGe xs ys else decide (x > y)

/-- `ACEProcess.__init__`: `self.receive = self._tsdb_receive` iff `tsdbinfo and ace_version >= (0, 9, 24)` —
the protocol IN EFFECT (`Cfg.tsdb`), not the option that was requested; `version` is what the binary's `-V`
answer parses to (`(0, 9, 0)` when it does not parse) -/
def protocolInEffect (tsdbinfo : Bool) (version : List Nat) : Bool := tsdbinfo && verGe version [0, 9, 24]

/-- the command line of every `_open` (first start and every restart alike):
`[executable, '-g', grm] + self._cmdargs + self.cmdargs`, where `__init__` has appended `--tsdb-notes` to the
caller's options from version 0.9.14 on and `--tsdb-stdout --report-labels` when the tsdb protocol is in effect
(the transferer passes `tsdbinfo=False` whatever it is given) -/
def cmdline (f : Front) (tsdbinfo : Bool) (version : List Nat) (user : List String) : List String :=
  ["-g", "fake.dat"]
    ++ (match f with | .generator => ["-e", "--tsdb-notes"] | _ => [])
    ++ user
    ++ (if verGe version [0, 9, 14] then ["--tsdb-notes"] else [])
    ++ (if protocolInEffect (tsdbinfo && f != .transferer) version then ["--tsdb-stdout", "--report-labels"] else [])

def termini (c : Cfg) : List Terminus :=
  match c.front, c.tsdb with
  | .parser, _ => parserTermini
  | .transferer, _ => transfererTermini
  | .generator, false => generatorTermini
  | .generator, true => generatorTsdbTermini

def usesTsdb (c : Cfg) : Bool :=
  match c.front with
  | .transferer => false
  | _ => c.tsdb

def freshProc (c : Cfg) (k : Nat) : Proc :=
  { buf := if c.runnote then [{ runNote := true, cls := .note, pidTag := k }] else [] }

/-- `_open` -/
def openProc (c : Cfg) (s : St) : St :=
  { s with proc := freshProc c s.opens, opens := s.opens + 1,
           runs := s.runs ++ [{ id := s.runs.length }] }

def init (c : Cfg) (orc : List Bool) : St :=
  openProc c { proc := {}, opens := 0, runs := [], orc := orc }

def nextBit (s : St) : Bool × St :=
  match s.orc with
  | [] => (false, s)
  | b :: r => (b, { s with orc := r })

/-- `self._p.poll() is not None` -/
def poll (s : St) : Bool × St :=
  if s.proc.waited || s.proc.exited then (true, s)
  else if s.proc.dying then
    match s.proc.pol with
    | .race =>
      let (b, s') := nextBit s
      (b, { s' with proc := { s'.proc with exited := b } })
    | _ => (false, s)
  else (false, s)

def mapLast {α} (f : α → α) : List α → List α
  | [] => []
  | [a] => [f a]
  | a :: r => a :: mapLast f r

def applyNotes (notes : List Line) (runs : List Run) : List Run :=
  notes.foldl (fun rs l => mapLast (fun r => { r with note := some l.pidTag }) rs) runs

/-- `close()` on the current process; returns the exit status -/
def closeProc (c : Cfg) (s : St) : Nat × St :=
  let runs := mapLast (fun r => { r with ended := true }) s.runs
  let runs := applyNotes (s.proc.buf.filter (·.runNote)) runs
  let code := if s.proc.dying || s.proc.waited then s.proc.code else c.exitOk
  (code, { s with runs := runs,
                  proc := { s.proc with buf := [], waited := true, exited := true, dying := true, code := code } })

/-- the child reads the line of input `i` -/
def react (i : Nat) (it : Item) (p : Proc) : Proc :=
  let p := { p with buf := p.buf ++ it.out.map (fun l => { l with owner := some i }) }
  match it.die with
  | none => p
  | some d => { p with dying := true, pol := d.pol, exited := (d.pol == .exited),
                       stdinClosed := d.closeStdin, code := d.code }

inductive WriteRes | served | void | failed | closedByClient
deriving DecidableEq, Repr

/-- `stdin.write` + `flush` on the current process -/
def write (i : Nat) (it : Item) (s : St) : WriteRes × St :=
  let p := s.proc
  if p.waited then (.closedByClient, s)
  else if !p.dying then (.served, { s with proc := react i it p })
  else if p.exited || p.stdinClosed then (.failed, s)
  else match p.pol with
    | .race =>
      let (b, s') := nextBit s
      if b then (.failed, { s' with proc := { s'.proc with exited := true } }) else (.void, s')
    | .onInput => (.void, { s with proc := { p with exited := true } })
    | _ => (.void, s)

/-- the `try: write … except (IOError, OSError): _open(); write` part of `send` -/
def sendW (c : Cfg) (i : Nat) (it : Item) (s : St) : Except Err (Bool × St) :=
  match write i it s with
  | (.served, s) => .ok (true, s)
  | (.void, s) => .ok (false, s)
  | (.closedByClient, _) => .error .valueError
  | (.failed, s) =>
    match write i it (openProc c s) with
    | (.served, s) => .ok (true, s)
    | (.void, s) => .ok (false, s)
    | (.closedByClient, _) => .error .valueError
    | (.failed, _) => .error .unmodelled    -- BrokenPipeError from the second write (fresh child: unreachable)

/-- `send`; the ghost result says whether a live child got the line -/
def send (c : Cfg) (i : Nat) (it : Item) (s : St) : Except Err (Bool × St) :=
  sendW c i it (if (poll s).1 then openProc c (poll s).2 else (poll s).2)

inductive Stop | done | eof | hang
deriving DecidableEq, Repr

structure ReadRes where
  lines : List Line := []
  notes : List Line := []
  rest : List Line := []
  stop : Stop := .done
deriving Repr

/-- the loop of `_result_lines` over the readable lines; `dying` tells what an exhausted pipe means;
unless `part` (the tsdb callers pass `partial=True`) a line that does not end in a newline is discarded
(ab63037): it is neither kept nor looked at for the terminus -/
def readLines (t : Terminus) (dying : Bool) (part : Bool) : List Line → Nat → ReadRes
  | buf, 0 => { rest := buf, stop := .done }
  | [], _ + 1 => { stop := if dying then .eof else .hang }
  | l :: buf, n + 1 =>
    if l.runNote then
      let r := readLines t dying part buf (n + 1)
      { r with notes := l :: r.notes }
    else if !part && !l.nl then
      readLines t dying part buf (n + 1)
    else
      let r := readLines t dying part buf (if l.hits t then n else n + 1)
      { r with lines := l :: r.lines }

/-- `_result_lines`: returns the non-empty lines; end of file ⇒ `close()` -/
def resultLines (c : Cfg) (s : St) : Except Err (List Line × List Line × Bool × St) :=
  match termini c with
  | [] => .error .unmodelled
  | t :: ts =>
    let r := readLines t s.proc.dying (usesTsdb c) s.proc.buf (ts.length + 1)
    let s := { s with proc := { s.proc with buf := r.rest }, runs := applyNotes r.notes s.runs }
    match r.stop with
    | .hang => .error .hang
    | .done => .ok (r.lines.filter (!·.empty), r.lines, false, s)
    | .eof => .ok (r.lines.filter (!·.empty), r.lines, true, (closeProc c s).2)

structure GRes where
  sent : Nat
  deriv : Option Nat := none
  mrs : Option Nat := none
deriving Repr

/-- the look-ahead loop of `ACEGenerator._default_receive` (with the `i < numlines` guards of 582e187) -/
def genResults (st sm : Bool) : Nat → List Line → List GRes
  | 0, _ => []
  | _, [] => []
  | fuel + 1, l :: ls =>
    let (dv, ls1) : Option Nat × List Line :=
      match st, ls with
      | true, d :: ls' => if d.dtree then (some d.payload, ls') else (none, ls)
      | _, _ => (none, ls)
    let (mv, ls2) : Option Nat × List Line :=
      match sm, ls1 with
      | true, m :: ls' => if m.mrsp then (some m.payload, ls') else (none, ls1)
      | _, _ => (none, ls1)
    { sent := l.full, deriv := dv, mrs := mv } :: genResults st sm fuel ls2

inductive Results
  | lines (xs : List Nat)           -- parser / transferer default protocol: ids of the content lines
  | gen (xs : List GRes)
  | tsdb (t : Tsdb)
deriving Repr

/-- the `surface` entry of a response: the text after `SENT: ` / `SKIP: ` of a line the processor wrote (id of
the text), or — in the response `interact` fabricates for a refused input — the input text itself -/
inductive Surf
  | id (t : Nat)
  | input (s : List Char)
deriving DecidableEq, Repr

structure Resp where
  input : List Char
  skipped : Bool := false
  run : Nat := 0
  notes : List Nat := []
  warnings : List Nat := []
  errors : List Nat := []
  surface : Option Surf := none
  results : Results := .lines []
  -- ghost
  src : List (Option Nat) := []     -- owners of every line read for this response
  srcNl : List Bool := []           -- … and whether each of them was a complete line
  eof : Bool := false               -- `_result_lines` saw the end of the stream
  served : Bool := false            -- a live child read the input
  wrote : Option (List Char) := none
deriving Repr

def Resp.isEmpty (r : Resp) : Bool :=
  match r.results with
  | .lines xs => xs.isEmpty
  | .gen xs => xs.isEmpty
  | .tsdb t => t.results.isEmpty

def curRun (s : St) : Nat := s.runs.length - 1

/-- `_make_response` on the lines that were read -/
def baseResp (inp : List Char) (run : Nat) (lines allLines : List Line) (eof : Bool) : Resp :=
  { input := inp, run := run,
    notes := (lines.filter (·.cls == .note)).map (·.payload),
    warnings := (lines.filter (·.cls == .warning)).map (·.payload),
    errors := (lines.filter (·.cls == .error)).map (·.payload),
    surface := (((lines.filter (·.cls == .surface)).map (·.payload)).getLast?).map Surf.id,
    src := allLines.map (·.owner), srcNl := allLines.map (·.nl), eof := eof }

/-- the front end's interpretation of the content lines -/
def decode (c : Cfg) (content : List Line) : Except Err Results :=
  if usesTsdb c then
    let toks := (content.map (·.toks)).flatten
    match tsdbFold (sexprData (toks.length + 1) toks) {} with
    | .error e => .error e
    | .ok t => .ok (.tsdb t)
  else
    match c.front with
    | .generator => .ok (.gen (genResults c.showTree c.showMrs content.length content))
    | _ => .ok (.lines (content.map (·.full)))

/-- parser, tsdb protocol: "now it should be safe to reopen a closed process" -/
def afterRead (c : Cfg) (s : St) : St :=
  if usesTsdb c && c.front == .parser then
    (if (poll s).1 then openProc c (poll s).2 else (poll s).2)
  else s

/-- `response[key[1:]] = val` for a top-level `:surface` pair (which a truncated generator answer can
produce) lands on the response's own `surface` entry -/
def fixSurface (r : Resp) : Resp :=
  match r.results with
  | .tsdb t =>
    match t.extra.lookup kSurface with
    | some (.txt v) =>
      { r with surface := some (.id v), results := .tsdb { t with extra := t.extra.filter (fun kv => kv.1 != kSurface) } }
    | _ => r
  | _ => r

/-- `receive()` -/
def receive (c : Cfg) (inp : List Char) (s : St) : St × Except Err Resp :=
  match resultLines c s with
  | .error e => (s, .error e)
  | .ok (lines, allLines, eof, s1) =>
    let base := baseResp inp (curRun s) lines allLines eof
    match decode c (lines.filter (·.cls == .content)) with
    | .error e => (afterRead c s1, .error e)
    | .ok rs => (afterRead c s1, .ok (fixSurface { base with results := rs }))

/-- the response `interact` fabricates for an input it refuses: `_make_response` on the two lines
`NOTE: PyDelphin could not validate the input and refused to send it to ACE` and `SKIP: <datum>` with the
current run record — one note, the input as surface, no results -/
def skipResp (inp : List Char) (run : Nat) : Resp :=
  { input := inp, skipped := true, run := run, notes := [tRefusal], surface := some (.input inp) }

/-- `task` of the three front ends (what `process_item` stores under `task`) -/
def taskOf : Front → String
  | .parser => "parse"
  | .transferer => "transfer"
  | .generator => "generate"

/-- `interact(datum)` for input number `i` -/
def interact (c : Cfg) (i : Nat) (it : Item) (s : St) : St × Except Err Resp :=
  match validate c.front it.text with
  | none => (s, .ok (skipResp it.text (curRun s)))
  | some v =>
    match send c i it s with
    | .error e => (s, .error e)
    | .ok (served, s1) =>
      match receive c it.text s1 with
      | (s2, .error e) => (s2, .error e)
      | (s2, .ok r) => (s2, .ok { r with served := served, wrote := some (wire v) })

/-- the harness's wait between interactions: a child that died under `afterItem` has exited by now -/
def settle (s : St) : St :=
  if s.proc.dying && s.proc.pol == .afterItem then { s with proc := { s.proc with exited := true } } else s

def runFrom (c : Cfg) : Nat → List Item → St → List (Except Err Resp) × St
  | _, [], s => ([], s)
  | i, it :: r, s =>
    let (s1, o) := interact c i it s
    let (os, s2) := runFrom c (i + 1) r (settle s1)
    (o :: os, s2)

structure Outcome where
  resps : List (Except Err Resp)
  close : Nat
  runs : List Run
deriving Repr

def run (c : Cfg) (items : List Item) (orc : List Bool) : Outcome :=
  let (os, s) := runFrom c 0 items (init c orc)
  let (code, s') := closeProc c s
  { resps := os, close := code, runs := s'.runs }

end Verif.C19
