/-
C19 — property theorems: ACE interaction keeps responses aligned with inputs across processor failures.

All statements are about `Verif.C19.run` (Model.lean): for EVERY front end / protocol configuration `c`,
every list of inputs with their per-input processor behaviour (`Item`: text, lines written, whether and how
the processor exits, with any exit-visibility policy) and every race-oracle stream `orc`.
`WF c it` is the processor's side of the protocol (it answers completely while it lives and writes nothing
after the terminator of an answer); without it no client could stay aligned (`wf_is_needed`).
Pipes, buffering, reaping and time are outside the model (see Model.lean).
-/
import Verif.C19.Lemmas

namespace Verif.C19
open Verif.Tables

def blankL' : Line := { blank := true, empty := true }

/-- "each interaction returns exactly one response that records its own input, responses come back in input
order, any results in a response are the results the processor produced for that very input and never those
of another": one outcome per input, in order; a response records its input; every line that was read into
response `j` was written by the processor while it was processing input `j` (ghost owner tags). -/
theorem alignment (c : Cfg) (items : List Item) (orc : List Bool) (hwf : ∀ it ∈ items, WF c it) :
    (run c items orc).resps.length = items.length ∧
    ∀ (j : Nat) (r : Resp), (run c items orc).resps[j]? = some (Except.ok r) →
      ∃ it, items[j]? = some it ∧ r.input = it.text ∧ ∀ ow ∈ r.src, ow = some j := by
  have hi := init_spec c orc
  have h := runFrom_spec c items 0 (init c orc) hi.1 hi.2 hwf
  refine ⟨h.len, ?_⟩
  intro j r hj
  obtain ⟨it, h1, h2, h3, _, _, _⟩ := h.ok j r hj
  exact ⟨it, h1, h2, by simpa using h3⟩

/-- "a failed item yields an empty result instead of an exception or a hang": no interaction hangs and none
raises `ValueError` (the only outcome other than a response is `unmodelled`: an S-expression whose shape is
outside what the model describes, e.g. `(:results . 3)`); an input that no live processor read, or for which
the processor wrote nothing before it exited, gets a response with no results. -/
theorem failed_item_empty_no_exception (c : Cfg) (items : List Item) (orc : List Bool)
    (hwf : ∀ it ∈ items, WF c it) :
    (∀ (j : Nat) (e : Err), (run c items orc).resps[j]? = some (Except.error e) → e = Err.unmodelled) ∧
    (∀ (j : Nat) (r : Resp) (it : Item), (run c items orc).resps[j]? = some (Except.ok r) → items[j]? = some it →
      (r.served = false ∨ it.out = []) → r.isEmpty = true) := by
  have hi := init_spec c orc
  have h := runFrom_spec c items 0 (init c orc) hi.1 hi.2 hwf
  refine ⟨fun j e hj => (h.err j e hj).1, ?_⟩
  intro j r it hj hit hor
  obtain ⟨it', h1, _, _, _, h5, _⟩ := h.ok j r hj
  rw [hit] at h1; injection h1 with h1; subst h1
  exact (h5 hor).2

/-- with the default (non-tsdb) protocol no interaction ever fails to return a response -/
theorem default_protocol_always_responds (c : Cfg) (items : List Item) (orc : List Bool)
    (hwf : ∀ it ∈ items, WF c it) (hd : usesTsdb c = false) :
    ∀ o ∈ (run c items orc).resps, ∃ r, o = Except.ok r := by
  have hi := init_spec c orc
  have h := runFrom_spec c items 0 (init c orc) hi.1 hi.2 hwf
  intro o ho
  cases o with
  | ok r => exact ⟨r, rfl⟩
  | error e =>
    exfalso
    obtain ⟨j, hj, hje⟩ := List.getElem_of_mem ho
    have hj' : (run c items orc).resps[j]? = some (Except.error e) := by
      rw [List.getElem?_eq_getElem hj, hje]
    have he := (h.err j e hj').2.1
    rw [hd] at he; cases he

/-- "… instead of an exception", at full strength for the tsdb protocol as well: if the answer written for
every input decodes into the shapes `_tsdb_response` digests (`shapedItem`: `:p-input`/`:p-tokens` carry a
string, `:results` a list of lists of (key . value) fields, no `:chart` — the shapes ACE produces; a decidable
predicate on the tokens of the item, evaluated for every generated case by the correspondence run), then EVERY
interaction returns a response — for every configuration, exit policy, cut point and oracle stream.
Conversely an error can only be the decoder's: the model's `unmodelled` stands for the TypeError / ValueError /
AttributeError the real `_tsdb_response` raises on such shapes (compared on the `unshaped` sessions). -/
theorem shaped_always_responds (c : Cfg) (items : List Item) (orc : List Bool)
    (hwf : ∀ it ∈ items, WF c it) (hsh : ∀ it ∈ items, shapedItem c it = true) :
    ∀ o ∈ (run c items orc).resps, ∃ r, o = Except.ok r := by
  have hi := init_spec c orc
  have h := runFrom_spec c items 0 (init c orc) hi.1 hi.2 hwf
  intro o ho
  cases o with
  | ok r => exact ⟨r, rfl⟩
  | error e =>
    exfalso
    obtain ⟨j, hj, hje⟩ := List.getElem_of_mem ho
    have hj' : (run c items orc).resps[j]? = some (Except.error e) := by
      rw [List.getElem?_eq_getElem hj, hje]
    obtain ⟨_, _, it, hit, hns⟩ := h.err j e hj'
    have hmem : it ∈ items := List.mem_of_getElem? hit
    rw [hsh it hmem] at hns
    cases hns

/-- a well-formed processor that answers `(:results . 3)` does get the decoder's error (the hypothesis of
`shaped_always_responds` is needed) -/
theorem unshaped_raises :
    let c : Cfg := { front := .parser, tsdb := true }
    let it : Item := { text := "a".toList,
                       out := [{ toks := [.lp, .txt kResults, .dot, .num 3, .rp] }, blankL', blankL'], die := none }
    shapedItem c it = false ∧
    (run c [it] []).resps.map (fun o => match o with | .ok _ => 0 | .error _ => 1) = [1] := by decide

/-- "any results in a response are the results the processor produced for that very input" read as
COMPLETE lines (F54, repaired in ab63037): with the default (non-tsdb) protocol every line that a response is
built from — results, notes, surface — was written by the processor for that very input (`alignment`) AND ends
in a newline, whatever the answer text and wherever the exit cut it; and when no complete, non-empty content
line was written for the input, the response has no results ("a failed item yields an empty result"). -/
theorem default_results_from_complete_lines (c : Cfg) (items : List Item) (orc : List Bool)
    (hwf : ∀ it ∈ items, WF c it) (hd : usesTsdb c = false)
    (j : Nat) (r : Resp) (it : Item) (hj : (run c items orc).resps[j]? = some (Except.ok r))
    (hit : items[j]? = some it) :
    (∀ ow ∈ r.src, ow = some j) ∧ (∀ b ∈ r.srcNl, b = true) ∧ (completeContent it = [] → r.isEmpty = true) := by
  have h0 := init_spec c orc
  obtain ⟨it', h1, _, h3, _, _, h6⟩ := (runFrom_spec c items 0 (init c orc) h0.1 h0.2 hwf).ok j r hj
  rw [hit] at h1; injection h1 with h1; subst h1
  exact ⟨by simpa using h3, (h6 hd).1, (h6 hd).2⟩

/-- the cut fragment really is dropped: a parser (default protocol) whose processor writes one complete
result line and then `NO` without a newline before it exits reports exactly that one result -/
theorem fragment_dropped :
    let c : Cfg := { front := .parser, tsdb := false }
    let it : Item := { text := "b".toList, out := [{ full := 5, payload := 5 }, { full := 6, payload := 6, nl := false }],
                       die := some { code := 1, pol := .race, closeStdin := false } }
    ((run c [it] []).resps.map (fun o => match o with
        | .ok r => (match r.results with | .lines xs => xs | _ => [99]) | .error _ => [98])) = [[5]] := by decide

/-- "After a failure later inputs are served by a restarted processor with a new run record": if interaction
`i` saw the processor's output end (`eof`), every later input that is sent (not skipped) is answered under a
strictly larger run id — `_open` ran in between, and each `_open` starts a new child and appends a new run
record (`openProc`). -/
theorem restart_after_failure (c : Cfg) (items : List Item) (orc : List Bool) (hwf : ∀ it ∈ items, WF c it)
    (i j : Nat) (ri rj : Resp) (hij : i < j)
    (hi : (run c items orc).resps[i]? = some (Except.ok ri)) (hfail : ri.eof = true)
    (hj : (run c items orc).resps[j]? = some (Except.ok rj)) (hsent : rj.skipped = false) :
    ri.run < rj.run := by
  have h0 := init_spec c orc
  exact (runFrom_spec c items 0 (init c orc) h0.1 h0.2 hwf).restart i j ri rj hij hi hfail hj hsent

/-- "inputs the processor cannot accept … are reported as skipped without being sent": a refused input
changes nothing (no write, no read, no restart) and yields a response marked skipped, with its input. -/
theorem skipped_not_sent (c : Cfg) (i : Nat) (it : Item) (s : St) (h : validate c.front it.text = none) :
    interact c i it s = (s, Except.ok (skipResp it.text (curRun s))) := by
  simp [interact, h]

/-- … and in a whole session a response is marked skipped exactly when validation refused the input -/
theorem skipped_iff_refused (c : Cfg) (items : List Item) (orc : List Bool) (hwf : ∀ it ∈ items, WF c it)
    (j : Nat) (r : Resp) (it : Item) (hj : (run c items orc).resps[j]? = some (Except.ok r))
    (hit : items[j]? = some it) : r.skipped = true ↔ validate c.front it.text = none := by
  have h0 := init_spec c orc
  obtain ⟨it', h1, _, _, h4, _, _⟩ := (runFrom_spec c items 0 (init c orc) h0.1 h0.2 hwf).ok j r hj
  rw [hit] at h1; injection h1 with h1; subst h1
  exact h4

/-- "blank parser input": the parser refuses exactly the inputs that consist of white space only -/
theorem parser_refuses_blank (s : List Char) :
    validate .parser s = none ↔ ∀ ch ∈ s, isPySpace ch = true := by
  have key : strip s = [] ↔ lstrip s = [] := by
    unfold strip rstrip
    constructor
    · intro h
      have h' : lstrip (lstrip s).reverse = [] := by simpa using h
      rw [lstrip_nil_iff] at h'
      cases hl : lstrip s with
      | nil => rfl
      | cons a r =>
        have := lstrip_head s a r hl
        have h2 := h' a (by simp [hl])
        rw [this] at h2; cases h2
    · intro h; simp [h, lstrip]
  unfold validate
  simp only []
  rw [← lstrip_nil_iff, ← key]
  by_cases h : strip s = [] <;> simp [h]

/-- "text without an MRS for generation or transfer": no opening bracket, no MRS, not sent -/
theorem no_bracket_refused (f : Front) (hf : f ≠ .parser) (s : List Char) (h : '[' ∉ s) :
    validate f s = none := by
  have hp : possibleMrs s = [] := by
    unfold possibleMrs
    have := pmScan_no_open s 0 0 h
    generalize pmScan s 0 0 none = r at this
    obtain ⟨a, b⟩ := r
    simp only at this
    subst this
    rfl
  unfold validate
  cases f with
  | parser => exact absurd rfl hf
  | transferer => simp [hp]
  | generator => simp [hp]

/-- … and exactly then: the generator and the transferer refuse an input iff `_possible_mrs` finds no
bracketed span in it -/
theorem refused_iff_no_mrs (f : Front) (hf : f ≠ .parser) (s : List Char) :
    validate f s = none ↔ possibleMrs s = [] := by
  unfold validate
  cases f with
  | parser => exact absurd rfl hf
  | transferer => by_cases h : possibleMrs s = [] <;> simp [h]
  | generator => by_cases h : possibleMrs s = [] <;> simp [h]

/-- "closing returns the exit status with the run's end time recorded": `close()` stamps the end on the
current (last) run record, keeps the number of run records, and returns the exit status of the current
child — its own if it had exited, the normal status of a child that ends at end of input otherwise. -/
theorem close_records_end (c : Cfg) (s : St) (hne : s.runs ≠ []) :
    ((closeProc c s).2.runs.getLast?.map (·.ended) = some true) ∧
    (closeProc c s).2.runs.length = s.runs.length ∧
    (closeProc c s).1 = (if s.proc.dying || s.proc.waited then s.proc.code else c.exitOk) := by
  refine ⟨?_, (closeProc_spec c s).1, rfl⟩
  simp only [closeProc]
  rw [applyNotes_last_ended, mapLast_getLast?]
  cases h : s.runs.getLast? with
  | none => rw [List.getLast?_eq_none_iff] at h; exact absurd h hne
  | some r => rfl

/-- in a whole session the last run record is ended after `close()` and there is at least one -/
theorem session_close (c : Cfg) (items : List Item) (orc : List Bool) (hwf : ∀ it ∈ items, WF c it) :
    (run c items orc).runs.getLast?.map (·.ended) = some true := by
  have h0 := init_spec c orc
  have h := runFrom_spec c items 0 (init c orc) h0.1 h0.2 hwf
  exact (close_records_end c _ h.runs_ne).1

/-- "closing returns the exit status", session level (1): when no input makes the processor exit, the
processor started at construction is never replaced and `close()` returns its normal exit status. -/
theorem close_status_all_answering (c : Cfg) (items : List Item) (orc : List Bool)
    (h : ∀ it ∈ items, it.die = none) : (run c items orc).close = c.exitOk := by
  have h0 : Alive (init c orc) := ⟨rfl, rfl, rfl⟩
  have ha := runFrom_alive c items 0 (init c orc) h0 h
  unfold run
  generalize runFrom c 0 items (init c orc) = rr at ha
  obtain ⟨os, s⟩ := rr
  have ha' : Alive s := ha
  simp [closeProc, ha'.1, ha'.2.1]

/-- "closing returns the exit status", session level (2): when the LAST input was read by a live processor
that then exited with status `d.code` (before, in the middle of, or after its answer; whatever the exit
schedule), `close()` returns `d.code` — for every configuration except parser/tsdb, where `_tsdb_receive`
itself replaces a processor whose exit it sees (that case is compared on the real code only). -/
theorem close_status_of_failed_last (c : Cfg) (pre : List Item) (it : Item) (orc : List Bool)
    (hwf : ∀ x ∈ pre ++ [it], WF c x) (d : Die) (hdie : it.die = some d)
    (hc : (usesTsdb c && c.front == .parser) = false) (r : Resp)
    (hr : (run c (pre ++ [it]) orc).resps.getLast? = some (Except.ok r)) (hs : r.served = true) :
    (run c (pre ++ [it]) orc).close = d.code := by
  have h0 := init_spec c orc
  have hp := runFrom_spec c pre 0 (init c orc) h0.1 h0.2 (fun x hx => hwf x (by simp [hx]))
  have hst := interact_spec c pre.length it (runFrom c 0 pre (init c orc)).2 hp.inv hp.runs_ne
    (hwf it (by simp))
  unfold run at hr ⊢
  rw [runFrom_snoc] at hr ⊢
  simp only [Nat.zero_add] at hr ⊢
  simp only [List.getLast?_append, List.getLast?_singleton, Option.some_or, Option.some.injEq] at hr
  obtain ⟨k1, k2⟩ := hst.last r d hr hs hdie hc
  have hf := settle_fields (interact c pre.length it (runFrom c 0 pre (init c orc)).2).1
  simp only [closeProc, hf.1, hf.2.2, k1, k2]
  simp

/-- PINS.  The literal values of the constants of `delphin/ace.py` (and of `util.SExpr`, `itsdb`) that
Model.lean, the stand-in and the oracle hand-code an equivalent of, as read from the live code objects on
every run (`harness/c19.py: pins()`; `None`, docstrings and log/exception message texts left out).
A change to any of them stops this theorem from checking, which the check reports as a broken proof
obligation and then searches for a failing input.  34 conjuncts: the four classified termini tables (`termini`,
`readLines`), 29 constant lists and the `isspace` table.  Which definition mirrors what:
* `c19InitConsts`, `c19InitDefaults`, `c19TransfererInitConsts`, `c19GeneratorInitConsts`, `c19ClassTables`,
  `c19AceVersionConsts`: `usesTsdb` (tsdb protocol iff `tsdbinfo` ∧ version ≥ 0.9.24; the transferer passes
  `tsdbinfo=False`), `Cfg` defaults, the options the stand-in is started with, its `-V` answer;
* `c19OpenConsts`: `openProc` / `Run` (one record per `_open`, key `run-id`); `c19CloseConsts`: `closeProc`
  (`end`), run notes drained;
* `c19ResultLinesConsts`, `c19ReadRunInfoConsts`, `c19TerminiPatterns`: `readLines` (incl. the `\n` test behind
  `Line.nl`; `partial` defaults to `False`, see `c19InitDefaults`), `Line.runNote`, `Line.hits`, `applyNotes`, the
  `Terminus` classification;
* `c19SendConsts`: `wire` / `isBreak` / `oneLine` (the class `[\r\n]+`, replaced by one blank; one line per input); `c19InteractConsts`: the skipped response of `interact`
  (refusal note, `SKIP: `), `Resp.input`; `c19ProcessItemConsts`: oracle clauses on `keys`/`task`;
* `c19ValidateNames`, `c19PossibleMrsConsts`: `validate`, `strip`, `pmScan`, `possibleMrs` (brackets `[` `]`);
* `c19MakeResponseConsts`: `Cls`, `baseResp` (prefixes and their lengths 6/9/7, the keys they feed);
* `c19ParserReceiveConsts`, `c19TransfererReceiveConsts`, `c19GeneratorReceiveConsts`: `decode` (default
  protocol), `genResults` (`DTREE = ` 8, `MRS = ` 6, the two option names), harness `_line_result`;
* `c19TsdbReceiveConsts`, `c19GeneratorTsdbReceiveConsts`: both tsdb readers pass `partial=True` (`resultLines`
  reads with `part := usesTsdb c`), lines joined by one blank (`decode` flattens tokens),
  `generatorTsdbTermini`;
* `c19SexprDataConsts`, `c19TsdbResponseConsts`: `sexprData` (`(`, the `:error` pair, length 2), `tsdbFold`,
  `kPInput`…`kSurface`, `fixSurface`;
* `c19SExprParseConsts`, `c19SExprNumberConsts`, `c19SExprStringConsts`, `c19SExprSymbolConsts`: `sxLoop`,
  `Tok` and the harness tokenizer;
* `c19TaskSelectors`: which profile column is the input of each task (oracle's notion of an input);
* `c19SpaceCodes`: `isPySpace` (hence `strip`, `rstrip`, `validate .parser`, `wire`) — the code points with
  `str.isspace()` in the running interpreter, i.e. what `datum.strip()` / `datum.rstrip()` remove. -/
theorem c19_pins :
    parserTermini = [.blank, .blank] ∧ transfererTermini = [.blank]
    ∧ generatorTermini = [.parseNote] ∧ generatorTsdbTermini = [.resultsOpen]
    ∧
    c19InitConsts =
      ["ace", "(0, 9, 14)", "--tsdb-notes", "(0, 9, 24)", "--tsdb-stdout", "--report-labels", "--itsdb-forest", "-1"]
    ∧
    c19InitDefaults =
      ["(None, None, None, True, False, None)", "(None, None, None, True, False, None)", "(None, None, None, None)", "(None, None, None, True, None)", "(None, False)", "(None)"]
    ∧
    c19TransfererInitConsts =
      ["False", "(cmdargs, executable, env, tsdbinfo, full_forest, stderr)"]
    ∧
    c19GeneratorInitConsts =
      ["False", "(cmdargs, executable, env, tsdbinfo, full_forest, stderr)"]
    ∧
    c19OpenConsts =
      ["-g", "True", "(stdin, stdout, stderr, env, universal_newlines)", "1", "ACE {} via PyDelphin v{}", ".", " ", "(run-id, application, environment, user, host, os, start)", "0"]
    ∧
    c19ResultLinesConsts =
      ["0", "", "NOTE: tsdb run:", "\n", "1"]
    ∧
    c19ReadRunInfoConsts =
      ["NOTE: tsdb run:", "15", ":application", ":"]
    ∧
    c19SendConsts =
      ["[\\r\\n]+", " ", "\n"]
    ∧
    c19TsdbReceiveConsts =
      ["True", "(partial)", " "]
    ∧
    c19InteractConsts =
      ["NOTE: PyDelphin could not validate the input and refused to send it to ACE", "SKIP: ", "input"]
    ∧
    c19ProcessItemConsts =
      ["keys", "task"]
    ∧
    c19CloseConsts =
      ["end", "NOTE: tsdb run:"]
    ∧
    c19ValidateNames =
      ["(isinstance, str, strip)()", "(_possible_mrs)()", "(_possible_mrs)()"]
    ∧
    c19ParserReceiveConsts =
      ["(mrs, derivation)", " ; ", "results"]
    ∧
    c19TransfererReceiveConsts =
      ["mrs", "results"]
    ∧
    c19GeneratorReceiveConsts =
      ["--show-realization-trees", "--show-realization-mrses", "0", "SENT", "1", "DTREE = ", "8", "derivation", "MRS = ", "6", "mrs", "results"]
    ∧
    c19GeneratorTsdbReceiveConsts =
      ["\\(:results \\.", "True", "(termini, partial)", " "]
    ∧
    c19AceVersionConsts =
      ["(0, 9, 0)", "-V", "True", "(universal_newlines)", "ACE version ([.0-9]+)", "1", "."]
    ∧
    c19PossibleMrsConsts =
      ["(-1, -1)", "0", "[", "1", "]", "-1", ""]
    ∧
    c19MakeResponseConsts =
      ["(NOTES, WARNINGS, ERRORS, run, input, surface, results)", "NOTE: ", "NOTES", "6", "WARNING: ", "WARNINGS", "9", "ERROR: ", "ERRORS", "7", "SENT: ", "SKIP: ", "surface"]
    ∧
    c19SexprDataConsts =
      ["(", "(:error, incomplete output from ACE)", "", "2"]
    ∧
    c19TsdbResponseConsts =
      [":p-input", "tokens", "initial", ":p-tokens", "internal", ":results", ":derivation", "derivation", ":mrs", "mrs", ":surface", "surface", "1", "results", ":chart", "chart"]
    ∧
    c19SExprParseConsts =
      ["", "(", "1", "-", "\"", ")", "3", ".", "0", "2", "-1"]
    ∧
    c19SExprNumberConsts =
      ["1", ".eE", ".", "eE", "+-"]
    ∧
    c19SExprStringConsts =
      ["1", "\"", "\\", "2"]
    ∧
    c19SExprSymbolConsts =
      ["(pos)", "0", "\\\\([\"\\\\])", "\\1", "\\\\([{}])", "\\1", "(?:[^\"\\s\\(\\)\\[\\]\\{\\}\\\\;]+|\\\\.)+", "32", "\"\\s\\(\\)\\[\\]\\{\\}\\\\;"]
    ∧
    c19ClassTables =
      ["(None, ())", "(parse, ())", "(transfer, ())", "(generate, (-e, --tsdb-notes))", "None"]
    ∧
    c19TerminiPatterns =
      ["^$/32", "^$/32", "^$/32", "NOTE: tsdb parse: /32", "\\(:results \\./32"]
    ∧
    c19TaskSelectors =
      ["generate:(result, mrs)", "parse:(item, i-input)", "transfer:(result, mrs)"]
    ∧
    c19SpaceCodes =
      [9, 10, 11, 12, 13, 28, 29, 30, 31, 32, 133, 160, 5760, 8192, 8193, 8194, 8195, 8196, 8197, 8198, 8199, 8200,
       8201, 8202, 8232, 8233, 8239, 8287, 12288] := by
  refine ⟨?_, ?_, ?_, ?_, ?_, ?_, ?_, ?_, ?_, ?_, ?_, ?_, ?_, ?_, ?_, ?_, ?_, ?_, ?_, ?_, ?_, ?_, ?_, ?_, ?_, ?_, ?_, ?_, ?_, ?_, ?_, ?_, ?_, ?_⟩ <;> rfl

/-! ## the hypothesis is needed, and the model is not vacuous (concrete sessions, checked by evaluation) -/

def blankL : Line := { blank := true, empty := true }
def resL (n : Nat) : Line := { full := n, payload := n }

/-- a processor that writes one more line after the terminator of its first answer (not `WF`) makes the
transferer attribute that line to the second input -/
theorem wf_is_needed :
    let c : Cfg := { front := .transferer, tsdb := false }
    let items : List Item := [{ text := "[a]".toList, out := [resL 7, blankL, resL 8], die := none },
                              { text := "[b]".toList, out := [resL 9, blankL], die := none }]
    ((run c items []).resps[1]?.map (fun o => match o with | .ok r => r.src | .error _ => []))
      = some [some 0, some 1, some 1] := by decide

/-- `WF` is satisfiable: a parser answer (two result lines, two blank lines) is well formed, and so is the
same answer cut after its first line by a processor that exits -/
example : WF { front := .parser, tsdb := false } { text := "a".toList, out := [resL 1, resL 2, blankL, blankL], die := none } := by
  intro t ts h
  have : t = .blank ∧ ts = [.blank] := by
    simp [termini, parserTermini] at h; exact ⟨h.1.symm, h.2.symm⟩
  obtain ⟨rfl, rfl⟩ := this
  decide

/-- a concrete session with a failure: the processor exits without answering the second of three inputs;
the third is answered under run 1 by a restarted processor; two run records exist; close() returns 0 -/
example :
    let c : Cfg := { front := .transferer, tsdb := false }
    let ok (n : Nat) : Item := { text := "[a]".toList, out := [resL n, blankL], die := none }
    let dead : Item := { text := "[b]".toList, out := [], die := some { code := 3, pol := .race, closeStdin := false } }
    ((run c [ok 1, dead, ok 2] [true, false]).resps.map (fun o => match o with
        | .ok r => (r.run, r.isEmpty, r.eof) | .error _ => (99, false, false)))
      = [(0, false, false), (0, true, true), (1, false, false)]
    ∧ (run c [ok 1, dead, ok 2] []).runs.length = 2 ∧ (run c [ok 1, dead, ok 2] []).close = 0 := by decide

end Verif.C19
