/- C19 — helper lemmas for Props.lean -/
import Verif.C19.Model

namespace Verif.C19
open Verif.Tables

/-! ## small list facts -/

theorem mapLast_length {α} (f : α → α) : ∀ l : List α, (mapLast f l).length = l.length
  | [] => rfl
  | [_] => rfl
  | a :: b :: r => by
    have := mapLast_length f (b :: r)
    simp [mapLast, this]

theorem mapLast_getLast? {α} (f : α → α) : ∀ l : List α, (mapLast f l).getLast? = l.getLast?.map f
  | [] => rfl
  | [_] => rfl
  | a :: b :: r => by
    have ih := mapLast_getLast? f (b :: r)
    have h1 : mapLast f (a :: b :: r) = a :: mapLast f (b :: r) := rfl
    have hne : mapLast f (b :: r) ≠ [] := by
      intro h; have := congrArg List.length h; simp [mapLast_length] at this
    rw [h1, List.getLast?_cons_of_ne_nil hne, ih]
    simp [List.getLast?_cons_cons]

theorem applyNotes_length (ns : List Line) : ∀ runs : List Run, (applyNotes ns runs).length = runs.length := by
  induction ns with
  | nil => intro runs; rfl
  | cons n ns ih =>
    intro runs
    simp only [applyNotes, List.foldl_cons] at *
    rw [ih]; exact mapLast_length _ _

theorem applyNotes_last_ended (ns : List Line) : ∀ runs : List Run,
    (applyNotes ns runs).getLast?.map (·.ended) = runs.getLast?.map (·.ended) := by
  induction ns with
  | nil => intro runs; rfl
  | cons n ns ih =>
    intro runs
    simp only [applyNotes, List.foldl_cons] at *
    rw [ih, mapLast_getLast?]
    cases runs.getLast? <;> rfl

/-! ## the reading loop -/

def tag (i : Nat) (l : Line) : Line := { l with owner := some i }

/-- the lines `_make_response` hands to the front end as content -/
def contentOf (ls : List Line) : List Line :=
  (ls.filter (fun x : Line => !x.empty)).filter (fun x : Line => x.cls == Cls.content)

/-- the complete, non-empty content lines among what the processor wrote for an input -/
def completeContent (it : Item) : List Line :=
  it.out.filter (fun l : Line => l.nl && !l.runNote && !l.empty && l.cls == Cls.content)

theorem tag_hits (i : Nat) (l : Line) (t : Terminus) : (tag i l).hits t = l.hits t := by
  cases t <;> rfl

theorem readLines_tag (t : Terminus) (d p : Bool) (i : Nat) : ∀ (buf : List Line) (n : Nat),
    readLines t d p (buf.map (tag i)) n =
      { lines := (readLines t d p buf n).lines.map (tag i), notes := (readLines t d p buf n).notes.map (tag i),
        rest := (readLines t d p buf n).rest.map (tag i), stop := (readLines t d p buf n).stop } := by
  intro buf
  induction buf with
  | nil => intro n; cases n <;> simp [readLines]
  | cons l buf ih =>
    intro n
    cases n with
    | zero => simp [readLines]
    | succ n =>
      simp only [List.map_cons, readLines]
      have hrn : (tag i l).runNote = l.runNote := rfl
      have hnl : (tag i l).nl = l.nl := rfl
      rw [hrn, hnl, tag_hits]
      by_cases h : l.runNote = true
      · simp only [h, if_true]; rw [ih]; simp
      · simp only [h]
        by_cases h2 : (!p && !l.nl) = true
        · simp only [h2, if_true]; rw [ih]; simp
        · simp only [h2]; rw [ih (if l.hits t = true then n else n + 1)]; simp

theorem readLines_pre (t : Terminus) (d p : Bool) : ∀ (pre : List Line) (b : List Line) (n : Nat),
    (∀ l ∈ pre, l.runNote = true) →
    readLines t d p (pre ++ b) (n + 1) =
      { readLines t d p b (n + 1) with notes := pre ++ (readLines t d p b (n + 1)).notes } := by
  intro pre
  induction pre with
  | nil => intro b n _; simp
  | cons l pre ih =>
    intro b n h
    have hl : l.runNote = true := h l (by simp)
    have := ih b n (fun x hx => h x (by simp [hx]))
    simp only [List.cons_append, readLines, hl, if_true, this]

theorem readLines_rest_nil (t : Terminus) (d p : Bool) : ∀ (buf : List Line) (n : Nat),
    (readLines t d p buf n).stop ≠ .done → (readLines t d p buf n).rest = [] := by
  intro buf
  induction buf with
  | nil => intro n; cases n <;> simp [readLines]
  | cons l buf ih =>
    intro n
    cases n with
    | zero => simp [readLines]
    | succ n =>
      simp only [readLines]
      split
      · exact ih (n + 1)
      · split
        · exact ih (n + 1)
        · exact ih _

theorem readLines_not_hang (t : Terminus) (p : Bool) : ∀ (buf : List Line) (n : Nat),
    (readLines t true p buf n).stop ≠ .hang := by
  intro buf
  induction buf with
  | nil => intro n; cases n <;> simp [readLines]
  | cons l buf ih =>
    intro n
    cases n with
    | zero => simp [readLines]
    | succ n =>
      simp only [readLines]
      split
      · exact ih (n + 1)
      · split
        · exact ih (n + 1)
        · exact ih _

theorem readLines_notes_only (t : Terminus) (d p : Bool) : ∀ (buf : List Line) (n : Nat),
    (∀ l ∈ buf, l.runNote = true) → (readLines t d p buf n).lines = [] ∧
      ((readLines t d p buf n).stop = .done ∨ (readLines t d p buf n).rest = []) := by
  intro buf
  induction buf with
  | nil => intro n _; cases n <;> simp [readLines]
  | cons l buf ih =>
    intro n h
    cases n with
    | zero => simp [readLines]
    | succ n =>
      have hl : l.runNote = true := h l (by simp)
      simp only [readLines, hl, if_true]
      exact ih (n + 1) (fun x hx => h x (by simp [hx]))

theorem readLines_rest_sub (t : Terminus) (d p : Bool) : ∀ (buf : List Line) (n : Nat),
    ∀ l ∈ (readLines t d p buf n).rest, l ∈ buf := by
  intro buf
  induction buf with
  | nil => intro n; cases n <;> simp [readLines]
  | cons l buf ih =>
    intro n
    cases n with
    | zero => simp [readLines]
    | succ n =>
      simp only [readLines]
      split
      · intro x hx; exact List.mem_cons_of_mem _ (ih (n + 1) x hx)
      · split
        · intro x hx; exact List.mem_cons_of_mem _ (ih (n + 1) x hx)
        · intro x hx; exact List.mem_cons_of_mem _ (ih _ x hx)

/-- the lines that are kept come from the buffer, are not run notes and — unless the caller asked for
partial lines — are complete -/
theorem readLines_lines_sub (t : Terminus) (d p : Bool) : ∀ (buf : List Line) (n : Nat),
    ∀ l ∈ (readLines t d p buf n).lines, l ∈ buf ∧ l.runNote = false ∧ (p = false → l.nl = true) := by
  intro buf
  induction buf with
  | nil => intro n; cases n <;> simp [readLines]
  | cons l buf ih =>
    intro n
    cases n with
    | zero => simp [readLines]
    | succ n =>
      simp only [readLines]
      by_cases h : l.runNote = true
      · simp only [h, if_true]
        intro x hx
        have := ih (n + 1) x hx
        exact ⟨List.mem_cons_of_mem _ this.1, this.2⟩
      · simp only [h]
        by_cases h2 : (!p && !l.nl) = true
        · simp only [h2, if_true]
          intro x hx
          have := ih (n + 1) x hx
          exact ⟨List.mem_cons_of_mem _ this.1, this.2⟩
        · simp only [h2]
          intro x hx
          have hx' : x = l ∨ x ∈ (readLines t d p buf (if l.hits t = true then n else n + 1)).lines := by
            simpa using hx
          cases hx' with
          | inl hx =>
            subst hx
            refine ⟨by simp, by simpa using h, ?_⟩
            intro hp; subst hp
            simpa using h2
          | inr hx =>
            have := ih _ x hx
            exact ⟨List.mem_cons_of_mem _ this.1, this.2⟩

end Verif.C19

namespace Verif.C19
open Verif.Tables

/-! ## primitives of the state machine -/

/-- between interactions every readable line of the current child is a run note -/
def Inv (s : St) : Prop := ∀ l ∈ s.proc.buf, l.runNote = true

def wbit (s : St) : Nat := if s.proc.waited then 1 else 0
/-- potential: twice the number of `_open` calls, plus one once the current child has been closed -/
def level (s : St) : Nat := 2 * s.runs.length + wbit s

theorem poll_spec (s : St) :
    (poll s).2.runs = s.runs ∧ (poll s).2.proc.buf = s.proc.buf ∧ (poll s).2.proc.waited = s.proc.waited
    ∧ (poll s).2.proc.dying = s.proc.dying ∧ (s.proc.waited = true → (poll s).1 = true) := by
  unfold poll nextBit
  by_cases hw : s.proc.waited = true
  · simp [hw]
  · by_cases he : s.proc.exited = true
    · simp [he]
    · by_cases hd : s.proc.dying = true
      · simp only [hw, he, hd]
        cases hp : s.proc.pol <;> cases ho : s.orc <;> simp [hw, hd]
      · simp [hw, he, hd]

theorem openProc_spec (c : Cfg) (s : St) :
    (openProc c s).runs.length = s.runs.length + 1 ∧ (openProc c s).proc.waited = false
    ∧ (openProc c s).proc.dying = false ∧ Inv (openProc c s) := by
  refine ⟨by simp [openProc], rfl, rfl, ?_⟩
  intro l hl
  simp only [openProc, freshProc] at hl
  split at hl
  · simp at hl; rw [hl]
  · simp at hl

inductive WriteOut (i : Nat) (it : Item) (s : St) : WriteRes × St → Prop
  | served (s' : St) : s.proc.waited = false → s.proc.dying = false → s'.proc = react i it s.proc →
      s'.runs = s.runs → WriteOut i it s (.served, s')
  | void (s' : St) : s.proc.waited = false → s.proc.dying = true → s'.proc.buf = s.proc.buf → s'.proc.dying = true →
      s'.proc.waited = false → s'.runs = s.runs → WriteOut i it s (.void, s')
  | failed (s' : St) : s.proc.dying = true → s'.runs = s.runs → WriteOut i it s (.failed, s')
  | closed : s.proc.waited = true → WriteOut i it s (.closedByClient, s)

theorem write_spec (i : Nat) (it : Item) (s : St) : WriteOut i it s (write i it s) := by
  unfold write nextBit
  by_cases hw : s.proc.waited = true
  · simp only [hw, if_true]; exact .closed hw
  · have hw' : s.proc.waited = false := by simpa using hw
    by_cases hd : s.proc.dying = true
    · by_cases hx : (s.proc.exited || s.proc.stdinClosed) = true
      · simp only [hw', hd, hx]; simp; exact .failed _ hd rfl
      · simp only [hw', hd, hx]; simp
        cases hp : s.proc.pol
        · exact .void _ hw' hd rfl (by first | rfl | exact hd) (by first | rfl | exact hw') rfl
        · exact .void _ hw' hd rfl (by first | rfl | exact hd) (by first | rfl | exact hw') rfl
        · exact .void _ hw' hd rfl (by first | rfl | exact hd) (by first | rfl | exact hw') rfl
        · cases ho : s.orc with
          | nil => exact .void _ hw' hd rfl (by first | rfl | exact hd) (by first | rfl | exact hw') rfl
          | cons b r =>
            cases b
            · exact .void _ hw' hd rfl (by first | rfl | exact hd) (by first | rfl | exact hw') rfl
            · exact .failed _ hd rfl
    · have hd' : s.proc.dying = false := by simpa using hd
      simp only [hw', hd']; simp
      exact .served _ hw' hd' rfl rfl

theorem react_spec (i : Nat) (it : Item) (p : Proc) :
    (react i it p).buf = p.buf ++ it.out.map (tag i) ∧ (react i it p).waited = p.waited
    ∧ (p.dying = false → (react i it p).dying = it.die.isSome)
    ∧ (∀ d, it.die = some d → (react i it p).code = d.code) := by
  unfold react
  cases it.die <;> simp [tag]


/-! ## send -/

structure SendPost (i : Nat) (it : Item) (n0 : Nat) (served : Bool) (s1 : St) : Prop where
  notWaited : s1.proc.waited = false
  runs_ge : n0 ≤ s1.runs.length
  servedBuf : served = true → ∃ pre, (∀ l ∈ pre, l.runNote = true) ∧
      s1.proc.buf = pre ++ it.out.map (tag i) ∧ s1.proc.dying = it.die.isSome
  voidBuf : served = false → Inv s1 ∧ s1.proc.dying = true
  servedCode : served = true → ∀ d, it.die = some d → s1.proc.code = d.code

theorem sendW_spec (c : Cfg) (i : Nat) (it : Item) (s0 : St) (h0 : Inv s0) (hnw : s0.proc.waited = false) :
    ∃ served s1, sendW c i it s0 = .ok (served, s1) ∧ SendPost i it s0.runs.length served s1 := by
  unfold sendW
  have h := write_spec i it s0
  generalize write i it s0 = r at h
  cases h with
  | served s' hw hd hp hr =>
    refine ⟨true, s', rfl, ?_, ?_, ?_, ?_, ?_⟩
    · rw [hp, (react_spec i it s0.proc).2.1]; exact hw
    · rw [hr]; exact Nat.le_refl _
    · intro _
      exact ⟨s0.proc.buf, h0, (by rw [hp]; exact (react_spec i it s0.proc).1),
             (by rw [hp]; exact (react_spec i it s0.proc).2.2.1 hd)⟩
    · intro h; cases h
    · intro _ d hdie; rw [hp]; exact (react_spec i it s0.proc).2.2.2 d hdie
  | void s' hw hd hb hd' hw' hr =>
    refine ⟨false, s', rfl, hw', (by rw [hr]; exact Nat.le_refl _), (by intro h; cases h), ?_, (by intro h; cases h)⟩
    intro _
    refine ⟨?_, hd'⟩
    intro l hl; rw [hb] at hl; exact h0 l hl
  | closed hw => rw [hw] at hnw; cases hnw
  | failed s' hd hr =>
    simp only []
    have ho := openProc_spec c s'
    have h2 := write_spec i it (openProc c s')
    generalize write i it (openProc c s') = r2 at h2
    cases h2 with
    | served s2 hw2 hd2 hp2 hr2 =>
      refine ⟨true, s2, rfl, ?_, ?_, ?_, ?_, ?_⟩
      · rw [hp2, (react_spec i it _).2.1]; exact hw2
      · rw [hr2, ho.1, hr]; exact Nat.le_succ _
      · intro _
        exact ⟨(openProc c s').proc.buf, ho.2.2.2, (by rw [hp2]; exact (react_spec i it _).1),
               (by rw [hp2]; exact (react_spec i it _).2.2.1 hd2)⟩
      · intro h; cases h
      · intro _ d hdie; rw [hp2]; exact (react_spec i it _).2.2.2 d hdie
    | void s2 hw2 hd2 => rw [ho.2.2.1] at hd2; cases hd2
    | closed hw2 => rw [ho.2.1] at hw2; cases hw2
    | failed s2 hd2 => rw [ho.2.2.1] at hd2; cases hd2

theorem send_spec (c : Cfg) (i : Nat) (it : Item) (s : St) (h0 : Inv s) :
    ∃ served s1, send c i it s = .ok (served, s1) ∧ SendPost i it (s.runs.length + wbit s) served s1 := by
  unfold send
  have hp := poll_spec s
  by_cases hg : (poll s).1 = true
  · simp only [hg, if_true]
    have ho := openProc_spec c (poll s).2
    obtain ⟨sv, s1, he, hpost⟩ := sendW_spec c i it (openProc c (poll s).2) ho.2.2.2 ho.2.1
    refine ⟨sv, s1, he, { hpost with runs_ge := ?_ }⟩
    have := hpost.runs_ge
    rw [ho.1, hp.1] at this
    have hb : wbit s ≤ 1 := by unfold wbit; split <;> simp
    omega
  · have hg' : (poll s).1 = false := by simpa using hg
    simp only [hg']
    have hnw : s.proc.waited = false := by
      cases hw : s.proc.waited with
      | false => rfl
      | true => rw [hp.2.2.2.2 hw] at hg'; cases hg'
    have hinv : Inv (poll s).2 := by intro l hl; rw [hp.2.1] at hl; exact h0 l hl
    obtain ⟨sv, s1, he, hpost⟩ := sendW_spec c i it (poll s).2 hinv (by rw [hp.2.2.1]; exact hnw)
    refine ⟨sv, s1, he, { hpost with runs_ge := ?_ }⟩
    have := hpost.runs_ge
    rw [hp.1] at this
    have : wbit s = 0 := by unfold wbit; simp [hnw]
    omega


/-! ## receive -/

theorem termini_ne_nil (c : Cfg) : ∃ t ts, termini c = t :: ts := by
  unfold termini
  cases c.front <;> cases c.tsdb <;> simp [parserTermini, transfererTermini, generatorTermini, generatorTsdbTermini]

/-- the processor's side of the protocol: while it lives it answers completely, and it writes nothing
after the terminator of an answer -/
def WF (c : Cfg) (it : Item) : Prop :=
  ∀ t ts, termini c = t :: ts →
    (readLines t it.die.isSome (usesTsdb c) it.out (ts.length + 1)).stop ≠ .hang ∧
    ((readLines t it.die.isSome (usesTsdb c) it.out (ts.length + 1)).stop = .done →
      (readLines t it.die.isSome (usesTsdb c) it.out (ts.length + 1)).rest = [])

theorem closeProc_spec (c : Cfg) (s : St) :
    (closeProc c s).2.runs.length = s.runs.length ∧ (closeProc c s).2.proc.waited = true
    ∧ (closeProc c s).2.proc.buf = [] := by
  simp [closeProc, applyNotes_length, mapLast_length]

theorem level_closeProc (c : Cfg) (s : St) : 2 * s.runs.length + 1 = level (closeProc c s).2 := by
  have h := closeProc_spec c s
  unfold level wbit; rw [h.1, h.2.1]; simp

theorem afterRead_spec (c : Cfg) (s : St) (h0 : Inv s) :
    Inv (afterRead c s) ∧ level s ≤ level (afterRead c s) ∧ s.runs.length ≤ (afterRead c s).runs.length := by
  unfold afterRead
  split
  · have hp := poll_spec s
    by_cases hg : (poll s).1 = true
    · rw [if_pos hg]
      have ho := openProc_spec c (poll s).2
      refine ⟨ho.2.2.2, ?_, ?_⟩
      · unfold level wbit; rw [ho.1, ho.2.1, hp.1]; split <;> simp <;> omega
      · rw [ho.1, hp.1]; exact Nat.le_succ _
    · rw [if_neg hg]
      refine ⟨?_, ?_, ?_⟩
      · intro l hl; rw [hp.2.1] at hl; exact h0 l hl
      · unfold level wbit; rw [hp.1, hp.2.2.1]; exact Nat.le_refl _
      · rw [hp.1]; exact Nat.le_refl _
  · exact ⟨h0, Nat.le_refl _, Nat.le_refl _⟩

theorem tsdbFold_err : ∀ (kvs : List (Nat × SVal)) (acc : Tsdb) (e : Err),
    tsdbFold kvs acc = .error e → e = .unmodelled := by
  intro kvs
  induction kvs with
  | nil => intro acc e h; simp [tsdbFold] at h
  | cons kv r ih =>
    intro acc e h
    obtain ⟨k, v⟩ := kv
    simp only [tsdbFold] at h
    split at h
    · split at h
      · exact ih _ _ h
      · injection h with h; exact h.symm
    · split at h
      · split at h
        · exact ih _ _ h
        · injection h with h; exact h.symm
      · split at h
        · split at h
          · split at h
            · exact ih _ _ h
            · injection h with h; exact h.symm
          · injection h with h; exact h.symm
        · split at h
          · injection h with h; exact h.symm
          · exact ih _ _ h

theorem decode_err (c : Cfg) (content : List Line) (e : Err) (h : decode c content = .error e) :
    e = .unmodelled ∧ usesTsdb c = true := by
  unfold decode at h
  split at h
  · simp only [] at h
    split at h
    · rename_i e' htf
      injection h with h; subst h
      exact ⟨tsdbFold_err _ _ _ htf, by assumption⟩
    · cases h
  · split at h <;> cases h

/-- the (key, value) pairs `_sexpr_data` yields for the given content lines -/
def kvsC (content : List Line) : List (Nat × SVal) :=
  sexprData (((content.map (·.toks)).flatten).length + 1) ((content.map (·.toks)).flatten)

def kvsOf (ls : List Line) : List (Nat × SVal) := kvsC (contentOf ls)

/-- the shapes `_tsdb_response` can digest (the shapes ACE produces): `:p-input`/`:p-tokens` carry a string,
`:results` a list of lists of (key . value) fields, no `:chart`.  On anything else the real code raises
TypeError / ValueError / AttributeError (the model: `Err.unmodelled`). -/
def shapedKvs : List (Nat × SVal) → Bool
  | [] => true
  | (k, v) :: r =>
    (if k = kPInput then (match v with | .txt _ => true | _ => false)
     else if k = kPTokens then (match v with | .txt _ => true | _ => false)
     else if k = kResults then (match v with | .list xs => (resultList xs).isSome | _ => false)
     else if k = kChart then false
     else true) && shapedKvs r

theorem tsdbFold_ok_of_shaped : ∀ (kvs : List (Nat × SVal)) (acc : Tsdb), shapedKvs kvs = true →
    ∃ t, tsdbFold kvs acc = .ok t := by
  intro kvs
  induction kvs with
  | nil => intro acc _; exact ⟨acc, rfl⟩
  | cons kv r ih =>
    intro acc h
    obtain ⟨k, v⟩ := kv
    simp only [shapedKvs, Bool.and_eq_true] at h
    obtain ⟨h1, h2⟩ := h
    simp only [tsdbFold]
    by_cases hk1 : k = kPInput
    · simp only [hk1, if_true] at h1 ⊢
      cases v <;> simp at h1 ⊢
      exact ih _ h2
    · simp only [hk1, if_false] at h1 ⊢
      by_cases hk2 : k = kPTokens
      · simp only [hk2, if_true] at h1 ⊢
        cases v <;> simp at h1 ⊢
        exact ih _ h2
      · simp only [hk2, if_false] at h1 ⊢
        by_cases hk3 : k = kResults
        · simp only [hk3, if_true] at h1 ⊢
          cases v with
          | list xs =>
            simp only at h1 ⊢
            cases hr : resultList xs with
            | none => rw [hr] at h1; simp at h1
            | some rs => simp only; exact ih _ h2
          | num n => simp at h1
          | txt n => simp at h1
          | dot => simp at h1
          | pair a b => simp at h1
        · simp only [hk3, if_false] at h1 ⊢
          by_cases hk4 : k = kChart
          · simp [hk4] at h1
          · simp only [hk4, if_false]
            exact ih _ h2

theorem decode_err_unshaped (c : Cfg) (content : List Line) (e : Err) (h : decode c content = .error e) :
    shapedKvs (kvsC content) = false := by
  cases hs : shapedKvs (kvsC content) with
  | false => rfl
  | true =>
    exfalso
    obtain ⟨t, ht⟩ := tsdbFold_ok_of_shaped _ {} hs
    unfold decode at h
    split at h
    · simp only [] at h
      unfold kvsC at ht
      rw [ht] at h
      cases h
    · split at h <;> cases h

theorem decode_nil (c : Cfg) : ∃ rs, decode c [] = .ok rs ∧
    (match rs with | .lines xs => xs.isEmpty | .gen xs => xs.isEmpty | .tsdb t => t.results.isEmpty) = true := by
  unfold decode
  by_cases h : usesTsdb c = true
  · simp [h, sexprData, tsdbFold]
  · simp only [h]
    cases c.front <;> simp [genResults]

/-- the state right after the reading loop -/
def afterLines (s1 : St) (r : ReadRes) : St :=
  { s1 with proc := { s1.proc with buf := r.rest }, runs := applyNotes r.notes s1.runs }

theorem afterLines_spec (s1 : St) (r : ReadRes) :
    (afterLines s1 r).runs.length = s1.runs.length ∧ (afterLines s1 r).proc.waited = s1.proc.waited
    ∧ (afterLines s1 r).proc.buf = r.rest := by
  simp [afterLines, applyNotes_length]

/-- what `receive` does after a `send` that ended in state `s1` -/
structure RecvPost (c : Cfg) (inp : List Char) (s1 s2 : St) (o : Except Err Resp) (lines : List Line) : Prop where
  inv : Inv s2
  level_mono : level s1 ≤ level s2
  runs_mono : s1.runs.length ≤ s2.runs.length
  ok_input : ∀ r, o = .ok r → r.input = inp ∧ r.run = curRun s1 ∧ r.skipped = false
  ok_eof : ∀ r, o = .ok r → r.eof = true → 2 * s1.runs.length + 1 ≤ level s2
  ok_src : ∀ r, o = .ok r → r.src = lines.map (·.owner)
  ok_nl : ∀ r, o = .ok r → r.srcNl = lines.map (·.nl)
  ok_empty : contentOf lines = [] → ∃ r, o = .ok r ∧ r.isEmpty = true
  err_only : ∀ e, o = .error e → e = .unmodelled ∧ usesTsdb c = true ∧ shapedKvs (kvsOf lines) = false
  keep : (usesTsdb c && c.front == .parser) = false → s1.proc.dying = true →
      s2.proc.dying = true ∧ s2.proc.code = s1.proc.code

theorem fixSurface_srcNl (r : Resp) : (fixSurface r).srcNl = r.srcNl := by
  unfold fixSurface
  split
  · split <;> rfl
  · rfl

theorem fixSurface_fields (r : Resp) :
    (fixSurface r).input = r.input ∧ (fixSurface r).run = r.run ∧ (fixSurface r).skipped = r.skipped
    ∧ (fixSurface r).eof = r.eof ∧ (fixSurface r).src = r.src ∧ (fixSurface r).isEmpty = r.isEmpty := by
  unfold fixSurface
  split
  · split
    · rename_i t heq _ _ _
      simp [Resp.isEmpty, heq]
    · simp
  · simp

def recvOut (c : Cfg) (inp : List Char) (s1 sA : St) (all : List Line) (eof : Bool) : St × Except Err Resp :=
  match decode c ((all.filter (fun x : Line => !x.empty)).filter (fun x : Line => x.cls == Cls.content)) with
  | .error e => (afterRead c sA, Except.error e)
  | .ok rs => (afterRead c sA,
      Except.ok (fixSurface
        { baseResp inp (curRun s1) (all.filter (fun x : Line => !x.empty)) all eof with results := rs }))

theorem recv_tail (c : Cfg) (inp : List Char) (s1 sA : St) (all : List Line) (eof : Bool)
    (hinv : Inv sA) (hlev : level s1 ≤ level sA) (hruns : s1.runs.length ≤ sA.runs.length)
    (heof : eof = true → 2 * s1.runs.length + 1 ≤ level sA)
    (hk : s1.proc.dying = true → sA.proc.dying = true ∧ sA.proc.code = s1.proc.code) :
    RecvPost c inp s1 (recvOut c inp s1 sA all eof).1 (recvOut c inp s1 sA all eof).2 all := by
  have har := afterRead_spec c sA hinv
  have hkeep : (usesTsdb c && c.front == .parser) = false → s1.proc.dying = true →
      (afterRead c sA).proc.dying = true ∧ (afterRead c sA).proc.code = s1.proc.code := by
    intro hc hd
    have : afterRead c sA = sA := by unfold afterRead; simp [hc]
    rw [this]; exact hk hd
  unfold recvOut
  have hnil := decode_nil c
  generalize hd : decode c ((all.filter (fun x : Line => !x.empty)).filter (fun x : Line => x.cls == Cls.content))
    = dres
  cases dres with
  | error e =>
    refine ⟨har.1, Nat.le_trans hlev har.2.1, Nat.le_trans hruns har.2.2, ?_, ?_, ?_, ?_, ?_, ?_, hkeep⟩
    · intro r' h; cases h
    · intro r' h; cases h
    · intro r' h; cases h
    · intro r' h; cases h
    · intro hl
      unfold contentOf at hl
      obtain ⟨rs, hrs, _⟩ := hnil
      rw [hl, hrs] at hd; cases hd
    · intro e' he'
      injection he' with he'
      subst he'
      exact ⟨(decode_err c _ _ hd).1, (decode_err c _ _ hd).2, decode_err_unshaped c _ _ hd⟩
  | ok rs =>
    refine ⟨har.1, Nat.le_trans hlev har.2.1, Nat.le_trans hruns har.2.2, ?_, ?_, ?_, ?_, ?_, ?_, hkeep⟩
    · intro r' h; injection h with h; subst h
      have hf := fixSurface_fields
        { baseResp inp (curRun s1) (all.filter (fun x : Line => !x.empty)) all eof with results := rs }
      exact ⟨hf.1, hf.2.1, hf.2.2.1⟩
    · intro r' h he; injection h with h; subst h
      have hf := fixSurface_fields
        { baseResp inp (curRun s1) (all.filter (fun x : Line => !x.empty)) all eof with results := rs }
      rw [hf.2.2.2.1] at he
      have : eof = true := he
      exact Nat.le_trans (heof this) har.2.1
    · intro r' h; injection h with h; subst h
      exact (fixSurface_fields _).2.2.2.2.1
    · intro r' h; injection h with h; subst h
      exact fixSurface_srcNl _
    · intro hl
      unfold contentOf at hl
      obtain ⟨rs0, hrs, hemp⟩ := hnil
      rw [hl, hrs] at hd; injection hd with hd; subst hd
      refine ⟨_, rfl, ?_⟩
      rw [(fixSurface_fields _).2.2.2.2.2]
      exact hemp
    · intro e' he'; cases he'

theorem receive_spec (c : Cfg) (inp : List Char) (s1 : St) (t : Terminus) (ts : List Terminus)
    (ht : termini c = t :: ts)
    (hrest : ∀ l ∈ (readLines t s1.proc.dying (usesTsdb c) s1.proc.buf (ts.length + 1)).rest, l.runNote = true)
    (hnh : (readLines t s1.proc.dying (usesTsdb c) s1.proc.buf (ts.length + 1)).stop ≠ .hang) :
    RecvPost c inp s1 (receive c inp s1).1 (receive c inp s1).2
      (readLines t s1.proc.dying (usesTsdb c) s1.proc.buf (ts.length + 1)).lines := by
  unfold receive resultLines
  simp only [ht]
  generalize hr : readLines t s1.proc.dying (usesTsdb c) s1.proc.buf (ts.length + 1) = r at hrest hnh
  have hfold : ({ s1 with proc := { s1.proc with buf := r.rest }, runs := applyNotes r.notes s1.runs } : St)
      = afterLines s1 r := rfl
  rw [hfold]
  have hal := afterLines_spec s1 r
  have hinvA : Inv (afterLines s1 r) := by intro l hl; rw [hal.2.2] at hl; exact hrest l hl
  have hlevA : level s1 = level (afterLines s1 r) := by unfold level wbit; rw [hal.1, hal.2.1]
  cases hs : r.stop with
  | hang => exact absurd hs hnh
  | done =>
    simp only []
    refine recv_tail c inp s1 (afterLines s1 r) r.lines false hinvA (Nat.le_of_eq hlevA) (Nat.le_of_eq hal.1.symm)
      (by intro h; cases h) (by intro hd; exact ⟨by simpa [afterLines] using hd, by simp [afterLines]⟩)
  | eof =>
    simp only []
    have hc := closeProc_spec c (afterLines s1 r)
    have hlc := level_closeProc c (afterLines s1 r)
    refine recv_tail c inp s1 (closeProc c (afterLines s1 r)).2 r.lines true ?_ ?_ ?_ ?_ ?_
    rotate_right
    · intro hd; simp [closeProc, afterLines, hd]
    · intro l hl; rw [hc.2.2] at hl; cases hl
    · rw [← hlc, hal.1]; unfold level wbit; split <;> omega
    · rw [hc.1, hal.1]; exact Nat.le_refl _
    · intro _; rw [← hlc, hal.1]; exact Nat.le_refl _


/-! ## one interaction -/

/-- the answer the processor writes for this input decodes into shapes `_tsdb_response` can digest -/
def shapedItem (c : Cfg) (it : Item) : Bool :=
  match termini c with
  | t :: ts => shapedKvs (kvsOf (readLines t it.die.isSome (usesTsdb c) it.out (ts.length + 1)).lines)
  | [] => true

structure StepPost (c : Cfg) (i : Nat) (it : Item) (s s' : St) (o : Except Err Resp) : Prop where
  inv : Inv s'
  level_mono : level s ≤ level s'
  runs_mono : s.runs.length ≤ s'.runs.length
  ok_input : ∀ r, o = .ok r → r.input = it.text ∧ ∀ ow ∈ r.src, ow = some i
  ok_sent : ∀ r, o = .ok r → r.skipped = false → s.runs.length + wbit s ≤ r.run + 1
  ok_eof : ∀ r, o = .ok r → r.eof = true → 2 * (r.run + 1) + 1 ≤ level s'
  ok_empty : ∀ r, o = .ok r → (r.served = false ∨ it.out = []) → r.src = [] ∧ r.isEmpty = true
  ok_complete : ∀ r, o = .ok r → usesTsdb c = false →
      (∀ b ∈ r.srcNl, b = true) ∧ (completeContent it = [] → r.isEmpty = true)
  ok_skipped : ∀ r, o = .ok r → (r.skipped = true ↔ validate c.front it.text = none)
  err_only : ∀ e, o = .error e → e = .unmodelled ∧ usesTsdb c = true ∧ shapedItem c it = false
  last : ∀ r d, o = .ok r → r.served = true → it.die = some d →
      (usesTsdb c && c.front == .parser) = false → s'.proc.dying = true ∧ s'.proc.code = d.code

theorem contentOf_map_tag (i : Nat) (ls : List Line) : contentOf (ls.map (tag i)) = (contentOf ls).map (tag i) := by
  unfold contentOf
  induction ls with
  | nil => rfl
  | cons l r ih =>
    have h1 : (tag i l).empty = l.empty := rfl
    have h2 : (tag i l).cls = l.cls := rfl
    simp only [List.map_cons, List.filter_cons, h1]
    by_cases he : l.empty = true
    · simp only [he, Bool.not_true, Bool.false_eq_true, if_false]; exact ih
    · have he' : l.empty = false := by simpa using he
      simp only [he', Bool.not_false, if_true, List.filter_cons, h2]
      by_cases hc : (l.cls == Cls.content) = true
      · simp only [hc, if_true, List.map_cons, ih]
      · simp only [hc]; exact ih

theorem kvsOf_map_tag (i : Nat) (ls : List Line) : kvsOf (ls.map (tag i)) = kvsOf ls := by
  unfold kvsOf kvsC
  rw [contentOf_map_tag]
  have : List.map (fun x : Line => x.toks) (List.map (tag i) (contentOf ls))
      = List.map (fun x : Line => x.toks) (contentOf ls) := by
    rw [List.map_map]; rfl
  rw [this]

/-- facts about the lines `_result_lines` will see after a `send` -/
theorem lines_after_send (c : Cfg) (i : Nat) (it : Item) (sv : Bool) (s1 : St) (n0 : Nat)
    (hp : SendPost i it n0 sv s1) (hwf : WF c it) (t : Terminus) (ts : List Terminus) (ht : termini c = t :: ts) :
    (∀ l ∈ (readLines t s1.proc.dying (usesTsdb c) s1.proc.buf (ts.length + 1)).rest, l.runNote = true) ∧
    (readLines t s1.proc.dying (usesTsdb c) s1.proc.buf (ts.length + 1)).stop ≠ .hang ∧
    (∀ l ∈ (readLines t s1.proc.dying (usesTsdb c) s1.proc.buf (ts.length + 1)).lines, l.owner = some i) ∧
    ((sv = false ∨ it.out = []) →
      (readLines t s1.proc.dying (usesTsdb c) s1.proc.buf (ts.length + 1)).lines = []) ∧
    (usesTsdb c = false →
      (∀ l ∈ (readLines t s1.proc.dying (usesTsdb c) s1.proc.buf (ts.length + 1)).lines, l.nl = true) ∧
      (completeContent it = [] →
        contentOf (readLines t s1.proc.dying (usesTsdb c) s1.proc.buf (ts.length + 1)).lines = [])) ∧
    (shapedItem c it = true →
      shapedKvs (kvsOf (readLines t s1.proc.dying (usesTsdb c) s1.proc.buf (ts.length + 1)).lines) = true) := by
  cases sv with
  | false =>
    obtain ⟨hinv, hd⟩ := hp.voidBuf rfl
    rw [hd]
    have h1 := readLines_notes_only t true (usesTsdb c) s1.proc.buf (ts.length + 1) hinv
    refine ⟨?_, readLines_not_hang t _ _ _, ?_, fun _ => h1.1, fun _ => ⟨?_, fun _ => ?_⟩, fun _ => ?_⟩
    · intro l hl; exact hinv l (readLines_rest_sub t true _ _ _ l hl)
    · intro l hl; rw [h1.1] at hl; cases hl
    · intro l hl; rw [h1.1] at hl; cases hl
    · rw [h1.1]; rfl
    · rw [h1.1]; rfl
  | true =>
    obtain ⟨pre, hpre, hbuf, hd⟩ := hp.servedBuf rfl
    rw [hbuf, hd, readLines_pre t _ _ pre _ _ hpre, readLines_tag]
    obtain ⟨hnh, hdone⟩ := hwf t ts ht
    have hrest : (readLines t it.die.isSome (usesTsdb c) it.out (ts.length + 1)).rest = [] := by
      by_cases h : (readLines t it.die.isSome (usesTsdb c) it.out (ts.length + 1)).stop = .done
      · exact hdone h
      · exact readLines_rest_nil t _ _ _ _ h
    have hsub := readLines_lines_sub t it.die.isSome (usesTsdb c) it.out (ts.length + 1)
    refine ⟨?_, hnh, ?_, ?_, ?_, ?_⟩
    rotate_right
    · intro hsh
      show shapedKvs (kvsOf (List.map (tag i) _)) = true
      rw [kvsOf_map_tag]
      unfold shapedItem at hsh
      rw [ht] at hsh
      exact hsh
    · intro l hl; simp only [hrest, List.map_nil] at hl; cases hl
    · intro l hl
      simp only [List.mem_map] at hl
      obtain ⟨l0, _, rfl⟩ := hl
      rfl
    · intro h
      cases h with
      | inl h => cases h
      | inr h => simp [h, readLines]
    · intro hu
      refine ⟨?_, ?_⟩
      · intro l hl
        simp only [List.mem_map] at hl
        obtain ⟨l0, hl0, rfl⟩ := hl
        exact (hsub l0 hl0).2.2 hu
      · intro hcc
        show contentOf (List.map (tag i) _) = []
        rw [contentOf_map_tag]
        have : contentOf (readLines t it.die.isSome (usesTsdb c) it.out (ts.length + 1)).lines = [] := by
          rw [List.eq_nil_iff_forall_not_mem]
          intro l hl
          unfold contentOf at hl
          simp only [List.mem_filter] at hl
          obtain ⟨⟨hl1, hl2⟩, hl3⟩ := hl
          obtain ⟨hm, hrn, hnl⟩ := hsub l hl1
          have : l ∈ completeContent it := by
            unfold completeContent
            simp only [List.mem_filter]
            refine ⟨hm, ?_⟩
            simp [hnl hu, hrn, hl3]
            simpa using hl2
          rw [hcc] at this
          cases this
        rw [this]; rfl

theorem interact_spec (c : Cfg) (i : Nat) (it : Item) (s : St) (hinv : Inv s) (hne : s.runs ≠ [])
    (hwf : WF c it) : StepPost c i it s (interact c i it s).1 (interact c i it s).2 := by
  unfold interact
  cases hv : validate c.front it.text with
  | none =>
    refine ⟨hinv, Nat.le_refl _, Nat.le_refl _, ?_, ?_, ?_, ?_, ?_, ?_, ?_, ?_⟩
    rotate_right
    · intro r d h hs; injection h with h; subst h; cases hs
    · intro r h; injection h with h; subst h; exact ⟨rfl, by intro ow h; cases h⟩
    · intro r h hs; injection h with h; subst h; cases hs
    · intro r h he; injection h with h; subst h; cases he
    · intro r h _; injection h with h; subst h; exact ⟨rfl, rfl⟩
    · intro r h _; injection h with h; subst h
      exact ⟨(by intro b hb; cases hb), fun _ => rfl⟩
    · intro r h; injection h with h; subst h; simp [hv, skipResp]
    · intro e h; cases h
  | some v =>
    obtain ⟨sv, s1, he, hpost⟩ := send_spec c i it s hinv
    simp only [he]
    obtain ⟨t, ts, ht⟩ := termini_ne_nil c
    obtain ⟨h1, h2, h3, h4, h5, h6⟩ := lines_after_send c i it sv s1 _ hpost hwf t ts ht
    have hr := receive_spec c it.text s1 t ts ht h1 h2
    have hge := hpost.runs_ge
    have hpos : 1 ≤ s1.runs.length := by
      have : 1 ≤ s.runs.length := by
        cases hs : s.runs with
        | nil => exact absurd hs hne
        | cons a r => simp
      omega
    have hlev : level s ≤ level s1 := by
      unfold level; rw [show wbit s1 = 0 from by unfold wbit; simp [hpost.notWaited]]; omega
    generalize receive c it.text s1 = rv at hr
    obtain ⟨s2, o2⟩ := rv
    cases o2 with
    | error e =>
      dsimp only at hr ⊢
      refine ⟨hr.inv, Nat.le_trans hlev hr.level_mono, by have := hr.runs_mono; omega, ?_, ?_, ?_, ?_, ?_, ?_, ?_, ?_⟩
      rotate_right
      · intro r d h; cases h
      · intro r h; cases h
      · intro r h; cases h
      · intro r h; cases h
      · intro r h; cases h
      · intro r h; cases h
      · intro r h; cases h
      · intro e' h; injection h with h; subst h
        obtain ⟨he1, he2, he3⟩ := hr.err_only _ rfl
        refine ⟨he1, he2, ?_⟩
        cases hsi : shapedItem c it with
        | false => rfl
        | true => rw [h6 hsi] at he3; cases he3
    | ok r0 =>
      dsimp only at hr ⊢
      obtain ⟨hi1, hi2, hi3⟩ := hr.ok_input r0 rfl
      have hsrc := hr.ok_src r0 rfl
      refine ⟨hr.inv, Nat.le_trans hlev hr.level_mono, by have := hr.runs_mono; omega, ?_, ?_, ?_, ?_, ?_, ?_, ?_, ?_⟩
      rotate_right
      · intro r d h hs hdie hc; injection h with h; subst h
        have hsv : sv = true := hs
        obtain ⟨pre, _, _, hdy⟩ := hpost.servedBuf hsv
        have hd1 : s1.proc.dying = true := by rw [hdy, hdie]; rfl
        obtain ⟨k1, k2⟩ := hr.keep hc hd1
        exact ⟨k1, by rw [k2]; exact hpost.servedCode hsv d hdie⟩
      · intro r h; injection h with h; subst h
        refine ⟨hi1, ?_⟩
        intro ow how
        simp only [hsrc, List.mem_map] at how
        obtain ⟨l, hl, rfl⟩ := how
        exact h3 l hl
      · intro r h _; injection h with h; subst h
        simp only [hi2, curRun]; omega
      · intro r h he'; injection h with h; subst h
        have := hr.ok_eof r0 rfl he'
        simp only [hi2, curRun]; omega
      · intro r h hor; injection h with h; subst h
        have hl := h4 (by simpa using hor)
        obtain ⟨r1, hr1, hemp⟩ := hr.ok_empty (by rw [hl]; rfl)
        injection hr1 with hr1; subst hr1
        refine ⟨by simp [hsrc, hl], ?_⟩
        simpa [Resp.isEmpty] using hemp
      · intro r h hu; injection h with h; subst h
        obtain ⟨h5a, h5b⟩ := h5 hu
        refine ⟨?_, ?_⟩
        · intro b hb
          rw [hr.ok_nl r0 rfl] at hb
          simp only [List.mem_map] at hb
          obtain ⟨l, hl, rfl⟩ := hb
          exact h5a l hl
        · intro hcc
          obtain ⟨r1, hr1, hemp⟩ := hr.ok_empty (h5b hcc)
          injection hr1 with hr1; subst hr1
          simpa [Resp.isEmpty] using hemp
      · intro r h; injection h with h; subst h; simp [hi3, hv]
      · intro e h; cases h


/-! ## a processor that never exits is never replaced -/

def Alive (s : St) : Prop := s.proc.dying = false ∧ s.proc.waited = false ∧ s.proc.exited = false

theorem poll_alive (s : St) (ha : Alive s) : poll s = (false, s) := by
  obtain ⟨h1, h2, h3⟩ := ha
  unfold poll; simp [h1, h2, h3]

theorem readLines_false_not_eof (t : Terminus) (p : Bool) : ∀ (buf : List Line) (n : Nat),
    (readLines t false p buf n).stop ≠ .eof := by
  intro buf
  induction buf with
  | nil => intro n; cases n <;> simp [readLines]
  | cons l buf ih =>
    intro n
    cases n with
    | zero => simp [readLines]
    | succ n =>
      simp only [readLines]
      split
      · exact ih (n + 1)
      · split
        · exact ih (n + 1)
        · exact ih _

theorem recvOut_fst (c : Cfg) (inp : List Char) (s1 sA : St) (all : List Line) (eof : Bool) :
    (recvOut c inp s1 sA all eof).1 = afterRead c sA := by
  unfold recvOut; split <;> rfl

theorem afterRead_alive (c : Cfg) (s : St) (ha : Alive s) : afterRead c s = s := by
  unfold afterRead
  split
  · rw [poll_alive s ha]; simp
  · rfl

theorem receive_alive (c : Cfg) (inp : List Char) (s1 : St) (ha : Alive s1) : Alive (receive c inp s1).1 := by
  obtain ⟨t, ts, ht⟩ := termini_ne_nil c
  unfold receive resultLines
  simp only [ht]
  generalize hr : readLines t s1.proc.dying (usesTsdb c) s1.proc.buf (ts.length + 1) = r
  have hne : r.stop ≠ .eof := by rw [← hr, ha.1]; exact readLines_false_not_eof t _ _ _
  have hfold : ({ s1 with proc := { s1.proc with buf := r.rest }, runs := applyNotes r.notes s1.runs } : St)
      = afterLines s1 r := rfl
  rw [hfold]
  have hal : Alive (afterLines s1 r) := ⟨ha.1, ha.2.1, ha.2.2⟩
  cases hs : r.stop with
  | hang => exact ha
  | eof => exact absurd hs hne
  | done =>
    simp only []
    show Alive (recvOut c inp s1 (afterLines s1 r) r.lines false).1
    rw [recvOut_fst, afterRead_alive c _ hal]
    exact hal

theorem interact_alive (c : Cfg) (i : Nat) (it : Item) (s : St) (ha : Alive s) (hd : it.die = none) :
    Alive (interact c i it s).1 := by
  unfold interact
  cases validate c.front it.text with
  | none => exact ha
  | some v =>
    have hsend : send c i it s = .ok (true, { s with proc := react i it s.proc }) := by
      unfold send
      rw [poll_alive s ha]
      simp only [Bool.false_eq_true, if_false]
      unfold sendW write
      simp [ha.1, ha.2.1]
    simp only [hsend]
    have ha1 : Alive ({ s with proc := react i it s.proc } : St) := by
      unfold Alive react
      simp [hd, ha.1, ha.2.1, ha.2.2]
    have := receive_alive c it.text _ ha1
    generalize receive c it.text { s with proc := react i it s.proc } = rv at this
    obtain ⟨s2, o2⟩ := rv
    cases o2 <;> exact this

theorem settle_alive (s : St) (ha : Alive s) : settle s = s := by
  unfold settle; simp [ha.1]

theorem runFrom_alive (c : Cfg) : ∀ (items : List Item) (k : Nat) (s : St), Alive s →
    (∀ it ∈ items, it.die = none) → Alive (runFrom c k items s).2 := by
  intro items
  induction items with
  | nil => intro k s ha _; exact ha
  | cons it rest ih =>
    intro k s ha hd
    simp only [runFrom]
    have h1 := interact_alive c k it s ha (hd it (by simp))
    generalize interact c k it s = sr at h1
    obtain ⟨s1, o⟩ := sr
    dsimp only at h1 ⊢
    rw [settle_alive s1 h1]
    have := ih (k + 1) s1 h1 (fun x hx => hd x (by simp [hx]))
    generalize runFrom c (k + 1) rest s1 = rr at this
    obtain ⟨os, s2⟩ := rr
    exact this

theorem runFrom_snoc (c : Cfg) : ∀ (pre : List Item) (it : Item) (k : Nat) (s : St),
    runFrom c k (pre ++ [it]) s =
      ((runFrom c k pre s).1 ++ [(interact c (k + pre.length) it (runFrom c k pre s).2).2],
       settle (interact c (k + pre.length) it (runFrom c k pre s).2).1) := by
  intro pre
  induction pre with
  | nil => intro it k s; simp [runFrom]
  | cons a r ih =>
    intro it k s
    simp only [List.cons_append, runFrom, List.length_cons]
    rw [ih it (k + 1) (settle (interact c k a s).1)]
    have : k + 1 + r.length = k + (r.length + 1) := by omega
    rw [this]

/-! ## a whole session -/

theorem settle_spec (s : St) : Inv (settle s) ↔ Inv s := by
  unfold settle Inv; split <;> simp

theorem settle_level (s : St) : level (settle s) = level s ∧ (settle s).runs = s.runs := by
  unfold settle level wbit; split <;> simp

structure RunPost (c : Cfg) (k : Nat) (items : List Item) (s : St) (os : List (Except Err Resp)) (s' : St) : Prop where
  len : os.length = items.length
  inv : Inv s'
  runs_ne : s'.runs ≠ []
  ok : ∀ (j : Nat) (r : Resp), os[j]? = some (Except.ok r) → ∃ it, items[j]? = some it ∧ r.input = it.text ∧
        (∀ ow ∈ r.src, ow = some (k + j)) ∧ (r.skipped = true ↔ validate c.front it.text = none) ∧
        ((r.served = false ∨ it.out = []) → r.src = [] ∧ r.isEmpty = true) ∧
        (usesTsdb c = false → (∀ b ∈ r.srcNl, b = true) ∧ (completeContent it = [] → r.isEmpty = true))
  err : ∀ (j : Nat) (e : Err), os[j]? = some (Except.error e) → e = Err.unmodelled ∧ usesTsdb c = true ∧
        ∃ it, items[j]? = some it ∧ shapedItem c it = false
  sent_level : ∀ (j : Nat) (r : Resp), os[j]? = some (Except.ok r) → r.skipped = false → level s ≤ 2 * (r.run + 1)
  restart : ∀ (i j : Nat) (ri rj : Resp), i < j → os[i]? = some (Except.ok ri) → ri.eof = true → os[j]? = some (Except.ok rj) →
        rj.skipped = false → ri.run < rj.run

theorem runFrom_spec (c : Cfg) : ∀ (items : List Item) (k : Nat) (s : St), Inv s → s.runs ≠ [] →
    (∀ it ∈ items, WF c it) → RunPost c k items s (runFrom c k items s).1 (runFrom c k items s).2 := by
  intro items
  induction items with
  | nil =>
    intro k s hinv hne _
    refine ⟨rfl, hinv, hne, ?_, ?_, ?_, ?_⟩ <;> intros <;> simp [runFrom] at *
  | cons it rest ih =>
    intro k s hinv hne hwf
    have hst := interact_spec c k it s hinv hne (hwf it (by simp))
    simp only [runFrom]
    generalize interact c k it s = sr at hst
    obtain ⟨s1, o⟩ := sr
    dsimp only at hst ⊢
    have hne1 : (settle s1).runs ≠ [] := by
      rw [(settle_level s1).2]
      intro h
      have := hst.runs_mono
      rw [h] at this
      cases hs : s.runs with
      | nil => exact hne hs
      | cons a r => rw [hs] at this; simp at this
    have hrec := ih (k + 1) (settle s1) ((settle_spec s1).2 hst.inv) hne1 (fun x hx => hwf x (by simp [hx]))
    generalize runFrom c (k + 1) rest (settle s1) = rr at hrec
    obtain ⟨os, s2⟩ := rr
    dsimp only at hrec ⊢
    have hl01 : level s ≤ level (settle s1) := by rw [(settle_level s1).1]; exact hst.level_mono
    refine ⟨by simp [hrec.len], hrec.inv, hrec.runs_ne, ?_, ?_, ?_, ?_⟩
    · intro j r hj
      cases j with
      | zero =>
        simp only [List.getElem?_cons_zero, Option.some.injEq] at hj
        subst hj
        obtain ⟨h1, h2⟩ := hst.ok_input r rfl
        exact ⟨it, rfl, h1, by simpa using h2, hst.ok_skipped r rfl, hst.ok_empty r rfl, hst.ok_complete r rfl⟩
      | succ j =>
        simp only [List.getElem?_cons_succ] at hj
        obtain ⟨it', h1, h2, h3, h4, h5, h6⟩ := hrec.ok j r hj
        refine ⟨it', by simpa using h1, h2, ?_, h4, h5, h6⟩
        intro ow how
        rw [h3 ow how]
        congr 1
        omega
    · intro j e hj
      cases j with
      | zero =>
        simp only [List.getElem?_cons_zero, Option.some.injEq] at hj
        subst hj
        obtain ⟨e1, e2, e3⟩ := hst.err_only e rfl
        exact ⟨e1, e2, it, rfl, e3⟩
      | succ j =>
        simp only [List.getElem?_cons_succ] at hj
        obtain ⟨e1, e2, it', e3, e4⟩ := hrec.err j e hj
        exact ⟨e1, e2, it', by simpa using e3, e4⟩
    · intro j r hj hs
      cases j with
      | zero =>
        simp only [List.getElem?_cons_zero, Option.some.injEq] at hj
        subst hj
        have := hst.ok_sent r rfl hs
        unfold level
        have hb : wbit s ≤ 1 := by unfold wbit; split <;> simp
        omega
      | succ j =>
        simp only [List.getElem?_cons_succ] at hj
        exact Nat.le_trans hl01 (hrec.sent_level j r hj hs)
    · intro i j ri rj hij hi hei hj hsj
      cases j with
      | zero => cases hij
      | succ j =>
        simp only [List.getElem?_cons_succ] at hj
        cases i with
        | zero =>
          simp only [List.getElem?_cons_zero, Option.some.injEq] at hi
          subst hi
          have h1 := hst.ok_eof ri rfl hei
          have h2 := hrec.sent_level j rj hj hsj
          rw [(settle_level s1).1] at h2
          omega
        | succ i =>
          simp only [List.getElem?_cons_succ] at hi
          exact hrec.restart i j ri rj (by omega) hi hei hj hsj

theorem init_spec (c : Cfg) (orc : List Bool) : Inv (init c orc) ∧ (init c orc).runs ≠ [] := by
  have h := openProc_spec c { proc := {}, opens := 0, runs := [], orc := orc }
  refine ⟨h.2.2.2, ?_⟩
  intro hn
  have := h.1
  unfold init at hn
  rw [hn] at this
  simp at this

/-! ## validation helpers -/

theorem lstrip_nil_iff (s : List Char) : lstrip s = [] ↔ ∀ ch ∈ s, isPySpace ch = true := by
  induction s with
  | nil => simp [lstrip]
  | cons a r ih =>
    simp only [lstrip]
    by_cases h : isPySpace a = true
    · simp [h, ih]
    · simp [h]

theorem lstrip_head (s : List Char) : ∀ a r, lstrip s = a :: r → isPySpace a = false := by
  induction s with
  | nil => intro a r h; simp [lstrip] at h
  | cons b t ih =>
    intro a r h
    simp only [lstrip] at h
    by_cases hb : isPySpace b = true
    · simp only [hb, if_true] at h; exact ih a r h
    · simp only [hb] at h
      injection h with h1 h2
      subst h1; simpa using hb

theorem pmScan_no_open : ∀ (s : List Char) (i : Nat) (d : Int), '[' ∉ s → (pmScan s i d none).1 = none := by
  intro s
  induction s with
  | nil => intro i d _; rfl
  | cons c r ih =>
    intro i d h
    have hc : c ≠ '[' := by intro e; exact h (by simp [e])
    have hr : '[' ∉ r := by intro e; exact h (by simp [e])
    simp only [pmScan, hc, if_false]
    split
    · split
      · rfl
      · exact ih _ _ hr
    · exact ih _ _ hr

theorem settle_fields (s : St) : (settle s).proc.dying = s.proc.dying ∧ (settle s).proc.waited = s.proc.waited
    ∧ (settle s).proc.code = s.proc.code := by
  unfold settle; split <;> exact ⟨rfl, rfl, rfl⟩

end Verif.C19
