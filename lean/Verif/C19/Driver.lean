/- C19 line-protocol driver: `lake env lean --run Verif/C19/Driver.lean` -/
import Verif.Common.Proto
import Verif.C19.Model
open Lean Verif.Proto Verif.C19

namespace Verif.C19.Driver

def errTag : Err → String
  | .valueError => "ValueError"
  | .hang => "hang"
  | .unmodelled => "unmodelled"

def getBoolD (j : Json) (k : String) (d : Bool) : Bool :=
  match j.getObjVal? k with
  | .ok v => (v.getBool?.toOption).getD d
  | .error _ => d

def getNatD (j : Json) (k : String) (d : Nat) : Nat :=
  match j.getObjVal? k with
  | .ok v => (v.getNat?.toOption).getD d
  | .error _ => d

def ofTok (j : Json) : Except String Tok :=
  match j with
  | .str "(" => pure .lp
  | .str ")" => pure .rp
  | .str "." => pure .dot
  | .str "tn" => pure .truncNum
  | .str "ts" => pure .truncStr
  | .str "bad" => pure .bad
  | _ =>
    match j.getObjVal? "n" with
    | .ok v => do pure (.num (← v.getInt?))
    | .error _ => do pure (.txt (← getNat j "t"))

def ofCls (s : String) : Except String Cls :=
  match s with
  | "note" => pure .note
  | "warning" => pure .warning
  | "error" => pure .error
  | "surface" => pure .surface
  | "content" => pure .content
  | _ => throw s!"bad cls {s}"

def ofLine (j : Json) : Except String Line := do
  let toks ← match j.getObjVal? "toks" with
    | .ok v => do (← v.getArr?).toList.mapM ofTok
    | .error _ => pure []
  pure { nl := getBoolD j "nl" true, blank := getBoolD j "blank" false, parseNote := getBoolD j "parseNote" false,
         resOpen := getBoolD j "resOpen" false, runNote := getBoolD j "runNote" false,
         empty := getBoolD j "empty" false, cls := ← ofCls (← getStr j "cls"),
         dtree := getBoolD j "dtree" false, mrsp := getBoolD j "mrsp" false,
         full := getNatD j "full" 0, payload := getNatD j "payload" 0, toks := toks }

def ofPolicy (s : String) : Except String Policy :=
  match s with
  | "exited" => pure .exited
  | "afterItem" => pure .afterItem
  | "onInput" => pure .onInput
  | "race" => pure .race
  | _ => throw s!"bad policy {s}"

def ofItem (j : Json) : Except String Item := do
  let text ← getCps j "text"
  let out ← (← getArr j "out").mapM ofLine
  let die ← match j.getObjVal? "die" with
    | .ok Json.null => pure none
    | .ok d => do
      pure (some { code := ← getNat d "code", pol := ← ofPolicy (← getStr d "pol"),
                   closeStdin := getBoolD d "closeStdin" false : Die })
    | .error _ => pure none
  pure { text, out, die }

def ofFront (s : String) : Except String Front :=
  match s with
  | "parser" => pure .parser
  | "transferer" => pure .transferer
  | "generator" => pure .generator
  | _ => throw s!"bad front {s}"

partial def jSVal : SVal → Json
  | .num n => Json.num (JsonNumber.fromInt n)
  | .txt t => Json.mkObj [("t", jNat t)]
  | .dot => Json.str "."
  | .list xs => Json.arr (xs.map jSVal).toArray
  | .pair a b => Json.mkObj [("p", Json.arr #[jSVal a, jSVal b])]

def jOptNat : Option Nat → Json
  | none => Json.null
  | some n => jNat n

def jSurf : Option Surf → Json
  | none => Json.null
  | some (.id n) => jNat n
  | some (.input t) => Json.mkObj [("input", cps t)]

def jAssoc (xs : List (Nat × SVal)) : Json :=
  jList (fun (kv : Nat × SVal) => Json.arr #[jNat kv.1, jSVal kv.2]) xs

def jResults : Results → Json
  | .lines xs => Json.mkObj [("lines", jList jNat xs)]
  | .gen xs => Json.mkObj [("gen", jList (fun (g : GRes) =>
      Json.arr #[jNat g.sent, jOptNat g.deriv, jOptNat g.mrs]) xs)]
  | .tsdb t => Json.mkObj [("tsdb", Json.mkObj [
      ("results", jList jAssoc t.results),
      ("initial", match t.tokInitial with | some v => jSVal v | none => Json.null),
      ("internal", match t.tokInternal with | some v => jSVal v | none => Json.null),
      ("extra", jAssoc t.extra)])]

def jResp (task : Option String) : Except Err Resp → Json
  | .error e => jErr (errTag e)
  | .ok r => Json.mkObj ((match task with | some t => [("task", Json.str t)] | none => []) ++ [
      ("input", cps r.input), ("skipped", Json.bool r.skipped), ("run", jNat r.run),
      ("notes", jList jNat r.notes), ("warnings", jList jNat r.warnings), ("errors", jList jNat r.errors),
      ("surface", jSurf r.surface), ("results", jResults r.results),
      ("wrote", optCps r.wrote), ("served", Json.bool r.served), ("eof", Json.bool r.eof)])

def jRun (r : Run) : Json :=
  Json.mkObj [("id", jNat r.id), ("ended", Json.bool r.ended), ("note", jOptNat r.note)]

def getVersion (j : Json) : List Nat :=
  match j.getObjVal? "version" with
  | .ok v => match v.getArr? with
    | .ok a => a.toList.filterMap (fun x => x.getNat?.toOption)
    | .error _ => [0, 9, 30]
  | .error _ => [0, 9, 30]

def ofCfg (j : Json) : Except String Cfg := do
  -- the protocol in effect is computed by the model from the requested option and the reported version
  pure { front := ← ofFront (← getStr j "front"),
         tsdb := protocolInEffect (getBoolD j "tsdbinfo" true) (getVersion j),
         showTree := getBoolD j "showTree" false, showMrs := getBoolD j "showMrs" false,
         runnote := getBoolD j "runnote" true, exitOk := getNatD j "exitOk" 0 }

def handle (j : Json) : Except String Json := do
  let op ← getStr j "op"
  match op with
  | "run" => do
    let c ← ofCfg j
    let items ← (← getArr j "items").mapM ofItem
    let orc ← match j.getObjVal? "orc" with
      | .ok v => do (← v.getArr?).toList.mapM (·.getBool?)
      | .error _ => pure []
    let o := run c items orc
    -- `process_item`: the response of `interact` plus the front end's `task`
    let task := if getBoolD j "processItem" false then some (taskOf c.front) else none
    let user ← match j.getObjVal? "cmdargs" with
      | .ok v => do (← v.getArr?).toList.mapM (·.getStr?)
      | .error _ => pure []
    let argv := cmdline c.front (getBoolD j "tsdbinfo" true) (getVersion j) user
    pure (Json.mkObj [("argv", jList Json.str argv), ("steps", jList (jResp task) o.resps), ("close", jNat o.close), ("runs", jList jRun o.runs)])
  | "validate" => do
    let f ← ofFront (← getStr j "front")
    match validate f (← getCps j "s") with
    | none => pure Json.null
    | some v => pure (cps (wire v))
  | "sexpr" => do
    let toks ← (← getArr j "toks").mapM ofTok
    pure (jOk (jAssoc (sexprData (toks.length + 1) toks)))
  | _ => throw s!"bad op {op}"

end Verif.C19.Driver

def main : IO Unit := Verif.Proto.serve Verif.C19.Driver.handle
