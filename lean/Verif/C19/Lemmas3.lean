/-
C19 — helper lemmas (round 6): the run records are numbered 0, 1, 2, … in order at every point of a session
(`Numbered`), whatever the processor does (no `WF` needed): only `_open` adds a record, with the next number;
`close()` and the run notes change other fields of the last record.
-/
import Verif.C19.Lemmas2

namespace Verif.C19
open Verif.Tables

/-- the run records carry the ids 0 … n-1 in order -/
def Numbered (s : St) : Prop := s.runs.map (·.id) = List.range s.runs.length

theorem numbered_of_ids {s s' : St} (h : s'.runs.map (·.id) = s.runs.map (·.id)) (hn : Numbered s) : Numbered s' := by
  unfold Numbered at hn ⊢
  have hl : s'.runs.length = s.runs.length := by
    have := congrArg List.length h
    simpa using this
  rw [h, hl]; exact hn

theorem numbered_of_runs {s s' : St} (h : s'.runs = s.runs) (hn : Numbered s) : Numbered s' :=
  numbered_of_ids (by rw [h]) hn

theorem mapLast_ids (f : Run → Run) (hf : ∀ r, (f r).id = r.id) : ∀ l : List Run,
    (mapLast f l).map (·.id) = l.map (·.id)
  | [] => rfl
  | [a] => by simp [mapLast, hf]
  | a :: b :: r => by
    have ih := mapLast_ids f hf (b :: r)
    simp only [mapLast, List.map_cons] at ih ⊢
    rw [ih]

theorem applyNotes_ids (ns : List Line) : ∀ runs : List Run, (applyNotes ns runs).map (·.id) = runs.map (·.id) := by
  unfold applyNotes
  induction ns with
  | nil => intro runs; rfl
  | cons n rest ih =>
    intro runs
    simp only [List.foldl_cons]
    rw [ih]; apply mapLast_ids; intro r; rfl

theorem openProc_numbered (c : Cfg) (s : St) (h : Numbered s) : Numbered (openProc c s) := by
  unfold Numbered at h ⊢
  simp only [openProc, List.map_append, List.map_cons, List.map_nil, List.length_append, List.length_cons,
    List.length_nil, Nat.zero_add]
  rw [h, List.range_succ]

theorem closeProc_numbered (c : Cfg) (s : St) (h : Numbered s) : Numbered (closeProc c s).2 := by
  refine numbered_of_ids ?_ h
  simp only [closeProc]
  rw [applyNotes_ids]; apply mapLast_ids; intro r; rfl

theorem poll_numbered (s : St) (h : Numbered s) : Numbered (poll s).2 :=
  numbered_of_runs (poll_spec s).1 h

theorem write_runs (i : Nat) (it : Item) (s : St) : (write i it s).2.runs = s.runs := by
  have h := write_spec i it s
  generalize write i it s = r at h
  cases h with
  | served s' _ _ _ hr => exact hr
  | void s' _ _ _ _ _ hr => exact hr
  | failed s' _ hr => exact hr
  | closed _ => rfl

theorem sendW_numbered (c : Cfg) (i : Nat) (it : Item) (s0 : St) (h : Numbered s0) (sv : Bool) (s1 : St)
    (he : sendW c i it s0 = .ok (sv, s1)) : Numbered s1 := by
  unfold sendW at he
  have w1 := write_runs i it s0
  generalize write i it s0 = r at he w1
  obtain ⟨res, s'⟩ := r
  cases res with
  | served => simp only [] at he; injection he with he; injection he with _ he; subst he; exact numbered_of_runs w1 h
  | void => simp only [] at he; injection he with he; injection he with _ he; subst he; exact numbered_of_runs w1 h
  | closedByClient => simp only [] at he; cases he
  | failed =>
    simp only [] at he
    have hs' : Numbered s' := numbered_of_runs w1 h
    have w2 := write_runs i it (openProc c s')
    generalize write i it (openProc c s') = r2 at he w2
    obtain ⟨res2, s2⟩ := r2
    have hn2 : Numbered s2 := numbered_of_runs w2 (openProc_numbered c s' hs')
    cases res2 with
    | served => simp only [] at he; injection he with he; injection he with _ he; subst he; exact hn2
    | void => simp only [] at he; injection he with he; injection he with _ he; subst he; exact hn2
    | closedByClient => simp only [] at he; cases he
    | failed => simp only [] at he; cases he

theorem send_numbered (c : Cfg) (i : Nat) (it : Item) (s : St) (h : Numbered s) (sv : Bool) (s1 : St)
    (he : send c i it s = .ok (sv, s1)) : Numbered s1 := by
  unfold send at he
  refine sendW_numbered c i it _ ?_ sv s1 he
  split
  · exact openProc_numbered c _ (poll_numbered s h)
  · exact poll_numbered s h

theorem afterRead_numbered (c : Cfg) (s : St) (h : Numbered s) : Numbered (afterRead c s) := by
  unfold afterRead
  split
  · split
    · exact openProc_numbered c _ (poll_numbered s h)
    · exact poll_numbered s h
  · exact h

theorem afterLines_numbered (s1 : St) (r : ReadRes) (h : Numbered s1) : Numbered (afterLines s1 r) := by
  refine numbered_of_ids ?_ h
  simp only [afterLines]
  exact applyNotes_ids _ _

theorem receive_numbered (c : Cfg) (inp : List Char) (s1 : St) (h : Numbered s1) : Numbered (receive c inp s1).1 := by
  obtain ⟨t, ts, ht⟩ := termini_ne_nil c
  unfold receive resultLines
  simp only [ht]
  generalize readLines t s1.proc.dying (usesTsdb c) s1.proc.buf (ts.length + 1) = rr
  have hfold : ({ s1 with proc := { s1.proc with buf := rr.rest }, runs := applyNotes rr.notes s1.runs } : St)
      = afterLines s1 rr := rfl
  rw [hfold]
  have hA := afterLines_numbered s1 rr h
  cases hs : rr.stop with
  | hang => exact h
  | done =>
    dsimp only
    split
    · exact afterRead_numbered c _ hA
    · exact afterRead_numbered c _ hA
  | eof =>
    dsimp only
    split
    · exact afterRead_numbered c _ (closeProc_numbered c _ hA)
    · exact afterRead_numbered c _ (closeProc_numbered c _ hA)

theorem interact_numbered (c : Cfg) (i : Nat) (it : Item) (s : St) (h : Numbered s) :
    Numbered (interact c i it s).1 := by
  unfold interact
  cases hv : validate c.front it.text with
  | none => exact h
  | some v =>
    dsimp only
    cases hsend : send c i it s with
    | error e => exact h
    | ok p =>
      obtain ⟨sv, s1⟩ := p
      dsimp only
      have h1 := send_numbered c i it s h sv s1 hsend
      have h2 := receive_numbered c it.text s1 h1
      generalize receive c it.text s1 = rv at h2
      obtain ⟨s2, o2⟩ := rv
      cases o2 <;> exact h2

theorem settle_numbered (s : St) (h : Numbered s) : Numbered (settle s) :=
  numbered_of_runs (settle_level s).2 h

theorem runFrom_numbered (c : Cfg) : ∀ (items : List Item) (k : Nat) (s : St), Numbered s →
    Numbered (runFrom c k items s).2 := by
  intro items
  induction items with
  | nil => intro k s h; exact h
  | cons a rest ih =>
    intro k s h
    simp only [runFrom]
    exact ih (k + 1) _ (settle_numbered _ (interact_numbered c k a s h))

theorem init_numbered (c : Cfg) (orc : List Bool) : Numbered (init c orc) := by
  unfold init
  exact openProc_numbered c _ rfl

/-! ## what `send` writes is one line -/

theorem oneLineAux_no_break : ∀ (l : List Char) (b : Bool), ∀ ch ∈ oneLineAux b l, isBreak ch = false := by
  intro l
  induction l with
  | nil => intro b ch h; simp [oneLineAux] at h
  | cons c cs ih =>
    intro b ch h
    simp only [oneLineAux] at h
    by_cases hc : isBreak c = true
    · simp only [hc, if_true] at h
      cases b with
      | true => simp only [if_true] at h; exact ih true ch h
      | false =>
        simp only [Bool.false_eq_true, if_false, List.mem_cons] at h
        rcases h with h | h
        · subst h; decide
        · exact ih true ch h
    · have hc' : isBreak c = false := by simpa using hc
      simp only [hc', Bool.false_eq_true, if_false, List.mem_cons] at h
      rcases h with h | h
      · subst h; exact hc'
      · exact ih false ch h

theorem oneLineAux_id : ∀ (l : List Char), (∀ ch ∈ l, isBreak ch = false) → oneLineAux false l = l := by
  intro l
  induction l with
  | nil => intro _; rfl
  | cons c cs ih =>
    intro h
    have hc : isBreak c = false := h c (by simp)
    simp only [oneLineAux, hc, Bool.false_eq_true, if_false]
    rw [ih (fun ch hch => h ch (by simp [hch]))]

theorem lstrip_sub : ∀ (s : List Char), ∀ ch ∈ lstrip s, ch ∈ s := by
  intro s
  induction s with
  | nil => intro ch h; simp [lstrip] at h
  | cons a r ih =>
    intro ch h
    simp only [lstrip] at h
    split at h
    · exact List.mem_cons_of_mem _ (ih ch h)
    · exact h

theorem rstrip_sub (s : List Char) : ∀ ch ∈ rstrip s, ch ∈ s := by
  intro ch h
  unfold rstrip at h
  have := lstrip_sub s.reverse ch (by simpa using h)
  simpa using this

/-- whatever response an interaction returns, what it recorded as written is `wire` of some text -/
theorem interact_wrote (c : Cfg) (i : Nat) (it : Item) (s : St) (r : Resp) (w : List Char)
    (h : (interact c i it s).2 = .ok r) (hw : r.wrote = some w) : ∃ v, validate c.front it.text = some v ∧ w = wire v := by
  unfold interact at h
  cases hv : validate c.front it.text with
  | none =>
    simp only [hv] at h; injection h with h; subst h; simp [skipResp] at hw
  | some v =>
    simp only [hv] at h
    cases hs : send c i it s with
    | error e => simp only [hs] at h; cases h
    | ok p =>
      obtain ⟨sv, s1⟩ := p
      simp only [hs] at h
      generalize receive c it.text s1 = rv at h
      obtain ⟨s2, o2⟩ := rv
      cases o2 with
      | error e => simp only [] at h; cases h
      | ok r0 =>
        simp only [] at h
        injection h with h; subst h
        simp only [Option.some.injEq] at hw
        exact ⟨v, rfl, hw.symm⟩

end Verif.C19
