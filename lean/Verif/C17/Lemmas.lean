/-
C17 — helper lemmas: association lists, the structural invariant `HierOK` / `LoerOK`,
its preservation by every piece of `update`, and the closure facts about `anc` / `descF`.
Core Lean only.
-/
import Verif.C17.Model

namespace Verif.C17
open Relation

/-- normaliser-free core of `descendants` (what `descN` computes on stored identifiers) -/
def descF : Nat → AL (List Id) → Id → List Id
  | 0, _, _ => []
  | n + 1, loer, x => (childrenOf loer x).flatMap (fun c => c :: descF n loer c)

/-! ### association lists -/

theorem keys_cons {β : Type} (k : Id) (v : β) (d : AL β) : keys ((k, v) :: d) = k :: keys d := rfl

theorem get?_cons {β : Type} (k : Id) (v : β) (d : AL β) (x : Id) :
    get? ((k, v) :: d) x = if x = k then some v else get? d x := rfl

theorem get?_eq_none {β : Type} {d : AL β} {x : Id} (h : x ∉ keys d) : get? d x = none := by
  induction d with
  | nil => rfl
  | cons e d ih =>
    obtain ⟨k, v⟩ := e
    simp only [keys_cons, List.mem_cons, not_or] at h
    rw [get?_cons, if_neg h.1]; exact ih h.2

theorem mem_keys_of_get? {β : Type} {d : AL β} {x : Id} {v : β} (h : get? d x = some v) : x ∈ keys d := by
  induction d with
  | nil => simp [get?] at h
  | cons e d ih =>
    obtain ⟨k, w⟩ := e
    rw [get?_cons] at h
    by_cases hx : x = k
    · simp [keys_cons, hx]
    · rw [if_neg hx] at h; simp [keys_cons, ih h]

theorem get?_isSome_of_mem {β : Type} {d : AL β} {x : Id} (h : x ∈ keys d) : ∃ v, get? d x = some v := by
  cases hg : get? d x with
  | some v => exact ⟨v, rfl⟩
  | none =>
    exfalso
    induction d with
    | nil => simp [keys] at h
    | cons e d ih =>
      obtain ⟨k, w⟩ := e
      rw [get?_cons] at hg
      by_cases hx : x = k
      · rw [if_pos hx] at hg; cases hg
      · rw [if_neg hx] at hg
        simp only [keys_cons, List.mem_cons] at h
        rcases h with h | h
        · exact hx h
        · exact ih h hg

theorem parentsOf_cons (k : Id) (ps : List Id) (rest : AL (List Id)) (x : Id) :
    parentsOf ((k, ps) :: rest) x = if x = k then ps else parentsOf rest x := by
  unfold parentsOf; rw [get?_cons]; split <;> rfl

theorem childrenOf_cons (k : Id) (cs : List Id) (rest : AL (List Id)) (x : Id) :
    childrenOf ((k, cs) :: rest) x = if x = k then cs else childrenOf rest x := by
  unfold childrenOf; rw [get?_cons]; split <;> rfl

theorem parentsOf_not_mem {hier : AL (List Id)} {x : Id} (h : x ∉ keys hier) : parentsOf hier x = [] := by
  unfold parentsOf; rw [get?_eq_none h]; rfl

theorem mem_keys_of_parentsOf {hier : AL (List Id)} {x y : Id} (h : y ∈ parentsOf hier x) : x ∈ keys hier := by
  by_cases hx : x ∈ keys hier
  · exact hx
  · rw [parentsOf_not_mem hx] at h; cases h

theorem anc_cons (k : Id) (ps : List Id) (rest : AL (List Id)) (x : Id) :
    anc ((k, ps) :: rest) x = if x = k then ps ++ ps.flatMap (anc rest) else anc rest x := rfl

theorem eq_of_key_eq {β : Type} {l : AL β} (hn : (keys l).Nodup) {a b : Id × β}
    (ha : a ∈ l) (hb : b ∈ l) (hk : a.1 = b.1) : a = b := by
  induction l with
  | nil => cases ha
  | cons e l ih =>
    rw [keys, List.map_cons, List.nodup_cons] at hn
    rcases List.mem_cons.1 ha with ha | ha <;> rcases List.mem_cons.1 hb with hb | hb
    · rw [ha, hb]
    · exfalso; apply hn.1; rw [← ha, hk]; exact List.mem_map_of_mem hb
    · exfalso; apply hn.1; rw [← hb, ← hk]; exact List.mem_map_of_mem ha
    · exact ih hn.2 ha hb

/-! ### the structural invariant of `_hier` -/

/-- `_hier`, newest first: the oldest entry is the parentless top; every later entry is a new
key with a non-empty parent tuple all of whose members were inserted before and none of which
is an ancestor of another. -/
inductive HierOK (top : Id) : AL (List Id) → Prop
  | base : HierOK top [(top, [])]
  | step {k : Id} {ps : List Id} {rest : AL (List Id)} :
      HierOK top rest → k ∉ keys rest → ps ≠ [] → (∀ p ∈ ps, p ∈ keys rest) →
      (∀ p ∈ ps, ∀ q ∈ ps, p ∉ anc rest q) → HierOK top ((k, ps) :: rest)

theorem HierOK.parent_mem {top : Id} {hier : AL (List Id)} (h : HierOK top hier) {x y : Id}
    (hy : y ∈ parentsOf hier x) : y ∈ keys hier := by
  induction h with
  | base =>
    rw [parentsOf_cons] at hy
    split at hy
    · cases hy
    · simp [parentsOf, get?] at hy
  | @step k ps rest _ _ _ hps _ ih =>
    rw [parentsOf_cons] at hy
    rw [keys_cons]
    split at hy
    · exact List.mem_cons_of_mem _ (hps _ hy)
    · exact List.mem_cons_of_mem _ (ih hy)

theorem HierOK.top_mem {top : Id} {hier : AL (List Id)} (h : HierOK top hier) : top ∈ keys hier := by
  induction h with
  | base => simp [keys]
  | step _ _ _ _ _ ih => rw [keys_cons]; exact List.mem_cons_of_mem _ ih

theorem HierOK.top_parents {top : Id} {hier : AL (List Id)} (h : HierOK top hier) : parentsOf hier top = [] := by
  induction h with
  | base => simp [parentsOf, get?]
  | @step k ps rest h0 hk _ _ _ ih =>
    rw [parentsOf_cons, if_neg]
    · exact ih
    · intro e; exact hk (e ▸ h0.top_mem)

theorem HierOK.nodup {top : Id} {hier : AL (List Id)} (h : HierOK top hier) : (keys hier).Nodup := by
  induction h with
  | base => simp [keys]
  | step _ hk _ _ _ ih => rw [keys_cons, List.nodup_cons]; exact ⟨hk, ih⟩

theorem parentsOf_subset_anc {hier : AL (List Id)} {x y : Id} (h : y ∈ parentsOf hier x) : y ∈ anc hier x := by
  induction hier with
  | nil => simp [parentsOf, get?] at h
  | cons e rest ih =>
    obtain ⟨k, ps⟩ := e
    rw [parentsOf_cons] at h
    rw [anc_cons]
    split
    · rename_i hx; rw [if_pos hx] at h; exact List.mem_append_left _ h
    · rename_i hx; rw [if_neg hx] at h; exact ih h

theorem HierOK.anc_mem {top : Id} {hier : AL (List Id)} (h : HierOK top hier) {a b : Id}
    (hb : b ∈ anc hier a) : b ∈ keys hier := by
  induction h generalizing a b with
  | base =>
    rw [anc_cons] at hb
    split at hb
    · simp at hb
    · simp [anc] at hb
  | @step k ps rest _ _ _ hps _ ih =>
    rw [anc_cons] at hb
    rw [keys_cons]
    apply List.mem_cons_of_mem
    split at hb
    · rcases List.mem_append.1 hb with hb | hb
      · exact hps _ hb
      · obtain ⟨p, _, hbp⟩ := List.mem_flatMap.1 hb
        exact ih hbp
    · exact ih hb

/-- the parent relation: `P hier x y` — `y` is listed as a parent of `x` -/
def P (hier : AL (List Id)) (x y : Id) : Prop := y ∈ parentsOf hier x

theorem P_mono {k : Id} {ps : List Id} {rest : AL (List Id)} (hk : k ∉ keys rest)
    {x y : Id} (h : P rest x y) : P ((k, ps) :: rest) x y := by
  unfold P at *
  rw [parentsOf_cons]
  have hx : x ≠ k := by
    intro e; subst e; rw [parentsOf_not_mem hk] at h; cases h
  rw [if_neg hx]; exact h

theorem TransGen_mono {α : Type} {r s : α → α → Prop} (hrs : ∀ a b, r a b → s a b) {a b : α}
    (h : TransGen r a b) : TransGen s a b := by
  induction h with
  | single h => exact .single (hrs _ _ h)
  | tail _ h ih => exact .tail ih (hrs _ _ h)

/-- ancestors are upward closed -/
theorem HierOK.anc_up {top : Id} {hier : AL (List Id)} (h : HierOK top hier) {a b c : Id}
    (hb : b ∈ anc hier a) (hc : c ∈ parentsOf hier b) : c ∈ anc hier a := by
  induction h generalizing a b c with
  | base =>
    rw [anc_cons] at hb
    split at hb
    · simp at hb
    · simp [anc] at hb
  | @step k ps rest h0 hk _ hps _ ih =>
    have hbk : b ∈ keys rest := by
      have := (HierOK.step h0 hk ‹_› hps ‹_›).anc_mem hb
      rw [keys_cons] at this
      rcases List.mem_cons.1 this with e | e
      · -- b = k is impossible: ancestors live in `rest`
        exfalso
        rw [anc_cons] at hb
        split at hb
        · rcases List.mem_append.1 hb with hb | hb
          · exact hk (e ▸ hps _ hb)
          · obtain ⟨p, _, hbp⟩ := List.mem_flatMap.1 hb
            exact hk (e ▸ h0.anc_mem hbp)
        · exact hk (e ▸ h0.anc_mem hb)
      · exact e
    have hbne : b ≠ k := fun e => hk (e ▸ hbk)
    rw [parentsOf_cons, if_neg hbne] at hc
    rw [anc_cons] at hb ⊢
    split
    · rename_i hak
      rw [if_pos hak] at hb
      apply List.mem_append_right
      rcases List.mem_append.1 hb with hb | hb
      · exact List.mem_flatMap.2 ⟨b, hb, parentsOf_subset_anc hc⟩
      · obtain ⟨p, hp, hbp⟩ := List.mem_flatMap.1 hb
        exact List.mem_flatMap.2 ⟨p, hp, ih hbp hc⟩
    · rename_i hak
      rw [if_neg hak] at hb
      exact ih hb hc

/-- `anc` is exactly the transitive closure of the parent relation -/
theorem HierOK.anc_iff_transGen {top : Id} {hier : AL (List Id)} (h : HierOK top hier) (a b : Id) :
    b ∈ anc hier a ↔ TransGen (P hier) a b := by
  constructor
  · intro hb
    induction h generalizing a b with
    | base =>
      rw [anc_cons] at hb
      split at hb
      · simp at hb
      · simp [anc] at hb
    | @step k ps rest h0 hk _ hps _ ih =>
      rw [anc_cons] at hb
      have mono : ∀ {x y}, TransGen (P rest) x y → TransGen (P ((k, ps) :: rest)) x y :=
        fun t => TransGen_mono (fun _ _ => P_mono hk) t
      split at hb
      · rename_i hak
        subst hak
        have hpar : ∀ p ∈ ps, P ((a, ps) :: rest) a p := by
          intro p hp; unfold P; rw [parentsOf_cons, if_pos rfl]; exact hp
        rcases List.mem_append.1 hb with hb | hb
        · exact .single (hpar _ hb)
        · obtain ⟨p, hp, hbp⟩ := List.mem_flatMap.1 hb
          exact TransGen.trans (.single (hpar _ hp)) (mono (ih _ _ hbp))
      · exact mono (ih _ _ hb)
  · intro t
    induction t with
    | single hp => exact parentsOf_subset_anc hp
    | tail _ hp ih => exact h.anc_up ih hp

/-! ### rank: position in the insertion order -/

def rank : AL (List Id) → Id → Nat
  | [], _ => 0
  | (k, _) :: rest, x => if x = k then rest.length else rank rest x

theorem rank_lt_length {hier : AL (List Id)} {x : Id} (h : x ∈ keys hier) : rank hier x < hier.length := by
  induction hier with
  | nil => simp [keys] at h
  | cons e rest ih =>
    obtain ⟨k, ps⟩ := e
    simp only [rank, List.length_cons]
    split
    · omega
    · rename_i hx
      rw [keys_cons] at h
      rcases List.mem_cons.1 h with h | h
      · exact absurd h hx
      · have := ih h; omega

theorem HierOK.rank_parent {top : Id} {hier : AL (List Id)} (h : HierOK top hier) {x y : Id}
    (hy : P hier x y) : rank hier y < rank hier x := by
  unfold P at hy
  induction h with
  | base =>
    rw [parentsOf_cons] at hy
    split at hy
    · cases hy
    · simp [parentsOf, get?] at hy
  | @step k ps rest h0 hk _ hps _ ih =>
    rw [parentsOf_cons] at hy
    simp only [rank]
    split at hy
    · rename_i hx
      have hyk : y ∈ keys rest := hps _ hy
      have hne : y ≠ k := fun e => hk (e ▸ hyk)
      rw [if_neg hne, if_pos hx]
      exact rank_lt_length hyk
    · rename_i hx
      have hyk : y ∈ keys rest := h0.parent_mem hy
      have hne : y ≠ k := fun e => hk (e ▸ hyk)
      rw [if_neg hne, if_neg hx]
      exact ih hy

theorem HierOK.rank_transGen {top : Id} {hier : AL (List Id)} (h : HierOK top hier) {x y : Id}
    (t : TransGen (P hier) x y) : rank hier y < rank hier x := by
  induction t with
  | single hp => exact h.rank_parent hp
  | tail _ hp ih => have := h.rank_parent hp; omega

/-! ### `_loer` is the inverse of `_hier` -/

structure LoerOK (hier loer : AL (List Id)) : Prop where
  keys_iff : ∀ x, x ∈ keys loer ↔ x ∈ keys hier
  inv : ∀ p c, c ∈ childrenOf loer p ↔ p ∈ parentsOf hier c

theorem keys_addChild (c p : Id) (l : AL (List Id)) : keys (addChild c p l) = keys l := by
  unfold addChild keys
  rw [List.map_map]
  apply List.map_congr_left
  intro e _
  simp only [Function.comp]
  split <;> rfl

theorem mem_setAdd {c x : Id} {cs : List Id} : x ∈ setAdd c cs ↔ x = c ∨ x ∈ cs := by
  unfold setAdd
  split
  · rename_i h
    constructor
    · exact Or.inr
    · rintro (e | e)
      · exact e ▸ h
      · exact e
  · exact List.mem_cons

theorem childrenOf_addChild (c p : Id) (l : AL (List Id)) (x y : Id) :
    y ∈ childrenOf (addChild c p l) x ↔ y ∈ childrenOf l x ∨ (y = c ∧ x = p ∧ x ∈ keys l) := by
  induction l with
  | nil => simp [addChild, childrenOf, get?, keys]
  | cons e l ih =>
    obtain ⟨k, cs⟩ := e
    have hcons : addChild c p ((k, cs) :: l) =
        (if k = p then (k, setAdd c cs) else (k, cs)) :: addChild c p l := by
      simp [addChild]
    rw [hcons]
    by_cases hkp : k = p
    · rw [if_pos hkp, childrenOf_cons, childrenOf_cons, keys_cons]
      by_cases hxk : x = k
      · rw [if_pos hxk, if_pos hxk, mem_setAdd]
        constructor
        · rintro (h | h)
          · exact Or.inr ⟨h, hxk.trans hkp, by simp [hxk]⟩
          · exact Or.inl h
        · rintro (h | ⟨h, _, _⟩)
          · exact Or.inr h
          · exact Or.inl h
      · rw [if_neg hxk, if_neg hxk, ih]
        simp [hxk]
    · rw [if_neg hkp, childrenOf_cons, childrenOf_cons, keys_cons]
      by_cases hxk : x = k
      · rw [if_pos hxk, if_pos hxk]
        constructor
        · exact Or.inl
        · rintro (h | ⟨_, h, _⟩)
          · exact h
          · exact absurd (hxk.symm.trans h) hkp
      · rw [if_neg hxk, if_neg hxk, ih]
        simp [hxk]

theorem keys_foldl_addChild (c : Id) (ps : List Id) (l : AL (List Id)) :
    keys (ps.foldl (fun l p => addChild c p l) l) = keys l := by
  induction ps generalizing l with
  | nil => rfl
  | cons p ps ih => rw [List.foldl_cons, ih, keys_addChild]

theorem childrenOf_foldl_addChild (c : Id) (ps : List Id) (l : AL (List Id)) (x y : Id) :
    y ∈ childrenOf (ps.foldl (fun l p => addChild c p l) l) x ↔
      y ∈ childrenOf l x ∨ (y = c ∧ x ∈ ps ∧ x ∈ keys l) := by
  induction ps generalizing l with
  | nil => simp
  | cons p ps ih =>
    rw [List.foldl_cons, ih, childrenOf_addChild, keys_addChild]
    constructor
    · rintro ((h | ⟨h1, h2, h3⟩) | ⟨h1, h2, h3⟩)
      · exact Or.inl h
      · exact Or.inr ⟨h1, by simp [h2], h3⟩
      · exact Or.inr ⟨h1, List.mem_cons_of_mem _ h2, h3⟩
    · rintro (h | ⟨h1, h2, h3⟩)
      · exact Or.inl (Or.inl h)
      · rcases List.mem_cons.1 h2 with h2 | h2
        · exact Or.inl (Or.inr ⟨h1, h2, h3⟩)
        · exact Or.inr ⟨h1, h2, h3⟩

/-! ### preservation by the pieces of `update` -/

def WFst (top : Id) (st : St) : Prop := HierOK top st.1 ∧ LoerOK st.1 st.2

theorem not_redundant {hier : AL (List Id)} {ps : List Id} (h : redundant hier ps = false) :
    ∀ p ∈ ps, ∀ q ∈ ps, p ∉ anc hier q := by
  intro p hp q hq hpq
  unfold redundant at h
  rw [List.any_eq_false] at h
  apply h p hp
  simp only [decide_eq_true_eq]
  exact List.mem_flatMap.2 ⟨q, hq, hpq⟩

theorem insertOne_wf {top : Id} {st st' : St} {e : Id × List Id} (hw : WFst top st)
    (hk : e.1 ∉ keys st.1) (hne : e.2 ≠ []) (hps : ∀ p ∈ e.2, p ∈ keys st.1)
    (h : insertOne st e = .ok st') : WFst top st' ∧ keys st'.1 = e.1 :: keys st.1 := by
  obtain ⟨hier, loer⟩ := st
  obtain ⟨k, ps⟩ := e
  obtain ⟨hh, hl⟩ := hw
  simp only at hk hne hps hh hl
  unfold insertOne at h
  simp only at h
  split at h
  · cases h
  · rename_i hred
    split at h
    · cases h
      refine ⟨⟨?_, ?_⟩, rfl⟩
      · exact HierOK.step hh hk hne hps (not_redundant (by simpa using hred))
      · simp only
        constructor
        · intro x
          rw [keys_foldl_addChild, keys_cons, keys_cons, List.mem_cons, List.mem_cons, hl.keys_iff]
        · intro p c
          rw [childrenOf_foldl_addChild, childrenOf_cons, parentsOf_cons, keys_cons]
          by_cases hck : c = k
          · subst hck
            rw [if_pos rfl]
            constructor
            · rintro (h1 | ⟨_, h2, _⟩)
              · exfalso
                split at h1
                · cases h1
                · have := (hl.inv p c).1 h1
                  rw [parentsOf_not_mem hk] at this; cases this
              · exact h2
            · intro h2
              exact Or.inr ⟨rfl, h2, List.mem_cons_of_mem _ ((hl.keys_iff p).2 (hps p h2))⟩
          · rw [if_neg hck]
            constructor
            · rintro (h1 | ⟨h2, _, _⟩)
              · split at h1
                · cases h1
                · exact (hl.inv p c).1 h1
              · exact absurd h2 hck
            · intro h2
              left
              have hpk : p ≠ k := fun e => hk (e ▸ hh.parent_mem h2)
              rw [if_neg hpk]
              exact (hl.inv p c).2 h2
    · cases h

theorem insertAll_wf {top : Id} (es : AL (List Id)) : ∀ (st st' : St), WFst top st → (keys es).Nodup →
    (∀ e ∈ es, e.1 ∉ keys st.1 ∧ e.2 ≠ [] ∧ ∀ p ∈ e.2, p ∈ keys st.1) →
    insertAll st es = .ok st' →
    WFst top st' ∧ (∀ x, x ∈ keys st'.1 ↔ x ∈ keys es ∨ x ∈ keys st.1) := by
  induction es with
  | nil =>
    intro st st' hw _ _ h
    simp only [insertAll] at h
    cases h
    exact ⟨hw, by simp [keys]⟩
  | cons e es ih =>
    intro st st' hw hn hall h
    simp only [insertAll] at h
    split at h
    · cases h
    · rename_i st1 h1
      obtain ⟨h_k, h_ne, h_ps⟩ := hall e (List.mem_cons_self)
      obtain ⟨hw1, hk1⟩ := insertOne_wf hw h_k h_ne h_ps h1
      rw [keys, List.map_cons, List.nodup_cons] at hn
      have hall1 : ∀ e' ∈ es, e'.1 ∉ keys st1.1 ∧ e'.2 ≠ [] ∧ ∀ p ∈ e'.2, p ∈ keys st1.1 := by
        intro e' he'
        obtain ⟨a, b, c⟩ := hall e' (List.mem_cons_of_mem _ he')
        refine ⟨?_, b, ?_⟩
        · rw [hk1, List.mem_cons, not_or]
          refine ⟨?_, a⟩
          intro heq
          apply hn.1
          rw [← heq]
          exact List.mem_map_of_mem he'
        · intro p hp; rw [hk1]; exact List.mem_cons_of_mem _ (c p hp)
      obtain ⟨hw', hk'⟩ := ih st1 st' hw1 hn.2 hall1 h
      refine ⟨hw', ?_⟩
      intro x
      rw [hk', hk1, keys_cons, List.mem_cons, List.mem_cons]
      constructor
      · rintro (h | h | h)
        · exact Or.inl (Or.inr h)
        · exact Or.inl (Or.inl h)
        · exact Or.inr h
      · rintro ((h | h) | h)
        · exact Or.inr (Or.inl h)
        · exact Or.inl h
        · exact Or.inr (Or.inr h)

theorem keys_filter_nodup {β : Type} {l : AL β} (p : Id × β → Bool) (h : (keys l).Nodup) :
    (keys (l.filter p)).Nodup :=
  List.Nodup.sublist (List.Sublist.map _ List.filter_sublist) h

theorem isEligible_iff {hier : AL (List Id)} {e : Id × List Id} :
    isEligible hier e = true ↔ ∀ p ∈ e.2, p ∈ keys hier := by
  unfold isEligible
  rw [List.all_eq_true]
  simp only [decide_eq_true_eq]

theorem loop_wf {top : Id} (n : Nat) : ∀ (sub : AL (List Id)) (st st' : St), WFst top st → (keys sub).Nodup →
    (∀ e ∈ sub, e.1 ∉ keys st.1 ∧ e.2 ≠ []) → loop n st sub = .ok st' → WFst top st' := by
  induction n with
  | zero =>
    intro sub st st' hw _ _ h
    cases sub with
    | nil => simp only [loop] at h; cases h; exact hw
    | cons e es => simp [loop] at h
  | succ n ih =>
    intro sub st st' hw hn hall h
    cases sub with
    | nil => simp only [loop] at h; cases h; exact hw
    | cons e es =>
      simp only [loop] at h
      split at h
      · cases h
      · split at h
        · cases h
        · rename_i st1 h1
          have hel : ∀ e' ∈ (e :: es).filter (isEligible st.1),
              e'.1 ∉ keys st.1 ∧ e'.2 ≠ [] ∧ ∀ p ∈ e'.2, p ∈ keys st.1 := by
            intro e' he'
            rw [List.mem_filter] at he'
            exact ⟨(hall e' he'.1).1, (hall e' he'.1).2, isEligible_iff.1 he'.2⟩
          obtain ⟨hw1, hk1⟩ := insertAll_wf _ st st1 hw (keys_filter_nodup _ hn) hel h1
          apply ih _ st1 st' hw1 (keys_filter_nodup _ hn) _ h
          intro e' he'
          rw [List.mem_filter] at he'
          refine ⟨?_, (hall e' he'.1).2⟩
          rw [hk1, not_or]
          refine ⟨?_, (hall e' he'.1).1⟩
          intro hmem
          obtain ⟨e'', he'', hkeq⟩ := List.mem_map.1 hmem
          rw [List.mem_filter] at he''
          have := eq_of_key_eq hn he''.1 he'.1 hkeq
          subst this
          simp [he''.2] at he'

theorem insertOne_ne_fuel {st : St} {e : Id × List Id} : insertOne st e ≠ .error .fuel := by
  unfold insertOne
  split
  · simp
  · split <;> simp

theorem insertAll_ne_fuel (es : AL (List Id)) : ∀ st, insertAll st es ≠ .error .fuel := by
  induction es with
  | nil => intro st; simp [insertAll]
  | cons e es ih =>
    intro st
    simp only [insertAll]
    split
    · rename_i x hx
      intro h
      cases h
      exact insertOne_ne_fuel hx
    · exact ih _

theorem loop_ne_fuel (n : Nat) : ∀ (sub : AL (List Id)) (st : St), sub.length ≤ n →
    loop n st sub ≠ .error .fuel := by
  induction n with
  | zero =>
    intro sub st hlen
    cases sub with
    | nil => simp [loop]
    | cons e es => simp at hlen
  | succ n ih =>
    intro sub st hlen
    cases sub with
    | nil => simp [loop]
    | cons e es =>
      simp only [loop]
      split
      · simp
      · rename_i hne
        split
        · rename_i x hx
          intro h; cases h
          exact insertAll_ne_fuel _ _ hx
        · apply ih
          have : ∃ x, x ∈ (e :: es) ∧ ¬ ((fun e => !isEligible st.1 e) x = true) := by
            cases hf : (e :: es).filter (isEligible st.1) with
            | nil => simp [hf] at hne
            | cons x xs =>
              have hx : x ∈ (e :: es).filter (isEligible st.1) := by rw [hf]; exact List.mem_cons_self
              rw [List.mem_filter] at hx
              exact ⟨x, hx.1, by simp [hx.2]⟩
          have hlt := List.length_filter_lt_length_iff_exists.2 this
          simp only [List.length_cons] at hlen hlt
          omega

theorem keys_dictSet {β : Type} (d : AL β) (k : Id) (v : β) :
    keys (dictSet d k v) = if k ∈ keys d then keys d else keys d ++ [k] := by
  unfold dictSet
  split
  · unfold keys
    rw [List.map_map]
    apply List.map_congr_left
    intro e _
    simp only [Function.comp]
    split
    · rename_i h; exact h.symm
    · rfl
  · simp [keys]

theorem dictSet_nodup {β : Type} {d : AL β} (k : Id) (v : β) (h : (keys d).Nodup) :
    (keys (dictSet d k v)).Nodup := by
  rw [keys_dictSet]
  split
  · exact h
  · rename_i hk
    rw [List.nodup_append]
    refine ⟨h, by simp, ?_⟩
    intro a ha b hb
    simp only [List.mem_singleton] at hb
    subst hb
    intro e; exact hk (e ▸ ha)

theorem foldl_dictSet_nodup {α β : Type} (f : α → Id) (g : α → β) (raw : List α) :
    ∀ d : AL β, (keys d).Nodup → (keys (raw.foldl (fun d e => dictSet d (f e) (g e)) d)).Nodup := by
  induction raw with
  | nil => intro d h; exact h
  | cons e raw ih => intro d h; rw [List.foldl_cons]; exact ih _ (dictSet_nodup _ _ h)

theorem normalizeSub_nodup (norm : Id → Id) (raw : List (Id × PSpec)) : (keys (normalizeSub norm raw)).Nodup :=
  foldl_dictSet_nodup (fun (e : Id × PSpec) => norm e.1) (fun (e : Id × PSpec) => (specParents e.2).map norm)
    raw [] (by simp [keys])

/-! ### descendants -/

theorem descF_sound {hier loer : AL (List Id)} (hl : LoerOK hier loer) (n : Nat) :
    ∀ (i x : Id), x ∈ descF n loer i → TransGen (P hier) x i := by
  induction n with
  | zero => intro i x h; simp [descF] at h
  | succ n ih =>
    intro i x h
    simp only [descF] at h
    obtain ⟨c, hc, hx⟩ := List.mem_flatMap.1 h
    have hpc : P hier c i := (hl.inv i c).1 hc
    rcases List.mem_cons.1 hx with hx | hx
    · rw [hx]; exact .single hpc
    · exact .tail (ih c x hx) hpc

theorem descF_complete {top : Id} {hier loer : AL (List Id)} (hh : HierOK top hier) (hl : LoerOK hier loer)
    {x i : Id} (t : TransGen (P hier) x i) :
    ∀ n, hier.length ≤ n + rank hier i → x ∈ descF n loer i := by
  induction t with
  | @single i hp =>
    intro n hn
    have hi : i ∈ keys hier := hh.parent_mem hp
    have := rank_lt_length hi
    cases n with
    | zero => omega
    | succ n =>
      simp only [descF]
      exact List.mem_flatMap.2 ⟨x, (hl.inv i x).2 hp, List.mem_cons_self⟩
  | @tail c i _ hp ih =>
    intro n hn
    have hi : i ∈ keys hier := hh.parent_mem hp
    have := rank_lt_length hi
    have hr := hh.rank_parent hp
    cases n with
    | zero => omega
    | succ n =>
      simp only [descF]
      exact List.mem_flatMap.2 ⟨c, (hl.inv i c).2 hp, List.mem_cons_of_mem _ (ih n (by omega))⟩

/-! ### rootedness and non-redundancy on the whole hierarchy -/

theorem anc_cons_ne {k : Id} {ps : List Id} {rest : AL (List Id)} {x : Id} (h : x ≠ k) :
    anc ((k, ps) :: rest) x = anc rest x := by rw [anc_cons, if_neg h]

theorem HierOK.rooted {top : Id} {hier : AL (List Id)} (h : HierOK top hier) {n : Id}
    (hn : n ∈ keys hier) (hne : n ≠ top) : top ∈ anc hier n := by
  induction h generalizing n with
  | base => simp [keys] at hn; exact absurd hn hne
  | @step k ps rest _ _ hps0 hps _ ih =>
    rw [anc_cons]
    split
    · cases ps with
      | nil => exact absurd rfl hps0
      | cons p ps' =>
        by_cases hp : p = top
        · apply List.mem_append_left; rw [hp]; exact List.mem_cons_self
        · apply List.mem_append_right
          exact List.mem_flatMap.2 ⟨p, List.mem_cons_self, ih (hps p List.mem_cons_self) hp⟩
    · rename_i hnk
      rw [keys_cons] at hn
      rcases List.mem_cons.1 hn with hn | hn
      · exact absurd hn hnk
      · exact ih hn hne

theorem HierOK.nonredundant {top : Id} {hier : AL (List Id)} (h : HierOK top hier) {n p q : Id}
    (hp : p ∈ parentsOf hier n) (hq : q ∈ parentsOf hier n) : p ∉ anc hier q := by
  induction h with
  | base =>
    rw [parentsOf_cons] at hp
    split at hp
    · cases hp
    · simp [parentsOf, get?] at hp
  | @step k ps rest h0 hk _ hps hnr ih =>
    rw [parentsOf_cons] at hp hq
    split at hp
    · rename_i hnk
      rw [if_pos hnk] at hq
      have hqk : q ≠ k := fun e => hk (e ▸ hps q hq)
      rw [anc_cons_ne hqk]
      exact hnr p hp q hq
    · rename_i hnk
      rw [if_neg hnk] at hq
      have hqk : q ≠ k := fun e => hk (e ▸ h0.parent_mem hq)
      rw [anc_cons_ne hqk]
      exact ih hp hq

theorem any_mem_comm (A B : List Id) :
    A.any (fun x => decide (x ∈ B)) = B.any (fun x => decide (x ∈ A)) := by
  rw [Bool.eq_iff_iff]
  simp only [List.any_eq_true, decide_eq_true_eq]
  constructor <;> rintro ⟨x, h1, h2⟩ <;> exact ⟨x, h2, h1⟩


/-! ### the literal `descN` agrees with the core on normalised children -/

theorem flatMap_congr_mem {α β : Type} {l : List α} {f g : α → List β} (h : ∀ a ∈ l, f a = g a) :
    l.flatMap f = l.flatMap g := by
  induction l with
  | nil => rfl
  | cons a l ih =>
    rw [List.flatMap_cons, List.flatMap_cons, h a List.mem_cons_self,
      ih (fun b hb => h b (List.mem_cons_of_mem _ hb))]

theorem descN_eq_descF {norm : Id → Id} {loer : AL (List Id)}
    (hfix : ∀ p c, c ∈ childrenOf loer p → norm c = c) (n : Nat) :
    ∀ x, descN norm n loer x = descF n loer (norm x) := by
  induction n with
  | zero => intro x; rfl
  | succ n ih =>
    intro x
    simp only [descN, descF]
    apply flatMap_congr_mem
    intro c hc
    rw [ih c, hfix _ _ hc]

/-! ### which keys an update can add -/

theorem keys_cons' {β : Type} (e : Id × β) (d : AL β) : keys (e :: d) = e.1 :: keys d := rfl

theorem insertOne_keys {st st' : St} {e : Id × List Id} (h : insertOne st e = .ok st') :
    keys st'.1 = e.1 :: keys st.1 := by
  unfold insertOne at h
  split at h
  · cases h
  · split at h
    · cases h; rfl
    · cases h

theorem insertAll_keys (es : AL (List Id)) : ∀ (st st' : St), insertAll st es = .ok st' →
    ∀ x, x ∈ keys st'.1 → x ∈ keys es ∨ x ∈ keys st.1 := by
  induction es with
  | nil => intro st st' h x hx; simp only [insertAll] at h; cases h; exact Or.inr hx
  | cons e es ih =>
    intro st st' h x hx
    simp only [insertAll] at h
    split at h
    · cases h
    · rename_i st1 h1
      rcases ih st1 st' h x hx with hx | hx
      · exact Or.inl (by rw [keys_cons']; exact List.mem_cons_of_mem _ hx)
      · rw [insertOne_keys h1] at hx
        rcases List.mem_cons.1 hx with hx | hx
        · exact Or.inl (by rw [keys_cons', hx]; exact List.mem_cons_self)
        · exact Or.inr hx

theorem keys_filter_subset {β : Type} {l : AL β} (p : Id × β → Bool) {x : Id}
    (h : x ∈ keys (l.filter p)) : x ∈ keys l :=
  (List.Sublist.map Prod.fst (List.filter_sublist (p := p) (l := l))).subset h

theorem loop_keys (n : Nat) : ∀ (sub : AL (List Id)) (st st' : St), loop n st sub = .ok st' →
    ∀ x, x ∈ keys st'.1 → x ∈ keys sub ∨ x ∈ keys st.1 := by
  induction n with
  | zero =>
    intro sub st st' h x hx
    cases sub with
    | nil => simp only [loop] at h; cases h; exact Or.inr hx
    | cons e es => simp [loop] at h
  | succ n ih =>
    intro sub st st' h x hx
    cases sub with
    | nil => simp only [loop] at h; cases h; exact Or.inr hx
    | cons e es =>
      simp only [loop] at h
      split at h
      · cases h
      · split at h
        · cases h
        · rename_i st1 h1
          rcases ih _ st1 st' h x hx with hx | hx
          · exact Or.inl (keys_filter_subset _ hx)
          · rcases insertAll_keys _ st st1 h1 x hx with hx | hx
            · exact Or.inl (keys_filter_subset _ hx)
            · exact Or.inr hx

theorem foldl_dictSet_keys {α β : Type} (f : α → Id) (g : α → β) (Q : Id → Prop) (hQ : ∀ e, Q (f e))
    (raw : List α) : ∀ d : AL β, (∀ k ∈ keys d, Q k) →
    ∀ k ∈ keys (raw.foldl (fun d e => dictSet d (f e) (g e)) d), Q k := by
  induction raw with
  | nil => intro d h; exact h
  | cons e raw ih =>
    intro d h
    rw [List.foldl_cons]
    apply ih
    intro k hk
    rw [keys_dictSet] at hk
    split at hk
    · exact h k hk
    · rcases List.mem_append.1 hk with hk | hk
      · exact h k hk
      · simp only [List.mem_singleton] at hk; rw [hk]; exact hQ e

theorem normalizeSub_keys_normed (norm : Id → Id) (raw : List (Id × PSpec)) :
    ∀ k ∈ keys (normalizeSub norm raw), ∃ x, norm x = k :=
  foldl_dictSet_keys (fun (e : Id × PSpec) => norm e.1) (fun (e : Id × PSpec) => (specParents e.2).map norm)
    (fun k => ∃ x, norm x = k) (fun e => ⟨e.1, rfl⟩) raw [] (by simp [keys])

/-! ### `update` sees a batch only through its normalised spelling -/

/-- what `_normalize_update` keeps of a batch entry -/
def entryKey (norm : Id → Id) (e : Id × PSpec) : Id × List Id := (norm e.1, (specParents e.2).map norm)

/-- what `_normalize_update` keeps of a data entry -/
def datKey (norm : Id → Id) (e : Id × Dat) : Id × Dat := (norm e.1, e.2)

theorem normalizeSub_eq (norm : Id → Id) (raw : List (Id × PSpec)) :
    normalizeSub norm raw = (raw.map (entryKey norm)).foldl (fun d k => dictSet d k.1 k.2) [] := by
  unfold normalizeSub; rw [List.foldl_map]; rfl

theorem normalizeDat_eq (norm : Id → Id) (raw : List (Id × Dat)) :
    normalizeDat norm raw = (raw.map (datKey norm)).foldl (fun d k => dictSet d k.1 k.2) [] := by
  unfold normalizeDat; rw [List.foldl_map]; rfl

end Verif.C17
