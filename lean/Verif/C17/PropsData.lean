/-
C17 — property theorems about the DATA side and the error branches of `update`:
"An update that is rejected for any reason (unknown parent, cycle, redundancy, duplicate, data for
unknown nodes) leaves every query answer exactly as before" — which calls are rejected because of
their data (wherever the offending entry stands), what an accepted call stores, and that after any
history `_data` has entries for nodes only, so that `h[id]` answers on exactly the nodes.

`DataOK h`: every key of `_data` is a node.  It is established for every history by `history_dataOK`
(idempotent normaliser: `__setitem__` tests `norm (norm x)` but stores under `norm x`;
`setItem_idem_needed` shows the hypothesis is necessary).
-/
import Verif.C17.Props
import Verif.C17.Lemmas2
import Verif.Generated.TablesC17

namespace Verif.C17

/-- `_data` has entries for nodes only -/
def DataOK (h : H) : Prop := ∀ k ∈ keys h.data, k ∈ keys h.hier

/-! ### which calls are rejected because of their data -/

/-- "An update that is rejected for any reason (… data for unknown nodes)": ONE data entry — at any
position of the mapping, in any spelling, whatever the other entries and the subhierarchy are — whose
normal form is neither a node nor an identifier the same call adds makes the whole call fail with
`HierarchyError`. -/
theorem update_data_unknown_rejected (norm : Id → Id) (h : H) (raw : Option (List (Id × PSpec)))
    (dat : Option (List (Id × Dat))) {e : Id × Dat} (he : e ∈ dat.getD [])
    (hnode : norm e.1 ∉ keys h.hier) (hnew : ∀ e' ∈ raw.getD [], norm e'.1 ≠ norm e.1) :
    update norm h raw dat = .error .hierarchyError := by
  unfold update
  simp only
  split
  · rfl
  · split
    · rfl
    · rw [if_pos]
      rw [List.any_eq_true]
      obtain ⟨e2, he2, hk2⟩ := List.mem_map.1 ((mem_keys_normalizeDat norm (dat.getD []) (norm e.1)).2 ⟨e, he, rfl⟩)
      refine ⟨e2, he2, ?_⟩
      simp only [decide_eq_true_eq, hk2]
      refine ⟨hnode, ?_⟩
      intro hm
      obtain ⟨e', he', hk'⟩ := (mem_keys_normalizeSub norm _ _).1 hm
      exact hnew e' he' hk'

/-- the converse for calls that carry DATA ONLY (`subhierarchy` is `None` or `{}`): the call is accepted
exactly when EVERY data key normalises to a node; then `_hier`/`_loer`/top are untouched. -/
theorem update_data_only_ok_iff (norm : Id → Id) (h : H) {raw : Option (List (Id × PSpec))}
    (hraw : raw = none ∨ raw = some []) (dat : Option (List (Id × Dat))) :
    (∃ h', update norm h raw dat = .ok h') ↔ ∀ e ∈ dat.getD [], norm e.1 ∈ keys h.hier := by
  have hsub : normalizeSub norm (raw.getD []) = [] := by
    rcases hraw with rfl | rfl <;> rfl
  constructor
  · rintro ⟨h', hu⟩ e he
    apply Classical.byContradiction
    intro hnode
    have := update_data_unknown_rejected norm h raw dat he hnode
      (by rcases hraw with rfl | rfl <;> simp)
    rw [this] at hu
    cases hu
  · intro hall
    unfold update
    simp only [hsub]
    rw [if_neg (by simp), if_neg (by simp), if_neg]
    · simp only [List.length_nil, loop]
      exact ⟨_, rfl⟩
    · simp only [Bool.not_eq_true, List.any_eq_false, decide_eq_true_eq, not_and, Decidable.not_not]
      intro e2 he2 hn
      obtain ⟨e, he, hk⟩ := (mem_keys_normalizeDat norm (dat.getD []) e2.1).1 (List.mem_map_of_mem he2)
      exact absurd (hk ▸ hall e he) hn

/-- a data-only call never touches the graph -/
theorem update_data_only_graph {norm : Id → Id} {h h' : H} {raw : Option (List (Id × PSpec))}
    (hraw : raw = none ∨ raw = some []) {dat : Option (List (Id × Dat))}
    (hu : update norm h raw dat = .ok h') : h'.hier = h.hier ∧ h'.loer = h.loer ∧ h'.top = h.top := by
  have hsub : normalizeSub norm (raw.getD []) = [] := by
    rcases hraw with rfl | rfl <;> rfl
  unfold update at hu
  simp only [hsub] at hu
  split at hu
  · cases hu
  · split at hu
    · cases hu
    · split at hu
      · cases hu
      · simp only [List.length_nil, loop] at hu
        cases hu
        exact ⟨rfl, rfl, rfl⟩

/-! ### what an accepted call stores -/

/-- "accepted calls store exactly the given data": after an accepted `update` the stored value of EVERY
identifier `k` is that of the LAST data entry whose identifier normalises to `k`, and the value stored
before if there is no such entry (nothing else is added, nothing is lost). -/
theorem update_data_exact {norm : Id → Id} {h h' : H} {raw : Option (List (Id × PSpec))}
    {dat : Option (List (Id × Dat))} (hu : update norm h raw dat = .ok h') (k : Id) :
    get? h'.data k = (lastFor norm (dat.getD []) k).or (get? h.data k) := by
  unfold update at hu
  simp only at hu
  split at hu
  · cases hu
  · split at hu
    · cases hu
    · split at hu
      · cases hu
      · split at hu
        · cases hu
        · cases hu
          simp only
          rw [get?_applyData _ _ (normalizeDat_nodup norm _), get?_normalizeDat]

/-- accepted `__setitem__`: exactly one binding changes, the graph does not -/
theorem setItem_exact {norm : Id → Id} {h h' : H} {x : Id} {d : Dat} (hs : setItem norm h x d = .ok h') :
    h'.hier = h.hier ∧ h'.loer = h.loer ∧ h'.top = h.top ∧
    ∀ k, get? h'.data k = if k = norm x then some d else get? h.data k := by
  unfold setItem at hs
  split at hs
  · cases hs
    exact ⟨rfl, rfl, rfl, fun k => get?_cons _ _ _ _⟩
  · cases hs

/-- `__setitem__` is accepted exactly for (spellings of) nodes, else `HierarchyError` -/
theorem setItem_ok_iff (norm : Id → Id) (h : H) (x : Id) (d : Dat) :
    ((∃ h', setItem norm h x d = .ok h') ↔ contains norm h (norm x) = true) ∧
    (contains norm h (norm x) = false → setItem norm h x d = .error .hierarchyError) := by
  unfold setItem
  constructor
  · constructor
    · rintro ⟨h', hs⟩
      split at hs
      · assumption
      · cases hs
    · intro hc; rw [if_pos hc]; exact ⟨_, rfl⟩
  · intro hc; rw [if_neg (by simp [hc])]

/-! ### data is kept for nodes only, after every history -/

theorem update_dataOK {norm : Id → Id} {h h' : H} {raw : Option (List (Id × PSpec))}
    {dat : Option (List (Id × Dat))} (hd : DataOK h) (hu : update norm h raw dat = .ok h') : DataOK h' := by
  unfold update at hu
  simp only at hu
  split at hu
  · cases hu
  · split at hu
    · cases hu
    · rename_i hchk
      split at hu
      · cases hu
      · split at hu
        · cases hu
        · rename_i hdat _ st hst
          cases hu
          intro k hk
          have hsup := loop_keys_super _ _ (h.hier, h.loer) st hst k
          rcases (mem_keys_applyData _ _ k).1 hk with hk | hk
          · obtain ⟨e2, he2, rfl⟩ := List.mem_map.1 hk
            simp only [Bool.not_eq_true, List.any_eq_false, decide_eq_true_eq, not_and, Decidable.not_not] at hdat
            by_cases hn : e2.1 ∈ keys h.hier
            · exact hsup (Or.inr hn)
            · exact hsup (Or.inl (hdat e2 he2 hn))
          · exact hsup (Or.inr (hd k hk))

theorem setItem_dataOK {norm : Id → Id} (hid : Idem norm) {h h' : H} {x : Id} {d : Dat} (hd : DataOK h)
    (hs : setItem norm h x d = .ok h') : DataOK h' := by
  unfold setItem at hs
  split at hs
  · rename_i hc
    cases hs
    intro k hk
    simp only [keys_cons, List.mem_cons] at hk
    rcases hk with rfl | hk
    · simpa [contains, hid x] using hc
    · exact hd k hk
  · cases hs

/-- "… data for unknown nodes": after the constructor and ANY list of accepted and rejected
`update` / `__setitem__` calls, `_data` has entries for nodes only. -/
theorem history_dataOK {norm : Id → Id} (hid : Idem norm) {top : Id} {raw : Option (List (Id × PSpec))}
    {dat : Option (List (Id × Dat))} {h0 : H} (hc : construct norm top raw dat = .ok h0)
    (cs : List Call) : DataOK (run norm h0 cs) := by
  have h0d : DataOK h0 := by
    unfold construct at hc
    split at hc
    · cases hc; intro k hk; simp [H.new, keys] at hk
    · exact update_dataOK (by intro k hk; simp [H.new, keys] at hk) hc
  have gen : ∀ (cs : List Call) (h : H), DataOK h → DataOK (run norm h cs) := by
    intro cs
    induction cs with
    | nil => intro h hd; exact hd
    | cons c cs ih =>
      intro h hd
      apply ih
      unfold step
      split
      · rename_i h' hc'
        cases c with
        | update r d => exact update_dataOK hd hc'
        | set x d => exact setItem_dataOK hid hd hc'
      · exact hd
  exact gen cs h0 h0d

/-- `h[id]` answers (a value or `None`) on exactly the spellings of nodes and raises `KeyError` on
every other identifier -/
theorem getItem_ok_iff {norm : Id → Id} (hid : Idem norm) {h : H} (hd : DataOK h) (x : Id) :
    ((∃ r, getItem norm h x = .ok r) ↔ contains norm h x = true) ∧
    (contains norm h x = false → getItem norm h x = .error .keyError) := by
  have hcc : contains norm h (norm x) = contains norm h x := by simp [contains, hid x]
  unfold getItem
  rw [hcc]
  constructor
  · constructor
    · rintro ⟨r, hr⟩
      split at hr
      · rename_i d hg
        simpa [contains] using hd _ (mem_keys_of_get? hg)
      · split at hr
        · assumption
        · cases hr
    · intro hc
      split
      · exact ⟨_, rfl⟩
      · rw [if_pos hc]; exact ⟨_, rfl⟩
  · intro hc
    split
    · rename_i d hg
      have := hd _ (mem_keys_of_get? hg)
      simp [contains, this] at hc
    · rw [if_neg (by simp [hc])]

/-- on a node, `h[id]` after an accepted update is the last given value for it, else the value
before, else `None` -/
theorem update_getItem {norm : Id → Id} (hid : Idem norm) {h h' : H} {raw : Option (List (Id × PSpec))}
    {dat : Option (List (Id × Dat))} (hu : update norm h raw dat = .ok h') {x : Id}
    (hx : contains norm h' x = true) :
    getItem norm h' x = .ok ((lastFor norm (dat.getD []) (norm x)).or (get? h.data (norm x))) := by
  have hcc : contains norm h' (norm x) = true := by simpa [contains, hid x] using hx
  unfold getItem
  rw [update_data_exact hu, hcc]
  split
  · rename_i d hg; rw [hg]
  · rename_i hg; rw [hg]; rfl

/-! ### unknown identifiers -/

/-- every query about an identifier that is no node (in any spelling) raises `KeyError`; the one
exception the code has is kept: `subsumes(a, b)` answers `True` whenever the two normal forms are
equal, node or not (`a == b or …` short-circuits before the look-up) -/
theorem unknown_raises {norm : Id → Id} {h : H} (hw : WF norm h) {x : Id} (hx : contains norm h x = false) :
    parents norm h x = .error .keyError ∧ children norm h x = .error .keyError ∧
    ancestors norm h x = .error .keyError ∧ descendants norm h x = .error .keyError ∧
    (Idem norm → ∀ b, compatible norm h x b = .error .keyError ∧
      (norm x ≠ norm b → subsumes norm h x b = .error .keyError)) ∧
    subsumes norm h x x = .ok true := by
  have hk : norm x ∉ keys h.hier := by simpa [contains] using hx
  have hl : norm x ∉ keys h.loer := fun hm => hk ((hw.loer.keys_iff _).1 hm)
  refine ⟨?_, ?_, ?_, ?_, ?_, ?_⟩
  · unfold parents; rw [get?_eq_none hk]
  · unfold children; rw [get?_eq_none hl]
  · unfold ancestors; rw [if_neg hk]
  · unfold descendants; rw [if_neg hl]
  · intro hid b
    have hd : descendants norm h (norm x) = .error .keyError := by
      unfold descendants; rw [hid x, if_neg hl]
    constructor
    · unfold compatible; simp only [hd]
    · intro hne; unfold subsumes; simp only [if_neg hne, hd]
  · unfold subsumes; simp

/-! ### the only failure of `update` is `HierarchyError`; rejected calls may be deleted -/

/-- "rejected for any reason": on a well-formed hierarchy `update` fails with `HierarchyError` only —
the `KeyError` of `loer[parent].add(…)` and the exhausted loop are unreachable -/
theorem update_error_is_hierarchyError {norm : Id → Id} {h : H} (hw : WF norm h)
    (raw : Option (List (Id × PSpec))) (dat : Option (List (Id × Dat))) {x : Err}
    (hu : update norm h raw dat = .error x) : x = .hierarchyError := by
  have hf := update_ne_fuel norm h raw dat
  unfold update at hu hf
  simp only at hu hf
  split at hu
  · cases hu; rfl
  · rename_i hdup
    split at hu
    · cases hu; rfl
    · rename_i hemp
      split at hu
      · cases hu; rfl
      · rename_i hdat
        rw [if_neg hdup, if_neg hemp, if_neg hdat] at hf
        split at hu
        · rename_i x' hst
          cases hu
          have hall : ∀ e ∈ normalizeSub norm (raw.getD []), e.1 ∉ keys (h.hier, h.loer).1 ∧ e.2 ≠ [] := by
            intro e he
            simp only [Bool.not_eq_true] at hdup hemp
            rw [List.any_eq_false] at hdup hemp
            refine ⟨by simpa using hdup e he, ?_⟩
            intro hnil
            exact hemp e he (by simp [hnil])
          rcases loop_err (top := h.top) _ _ (h.hier, h.loer) ⟨hw.hier, hw.loer⟩
            (normalizeSub_nodup norm _) hall _ hst with hx | hx
          · exact hx
          · exfalso; rw [hst, hx] at hf; exact hf rfl
        · cases hu

/-- "failed updates change nothing", as far as the pure model can say it: a rejected call can be
deleted from a history without changing the state any later call or query sees -/
theorem run_drop_rejected (norm : Id → Id) (h : H) (pre post : List Call) {c : Call} {e : Err}
    (hc : applyCall norm (run norm h pre) c = .error e) :
    run norm h (pre ++ c :: post) = run norm h (pre ++ post) := by
  have hs : step norm (run norm h pre) c = run norm h pre := by simp only [step, hc]
  unfold run at hs ⊢
  rw [List.foldl_append, List.foldl_append, List.foldl_cons, hs]

/-! ### witnesses -/

def isKeyError {α : Type} : Except Err α → Bool
  | .error .keyError => true
  | _ => false

/-- `MultiHierarchy('t', {'a': 't', 'b': 'a'}, data={'a': 10})` -/
def exData : Except Err H :=
  construct id ['t'] (some [(['a'], .str ['t']), (['b'], .str ['a'])]) (some [(['a'], 10)])

/-- data-only calls with a known node BEFORE the unknown one (unknown last / in the middle / first),
`subhierarchy` `None` and `{}`, and data for a node the same (rejected) call would add: all rejected;
the same mappings without the unknown entry are accepted and store exactly what was given -/
theorem data_batches_witness :
    okAnd (fun h =>
      errIs .hierarchyError (update id h none (some [(['a'], 1), (['q'], 2)]))
      && errIs .hierarchyError (update id h (some []) (some [(['a'], 1), (['q'], 2), (['b'], 3)]))
      && errIs .hierarchyError (update id h none (some [(['q'], 2), (['b'], 3)]))
      && errIs .hierarchyError (update id h (some [(['x'], .str ['a'])]) (some [(['x'], 1), (['q'], 2)]))
      && errIs .hierarchyError (update id h (some [(['x'], .str ['q'])]) (some [(['x'], 1), (['a'], 2)]))
      && okAnd (fun h' => okIs (some 1) (getItem id h' ['a']) && okIs (some 3) (getItem id h' ['b'])
            && okIs none (getItem id h' ['t']) && isKeyError (getItem id h' ['q']))
          (update id h none (some [(['a'], 1), (['b'], 3)]))
      && okAnd (fun h' => okIs (some 10) (getItem id h' ['a']) && okIs (some 1) (getItem id h' ['x']))
          (update id h (some [(['x'], .str ['a'])]) (some [(['x'], 1)]))) exData = true := by
  decide

/-- with the lower-casing normaliser two spellings of one data key are ONE entry (the last wins) and an
unknown identifier is rejected in every spelling -/
theorem data_spellings_witness :
    okAnd (fun h =>
      okAnd (fun h' => okIs (some 2) (getItem lowerId h' ['a']) && okIs (some 2) (getItem lowerId h' ['A']))
          (update lowerId h none (some [(['A'], 1), (['a'], 2)]))
      && errIs .hierarchyError (update lowerId h none (some [(['A'], 1), (['Q'], 2)]))
      && errIs .hierarchyError (setItem lowerId h ['Q'] 1)
      && okAnd (fun h' => okIs (some 5) (getItem lowerId h' ['a'])) (setItem lowerId h ['A'] 5))
      (construct lowerId ['T'] (some [(['A'], .str ['t'])]) none) = true := by
  decide

/-- `Idem` is necessary for `setItem_dataOK`/`history_dataOK`/`getItem_ok_iff`: with the (non-idempotent)
normaliser "drop the first character", `h['xt'] = 1` on `MultiHierarchy('tt')` (top `t`) tests `t` but
stores under `xt`, which is no node -/
theorem setItem_idem_needed :
    okAnd (fun h => decide ((['x', 't'] : Id) ∈ keys h.data) && !decide ((['x', 't'] : Id) ∈ keys h.hier))
      (setItem (fun s => s.drop 1) (H.new ['t']) ['x', 'x', 't'] 1) = true := by
  decide

/-- pins for the caller-supplied normaliser: `_norm` of `MultiHierarchy('ToP', normalize_identifier=str.upper)`
and of `TypeHierarchy('ToP', normalize_identifier=str.upper)` on ASCII is `upperId`; both objects hold
`str.upper` itself and store the top as `TOP`; `lowerId`/`upperId` are idempotent on ASCII strings (the
`Idem` hypothesis of the theorems, for the normalisers the harness uses) -/
theorem c17_pins_upper :
    Verif.Tables.c17MultiUpperNormAscii = (List.range 128).map (fun n => (upperId [Char.ofNat n]).map Char.toNat) ∧
    Verif.Tables.c17TypeUpperNormAscii = (List.range 128).map (fun n => (upperId [Char.ofNat n]).map Char.toNat) ∧
    Verif.Tables.c17UpperPlumbing = [true, true] ∧ Verif.Tables.c17UpperTops = ["TOP", "TOP"] ∧
    ((List.range 128).all fun n => lowerId (lowerId [Char.ofNat n]) == lowerId [Char.ofNat n]
      && upperId (upperId [Char.ofNat n]) == upperId [Char.ofNat n]) = true := by
  refine ⟨?_, ?_, ?_, ?_, ?_⟩ <;> decide

/-- the hypotheses are satisfiable: an accepted data-only call on a well-formed hierarchy -/
example : ∃ h h', exData = .ok h ∧ update id h none (some [(['b'], 3)]) = .ok h' ∧
    get? h'.data ['b'] = some 3 ∧ get? h'.data ['a'] = some 10 := by
  refine ⟨_, _, rfl, rfl, ?_, ?_⟩ <;> decide

end Verif.C17
