/- C17 line-protocol driver: `lake env lean --run Verif/C17/Driver.lean` -/
import Verif.Common.Proto
import Verif.C17.Model
open Lean Verif.Proto Verif.C17

namespace Verif.C17.Driver

def errTag : Err → String
  | .hierarchyError => "HierarchyError"
  | .keyError => "KeyError"
  | .fuel => "fuel"

/-- lexicographic order on code points (Python's order on `str`) -/
def leId : List Char → List Char → Bool
  | [], _ => true
  | _ :: _, [] => false
  | a :: as, b :: bs => if a.toNat < b.toNat then true else if b.toNat < a.toNat then false else leId as bs

/-- canonical form of a Python set of identifiers -/
def canonSet (xs : List Id) : List Id := (xs.eraseDups).mergeSort leId

def jSetR : Except Err (List Id) → Json
  | .ok xs => jOk (jList cps (canonSet xs))
  | .error e => jErr (errTag e)

def jListR : Except Err (List Id) → Json
  | .ok xs => jOk (jList cps xs)
  | .error e => jErr (errTag e)

def jBoolR : Except Err Bool → Json
  | .ok b => Json.bool b
  | .error e => jErr (errTag e)

def jDat : Option Dat → Json
  | none => Json.null
  | some d => jInt d

def jGetR : Except Err (Option Dat) → Json
  | .ok d => jOk (jDat d)
  | .error e => jErr (errTag e)

def ofSpec (j : Json) : Except String PSpec :=
  match j.getObjVal? "s" with
  | .ok v => do pure (.str (← ofCps v))
  | .error _ => do
    let a ← getArr j "t"
    pure (.tup (← a.mapM ofCps))

def ofPair (j : Json) : Except String (Id × PSpec) := do
  let a ← j.getArr?
  match a.toList with
  | [i, p] => pure (← ofCps i, ← ofSpec p)
  | _ => throw "bad batch entry"

def ofDatPair (j : Json) : Except String (Id × Dat) := do
  let a ← j.getArr?
  match a.toList with
  | [i, d] => pure (← ofCps i, ← d.getInt?)
  | _ => throw "bad data entry"

def optList {α} (f : Json → Except String α) (j : Json) (k : String) : Except String (Option (List α)) :=
  match j.getObjVal? k with
  | .error _ => pure none
  | .ok Json.null => pure none
  | .ok v => do
    let a ← v.getArr?
    pure (some (← a.toList.mapM f))

/-- the full query set over the universe `U` -/
def observe (norm : Id → Id) (h : H) (U : List Id) (r : Json) : Json :=
  let q := U.map (fun u => Json.mkObj [
    ("in", Json.bool (contains norm h u)),
    ("par", jListR (parents norm h u)),
    ("chi", jSetR (children norm h u)),
    ("anc", jSetR (ancestors norm h u)),
    ("des", jSetR (descendants norm h u)),
    ("get", jGetR (getItem norm h u))])
  let sub := U.map (fun a => Json.arr (U.map (fun b => jBoolR (subsumes norm h a b))).toArray)
  let com := U.map (fun a => Json.arr (U.map (fun b => jBoolR (compatible norm h a b))).toArray)
  let its : Json :=
    match items norm h with
    | .ok xs => Json.arr (xs.map (fun e => Json.arr #[cps e.1, jDat e.2])).toArray
    | .error e => jErr (errTag e)
  let eq : Json :=
    match rebuild norm h true, rebuild norm h false with
    | .ok r, .ok r0 => Json.arr #[Json.bool (eqH r h), Json.bool (eqH h r), Json.bool (eqH r0 h)]
    | .error e, _ => jErr (errTag e)
    | _, .error e => jErr (errTag e)
  Json.mkObj [("r", r), ("top", cps h.top), ("eq", eq), ("len", jNat (len h)), ("items", its), ("q", Json.arr q.toArray),
              ("sub", Json.arr sub.toArray), ("com", Json.arr com.toArray)]

def ofCall (j : Json) : Except String Call := do
  let k ← getStr j "k"
  match k with
  | "update" => do
    let sub ← optList ofPair j "sub"
    let dat ← optList ofDatPair j "data"
    pure (.update sub dat)
  | "set" => do
    pure (.set (← getCps j "id") (← getInt j "val"))
  | _ => throw s!"bad step {k}"

def runSteps (norm : Id → Id) (U : List Id) : H → List Call → List Json → List Json
  | _, [], acc => acc.reverse
  | h, c :: cs, acc =>
    let r : Json := match applyCall norm h c with
      | .ok _ => Json.str "ok"
      | .error e => jErr (errTag e)
    let h' := step norm h c
    runSteps norm U h' cs (observe norm h' U r :: acc)

def handle (j : Json) : Except String Json := do
  let normName ← getStr j "norm"
  let norm : Id → Id := if normName == "lower" then lowerId else if normName == "upper" then upperId else id
  let top ← getCps j "top"
  let U ← (← getArr j "U").mapM ofCps
  let steps ← (← getArr j "steps").mapM ofCall
  let h0 : Except Err H ←
    match j.getObjVal? "init" with
    | .error _ => pure (.ok (H.new (norm top)))
    | .ok Json.null => pure (.ok (H.new (norm top)))
    | .ok s => do
      let sub ← optList ofPair s "sub"
      let dat ← optList ofDatPair s "data"
      pure (construct norm top sub dat)
  match h0 with
  | .error e => pure (Json.arr #[Json.mkObj [("r", jErr (errTag e))]])
  | .ok h =>
    pure (Json.arr (runSteps norm U h steps [observe norm h U (Json.str "ok")]).toArray)

end Verif.C17.Driver

def main : IO Unit := Verif.Proto.serve Verif.C17.Driver.handle
