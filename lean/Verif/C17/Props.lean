/-
C17 — property theorems: "Hierarchies stay rooted DAGs and failed updates change nothing".
Only property statements live here; helper lemmas are in Lemmas.lean.

The invariant `WF norm h` is established by `history_invariant` for the result of every constructor
call followed by any sequence of accepted and rejected calls, for an ARBITRARY normaliser `norm`.
The model normalises exactly where the code does (also the repeated normalisation in nested public
calls), so the theorems about `descendants`/`subsumes`/`compatible` and the query form of the
redundancy clause assume `Idem norm` (`str.lower` and the identity are idempotent); all others do not.

Not a theorem, on purpose: "a rejected update leaves every query answer as before".  The model is
pure, so `step` returns the old state on `.error` by construction; that clause is carried by the
harness on the real code (full query set + state snapshot after every rejected call).
`norm_invariance` (one query, two spellings of an argument) is immediate from the model's definitions,
exactly as it is from the code's (every method starts with `norm`); the spelling clause with content is
`update_respell` / `history_respell`: histories written in different spellings reach the SAME state.
-/
import Verif.C17.Lemmas
import Verif.Generated.TablesC17

namespace Verif.C17
open Relation

/-- an idempotent identifier normaliser -/
def Idem (norm : Id → Id) : Prop := ∀ x, norm (norm x) = norm x

/-- The invariant: `_hier` is an insertion-ordered rooted DAG without redundant parents
(`HierOK`), `_loer` is its inverse (`LoerOK`), and every stored identifier is a value of `norm`. -/
structure WF (norm : Id → Id) (h : H) : Prop where
  hier : HierOK h.top h.hier
  loer : LoerOK h.hier h.loer
  normed : ∀ k ∈ keys h.hier, ∃ x, norm x = k

/-! ### the invariant holds after every history -/

theorem new_wf (norm : Id → Id) (top : Id) : WF norm (H.new (norm top)) := by
  refine ⟨HierOK.base, ⟨fun x => Iff.rfl, ?_⟩, ?_⟩
  · intro p c
    simp only [H.new, childrenOf_cons, parentsOf_cons]
    constructor
    · intro h; split at h
      · cases h
      · simp [childrenOf, get?] at h
    · intro h; split at h
      · cases h
      · simp [parentsOf, get?] at h
  · intro k hk
    simp only [H.new, keys, List.map_cons, List.map_nil, List.mem_singleton] at hk
    exact ⟨top, hk.symm⟩

/-- "[core] invariant WF preserved by every accepted update": whatever batch and data are passed,
in whatever spelling, an accepted `update` yields a well-formed hierarchy with the same top. -/
theorem update_wf {norm : Id → Id} {h h' : H} {raw : Option (List (Id × PSpec))}
    {dat : Option (List (Id × Dat))} (hw : WF norm h) (hu : update norm h raw dat = .ok h') :
    WF norm h' ∧ h'.top = h.top := by
  unfold update at hu
  simp only at hu
  split at hu
  · cases hu
  · rename_i hdup
    split at hu
    · cases hu
    · rename_i hemp
      split at hu
      · cases hu
      · split at hu
        · cases hu
        · rename_i st hst
          cases hu
          have hall : ∀ e ∈ normalizeSub norm (raw.getD []), e.1 ∉ keys (h.hier, h.loer).1 ∧ e.2 ≠ [] := by
            intro e he
            simp only [Bool.not_eq_true] at hdup hemp
            rw [List.any_eq_false] at hdup hemp
            refine ⟨by simpa using hdup e he, ?_⟩
            intro hnil
            exact hemp e he (by simp [hnil])
          have := loop_wf (top := h.top) _ _ (h.hier, h.loer) st ⟨hw.hier, hw.loer⟩
            (normalizeSub_nodup norm _) hall hst
          refine ⟨⟨this.1, this.2, ?_⟩, rfl⟩
          intro k hk
          rcases loop_keys _ _ (h.hier, h.loer) st hst k hk with hk | hk
          · exact normalizeSub_keys_normed norm _ k hk
          · exact hw.normed k hk

/-- the fuel of the `while` loop (the batch size) always suffices -/
theorem update_ne_fuel (norm : Id → Id) (h : H) (raw : Option (List (Id × PSpec)))
    (dat : Option (List (Id × Dat))) : update norm h raw dat ≠ .error .fuel := by
  unfold update
  simp only
  split
  · simp
  · split
    · simp
    · split
      · simp
      · split
        · rename_i x hx
          intro e; cases e
          exact loop_ne_fuel _ _ _ (Nat.le_refl _) hx
        · simp

theorem setItem_wf {norm : Id → Id} {h h' : H} {x : Id} {d : Dat} (hw : WF norm h)
    (hs : setItem norm h x d = .ok h') : WF norm h' ∧ h'.top = h.top := by
  unfold setItem at hs
  split at hs
  · cases hs; exact ⟨⟨hw.hier, hw.loer, hw.normed⟩, rfl⟩
  · cases hs

theorem construct_wf {norm : Id → Id} {top : Id} {raw : Option (List (Id × PSpec))}
    {dat : Option (List (Id × Dat))} {h : H} (hc : construct norm top raw dat = .ok h) :
    WF norm h ∧ h.top = norm top := by
  unfold construct at hc
  split at hc
  · cases hc; exact ⟨new_wf _ _, rfl⟩
  · exact update_wf (new_wf _ _) hc

theorem step_wf {norm : Id → Id} {h : H} (c : Call) (hw : WF norm h) :
    WF norm (step norm h c) ∧ (step norm h c).top = h.top := by
  unfold step
  split
  · rename_i h' hc
    cases c with
    | update r d => exact update_wf hw hc
    | set x d => exact setItem_wf hw hc
  · exact ⟨hw, rfl⟩

/-- "After any sequence of accepted and rejected updates a hierarchy is a rooted acyclic graph":
the invariant holds after the constructor (with any initial batch it accepts) followed by ANY list
of `update` / `__setitem__` calls, valid or invalid; and the top never changes. -/
theorem history_invariant {norm : Id → Id} {top : Id} {raw : Option (List (Id × PSpec))}
    {dat : Option (List (Id × Dat))} {h0 : H} (hc : construct norm top raw dat = .ok h0)
    (cs : List Call) : WF norm (run norm h0 cs) ∧ (run norm h0 cs).top = norm top := by
  have gen : ∀ (cs : List Call) (h : H), WF norm h →
      WF norm (run norm h cs) ∧ (run norm h cs).top = h.top := by
    intro cs
    induction cs with
    | nil => intro h hw; exact ⟨hw, rfl⟩
    | cons c cs ih =>
      intro h hw
      have hs := step_wf (norm := norm) c hw
      have := ih _ hs.1
      exact ⟨this.1, this.2.trans hs.2⟩
  have h0w := construct_wf hc
  have := gen cs h0 h0w.1
  exact ⟨this.1, this.2.trans h0w.2⟩

/-- every stored identifier is a fixed point of an idempotent normaliser -/
theorem stored_fixed {norm : Id → Id} {h : H} (hw : WF norm h) (hid : Idem norm) {k : Id}
    (hk : k ∈ keys h.hier) : norm k = k := by
  obtain ⟨x, rfl⟩ := hw.normed k hk
  exact hid x

/-! ### what the invariant says about the queries -/

/-- "parents and children are mutual inverses": `c` is among the children of `p` iff `p` is
among the parents of `c` (any spellings). -/
theorem children_parents_inverse {norm : Id → Id} {h : H} (hw : WF norm h) (p c : Id) :
    (∃ cs, children norm h p = .ok cs ∧ norm c ∈ cs) ↔ (∃ ps, parents norm h c = .ok ps ∧ norm p ∈ ps) := by
  have key := hw.loer.inv (norm p) (norm c)
  unfold childrenOf parentsOf at key
  unfold children parents
  constructor
  · rintro ⟨cs, hcs, hc⟩
    split at hcs
    · rename_i cs' hg
      cases hcs
      rw [hg] at key
      have := key.1 hc
      cases hg2 : get? h.hier (norm c) with
      | none => rw [hg2] at this; cases this
      | some ps => rw [hg2] at this; exact ⟨ps, rfl, this⟩
    · cases hcs
  · rintro ⟨ps, hps, hp⟩
    split at hps
    · rename_i ps' hg
      cases hps
      rw [hg] at key
      have := key.2 hp
      cases hg2 : get? h.loer (norm p) with
      | none => rw [hg2] at this; cases this
      | some cs => rw [hg2] at this; exact ⟨cs, rfl, this⟩
    · cases hps

/-- every listed parent and every listed child is a node, and both maps have the same keys -/
theorem parents_children_closed {norm : Id → Id} {h : H} (hw : WF norm h) :
    (∀ x y, y ∈ parentsOf h.hier x → y ∈ keys h.hier) ∧
    (∀ x y, y ∈ childrenOf h.loer x → y ∈ keys h.loer) ∧
    (∀ x, x ∈ keys h.loer ↔ x ∈ keys h.hier) := by
  refine ⟨fun x y hy => hw.hier.parent_mem hy, ?_, hw.loer.keys_iff⟩
  intro x y hy
  exact (hw.loer.keys_iff y).2 (mem_keys_of_parentsOf ((hw.loer.inv x y).1 hy))

/-- "ancestors [is the] transitive closure [of parents]" -/
theorem ancestors_closure {norm : Id → Id} {h : H} (hw : WF norm h) {a : Id} {as : List Id}
    (ha : ancestors norm h a = .ok as) (b : Id) : b ∈ as ↔ TransGen (P h.hier) (norm a) b := by
  unfold ancestors at ha
  split at ha
  · cases ha; exact hw.hier.anc_iff_transGen _ _
  · cases ha

/-- the method `descendants`, which re-normalises every child on its way down, computes the
normaliser-free closure `descF` of the normalised argument (idempotent normaliser) -/
theorem descendants_eq {norm : Id → Id} {h : H} (hw : WF norm h) (hid : Idem norm) (x : Id) :
    descendants norm h x =
      if norm x ∈ keys h.loer then .ok (descF h.hier.length h.loer (norm x)) else .error .keyError := by
  unfold descendants
  rw [descN_eq_descF]
  intro p c hc
  exact stored_fixed hw hid ((hw.loer.keys_iff c).1 ((parents_children_closed hw).2.1 p c hc))

/-- "descendants [is the] transitive closure [of children]", i.e. the inverse of ancestors -/
theorem descendants_closure {norm : Id → Id} {h : H} (hw : WF norm h) (hid : Idem norm) {a : Id}
    {ds : List Id} (ha : descendants norm h a = .ok ds) (x : Id) :
    x ∈ ds ↔ TransGen (P h.hier) x (norm a) := by
  rw [descendants_eq hw hid] at ha
  split at ha
  · cases ha
    constructor
    · exact descF_sound hw.loer _ _ _
    · intro t; exact descF_complete hw.hier hw.loer t _ (Nat.le_add_right _ _)
  · cases ha

/-- descendants and ancestors are mutually inverse at the level of the queries -/
theorem descendants_ancestors_inverse {norm : Id → Id} {h : H} (hw : WF norm h) (hid : Idem norm)
    {a b : Id} {ds as : List Id}
    (hd : descendants norm h a = .ok ds) (ha : ancestors norm h b = .ok as) :
    norm b ∈ ds ↔ norm a ∈ as := by
  rw [descendants_closure hw hid hd, ancestors_closure hw ha]

/-- "acyclic": no node is its own ancestor -/
theorem acyclic {norm : Id → Id} {h : H} (hw : WF norm h) (a : Id) : ¬ TransGen (P h.hier) a a := by
  intro t
  exact Nat.lt_irrefl _ (hw.hier.rank_transGen t)

/-- "every node descends from the top" — full strength (the repaired code rejects entries
without parents, so no hypothesis on the history is needed beyond `WF`). -/
theorem rooted {norm : Id → Id} {h : H} (hw : WF norm h) {n : Id} {as : List Id}
    (ha : ancestors norm h n = .ok as) (hne : norm n ≠ h.top) : h.top ∈ as := by
  unfold ancestors at ha
  split at ha
  · rename_i hn; cases ha; exact hw.hier.rooted hn hne
  · cases ha

/-- end-to-end form: after ANY history, every node other than the top has the top among the
answer of `ancestors` -/
theorem history_rooted {norm : Id → Id} {top : Id} {raw : Option (List (Id × PSpec))}
    {dat : Option (List (Id × Dat))} {h0 : H} (hc : construct norm top raw dat = .ok h0)
    (cs : List Call) {n : Id} {as : List Id} (ha : ancestors norm (run norm h0 cs) n = .ok as)
    (hne : norm n ≠ norm top) : norm top ∈ as := by
  have hi := history_invariant hc cs
  rw [← hi.2]
  exact rooted hi.1 ha (by rw [hi.2]; exact hne)

/-- the top is a node and has no parents -/
theorem top_is_root {norm : Id → Id} {h : H} (hw : WF norm h) :
    h.top ∈ keys h.hier ∧ parentsOf h.hier h.top = [] :=
  ⟨hw.hier.top_mem, hw.hier.top_parents⟩

/-- "no node lists a parent that is already an ancestor of another of its parents", through the
queries: no member `p` of the answer of `parents(n)` is in the answer of `ancestors(q)` for another
(or the same) member `q` (idempotent normaliser: `ancestors` normalises the stored `q` again). -/
theorem no_redundant_parent {norm : Id → Id} {h : H} (hw : WF norm h) (hid : Idem norm)
    {n p q : Id} {ps as : List Id}
    (hps : parents norm h n = .ok ps) (hp : p ∈ ps) (hq : q ∈ ps)
    (ha : ancestors norm h q = .ok as) : p ∉ as := by
  unfold parents at hps
  split at hps
  · rename_i ps' hg
    cases hps
    have hp' : p ∈ parentsOf h.hier (norm n) := by unfold parentsOf; rw [hg]; exact hp
    have hq' : q ∈ parentsOf h.hier (norm n) := by unfold parentsOf; rw [hg]; exact hq
    have hfix : norm q = q := stored_fixed hw hid (hw.hier.parent_mem hq')
    unfold ancestors at ha
    split at ha
    · cases ha; rw [hfix]; exact hw.hier.nonredundant hp' hq'
    · cases ha
  · cases hps

/-- end-to-end form of the redundancy clause over any history -/
theorem history_no_redundant_parent {norm : Id → Id} (hid : Idem norm) {top : Id}
    {raw : Option (List (Id × PSpec))} {dat : Option (List (Id × Dat))} {h0 : H}
    (hc : construct norm top raw dat = .ok h0) (cs : List Call) {n p q : Id} {ps as : List Id}
    (hps : parents norm (run norm h0 cs) n = .ok ps) (hp : p ∈ ps) (hq : q ∈ ps)
    (ha : ancestors norm (run norm h0 cs) q = .ok as) : p ∉ as :=
  no_redundant_parent (history_invariant hc cs).1 hid hps hp hq ha

/-! ### subsumption and compatibility -/

/-- `subsumes a b` answers `True` -/
def Sub (norm : Id → Id) (h : H) (a b : Id) : Prop := subsumes norm h a b = .ok true

/-- subsumption is "equal or a proper ancestor" -/
theorem sub_iff {norm : Id → Id} {h : H} (hw : WF norm h) (hid : Idem norm) (a b : Id) :
    Sub norm h a b ↔ norm a = norm b ∨ TransGen (P h.hier) (norm b) (norm a) := by
  unfold Sub subsumes
  by_cases hab : norm a = norm b
  · simp [hab]
  · simp only [if_neg hab]
    rw [descendants_eq hw hid, hid a]
    by_cases hmem : norm a ∈ keys h.loer
    · simp only [if_pos hmem]
      constructor
      · intro hs
        right
        have : norm b ∈ descF h.hier.length h.loer (norm a) := by simpa using hs
        exact descF_sound hw.loer _ _ _ this
      · rintro (e | t)
        · exact absurd e hab
        · have := descF_complete hw.hier hw.loer t h.hier.length (Nat.le_add_right _ _)
          simp [this]
    · simp only [if_neg hmem]
      constructor
      · intro hs; cases hs
      · rintro (e | t)
        · exact absurd e hab
        · exfalso
          apply hmem
          have : norm a ∈ keys h.hier := by
            cases t with
            | single hp => exact hw.hier.parent_mem hp
            | tail _ hp => exact hw.hier.parent_mem hp
          exact (hw.loer.keys_iff _).2 this

/-- on nodes `subsumes` always answers (never raises) -/
theorem subsumes_total {norm : Id → Id} {h : H} (hw : WF norm h) (hid : Idem norm) {a : Id}
    (ha : contains norm h a = true) (b : Id) : ∃ r, subsumes norm h a b = .ok r := by
  unfold subsumes
  simp only
  split
  · exact ⟨true, rfl⟩
  · have : norm a ∈ keys h.loer := (hw.loer.keys_iff _).2 (by simpa [contains] using ha)
    rw [descendants_eq hw hid, hid a, if_pos this]
    exact ⟨_, rfl⟩

/-- "subsumption is a partial order" (1/3): reflexive -/
theorem sub_refl (norm : Id → Id) (h : H) (a : Id) : Sub norm h a a := by
  unfold Sub subsumes; simp

/-- "subsumption is a partial order" (2/3): antisymmetric (up to the normaliser) -/
theorem sub_antisymm {norm : Id → Id} {h : H} (hw : WF norm h) (hid : Idem norm) {a b : Id}
    (hab : Sub norm h a b) (hba : Sub norm h b a) : norm a = norm b := by
  rcases (sub_iff hw hid a b).1 hab with e | t1
  · exact e
  · rcases (sub_iff hw hid b a).1 hba with e | t2
    · exact e.symm
    · exact absurd (TransGen.trans t1 t2) (acyclic hw _)

/-- "subsumption is a partial order" (3/3): transitive -/
theorem sub_trans {norm : Id → Id} {h : H} (hw : WF norm h) (hid : Idem norm) {a b c : Id}
    (hab : Sub norm h a b) (hbc : Sub norm h b c) : Sub norm h a c := by
  rw [sub_iff hw hid] at *
  rcases hab with e1 | t1 <;> rcases hbc with e2 | t2
  · exact Or.inl (e1.trans e2)
  · rw [e1]; exact Or.inr t2
  · rw [← e2]; exact Or.inr t1
  · exact Or.inr (TransGen.trans t2 t1)

/-- "with the top as greatest element": the top (in any spelling `t`) subsumes every node -/
theorem top_greatest {norm : Id → Id} {h : H} (hw : WF norm h) (hid : Idem norm) {t b : Id}
    (ht : norm t = h.top) (hb : contains norm h b = true) : Sub norm h t b := by
  rw [sub_iff hw hid, ht]
  by_cases e : norm b = h.top
  · exact Or.inl e.symm
  · right
    have hb' : norm b ∈ keys h.hier := by simpa [contains] using hb
    exact (hw.hier.anc_iff_transGen _ _).1 (hw.hier.rooted hb' e)

/-- "compatibility is symmetric" — the two calls give the same answer, raising included
(no assumption on the hierarchy or the normaliser) -/
theorem compatible_comm (norm : Id → Id) (h : H) (a b : Id) :
    compatible norm h a b = compatible norm h b a := by
  unfold compatible descendants
  simp only
  by_cases ha : norm (norm a) ∈ keys h.loer <;> by_cases hb : norm (norm b) ∈ keys h.loer
  · simp only [if_pos ha, if_pos hb]; rw [any_mem_comm]
  · simp only [if_pos ha, if_neg hb]
  · simp only [if_neg ha, if_pos hb]
  · simp only [if_neg ha, if_neg hb]

/-- "[compatibility] equals having a common descendant-or-self" -/
theorem compatible_iff {norm : Id → Id} {h : H} (hw : WF norm h) (hid : Idem norm) {a b : Id}
    (ha : contains norm h a = true) (hb : contains norm h b = true) :
    compatible norm h a b = .ok true ↔
      ∃ c, (c = norm a ∨ TransGen (P h.hier) c (norm a)) ∧ (c = norm b ∨ TransGen (P h.hier) c (norm b)) := by
  have ha' : norm a ∈ keys h.loer := (hw.loer.keys_iff _).2 (by simpa [contains] using ha)
  have hb' : norm b ∈ keys h.loer := (hw.loer.keys_iff _).2 (by simpa [contains] using hb)
  have hd : ∀ x i, x ∈ descF h.hier.length h.loer i ↔ TransGen (P h.hier) x i := fun x i =>
    ⟨descF_sound hw.loer _ _ _, fun t => descF_complete hw.hier hw.loer t _ (Nat.le_add_right _ _)⟩
  unfold compatible
  simp only
  rw [descendants_eq hw hid, descendants_eq hw hid, hid a, hid b]
  simp only [if_pos ha', if_pos hb']
  constructor
  · intro hc
    have hc' := Except.ok.inj hc
    rw [List.any_eq_true] at hc'
    obtain ⟨c, hca, hcb⟩ := hc'
    simp only [decide_eq_true_eq, List.mem_cons] at hcb hca
    exact ⟨c, hca.imp id (hd _ _).1, hcb.imp id (hd _ _).1⟩
  · rintro ⟨c, hca, hcb⟩
    congr 1
    rw [List.any_eq_true]
    refine ⟨c, ?_, ?_⟩
    · simp only [List.mem_cons]; exact hca.imp id (hd _ _).2
    · simp only [decide_eq_true_eq, List.mem_cons]; exact hcb.imp id (hd _ _).2

/-! ### spelling invariance -/

/-- "with an identifier normalizer every query gives the same answer for all spellings the
normalizer identifies" — one query, two spellings of an argument, every query and both argument
positions.  (Immediate: every method of the model, as of the code, first normalises each argument.) -/
theorem norm_invariance {norm : Id → Id} (h : H) {a a' : Id} (e : norm a = norm a') :
    contains norm h a = contains norm h a' ∧ parents norm h a = parents norm h a' ∧
    children norm h a = children norm h a' ∧ ancestors norm h a = ancestors norm h a' ∧
    descendants norm h a = descendants norm h a' ∧ getItem norm h a = getItem norm h a' ∧
    (∀ b, subsumes norm h a b = subsumes norm h a' b) ∧ (∀ b, subsumes norm h b a = subsumes norm h b a') ∧
    (∀ b, compatible norm h a b = compatible norm h a' b) ∧
    (∀ b, compatible norm h b a = compatible norm h b a') := by
  have hd : descendants norm h a = descendants norm h a' := by
    unfold descendants
    rw [e]
    congr 2
    cases hl : h.hier.length with
    | zero => rfl
    | succ n => simp only [descN]; rw [e]
  unfold contains parents children ancestors getItem subsumes compatible contains
  rw [e]
  simp [hd]

/-- `update` sees a batch and its data only through their normalised spelling: two calls whose
entries agree after `_normalize_update` (identifier, split parent string or tuple, data key — all
through `norm`) give the same result, accepted or rejected.  This fails as soon as one of the
three were used un-normalised. -/
theorem update_respell {norm : Id → Id} (h : H) {raw raw' : Option (List (Id × PSpec))}
    {dat dat' : Option (List (Id × Dat))}
    (hr : (raw.getD []).map (entryKey norm) = (raw'.getD []).map (entryKey norm))
    (hd : (dat.getD []).map (datKey norm) = (dat'.getD []).map (datKey norm)) :
    update norm h raw dat = update norm h raw' dat' := by
  unfold update
  rw [normalizeSub_eq norm (raw.getD []), normalizeSub_eq norm (raw'.getD []),
    normalizeDat_eq norm (dat.getD []), normalizeDat_eq norm (dat'.getD []), hr, hd]

/-- two calls that differ only in spellings the normaliser identifies -/
inductive Respell (norm : Id → Id) : Call → Call → Prop
  | update {raw raw' : Option (List (Id × PSpec))} {dat dat' : Option (List (Id × Dat))} :
      (raw.getD []).map (entryKey norm) = (raw'.getD []).map (entryKey norm) →
      (dat.getD []).map (datKey norm) = (dat'.getD []).map (datKey norm) →
      Respell norm (.update raw dat) (.update raw' dat')
  | set {x x' : Id} {d : Dat} : norm x = norm x' → Respell norm (.set x d) (.set x' d)

/-- two histories that differ only in spellings -/
inductive RespellAll (norm : Id → Id) : List Call → List Call → Prop
  | nil : RespellAll norm [] []
  | cons {c c' : Call} {cs cs' : List Call} :
      Respell norm c c' → RespellAll norm cs cs' → RespellAll norm (c :: cs) (c' :: cs')

theorem step_respell {norm : Id → Id} (h : H) {c c' : Call} (hc : Respell norm c c') :
    step norm h c = step norm h c' := by
  cases hc with
  | update hr hd => simp only [step, applyCall]; rw [update_respell h hr hd]
  | set e => simp only [step, applyCall, setItem]; rw [e]

/-- "every query gives the same answer for all spellings the normalizer identifies", for whole
histories: constructor calls and call sequences that differ only in spellings the normaliser
identifies produce the SAME hierarchy state (hence the same answer to every query), whichever of
the calls are accepted or rejected. -/
theorem history_respell {norm : Id → Id} {top top' : Id} {raw raw' : Option (List (Id × PSpec))}
    {dat dat' : Option (List (Id × Dat))} (ht : norm top = norm top')
    (hr : raw.map (List.map (entryKey norm)) = raw'.map (List.map (entryKey norm)))
    (hd : (dat.getD []).map (datKey norm) = (dat'.getD []).map (datKey norm)) :
    construct norm top raw dat = construct norm top' raw' dat' ∧
    ∀ (h : H) (cs cs' : List Call), RespellAll norm cs cs' → run norm h cs = run norm h cs' := by
  constructor
  · unfold construct
    cases raw with
    | none =>
      cases raw' with
      | none => simp only; rw [ht]
      | some r' => simp at hr
    | some r =>
      cases raw' with
      | none => simp at hr
      | some r' =>
        simp only [Option.map_some, Option.some.injEq] at hr
        simp only
        rw [ht]
        exact update_respell _ (by simpa using hr) hd
  · intro h cs cs' hall
    induction hall generalizing h with
    | nil => rfl
    | cons hc _ ih =>
      unfold run at ih ⊢
      rw [List.foldl_cons, List.foldl_cons, step_respell h hc]
      exact ih _

/-! ### non-vacuity and regression witnesses (concrete, kernel-evaluated) -/

def errIs (e : Err) : Except Err H → Bool
  | .error e' => e == e'
  | .ok _ => false

def okIs {α : Type} [DecidableEq α] (v : α) : Except Err α → Bool
  | .ok x => decide (x = v)
  | .error _ => false

def okAnd (f : H → Bool) : Except Err H → Bool
  | .ok h => f h
  | .error _ => false

/-- `MultiHierarchy('t', {'a': 't', 'b': 'a'})` -/
def exBase : Except Err H :=
  construct id ['t'] (some [(['a'], .str ['t']), (['b'], .str ['a'])]) none

/-- the hypotheses of the theorems are satisfiable: a real multi-round, multi-parent history is accepted
(`c` needs `d`, which comes later in the batch) and answers as expected -/
example : okAnd (fun h => okAnd (fun h' =>
      len h' == 4 && iter h' == [['a'], ['b'], ['d'], ['c']]
        && okIs [['b'], ['d'], ['a'], ['t'], ['t']] (ancestors id h' ['c'])
        && okIs true (subsumes id h' ['a'] ['c']) && okIs true (compatible id h' ['b'] ['d']))
      (update id h (some [(['c'], .str ['b', ' ', 'd']), (['d'], .tup [['t']])]) none)) exBase = true := by
  decide

/-- F02 regression (fixed by b4c4601): an entry without parents is rejected, wherever it stands -/
theorem f02_empty_parents_rejected :
    okAnd (fun h => errIs .hierarchyError (update id h (some [(['x'], .str [])]) none)
      && errIs .hierarchyError (update id h (some [(['y'], .str ['a']), (['x'], .tup [])]) none)
      && errIs .hierarchyError (update id h (some [(['x'], .str [' ', '\t']), (['y'], .str ['a'])]) none)) exBase
      = true := by decide

/-- the documented rejections, each AFTER another entry of the batch was insertable (the F01 shape):
unknown parent, redundant parent, cycle, duplicate, data for an unknown node -/
theorem rejected_after_partial_insert :
    okAnd (fun h =>
      errIs .hierarchyError (update id h (some [(['x'], .str ['a']), (['c'], .str ['z', 'z'])]) none)
      && errIs .hierarchyError (update id h (some [(['x'], .str ['a']), (['c'], .str ['x', ' ', 'a'])]) none)
      && errIs .hierarchyError (update id h (some [(['x'], .str ['a']), (['c'], .str ['d']), (['d'], .str ['c'])]) none)
      && errIs .hierarchyError (update id h (some [(['x'], .str ['a']), (['b'], .str ['t'])]) none)
      && errIs .hierarchyError (update id h (some [(['x'], .str ['a'])]) (some [(['q'], 1)]))) exBase = true := by
  decide

/-- the normaliser identifies spellings: `TypeHierarchy('T', {'A': 't'})` knows `a` -/
example : okAnd (fun h => contains (fun s => s.map Char.toLower) h ['a'] && h.top == ['t'])
    (construct (fun s => s.map Char.toLower) ['T'] (some [(['A'], .str ['t'])]) none) = true := by decide

/-! ### pins: what the model mirrors, read from the live code on every run -/

/-- Constants, defaults and shape facts of the anchored code (`harness/c17.py: tables()`), compared
with literal copies.  A change to any of them stops this theorem from checking.

* `c17SplitWhitespace` — the code points < U+3001 on which `_normalize_update`'s `parents.split()`
  splits — is the model's `spaceCodes` (`isSpace`, `splitWs`).
* `c17MultiNormAscii` — `_norm` of a plain `MultiHierarchy` on ASCII — is the identity (driver: `id`);
  `c17TypeNormAscii` / `c17SemiNormAscii` — the normaliser of `tfs.TypeHierarchy` / `semi._new_hierarchy`
  on ASCII — is `lowerId`; `c17NormIdentity`: these normalisers ARE `_norm_id`, `str.lower`, `str.lower`.
* `c17Tops` — `.top` of `MultiHierarchy('ToP')`, `TypeHierarchy('ToP')`, `semi._new_hierarchy()` and
  `semi.TOP_TYPE`: the constructor stores `norm top` (`construct`, `H.new (norm top)`); the harness builds
  semi histories over `*top*`.
* `c17NewState` — `(_hier, _loer, _data)` of a fresh `MultiHierarchy('t')` — is `H.new`:
  the top with the empty parent tuple, the empty child set, no data.
* `c17Defaults` — `hierarchy/data/normalize_identifier = None` (`construct` with `raw = none` does not call
  `update`; `update` treats `None` as the empty batch / no data: `raw.getD []`).
* `c17Consts` — `__init__`: `()` (parents of the top); `__len__`: `1` (`len = hier.length - 1`);
  `compatible`: `0` (`len(intersection) > 0`, model: `List.any`); keyword names passed on by the wrappers.
* `c17Names` — the global/attribute names used by `_normalize_update` (`isinstance str split tuple map`:
  `specParents`, `.map norm`), `_get_eligible` (`all`: `isEligible`), `_validate_parentage`
  (`_ancestors … intersection`: `redundant`), `_ancestors` (`anc`), and the two wrappers (`str lower`). -/
theorem c17_pins :
    Verif.Tables.c17SplitWhitespace = spaceCodes ∧
    Verif.Tables.c17MultiNormAscii = (List.range 128).map (fun n => [n]) ∧
    Verif.Tables.c17TypeNormAscii = (List.range 128).map (fun n => (lowerId [Char.ofNat n]).map Char.toNat) ∧
    Verif.Tables.c17SemiNormAscii = (List.range 128).map (fun n => (lowerId [Char.ofNat n]).map Char.toNat) ∧
    Verif.Tables.c17NormIdentity = [true, true, true] ∧
    Verif.Tables.c17Tops = ["ToP", "top", "*top*", "*top*"] ∧
    Verif.Tables.c17NewState = "({'t': ()}, {'t': set()}, {})" ∧
    Verif.Tables.c17Defaults =
      ["__init__:(None, None, None):None", "update:(None, None):None", "validate_update:None:None",
       "_normalize_update:None:None", "_get_eligible:None:None", "_validate_parentage:None:None",
       "_ancestors:None:None", "__len__:None:None", "compatible:None:None", "subsumes:None:None",
       "TypeHierarchy.__init__:(None, None, None):None", "_new_hierarchy:None:None"] ∧
    Verif.Tables.c17Consts =
      ["__init__:()", "update:", "validate_update:", "_normalize_update:", "_get_eligible:",
       "_validate_parentage:", "_ancestors:", "__len__:1", "compatible:0", "subsumes:",
       "TypeHierarchy.__init__:('hierarchy', 'data', 'normalize_identifier')",
       "_new_hierarchy:('normalize_identifier',)"] ∧
    Verif.Tables.c17Names =
      ["_normalize_update:items isinstance str split tuple map",
       "_get_eligible:items all HierarchyError format join",
       "_validate_parentage:set update _ancestors intersection HierarchyError format join sorted",
       "_ancestors:set add update _ancestors",
       "TypeHierarchy.__init__:str lower super __init__",
       "_new_hierarchy:hierarchy MultiHierarchy TOP_TYPE str lower"] := by
  refine ⟨?_, ?_, ?_, ?_, ?_, ?_, ?_, ?_, ?_, ?_⟩ <;> decide

end Verif.C17
