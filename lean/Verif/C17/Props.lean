/-
C17 — property theorems: "Hierarchies stay rooted DAGs and failed updates change nothing".
Only property statements live here; helper lemmas are in Lemmas.lean.

Every theorem holds for an ARBITRARY identifier normaliser `norm` (no idempotence needed) and
for every hierarchy satisfying the invariant `WF`, which `history_invariant` establishes for the
result of every constructor call followed by any sequence of accepted and rejected calls.

Not a theorem, on purpose: "a rejected update leaves every query answer as before".  The model is
pure, so `step` returns the old state on `.error` by construction; that clause is carried by the
harness on the real code (full query set + state snapshot after every rejected call).
-/
import Verif.C17.Lemmas
import Verif.Generated.TablesC17

namespace Verif.C17
open Relation

/-- The invariant: `_hier` is an insertion-ordered rooted DAG without redundant parents
(`HierOK`) and `_loer` is its inverse (`LoerOK`). -/
structure WF (h : H) : Prop where
  hier : HierOK h.top h.hier
  loer : LoerOK h.hier h.loer

/-! ### the invariant holds after every history -/

theorem new_wf (top : Id) : WF (H.new top) := by
  refine ⟨HierOK.base, ⟨fun x => Iff.rfl, ?_⟩⟩
  intro p c
  simp only [H.new, childrenOf_cons, parentsOf_cons]
  constructor
  · intro h; split at h
    · cases h
    · simp [childrenOf, get?] at h
  · intro h; split at h
    · cases h
    · simp [parentsOf, get?] at h

/-- "[core] invariant WF preserved by every accepted update": whatever batch and data are passed,
in whatever spelling, an accepted `update` yields a well-formed hierarchy with the same top. -/
theorem update_wf {norm : Id → Id} {h h' : H} {raw : Option (List (Id × PSpec))}
    {dat : Option (List (Id × Dat))} (hw : WF h) (hu : update norm h raw dat = .ok h') :
    WF h' ∧ h'.top = h.top := by
  unfold update at hu
  simp only at hu
  split at hu
  · cases hu
  · rename_i hdup
    split at hu
    · cases hu
    · rename_i hemp
      split at hu
      · cases hu
      · split at hu
        · cases hu
        · rename_i st hst
          cases hu
          have hall : ∀ e ∈ normalizeSub norm (raw.getD []), e.1 ∉ keys (h.hier, h.loer).1 ∧ e.2 ≠ [] := by
            intro e he
            simp only [Bool.not_eq_true] at hdup hemp
            rw [List.any_eq_false] at hdup hemp
            refine ⟨by simpa using hdup e he, ?_⟩
            intro hnil
            exact hemp e he (by simp [hnil])
          have := loop_wf (top := h.top) _ _ (h.hier, h.loer) st ⟨hw.hier, hw.loer⟩
            (normalizeSub_nodup norm _) hall hst
          exact ⟨⟨this.1, this.2⟩, rfl⟩

/-- the fuel of the `while` loop (the batch size) always suffices -/
theorem update_ne_fuel (norm : Id → Id) (h : H) (raw : Option (List (Id × PSpec)))
    (dat : Option (List (Id × Dat))) : update norm h raw dat ≠ .error .fuel := by
  unfold update
  simp only
  split
  · simp
  · split
    · simp
    · split
      · simp
      · split
        · rename_i x hx
          intro e; cases e
          exact loop_ne_fuel _ _ _ (Nat.le_refl _) hx
        · simp

theorem setItem_wf {norm : Id → Id} {h h' : H} {x : Id} {d : Dat} (hw : WF h)
    (hs : setItem norm h x d = .ok h') : WF h' ∧ h'.top = h.top := by
  unfold setItem at hs
  split at hs
  · cases hs; exact ⟨⟨hw.hier, hw.loer⟩, rfl⟩
  · cases hs

theorem construct_wf {norm : Id → Id} {top : Id} {raw : Option (List (Id × PSpec))}
    {dat : Option (List (Id × Dat))} {h : H} (hc : construct norm top raw dat = .ok h) :
    WF h ∧ h.top = norm top := by
  unfold construct at hc
  split at hc
  · cases hc; exact ⟨new_wf _, rfl⟩
  · exact update_wf (new_wf _) hc

theorem step_wf {norm : Id → Id} {h : H} (c : Call) (hw : WF h) :
    WF (step norm h c) ∧ (step norm h c).top = h.top := by
  unfold step
  split
  · rename_i h' hc
    cases c with
    | update r d => exact update_wf hw hc
    | set x d => exact setItem_wf hw hc
  · exact ⟨hw, rfl⟩

/-- "After any sequence of accepted and rejected updates a hierarchy is a rooted acyclic graph":
the invariant holds after the constructor (with any initial batch it accepts) followed by ANY list
of `update` / `__setitem__` calls, valid or invalid; and the top never changes. -/
theorem history_invariant {norm : Id → Id} {top : Id} {raw : Option (List (Id × PSpec))}
    {dat : Option (List (Id × Dat))} {h0 : H} (hc : construct norm top raw dat = .ok h0)
    (cs : List Call) : WF (run norm h0 cs) ∧ (run norm h0 cs).top = norm top := by
  have gen : ∀ (cs : List Call) (h : H), WF h → WF (run norm h cs) ∧ (run norm h cs).top = h.top := by
    intro cs
    induction cs with
    | nil => intro h hw; exact ⟨hw, rfl⟩
    | cons c cs ih =>
      intro h hw
      have hs := step_wf (norm := norm) c hw
      have := ih _ hs.1
      exact ⟨this.1, this.2.trans hs.2⟩
  have h0w := construct_wf hc
  have := gen cs h0 h0w.1
  exact ⟨this.1, this.2.trans h0w.2⟩

/-! ### what the invariant says about the queries -/

/-- "parents and children are mutual inverses": `c` is among the children of `p` iff `p` is
among the parents of `c` (any spellings). -/
theorem children_parents_inverse {norm : Id → Id} {h : H} (hw : WF h) (p c : Id) :
    (∃ cs, children norm h p = .ok cs ∧ norm c ∈ cs) ↔ (∃ ps, parents norm h c = .ok ps ∧ norm p ∈ ps) := by
  have key := hw.loer.inv (norm p) (norm c)
  unfold childrenOf parentsOf at key
  unfold children parents
  constructor
  · rintro ⟨cs, hcs, hc⟩
    split at hcs
    · rename_i cs' hg
      cases hcs
      rw [hg] at key
      have := key.1 hc
      cases hg2 : get? h.hier (norm c) with
      | none => rw [hg2] at this; cases this
      | some ps => rw [hg2] at this; exact ⟨ps, rfl, this⟩
    · cases hcs
  · rintro ⟨ps, hps, hp⟩
    split at hps
    · rename_i ps' hg
      cases hps
      rw [hg] at key
      have := key.2 hp
      cases hg2 : get? h.loer (norm p) with
      | none => rw [hg2] at this; cases this
      | some cs => rw [hg2] at this; exact ⟨cs, rfl, this⟩
    · cases hps

/-- every listed parent and every listed child is a node, and both maps have the same keys -/
theorem parents_children_closed {h : H} (hw : WF h) :
    (∀ x y, y ∈ parentsOf h.hier x → y ∈ keys h.hier) ∧
    (∀ x y, y ∈ childrenOf h.loer x → y ∈ keys h.loer) ∧
    (∀ x, x ∈ keys h.loer ↔ x ∈ keys h.hier) := by
  refine ⟨fun x y hy => hw.hier.parent_mem hy, ?_, hw.loer.keys_iff⟩
  intro x y hy
  exact (hw.loer.keys_iff y).2 (mem_keys_of_parentsOf ((hw.loer.inv x y).1 hy))

/-- "ancestors [is the] transitive closure [of parents]" -/
theorem ancestors_closure {norm : Id → Id} {h : H} (hw : WF h) {a : Id} {as : List Id}
    (ha : ancestors norm h a = .ok as) (b : Id) : b ∈ as ↔ TransGen (P h.hier) (norm a) b := by
  unfold ancestors at ha
  split at ha
  · cases ha; exact hw.hier.anc_iff_transGen _ _
  · cases ha

/-- "descendants [is the] transitive closure [of children]", i.e. the inverse of ancestors -/
theorem descendants_closure {norm : Id → Id} {h : H} (hw : WF h) {a : Id} {ds : List Id}
    (ha : descendants norm h a = .ok ds) (x : Id) : x ∈ ds ↔ TransGen (P h.hier) x (norm a) := by
  unfold descendants desc at ha
  split at ha
  · cases ha
    constructor
    · exact descF_sound hw.loer _ _ _
    · intro t; exact descF_complete hw.hier hw.loer t _ (Nat.le_add_right _ _)
  · cases ha

/-- descendants and ancestors are mutually inverse at the level of the queries -/
theorem descendants_ancestors_inverse {norm : Id → Id} {h : H} (hw : WF h) {a b : Id} {ds as : List Id}
    (hd : descendants norm h a = .ok ds) (ha : ancestors norm h b = .ok as) :
    norm b ∈ ds ↔ norm a ∈ as := by
  rw [descendants_closure hw hd, ancestors_closure hw ha]

/-- "acyclic": no node is its own ancestor -/
theorem acyclic {h : H} (hw : WF h) (a : Id) : ¬ TransGen (P h.hier) a a := by
  intro t
  exact Nat.lt_irrefl _ (hw.hier.rank_transGen t)

/-- "every node descends from the top" — full strength (the repaired code rejects entries
without parents, so no hypothesis on the history is needed beyond `WF`). -/
theorem rooted {norm : Id → Id} {h : H} (hw : WF h) {n : Id} {as : List Id}
    (ha : ancestors norm h n = .ok as) (hne : norm n ≠ h.top) : h.top ∈ as := by
  unfold ancestors at ha
  split at ha
  · rename_i hn; cases ha; exact hw.hier.rooted hn hne
  · cases ha

/-- end-to-end form: after ANY history, every node other than the top has the top among the
answer of `ancestors` -/
theorem history_rooted {norm : Id → Id} {top : Id} {raw : Option (List (Id × PSpec))}
    {dat : Option (List (Id × Dat))} {h0 : H} (hc : construct norm top raw dat = .ok h0)
    (cs : List Call) {n : Id} {as : List Id} (ha : ancestors norm (run norm h0 cs) n = .ok as)
    (hne : norm n ≠ norm top) : norm top ∈ as := by
  have hi := history_invariant hc cs
  rw [← hi.2]
  exact rooted hi.1 ha (by rw [hi.2]; exact hne)

/-- the top is a node and has no parents -/
theorem top_is_root {h : H} (hw : WF h) : h.top ∈ keys h.hier ∧ parentsOf h.hier h.top = [] :=
  ⟨hw.hier.top_mem, hw.hier.top_parents⟩

/-- "no node lists a parent that is already an ancestor of another of its parents"
(`anc h.hier q` is what `ancestors` answers for the stored identifier `q`, see the corollary). -/
theorem no_redundant_parent {norm : Id → Id} {h : H} (hw : WF h) {n p q : Id} {ps : List Id}
    (hps : parents norm h n = .ok ps) (hp : p ∈ ps) (hq : q ∈ ps) : p ∉ anc h.hier q := by
  unfold parents at hps
  split at hps
  · rename_i ps' hg
    cases hps
    have hp' : p ∈ parentsOf h.hier (norm n) := by unfold parentsOf; rw [hg]; exact hp
    have hq' : q ∈ parentsOf h.hier (norm n) := by unfold parentsOf; rw [hg]; exact hq
    exact hw.hier.nonredundant hp' hq'
  · cases hps

/-- the same through the `ancestors` query, for a stored parent `q` that the normaliser fixes
(every stored identifier is one when `norm` is idempotent, as `str.lower` is) -/
theorem no_redundant_parent_query {norm : Id → Id} {h : H} (hw : WF h) {n p q : Id} {ps as : List Id}
    (hps : parents norm h n = .ok ps) (hp : p ∈ ps) (hq : q ∈ ps) (hfix : norm q = q)
    (ha : ancestors norm h q = .ok as) : p ∉ as := by
  unfold ancestors at ha
  split at ha
  · cases ha; rw [hfix]; exact no_redundant_parent hw hps hp hq
  · cases ha

/-! ### subsumption and compatibility -/

/-- `subsumes a b` answers `True` -/
def Sub (norm : Id → Id) (h : H) (a b : Id) : Prop := subsumes norm h a b = .ok true

/-- subsumption is "equal or a proper ancestor" -/
theorem sub_iff {norm : Id → Id} {h : H} (hw : WF h) (a b : Id) :
    Sub norm h a b ↔ norm a = norm b ∨ TransGen (P h.hier) (norm b) (norm a) := by
  unfold Sub subsumes
  by_cases hab : norm a = norm b
  · simp [hab]
  · rw [if_neg hab]
    unfold desc
    constructor
    · intro hs
      right
      split at hs
      · rename_i ds hd
        split at hd
        · cases hd
          have : norm b ∈ descF h.hier.length h.loer (norm a) := by simpa using hs
          exact descF_sound hw.loer _ _ _ this
        · cases hd
      · cases hs
    · rintro (e | t)
      · exact absurd e hab
      · have hmem : norm a ∈ keys h.loer := by
          have : norm a ∈ keys h.hier := by
            cases t with
            | single hp => exact hw.hier.parent_mem hp
            | tail _ hp => exact hw.hier.parent_mem hp
          exact (hw.loer.keys_iff _).2 this
        rw [if_pos hmem]
        have := descF_complete hw.hier hw.loer t h.hier.length (Nat.le_add_right _ _)
        simp [this]

/-- on nodes `subsumes` always answers (never raises) -/
theorem subsumes_total {norm : Id → Id} {h : H} (hw : WF h) {a : Id} (ha : contains norm h a = true) (b : Id) :
    ∃ r, subsumes norm h a b = .ok r := by
  unfold subsumes
  split
  · exact ⟨true, rfl⟩
  · unfold desc
    have : norm a ∈ keys h.loer := (hw.loer.keys_iff _).2 (by simpa [contains] using ha)
    rw [if_pos this]
    exact ⟨_, rfl⟩

/-- "subsumption is a partial order" (1/3): reflexive -/
theorem sub_refl (norm : Id → Id) (h : H) (a : Id) : Sub norm h a a := by
  unfold Sub subsumes; rw [if_pos rfl]

/-- "subsumption is a partial order" (2/3): antisymmetric (up to the normaliser) -/
theorem sub_antisymm {norm : Id → Id} {h : H} (hw : WF h) {a b : Id}
    (hab : Sub norm h a b) (hba : Sub norm h b a) : norm a = norm b := by
  rcases (sub_iff hw a b).1 hab with e | t1
  · exact e
  · rcases (sub_iff hw b a).1 hba with e | t2
    · exact e.symm
    · exact absurd (TransGen.trans t1 t2) (acyclic hw _)

/-- "subsumption is a partial order" (3/3): transitive -/
theorem sub_trans {norm : Id → Id} {h : H} (hw : WF h) {a b c : Id}
    (hab : Sub norm h a b) (hbc : Sub norm h b c) : Sub norm h a c := by
  rw [sub_iff hw] at *
  rcases hab with e1 | t1 <;> rcases hbc with e2 | t2
  · exact Or.inl (e1.trans e2)
  · rw [e1]; exact Or.inr t2
  · rw [← e2]; exact Or.inr t1
  · exact Or.inr (TransGen.trans t2 t1)

/-- "with the top as greatest element": the top (in any spelling `t`) subsumes every node -/
theorem top_greatest {norm : Id → Id} {h : H} (hw : WF h) {t b : Id} (ht : norm t = h.top)
    (hb : contains norm h b = true) : Sub norm h t b := by
  rw [sub_iff hw, ht]
  by_cases e : norm b = h.top
  · exact Or.inl e.symm
  · right
    have hb' : norm b ∈ keys h.hier := by simpa [contains] using hb
    exact (hw.hier.anc_iff_transGen _ _).1 (hw.hier.rooted hb' e)

/-- "compatibility is symmetric" — the two calls give the same answer, raising included -/
theorem compatible_comm (norm : Id → Id) (h : H) (a b : Id) :
    compatible norm h a b = compatible norm h b a := by
  unfold compatible desc
  by_cases ha : norm a ∈ keys h.loer <;> by_cases hb : norm b ∈ keys h.loer
  · simp only [if_pos ha, if_pos hb]; rw [any_mem_comm]
  · simp only [if_pos ha, if_neg hb]
  · simp only [if_neg ha, if_pos hb]
  · simp only [if_neg ha, if_neg hb]

/-- "[compatibility] equals having a common descendant-or-self" -/
theorem compatible_iff {norm : Id → Id} {h : H} (hw : WF h) {a b : Id}
    (ha : contains norm h a = true) (hb : contains norm h b = true) :
    compatible norm h a b = .ok true ↔
      ∃ c, (c = norm a ∨ TransGen (P h.hier) c (norm a)) ∧ (c = norm b ∨ TransGen (P h.hier) c (norm b)) := by
  have ha' : norm a ∈ keys h.loer := (hw.loer.keys_iff _).2 (by simpa [contains] using ha)
  have hb' : norm b ∈ keys h.loer := (hw.loer.keys_iff _).2 (by simpa [contains] using hb)
  have hd : ∀ x i, x ∈ descF h.hier.length h.loer i ↔ TransGen (P h.hier) x i := fun x i =>
    ⟨descF_sound hw.loer _ _ _, fun t => descF_complete hw.hier hw.loer t _ (Nat.le_add_right _ _)⟩
  unfold compatible desc
  simp only [if_pos ha', if_pos hb']
  constructor
  · intro hc
    have hc' := Except.ok.inj hc
    rw [List.any_eq_true] at hc'
    obtain ⟨c, hca, hcb⟩ := hc'
    simp only [decide_eq_true_eq, List.mem_cons] at hcb hca
    exact ⟨c, hca.imp id (hd _ _).1, hcb.imp id (hd _ _).1⟩
  · rintro ⟨c, hca, hcb⟩
    congr 1
    rw [List.any_eq_true]
    refine ⟨c, ?_, ?_⟩
    · simp only [List.mem_cons]; exact hca.imp id (hd _ _).2
    · simp only [decide_eq_true_eq, List.mem_cons]; exact hcb.imp id (hd _ _).2

/-! ### spelling invariance -/

/-- "with an identifier normalizer every query gives the same answer for all spellings the
normalizer identifies" — every query, both argument positions. -/
theorem norm_invariance {norm : Id → Id} (h : H) {a a' : Id} (e : norm a = norm a') :
    contains norm h a = contains norm h a' ∧ parents norm h a = parents norm h a' ∧
    children norm h a = children norm h a' ∧ ancestors norm h a = ancestors norm h a' ∧
    descendants norm h a = descendants norm h a' ∧ getItem norm h a = getItem norm h a' ∧
    (∀ b, subsumes norm h a b = subsumes norm h a' b) ∧ (∀ b, subsumes norm h b a = subsumes norm h b a') ∧
    (∀ b, compatible norm h a b = compatible norm h a' b) ∧
    (∀ b, compatible norm h b a = compatible norm h b a') := by
  unfold contains parents children ancestors descendants getItem subsumes compatible
  rw [e]
  simp

/-! ### non-vacuity and regression witnesses (concrete, kernel-evaluated) -/

def errIs (e : Err) : Except Err H → Bool
  | .error e' => e == e'
  | .ok _ => false

def okIs {α : Type} [DecidableEq α] (v : α) : Except Err α → Bool
  | .ok x => decide (x = v)
  | .error _ => false

def okAnd (f : H → Bool) : Except Err H → Bool
  | .ok h => f h
  | .error _ => false

/-- `MultiHierarchy('t', {'a': 't', 'b': 'a'})` -/
def exBase : Except Err H :=
  construct id ['t'] (some [(['a'], .str ['t']), (['b'], .str ['a'])]) none

/-- the hypotheses of the theorems are satisfiable: a real multi-round, multi-parent history is accepted
(`c` needs `d`, which comes later in the batch) and answers as expected -/
example : okAnd (fun h => okAnd (fun h' =>
      len h' == 4 && iter h' == [['a'], ['b'], ['d'], ['c']]
        && okIs [['b'], ['d'], ['a'], ['t'], ['t']] (ancestors id h' ['c'])
        && okIs true (subsumes id h' ['a'] ['c']) && okIs true (compatible id h' ['b'] ['d']))
      (update id h (some [(['c'], .str ['b', ' ', 'd']), (['d'], .tup [['t']])]) none)) exBase = true := by
  decide

/-- F02 regression (fixed by b4c4601): an entry without parents is rejected, wherever it stands -/
theorem f02_empty_parents_rejected :
    okAnd (fun h => errIs .hierarchyError (update id h (some [(['x'], .str [])]) none)
      && errIs .hierarchyError (update id h (some [(['y'], .str ['a']), (['x'], .tup [])]) none)
      && errIs .hierarchyError (update id h (some [(['x'], .str [' ', '\t']), (['y'], .str ['a'])]) none)) exBase
      = true := by decide

/-- the documented rejections, each AFTER another entry of the batch was insertable (the F01 shape):
unknown parent, redundant parent, cycle, duplicate, data for an unknown node -/
theorem rejected_after_partial_insert :
    okAnd (fun h =>
      errIs .hierarchyError (update id h (some [(['x'], .str ['a']), (['c'], .str ['z', 'z'])]) none)
      && errIs .hierarchyError (update id h (some [(['x'], .str ['a']), (['c'], .str ['x', ' ', 'a'])]) none)
      && errIs .hierarchyError (update id h (some [(['x'], .str ['a']), (['c'], .str ['d']), (['d'], .str ['c'])]) none)
      && errIs .hierarchyError (update id h (some [(['x'], .str ['a']), (['b'], .str ['t'])]) none)
      && errIs .hierarchyError (update id h (some [(['x'], .str ['a'])]) (some [(['q'], 1)]))) exBase = true := by
  decide

/-- the normaliser identifies spellings: `TypeHierarchy('T', {'A': 't'})` knows `a` -/
example : okAnd (fun h => contains (fun s => s.map Char.toLower) h ['a'] && h.top == ['t'])
    (construct (fun s => s.map Char.toLower) ['T'] (some [(['A'], .str ['t'])]) none) = true := by decide

/-! ### pins: what the model mirrors, read from the live code on every run -/

/-- Constants, defaults and shape facts of the anchored code (`harness/c17.py: tables()`), compared
with literal copies.  A change to any of them stops this theorem from checking.

* `c17SplitWhitespace` — the code points < U+3001 on which `_normalize_update`'s `parents.split()`
  splits — is the model's `spaceCodes` (`isSpace`, `splitWs`).
* `c17MultiNormAscii` — `_norm` of a plain `MultiHierarchy` on ASCII — is the identity (driver: `id`);
  `c17TypeNormAscii` / `c17SemiNormAscii` — the normaliser of `tfs.TypeHierarchy` / `semi._new_hierarchy`
  on ASCII — is `lowerId`; `c17NormIdentity`: these normalisers ARE `_norm_id`, `str.lower`, `str.lower`.
* `c17Tops` — `.top` of `MultiHierarchy('ToP')`, `TypeHierarchy('ToP')`, `semi._new_hierarchy()` and
  `semi.TOP_TYPE`: the constructor stores `norm top` (`construct`, `H.new (norm top)`); the harness builds
  semi histories over `*top*`.
* `c17NewState` — `(_hier, _loer, _data)` of a fresh `MultiHierarchy('t')` — is `H.new`:
  the top with the empty parent tuple, the empty child set, no data.
* `c17Defaults` — `hierarchy/data/normalize_identifier = None` (`construct` with `raw = none` does not call
  `update`; `update` treats `None` as the empty batch / no data: `raw.getD []`).
* `c17Consts` — `__init__`: `()` (parents of the top); `__len__`: `1` (`len = hier.length - 1`);
  `compatible`: `0` (`len(intersection) > 0`, model: `List.any`); keyword names passed on by the wrappers.
* `c17Names` — the global/attribute names used by `_normalize_update` (`isinstance str split tuple map`:
  `specParents`, `.map norm`), `_get_eligible` (`all`: `isEligible`), `_validate_parentage`
  (`_ancestors … intersection`: `redundant`), `_ancestors` (`anc`), and the two wrappers (`str lower`). -/
theorem c17_pins :
    Verif.Tables.c17SplitWhitespace = spaceCodes ∧
    Verif.Tables.c17MultiNormAscii = (List.range 128).map (fun n => [n]) ∧
    Verif.Tables.c17TypeNormAscii = (List.range 128).map (fun n => (lowerId [Char.ofNat n]).map Char.toNat) ∧
    Verif.Tables.c17SemiNormAscii = (List.range 128).map (fun n => (lowerId [Char.ofNat n]).map Char.toNat) ∧
    Verif.Tables.c17NormIdentity = [true, true, true] ∧
    Verif.Tables.c17Tops = ["ToP", "top", "*top*", "*top*"] ∧
    Verif.Tables.c17NewState = "({'t': ()}, {'t': set()}, {})" ∧
    Verif.Tables.c17Defaults =
      ["__init__:(None, None, None):None", "update:(None, None):None", "validate_update:None:None",
       "_normalize_update:None:None", "_get_eligible:None:None", "_validate_parentage:None:None",
       "_ancestors:None:None", "__len__:None:None", "compatible:None:None", "subsumes:None:None",
       "TypeHierarchy.__init__:(None, None, None):None", "_new_hierarchy:None:None"] ∧
    Verif.Tables.c17Consts =
      ["__init__:()", "update:", "validate_update:", "_normalize_update:", "_get_eligible:",
       "_validate_parentage:", "_ancestors:", "__len__:1", "compatible:0", "subsumes:",
       "TypeHierarchy.__init__:('hierarchy', 'data', 'normalize_identifier')",
       "_new_hierarchy:('normalize_identifier',)"] ∧
    Verif.Tables.c17Names =
      ["_normalize_update:items isinstance str split tuple map",
       "_get_eligible:items all HierarchyError format join",
       "_validate_parentage:set update _ancestors intersection HierarchyError format join sorted",
       "_ancestors:set add update _ancestors",
       "TypeHierarchy.__init__:str lower super __init__",
       "_new_hierarchy:hierarchy MultiHierarchy TOP_TYPE str lower"] := by
  refine ⟨?_, ?_, ?_, ?_, ?_, ?_, ?_, ?_, ?_, ?_⟩ <;> decide

end Verif.C17
