/-
C17 — SOURCE-TRANSLATION tie, round 4 (TRANSLATOR.md): `hierarchy._ancestors` (recursion + sets, explicit fuel) and
`hierarchy._validate_parentage`.  `Verif/Generated/TransC17.lean` is regenerated from the current source text on every
run.  Hypotheses, all explicit:
  * `HierOK top hier` — the structural invariant of `_hier` that `Lemmas.step_preserves`/`history_invariant` give for
    every reachable state (oldest entry the parentless top; every later key new, with a non-empty tuple of parents all
    inserted before it; hence acyclic, keys distinct, every listed parent a key);
  * `d` is ANY association list with the look-ups of `hier` (`∀ x, d.lookup x = get? hier x`): the model keeps `_hier`
    newest first, the Python dict is oldest first (`ancestors_translated_pyorder` instantiates `d := hier.reverse`);
  * fuel ≥ number of keys + 1 (`hier.length < fuel`).
The Python side builds SETS: the results are duplicate-free lists with exactly the elements of the model's `anc`
(a list with repetitions).  No order-sensitive iteration occurs (parents are tuples), so no `ord`.
-/
import Verif.Generated.TransC17
import Verif.C17.Lemmas2
import Verif.Common.PyRtLemmas

namespace Verif.C17
open Verif.PyRt

theorem lookup_eq_get? {β : Type} (d : AL β) (x : Id) : List.lookup x d = get? d x := by
  induction d with
  | nil => rfl
  | cons e d ih =>
    obtain ⟨k, v⟩ := e
    rw [get?_cons]
    by_cases h : x = k
    · subst h; simp [List.lookup]
    · have hb : (x == k) = false := by simpa using h
      simp only [List.lookup, hb, h, if_false]
      exact ih

/-- `d` has the look-ups of `hier`. -/
def SameLookups (d hier : AL (List Id)) : Prop := ∀ x, List.lookup x d = get? hier x

theorem getItem_of_get? {d hier : AL (List Id)} (hd : SameLookups d hier) {x : Id} {ps : List Id}
    (h : get? hier x = some ps) : pyDictGetItem d x = .ok ps := by
  unfold pyDictGetItem; rw [hd x, h]

/-- the translated call answers a duplicate-free list with the elements of `S`. -/
def Good (d : AL (List Id)) (fuel : Nat) (x : Id) (S : List Id) : Prop :=
  ∃ r, Verif.Trans.C17.ancestors fuel x d = .ok r ∧ r.Nodup ∧ ∀ y, y ∈ r ↔ y ∈ S

/-- body of `for parent in hier[id]:` -/
def ancBody (f : Nat) (d : AL (List Id)) (p : Id) (xs : List Id) : Except PyErr (ForInStep (List Id)) := do
  let t ← Verif.Trans.C17.ancestors f p d
  pure (.yield (pySetUpdate (pySetAdd xs p) t))

theorem ancestors_succ (f : Nat) (x : Id) (d : AL (List Id)) :
    Verif.Trans.C17.ancestors (f + 1) x d
      = (pyDictGetItem d x >>= fun t => forIn t ([] : List Id) (ancBody f d) >>= fun r => pure r) := by
  rw [Verif.Trans.C17.ancestors]
  rfl

theorem anc_loop (d : AL (List Id)) (f : Nat) (A : Id → List Id) : ∀ (ps xs : List Id), xs.Nodup →
    (∀ p ∈ ps, Good d f p (A p)) →
    ∃ r, forIn ps xs (ancBody f d) = .ok r ∧ r.Nodup ∧
      ∀ y, y ∈ r ↔ (y ∈ xs ∨ y ∈ ps ∨ ∃ p ∈ ps, y ∈ A p) := by
  intro ps
  induction ps with
  | nil => intro xs hn _; exact ⟨xs, rfl, hn, by simp⟩
  | cons p ps ih =>
    intro xs hn hg
    obtain ⟨rp, hp, _, hm⟩ := hg p List.mem_cons_self
    have hn1 : (pySetUpdate (pySetAdd xs p) rp).Nodup := pySetUpdate_nodup _ _ (pySetAdd_nodup _ _ hn)
    obtain ⟨r, hr, hrn, hrm⟩ := ih _ hn1 (fun q hq => hg q (List.mem_cons_of_mem _ hq))
    refine ⟨r, ?_, hrn, ?_⟩
    · rw [List.forIn_cons]
      simp only [ancBody, hp]
      exact hr
    · intro y
      rw [hrm y, pySetUpdate_mem, pySetAdd_mem, hm y]
      simp only [List.mem_cons, exists_eq_or_imp]
      constructor
      · rintro (((h | h) | h) | h | h)
        · exact Or.inl h
        · exact Or.inr (Or.inl (Or.inl h))
        · exact Or.inr (Or.inr (Or.inl h))
        · exact Or.inr (Or.inl (Or.inr h))
        · exact Or.inr (Or.inr (Or.inr h))
      · rintro (h | (h | h) | h | h)
        · exact Or.inl (Or.inl (Or.inl h))
        · exact Or.inl (Or.inl (Or.inr h))
        · exact Or.inr (Or.inl h)
        · exact Or.inl (Or.inr h)
        · exact Or.inr (Or.inr h)

theorem HierOK.tail {top : Id} {e : Id × List Id} {l : AL (List Id)} (h : HierOK top (e :: l)) (hl : l ≠ []) :
    HierOK top l := by
  cases h with
  | base => exact absurd rfl hl
  | step h' _ _ _ _ => exact h'

theorem HierOK.suffix {top : Id} : ∀ (pre rest : AL (List Id)), HierOK top (pre ++ rest) → rest ≠ [] → HierOK top rest := by
  intro pre
  induction pre with
  | nil => intro rest h _; exact h
  | cons e pre ih =>
    intro rest h hr
    exact ih rest (HierOK.tail h (by simp [hr])) hr

/-- look-ups of keys of a suffix. -/
theorem get?_suffix {hier pre rest : AL (List Id)} (hn : (keys hier).Nodup) (he : hier = pre ++ rest) {x : Id}
    (hx : x ∈ keys rest) : get? hier x = get? rest x := by
  subst he
  rw [keys_append, List.nodup_append] at hn
  have : x ∉ keys pre := fun h => hn.2.2 x h x hx rfl
  rw [get?_append, get?_eq_none this]
  rfl

/-- the recursion of the source follows the recursion of the model over the insertion order. -/
theorem anc_suffix {top : Id} {hier d : AL (List Id)} (hH : HierOK top hier) (hd : SameLookups d hier) :
    ∀ (rest : AL (List Id)), HierOK top rest → ∀ pre, hier = pre ++ rest →
      ∀ x ∈ keys rest, ∀ fuel, rest.length < fuel → Good d fuel x (anc rest x) := by
  intro rest hr
  induction hr with
  | base =>
    intro pre he x hx fuel hf
    have hxt : x = top := by simpa [keys] using hx
    subst hxt
    obtain ⟨f, rfl⟩ : ∃ f, fuel = f + 1 := ⟨fuel - 1, by omega⟩
    have hg : get? hier x = some [] := by
      rw [get?_suffix hH.nodup he hx]; simp [get?]
    refine ⟨[], ?_, List.nodup_nil, ?_⟩
    · rw [ancestors_succ, getItem_of_get? hd hg]; rfl
    · intro y; simp [anc]
  | @step k ps rest' h' hk hne hps hred ih =>
    intro pre he x hx fuel hf
    obtain ⟨f, rfl⟩ : ∃ f, fuel = f + 1 := ⟨fuel - 1, by omega⟩
    simp only [List.length_cons] at hf
    by_cases hxk : x = k
    · subst hxk
      have hg : get? hier x = some ps := by
        rw [get?_suffix hH.nodup he hx, get?_cons, if_pos rfl]
      have hrec : ∀ p ∈ ps, Good d f p (anc rest' p) := fun p hp =>
        ih (pre ++ [(x, ps)]) (by rw [he]; simp) p (hps p hp) f (by omega)
      obtain ⟨r, hr, hrn, hrm⟩ := anc_loop d f (anc rest') ps [] List.nodup_nil hrec
      refine ⟨r, ?_, hrn, ?_⟩
      · rw [ancestors_succ, getItem_of_get? hd hg]
        show (forIn ps ([] : List Id) (ancBody f d) >>= fun r => pure r) = _
        rw [hr]; rfl
      · intro y
        rw [hrm y, anc_cons, if_pos rfl]
        simp [List.mem_flatMap]
    · have hx' : x ∈ keys rest' := by
        rw [keys_cons] at hx
        rcases List.mem_cons.1 hx with h | h
        · exact absurd h hxk
        · exact h
      have := ih (pre ++ [(k, ps)]) (by rw [he]; simp) x hx' (f + 1) (by omega)
      rw [anc_cons, if_neg hxk]
      exact this

/-- `hierarchy._ancestors(id, hier)` (source): for a well-formed `hier`, any dict `d` with its look-ups, an identifier of
the hierarchy and fuel above the number of keys, the answer is a set with exactly the elements of the model's `anc`. -/
theorem ancestors_translated {top : Id} {hier d : AL (List Id)} (hH : HierOK top hier) (hd : SameLookups d hier)
    (x : Id) (hx : x ∈ keys hier) (fuel : Nat) (hf : hier.length < fuel) :
    ∃ r, Verif.Trans.C17.ancestors fuel x d = .ok r ∧ r.Nodup ∧ ∀ y, y ∈ r ↔ y ∈ anc hier x :=
  anc_suffix hH hd hier hH [] rfl x hx fuel hf

/-- the same with the dict in Python's insertion order (oldest first), the model's list reversed. -/
theorem ancestors_translated_pyorder {top : Id} {hier : AL (List Id)} (hH : HierOK top hier)
    (x : Id) (hx : x ∈ keys hier) (fuel : Nat) (hf : hier.length < fuel) :
    ∃ r, Verif.Trans.C17.ancestors fuel x hier.reverse = .ok r ∧ r.Nodup ∧ ∀ y, y ∈ r ↔ y ∈ anc hier x :=
  ancestors_translated hH (fun y => by rw [lookup_eq_get?, get?_reverse_nodup hier hH.nodup]) x hx fuel hf

/-! ### `_validate_parentage` -/

def valBody (f : Nat) (d : AL (List Id)) (p : Id) (xs : List Id) : Except PyErr (ForInStep (List Id)) := do
  let t ← Verif.Trans.C17.ancestors f p d
  pure (.yield (pySetUpdate xs t))

theorem val_loop (d : AL (List Id)) (f : Nat) (A : Id → List Id) : ∀ (ps xs : List Id),
    (∀ p ∈ ps, Good d f p (A p)) →
    ∃ r, forIn ps xs (valBody f d) = .ok r ∧ ∀ y, y ∈ r ↔ (y ∈ xs ∨ ∃ p ∈ ps, y ∈ A p) := by
  intro ps
  induction ps with
  | nil => intro xs _; exact ⟨xs, rfl, by simp⟩
  | cons p ps ih =>
    intro xs hg
    obtain ⟨rp, hp, _, hm⟩ := hg p List.mem_cons_self
    obtain ⟨r, hr, hrm⟩ := ih (pySetUpdate xs rp) (fun q hq => hg q (List.mem_cons_of_mem _ hq))
    refine ⟨r, ?_, ?_⟩
    · rw [List.forIn_cons]
      simp only [valBody, hp]
      exact hr
    · intro y
      rw [hrm y, pySetUpdate_mem, hm y]
      simp only [List.mem_cons, exists_eq_or_imp]
      constructor
      · rintro ((h | h) | h)
        · exact Or.inl h
        · exact Or.inr (Or.inl h)
        · exact Or.inr (Or.inr h)
      · rintro (h | h | h)
        · exact Or.inl (Or.inl h)
        · exact Or.inl (Or.inr h)
        · exact Or.inr h

/-- `hierarchy._validate_parentage(id, parents, hier)` (source) = the model's `redundant` test of `insertOne`:
`HierarchyError` exactly when some parent is an ancestor of a parent; every parent is an identifier of the hierarchy
(what `_get_eligible` established). -/
theorem validate_parentage_translated {top : Id} {hier d : AL (List Id)} (hH : HierOK top hier) (hd : SameLookups d hier)
    (ps : List Id) (hps : ∀ p ∈ ps, p ∈ keys hier) (fuel : Nat) (hf : hier.length < fuel) :
    Verif.Trans.C17.validate_parentage fuel ps d
      = if redundant hier ps then .error (.user "HierarchyError") else .ok () := by
  obtain ⟨r, hr, hrm⟩ := val_loop d fuel (anc hier) ps []
    (fun p hp => ancestors_translated hH hd p (hps p hp) fuel hf)
  have hempty : (pySetInter r ps).isEmpty = !redundant hier ps := by
    unfold redundant pySetInter
    rw [Bool.eq_iff_iff]
    simp only [List.isEmpty_iff, List.filter_eq_nil_iff, Bool.not_eq_true', List.any_eq_false, decide_eq_true_eq,
      List.contains_iff_mem]
    constructor
    · intro h q hq hqm
      rw [List.mem_flatMap] at hqm
      obtain ⟨p, hp, hqa⟩ := hqm
      exact h q ((hrm q).2 (Or.inr ⟨p, hp, hqa⟩)) hq
    · intro h y hy hyp
      rcases (hrm y).1 hy with h0 | ⟨p, hp, hya⟩
      · cases h0
      · exact h y hyp (List.mem_flatMap.2 ⟨p, hp, hya⟩)
  unfold Verif.Trans.C17.validate_parentage
  show (forIn ps ([] : List Id) (valBody fuel d) >>= _) = _
  rw [hr]
  cases hred : redundant hier ps
  · have : pySetInter r ps = [] := by
      have h : (pySetInter r ps).isEmpty = true := by rw [hempty, hred]; rfl
      simpa using h
    simp [this, bind, Except.bind, pure, Except.pure]
  · have : pySetInter r ps ≠ [] := by
      have h : (pySetInter r ps).isEmpty = false := by rw [hempty, hred]; rfl
      simpa using h
    simp [this, bind, Except.bind, throw, throwThe, MonadExceptOf.throw]

end Verif.C17
