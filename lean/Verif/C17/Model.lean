/-
C17 — executable model of `delphin.hierarchy.MultiHierarchy` (and of its normalising
wrappers `tfs.TypeHierarchy`, `semi._new_hierarchy`, which only fix `norm := str.lower`).

Conventions
* identifiers are `List Char`; the identifier normaliser `norm` is a parameter;
* a Python `dict` is an association list.  `_hier` is kept NEWEST FIRST (reverse
  insertion order: the last entry is the top), so that "parents were inserted
  earlier" reads "parents occur in the tail";
* a Python `set` is a list compared up to order/multiplicity (the driver sorts);
* exceptions are `Except Err`.

What is literal and what is not
* `update` follows `validate_update` / `_normalize_update` / the `while` loop with
  `_get_eligible` and `_validate_parentage` line by line (fuel = size of the batch,
  `Err.fuel` is proved unreachable in Props: `update_ne_fuel`).
* `anc` (`_ancestors`) recurses over the insertion order instead of looking the
  parent up in the whole dict; `descN` (`descendants`) follows `_loer` with fuel
  `len(_hier)`; a child that is no key of `_loer` is treated as childless there
  (Python: KeyError) — unreachable by `parents_children_closed` (Props).  Both choices are
  justified by the invariant `WF` (Props) and tied to the code by the correspondence run.
* normalisation happens exactly where the code has it: once at the head of every public
  method, AGAIN in nested public calls (`subsumes`/`compatible` → `descendants`,
  `descendants` → `descendants(child)`, `__getitem__`/`__setitem__` → `__contains__`,
  `items` → `__getitem__` on stored identifiers), in `update` on keys, parents and data keys.
  Hence the closure theorems need an idempotent normaliser (as the code does).
-/
namespace Verif.C17

abbrev Id := List Char
abbrev Dat := Int
abbrev AL (β : Type) := List (Id × β)

inductive Err
  | hierarchyError
  | keyError
  | fuel
deriving DecidableEq, Repr

/-- parents of a batch entry as the caller writes them: a whitespace-separated string or a tuple -/
inductive PSpec
  | str (s : List Char)
  | tup (ps : List Id)

def keys {β : Type} (d : AL β) : List Id := d.map Prod.fst

def get? {β : Type} : AL β → Id → Option β
  | [], _ => none
  | (k, v) :: rest, x => if x = k then some v else get? rest x

/-- `d[k] = v` on an insertion-ordered dict stored OLDEST FIRST (used for the batch). -/
def dictSet {β : Type} (d : AL β) (k : Id) (v : β) : AL β :=
  if k ∈ keys d then d.map (fun e => if e.1 = k then (k, v) else e) else d ++ [(k, v)]

/-! ### `str.split()` -/

/-- the code points on which `str.split()` splits (every one below U+3001; pinned against the
live `_normalize_update` by `c17_pins`) -/
def spaceCodes : List Nat :=
  [9, 10, 11, 12, 13, 28, 29, 30, 31, 32, 133, 160, 5760, 8192, 8193, 8194, 8195, 8196, 8197, 8198,
   8199, 8200, 8201, 8202, 8232, 8233, 8239, 8287, 12288]

def isSpace (c : Char) : Bool := spaceCodes.contains c.toNat

def splitWsAux : List Char → List Char → List (List Char)
  | cur, [] => if cur.isEmpty then [] else [cur.reverse]
  | cur, c :: cs =>
    if isSpace c then
      (if cur.isEmpty then splitWsAux [] cs else cur.reverse :: splitWsAux [] cs)
    else splitWsAux (c :: cur) cs

/-- `s.split()` -/
def splitWs (s : List Char) : List (List Char) := splitWsAux [] s

/-- the normaliser of `tfs.TypeHierarchy` and of `semi._new_hierarchy` (`str.lower`) on ASCII
identifiers (pinned on the ASCII range by `c17_pins`) -/
def lowerId (s : Id) : Id := s.map Char.toLower

/-- a caller-supplied normaliser (`normalize_identifier=str.upper`, through `MultiHierarchy` and
through `tfs.TypeHierarchy`, which passes a given normaliser on instead of its default) on ASCII
identifiers (pinned on the ASCII range by `c17_pins_upper`) -/
def upperId (s : Id) : Id := s.map Char.toUpper

/-! ### state -/

structure H where
  top : Id
  /-- `_hier`: node ↦ tuple of parents, NEWEST FIRST -/
  hier : AL (List Id)
  /-- `_loer`: node ↦ set of children -/
  loer : AL (List Id)
  /-- `_data` -/
  data : AL Dat

/-- `__init__` before the optional `update`: `top` is already normalised by the caller. -/
def H.new (top : Id) : H := ⟨top, [(top, [])], [(top, [])], []⟩

def parentsOf (hier : AL (List Id)) (x : Id) : List Id := (get? hier x).getD []
def childrenOf (loer : AL (List Id)) (x : Id) : List Id := (get? loer x).getD []

/-- `_ancestors(id, hier)` by recursion over the insertion order. -/
def anc : AL (List Id) → Id → List Id
  | [], _ => []
  | (k, ps) :: rest, x => if x = k then ps ++ ps.flatMap (anc rest) else anc rest x

/-! ### update -/

def setAdd (c : Id) (cs : List Id) : List Id := if c ∈ cs then cs else c :: cs

/-- `loer[p].add(c)` -/
def addChild (c p : Id) (loer : AL (List Id)) : AL (List Id) :=
  loer.map (fun e => if e.1 = p then (e.1, setAdd c e.2) else e)

/-- `_validate_parentage`: some parent is an ancestor of a parent. -/
def redundant (hier : AL (List Id)) (ps : List Id) : Bool :=
  ps.any (fun q => decide (q ∈ ps.flatMap (anc hier)))

abbrev St := AL (List Id) × AL (List Id)

/-- body of the `for identifier in eligible` loop -/
def insertOne (st : St) (e : Id × List Id) : Except Err St :=
  if redundant st.1 e.2 then .error .hierarchyError
  else if e.2.all (fun p => decide (p ∈ keys st.2)) then
    .ok ((e.1, e.2) :: st.1, e.2.foldl (fun l p => addChild e.1 p l) ((e.1, []) :: st.2))
  else .error .keyError

def insertAll : St → AL (List Id) → Except Err St
  | st, [] => .ok st
  | st, e :: es =>
    match insertOne st e with
    | .error x => .error x
    | .ok st' => insertAll st' es

def isEligible (hier : AL (List Id)) (e : Id × List Id) : Bool :=
  e.2.all (fun p => decide (p ∈ keys hier))

/-- the `while subhierarchy:` loop -/
def loop : Nat → St → AL (List Id) → Except Err St
  | _, st, [] => .ok st
  | 0, _, _ :: _ => .error .fuel
  | n + 1, st, e :: es =>
    let sub := e :: es
    let el := sub.filter (isEligible st.1)
    if el.isEmpty then .error .hierarchyError
    else
      match insertAll st el with
      | .error x => .error x
      | .ok st' => loop n st' (sub.filter (fun e => !isEligible st.1 e))

def specParents : PSpec → List Id
  | .str s => splitWs s
  | .tup ps => ps

/-- `_normalize_update`, hierarchy part (batch in dict order, oldest first) -/
def normalizeSub (norm : Id → Id) (raw : List (Id × PSpec)) : AL (List Id) :=
  raw.foldl (fun d e => dictSet d (norm e.1) ((specParents e.2).map norm)) []

/-- `_normalize_update`, data part -/
def normalizeDat (norm : Id → Id) (raw : List (Id × Dat)) : AL Dat :=
  raw.foldl (fun d e => dictSet d (norm e.1) e.2) []

/-- `self._data.update(dat)` (only look-ups observe `_data`, newest binding first) -/
def applyData (data : AL Dat) (dat : AL Dat) : AL Dat :=
  dat.foldl (fun d e => e :: d) data

/-- `MultiHierarchy.update(subhierarchy, data)`; `none` = the argument is `None`. -/
def update (norm : Id → Id) (h : H) (raw : Option (List (Id × PSpec)))
    (rawdata : Option (List (Id × Dat))) : Except Err H :=
  let sub := normalizeSub norm (raw.getD [])
  let dat := normalizeDat norm (rawdata.getD [])
  if sub.any (fun e => decide (e.1 ∈ keys h.hier)) then .error .hierarchyError
  else if sub.any (fun e => e.2.isEmpty) then .error .hierarchyError
  else if dat.any (fun e => decide (e.1 ∉ keys h.hier ∧ e.1 ∉ keys sub)) then .error .hierarchyError
  else
    match loop sub.length (h.hier, h.loer) sub with
    | .error x => .error x
    | .ok st => .ok { h with hier := st.1, loer := st.2, data := applyData h.data dat }

/-- the constructor -/
def construct (norm : Id → Id) (top : Id) (raw : Option (List (Id × PSpec)))
    (rawdata : Option (List (Id × Dat))) : Except Err H :=
  match raw with
  | none => .ok (H.new (norm top))
  | some r => update norm (H.new (norm top)) (some r) rawdata

/-! ### queries -/

def contains (norm : Id → Id) (h : H) (x : Id) : Bool := decide (norm x ∈ keys h.hier)

def parents (norm : Id → Id) (h : H) (x : Id) : Except Err (List Id) :=
  match get? h.hier (norm x) with
  | some ps => .ok ps
  | none => .error .keyError

def children (norm : Id → Id) (h : H) (x : Id) : Except Err (List Id) :=
  match get? h.loer (norm x) with
  | some cs => .ok cs
  | none => .error .keyError

def ancestors (norm : Id → Id) (h : H) (x : Id) : Except Err (List Id) :=
  if norm x ∈ keys h.hier then .ok (anc h.hier (norm x)) else .error .keyError

/-- `descendants`, literally: the method normalises its argument and then calls ITSELF on every
child, i.e. every child is normalised again (fuel: `len(_hier)` levels). -/
def descN (norm : Id → Id) : Nat → AL (List Id) → Id → List Id
  | 0, _, _ => []
  | n + 1, loer, x => (childrenOf loer (norm x)).flatMap (fun c => c :: descN norm n loer c)

def descendants (norm : Id → Id) (h : H) (x : Id) : Except Err (List Id) :=
  if norm x ∈ keys h.loer then .ok (descN norm h.hier.length h.loer x) else .error .keyError

/-- `a, b = norm(a), norm(b); return a == b or b in self.descendants(a)` — `descendants`
normalises the already normalised `a` once more, as the code does. -/
def subsumes (norm : Id → Id) (h : H) (a b : Id) : Except Err Bool :=
  let a' := norm a
  let b' := norm b
  if a' = b' then .ok true
  else match descendants norm h a' with
    | .ok ds => .ok (decide (b' ∈ ds))
    | .error e => .error e

/-- `a, b = norm(a), norm(b)`; lineages `self.descendants(a).union([a])`, `…(b)…`; non-empty intersection -/
def compatible (norm : Id → Id) (h : H) (a b : Id) : Except Err Bool :=
  let a' := norm a
  let b' := norm b
  match descendants norm h a' with
  | .error e => .error e
  | .ok da =>
    match descendants norm h b' with
    | .error e => .error e
    | .ok db => .ok ((a' :: da).any (fun x => decide (x ∈ b' :: db)))

/-- `__getitem__`: `identifier = norm(identifier)`; the fallback `identifier not in self` goes
through `__contains__`, which normalises again -/
def getItem (norm : Id → Id) (h : H) (x : Id) : Except Err (Option Dat) :=
  match get? h.data (norm x) with
  | some d => .ok (some d)
  | none => if contains norm h (norm x) then .ok none else .error .keyError

/-- `__setitem__`: `identifier = norm(identifier)`; `if identifier not in self` (normalises again) -/
def setItem (norm : Id → Id) (h : H) (x : Id) (d : Dat) : Except Err H :=
  if contains norm h (norm x) then .ok { h with data := (norm x, d) :: h.data }
  else .error .hierarchyError

/-- `__iter__`: insertion order without the top -/
def iter (h : H) : List Id := (keys h.hier).reverse.filter (fun x => x ≠ h.top)

def items (norm : Id → Id) (h : H) : Except Err (List (Id × Option Dat)) :=
  (iter h).mapM (fun x => do pure (x, ← getItem norm h x))

def len (h : H) : Nat := h.hier.length - 1

/-- `==` of two Python dicts given as association lists (look-up semantics, order ignored) -/
def dictEq {β : Type} [BEq β] (a b : AL β) : Bool :=
  (keys a).all (fun k => decide (k ∈ keys b)) && (keys b).all (fun k => decide (k ∈ keys a))
    && (keys a).all (fun k => get? a k == get? b k)

/-- `MultiHierarchy.__eq__` (same class): `_top`, `_hier` and `_data` are equal; `_loer` is not compared -/
def eqH (a b : H) : Bool := a.top == b.top && dictEq a.hier b.hier && dictEq a.data b.data

/-- the class docstring's `Hierarchy(top, {id: h.parents(id) for id in h}) == h`, with the data:
a hierarchy rebuilt by the constructor from the `parents`/`items` answers, then `rebuilt[top] = h[top]` -/
def rebuild (norm : Id → Id) (h : H) (withData : Bool) : Except Err H :=
  let ids := iter h
  let sub : List (Id × PSpec) := ids.map (fun i => (i, PSpec.tup (parentsOf h.hier i)))
  let dat : List (Id × Dat) := ids.filterMap (fun i => (get? h.data i).map (fun d => (i, d)))
  if withData then
    match construct norm h.top (some sub) (some dat) with
    | .error e => .error e
    | .ok r =>
      match get? h.data h.top with
      | none => .ok r
      | some d => setItem norm r h.top d
  else construct norm h.top (some sub) none

/-! ### histories -/

/-- a state-changing call -/
inductive Call
  | update (raw : Option (List (Id × PSpec))) (data : Option (List (Id × Dat)))
  | set (x : Id) (d : Dat)

def applyCall (norm : Id → Id) (h : H) : Call → Except Err H
  | .update r d => update norm h r d
  | .set x d => setItem norm h x d

/-- one call of a history: a rejected call leaves the (immutable) model state as it was.
For the real code this is the atomicity clause; it is checked there by the harness. -/
def step (norm : Id → Id) (h : H) (c : Call) : H :=
  match applyCall norm h c with
  | .ok h' => h'
  | .error _ => h

def run (norm : Id → Id) (h : H) (cs : List Call) : H := cs.foldl (step norm) h

end Verif.C17
