/-
C17 — helper lemmas for the DATA side (`_data`, the `data` argument of `__init__`/`update`,
`__getitem__`/`__setitem__`) and for the error branches of `update` (PropsData.lean).
-/
import Verif.C17.Lemmas

namespace Verif.C17

/-! ### association lists -/

theorem get?_append {β : Type} (l1 l2 : AL β) (k : Id) :
    get? (l1 ++ l2) k = (get? l1 k).or (get? l2 k) := by
  induction l1 with
  | nil => simp [get?]
  | cons e l1 ih =>
    obtain ⟨k', v⟩ := e
    rw [List.cons_append, get?_cons, get?_cons]
    split
    · rfl
    · exact ih

theorem keys_append {β : Type} (l1 l2 : AL β) : keys (l1 ++ l2) = keys l1 ++ keys l2 := by
  simp [keys]

theorem keys_reverse {β : Type} (l : AL β) : keys l.reverse = (keys l).reverse := by
  simp [keys]

/-- on a list without duplicate keys a look-up does not depend on the order -/
theorem get?_reverse_nodup {β : Type} (l : AL β) (hn : (keys l).Nodup) (k : Id) :
    get? l.reverse k = get? l k := by
  induction l with
  | nil => rfl
  | cons e l ih =>
    obtain ⟨k', v⟩ := e
    rw [keys_cons, List.nodup_cons] at hn
    rw [List.reverse_cons, get?_append, ih hn.2, get?_cons]
    by_cases hk : k = k'
    · subst hk
      rw [if_pos rfl, get?_eq_none hn.1]
      simp [get?]
    · rw [if_neg hk]
      simp [get?, hk]

theorem get?_dictSet {β : Type} (d : AL β) (k' : Id) (v : β) (k : Id) :
    get? (dictSet d k' v) k = if k = k' then some v else get? d k := by
  unfold dictSet
  split
  · rename_i hmem
    induction d with
    | nil => simp [keys] at hmem
    | cons e d ih =>
      obtain ⟨k0, v0⟩ := e
      rw [List.map_cons]
      by_cases h0 : k0 = k'
      · subst h0
        simp only [if_true]
        rw [get?_cons, get?_cons]
        by_cases hk : k = k0
        · simp [hk]
        · simp only [if_neg hk]
          by_cases hmem' : k0 ∈ keys d
          · have := ih hmem'
            rw [if_neg hk] at this
            exact this
          · -- no further entry for k0: the map is the identity on d
            have hid : d.map (fun e => if e.1 = k0 then (k0, v) else e) = d := by
              conv => rhs; rw [← List.map_id d]
              apply List.map_congr_left
              intro e he
              have : e.1 ≠ k0 := fun h => hmem' (h ▸ List.mem_map_of_mem (f := Prod.fst) he)
              simp [this]
            rw [hid]
      · simp only [if_neg h0]
        rw [keys_cons, List.mem_cons] at hmem
        have hmem' : k' ∈ keys d := by
          rcases hmem with h | h
          · exact absurd h.symm h0
          · exact h
        rw [get?_cons, get?_cons]
        by_cases hk : k = k0
        · subst hk
          simp [h0]
        · simp only [if_neg hk]
          exact ih hmem'
  · rename_i hmem
    rw [get?_append]
    by_cases hk : k = k'
    · subst hk
      rw [get?_eq_none hmem]
      simp [get?]
    · simp [get?, hk]

/-- `d[f e] = g e` for every `e` of `raw` in turn: the LAST entry with key `k` decides -/
theorem get?_foldl_dictSet {α β : Type} (f : α → Id) (g : α → β) (raw : List α) (k : Id) :
    ∀ d : AL β, get? (raw.foldl (fun d e => dictSet d (f e) (g e)) d) k
      = ((raw.reverse.find? (fun e => decide (f e = k))).map g).or (get? d k) := by
  induction raw with
  | nil => intro d; simp
  | cons e raw ih =>
    intro d
    rw [List.foldl_cons, ih, get?_dictSet, List.reverse_cons, List.find?_append]
    cases hf : raw.reverse.find? (fun e => decide (f e = k)) with
    | some e' => simp
    | none =>
      by_cases hk : k = f e
      · simp [hk]
      · have : ¬ f e = k := fun h => hk h.symm
        simp [hk, this]

theorem mem_keys_foldl_dictSet {α β : Type} (f : α → Id) (g : α → β) (raw : List α) (k : Id) :
    ∀ d : AL β, k ∈ keys (raw.foldl (fun d e => dictSet d (f e) (g e)) d) ↔ k ∈ keys d ∨ ∃ e ∈ raw, f e = k := by
  induction raw with
  | nil => intro d; simp
  | cons e raw ih =>
    intro d
    rw [List.foldl_cons, ih, keys_dictSet]
    split
    · rename_i hm
      constructor
      · rintro (h | ⟨e', he', h⟩)
        · exact Or.inl h
        · exact Or.inr ⟨e', List.mem_cons_of_mem _ he', h⟩
      · rintro (h | ⟨e', he', h⟩)
        · exact Or.inl h
        · rcases List.mem_cons.1 he' with he' | he'
          · subst he'; exact Or.inl (h ▸ hm)
          · exact Or.inr ⟨e', he', h⟩
    · rw [List.mem_append, List.mem_singleton]
      constructor
      · rintro ((h | h) | ⟨e', he', h⟩)
        · exact Or.inl h
        · exact Or.inr ⟨e, List.mem_cons_self, h.symm⟩
        · exact Or.inr ⟨e', List.mem_cons_of_mem _ he', h⟩
      · rintro (h | ⟨e', he', h⟩)
        · exact Or.inl (Or.inl h)
        · rcases List.mem_cons.1 he' with he' | he'
          · subst he'; exact Or.inl (Or.inr h.symm)
          · exact Or.inr ⟨e', he', h⟩

theorem mem_keys_normalizeSub (norm : Id → Id) (raw : List (Id × PSpec)) (k : Id) :
    k ∈ keys (normalizeSub norm raw) ↔ ∃ e ∈ raw, norm e.1 = k := by
  unfold normalizeSub
  rw [mem_keys_foldl_dictSet (fun (e : Id × PSpec) => norm e.1) (fun (e : Id × PSpec) => (specParents e.2).map norm)]
  simp [keys]

theorem mem_keys_normalizeDat (norm : Id → Id) (raw : List (Id × Dat)) (k : Id) :
    k ∈ keys (normalizeDat norm raw) ↔ ∃ e ∈ raw, norm e.1 = k := by
  unfold normalizeDat
  rw [mem_keys_foldl_dictSet (fun (e : Id × Dat) => norm e.1) (fun (e : Id × Dat) => e.2)]
  simp [keys]

theorem normalizeDat_nodup (norm : Id → Id) (raw : List (Id × Dat)) : (keys (normalizeDat norm raw)).Nodup :=
  foldl_dictSet_nodup (fun (e : Id × Dat) => norm e.1) (fun (e : Id × Dat) => e.2) raw [] (by simp [keys])

/-- the value `_normalize_update` keeps for the data key `k`: that of the LAST entry whose identifier
normalises to `k` (a dict comprehension) -/
def lastFor (norm : Id → Id) (raw : List (Id × Dat)) (k : Id) : Option Dat :=
  (raw.reverse.find? (fun e => decide (norm e.1 = k))).map Prod.snd

theorem get?_normalizeDat (norm : Id → Id) (raw : List (Id × Dat)) (k : Id) :
    get? (normalizeDat norm raw) k = lastFor norm raw k := by
  unfold normalizeDat lastFor
  rw [get?_foldl_dictSet (fun (e : Id × Dat) => norm e.1) (fun (e : Id × Dat) => e.2)]
  simp [get?]

theorem applyData_eq (data dat : AL Dat) : applyData data dat = dat.reverse ++ data := by
  unfold applyData
  induction dat generalizing data with
  | nil => rfl
  | cons e dat ih => rw [List.foldl_cons, ih, List.reverse_cons, List.append_assoc]; rfl

/-- `self._data.update(dat)`: the new binding if there is one, else the old -/
theorem get?_applyData (data dat : AL Dat) (hn : (keys dat).Nodup) (k : Id) :
    get? (applyData data dat) k = (get? dat k).or (get? data k) := by
  rw [applyData_eq, get?_append, get?_reverse_nodup dat hn]

theorem mem_keys_applyData (data dat : AL Dat) (k : Id) :
    k ∈ keys (applyData data dat) ↔ k ∈ keys dat ∨ k ∈ keys data := by
  rw [applyData_eq, keys_append, keys_reverse, List.mem_append, List.mem_reverse]

/-! ### an accepted batch adds every one of its keys -/

theorem insertAll_keys_super (es : AL (List Id)) : ∀ (st st' : St), insertAll st es = .ok st' →
    ∀ x, x ∈ keys es ∨ x ∈ keys st.1 → x ∈ keys st'.1 := by
  induction es with
  | nil =>
    intro st st' h x hx
    simp only [insertAll] at h; cases h
    rcases hx with hx | hx
    · simp [keys] at hx
    · exact hx
  | cons e es ih =>
    intro st st' h x hx
    simp only [insertAll] at h
    split at h
    · cases h
    · rename_i st1 h1
      apply ih st1 st' h x
      rw [insertOne_keys h1]
      rcases hx with hx | hx
      · rw [keys_cons', List.mem_cons] at hx
        rcases hx with hx | hx
        · exact Or.inr (hx ▸ List.mem_cons_self)
        · exact Or.inl hx
      · exact Or.inr (List.mem_cons_of_mem _ hx)

theorem mem_keys_filter_or {β : Type} (l : AL β) (p : Id × β → Bool) {x : Id} (h : x ∈ keys l) :
    x ∈ keys (l.filter p) ∨ x ∈ keys (l.filter (fun e => !p e)) := by
  obtain ⟨e, he, rfl⟩ := List.mem_map.1 h
  by_cases hp : p e = true
  · exact Or.inl (List.mem_map_of_mem (List.mem_filter.2 ⟨he, hp⟩))
  · exact Or.inr (List.mem_map_of_mem (List.mem_filter.2 ⟨he, by simp [hp]⟩))

theorem loop_keys_super (n : Nat) : ∀ (sub : AL (List Id)) (st st' : St), loop n st sub = .ok st' →
    ∀ x, x ∈ keys sub ∨ x ∈ keys st.1 → x ∈ keys st'.1 := by
  induction n with
  | zero =>
    intro sub st st' h x hx
    cases sub with
    | nil =>
      simp only [loop] at h; cases h
      rcases hx with hx | hx
      · simp [keys] at hx
      · exact hx
    | cons e es => simp [loop] at h
  | succ n ih =>
    intro sub st st' h x hx
    cases sub with
    | nil =>
      simp only [loop] at h; cases h
      rcases hx with hx | hx
      · simp [keys] at hx
      · exact hx
    | cons e es =>
      simp only [loop] at h
      split at h
      · cases h
      · split at h
        · cases h
        · rename_i st1 h1
          apply ih _ st1 st' h x
          rcases hx with hx | hx
          · rcases mem_keys_filter_or (e :: es) (isEligible st.1) hx with hx | hx
            · exact Or.inr (insertAll_keys_super _ st st1 h1 x (Or.inl hx))
            · exact Or.inl hx
          · exact Or.inr (insertAll_keys_super _ st st1 h1 x (Or.inr hx))

/-! ### the only way `update` fails on a well-formed hierarchy is a `HierarchyError` -/

/-- `loer[parent].add(identifier)` cannot raise `KeyError`: the parents were checked to be keys of
`hier`, and `loer` has the same keys -/
theorem insertOne_err {st : St} {e : Id × List Id} (hl : LoerOK st.1 st.2)
    (hps : ∀ p ∈ e.2, p ∈ keys st.1) {x : Err} (h : insertOne st e = .error x) : x = .hierarchyError := by
  unfold insertOne at h
  split at h
  · cases h; rfl
  · split at h
    · cases h
    · rename_i hall
      exfalso
      apply hall
      rw [List.all_eq_true]
      intro p hp
      simp only [decide_eq_true_eq]
      exact (hl.keys_iff p).2 (hps p hp)

theorem insertAll_err {top : Id} (es : AL (List Id)) : ∀ (st : St), WFst top st → (keys es).Nodup →
    (∀ e ∈ es, e.1 ∉ keys st.1 ∧ e.2 ≠ [] ∧ ∀ p ∈ e.2, p ∈ keys st.1) →
    ∀ x, insertAll st es = .error x → x = .hierarchyError := by
  induction es with
  | nil => intro st _ _ _ x h; simp [insertAll] at h
  | cons e es ih =>
    intro st hw hn hall x h
    obtain ⟨h_k, h_ne, h_ps⟩ := hall e (List.mem_cons_self)
    simp only [insertAll] at h
    split at h
    · rename_i x' h1
      cases h
      exact insertOne_err hw.2 h_ps h1
    · rename_i st1 h1
      obtain ⟨hw1, hk1⟩ := insertOne_wf hw h_k h_ne h_ps h1
      rw [keys, List.map_cons, List.nodup_cons] at hn
      apply ih st1 hw1 hn.2 _ x h
      intro e' he'
      obtain ⟨a, b, c⟩ := hall e' (List.mem_cons_of_mem _ he')
      refine ⟨?_, b, ?_⟩
      · rw [hk1, List.mem_cons, not_or]
        refine ⟨?_, a⟩
        intro heq
        apply hn.1
        rw [← heq]
        exact List.mem_map_of_mem he'
      · intro p hp; rw [hk1]; exact List.mem_cons_of_mem _ (c p hp)

theorem loop_err {top : Id} (n : Nat) : ∀ (sub : AL (List Id)) (st : St), WFst top st → (keys sub).Nodup →
    (∀ e ∈ sub, e.1 ∉ keys st.1 ∧ e.2 ≠ []) →
    ∀ x, loop n st sub = .error x → x = .hierarchyError ∨ x = .fuel := by
  induction n with
  | zero =>
    intro sub st _ _ _ x h
    cases sub with
    | nil => simp [loop] at h
    | cons e es => simp only [loop] at h; cases h; exact Or.inr rfl
  | succ n ih =>
    intro sub st hw hn hall x h
    cases sub with
    | nil => simp [loop] at h
    | cons e es =>
      simp only [loop] at h
      have hel : ∀ e' ∈ (e :: es).filter (isEligible st.1),
          e'.1 ∉ keys st.1 ∧ e'.2 ≠ [] ∧ ∀ p ∈ e'.2, p ∈ keys st.1 := by
        intro e' he'
        rw [List.mem_filter] at he'
        exact ⟨(hall e' he'.1).1, (hall e' he'.1).2, isEligible_iff.1 he'.2⟩
      split at h
      · cases h; exact Or.inl rfl
      · split at h
        · rename_i x' h1
          cases h
          exact Or.inl (insertAll_err _ st hw (keys_filter_nodup _ hn) hel _ h1)
        · rename_i st1 h1
          obtain ⟨hw1, hk1⟩ := insertAll_wf _ st st1 hw (keys_filter_nodup _ hn) hel h1
          apply ih _ st1 hw1 (keys_filter_nodup _ hn) _ x h
          intro e' he'
          rw [List.mem_filter] at he'
          refine ⟨?_, (hall e' he'.1).2⟩
          rw [hk1, not_or]
          refine ⟨?_, (hall e' he'.1).1⟩
          intro hmem
          obtain ⟨e'', he'', hkeq⟩ := List.mem_map.1 hmem
          rw [List.mem_filter] at he''
          have := eq_of_key_eq hn he''.1 he'.1 hkeq
          subst this
          simp [he''.2] at he'

end Verif.C17
