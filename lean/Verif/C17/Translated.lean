/-
C17 — the SOURCE-TRANSLATION tie (TRANSLATOR.md).  `Verif/Generated/TransC17.lean` is regenerated on every run from the
current source text of `delphin.hierarchy._get_eligible` by harness/common/py2lean.py; `get_eligible_translated` proves
the regenerated definition equal, for all inputs, to the eligibility step of the model's `loop` (Model.lean):
`el := sub.filter (isEligible hier)`, `HierarchyError` when `el` is empty, else the identifiers of `el` in the batch's
insertion order.  (dicts are insertion-ordered association lists on both sides; the message text of the exception is
not modelled.)
-/
import Verif.Generated.TransC17
import Verif.C17.Model
import Verif.Common.PyRtLemmas

namespace Verif.C17
open Verif.PyRt

/-- the generator `all(parent in hier for parent in parents)` is the model's `isEligible`. -/
theorem all_in_eq_isEligible (hier : AL (List Id)) (e : Id × List Id) :
    (List.all e.2 fun parent => pyDictContains hier parent) = isEligible hier e := by
  unfold isEligible
  congr 1
  funext p
  have h := pyDictContains_iff hier p
  unfold keys
  by_cases hp : p ∈ hier.map Prod.fst
  · simp [hp, h.mpr hp]
  · have : pyDictContains hier p = false := by
      cases hc : pyDictContains hier p with
      | false => rfl
      | true => exact absurd (h.mp hc) hp
    simp [hp, this]

/-- `hierarchy._get_eligible` (source) = the eligibility step of the model's `loop`. -/
theorem get_eligible_translated (hier sub : AL (List Id)) :
    Verif.Trans.C17.get_eligible hier sub
      = if (sub.filter (isEligible hier)).isEmpty then .error (.user "HierarchyError")
        else .ok (keys (sub.filter (isEligible hier))) := by
  have hf : (fun (x : List Char × List (List Char)) =>
        match x with | (id_, parents) => List.all parents fun parent => pyDictContains hier parent)
      = isEligible hier := by
    funext e; rcases e with ⟨i, ps⟩; exact all_in_eq_isEligible hier (i, ps)
  unfold Verif.Trans.C17.get_eligible
  simp only [hf, keys]
  cases h : List.filter (isEligible hier) sub with
  | nil => rfl
  | cons a r => rfl

end Verif.C17
