/-
C13 / C14 — shared executable model of `delphin/repp.py` (rule application, template parsing,
groups, iteration, trace).  Core Lean only.  Strings are `List Char`.

The regular-expression engine is a PARAMETER: `Eng := Nat → Str → List M` answers, for the
pattern with a given id and an input string, the list of matches `finditer` returns (start, end,
spans of groups 1..n, `none` for a group that did not participate).  The harness fills it with the
answers of the rule's own compiled pattern object.

Masks: the model covers the all-zero mask array (no `=` rule has matched before a rewrite rule
runs); there `_process_match` never blocks and `_check_mask` returns False.  A mask rule itself
is modelled (identity step with zero maps).

Anchors in /repo (delphin/repp.py):
  _REPPRule._apply, _process_match, _copy_part, _insert_part, _get_segments, _parse_template,
  _REPPMask._apply, _REPPGroup._apply, _REPPInternalGroup._apply, REPP._apply, _zeromap
-/
namespace Verif.C13

abbrev Str := List Char

inductive Err where
  | fuel          -- the iteration did not reach a fixpoint within the fuel (real code: no termination)
  | indexError    -- IndexError (array index out of range)
  | valueError    -- int() of a non-numeric \g<..> name
  | reError       -- re.error at load time: template refers to a group the pattern does not have
  | engine        -- the engine table of the driver has no entry for (pattern, string)
deriving Repr, DecidableEq

/-- One match object: `m.start()`, `m.end()`, `m.span(g)` for g = 1..n. -/
structure M where
  s : Nat
  e : Nat
  groups : List (Option (Nat × Nat))
deriving Repr, DecidableEq

/-- `m.span(g)`; `none` = `(-1, -1)` (group did not participate).  Group 0 is the whole match.
A group number above the pattern's group count cannot occur: such templates are rejected when the
rule is constructed (`loadRule`). -/
def M.span (m : M) : Nat → Option (Nat × Nat)
  | 0 => some (m.s, m.e)
  | g + 1 => (m.groups[g]?).join

/-- `s[a:b]` for `0 ≤ a`, `0 ≤ b`. -/
def slice (s : Str) (a b : Nat) : Str := (s.drop a).take (b - a)

/-- `m.group(g) or ''`. -/
def M.text (s : Str) (m : M) (g : Nat) : Str :=
  match m.span g with
  | some (a, b) => slice s a b
  | none => []

/-- A template segment: `(literal, None)` or `(None, group)`. -/
inductive Seg where
  | lit (cs : Str)
  | grp (g : Nat)
deriving Repr, DecidableEq

/-- Plain template expansion (what `Match.expand` does): literals as they are, a group reference
gives the group's text, nothing for a group that did not participate. -/
def expand (s : Str) (m : M) : List Seg → Str
  | [] => []
  | .lit l :: r => l ++ expand s m r
  | .grp g :: r => m.text s g ++ expand s m r

/-! ### `_parse_template` (repaired: octal first, `pos` advanced after every escape) -/

def isOct (c : Char) : Bool := '0' ≤ c && c ≤ '7'
def octVal (c : Char) : Nat := c.toNat - '0'.toNat
def octNum (cs : Str) : Nat := cs.foldl (fun a c => 8 * a + octVal c) 0
def decNum (cs : Str) : Nat := cs.foldl (fun a c => 10 * a + (c.toNat - '0'.toNat)) 0

/-- `_ascii_escapes`. -/
def asciiEscape (c : Char) : Option Char :=
  if c = 'a' then some (Char.ofNat 7) else if c = 'b' then some (Char.ofNat 8)
  else if c = 'f' then some (Char.ofNat 12) else if c = 'n' then some '\n'
  else if c = 'r' then some '\r' else if c = 't' then some '\t'
  else if c = 'v' then some (Char.ofNat 11) else if c = '\\' then some '\\' else none

/-- What `_replacements_re` matches just after a backslash. -/
inductive Esc where
  | oct (v : Nat)        -- literal chr(v & 0xff)
  | dec (g : Nat)        -- group number
  | named (nm : Str)     -- \g<nm>
  | esc (c : Char)       -- literal character
deriving Repr, DecidableEq

/-- `[^>]+>` : the name and what follows the `>`. -/
def scanName : Str → Str → Option (Str × Str)
  | [], _ => none
  | c :: r, acc => if c = '>' then (if acc.isEmpty then none else some (acc.reverse, r)) else scanName r (c :: acc)

/-- The alternatives of `_replacements_re` after the backslash, in the regex's order:
`0[0-7]{,2}|[0-7]{3}`, `[1-9][0-9]?`, `g<[^>]+>`, `[abfnrtv\\]`.  Returns the escape and the rest. -/
def matchEsc (r : Str) : Option (Esc × Str) :=
  match r with
  | [] => none
  | c :: r1 =>
    if c = '0' then
      match r1 with
      | d1 :: r2 =>
        if isOct d1 then
          match r2 with
          | d2 :: r3 => if isOct d2 then some (.oct (octNum [c, d1, d2]), r3) else some (.oct (octNum [c, d1]), r2)
          | [] => some (.oct (octNum [c, d1]), r2)
        else some (.oct 0, r1)
      | [] => some (.oct 0, r1)
    else
      let three : Option (Esc × Str) :=
        match r1 with
        | d1 :: d2 :: r3 => if isOct c && isOct d1 && isOct d2 then some (.oct (octNum [c, d1, d2]), r3) else none
        | _ => none
      match three with
      | some x => some x
      | none =>
        if '1' ≤ c && c ≤ '9' then
          match r1 with
          | d :: r2 => if d.isDigit then some (.dec (decNum [c, d]), r2) else some (.dec (decNum [c]), r1)
          | [] => some (.dec (decNum [c]), r1)
        else if c = 'g' then
          match r1 with
          | '<' :: r2 => (scanName r2 []).map (fun (nm, rest) => (.named nm, rest))
          | _ => none
        else
          match asciiEscape c with
          | some l => some (.esc l, r1)
          | none => none

def flushLit (acc : Str) (segs : List Seg) : List Seg :=
  if acc.isEmpty then segs else segs ++ [.lit acc.reverse]

/-- index of a `\g<name>` reference: a named group of the pattern, else `int(name)`. -/
def resolveName (names : List (Str × Nat)) (nm : Str) : Except Err Nat :=
  match names.find? (fun p => p.1 = nm) with
  | some p => .ok p.2
  | none => if !nm.isEmpty && nm.all Char.isDigit then .ok (decNum nm) else .error .valueError

/-- The `finditer` loop of `_parse_template`; `acc` is the (reversed) literal text since the end of
the previous match, `segs` the `literals` list so far (`None` entries are `Seg.grp`). -/
def parseAux (names : List (Str × Nat)) : Nat → Str → Str → List Seg → Except Err (List Seg)
  | 0, _, acc, segs => .ok (flushLit acc segs)
  | _ + 1, [], acc, segs => .ok (flushLit acc segs)
  | fuel + 1, c :: r, acc, segs =>
    if c = '\\' then
      match matchEsc r with
      | none => parseAux names fuel r (c :: acc) segs
      | some (.oct v, rest) => parseAux names fuel rest [] (flushLit acc segs ++ [.lit [Char.ofNat (v % 256)]])
      | some (.esc l, rest) => parseAux names fuel rest [] (flushLit acc segs ++ [.lit [l]])
      | some (.dec g, rest) => parseAux names fuel rest [] (flushLit acc segs ++ [.grp g])
      | some (.named nm, rest) =>
        match resolveName names nm with
        | .ok g => parseAux names fuel rest [] (flushLit acc segs ++ [.grp g])
        | .error e => .error e
    else parseAux names fuel r (c :: acc) segs

def parseTemplate (names : List (Str × Nat)) (t : Str) : Except Err (List Seg) :=
  parseAux names (t.length + 1) t [] []

/-! ### `_get_segments` -/

/-- `last_trackable`: one past the index of the last group reference whose number equals its rank
among the group references (k-th reference is `\k`). -/
def lastTrackable : List Seg → (idx expected acc : Nat) → Nat
  | [], _, _, acc => acc
  | .lit _ :: r, i, k, acc => lastTrackable r (i + 1) k acc
  | .grp g :: r, i, k, acc => lastTrackable r (i + 1) (k + 1) (if g = k then i + 1 else acc)

def getSegments (segs : List Seg) : List Seg × List Seg :=
  let n := lastTrackable segs 0 1 0
  (segs.take n, segs.drop n)

def segGroupOk (ngroups : Nat) : Seg → Bool
  | .lit _ => true
  | .grp g => g ≤ ngroups

/-! ### parts: text with its two offset lists (`parts`, `smap`, `emap` extended in lockstep) -/

structure Part where
  out : Str
  sm : List Int
  em : List Int
deriving Repr, DecidableEq

def Part.empty : Part := ⟨[], [], []⟩

def Part.append (p q : Part) : Part := ⟨p.out ++ q.out, p.sm ++ q.sm, p.em ++ q.em⟩

instance : Append Part := ⟨Part.append⟩

/-- `_copy_part(s, shift, …)`. -/
def copyPart (txt : Str) (shift : Int) : Part :=
  ⟨txt, List.replicate txt.length shift, List.replicate txt.length shift⟩

/-- `_insert_part(s, width, shift, …)`: `range(shift, shift-len, -1)` and
`range(shift+width-1, shift-len+width-1, -1)`. -/
def insertPart (txt : Str) (width : Int) (shift : Int) : Part :=
  ⟨txt, (List.range txt.length).map (fun (k : Nat) => shift - (k : Int)),
        (List.range txt.length).map (fun (k : Nat) => shift + (width - 1) - (k : Int))⟩

/-- `next((m.start(g) for _, g in tracked[i+1:] if g and m.start(g) >= pos), m.end())`. -/
def nextStart (m : M) (pos : Nat) : List Seg → Nat
  | [] => m.e
  | .lit _ :: r => nextStart m pos r
  | .grp g :: r =>
    if g = 0 then nextStart m pos r
    else match m.span g with
      | some (gs, _) => if pos ≤ gs then gs else nextStart m pos r
      | none => nextStart m pos r

/-- The loop over the tracked segments in `_process_match`, started at position `pos` of the
original with the match-local `delta`.  Returns the emitted part, the final `pos` and `delta`. -/
def procTracked (s : Str) (m : M) (shift : Int) : List Seg → Nat → Int → Part × Nat × Int
  | [], pos, delta => (Part.empty, pos, delta)
  | .grp g :: rest, pos, delta =>
    match m.span g with
    | none => procTracked s m shift rest pos delta       -- did not participate
    | some (gs, ge) =>
      let lit := slice s gs ge
      if gs < pos then
        -- overlaps material already accounted for: inserted, zero width
        let r := procTracked s m shift rest pos (delta - (lit.length : Int))
        (insertPart lit 0 (shift + delta) ++ r.1, r.2)
      else
        let delta1 := delta + ((gs : Int) - (pos : Int))
        let r := procTracked s m shift rest ge delta1
        (copyPart lit (shift + delta1) ++ r.1, r.2)
  | .lit l :: rest, pos, delta =>
    let e := nextStart m pos rest
    let width : Int := (e : Int) - (pos : Int)
    let r := procTracked s m shift rest e (delta + width - (l.length : Int))
    (insertPart l width (shift + delta) ++ r.1, r.2)

/-- `_process_match` with an all-zero mask: `(substring, smap, emap)` and `delta`. -/
def processMatch (s : Str) (m : M) (shift : Int) (tracked untracked : List Seg) : Part × Int :=
  if tracked.isEmpty && untracked.isEmpty then
    (Part.empty, (m.e : Int) - (m.s : Int))
  else
    let r := procTracked s m shift tracked m.s 0
    let pos := r.2.1
    let delta := r.2.2
    if untracked.isEmpty then
      (r.1, delta + ((m.e : Int) - (pos : Int)))
    else
      let lit := expand s m untracked
      let width : Int := (m.e : Int) - (pos : Int)
      (r.1 ++ insertPart lit width (shift + delta), delta + width - (lit.length : Int))

/-- The loop over the matches in `_REPPRule._apply`: returns the emitted part (without the two
sentinels) and the final `shift`. -/
def ruleLoop (s : Str) (tracked untracked : List Seg) : List M → Nat → Int → Part × Int
  | [], pos, shift => (if pos < s.length then copyPart (s.drop pos) shift else Part.empty, shift)
  | m :: ms, pos, shift =>
    let pm := processMatch s m shift tracked untracked
    let gap := if pos < m.s then copyPart (slice s pos m.s) shift else Part.empty
    let r := ruleLoop s tracked untracked ms m.e (shift + pm.2)
    (gap ++ pm.1 ++ r.1, r.2)

def zeromap (s : Str) : List Int := List.replicate (s.length + 2) 0

/-- What a step reports. -/
structure Res where
  out : Str
  applied : Bool
  sm : List Int
  em : List Int
deriving Repr, DecidableEq

/-- `_REPPRule._apply` (string, applied, smap, emap of the yielded step). -/
def applyRule (s : Str) (ms : List M) (tracked untracked : List Seg) : Res :=
  if ms.isEmpty then ⟨s, false, zeromap s, zeromap s⟩
  else
    let r := ruleLoop s tracked untracked ms 0 0
    ⟨r.1.out, true, 0 :: r.1.sm ++ [r.2], 0 :: r.1.em ++ [r.2 - 1]⟩

/-! ### operations, groups, iteration, trace -/

inductive Op where
  | rule (id : Nat) (tracked untracked : List Seg)
  | mask (id : Nat)
  | iter (ops : List Op)                 -- internal group `#n … #` called by `>n`
  | ext (active : Bool) (ops : List Op)  -- external module call `>name`
deriving Repr

/-- `_REPPRule.__init__`: the template has been parsed to `segs`; `ngroups` is `_re.groups`.
A reference to a group the pattern does not have is `re.error` (raised by `_re.sub(replacement, "")`). -/
def loadRule (id ngroups : Nat) (segs : List Seg) : Except Err Op :=
  if segs.all (segGroupOk ngroups) then
    let ts := getSegments segs
    .ok (.rule id ts.1 ts.2)
  else .error .reError

inductive Kind where
  | rule (id : Nat) (tracked untracked : List Seg)   -- `step.operation` is the rule object
  | mask (id : Nat)
  | group
deriving Repr, DecidableEq

structure Step where
  kind : Kind
  inp : Str
  out : Str
  applied : Bool
  sm : List Int
  em : List Int
deriving Repr, DecidableEq

def Step.isBasic (st : Step) : Bool :=
  match st.kind with
  | .group => false
  | _ => true

abbrev Eng := Nat → Str → List M

def ruleStep (eng : Eng) (id : Nat) (tr un : List Seg) (s : Str) : Step :=
  let r := applyRule s (eng id s) tr un
  ⟨.rule id tr un, s, r.out, r.applied, r.sm, r.em⟩

/-- `_REPPMask._apply`: identity on the string, zero maps, `applied = True`. -/
def maskStep (id : Nat) (s : Str) : Step := ⟨.mask id, s, s, true, zeromap s, zeromap s⟩

/-- the summary step a group yields after its operations. -/
def summaryStep (s o : Str) (applied : Bool) : Step := ⟨.group, s, o, applied, zeromap o, zeromap o⟩

/-- `o` after the steps of an operation: the output of the last step, unchanged when nothing was yielded. -/
def lastOut : List Step → Str → Str
  | [], s => s
  | [st], _ => st.out
  | _ :: r, s => lastOut r s

mutual
/-- `operation._apply(s, active, mask)`: the steps it yields; `none` = out of fuel. -/
def applyOp (eng : Eng) : Nat → Op → Str → Option (List Step)
  | 0, _, _ => none
  | _ + 1, .rule id tr un, s => some [ruleStep eng id tr un s]
  | _ + 1, .mask id, s => some [maskStep id s]
  | f + 1, .ext active ops, s => if active then groupApply eng f ops s else some []
  | f + 1, .iter ops, s => iterApply eng f ops s
/-- the `for operation in self.operations` loop of `_REPPGroup._apply`. -/
def applyOps (eng : Eng) : Nat → List Op → Str → Option (List Step × Str)
  | 0, _, _ => none
  | _ + 1, [], s => some ([], s)
  | f + 1, op :: r, s =>
    match applyOp eng f op s with
    | none => none
    | some st =>
      match applyOps eng f r (lastOut st s) with
      | none => none
      | some (st2, o) => some (st ++ st2, o)
/-- `_REPPGroup._apply`: the operations' steps, then the summary step. -/
def groupApply (eng : Eng) : Nat → List Op → Str → Option (List Step)
  | 0, _, _ => none
  | f + 1, ops, s =>
    match applyOps eng f ops s with
    | none => none
    | some (st, o) => some (st ++ [summaryStep s o (st.any (·.applied))])
/-- `_REPPInternalGroup._apply`: run the group, and again on its output while the output differs
from the input of that round. -/
def iterApply (eng : Eng) : Nat → List Op → Str → Option (List Step)
  | 0, _, _ => none
  | f + 1, ops, s =>
    match groupApply eng f ops s with
    | none => none
    | some st =>
      let o := lastOut st s
      if o = s then some st
      else match iterApply eng f ops o with
        | none => none
        | some st2 => some (st ++ st2)
end

/-- `REPP._trace` string part: the top module runs as a plain group whatever is active;
the result string is the output of the last step. -/
def traceSteps (eng : Eng) (fuel : Nat) (ops : List Op) (s : Str) : Except Err (List Step × Str) :=
  match groupApply eng fuel ops s with
  | none => .error .fuel
  | some st => .ok (st, lastOut st s)

/-- `REPP.trace(s, verbose)`: the steps shown. -/
def shownSteps (verbose : Bool) (st : List Step) : List Step := st.filter (fun x => x.applied || verbose)

/-! ### reference semantics: ordered regular-expression substitution -/

/-- `re.sub` with the match list given: gap, expansion, gap, …, rest. -/
def subst (s : Str) (segs : List Seg) : List M → Nat → Str
  | [], pos => s.drop pos
  | m :: ms, pos => slice s pos m.s ++ expand s m segs ++ subst s segs ms m.e

mutual
/-- Rules in order as global substitutions; an inactive external group does nothing; an iterative
group is re-run until its output stops changing.  Same fuel discipline as `applyOp`. -/
def runOp (eng : Eng) : Nat → Op → Str → Option Str
  | 0, _, _ => none
  | _ + 1, .rule id tr un, s => some (subst s (tr ++ un) (eng id s) 0)
  | _ + 1, .mask _, s => some s
  | f + 1, .ext active ops, s => if active then runGroup eng f ops s else some s
  | f + 1, .iter ops, s => runIter eng f ops s
def runOps (eng : Eng) : Nat → List Op → Str → Option Str
  | 0, _, _ => none
  | _ + 1, [], s => some s
  | f + 1, op :: r, s =>
    match runOp eng f op s with
    | none => none
    | some o => runOps eng f r o
def runGroup (eng : Eng) : Nat → List Op → Str → Option Str
  | 0, _, _ => none
  | f + 1, ops, s => runOps eng f ops s
def runIter (eng : Eng) : Nat → List Op → Str → Option Str
  | 0, _, _ => none
  | f + 1, ops, s =>
    match runGroup eng f ops s with
    | none => none
    | some o => if o = s then some o else runIter eng f ops o
end

/-! ### includes: `<file` splices the file's lines in place (the line queue of `_parse_repp_module`) -/

inductive Line where
  | op (o : Op)
  | incl (lines : List Line)

mutual
def flattenLine : Line → List Op
  | .op o => [o]
  | .incl ls => flattenLines ls
def flattenLines : List Line → List Op
  | [] => []
  | l :: r => flattenLine l ++ flattenLines r
end

/-! ### parameter assumptions on the engine's answers -/

def groupInside (m : M) : Option (Nat × Nat) → Prop
  | none => True
  | some (a, b) => m.s ≤ a ∧ a ≤ b ∧ b ≤ m.e

/-- A match lies inside the string, its groups inside the match. -/
def M.Valid (n : Nat) (m : M) : Prop :=
  m.s ≤ m.e ∧ m.e ≤ n ∧ ∀ g ∈ m.groups, groupInside m g

/-- `finditer` answers: ordered, non-overlapping, inside the string (from position `pos` on). -/
def ValidFrom (n : Nat) : Nat → List M → Prop
  | _, [] => True
  | pos, m :: ms => pos ≤ m.s ∧ m.Valid n ∧ ValidFrom n m.e ms

def ValidMatches (s : Str) (ms : List M) : Prop := ValidFrom s.length 0 ms

def EngValid (eng : Eng) : Prop := ∀ id s, ValidMatches s (eng id s)

/-! ### specification vocabulary for the trace -/

/-- plain chain: every step starts where the previous one ended; `o` is the end of the chain. -/
def Chain : Str → List Step → Str → Prop
  | cur, [], o => o = cur
  | cur, st :: r, o => st.inp = cur ∧ Chain st.out r o

/-- chain of ALL yielded steps from the current string `cur`: a rule/mask step starts from `cur`
and moves to its output; a group summary step reports the current string as its output. -/
def ChainFrom : Str → List Step → Str → Prop
  | cur, [], o => o = cur
  | cur, st :: r, o =>
    if st.isBasic then st.inp = cur ∧ ChainFrom st.out r o else st.out = cur ∧ ChainFrom cur r o

/-- the same, saying what every step is: the rule's own step on the current string, a mask step,
or a summary step (zero maps of the current string). -/
def TraceFrom (eng : Eng) : Str → List Step → Str → Prop
  | cur, [], o => o = cur
  | cur, st :: r, o =>
    match st.kind with
    | .rule id tr un => st = ruleStep eng id tr un cur ∧ TraceFrom eng st.out r o
    | .mask id => st = maskStep id cur ∧ TraceFrom eng cur r o
    | .group => (∃ a b, st = summaryStep a cur b) ∧ TraceFrom eng cur r o

/-- `o` is reached from `s` by re-running `R` until the output stops changing. -/
inductive IterTo (R : Str → Str → Prop) : Str → Str → Prop
  | stop {s : Str} : R s s → IterTo R s s
  | step {s t o : Str} : R s t → t ≠ s → IterTo R t o → IterTo R s o

/-- the body of a group as a relation (some fuel suffices). -/
def GroupRel (eng : Eng) (ops : List Op) (a b : Str) : Prop := ∃ k, runGroup eng k ops a = some b

end Verif.C13
