/- C13 + C14 line-protocol driver (shared): `lake env lean --run Verif/C13/Driver.lean` -/
import Verif.Common.Proto
import Verif.C13.Model
import Verif.C14.Model
import Verif.C13.Loader
import Verif.C13.Mask
import Verif.C13.Link
import Verif.C13.Text
import Verif.C13.Active
import Verif.C13.LoaderSplice
import Verif.C13.Engine
import Verif.C13.Registry
import Verif.C14.Masked
open Lean Verif.Proto Verif.C13 Verif.C14

namespace Verif.C13.Driver

def errTag : Err → String
  | .fuel => "fuel"
  | .indexError => "IndexError"
  | .valueError => "ValueError"
  | .reError => "re.error"
  | .engine => "engine"

def jSeg : Seg → Json
  | .lit l => Json.mkObj [("lit", cps l)]
  | .grp g => Json.mkObj [("grp", jNat g)]

def ofSpan (j : Json) : Except String (Option (Nat × Nat)) :=
  match j with
  | Json.null => pure none
  | _ => do
    let a ← j.getArr?
    match a.toList with
    | [x, y] => pure (some (← x.getNat?, ← y.getNat?))
    | _ => throw "bad span"

def ofM (j : Json) : Except String M := do
  let gs ← (← getArr j "g").mapM ofSpan
  pure { s := ← getNat j "s", e := ← getNat j "e", groups := gs }

structure EngEntry where
  id : Nat
  s : Str
  ms : List M

def ofEngEntry (j : Json) : Except String EngEntry := do
  pure { id := ← getNat j "id", s := ← getCps j "s", ms := ← (← getArr j "ms").mapM ofM }

def lookup (tab : List EngEntry) (id : Nat) (s : Str) : Option (List M) :=
  (tab.find? (fun e => e.id = id && e.s = s)).map (·.ms)

def engOf (tab : List EngEntry) : Eng := fun id s => (lookup tab id s).getD []

structure RuleDef where
  id : Nat
  pat : Str
  tpl : Str
  names : List (Str × Nat)
  ngroups : Nat

def ofName (j : Json) : Except String (Str × Nat) := do
  let a ← j.getArr?
  match a.toList with
  | [x, y] => pure (← ofCps x, ← y.getNat?)
  | _ => throw "bad name"

def ofRuleDef (j : Json) : Except String RuleDef := do
  pure { id := ← getNat j "id", pat := (getCps j "pat").toOption.getD [], tpl := ← getCps j "tpl", names := ← (← getArr j "names").mapM ofName,
         ngroups := ← getNat j "ngroups" }

def loadDef (d : RuleDef) : Except Err Op :=
  match parseTemplate d.names d.tpl with
  | .error e => .error e
  | .ok segs => loadRule d.id d.ngroups segs

def jLoad (d : RuleDef) : Json :=
  match loadDef d with
  | .ok (.rule _ tr un) => Json.mkObj [("tracked", jList jSeg tr), ("untracked", jList jSeg un)]
  | .ok _ => jErr "internal"
  | .error e => jErr (errTag e)

partial def ofLine (defs : List RuleDef) (j : Json) : Except String Line := do
  let k ← getStr j "k"
  match k with
  | "rule" =>
    let id ← getNat j "id"
    match defs.find? (fun d => d.id = id) with
    | none => throw "unknown rule id"
    | some d =>
      match loadDef d with
      | .ok op => pure (.op op)
      | .error e => throw s!"load:{errTag e}"
  | "mask" => pure (.op (.mask (← getNat j "id")))
  | "iter" =>
    let ls ← (← getArr j "ops").mapM (ofLine defs)
    pure (.op (.iter (flattenLines ls)))
  | "ext" =>
    let ls ← (← getArr j "ops").mapM (ofLine defs)
    pure (.op (.ext (← getBool j "active") (flattenLines ls)))
  | "incl" =>
    let ls ← (← getArr j "lines").mapM (ofLine defs)
    pure (.incl ls)
  | _ => throw s!"bad line kind {k}"

def jInts (xs : List Int) : Json := jList jInt xs

def jStep (st : Step) : Json :=
  let (k, id) : String × Json := match st.kind with
    | .rule id _ _ => ("rule", jNat id)
    | .mask id => ("mask", jNat id)
    | .group => ("group", Json.null)
  Json.mkObj [("kind", Json.str k), ("id", id), ("inp", cps st.inp), ("out", cps st.out),
              ("applied", Json.bool st.applied), ("sm", jInts st.sm), ("em", jInts st.em)]

def jTok (t : Tok) : Json := Json.arr #[jInt t.cfrom, jInt t.cto, cps t.form]

def jLnk : Verif.Codec.Lnk → Json
  | .charspan a b => Json.arr #[jInt a, jInt b]
  | _ => Json.null

def jYTok (t : YTok) : Json :=
  Json.mkObj [("id", jInt t.id), ("start", jInt t.start), ("end", jInt t.stop), ("lnk", jLnk t.lnk),
              ("paths", jInts t.paths), ("form", cps t.form), ("surface", optCps t.surface), ("ipos", jInt t.ipos)]

def ofYTok (j : Json) : Except String YTok := do
  let l ← j.getObjVal? "lnk"
  let lnk : Verif.Codec.Lnk ← match l with
    | Json.null => pure Verif.Codec.Lnk.unspec
    | _ => do
      let a ← l.getArr?
      match a.toList with
      | [x, y] => pure (Verif.Codec.Lnk.charspan (← x.getInt?) (← y.getInt?))
      | _ => throw "bad lnk"
  pure { id := ← getInt j "id", start := ← getInt j "start", stop := ← getInt j "end", lnk := lnk,
         paths := ← (← getArr j "paths").mapM (·.getInt?), form := ← getCps j "form",
         surface := ← getOptCps j "surface", ipos := ← getInt j "ipos" }

def jParsed : Option (List YTok) → Json
  | none => jErr "unmodelled"
  | some ts => jList jYTok ts

def ofSep (j : Json) : Except String (Nat × Nat) := do
  let a ← j.getArr?
  match a.toList with
  | [x, y] => pure (← x.getNat?, ← y.getNat?)
  | _ => throw "bad sep"

def stepsCovered (tab : List EngEntry) (steps : List Step) : Bool :=
  steps.all fun st => match st.kind with
    | .rule id _ _ => (lookup tab id st.inp).isSome
    | _ => true

/-! ### loader ops -/
namespace Ld
open Verif.C13.Loader

def errTag : LErr → String
  | .reppError => "REPPError"
  | .indexError => "IndexError"
  | .attributeError => "AttributeError"
  | .fuel => "fuel"

def jLOp : LOp → Json
  | .rule p t => Json.mkObj [("k", "rule"), ("pat", cps p), ("tpl", cps t)]
  | .mask p => Json.mkObj [("k", "mask"), ("pat", cps p)]
  | .call n => Json.mkObj [("k", "call"), ("n", cps n)]
  | .ext nm => Json.mkObj [("k", "ext"), ("name", cps nm)]

def jModule (m : Loader.Module) : Json :=
  Json.mkObj [("ops", jList jLOp m.ops),
              ("groups", jList (fun g => Json.arr #[cps g.1, jList jLOp g.2]) m.groups),
              ("tok", optCps m.tok), ("info", optCps m.info)]

def ofFile (j : Json) : Except String (Str × List Str) := do
  let a ← j.getArr?
  match a.toList with
  | [n, ls] => pure (← ofCps n, ← (← ls.getArr?).toList.mapM ofCps)
  | _ => throw "bad file"

partial def ofNode (j : Json) : Except String Node := do
  let k ← getStr j "k"
  match k with
  | "rule" => pure (.rule (← getCps j "pat") (← getCps j "tpl"))
  | "mask" => pure (.mask (← getCps j "pat"))
  | "call" => pure (.call (← getCps j "n"))
  | "ext" => pure (.ext (← getCps j "name"))
  | "defcall" => do
    let body ← (← getArr j "body").mapM ofNode
    pure (.defcall (← getCps j "n") body (← getBool j "after"))
  | _ => throw s!"bad node {k}"

def ofText (j : Json) : Except String (Str × Str) := do
  let a ← j.getArr?
  match a.toList with
  | [n, t] => pure (← ofCps n, ← ofCps t)
  | _ => throw "bad file text"

/-- with "ftexts": the directory's files as TEXTS (`TextEnv`, split by the model's `splitLines`). -/
def teOf (j : Json) : Except String (Option TextEnv) := do
  match j.getObjVal? "ftexts" with
  | .ok (Json.arr a) =>
    let texts ← a.toList.mapM ofText
    let pre ← (← getArr j "pre").mapM ofCps
    pure (some { texts := fun n => (texts.find? (fun f => f.1 = n)).map (·.2), hasDir := ← getBool j "hasDir", pre := pre })
  | _ => pure none

def envOf (j : Json) : Except String Env := do
  match ← teOf j with
  | some te => pure te.toEnv
  | none =>
    let files ← (← getArr j "files").mapM ofFile
    let pre ← (← getArr j "pre").mapM ofCps
    pure { files := fun n => (files.find? (fun f => f.1 = n)).map (·.2), hasDir := ← getBool j "hasDir", pre := pre }

/-- the lines of the top module: given as lines, or as TEXT split by `splitLines`. -/
def linesOf (j : Json) : Except String (List Str) := do
  match j.getObjVal? "text" with
  | .ok t@(Json.arr _) => pure (splitLines (← ofCps t))
  | _ => (← getArr j "lines").mapM ofCps

def jLoaded : Except LErr (Loader.Module × List (Str × Loader.Module)) → Json
  | .error e => jErr (errTag e)
  | .ok (m, mods) => jOk (Json.mkObj [("main", jModule m),
      ("mods", jList (fun x => Json.arr #[cps x.1, jModule x.2]) mods)])

def handleLoad (j : Json) : Except String Json := do
  match ← teOf j, j.getObjVal? "text" with
  | some te, .ok t@(Json.arr _) => pure (jLoaded (loadText te (← getNat j "fuel") (← ofCps t)))
  | _, _ =>
    let env ← envOf j
    let lines ← linesOf j
    let k ← getNat j "fuel"
    let r := jLoaded (loadLines env k lines)
    -- every include spliced in place, to depth 8 (`include_splice_all_text`): must load to the same
    let sp := spliceAll env 8 lines
    pure (r.setObjVal! "spliced" (jLoaded (loadLines env k sp)) |>.setObjVal! "splicefree" (Json.bool (includeFree env sp)))

def handleRender (j : Json) : Except String Json := do
  let env ← envOf j
  let nodes ← (← getArr j "nodes").mapM ofNode
  let info ← getOptCps j "info"
  let tok ← getOptCps j "tok"
  let lines := renderModule info tok nodes
  pure (Json.mkObj [("lines", jList cps lines), ("loaded", jLoaded (loadLines env (← getNat j "fuel") lines)),
                    ("wf", Json.bool (wfNodes env.pre nodes))])

end Ld

/-- maps, tokens and YY string of one run, given the yielded steps (already as JSON). -/
def finishRun (stepsJ : Json) (res : Result) (seps : Option (List (Nat × Nat))) : Json :=
  let base := [("steps", stepsJ), ("string", cps res.string),
               ("startmap", jInts res.startmap), ("endmap", jInts res.endmap)]
  match seps with
  | none => Json.mkObj base
  | some seps =>
    match tokenize res seps with
    | none => Json.mkObj (base ++ [("tokens", jErr "IndexError")])
    | some toks =>
      let lat := latticeOf toks 0
      let str := latStr lat
      Json.mkObj (base ++ [("tokens", jList jTok toks), ("yy", cps str), ("reparsed", jParsed (latParse str))])

/-- one input string of a "run" request. -/
def runOne (tab : List EngEntry) (ops : List Op) (fuel : Nat) (input : Str) (seps : Option (List (Nat × Nat))) : Json :=
  match Verif.C14.apply (engOf tab) fuel ops input with
  | .error e => jErr (errTag e)
  | .ok (steps, res) =>
    if !stepsCovered tab steps then jErr "engine"
    else finishRun (jList jStep steps) res seps

def jStepM (st : StepM) : Json :=
  (jStep st.step).setObjVal! "mask" (jList jNat st.mask)

def maskStepsCovered (mtab : List EngEntry) (steps : List Step) : Bool :=
  steps.all fun st => match st.kind with
    | .mask id => (lookup mtab id st.inp).isSome
    | _ => true

/-- one input string with the mask-threading semantics (`meng` table given). -/
def runOneM (tab mtab : List EngEntry) (ops : List Op) (fuel : Nat) (input : Str) (seps : Option (List (Nat × Nat))) : Json :=
  match Verif.C14.applyM (engOf tab) (engOf mtab) fuel ops input with
  | .error e => jErr (errTag e)
  | .ok (stm, res) =>
    let steps := stm.map (·.step)
    if !stepsCovered tab steps || !maskStepsCovered mtab steps then jErr "engine"
    else finishRun (jList jStepM stm) res seps

def ofSeps (j : Json) : Except String (Option (List (Nat × Nat))) :=
  match j with
  | Json.arr a => do pure (some (← a.toList.mapM ofSep))
  | _ => pure none

/-- the operation tree obtained from the TEXT: loader model on every module text (preloaded string
modules first, the main text last), then `Link.linkModule`. -/
structure TextCtx where
  env : Loader.Env
  E : Link.LinkEnv            -- `mods` = the preloaded modules only; `Link.applyText` adds the file-loaded ones
  lines : List Str
  k : Nat

/-- what `Link.applyText` needs, read from the request: the preloaded string modules are loaded with the
loader model first (in the harness's order), the main text is left to `Link.applyText`. -/
def textCtx (defs : List RuleDef) (j : Json) : Except String TextCtx := do
  let lk ← j.getObjVal? "link"
  let active ← (← getArr lk "active").mapM ofCps
  let maskpats ← (← getArr lk "masks").mapM ofCps
  let lts ← getArr j "ltexts"
  let mut mods : List (Str × Loader.Module) := []
  let mut main : Option (Loader.Env × List Str × Nat) := none
  for lt in lts do
    let env ← Ld.envOf lt
    let lines ← Ld.linesOf lt
    let label ← getCps lt "label"
    let k ← getNat lt "fuel"
    if label = "main".toList then main := some (env, lines, k)
    else match Loader.loadLines env k lines with
      | .error e => throw s!"model: load {Ld.errTag e}"
      | .ok (m, _) => mods := mods ++ [(label, m)]
  match main with
  | none => throw "no main text"
  | some (env, lines, k) =>
    pure { env := env, lines := lines, k := k,
           E := { ruleId := fun p t => ((defs.find? (fun d => d.pat = p && d.tpl = t)).map (·.id)).getD 999999,
                  maskId := fun p => (maskpats.findIdx? (· = p)).getD 999999,
                  ngroups := fun p => ((defs.find? (fun d => d.pat = p)).map (·.ngroups)).getD 0,
                  names := fun p => ((defs.find? (fun d => d.pat = p)).map (·.names)).getD [],
                  mods := mods, active := active } }

/-- only for the `treeagree` flag: the operation tree linked from the text. -/
def textOps (c : TextCtx) (fuel : Nat) : Except String (List Op) :=
  match Loader.loadLines c.env c.k c.lines with
  | .error e => throw s!"model: load {Ld.errTag e}"
  | .ok (m, ms) =>
    match Link.linkModule { c.E with mods := c.E.mods ++ ms } fuel m with
    | .error e => throw s!"model: link {errTag e}"
    | .ok ops => pure ops

def tErrTag : Link.TErr → String
  | .load e => "load:" ++ Ld.errTag e
  | .run e => errTag e

/-- one input through `Link.applyText` — the function the text-level theorems are about. -/
def runText (c : TextCtx) (tab : List EngEntry) (fuel : Nat) (input : Str) (seps : Option (List (Nat × Nat))) : Json :=
  match Link.applyText c.env c.E (engOf tab) c.k fuel c.lines input with
  | .error e => jErr (tErrTag e)
  | .ok (steps, res) =>
    if !stepsCovered tab steps then jErr "engine" else finishRun (jList jStep steps) res seps

/-- one input through `Link.applyTextM` (mask-threading semantics). -/
def runTextM (c : TextCtx) (tab mtab : List EngEntry) (fuel : Nat) (input : Str) (seps : Option (List (Nat × Nat))) : Json :=
  match Link.applyTextM c.env c.E (engOf tab) (engOf mtab) c.k fuel c.lines input with
  | .error e => jErr (tErrTag e)
  | .ok (stm, res) =>
    let steps := stm.map (·.step)
    if !stepsCovered tab steps || !maskStepsCovered mtab steps then jErr "engine"
    else finishRun (jList jStepM stm) res seps

/-! ### one object, a history of calls (`Link.runCalls`, Active.lean) -/

def ofActive (j : Json) : Except String (Option (List Str)) :=
  match j with
  | Json.arr a => do pure (some (← a.toList.mapM ofCps))
  | _ => pure none

def ofCall (j : Json) : Except String Link.Call := do
  let c ← getStr j "c"
  match c with
  | "activate" => pure (.activate (← getCps j "n"))
  | "deactivate" => pure (.deactivate (← getCps j "n"))
  | "apply" => pure (.apply (← getCps j "s") (← ofActive ((j.getObjVal? "active").toOption.getD Json.null)))
  | "trace" => pure (.trace (← getCps j "s") (← ofActive ((j.getObjVal? "active").toOption.getD Json.null)) (← getBool j "verbose"))
  | _ => throw s!"bad call {c}"

/-- `_trace(s, active, verbose)` of the module loaded from the text, under the active set `act`:
the steps shown (`applied or verbose`) and the result. -/
def runShown (c : TextCtx) (tab : List EngEntry) (mtab? : Option (List EngEntry)) (fuel : Nat)
    (act : List Str) (input : Str) (verbose : Bool) : Json :=
  let c' : TextCtx := { c with E := { c.E with active := act } }
  match mtab? with
  | none =>
    match Link.applyText c'.env c'.E (engOf tab) c'.k fuel c'.lines input with
    | .error e => jErr (tErrTag e)
    | .ok (steps, res) =>
      if !stepsCovered tab steps then jErr "engine"
      else finishRun (jList jStep (shownSteps verbose steps)) res none
  | some mtab =>
    match Link.applyTextM c'.env c'.E (engOf tab) (engOf mtab) c'.k fuel c'.lines input with
    | .error e => jErr (tErrTag e)
    | .ok (stm, res) =>
      let steps := stm.map (·.step)
      if !stepsCovered tab steps || !maskStepsCovered mtab steps then jErr "engine"
      else finishRun (jList jStep (shownSteps verbose steps)) res none

/-- why `latParse` gives no list: the first token outside the modelled shapes ("unmodelled") or the
ValueError of `from_string` on glued paths ("ValueError"), whichever the scan meets first. -/
def yyWhy : Nat → Str → String
  | 0, _ => "unmodelled"
  | _ + 1, [] => "unmodelled"
  | f + 1, c :: r =>
    match matchTok (c :: r) with
    | .nomatch => yyWhy f r
    | .unmodelled => "unmodelled"
    | .valueError => "ValueError"
    | .tok _ rest => yyWhy f rest

def handle (j : Json) : Except String Json := do
  let op ← getStr j "op"
  match op with
  | "run" =>
    let defs ← (← getArr j "rules").mapM ofRuleDef
    let load := jList jLoad defs
    if defs.any (fun d => match loadDef d with | .ok _ => false | .error _ => true) then
      return Json.mkObj [("load", load)]
    let lines ← (← getArr j "prog").mapM (ofLine defs)
    let opsTree := flattenLines lines
    -- with "link": run what the TEXT gives (load + link); report whether the harness's tree is the same
    let tab ← (← getArr j "eng").mapM ofEngEntry
    let inputs ← (← getArr j "inputs").mapM ofCps
    let sepsL ← (← getArr j "seps").mapM ofSeps
    let fuel ← getNat j "fuel"
    let mtab? ← match j.getObjVal? "meng" with
      | .ok (Json.arr a) => do pure (some (← a.toList.mapM ofEngEntry))
      | _ => pure none
    let (runs, agree) ← match j.getObjVal? "link" with
      | .ok _ => do
        -- the model runs `Link.applyText` / `Link.applyTextM` on the TEXT; the harness's tree is only compared
        let c ← textCtx defs j
        let o ← textOps c fuel
        let rs := match mtab? with
          | some mtab => (inputs.zip sepsL).map (fun (inp, sp) => runTextM c tab mtab fuel inp sp)
          | none => (inputs.zip sepsL).map (fun (inp, sp) => runText c tab fuel inp sp)
        pure (rs, Json.bool (reprStr o == reprStr opsTree))
      | .error _ =>
        let rs := match mtab? with
          | some mtab => (inputs.zip sepsL).map (fun (inp, sp) => runOneM tab mtab opsTree fuel inp sp)
          | none => (inputs.zip sepsL).map (fun (inp, sp) => runOne tab opsTree fuel inp sp)
        pure (rs, Json.null)
    let session ← match j.getObjVal? "calls", j.getObjVal? "link" with
      | .ok (Json.arr cs), .ok _ => do
        let c ← textCtx defs j
        let calls ← cs.toList.mapM ofCall
        let d0 ← (← getArr j "defaults").mapM ofCps
        -- "obj": 1 addresses a second REPP object built from the same text and the same modules dict
        let tags ← cs.toList.mapM (fun cj => pure (((cj.getObjVal? "obj").toOption.bind (·.getNat?.toOption)).getD 0 == 1))
        let d1 ← match j.getObjVal? "defaults2" with
          | .ok (Json.arr a) => a.toList.mapM ofCps
          | _ => pure []
        let run := runShown c tab mtab? fuel
        let answers := Link.runCalls2 run run (⟨d0⟩, ⟨d1⟩) (tags.zip calls)
        pure (Json.arr (answers.map (fun a => a.2.getD Json.null)).toArray)
      | _, _ => pure Json.null
    let loaded ← match j.getObjVal? "ltexts" with
      | .ok (Json.arr a) => a.toList.mapM (fun lt => do
          let env ← Ld.envOf lt
          let lines ← Ld.linesOf lt
          pure (Ld.jLoaded (Loader.loadLines env (← getNat lt "fuel") lines)))
      | _ => pure []
    let engok := tab.all (fun e => findIterOk e.s.length 0 false e.ms)
    let adj := (tab.map (fun e => adjacentEmpty 0 e.ms)).sum
    pure (Json.mkObj [("engok", Json.bool engok), ("adjacent_empty", jNat adj),
                      ("load", load), ("runs", Json.arr runs.toArray), ("loaded", Json.arr loaded.toArray),
                      ("treeagree", agree), ("session", session)])
  | "load" => Ld.handleLoad j
  | "render" => Ld.handleRender j
  | "yy" =>
    let toks ← (← getArr j "tokens").mapM ofYTok
    let str := latStr toks
    pure (Json.mkObj [("yy", cps str), ("reparsed", jParsed (latParse str))])
  | "yyparse" =>
    let str ← getCps j "s"
    match latParse str with
    | some ts => pure (Json.mkObj [("reparsed", jList jYTok ts)])
    | none => pure (Json.mkObj [("reparsed", jErr (yyWhy (str.length + 1) str)), ("why", Json.str (yyWhy (str.length + 1) str))])
  | "registry" =>
    -- two REPP objects over shared module objects (Registry.lean): which calls of the first run, before and
    -- after the second is constructed
    let ofD (a : Array Json) : Except String (List (Str × Nat)) := a.toList.mapM (fun x => do
      let p ← x.getArr?
      match p.toList with
      | [k, i] => pure (← ofCps k, ← i.getNat?)
      | _ => throw "bad registry entry")
    let d1 ← ofD (← getArr j "d1").toArray
    let d2 ← ofD (← getArr j "d2").toArray
    let probes ← (← getArr j "probes").mapM (fun x => do (← x.getArr?).toList.mapM ofCps)
    let w0 : Link.World := fun _ => []
    let (w1, r1) := Link.construct w0 d1 []
    let (w2, _) := Link.construct w1 d2 []
    let calls := d1.map (·.1)
    pure (Json.mkObj [("before", jList (fun a => jList jNat (Link.runningCalls w1 r1 calls a)) probes),
                      ("after", jList (fun a => jList jNat (Link.runningCalls w2 r1 calls a)) probes)])
  | _ => throw s!"bad op {op}"

end Verif.C13.Driver

def main : IO Unit := Verif.Proto.serve Verif.C13.Driver.handle
