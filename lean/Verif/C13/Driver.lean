/- C13 + C14 line-protocol driver (shared): `lake env lean --run Verif/C13/Driver.lean` -/
import Verif.Common.Proto
import Verif.C13.Model
import Verif.C14.Model
open Lean Verif.Proto Verif.C13 Verif.C14

namespace Verif.C13.Driver

def errTag : Err → String
  | .fuel => "fuel"
  | .indexError => "IndexError"
  | .valueError => "ValueError"
  | .reError => "re.error"
  | .engine => "engine"

def jSeg : Seg → Json
  | .lit l => Json.mkObj [("lit", cps l)]
  | .grp g => Json.mkObj [("grp", jNat g)]

def ofSpan (j : Json) : Except String (Option (Nat × Nat)) :=
  match j with
  | Json.null => pure none
  | _ => do
    let a ← j.getArr?
    match a.toList with
    | [x, y] => pure (some (← x.getNat?, ← y.getNat?))
    | _ => throw "bad span"

def ofM (j : Json) : Except String M := do
  let gs ← (← getArr j "g").mapM ofSpan
  pure { s := ← getNat j "s", e := ← getNat j "e", groups := gs }

structure EngEntry where
  id : Nat
  s : Str
  ms : List M

def ofEngEntry (j : Json) : Except String EngEntry := do
  pure { id := ← getNat j "id", s := ← getCps j "s", ms := ← (← getArr j "ms").mapM ofM }

def lookup (tab : List EngEntry) (id : Nat) (s : Str) : Option (List M) :=
  (tab.find? (fun e => e.id = id && e.s = s)).map (·.ms)

def engOf (tab : List EngEntry) : Eng := fun id s => (lookup tab id s).getD []

structure RuleDef where
  id : Nat
  tpl : Str
  names : List (Str × Nat)
  ngroups : Nat

def ofName (j : Json) : Except String (Str × Nat) := do
  let a ← j.getArr?
  match a.toList with
  | [x, y] => pure (← ofCps x, ← y.getNat?)
  | _ => throw "bad name"

def ofRuleDef (j : Json) : Except String RuleDef := do
  pure { id := ← getNat j "id", tpl := ← getCps j "tpl", names := ← (← getArr j "names").mapM ofName,
         ngroups := ← getNat j "ngroups" }

def loadDef (d : RuleDef) : Except Err Op :=
  match parseTemplate d.names d.tpl with
  | .error e => .error e
  | .ok segs => loadRule d.id d.ngroups segs

def jLoad (d : RuleDef) : Json :=
  match loadDef d with
  | .ok (.rule _ tr un) => Json.mkObj [("tracked", jList jSeg tr), ("untracked", jList jSeg un)]
  | .ok _ => jErr "internal"
  | .error e => jErr (errTag e)

partial def ofLine (defs : List RuleDef) (j : Json) : Except String Line := do
  let k ← getStr j "k"
  match k with
  | "rule" =>
    let id ← getNat j "id"
    match defs.find? (fun d => d.id = id) with
    | none => throw "unknown rule id"
    | some d =>
      match loadDef d with
      | .ok op => pure (.op op)
      | .error e => throw s!"load:{errTag e}"
  | "mask" => pure (.op (.mask (← getNat j "id")))
  | "iter" =>
    let ls ← (← getArr j "ops").mapM (ofLine defs)
    pure (.op (.iter (flattenLines ls)))
  | "ext" =>
    let ls ← (← getArr j "ops").mapM (ofLine defs)
    pure (.op (.ext (← getBool j "active") (flattenLines ls)))
  | "incl" =>
    let ls ← (← getArr j "lines").mapM (ofLine defs)
    pure (.incl ls)
  | _ => throw s!"bad line kind {k}"

def jInts (xs : List Int) : Json := jList jInt xs

def jStep (st : Step) : Json :=
  let (k, id) : String × Json := match st.kind with
    | .rule id _ _ => ("rule", jNat id)
    | .mask id => ("mask", jNat id)
    | .group => ("group", Json.null)
  Json.mkObj [("kind", Json.str k), ("id", id), ("inp", cps st.inp), ("out", cps st.out),
              ("applied", Json.bool st.applied), ("sm", jInts st.sm), ("em", jInts st.em)]

def jTok (t : Tok) : Json := Json.arr #[jInt t.cfrom, jInt t.cto, cps t.form]

def jLnk : Verif.Codec.Lnk → Json
  | .charspan a b => Json.arr #[jInt a, jInt b]
  | _ => Json.null

def jYTok (t : YTok) : Json :=
  Json.mkObj [("id", jInt t.id), ("start", jInt t.start), ("end", jInt t.stop), ("lnk", jLnk t.lnk),
              ("paths", jInts t.paths), ("form", cps t.form), ("surface", optCps t.surface), ("ipos", jInt t.ipos)]

def ofYTok (j : Json) : Except String YTok := do
  let l ← j.getObjVal? "lnk"
  let lnk : Verif.Codec.Lnk ← match l with
    | Json.null => pure Verif.Codec.Lnk.unspec
    | _ => do
      let a ← l.getArr?
      match a.toList with
      | [x, y] => pure (Verif.Codec.Lnk.charspan (← x.getInt?) (← y.getInt?))
      | _ => throw "bad lnk"
  pure { id := ← getInt j "id", start := ← getInt j "start", stop := ← getInt j "end", lnk := lnk,
         paths := ← (← getArr j "paths").mapM (·.getInt?), form := ← getCps j "form",
         surface := ← getOptCps j "surface", ipos := ← getInt j "ipos" }

def jParsed : Option (List YTok) → Json
  | none => jErr "unmodelled"
  | some ts => jList jYTok ts

def ofSep (j : Json) : Except String (Nat × Nat) := do
  let a ← j.getArr?
  match a.toList with
  | [x, y] => pure (← x.getNat?, ← y.getNat?)
  | _ => throw "bad sep"

def stepsCovered (tab : List EngEntry) (steps : List Step) : Bool :=
  steps.all fun st => match st.kind with
    | .rule id _ _ => (lookup tab id st.inp).isSome
    | _ => true

/-- one input string of a "run" request. -/
def runOne (tab : List EngEntry) (ops : List Op) (fuel : Nat) (input : Str) (seps : Option (List (Nat × Nat))) : Json :=
  match Verif.C14.apply (engOf tab) fuel ops input with
  | .error e => jErr (errTag e)
  | .ok (steps, res) =>
    if !stepsCovered tab steps then jErr "engine"
    else
      let base := [("steps", jList jStep steps), ("string", cps res.string),
                   ("startmap", jInts res.startmap), ("endmap", jInts res.endmap)]
      match seps with
      | none => Json.mkObj base
      | some seps =>
        match tokenize res seps with
        | none => Json.mkObj (base ++ [("tokens", jErr "IndexError")])
        | some toks =>
          let lat := latticeOf toks 0
          let str := latStr lat
          Json.mkObj (base ++ [("tokens", jList jTok toks), ("yy", cps str), ("reparsed", jParsed (latParse str))])

def ofSeps (j : Json) : Except String (Option (List (Nat × Nat))) :=
  match j with
  | Json.arr a => do pure (some (← a.toList.mapM ofSep))
  | _ => pure none

def handle (j : Json) : Except String Json := do
  let op ← getStr j "op"
  match op with
  | "run" =>
    let defs ← (← getArr j "rules").mapM ofRuleDef
    let load := jList jLoad defs
    if defs.any (fun d => match loadDef d with | .ok _ => false | .error _ => true) then
      return Json.mkObj [("load", load)]
    let lines ← (← getArr j "prog").mapM (ofLine defs)
    let ops := flattenLines lines
    let tab ← (← getArr j "eng").mapM ofEngEntry
    let inputs ← (← getArr j "inputs").mapM ofCps
    let sepsL ← (← getArr j "seps").mapM ofSeps
    let fuel ← getNat j "fuel"
    let runs := (inputs.zip sepsL).map (fun (inp, sp) => runOne tab ops fuel inp sp)
    pure (Json.mkObj [("load", load), ("runs", Json.arr runs.toArray)])
  | "yy" =>
    let toks ← (← getArr j "tokens").mapM ofYTok
    let str := latStr toks
    pure (Json.mkObj [("yy", cps str), ("reparsed", jParsed (latParse str))])
  | "yyparse" =>
    pure (Json.mkObj [("reparsed", jParsed (latParse (← getCps j "s")))])
  | _ => throw s!"bad op {op}"

end Verif.C13.Driver

def main : IO Unit := Verif.Proto.serve Verif.C13.Driver.handle
