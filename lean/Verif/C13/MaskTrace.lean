/-
C13 — the trace of a program WITH masks (no `opsMaskFree` hypothesis): what every yielded step is, the
chain of rule and mask steps, mask steps as identities.  About `traceStepsM` (Mask.lean), the semantics
that threads the mask array as `_REPPGroup._apply` / `_REPPInternalGroup._apply` / `REPP._apply` do.
-/
import Verif.C13.MaskLemmas

namespace Verif.C13

/-- What every yielded step of a run under masks is, from the current string `cur` and the current
mask array `mk`: the rule's own step on `cur` under `mk` (`ruleStepM`: the loop over all matches, the
blocked ones skipped), a mask step (string unchanged, zero maps, the new mask array computed from `mk`
and the mask pattern's matches), or a group summary (current string, zero maps, current mask).
`o`, `mo`: string and mask after the last step. -/
def TraceFromM (eng meng : Eng) : Str → MaskA → List StepM → Str → MaskA → Prop
  | cur, mk, [], o, mo => o = cur ∧ mo = mk
  | cur, mk, st :: r, o, mo =>
    match st.step.kind with
    | .rule id tr un => st = ruleStepM eng id tr un cur mk ∧ TraceFromM eng meng st.step.out st.mask r o mo
    | .mask id => (st.step = maskStep id cur ∧ maskApply mk (meng id cur) mk = some st.mask)
        ∧ TraceFromM eng meng cur st.mask r o mo
    | .group => (∃ a b, st = ⟨summaryStep a cur b, mk⟩) ∧ TraceFromM eng meng cur mk r o mo

namespace L

theorem lastMask_cons_ne (x : StepM) (r : List StepM) (mk mk' : MaskA) : lastMask (x :: r) mk = lastMask (x :: r) mk' := by
  induction r generalizing x with
  | nil => rfl
  | cons y r ih => simp only [lastMask]; exact ih y

theorem lastMask_append (a b : List StepM) (mk : MaskA) : lastMask (a ++ b) mk = lastMask b (lastMask a mk) := by
  induction a generalizing mk with
  | nil => rfl
  | cons x r ih =>
    cases r with
    | nil =>
      cases b with
      | nil => rfl
      | cons y b =>
        show lastMask (x :: y :: b) mk = lastMask (y :: b) (lastMask [x] mk)
        simp only [lastMask]
        exact lastMask_cons_ne y b _ _
    | cons y r =>
      have := ih mk
      simp only [List.cons_append, lastMask] at this ⊢
      exact this

theorem lastMask_snoc (a : List StepM) (x : StepM) (mk : MaskA) : lastMask (a ++ [x]) mk = x.mask := by
  rw [lastMask_append]; rfl

theorem traceFromM_append (eng meng : Eng) (a b c : Str) (ma mb mc : MaskA) (st1 st2 : List StepM)
    (h1 : TraceFromM eng meng a ma st1 b mb) (h2 : TraceFromM eng meng b mb st2 c mc) :
    TraceFromM eng meng a ma (st1 ++ st2) c mc := by
  induction st1 generalizing a ma with
  | nil =>
    simp only [TraceFromM] at h1
    obtain ⟨e1, e2⟩ := h1
    subst e1 e2
    exact h2
  | cons st r ih =>
    rcases st with ⟨⟨k, i, ou, ap, sm, em⟩, m⟩
    cases k with
    | rule id tr un =>
      simp only [List.cons_append, TraceFromM] at h1 ⊢
      exact ⟨h1.1, ih _ _ h1.2⟩
    | mask id =>
      simp only [List.cons_append, TraceFromM] at h1 ⊢
      exact ⟨h1.1, ih _ _ h1.2⟩
    | group =>
      simp only [List.cons_append, TraceFromM] at h1 ⊢
      exact ⟨h1.1, ih _ _ h1.2⟩

theorem traceM_joint (eng meng : Eng) (f : Nat) :
    (∀ op s mk st, applyOpM eng meng f op s mk = some st →
      TraceFromM eng meng s mk st (lastOut (st.map (·.step)) s) (lastMask st mk)) ∧
    (∀ ops s mk st o mo, applyOpsM eng meng f ops s mk = some (st, o, mo) → TraceFromM eng meng s mk st o mo) ∧
    (∀ ops s mk st, groupApplyM eng meng f ops s mk = some st →
      TraceFromM eng meng s mk st (lastOut (st.map (·.step)) s) (lastMask st mk)) ∧
    (∀ ops s mk st, iterApplyM eng meng f ops s mk = some st →
      TraceFromM eng meng s mk st (lastOut (st.map (·.step)) s) (lastMask st mk)) := by
  induction f with
  | zero =>
    refine ⟨?_, ?_, ?_, ?_⟩
    · intro op s mk st h; simp only [applyOpM] at h; cases h
    · intro ops s mk st o mo h; simp only [applyOpsM] at h; cases h
    · intro ops s mk st h; simp only [groupApplyM] at h; cases h
    · intro ops s mk st h; simp only [iterApplyM] at h; cases h
  | succ f ih =>
    obtain ⟨h1, h2, h3, h4⟩ := ih
    refine ⟨?_, ?_, ?_, ?_⟩
    · intro op s mk st h
      cases op with
      | rule id tr un =>
        simp only [applyOpM, Option.some.injEq] at h
        subst h
        simp only [List.map, lastOut, lastMask, TraceFromM, ruleStepM, and_self]
      | mask id =>
        simp only [applyOpM] at h
        cases hm : maskApply mk (meng id s) mk with
        | none => simp only [hm] at h; cases h
        | some nw =>
          simp only [hm, Option.some.injEq] at h
          subst h
          simp only [List.map, lastOut, lastMask, TraceFromM, maskStep, hm, and_self]
      | iter ops => simp only [applyOpM] at h; exact h4 ops s mk st h
      | ext a ops =>
        simp only [applyOpM] at h
        cases a with
        | true => simp only [if_true] at h; exact h3 ops s mk st h
        | false =>
          simp only [Bool.false_eq_true, if_false, Option.some.injEq] at h
          subst h
          simp only [List.map, lastOut, lastMask, TraceFromM, and_self]
    · intro ops s mk st o mo h
      cases ops with
      | nil =>
        simp only [applyOpsM, Option.some.injEq, Prod.mk.injEq] at h
        obtain ⟨e1, e2, e3⟩ := h
        subst e1 e2 e3
        simp only [TraceFromM, and_self]
      | cons op r =>
        simp only [applyOpsM] at h
        cases hop : applyOpM eng meng f op s mk with
        | none => simp only [hop] at h; cases h
        | some st1 =>
          simp only [hop] at h
          cases hops : applyOpsM eng meng f r (lastOut (st1.map (·.step)) s) (lastMask st1 mk) with
          | none => simp only [hops] at h; cases h
          | some p =>
            obtain ⟨st2, o2, m2⟩ := p
            simp only [hops, Option.some.injEq, Prod.mk.injEq] at h
            obtain ⟨e1, e2, e3⟩ := h
            subst e1 e2 e3
            exact traceFromM_append eng meng _ _ _ _ _ _ _ _ (h1 op s mk st1 hop) (h2 r _ _ st2 o2 m2 hops)
    · intro ops s mk st h
      simp only [groupApplyM] at h
      cases hops : applyOpsM eng meng f ops s mk with
      | none => simp only [hops] at h; cases h
      | some p =>
        obtain ⟨st1, o, m2⟩ := p
        simp only [hops, Option.some.injEq] at h
        subst h
        simp only [List.map_append, List.map_cons, List.map_nil]
        rw [lastOut_snoc, lastMask_snoc]
        refine traceFromM_append eng meng s o _ mk m2 _ st1 _ (h2 ops s mk st1 o m2 hops) ?_
        simp only [TraceFromM, summaryStep, and_true]
        exact ⟨s, _, rfl⟩
    · intro ops s mk st h
      simp only [iterApplyM] at h
      cases hg : groupApplyM eng meng f ops s mk with
      | none => simp only [hg] at h; cases h
      | some st1 =>
        simp only [hg] at h
        by_cases ho : lastOut (st1.map (·.step)) s = s
        · simp only [ho, if_true, Option.some.injEq] at h
          subst h
          exact h3 ops s mk st1 hg
        · simp only [ho, if_false] at h
          cases hi : iterApplyM eng meng f ops (lastOut (st1.map (·.step)) s) (lastMask st1 mk) with
          | none => simp only [hi] at h; cases h
          | some st2 =>
            simp only [hi, Option.some.injEq] at h
            subst h
            rw [List.map_append, lastOut_append, lastMask_append]
            exact traceFromM_append eng meng _ _ _ _ _ _ _ _ (h3 ops s mk st1 hg) (h4 ops _ _ st2 hi)

/-- a rule step under a mask that did not apply left the string alone. -/
theorem applyRuleM_unapplied (s : Str) (ms : List M) (mk : MaskA) (tr un : List Seg)
    (h : (applyRuleM s ms mk tr un).res.applied = false) : (applyRuleM s ms mk tr un).res.out = s := by
  rw [applyRuleM_eq_filter] at h ⊢
  unfold applyRuleF at h ⊢
  by_cases he : ms.isEmpty = true
  · simp only [he, if_true]
  · simp only [he, Bool.false_eq_true, if_false] at h ⊢
    have hl : liveMatches s ms mk tr un = [] := by
      cases hlm : liveMatches s ms mk tr un with
      | nil => rfl
      | cons a b => rw [hlm] at h; simp at h
    rw [hl]
    simp only [ruleLoop]
    by_cases hs : 0 < s.length
    · simp only [hs, if_true, copyPart, List.drop_zero]
    · simp only [hs, if_false, Part.empty]
      have : s.length = 0 := by omega
      exact (List.length_eq_zero_iff.mp this).symm

theorem traceFromM_chainFrom (eng meng : Eng) (cur : Str) (mk : MaskA) (st : List StepM) (o : Str) (mo : MaskA)
    (h : TraceFromM eng meng cur mk st o mo) : ChainFrom cur (st.map (·.step)) o := by
  induction st generalizing cur mk with
  | nil => simp only [TraceFromM] at h; simp only [List.map_nil, ChainFrom]; exact h.1
  | cons x r ih =>
    rcases x with ⟨⟨k, i, ou, ap, sm, em⟩, m⟩
    cases k with
    | rule id tr un =>
      simp only [TraceFromM] at h
      obtain ⟨e, ht⟩ := h
      simp only [List.map_cons, ChainFrom, Step.isBasic, if_true]
      refine ⟨?_, ih _ _ ht⟩
      have := congrArg (fun x => x.step.inp) e
      simpa only [ruleStepM] using this
    | mask id =>
      simp only [TraceFromM] at h
      obtain ⟨⟨e, _⟩, ht⟩ := h
      simp only [List.map_cons, ChainFrom, Step.isBasic, if_true]
      have e1 := congrArg Step.inp e
      have e2 := congrArg Step.out e
      simp only [maskStep] at e1 e2
      subst e1 e2
      exact ⟨rfl, ih _ _ ht⟩
    | group =>
      simp only [TraceFromM] at h
      obtain ⟨⟨a, b, e⟩, ht⟩ := h
      simp only [List.map_cons, ChainFrom, Step.isBasic, Bool.false_eq_true, if_false]
      have e2 := congrArg (fun x => x.step.out) e
      simp only [summaryStep] at e2
      exact ⟨e2, ih _ _ ht⟩

theorem traceFromM_applied_chain (eng meng : Eng) (cur : Str) (mk : MaskA) (st : List StepM) (o : Str) (mo : MaskA)
    (h : TraceFromM eng meng cur mk st o mo) :
    Chain cur ((st.map (·.step)).filter (fun x => x.isBasic && x.applied)) o := by
  induction st generalizing cur mk with
  | nil => simp only [TraceFromM] at h; simp only [List.map_nil, List.filter_nil, Chain]; exact h.1
  | cons x r ih =>
    rcases x with ⟨⟨k, i, ou, ap, sm, em⟩, m⟩
    cases k with
    | rule id tr un =>
      simp only [TraceFromM] at h
      obtain ⟨e, ht⟩ := h
      have e1 := congrArg (fun x => x.step.inp) e
      have e2 := congrArg (fun x => x.step.out) e
      have e3 := congrArg (fun x => x.step.applied) e
      simp only [ruleStepM] at e1 e2 e3
      cases ap with
      | true =>
        simp only [List.map_cons, List.filter_cons, Step.isBasic, Bool.and_self, if_true, Chain]
        exact ⟨e1, ih _ _ ht⟩
      | false =>
        simp only [List.map_cons, List.filter_cons, Step.isBasic, Bool.and_false, Bool.false_eq_true, if_false]
        have := applyRuleM_unapplied cur (eng id cur) mk tr un e3.symm
        rw [this] at e2
        subst e2
        exact ih _ _ ht
    | mask id =>
      simp only [TraceFromM] at h
      obtain ⟨⟨e, _⟩, ht⟩ := h
      have e1 := congrArg Step.inp e
      have e2 := congrArg Step.out e
      have e3 := congrArg Step.applied e
      simp only [maskStep] at e1 e2 e3
      subst e1 e2 e3
      simp only [List.map_cons, List.filter_cons, Step.isBasic, Bool.and_self, if_true, Chain, true_and]
      exact ih _ _ ht
    | group =>
      simp only [TraceFromM] at h
      simp only [List.map_cons, List.filter_cons, Step.isBasic, Bool.false_and, Bool.false_eq_true, if_false]
      exact ih _ _ h.2

/-- every mask step of a run reports its input as output, with zero maps. -/
theorem traceFromM_mask_steps (eng meng : Eng) (cur : Str) (mk : MaskA) (st : List StepM) (o : Str) (mo : MaskA)
    (h : TraceFromM eng meng cur mk st o mo) :
    ∀ x ∈ st, ∀ id, x.step.kind = Kind.mask id →
      x.step.out = x.step.inp ∧ x.step.sm = zeromap x.step.inp ∧ x.step.em = zeromap x.step.inp := by
  induction st generalizing cur mk with
  | nil => intro x hx; cases hx
  | cons y r ih =>
    intro x hx id hk
    rcases y with ⟨⟨k, i, ou, ap, sm, em⟩, m⟩
    rcases List.mem_cons.mp hx with hxy | hxr
    · subst hxy
      simp only at hk
      subst hk
      simp only [TraceFromM] at h
      obtain ⟨⟨e, _⟩, _⟩ := h
      have e1 := congrArg Step.inp e
      have e2 := congrArg Step.out e
      have e3 := congrArg Step.sm e
      have e4 := congrArg Step.em e
      simp only [maskStep] at e1 e2 e3 e4
      subst e1 e2 e3 e4
      exact ⟨rfl, rfl, rfl⟩
    · cases k with
      | rule id' tr un => simp only [TraceFromM] at h; exact ih _ _ h.2 x hxr id hk
      | mask id' => simp only [TraceFromM] at h; exact ih _ _ h.2 x hxr id hk
      | group => simp only [TraceFromM] at h; exact ih _ _ h.2 x hxr id hk

theorem traceStepsM_traceFromM (eng meng : Eng) (f : Nat) (ops : List Op) (s : Str) (stm : List StepM) (o : Str)
    (h : traceStepsM eng meng f ops s = .ok (stm, o)) :
    TraceFromM eng meng s (zeroMask s) stm o (lastMask stm (zeroMask s)) := by
  unfold traceStepsM at h
  cases hg : groupApplyM eng meng f ops s (zeroMask s) with
  | none => rw [hg] at h; cases h
  | some st' =>
    rw [hg] at h
    simp only [Except.ok.injEq, Prod.mk.injEq] at h
    rw [← h.1, ← h.2]
    exact (traceM_joint eng meng f).2.2.1 ops s (zeroMask s) st' hg

end L
end Verif.C13
