/-
C13 — masks: `_REPPMask._apply`, the blocking tests of `_process_match`, `_check_mask`,
`_make_mask_info`, `_get_mask_len`, the `new_mask` bookkeeping of `_REPPRule._apply`, and the
threading of the mask array through groups (delphin/repp.py).  Core Lean only.

`applyRuleM`/`ruleLoopM` follow `_REPPRule._apply` line by line (every match goes through
`_process_match`; a blocked one is skipped by `continue`); `blockedM` follows the blocking tests of
`_process_match` line by line (its result does not depend on `shift`).  `applyRuleF` is the same in
filter form — the mask-free `applyRule` on the matches that are not blocked — and
`L.applyRuleM_eq_filter` (MaskLemmas.lean) proves the two equal.
-/
import Verif.C13.Model

namespace Verif.C13

/-- mask array: one entry per position plus two sentinels; 0 = O, 1 = B, 2 = I. -/
abbrev MaskA := List Nat

/-- `mask[a:b]`. -/
def mslice (mk : MaskA) (a b : Nat) : MaskA := (mk.drop a).take (b - a)

/-- `any(mask)`. -/
def anyM (mk : MaskA) : Bool := mk.any (· != 0)

/-- `_get_mask_len(mask, i)`: number of consecutive I from index i. -/
def maskLen (mk : MaskA) (i : Nat) : Nat := ((mk.drop i).takeWhile (· == 2)).length

/-- the `while i < j` loop of `_make_mask_info`: the masked substrings met (keys of `middle`, with
multiplicity).  Note `s[i:mlen]` (not `s[i:i+mlen]`) as in the code. -/
def middleLoop (s : Str) (mk : MaskA) : Nat → Nat → Nat → List Str
  | 0, _, _ => []
  | f + 1, i, j =>
    if i < j then
      if mk[i]? = some 1 then
        let mlen := maskLen mk (i + 1) + 1
        slice s i mlen :: middleLoop s mk f (i + mlen) j
      else middleLoop s mk f (i + 1) j
    else []

/-- `_make_mask_info(s, mask, end_fixed)`: left, middle, right. -/
def makeMaskInfo (s : Str) (mk : MaskA) (endFixed : Bool) : Str × List Str × Str :=
  if mk.isEmpty then ([], [], [])
  else
    let left := if mk[0]? = some 2 then s.take (maskLen mk 0) else []
    let k := maskLen mk.reverse 0
    let right := if endFixed then (if k = 0 then [] else s.drop (s.length - k)) else []
    (left, middleLoop s mk (s.length + 1) left.length (s.length - right.length), right)

/-- the two `middle` dictionaries hold the same counts. -/
def countsEq (a b : List Str) : Bool := (a ++ b).all (fun x => a.count x == b.count x)

/-- `_check_mask(substring, m, smap, emap, mask, prev_mask)`: True = masked material changed. -/
def checkMask (s : Str) (m : M) (sub : Str) (newMk prevMk : MaskA) : Bool :=
  let prevSl := mslice prevMk (m.s + 1) (m.e + 1)
  if !anyM prevSl then false
  else
    let endFixed := prevMk[m.e + 1]? = some 2
    let p := makeMaskInfo (slice s m.s m.e) prevSl endFixed
    let n := makeMaskInfo sub newMk endFixed
    p.1 != n.1 || p.2.2 != n.2.2 || !countsEq p.2.1 n.2.1

/-- the tracked loop of `_process_match`, mask part: `none` = a literal's window overlaps masked
material (`blocked = True; break`); else the new mask entries emitted and the final position. -/
def trackedMask (s : Str) (m : M) (prevMk : MaskA) : List Seg → Nat → Option (MaskA × Nat)
  | [], pos => some ([], pos)
  | .grp g :: rest, pos =>
    match m.span g with
    | none => trackedMask s m prevMk rest pos
    | some (gs, ge) =>
      if gs < pos then
        (trackedMask s m prevMk rest pos).map (fun r => (List.replicate (slice s gs ge).length 0 ++ r.1, r.2))
      else
        (trackedMask s m prevMk rest ge).map (fun r => (mslice prevMk (gs + 1) (ge + 1) ++ r.1, r.2))
  | .lit l :: rest, pos =>
    let e := nextStart m pos rest
    if anyM (mslice prevMk (pos + 1) (e + 1)) then none
    else (trackedMask s m prevMk rest e).map (fun r => (List.replicate l.length 0 ++ r.1, r.2))

/-- `any(any(prev_mask[m.start(grp)+1:m.end(grp)+1]) for lit, grp in untracked if grp)`. -/
def untrackedGroupMasked (m : M) (prevMk : MaskA) (un : List Seg) : Bool :=
  un.any fun seg =>
    match seg with
    | .grp g => g != 0 && (match m.span g with
        | some (a, b) => anyM (mslice prevMk (a + 1) (b + 1))
        | none => false)
    | .lit _ => false

/-- `_process_match(m, prev_mask, …)`: (`blocked`, the `_mask` entries emitted for the match). -/
def blockedM (s : Str) (m : M) (prevMk : MaskA) (tr un : List Seg) : Bool × MaskA :=
  let sub := (processMatch s m 0 tr un).1.out
  if tr.isEmpty && un.isEmpty then (checkMask s m sub [] prevMk, [])
  else
    match trackedMask s m prevMk tr m.s with
    | none => (true, [])
    | some (mk, pos) =>
      if un.isEmpty then (checkMask s m sub mk prevMk, mk)
      else if anyM (mslice prevMk (pos + 1) (m.e + 1)) || untrackedGroupMasked m prevMk un then (true, mk)
      else
        let mk' := mk ++ List.replicate (expand s m un).length 0
        (checkMask s m sub mk' prevMk, mk')

/-- the matches `_REPPRule._apply` really rewrites. -/
def liveMatches (s : Str) (ms : List M) (mk : MaskA) (tr un : List Seg) : List M :=
  ms.filter (fun m => !(blockedM s m mk tr un).1)

/-- `new_mask` without its two sentinels, over the live matches. -/
def maskLoop (s : Str) (mk : MaskA) (tr un : List Seg) : List M → Nat → MaskA
  | [], pos => mslice mk (pos + 1) (s.length + 1)
  | m :: ms, pos => mslice mk (pos + 1) (m.s + 1) ++ (blockedM s m mk tr un).2 ++ maskLoop s mk tr un ms m.e

structure ResM where
  res : Res
  mask : MaskA
deriving Repr, DecidableEq

/-- `_REPPRule._apply(s, active, mask)` in FILTER form: the mask-free loop over the matches that are
not blocked.  (`applyRuleM` below is the loop as the code runs it; `applyRuleM_eq_filter` proves them equal.) -/
def applyRuleF (s : Str) (ms : List M) (mk : MaskA) (tr un : List Seg) : ResM :=
  if ms.isEmpty then ⟨⟨s, false, zeromap s, zeromap s⟩, mk⟩
  else
    let live := liveMatches s ms mk tr un
    let r := ruleLoop s tr un live 0 0
    ⟨⟨r.1.out, !live.isEmpty, 0 :: r.1.sm ++ [r.2], 0 :: r.1.em ++ [r.2 - 1]⟩,
     0 :: maskLoop s mk tr un live 0 ++ [0]⟩

/-- state of the `for m in ms` loop of `_REPPRule._apply`: emitted part, emitted mask entries, final
`shift`, `applied`. -/
structure LoopM where
  part : Part
  mask : MaskA
  shift : Int
  applied : Bool

/-- The loop of `_REPPRule._apply` line by line: EVERY match is given to `_process_match`; a blocked
one is skipped by `continue` — `pos`, `shift`, `parts`, the maps and `new_mask` are left as they are —
otherwise the gap since `pos`, the replacement and its mask entries are emitted, `shift += delta`,
`pos = m.end()`.  After the loop the rest of the string and of the mask are copied. -/
def ruleLoopM (s : Str) (mk : MaskA) (tr un : List Seg) : List M → Nat → Int → LoopM
  | [], pos, shift =>
    ⟨if pos < s.length then copyPart (s.drop pos) shift else Part.empty,
     mslice mk (pos + 1) (s.length + 1), shift, false⟩
  | m :: ms, pos, shift =>
    let b := blockedM s m mk tr un
    if b.1 then ruleLoopM s mk tr un ms pos shift
    else
      let pm := processMatch s m shift tr un
      let gap := if pos < m.s then copyPart (slice s pos m.s) shift else Part.empty
      let r := ruleLoopM s mk tr un ms m.e (shift + pm.2)
      ⟨gap ++ pm.1 ++ r.part, mslice mk (pos + 1) (m.s + 1) ++ b.2 ++ r.mask, r.shift, true⟩

/-- `_REPPRule._apply(s, active, mask)` as the code runs it. -/
def applyRuleM (s : Str) (ms : List M) (mk : MaskA) (tr un : List Seg) : ResM :=
  if ms.isEmpty then ⟨⟨s, false, zeromap s, zeromap s⟩, mk⟩
  else
    let r := ruleLoopM s mk tr un ms 0 0
    ⟨⟨r.part.out, r.applied, 0 :: r.part.sm ++ [r.shift], 0 :: r.part.em ++ [r.shift - 1]⟩,
     0 :: r.mask ++ [0]⟩

/-- `newmask[i] = v` (`none` = IndexError). -/
def setAt (mk : MaskA) (i v : Nat) : Option MaskA :=
  if i < mk.length then some (mk.set i v) else none

/-- `for i in range(a, b): newmask[i] = I`. -/
def fillI (mk : MaskA) : Nat → Nat → Option MaskA
  | _, 0 => some mk
  | a, n + 1 => match setAt mk a 2 with
    | none => none
    | some mk' => fillI mk' (a + 1) n

/-- `_REPPMask._apply`: every match gets B at its first position (unless already inside a mask) and
I on the rest; reads the OLD mask for the `max`. -/
def maskApply (old : MaskA) : List M → MaskA → Option MaskA
  | [], nw => some nw
  | m :: ms, nw =>
    let start := m.s + 1
    match setAt nw start (max 1 (old[start]?.getD 0)) with
    | none => none
    | some nw1 =>
      match fillI nw1 (start + 1) (m.e + 1 - (start + 1)) with
      | none => none
      | some nw2 => maskApply old ms nw2

structure StepM where
  step : Step
  mask : MaskA
deriving Repr, DecidableEq

def lastMask : List StepM → MaskA → MaskA
  | [], mk => mk
  | [st], _ => st.mask
  | _ :: r, mk => lastMask r mk

def ruleStepM (eng : Eng) (id : Nat) (tr un : List Seg) (s : Str) (mk : MaskA) : StepM :=
  let r := applyRuleM s (eng id s) mk tr un
  ⟨⟨.rule id tr un, s, r.res.out, r.res.applied, r.res.sm, r.res.em⟩, r.mask⟩

mutual
/-- `operation._apply(s, active, mask)` with the mask array; `meng` answers the matches of mask
patterns.  `none` = out of fuel (or the IndexError of a mask write outside the array, which valid
match lists exclude). -/
def applyOpM (eng meng : Eng) : Nat → Op → Str → MaskA → Option (List StepM)
  | 0, _, _, _ => none
  | _ + 1, .rule id tr un, s, mk => some [ruleStepM eng id tr un s mk]
  | _ + 1, .mask id, s, mk =>
    match maskApply mk (meng id s) mk with
    | none => none
    | some nw => some [⟨maskStep id s, nw⟩]
  | f + 1, .ext active ops, s, mk => if active then groupApplyM eng meng f ops s mk else some []
  | f + 1, .iter ops, s, mk => iterApplyM eng meng f ops s mk
def applyOpsM (eng meng : Eng) : Nat → List Op → Str → MaskA → Option (List StepM × Str × MaskA)
  | 0, _, _, _ => none
  | _ + 1, [], s, mk => some ([], s, mk)
  | f + 1, op :: r, s, mk =>
    match applyOpM eng meng f op s mk with
    | none => none
    | some st =>
      match applyOpsM eng meng f r (lastOut (st.map (·.step)) s) (lastMask st mk) with
      | none => none
      | some (st2, o, mk2) => some (st ++ st2, o, mk2)
def groupApplyM (eng meng : Eng) : Nat → List Op → Str → MaskA → Option (List StepM)
  | 0, _, _, _ => none
  | f + 1, ops, s, mk =>
    match applyOpsM eng meng f ops s mk with
    | none => none
    | some (st, o, mk2) => some (st ++ [⟨summaryStep s o (st.any (·.step.applied)), mk2⟩])
def iterApplyM (eng meng : Eng) : Nat → List Op → Str → MaskA → Option (List StepM)
  | 0, _, _, _ => none
  | f + 1, ops, s, mk =>
    match groupApplyM eng meng f ops s mk with
    | none => none
    | some st =>
      let o := lastOut (st.map (·.step)) s
      if o = s then some st
      else match iterApplyM eng meng f ops o (lastMask st mk) with
        | none => none
        | some st2 => some (st ++ st2)
end

/-- `mask = _zeromap(s)`. -/
def zeroMask (s : Str) : MaskA := List.replicate (s.length + 2) 0

/-- `REPP._trace`, string and steps, with masks. -/
def traceStepsM (eng meng : Eng) (fuel : Nat) (ops : List Op) (s : Str) : Except Err (List StepM × Str) :=
  match groupApplyM eng meng fuel ops s (zeroMask s) with
  | none => .error .fuel
  | some st => .ok (st, lastOut (st.map (·.step)) s)

mutual
/-- no mask rule anywhere in the program. -/
def Op.maskFree : Op → Bool
  | .rule _ _ _ => true
  | .mask _ => false
  | .iter ops => opsMaskFree ops
  | .ext _ ops => opsMaskFree ops
def opsMaskFree : List Op → Bool
  | [] => true
  | op :: r => op.maskFree && opsMaskFree r
end

end Verif.C13
