/-
C13 — lemmas: the string computed by the offset-tracking substitution loop equals ordered
substitution; groups, iteration, trace chain.
-/
import Verif.C13.Model

namespace Verif.C13.L
open Verif.C13

/-! ### the substitution loop -/

theorem getSegments_append (segs : List Seg) : (getSegments segs).1 ++ (getSegments segs).2 = segs := by
  simp only [getSegments, List.take_append_drop]

theorem loadRule_segs (id n : Nat) (segs tr un : List Seg) (h : loadRule id n segs = .ok (.rule id tr un)) :
    tr ++ un = segs := by
  unfold loadRule at h
  split at h
  · simp only [Except.ok.injEq, Op.rule.injEq, true_and] at h
    obtain ⟨h1, h2⟩ := h
    rw [← h1, ← h2]
    exact getSegments_append segs
  · cases h

theorem expand_append (s : Str) (m : M) (a b : List Seg) : expand s m (a ++ b) = expand s m a ++ expand s m b := by
  induction a with
  | nil => simp only [List.nil_append, expand]
  | cons x r ih =>
    cases x with
    | lit l => simp only [List.cons_append, expand, ih, List.append_assoc]
    | grp g => simp only [List.cons_append, expand, ih, List.append_assoc]

theorem part_append_out (p q : Part) : (p ++ q).out = p.out ++ q.out := rfl

theorem procTracked_out (s : Str) (m : M) (shift : Int) (segs : List Seg) (pos : Nat) (delta : Int) :
    (procTracked s m shift segs pos delta).1.out = expand s m segs := by
  induction segs generalizing pos delta with
  | nil => simp only [procTracked, expand, Part.empty]
  | cons sg rest ih =>
    cases sg with
    | lit l => simp only [procTracked, expand, part_append_out, ih, insertPart]
    | grp g =>
      simp only [procTracked, expand, M.text]
      cases hsp : m.span g with
      | none => simp only [ih, List.nil_append]
      | some p =>
        obtain ⟨gs, ge⟩ := p
        simp only
        split
        · simp only [part_append_out, ih, insertPart]
        · simp only [part_append_out, ih, copyPart]

theorem processMatch_out (s : Str) (m : M) (shift : Int) (tr un : List Seg) :
    (processMatch s m shift tr un).1.out = expand s m (tr ++ un) := by
  unfold processMatch
  split
  · rename_i h
    simp only [Bool.and_eq_true, List.isEmpty_iff] at h
    obtain ⟨h1, h2⟩ := h
    subst h1 h2
    simp only [Part.empty, List.append_nil, expand]
  · simp only
    split
    · rename_i h
      simp only [List.isEmpty_iff] at h
      subst h
      simp only [procTracked_out, List.append_nil]
    · simp only [part_append_out, procTracked_out, insertPart, expand_append]

theorem ruleLoop_out (s : Str) (tr un : List Seg) (ms : List M) (pos : Nat) (shift : Int) :
    (ruleLoop s tr un ms pos shift).1.out = subst s (tr ++ un) ms pos := by
  induction ms generalizing pos shift with
  | nil =>
    simp only [ruleLoop, subst]
    split
    · simp only [copyPart]
    · rename_i h
      simp only [Part.empty]
      exact (List.drop_eq_nil_of_le (by omega)).symm
  | cons m ms ih =>
    simp only [ruleLoop, subst, part_append_out, processMatch_out, ih]
    congr 2
    split
    · simp only [copyPart]
    · rename_i h
      have : m.s - pos = 0 := by omega
      simp only [Part.empty, slice, this, List.take_zero]

theorem applyRule_string (s : Str) (ms : List M) (tr un : List Seg) :
    (applyRule s ms tr un).out = subst s (tr ++ un) ms 0 := by
  unfold applyRule
  split
  · rename_i h
    simp only [List.isEmpty_iff] at h
    subst h
    simp only [subst, List.drop_zero]
  · simp only [ruleLoop_out]

theorem applyRule_unapplied (s : Str) (ms : List M) (tr un : List Seg) (h : (applyRule s ms tr un).applied = false) :
    applyRule s ms tr un = ⟨s, false, zeromap s, zeromap s⟩ := by
  unfold applyRule at h ⊢
  split
  · rfl
  · rename_i hne
    simp only [hne] at h
    cases h

/-! ### groups and iteration: model = reference, same fuel -/

theorem lastOut_cons_ne (x : Step) (r : List Step) (s t : Str) : lastOut (x :: r) s = lastOut (x :: r) t := by
  induction r generalizing x with
  | nil => simp only [lastOut]
  | cons y r ih => simp only [lastOut]; exact ih y

theorem lastOut_append (a b : List Step) (s : Str) : lastOut (a ++ b) s = lastOut b (lastOut a s) := by
  induction a with
  | nil => simp only [List.nil_append, lastOut]
  | cons x r ih =>
    cases r with
    | nil =>
      cases b with
      | nil => simp only [List.append_nil, lastOut]
      | cons y b => simp only [List.cons_append, List.nil_append, lastOut]; exact lastOut_cons_ne y b _ _
    | cons y r =>
      simp only [List.cons_append, lastOut] at ih ⊢
      exact ih

theorem lastOut_snoc (a : List Step) (x : Step) (s : Str) : lastOut (a ++ [x]) s = x.out := by
  rw [lastOut_append]; simp only [lastOut]

theorem run_joint (eng : Eng) (f : Nat) :
    (∀ op s, (applyOp eng f op s).map (fun st => lastOut st s) = runOp eng f op s) ∧
    (∀ ops s, (applyOps eng f ops s).map (·.2) = runOps eng f ops s) ∧
    (∀ ops s st o, applyOps eng f ops s = some (st, o) → lastOut st s = o) ∧
    (∀ ops s, (groupApply eng f ops s).map (fun st => lastOut st s) = runGroup eng f ops s) ∧
    (∀ ops s, (iterApply eng f ops s).map (fun st => lastOut st s) = runIter eng f ops s) := by
  induction f with
  | zero =>
    refine ⟨?_, ?_, ?_, ?_, ?_⟩
    · intro op s; simp only [applyOp, runOp, Option.map_none]
    · intro ops s; simp only [applyOps, runOps, Option.map_none]
    · intro ops s st o h; simp only [applyOps] at h; cases h
    · intro ops s; simp only [groupApply, runGroup, Option.map_none]
    · intro ops s; simp only [iterApply, runIter, Option.map_none]
  | succ f ih =>
    obtain ⟨h1, h2, h3, h4, h5⟩ := ih
    refine ⟨?_, ?_, ?_, ?_, ?_⟩
    · intro op s
      cases op with
      | rule id tr un =>
        simp only [applyOp, runOp, Option.map_some, lastOut, ruleStep, applyRule_string]
      | mask id => simp only [applyOp, runOp, Option.map_some, lastOut, maskStep]
      | iter ops => simp only [applyOp, runOp]; exact h5 ops s
      | ext a ops =>
        simp only [applyOp, runOp]
        split
        · exact h4 ops s
        · simp only [Option.map_some, lastOut]
    · intro ops s
      cases ops with
      | nil => simp only [applyOps, runOps, Option.map_some]
      | cons op r =>
        simp only [applyOps, runOps]
        rw [← h1 op s]
        cases hop : applyOp eng f op s with
        | none => simp only [Option.map_none]
        | some st =>
          simp only [Option.map_some]
          rw [← h2 r (lastOut st s)]
          cases hops : applyOps eng f r (lastOut st s) with
          | none => simp only [Option.map_none]
          | some p => simp only [Option.map_some]
    · intro ops s st o h
      cases ops with
      | nil =>
        simp only [applyOps, Option.some.injEq, Prod.mk.injEq] at h
        obtain ⟨h1, h2⟩ := h
        subst h1 h2
        simp only [lastOut]
      | cons op r =>
        simp only [applyOps] at h
        cases hop : applyOp eng f op s with
        | none => simp only [hop] at h; cases h
        | some st1 =>
          simp only [hop] at h
          cases hops : applyOps eng f r (lastOut st1 s) with
          | none => simp only [hops] at h; cases h
          | some p =>
            obtain ⟨st2, o2⟩ := p
            simp only [hops, Option.some.injEq, Prod.mk.injEq] at h
            obtain ⟨e1, e2⟩ := h
            subst e1 e2
            rw [lastOut_append]
            exact h3 r _ _ _ hops
    · intro ops s
      simp only [groupApply, runGroup]
      rw [← h2 ops s]
      cases hops : applyOps eng f ops s with
      | none => simp only [Option.map_none]
      | some p =>
        obtain ⟨st, o⟩ := p
        simp only [Option.map_some, lastOut_snoc, summaryStep]
    · intro ops s
      simp only [iterApply, runIter]
      rw [← h4 ops s]
      cases hg : groupApply eng f ops s with
      | none => simp only [Option.map_none]
      | some st =>
        simp only [Option.map_some]
        split
        · simp only [Option.map_some]
        · rw [← h5 ops (lastOut st s)]
          cases hi : iterApply eng f ops (lastOut st s) with
          | none => simp only [Option.map_none]
          | some st2 => simp only [Option.map_some, lastOut_append]

theorem applyOp_run (eng : Eng) (f : Nat) (op : Op) (s : Str) :
    (applyOp eng f op s).map (fun st => lastOut st s) = runOp eng f op s :=
  (run_joint eng f).1 op s

theorem applyOps_run (eng : Eng) (f : Nat) (ops : List Op) (s : Str) :
    (applyOps eng f ops s).map (·.2) = runOps eng f ops s :=
  (run_joint eng f).2.1 ops s

theorem applyOps_lastOut (eng : Eng) (f : Nat) (ops : List Op) (s : Str) (st : List Step) (o : Str)
    (h : applyOps eng f ops s = some (st, o)) : lastOut st s = o :=
  (run_joint eng f).2.2.1 ops s st o h

theorem groupApply_run (eng : Eng) (f : Nat) (ops : List Op) (s : Str) :
    (groupApply eng f ops s).map (fun st => lastOut st s) = runGroup eng f ops s :=
  (run_joint eng f).2.2.2.1 ops s

theorem iterApply_run (eng : Eng) (f : Nat) (ops : List Op) (s : Str) :
    (iterApply eng f ops s).map (fun st => lastOut st s) = runIter eng f ops s :=
  (run_joint eng f).2.2.2.2 ops s

theorem mono_joint (eng : Eng) (f : Nat) :
    (∀ f' op s o, f ≤ f' → runOp eng f op s = some o → runOp eng f' op s = some o) ∧
    (∀ f' ops s o, f ≤ f' → runOps eng f ops s = some o → runOps eng f' ops s = some o) ∧
    (∀ f' ops s o, f ≤ f' → runGroup eng f ops s = some o → runGroup eng f' ops s = some o) ∧
    (∀ f' ops s o, f ≤ f' → runIter eng f ops s = some o → runIter eng f' ops s = some o) := by
  induction f with
  | zero =>
    refine ⟨?_, ?_, ?_, ?_⟩
    · intro f' op s o _ h; simp only [runOp] at h; cases h
    · intro f' ops s o _ h; simp only [runOps] at h; cases h
    · intro f' ops s o _ h; simp only [runGroup] at h; cases h
    · intro f' ops s o _ h; simp only [runIter] at h; cases h
  | succ f ih =>
    obtain ⟨h1, h2, h3, h4⟩ := ih
    refine ⟨?_, ?_, ?_, ?_⟩
    · intro f' op s o hf h
      obtain ⟨g, rfl⟩ : ∃ g, f' = g + 1 := ⟨f' - 1, by omega⟩
      have hg : f ≤ g := by omega
      cases op with
      | rule id tr un => simp only [runOp] at h ⊢; exact h
      | mask id => simp only [runOp] at h ⊢; exact h
      | iter ops => simp only [runOp] at h ⊢; exact h4 g ops s o hg h
      | ext a ops =>
        simp only [runOp] at h ⊢
        split
        · rename_i ha
          simp only [ha, if_true] at h
          exact h3 g ops s o hg h
        · rename_i ha
          simp only [ha] at h
          exact h
    · intro f' ops s o hf h
      obtain ⟨g, rfl⟩ : ∃ g, f' = g + 1 := ⟨f' - 1, by omega⟩
      have hg : f ≤ g := by omega
      cases ops with
      | nil => simp only [runOps] at h ⊢; exact h
      | cons op r =>
        simp only [runOps] at h ⊢
        cases hop : runOp eng f op s with
        | none => simp only [hop] at h; cases h
        | some t =>
          simp only [hop] at h
          rw [h1 g op s t hg hop]
          exact h2 g r t o hg h
    · intro f' ops s o hf h
      obtain ⟨g, rfl⟩ : ∃ g, f' = g + 1 := ⟨f' - 1, by omega⟩
      have hg : f ≤ g := by omega
      simp only [runGroup] at h ⊢
      exact h2 g ops s o hg h
    · intro f' ops s o hf h
      obtain ⟨g, rfl⟩ : ∃ g, f' = g + 1 := ⟨f' - 1, by omega⟩
      have hg : f ≤ g := by omega
      simp only [runIter] at h ⊢
      cases hgr : runGroup eng f ops s with
      | none => simp only [hgr] at h; cases h
      | some t =>
        simp only [hgr] at h
        rw [h3 g ops s t hg hgr]
        simp only
        split
        · rename_i ht
          simp only [ht, if_true] at h
          rw [ht]
          exact h
        · rename_i ht
          simp only [ht, if_false] at h
          exact h4 g ops t o hg h

/-- fuel only bounds the computation: more fuel gives the same answer. -/
theorem runOp_mono (eng : Eng) (f f' : Nat) (op : Op) (s o : Str) (h : runOp eng f op s = some o) (hf : f ≤ f') :
    runOp eng f' op s = some o :=
  (mono_joint eng f).1 f' op s o hf h

theorem runGroup_mono (eng : Eng) (f f' : Nat) (ops : List Op) (s o : Str) (h : runGroup eng f ops s = some o)
    (hf : f ≤ f') : runGroup eng f' ops s = some o :=
  (mono_joint eng f).2.2.1 f' ops s o hf h

theorem runIter_mono (eng : Eng) (f f' : Nat) (ops : List Op) (s o : Str) (h : runIter eng f ops s = some o)
    (hf : f ≤ f') : runIter eng f' ops s = some o :=
  (mono_joint eng f).2.2.2 f' ops s o hf h

/-- the result of an iterative group is reached by re-running the body until nothing changes … -/
theorem runIter_sound (eng : Eng) (f : Nat) (ops : List Op) (s o : Str) (h : runIter eng f ops s = some o) :
    IterTo (GroupRel eng ops) s o := by
  induction f generalizing s with
  | zero => simp only [runIter] at h; cases h
  | succ f ih =>
    simp only [runIter] at h
    cases hg : runGroup eng f ops s with
    | none => simp only [hg] at h; cases h
    | some t =>
      simp only [hg] at h
      by_cases ht : t = s
      · simp only [ht, if_true, Option.some.injEq] at h
        subst ht
        subst h
        exact IterTo.stop ⟨f, hg⟩
      · simp only [ht, if_false] at h
        exact IterTo.step ⟨f, hg⟩ ht (ih t h)

/-- … it is a fixpoint of the body … -/
theorem iterTo_fixpoint (R : Str → Str → Prop) (s o : Str) (h : IterTo R s o) : R o o := by
  induction h with
  | stop h => exact h
  | step _ _ _ ih => exact ih

/-- … and whenever the body reaches a fixpoint after finitely many rounds, some fuel suffices. -/
theorem runIter_complete (eng : Eng) (ops : List Op) (s o : Str) (h : IterTo (GroupRel eng ops) s o) :
    ∃ f, runIter eng f ops s = some o := by
  induction h with
  | stop h =>
    obtain ⟨k, hk⟩ := h
    refine ⟨k + 1, ?_⟩
    simp only [runIter, hk, if_true]
  | @step s t o hr hne _ ih =>
    obtain ⟨k, hk⟩ := hr
    obtain ⟨f, hf⟩ := ih
    refine ⟨max k f + 1, ?_⟩
    have h1 := runGroup_mono eng k (max k f) ops s t hk (Nat.le_max_left _ _)
    have h2 := runIter_mono eng f (max k f) ops t o hf (Nat.le_max_right _ _)
    simp only [runIter, h1, hne, if_false, h2]

/-! ### trace -/

theorem traceFrom_append (eng : Eng) (a b c : Str) (st1 st2 : List Step)
    (h1 : TraceFrom eng a st1 b) (h2 : TraceFrom eng b st2 c) : TraceFrom eng a (st1 ++ st2) c := by
  induction st1 generalizing a with
  | nil => simp only [TraceFrom] at h1; subst h1; exact h2
  | cons st r ih =>
    rcases st with ⟨k, i, ou, ap, sm, em⟩
    cases k with
    | rule id tr un =>
      simp only [List.cons_append, TraceFrom] at h1 ⊢
      exact ⟨h1.1, ih _ h1.2⟩
    | mask id =>
      simp only [List.cons_append, TraceFrom] at h1 ⊢
      exact ⟨h1.1, ih _ h1.2⟩
    | group =>
      simp only [List.cons_append, TraceFrom] at h1 ⊢
      exact ⟨h1.1, ih _ h1.2⟩

theorem trace_joint (eng : Eng) (f : Nat) :
    (∀ op s st, applyOp eng f op s = some st → TraceFrom eng s st (lastOut st s)) ∧
    (∀ ops s st o, applyOps eng f ops s = some (st, o) → TraceFrom eng s st o) ∧
    (∀ ops s st, groupApply eng f ops s = some st → TraceFrom eng s st (lastOut st s)) ∧
    (∀ ops s st, iterApply eng f ops s = some st → TraceFrom eng s st (lastOut st s)) := by
  induction f with
  | zero =>
    refine ⟨?_, ?_, ?_, ?_⟩
    · intro op s st h; simp only [applyOp] at h; cases h
    · intro ops s st o h; simp only [applyOps] at h; cases h
    · intro ops s st h; simp only [groupApply] at h; cases h
    · intro ops s st h; simp only [iterApply] at h; cases h
  | succ f ih =>
    obtain ⟨h1, h2, h3, h4⟩ := ih
    refine ⟨?_, ?_, ?_, ?_⟩
    · intro op s st h
      cases op with
      | rule id tr un =>
        simp only [applyOp, Option.some.injEq] at h
        subst h
        simp only [TraceFrom, ruleStep, lastOut, and_self]
      | mask id =>
        simp only [applyOp, Option.some.injEq] at h
        subst h
        simp only [TraceFrom, maskStep, lastOut, and_self]
      | iter ops => simp only [applyOp] at h; exact h4 ops s st h
      | ext a ops =>
        simp only [applyOp] at h
        cases a with
        | true => simp only [if_true] at h; exact h3 ops s st h
        | false =>
          simp only [Bool.false_eq_true, if_false, Option.some.injEq] at h
          subst h
          simp only [TraceFrom, lastOut]
    · intro ops s st o h
      cases ops with
      | nil =>
        simp only [applyOps, Option.some.injEq, Prod.mk.injEq] at h
        obtain ⟨e1, e2⟩ := h
        subst e1 e2
        simp only [TraceFrom]
      | cons op r =>
        simp only [applyOps] at h
        cases hop : applyOp eng f op s with
        | none => simp only [hop] at h; cases h
        | some st1 =>
          simp only [hop] at h
          cases hops : applyOps eng f r (lastOut st1 s) with
          | none => simp only [hops] at h; cases h
          | some p =>
            obtain ⟨st2, o2⟩ := p
            simp only [hops, Option.some.injEq, Prod.mk.injEq] at h
            obtain ⟨e1, e2⟩ := h
            subst e1 e2
            exact traceFrom_append eng _ _ _ _ _ (h1 op s st1 hop) (h2 r _ st2 o2 hops)
    · intro ops s st h
      simp only [groupApply] at h
      cases hops : applyOps eng f ops s with
      | none => simp only [hops] at h; cases h
      | some p =>
        obtain ⟨st1, o⟩ := p
        simp only [hops, Option.some.injEq] at h
        subst h
        rw [lastOut_snoc]
        refine traceFrom_append eng s o _ st1 _ (h2 ops s st1 o hops) ?_
        simp only [TraceFrom, summaryStep, and_true]
        exact ⟨s, _, rfl⟩
    · intro ops s st h
      simp only [iterApply] at h
      cases hg : groupApply eng f ops s with
      | none => simp only [hg] at h; cases h
      | some st1 =>
        simp only [hg] at h
        by_cases ho : lastOut st1 s = s
        · simp only [ho, if_true, Option.some.injEq] at h
          subst h
          exact h3 ops s st1 hg
        · simp only [ho, if_false] at h
          cases hi : iterApply eng f ops (lastOut st1 s) with
          | none => simp only [hi] at h; cases h
          | some st2 =>
            simp only [hi, Option.some.injEq] at h
            subst h
            rw [lastOut_append]
            exact traceFrom_append eng _ _ _ _ _ (h3 ops s st1 hg) (h4 ops _ st2 hi)

theorem groupApply_traceFrom (eng : Eng) (f : Nat) (ops : List Op) (s : Str) (st : List Step)
    (h : groupApply eng f ops s = some st) : TraceFrom eng s st (lastOut st s) :=
  (trace_joint eng f).2.2.1 ops s st h

theorem traceFrom_chainFrom (eng : Eng) (cur : Str) (st : List Step) (o : Str) (h : TraceFrom eng cur st o) :
    ChainFrom cur st o := by
  induction st generalizing cur with
  | nil => simp only [TraceFrom] at h; simp only [ChainFrom]; exact h
  | cons x r ih =>
    rcases x with ⟨k, i, ou, ap, sm, em⟩
    cases k with
    | rule id tr un =>
      simp only [TraceFrom] at h
      obtain ⟨e, ht⟩ := h
      simp only [ChainFrom, Step.isBasic, if_true]
      refine ⟨?_, ih _ ht⟩
      have := congrArg Step.inp e
      simpa only [ruleStep] using this
    | mask id =>
      simp only [TraceFrom] at h
      obtain ⟨e, ht⟩ := h
      simp only [ChainFrom, Step.isBasic, if_true]
      have e1 := congrArg Step.inp e
      have e2 := congrArg Step.out e
      simp only [maskStep] at e1 e2
      subst e1 e2
      exact ⟨rfl, ih _ ht⟩
    | group =>
      simp only [TraceFrom] at h
      obtain ⟨⟨a, b, e⟩, ht⟩ := h
      simp only [ChainFrom, Step.isBasic, Bool.false_eq_true, if_false]
      have e2 := congrArg Step.out e
      simp only [summaryStep] at e2
      exact ⟨e2, ih _ ht⟩

theorem chainFrom_basic (cur : Str) (st : List Step) (o : Str) (h : ChainFrom cur st o) :
    Chain cur (st.filter Step.isBasic) o := by
  induction st generalizing cur with
  | nil => simp only [ChainFrom] at h; simp only [List.filter_nil, Chain]; exact h
  | cons x r ih =>
    simp only [ChainFrom] at h
    by_cases hb : x.isBasic = true
    · simp only [hb, if_true] at h
      simp only [List.filter_cons, hb, if_true, Chain]
      exact ⟨h.1, ih _ h.2⟩
    · simp only [hb] at h
      simp only [List.filter_cons, hb]
      exact ih _ h.2

/-- the steps `trace(verbose=False)` shows among rule and mask steps (those that applied) still form a chain. -/
theorem traceFrom_applied_chain (eng : Eng) (cur : Str) (st : List Step) (o : Str) (h : TraceFrom eng cur st o) :
    Chain cur (st.filter (fun x => x.isBasic && x.applied)) o := by
  induction st generalizing cur with
  | nil => simp only [TraceFrom] at h; simp only [List.filter_nil, Chain]; exact h
  | cons x r ih =>
    rcases x with ⟨k, i, ou, ap, sm, em⟩
    cases k with
    | rule id tr un =>
      simp only [TraceFrom] at h
      obtain ⟨e, ht⟩ := h
      have e1 := congrArg Step.inp e
      have e2 := congrArg Step.out e
      have e3 := congrArg Step.applied e
      simp only [ruleStep] at e1 e2 e3
      cases ap with
      | true =>
        simp only [List.filter_cons, Step.isBasic, Bool.and_self, if_true, Chain]
        exact ⟨e1, ih _ ht⟩
      | false =>
        simp only [List.filter_cons, Step.isBasic, Bool.and_false, Bool.false_eq_true, if_false]
        have := applyRule_unapplied cur (eng id cur) tr un e3.symm
        rw [this] at e2
        simp only at e2
        subst e2
        exact ih _ ht
    | mask id =>
      simp only [TraceFrom] at h
      obtain ⟨e, ht⟩ := h
      have e1 := congrArg Step.inp e
      have e2 := congrArg Step.out e
      have e3 := congrArg Step.applied e
      simp only [maskStep] at e1 e2 e3
      subst e1 e2 e3
      simp only [List.filter_cons, Step.isBasic, Bool.and_self, if_true, Chain, true_and]
      exact ih _ ht
    | group =>
      simp only [TraceFrom] at h
      simp only [List.filter_cons, Step.isBasic, Bool.false_and, Bool.false_eq_true, if_false]
      exact ih _ h.2

theorem applyOps_masks (eng : Eng) (f : Nat) (ops : List Op) (s : Str) (st : List Step) (o : Str)
    (hm : ∀ op ∈ ops, ∃ id, op = Op.mask id) (h : applyOps eng f ops s = some (st, o)) :
    o = s ∧ ∀ x ∈ st, x.out = s ∧ x.sm = zeromap s ∧ x.em = zeromap s := by
  induction ops generalizing f st with
  | nil =>
    cases f with
    | zero => simp only [applyOps] at h; cases h
    | succ f =>
      simp only [applyOps, Option.some.injEq, Prod.mk.injEq] at h
      obtain ⟨e1, e2⟩ := h
      subst e1 e2
      exact ⟨rfl, fun x hx => by cases hx⟩
  | cons op r ih =>
    cases f with
    | zero => simp only [applyOps] at h; cases h
    | succ f =>
      obtain ⟨id, rfl⟩ := hm op (List.mem_cons_self ..)
      have hm' : ∀ op ∈ r, ∃ id, op = Op.mask id := fun op hop => hm op (List.mem_cons_of_mem _ hop)
      simp only [applyOps] at h
      cases f with
      | zero => simp only [applyOp] at h; cases h
      | succ f =>
        simp only [applyOp, lastOut, maskStep] at h
        cases hops : applyOps eng (f + 1) r s with
        | none => simp only [hops] at h; cases h
        | some p =>
          obtain ⟨st2, o2⟩ := p
          simp only [hops, Option.some.injEq, Prod.mk.injEq] at h
          obtain ⟨e1, e2⟩ := h
          subst e1 e2
          obtain ⟨i1, i2⟩ := ih (f + 1) st2 hm' hops
          refine ⟨i1, ?_⟩
          intro x hx
          simp only [List.cons_append, List.nil_append, List.mem_cons] at hx
          rcases hx with rfl | hx
          · exact ⟨rfl, rfl, rfl⟩
          · exact i2 x hx

/-- a module made of mask rules only: every step reports the input string and zero maps. -/
theorem masks_only (eng : Eng) (f : Nat) (ops : List Op) (s : Str) (st : List Step)
    (hm : ∀ op ∈ ops, ∃ id, op = Op.mask id) (h : groupApply eng f ops s = some st) :
    lastOut st s = s ∧ ∀ x ∈ st, x.out = s ∧ x.sm = zeromap s ∧ x.em = zeromap s := by
  cases f with
  | zero => simp only [groupApply] at h; cases h
  | succ f =>
    simp only [groupApply] at h
    cases hops : applyOps eng f ops s with
    | none => simp only [hops] at h; cases h
    | some p =>
      obtain ⟨st1, o⟩ := p
      simp only [hops, Option.some.injEq] at h
      subst h
      obtain ⟨i1, i2⟩ := applyOps_masks eng f ops s st1 o hm hops
      subst i1
      refine ⟨by rw [lastOut_snoc]; rfl, ?_⟩
      intro x hx
      simp only [List.mem_append, List.mem_singleton] at hx
      rcases hx with hx | rfl
      · exact i2 x hx
      · exact ⟨rfl, rfl, rfl⟩

theorem flattenLines_append (a b : List Line) : flattenLines (a ++ b) = flattenLines a ++ flattenLines b := by
  induction a with
  | nil => simp only [List.nil_append, flattenLines]
  | cons x r ih => simp only [List.cons_append, flattenLines, ih, List.append_assoc]

theorem flatten_include (a f b : List Line) :
    flattenLines (a ++ [Line.incl f] ++ b) = flattenLines a ++ flattenLines f ++ flattenLines b := by
  simp only [flattenLines_append, flattenLines, flattenLine, List.append_nil]

end Verif.C13.L

namespace Verif.C13

/-- what `traceSteps` yields is a trace in the sense of `TraceFrom`. -/
theorem trace_structure_aux (eng : Eng) (f : Nat) (ops : List Op) (s : Str) (st : List Step) (o : Str)
    (h : traceSteps eng f ops s = .ok (st, o)) : TraceFrom eng s st o := by
  unfold traceSteps at h
  cases hg : groupApply eng f ops s with
  | none => rw [hg] at h; cases h
  | some st' =>
    rw [hg] at h
    simp only [Except.ok.injEq, Prod.mk.injEq] at h
    rw [← h.1, ← h.2]
    exact L.groupApply_traceFrom eng f ops s st' hg

end Verif.C13

