/-
C13 — "applying an external group only when it is active": what `active` means to the linked program.
* the `active` argument matters only as a SET (`set(active)` in `apply/trace/tokenize`, `name in active`
  in `REPP._apply`): two collections with the same members give the same operations, whatever their
  order, duplicates or type;
* the REPP object's own state (`self.active`, changed by `activate`/`deactivate`) and its resolution
  at call time (`self.active if active is None else set(active)`): `Obj`, `Call`, `runCalls`;
* a call of an inactive module can be deleted from (or inserted into) the program: same result.
-/
import Verif.C13.LinkLemmas

namespace Verif.C13.Link

/-! ### the object's state across calls -/

/-- `self.active` (a set; kept as a list, only membership is ever used). -/
structure Obj where
  defaults : List Str
deriving Repr, DecidableEq

inductive Call where
  | activate (n : Str)                                   -- `r.activate(n)`
  | deactivate (n : Str)                                 -- `r.deactivate(n)`
  | apply (s : Str) (active : Option (List Str))         -- `r.apply(s, active=…)`; `none` = argument left out / None
  | trace (s : Str) (active : Option (List Str)) (verbose : Bool)
deriving Repr, DecidableEq

/-- `activate`: `self.active.add(mod)`; `deactivate`: `if mod in self.active: self.active.remove(mod)`;
`apply`/`trace` leave the object alone. -/
def Obj.step (o : Obj) : Call → Obj
  | .activate n => if n ∈ o.defaults then o else ⟨o.defaults ++ [n]⟩
  | .deactivate n => ⟨o.defaults.filter (fun x => x != n)⟩
  | _ => o

/-- `active = self.active if active is None else set(active)`. -/
def Obj.resolve (o : Obj) : Option (List Str) → List Str
  | none => o.defaults
  | some a => a

/-- what a call answers: nothing for `activate`/`deactivate`; for `apply`/`trace` the run with the
resolved set (`run act s verbose`: the module's `_trace` under that set). -/
def Obj.answer {α} (run : List Str → Str → Bool → α) (o : Obj) : Call → Option α
  | .apply s a => some (run (o.resolve a) s false)
  | .trace s a v => some (run (o.resolve a) s v)
  | _ => none

/-- a history of calls on ONE object: the answers in order. -/
def runCalls {α} (run : List Str → Str → Bool → α) : Obj → List Call → List (Option α)
  | _, [] => []
  | o, c :: r => o.answer run c :: runCalls run (o.step c) r

/-- the object after a history. -/
def Obj.after (o : Obj) (cs : List Call) : Obj := cs.foldl Obj.step o

/-- what a single call says about module `n`'s default activation. -/
def Call.setting (n : Str) : Call → Option Bool
  | .activate m => if m = n then some true else none
  | .deactivate m => if m = n then some false else none
  | _ => none

/-- the last `activate(n)` / `deactivate(n)` of a history. -/
def lastSetting (n : Str) : List Call → Option Bool
  | [] => none
  | c :: r => match lastSetting n r with
    | some b => some b
    | none => c.setting n

namespace L
open Verif.C13 Verif.C13.Loader

theorem linkActive_joint (E : LinkEnv) (A B : List Str) (h : ∀ n, A.contains n = B.contains n) (f : Nat) :
    (∀ groups op, linkOp { E with active := A } groups f op = linkOp { E with active := B } groups f op) ∧
    (∀ groups ops, linkOps { E with active := A } groups f ops = linkOps { E with active := B } groups f ops) := by
  induction f with
  | zero =>
    refine ⟨fun g op => ?_, fun g ops => ?_⟩
    · rw [linkOp, linkOp]
    · rw [linkOps, linkOps]
  | succ f ih =>
    obtain ⟨ih1, ih2⟩ := ih
    refine ⟨fun g op => ?_, fun g ops => ?_⟩
    · cases op with
      | rule p t => rw [linkOp, linkOp]; rfl
      | mask p => rw [linkOp, linkOp]
      | call n =>
        rw [linkOp, linkOp]
        cases lookupG n g with
        | none => rfl
        | some body => simp only [ih2 g body]
      | ext nm =>
        simp only [linkOp]
        cases lookupG nm E.mods with
        | none => rfl
        | some m => simp only [ih2 m.groups m.ops, h nm]
    · cases ops with
      | nil => rw [linkOps, linkOps]
      | cons op r => rw [linkOps, linkOps, ih1 g op, ih2 g r]

/-- the whole pipeline on text depends on `active` only as a set. -/
theorem applyText_active_congr (env : Loader.Env) (E : LinkEnv) (eng : Eng) (k f : Nat) (lines : List Str) (s : Str)
    (A B : List Str) (h : ∀ n, A.contains n = B.contains n) :
    applyText env { E with active := A } eng k f lines s = applyText env { E with active := B } eng k f lines s := by
  unfold applyText
  cases loadLines env k lines with
  | error e => rfl
  | ok lm =>
    show afterLoad { E with active := A } eng f s lm = afterLoad { E with active := B } eng f s lm
    have key := (linkActive_joint { E with mods := E.mods ++ lm.2 } A B h f).2 lm.1.groups lm.1.ops
    unfold afterLoad linkModule
    show (match linkOps { ({ E with mods := E.mods ++ lm.2 } : LinkEnv) with active := A } lm.1.groups f lm.1.ops with
      | .error e => Except.error (TErr.run e)
      | .ok ops => _) = _
    rw [key]
    rfl

theorem applyTextM_active_congr (env : Loader.Env) (E : LinkEnv) (eng meng : Eng) (k f : Nat) (lines : List Str) (s : Str)
    (A B : List Str) (h : ∀ n, A.contains n = B.contains n) :
    applyTextM env { E with active := A } eng meng k f lines s = applyTextM env { E with active := B } eng meng k f lines s := by
  unfold applyTextM
  cases loadLines env k lines with
  | error e => rfl
  | ok lm =>
    show afterLoadM { E with active := A } eng meng f s lm = afterLoadM { E with active := B } eng meng f s lm
    have key := (linkActive_joint { E with mods := E.mods ++ lm.2 } A B h f).2 lm.1.groups lm.1.ops
    unfold afterLoadM linkModule
    show (match linkOps { ({ E with mods := E.mods ++ lm.2 } : LinkEnv) with active := A } lm.1.groups f lm.1.ops with
      | .error e => Except.error (TErr.run e)
      | .ok ops => _) = _
    rw [key]
    rfl

/-- one step of the object's state, seen from module `n`. -/
theorem step_contains (o : Obj) (c : Call) (n : Str) :
    (o.step c).defaults.contains n = (c.setting n).getD (o.defaults.contains n) := by
  cases c with
  | activate m =>
    have hne : m ≠ n → ¬ n = m := fun hm e => hm e.symm
    by_cases hm : m = n
    · subst hm
      by_cases hc : m ∈ o.defaults <;> simp [Obj.step, Call.setting, hc]
    · by_cases hc : m ∈ o.defaults <;> simp [Obj.step, Call.setting, hc, hm, hne hm]
  | deactivate m =>
    have hne : m ≠ n → ¬ n = m := fun hm e => hm e.symm
    by_cases hm : m = n
    · subst hm
      simp [Obj.step, Call.setting]
    · simp [Obj.step, Call.setting, hm, hne hm]
  | apply s a => rfl
  | trace s a v => rfl

theorem after_contains (o : Obj) (cs : List Call) (n : Str) :
    (o.after cs).defaults.contains n = (lastSetting n cs).getD (o.defaults.contains n) := by
  induction cs generalizing o with
  | nil => rfl
  | cons c r ih =>
    show ((o.step c).after r).defaults.contains n = _
    rw [ih (o.step c), step_contains, lastSetting]
    cases lastSetting n r with
    | some b => rfl
    | none => rfl

theorem runCalls_append {α} (run : List Str → Str → Bool → α) (o : Obj) (a b : List Call) :
    runCalls run o (a ++ b) = runCalls run o a ++ runCalls run (o.after a) b := by
  induction a generalizing o with
  | nil => rfl
  | cons c r ih =>
    simp only [List.cons_append, runCalls, ih (o.step c)]
    rfl

/-- deleting a call of an inactive module keeps the result … -/
theorem runOps_remove_inactive (eng : Eng) (pre post body : List Op) :
    ∀ f s o, runOps eng f (pre ++ Op.ext false body :: post) s = some o → runOps eng f (pre ++ post) s = some o := by
  induction pre with
  | nil =>
    intro f s o h
    cases f with
    | zero => simp only [runOps] at h; cases h
    | succ f =>
      simp only [List.nil_append, runOps] at h ⊢
      cases f with
      | zero => simp only [runOp] at h; cases h
      | succ f =>
        simp only [runOp, Bool.false_eq_true, if_false] at h
        exact (Verif.C13.L.mono_joint eng (f + 1)).2.1 (f + 2) post s o (by omega) h
  | cons op r ih =>
    intro f s o h
    cases f with
    | zero => simp only [runOps] at h; cases h
    | succ f =>
      simp only [List.cons_append, runOps] at h ⊢
      cases hop : runOp eng f op s with
      | none => simp only [hop] at h; cases h
      | some t =>
        simp only [hop] at h ⊢
        exact ih f t o h

/-- … and so does inserting one (one more unit of fuel pays for the extra list element). -/
theorem runOps_insert_inactive (eng : Eng) (pre post body : List Op) :
    ∀ f s o, runOps eng f (pre ++ post) s = some o → runOps eng (f + 2) (pre ++ Op.ext false body :: post) s = some o := by
  induction pre with
  | nil =>
    intro f s o h
    simp only [List.nil_append, runOps, runOp, Bool.false_eq_true, if_false] at h ⊢
    exact (Verif.C13.L.mono_joint eng f).2.1 (f + 1) post s o (by omega) h
  | cons op r ih =>
    intro f s o h
    cases f with
    | zero => simp only [runOps] at h; cases h
    | succ f =>
      simp only [List.cons_append, runOps] at h ⊢
      cases hop : runOp eng f op s with
      | none => simp only [hop] at h; cases h
      | some t =>
        simp only [hop] at h
        rw [(Verif.C13.L.mono_joint eng f).1 (f + 2) op s t (by omega) hop]
        exact ih f t o h

end L
end Verif.C13.Link
