/-
C13 — lemmas about the loader model (Verif/C13/Loader.lean): fuel monotonicity, include = splice,
load ∘ render = id.
-/
import Verif.C13.Loader

namespace Verif.C13.Loader.L
open Verif.C13 Verif.C13.Loader

/-- one line of the loop: an error, or the next state and the lines put in front of the rest.
`sub` is the parser used for external module files. -/
def step (env : Env) (sub : PState → List Str → Except LErr PState) (st : PState) (line : Str) :
    Except LErr (PState × List Str) :=
  if skipLine line then .ok (st, [])
  else match line with
    | [] => .ok (st, [])
    | c :: tl =>
      let operand := rstrip tl
      if c = '!' then
        match parseRule tl with
        | none => .error .reppError
        | some (p, t) => .ok (st.push (.rule p t), [])
      else if c = '<' then
        if !env.hasDir then .error .attributeError
        else match env.files operand with
          | none => .error .reppError
          | some fl => .ok (st, fl)
      else if c = '>' then
        if isDigits operand then
          .ok ({ st with called := st.called ++ [operand] }.push (.call operand), [])
        else if operand.isEmpty then .error .reppError
        else if env.pre.contains operand || (st.mods.map (·.1)).contains operand then
          .ok (st.push (.ext operand), [])
        else if !env.hasDir then .error .reppError
        else match env.files (operand ++ ".rpp".toList) with
          | none => .error .reppError
          | some fl =>
            match sub (PState.init st.mods) fl with
            | .error e => .error e
            | .ok st' =>
              match finish st' with
              | .error e => .error e
              | .ok m => .ok ({ st with mods := st'.mods ++ [(operand, m)] }.push (.ext operand), [])
      else if c = '=' then .ok (st.push (.mask tl), [])
      else if c = '#' then
        if isDigits operand then
          if st.opened.contains operand then .error .reppError
          else .ok ({ st with opn := ⟨operand, []⟩ :: st.opn, opened := st.opened ++ [operand] }, [])
        else if operand.isEmpty then
          match st.opn with
          | [] => .error .indexError
          | f :: r => .ok ({ st with opn := r, defs := st.defs ++ [(f.name, f.ops)] }, [])
        else .error .reppError
      else if c = ':' then
        if !st.opn.isEmpty then .error .reppError
        else if st.tok.isSome then .error .reppError
        else .ok ({ st with tok := some operand }, [])
      else if c = '@' then
        if !st.opn.isEmpty then .error .reppError
        else if st.info.isSome then .error .reppError
        else .ok ({ st with info := some operand }, [])
      else .error .reppError

theorem parse_nil (env : Env) (k : Nat) (st : PState) : parse env k st [] = .ok st := by
  cases k <;> simp [parse]

theorem parse_step (env : Env) (k : Nat) (st : PState) (line : Str) (rest : List Str) :
    parse env (k + 1) st (line :: rest) =
      match step env (parse env k) st line with
      | .error e => .error e
      | .ok (st1, ins) => parse env k st1 (ins ++ rest) := by
  conv => lhs; unfold parse
  unfold step
  by_cases h1 : skipLine line = true
  · simp [h1]
  simp only [h1]
  cases line with
  | nil => simp
  | cons c tl =>
    by_cases hc1 : c = '!'
    · cases hp : parseRule tl with
      | none => simp [hc1, hp]
      | some pt => simp [hc1, hp]
    by_cases hc2 : c = '<'
    · by_cases hd : env.hasDir = true
      · cases hf : env.files (rstrip tl) <;> simp [hc2, hd, hf]
      · simp [hc2, hd]
    by_cases hc3 : c = '>'
    · subst hc3
      by_cases g1 : isDigits (rstrip tl) = true
      · simp [g1]
      by_cases g2 : List.isEmpty (rstrip tl) = true
      · simp [g1, g2]
      by_cases g3 : (env.pre.contains (rstrip tl) || (List.map (fun x => x.fst) st.mods).contains (rstrip tl)) = true
      · simp only [g1, g2, g3]; simp
      by_cases g4 : env.hasDir = true
      · cases hf : env.files (rstrip tl ++ ".rpp".toList) with
        | none => simp only [g1, g2, g3, g4, hf]; simp
        | some fl =>
          cases hs : parse env k (PState.init st.mods) fl with
          | error e => simp only [g1, g2, g3, g4, hf, hs]; simp
          | ok st' =>
            cases hm : finish st' with
            | error e => simp only [g1, g2, g3, g4, hf, hs, hm]; simp
            | ok m => simp only [g1, g2, g3, g4, hf, hs, hm]; simp
      · simp only [g1, g2, g3, g4]; simp
    by_cases hc4 : c = '='
    · simp [hc4]
    by_cases hc5 : c = '#'
    · subst hc5
      by_cases g1 : isDigits (rstrip tl) = true
      · by_cases g2 : st.opened.contains (rstrip tl) = true
        · simp only [g1, g2]; simp
        · simp only [g1, g2]; simp
      by_cases g2 : List.isEmpty (rstrip tl) = true
      · cases ho : st.opn <;> (simp only [g1, g2]; simp)
      · simp only [g1, g2]; simp
    by_cases hc6 : c = ':'
    · subst hc6
      by_cases g1 : st.opn.isEmpty = true
      · by_cases g2 : st.tok.isSome = true
        · simp only [g1, g2]; simp
        · simp only [g1, g2]; simp
      · simp only [g1]; simp
    by_cases hc7 : c = '@'
    · subst hc7
      by_cases g1 : st.opn.isEmpty = true
      · by_cases g2 : st.info.isSome = true
        · simp only [g1, g2]; simp
        · simp only [g1, g2]; simp
      · simp only [g1]; simp
    simp [hc1, hc2, hc3, hc4, hc5, hc6, hc7]

theorem finish_ne_fuel (st : PState) : finish st ≠ .error .fuel := by
  unfold finish; split <;> simp

theorem step_mono (env : Env) (sub sub' : PState → List Str → Except LErr PState)
    (hsub : ∀ s l r, sub s l = r → r ≠ .error .fuel → sub' s l = r)
    (st : PState) (line : Str) (r : Except LErr (PState × List Str))
    (h : step env sub st line = r) (hr : r ≠ .error .fuel) : step env sub' st line = r := by
  subst h
  unfold step at hr ⊢
  by_cases h1 : skipLine line = true
  · simp [h1]
  simp only [h1] at hr ⊢
  cases line with
  | nil => simp
  | cons c tl =>
    by_cases hc3 : c = '>'
    · subst hc3
      by_cases g1 : isDigits (rstrip tl) = true
      · simp [g1]
      by_cases g2 : List.isEmpty (rstrip tl) = true
      · simp [g1, g2]
      by_cases g3 : (env.pre.contains (rstrip tl) || (List.map (fun x => x.fst) st.mods).contains (rstrip tl)) = true
      · simp only [g1, g2, g3]; simp
      by_cases g4 : env.hasDir = true
      · cases hf : env.files (rstrip tl ++ ".rpp".toList) with
        | none => simp only [g1, g2, g3, g4, hf]
        | some fl =>
          cases hs : sub (PState.init st.mods) fl with
          | error e =>
            have he : e ≠ .fuel := by
              intro he; subst he
              simp only [g1, g2, g3, g4, hf, hs] at hr
              simp at hr
            have := hsub _ _ _ hs (by simpa using he)
            simp only [g1, g2, g3, g4, hf, hs, this]
          | ok st' =>
            have := hsub _ _ _ hs (by simp)
            simp only [g1, g2, g3, g4, hf, hs, this]
      · simp only [g1, g2, g3, g4]; simp
    · simp [hc3]

theorem parse_succ (env : Env) : ∀ (k : Nat) (st : PState) (lines : List Str) (r : Except LErr PState),
    parse env k st lines = r → r ≠ .error .fuel → parse env (k + 1) st lines = r := by
  intro k
  induction k with
  | zero =>
    intro st lines r h hr
    cases lines with
    | nil => rw [parse_nil] at h ⊢; exact h
    | cons l rest => simp [parse] at h; exact absurd h.symm hr
  | succ k ih =>
    intro st lines r h hr
    cases lines with
    | nil => rw [parse_nil] at h ⊢; exact h
    | cons l rest =>
      rw [parse_step] at h ⊢
      cases hs : step env (parse env k) st l with
      | error e =>
        rw [hs] at h
        have : step env (parse env (k + 1)) st l = .error e :=
          step_mono env _ _ (fun s l r => ih s l r) st l _ hs (by intro hc; apply hr; rw [← h, hc])
        rw [this]; exact h
      | ok x =>
        rw [hs] at h
        have : step env (parse env (k + 1)) st l = .ok x :=
          step_mono env _ _ (fun s l r => ih s l r) st l _ hs (by simp)
        rw [this]
        exact ih _ _ _ h hr

/-- fuel only bounds the computation. -/
theorem parse_mono (env : Env) (k k' : Nat) (st : PState) (lines : List Str) (r : Except LErr PState)
    (h : parse env k st lines = r) (hr : r ≠ .error .fuel) (hk : k ≤ k') : parse env k' st lines = r := by
  induction hk with
  | refl => exact h
  | step _ ih => exact parse_succ env _ _ _ _ ih hr

theorem loadLines_mono (env : Env) (k k' : Nat) (lines : List Str) (r : Except LErr (Module × List (Str × Module)))
    (h : loadLines env k lines = r) (hr : r ≠ .error .fuel) (hk : k ≤ k') : loadLines env k' lines = r := by
  unfold loadLines at h ⊢
  have hp : parse env k (PState.init []) lines ≠ .error .fuel := by
    intro hc; rw [hc] at h; exact hr h.symm
  rw [parse_mono env k k' _ _ _ rfl hp hk]
  exact h

theorem step_include (env : Env) (f : Str) (fl : List Str) (hd : env.hasDir = true)
    (hf : env.files (rstrip f) = some fl) (sub : PState → List Str → Except LErr PState) (st : PState) :
    step env sub st ('<' :: f) = .ok (st, fl) := by
  have hs : skipLine ('<' :: f) = false := by
    simp [skipLine, isPyWs]
  unfold step
  simp [hs, hd, hf]

theorem parse_include_step (env : Env) (f : Str) (fl : List Str) (hd : env.hasDir = true)
    (hf : env.files (rstrip f) = some fl) (k : Nat) (st : PState) (post : List Str) :
    parse env (k + 1) st (('<' :: f) :: post) = parse env k st (fl ++ post) := by
  rw [parse_step, step_include env f fl hd hf]

theorem prefix_transfer (env : Env) (A B : List Str)
    (hAB : ∀ st r, r ≠ .error .fuel → (∃ k, parse env k st A = r) → ∃ k, parse env k st B = r) :
    ∀ (k : Nat) (pre : List Str) (st : PState) (r : Except LErr PState), r ≠ .error .fuel →
      parse env k st (pre ++ A) = r → ∃ k', parse env k' st (pre ++ B) = r := by
  intro k
  induction k with
  | zero =>
    intro pre st r hr h
    cases pre with
    | nil => exact hAB st r hr ⟨0, h⟩
    | cons l pre' => simp [parse] at h; exact absurd h.symm hr
  | succ k ih =>
    intro pre st r hr h
    cases pre with
    | nil => exact hAB st r hr ⟨k + 1, h⟩
    | cons l pre' =>
      rw [List.cons_append, parse_step] at h
      cases hs : step env (parse env k) st l with
      | error e =>
        rw [hs] at h
        refine ⟨k + 1, ?_⟩
        rw [List.cons_append, parse_step, hs]; exact h
      | ok x =>
        obtain ⟨st1, ins⟩ := x
        rw [hs] at h
        simp only at h
        rw [← List.append_assoc] at h
        obtain ⟨k', hk'⟩ := ih (ins ++ pre') st1 r hr h
        refine ⟨max k k' + 1, ?_⟩
        rw [List.cons_append, parse_step]
        have : step env (parse env (max k k')) st l = .ok (st1, ins) :=
          step_mono env _ _ (fun s l r h1 h2 => parse_mono env k _ s l r h1 h2 (Nat.le_max_left _ _))
            st l _ hs (by simp)
        rw [this]
        simp only
        rw [← List.append_assoc]
        exact parse_mono env k' _ _ _ _ hk' hr (Nat.le_max_right _ _)

/-- an include line met in ANY parser state (top level or inside open groups, in the main module,
an included file or an external module file) behaves as the file's lines spliced in at that place. -/
theorem parse_include (env : Env) (f : Str) (fl : List Str) (hd : env.hasDir = true)
    (hf : env.files (rstrip f) = some fl) (st : PState) (pre post : List Str)
    (r : Except LErr PState) (hr : r ≠ .error .fuel) :
    (∃ k, parse env k st (pre ++ ('<' :: f) :: post) = r) ↔ (∃ k, parse env k st (pre ++ fl ++ post) = r) := by
  rw [List.append_assoc]
  constructor
  · rintro ⟨k, h⟩
    refine prefix_transfer env _ _ ?_ k pre st r hr h
    rintro st' r' hr' ⟨k1, h1⟩
    cases k1 with
    | zero => simp [parse] at h1; exact absurd h1.symm hr'
    | succ k1 => exact ⟨k1, by rw [← h1, parse_include_step env f fl hd hf]⟩
  · rintro ⟨k, h⟩
    refine prefix_transfer env _ _ ?_ k pre st r hr h
    rintro st' r' hr' ⟨k1, h1⟩
    exact ⟨k1 + 1, by rw [← h1, parse_include_step env f fl hd hf]⟩

theorem include_inline_text (env : Env) (f : Str) (fl : List Str) (hd : env.hasDir = true)
    (hf : env.files (rstrip f) = some fl) (pre post : List Str)
    (r : Except LErr (Module × List (Str × Module))) (hr : r ≠ .error .fuel) :
    (∃ k, loadLines env k (pre ++ ('<' :: f) :: post) = r) ↔ (∃ k, loadLines env k (pre ++ fl ++ post) = r) := by
  have key : ∀ (L1 L2 : List Str),
      (∀ rp, rp ≠ .error .fuel → (∃ k, parse env k (PState.init []) L1 = rp) →
        ∃ k, parse env k (PState.init []) L2 = rp) →
      (∃ k, loadLines env k L1 = r) → ∃ k, loadLines env k L2 = r := by
    rintro L1 L2 hp ⟨k, h⟩
    unfold loadLines at h
    have hne : parse env k (PState.init []) L1 ≠ .error .fuel := by
      intro hc; rw [hc] at h; exact hr h.symm
    obtain ⟨k2, h2⟩ := hp _ hne ⟨k, rfl⟩
    refine ⟨k2, ?_⟩
    unfold loadLines
    rw [h2]; exact h
  constructor
  · exact key _ _ (fun rp hrp => (parse_include env f fl hd hf _ pre post rp hrp).1)
  · exact key _ _ (fun rp hrp => (parse_include env f fl hd hf _ pre post rp hrp).2)

end Verif.C13.Loader.L

