/-
C13 — "a module with no applicable rule returns its input", at module level.
-/
import Verif.C13.Lemmas

namespace Verif.C13

mutual
/-- no rewrite rule that would run on `s` (rules of inactive external groups do not count) has a match in `s`. -/
def Op.noMatchAt (eng : Eng) (s : Str) : Op → Bool
  | .rule id _ _ => (eng id s).isEmpty
  | .mask _ => true
  | .iter ops => opsNoMatchAt eng s ops
  | .ext active ops => !active || opsNoMatchAt eng s ops
def opsNoMatchAt (eng : Eng) (s : Str) : List Op → Bool
  | [] => true
  | op :: r => op.noMatchAt eng s && opsNoMatchAt eng s r
end

namespace L

private def Q (s : Str) (x : Step) : Prop := x.out = s ∧ x.sm = zeromap s ∧ x.em = zeromap s

private theorem lastOut_all (st : List Step) (s : Str) (h : ∀ x ∈ st, Q s x) : lastOut st s = s := by
  induction st with
  | nil => rfl
  | cons x r ih =>
    cases r with
    | nil => exact (h x List.mem_cons_self).1
    | cons y r =>
      simp only [lastOut]
      exact ih (fun z hz => h z (List.mem_cons_of_mem _ hz))

private theorem nm_joint (eng : Eng) (f : Nat) :
    (∀ op s st, Op.noMatchAt eng s op = true → applyOp eng f op s = some st → ∀ x ∈ st, Q s x) ∧
    (∀ ops s st o, opsNoMatchAt eng s ops = true → applyOps eng f ops s = some (st, o) →
      o = s ∧ ∀ x ∈ st, Q s x) ∧
    (∀ ops s st, opsNoMatchAt eng s ops = true → groupApply eng f ops s = some st → ∀ x ∈ st, Q s x) ∧
    (∀ ops s st, opsNoMatchAt eng s ops = true → iterApply eng f ops s = some st → ∀ x ∈ st, Q s x) := by
  induction f with
  | zero =>
    refine ⟨?_, ?_, ?_, ?_⟩
    · intro op s st _ h; simp only [applyOp] at h; cases h
    · intro ops s st o _ h; simp only [applyOps] at h; cases h
    · intro ops s st _ h; simp only [groupApply] at h; cases h
    · intro ops s st _ h; simp only [iterApply] at h; cases h
  | succ f ih =>
    obtain ⟨h1, h2, h3, h4⟩ := ih
    refine ⟨?_, ?_, ?_, ?_⟩
    · intro op s st hn h
      cases op with
      | rule id tr un =>
        simp only [Op.noMatchAt] at hn
        simp only [applyOp, Option.some.injEq] at h
        subst h
        intro x hx
        simp only [List.mem_singleton] at hx
        subst hx
        unfold ruleStep applyRule
        simp only [hn, if_true]
        exact ⟨rfl, rfl, rfl⟩
      | mask id =>
        simp only [applyOp, Option.some.injEq] at h
        subst h
        intro x hx
        simp only [List.mem_singleton] at hx
        subst hx
        exact ⟨rfl, rfl, rfl⟩
      | iter ops =>
        simp only [Op.noMatchAt] at hn
        simp only [applyOp] at h
        exact h4 ops s st hn h
      | ext a ops =>
        simp only [Op.noMatchAt] at hn
        simp only [applyOp] at h
        cases a with
        | false =>
          simp only [Bool.false_eq_true, if_false, Option.some.injEq] at h
          subst h
          intro x hx; cases hx
        | true =>
          simp only [Bool.not_true, Bool.false_or] at hn
          simp only [if_true] at h
          exact h3 ops s st hn h
    · intro ops s st o hn h
      cases ops with
      | nil =>
        simp only [applyOps, Option.some.injEq, Prod.mk.injEq] at h
        obtain ⟨e1, e2⟩ := h
        subst e1 e2
        exact ⟨rfl, fun x hx => (by cases hx)⟩
      | cons op r =>
        simp only [opsNoMatchAt, Bool.and_eq_true] at hn
        obtain ⟨hn1, hn2⟩ := hn
        simp only [applyOps] at h
        cases hop : applyOp eng f op s with
        | none => rw [hop] at h; cases h
        | some st1 =>
          have q1 := h1 op s st1 hn1 hop
          rw [hop] at h
          simp only [lastOut_all st1 s q1] at h
          cases hops : applyOps eng f r s with
          | none => rw [hops] at h; cases h
          | some p =>
            obtain ⟨st2, o2⟩ := p
            obtain ⟨c1, c2⟩ := h2 r s st2 o2 hn2 hops
            rw [hops] at h
            simp only [Option.some.injEq, Prod.mk.injEq] at h
            obtain ⟨e1, e2⟩ := h
            subst e1 e2
            refine ⟨c1, ?_⟩
            intro x hx
            rcases List.mem_append.mp hx with hx | hx
            · exact q1 x hx
            · exact c2 x hx
    · intro ops s st hn h
      simp only [groupApply] at h
      cases hops : applyOps eng f ops s with
      | none => rw [hops] at h; cases h
      | some p =>
        obtain ⟨st2, o2⟩ := p
        obtain ⟨c1, c2⟩ := h2 ops s st2 o2 hn hops
        rw [hops] at h
        simp only [Option.some.injEq] at h
        subst h
        subst c1
        intro x hx
        rcases List.mem_append.mp hx with hx | hx
        · exact c2 x hx
        · simp only [List.mem_singleton] at hx
          subst hx
          exact ⟨rfl, rfl, rfl⟩
    · intro ops s st hn h
      simp only [iterApply] at h
      cases hg : groupApply eng f ops s with
      | none => rw [hg] at h; cases h
      | some st1 =>
        have q1 := h3 ops s st1 hn hg
        rw [hg] at h
        simp only [lastOut_all st1 s q1, if_true, Option.some.injEq] at h
        subst h
        exact q1

/-- whole module: if no rule that runs has a match in the input, the result is the input and every
yielded step (rule steps, mask steps, group summaries, every round of every iterative group) reports
the input string with zero maps. -/
theorem no_applicable_rule (eng : Eng) (f : Nat) (ops : List Op) (s : Str) (st : List Step) (o : Str)
    (h : traceSteps eng f ops s = .ok (st, o)) (hn : opsNoMatchAt eng s ops = true) :
    o = s ∧ ∀ x ∈ st, x.out = s ∧ x.sm = zeromap s ∧ x.em = zeromap s := by
  unfold traceSteps at h
  cases hg : groupApply eng f ops s with
  | none => rw [hg] at h; cases h
  | some st1 =>
    rw [hg] at h
    simp only [Except.ok.injEq, Prod.mk.injEq] at h
    obtain ⟨e1, e2⟩ := h
    subst e1
    have q := (nm_joint eng f).2.2.1 ops s st1 hn hg
    rw [lastOut_all st1 s q] at e2
    exact ⟨e2.symm, q⟩

end L
end Verif.C13
