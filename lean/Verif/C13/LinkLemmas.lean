/-
C13 — lemmas about linking (Verif/C13/Link.lean): the pipeline on text.
-/
import Verif.C13.Link
import Verif.C13.Lemmas
import Verif.C13.LoaderLemmas
import Verif.C13.LoaderRoundtrip

namespace Verif.C13.Link.L
open Verif.C13 Verif.C13.Loader Verif.C13.Link

/-! ### helpers -/

private theorem lookupG_map {α β} (g : α → β) (n : Str) (D : List (Str × α)) :
    lookupG n (D.map (fun p => (p.1, g p.2))) = (lookupG n D).map g := by
  induction D with
  | nil => rfl
  | cons a r ih =>
    obtain ⟨k, v⟩ := a
    simp only [List.map_cons, lookupG]
    split
    · rfl
    · exact ih

private theorem lookupG_mem {α} (n : Str) (D : List (Str × α)) (b : α) (h : lookupG n D = some b) :
    (n, b) ∈ D := by
  induction D with
  | nil => simp [lookupG] at h
  | cons a r ih =>
    obtain ⟨k, v⟩ := a
    simp only [lookupG] at h
    split at h
    · next hk =>
      cases h
      subst hk
      exact List.mem_cons_self
    · exact List.mem_cons_of_mem _ (ih h)

private theorem lookupG_of_nodup {α} (n : Str) (D : List (Str × α)) (b : α)
    (hnd : (D.map (·.1)).Nodup) (h : (n, b) ∈ D) : lookupG n D = some b := by
  induction D with
  | nil => cases h
  | cons a r ih =>
    obtain ⟨k, v⟩ := a
    simp only [List.map_cons, List.nodup_cons] at hnd
    simp only [lookupG]
    rcases List.mem_cons.mp h with heq | hr
    · cases heq
      simp
    · have hne : k ≠ n := by
        intro hk
        subst hk
        exact hnd.1 (List.mem_map.mpr ⟨(k, b), hr, rfl⟩)
      simp only [hne, if_false]
      exact ih hnd.2 hr

mutual
private theorem defsNode_eq : (x : Node) →
    defsOfNode x = (bodiesOfNode x).map (fun p => (p.1, opsOfNodes p.2))
  | .defcall n body a => by
    rw [defsOfNode, bodiesOfNode, List.map_append, defsNodes_eq body]
    rfl
  | .rule _ _ => by simp [defsOfNode, bodiesOfNode]
  | .mask _ => by simp [defsOfNode, bodiesOfNode]
  | .call _ => by simp [defsOfNode, bodiesOfNode]
  | .ext _ => by simp [defsOfNode, bodiesOfNode]
private theorem defsNodes_eq : (xs : List Node) →
    defsOfNodes xs = (bodiesOfNodes xs).map (fun p => (p.1, opsOfNodes p.2))
  | [] => by simp [defsOfNodes, bodiesOfNodes]
  | x :: r => by
    rw [defsOfNodes, bodiesOfNodes, List.map_append, defsNode_eq x, defsNodes_eq r]
end

mutual
private theorem nestedNode : (x : Node) → ∀ n b, (n, b) ∈ bodiesOfNode x →
    ∀ p ∈ bodiesOfNodes b, p ∈ bodiesOfNode x
  | .defcall n' body a => by
    intro n b h p hp
    rw [bodiesOfNode] at h ⊢
    rcases List.mem_append.mp h with h1 | h1
    · exact List.mem_append_left _ (nestedNodes body n b h1 p hp)
    · simp only [List.mem_singleton, Prod.mk.injEq] at h1
      obtain ⟨_, rfl⟩ := h1
      exact List.mem_append_left _ hp
  | .rule _ _ => by intro n b h; simp [bodiesOfNode] at h
  | .mask _ => by intro n b h; simp [bodiesOfNode] at h
  | .call _ => by intro n b h; simp [bodiesOfNode] at h
  | .ext _ => by intro n b h; simp [bodiesOfNode] at h
private theorem nestedNodes : (xs : List Node) → ∀ n b, (n, b) ∈ bodiesOfNodes xs →
    ∀ p ∈ bodiesOfNodes b, p ∈ bodiesOfNodes xs
  | [] => by intro n b h; simp [bodiesOfNodes] at h
  | x :: r => by
    intro n b h p hp
    rw [bodiesOfNodes] at h ⊢
    rcases List.mem_append.mp h with h1 | h1
    · exact List.mem_append_left _ (nestedNode x n b h1 p hp)
    · exact List.mem_append_right _ (nestedNodes r n b h1 p hp)
end

/-- the loader's group table of a rendered tree is the table of group bodies, linked name by name. -/
theorem defs_eq_map (nodes : List Node) :
    defsOfNodes nodes = (bodiesOfNodes nodes).map (fun p => (p.1, opsOfNodes p.2)) :=
  defsNodes_eq nodes

/-- a table of bodies in which every name finds its own body and which contains the bodies nested in its bodies. -/
def Closed (D : List (Str × List Node)) : Prop :=
  ∀ n b, (n, b) ∈ D → lookupG n D = some b ∧ ∀ p ∈ bodiesOfNodes b, p ∈ D

theorem closed_of_nodup (nodes : List Node) (hnd : ((defsOfNodes nodes).map (·.1)).Nodup) :
    Closed (bodiesOfNodes nodes) := by
  have hnd' : ((bodiesOfNodes nodes).map (·.1)).Nodup := by
    rw [defs_eq_map, List.map_map] at hnd
    exact hnd
  intro n b h
  exact ⟨lookupG_of_nodup n _ b hnd' h, nestedNodes nodes n b h⟩

private theorem link_joint (E : LinkEnv) (D : List (Str × List Node)) (hD : Closed D) (f : Nat) :
    (∀ ns : List Node, (∀ p ∈ bodiesOfNodes ns, p ∈ D) →
      linkOps E (D.map (fun p => (p.1, opsOfNodes p.2))) f (opsOfNodes ns) = semNodes E D f ns) ∧
    (∀ x : Node, (∀ p ∈ bodiesOfNode x, p ∈ D) →
      linkOp E (D.map (fun p => (p.1, opsOfNodes p.2))) f x.toLOp = semNode E D f x) := by
  induction f with
  | zero =>
    refine ⟨fun ns _ => ?_, fun x _ => ?_⟩
    · rw [linkOps, semNodes]
    · rw [linkOp, semNode]
  | succ f ih =>
    obtain ⟨ih1, ih2⟩ := ih
    refine ⟨fun ns hns => ?_, fun x hx => ?_⟩
    · cases ns with
      | nil => rw [opsOfNodes, linkOps, semNodes]
      | cons x r =>
        rw [bodiesOfNodes] at hns
        rw [opsOfNodes, linkOps, semNodes,
          ih2 x (fun p hp => hns p (List.mem_append_left _ hp)),
          ih1 r (fun p hp => hns p (List.mem_append_right _ hp))]
    · cases x with
      | rule p t => rw [Node.toLOp, linkOp, semNode]
      | mask p => rw [Node.toLOp, linkOp, semNode]
      | ext nm => rw [Node.toLOp, linkOp, semNode]
      | defcall n body a =>
        rw [bodiesOfNode] at hx
        have hmem : (n, body) ∈ D := hx _ (List.mem_append_right _ List.mem_cons_self)
        obtain ⟨hl, hsub⟩ := hD n body hmem
        rw [Node.toLOp, linkOp, semNode, lookupG_map, hl]
        simp only [Option.map_some]
        rw [ih1 body hsub]
      | call n =>
        rw [Node.toLOp, linkOp, semNode, lookupG_map]
        cases hl : lookupG n D with
        | none => rfl
        | some b =>
          simp only [Option.map_some]
          rw [ih1 b (hD n b (lookupG_mem n D b hl)).2]

/-- linking what the loader gives for a tree = the tree's own semantics. -/
theorem link_eq_sem (E : LinkEnv) (D : List (Str × List Node)) (hD : Closed D) (f : Nat) (ns : List Node)
    (hns : ∀ p ∈ bodiesOfNodes ns, p ∈ D) :
    linkOps E (D.map (fun p => (p.1, opsOfNodes p.2))) f (opsOfNodes ns) = semNodes E D f ns :=
  (link_joint E D hD f).1 ns hns

theorem link_render_sem (E : LinkEnv) (f : Nat) (nodes : List Node) (hnd : ((defsOfNodes nodes).map (·.1)).Nodup) :
    linkOps E (defsOfNodes nodes) f (opsOfNodes nodes) = semNodes E (bodiesOfNodes nodes) f nodes := by
  rw [defs_eq_map]
  exact link_eq_sem E _ (closed_of_nodup nodes hnd) f nodes (fun _ hp => hp)

/-- the main clause on text: whenever loading, linking and running the text succeeds, the result
string is the reference run (rules in file order as global substitutions, groups to their fixpoint,
inactive modules skipped) of the linked operations. -/
theorem applyText_main (env : Loader.Env) (E : LinkEnv) (eng : Eng) (k f : Nat) (lines : List Str) (s : Str)
    (st : List Step) (res : Verif.C14.Result) (h : applyText env E eng k f lines s = .ok (st, res)) :
    ∃ m mods ops, loadLines env k lines = .ok (m, mods) ∧
      linkModule { E with mods := E.mods ++ mods } f m = .ok ops ∧
      runGroup eng f ops s = some res.string := by
  unfold applyText at h
  cases hl : loadLines env k lines with
  | error e => rw [hl] at h; cases h
  | ok lm =>
    rw [hl] at h
    obtain ⟨m, mods⟩ := lm
    unfold afterLoad at h
    cases hk : linkModule { E with mods := E.mods ++ mods } f m with
    | error e => simp only [hk] at h; cases h
    | ok ops =>
      simp only [hk] at h
      refine ⟨m, mods, ops, rfl, hk, ?_⟩
      unfold Verif.C14.apply at h
      cases ht : traceSteps eng f ops s with
      | error e => simp only [ht] at h; cases h
      | ok so =>
        obtain ⟨st', o⟩ := so
        simp only [ht] at h
        cases hm : Verif.C14.mergeSteps st' (Verif.C14.initStart s) (Verif.C14.initEnd s) with
        | none => simp only [hm] at h; cases h
        | some se =>
          obtain ⟨sm, em⟩ := se
          simp only [hm] at h
          cases h
          unfold traceSteps at ht
          cases hg : groupApply eng f ops s with
          | none => simp only [hg] at ht; cases ht
          | some st2 =>
            simp only [hg] at ht
            cases ht
            have := Verif.C13.L.groupApply_run eng f ops s
            rw [hg] at this
            exact this.symm

private theorem applyText_of_load (env : Loader.Env) (E : LinkEnv) (eng : Eng) (f : Nat) (s : Str)
    (r : Except TErr (List Step × Verif.C14.Result)) (hr : r ≠ .error (.load .fuel))
    (L1 L2 : List Str)
    (hL : ∀ r' : Except LErr (Module × List (Str × Module)), r' ≠ .error .fuel →
      (∃ k, loadLines env k L1 = r') → ∃ k, loadLines env k L2 = r') :
    (∃ k, applyText env E eng k f L1 s = r) → ∃ k, applyText env E eng k f L2 s = r := by
  rintro ⟨k, h⟩
  have hne : loadLines env k L1 ≠ .error .fuel := by
    intro hc
    unfold applyText at h
    rw [hc] at h
    exact hr h.symm
  obtain ⟨k', hk'⟩ := hL _ hne ⟨k, rfl⟩
  refine ⟨k', ?_⟩
  unfold applyText at h ⊢
  rw [hk']
  exact h

/-- includes are spliced in place — on the whole pipeline. -/
theorem applyText_include (env : Loader.Env) (E : LinkEnv) (eng : Eng) (f : Nat) (fn : Str) (fl : List Str)
    (hd : env.hasDir = true) (hf : env.files (rstrip fn) = some fl) (pre post : List Str) (s : Str)
    (r : Except TErr (List Step × Verif.C14.Result)) (hr : r ≠ .error (.load .fuel)) :
    (∃ k, applyText env E eng k f (pre ++ ('<' :: fn) :: post) s = r)
      ↔ (∃ k, applyText env E eng k f (pre ++ fl ++ post) s = r) := by
  constructor
  · exact applyText_of_load env E eng f s r hr _ _ (fun r' hr' =>
      (Verif.C13.Loader.L.include_inline_text env fn fl hd hf pre post r' hr').mp)
  · exact applyText_of_load env E eng f s r hr _ _ (fun r' hr' =>
      (Verif.C13.Loader.L.include_inline_text env fn fl hd hf pre post r' hr').mpr)

/-- text ↔ tree: applying the module loaded from the rendered text of a tree is applying the tree. -/
theorem applyText_render (env : Loader.Env) (E : LinkEnv) (eng : Eng) (f : Nat) (info tok : Option Str)
    (nodes : List Node) (s : Str)
    (hwf : wfNodes env.pre nodes = true)
    (hnd : ((defsOfNodes nodes).map (·.1)).Nodup)
    (hcalls : ∀ n ∈ callsOfNodes nodes, n ∈ (defsOfNodes nodes).map (·.1))
    (hinfo : ∀ x, info = some x → rstrip x = x) (htok : ∀ x, tok = some x → rstrip x = x) :
    ∃ k0, ∀ k, k0 ≤ k →
      applyText env E eng k f (renderModule info tok nodes) s = applyTree E eng f nodes s := by
  obtain ⟨k0, hk0⟩ := Verif.C13.Loader.L.load_roundtrip env info tok nodes hwf hnd hcalls hinfo htok
  refine ⟨k0, fun k hk => ?_⟩
  unfold applyText
  rw [hk0 k hk]
  unfold afterLoad applyTree linkModule
  simp only [List.append_nil]
  have hE : ({ E with mods := E.mods } : LinkEnv) = E := rfl
  rw [hE, link_render_sem E f nodes hnd]

end Verif.C13.Link.L
