/-
C13 — loader model: load ∘ render = id (Verif/C13/Loader.lean).
-/
import Verif.C13.LoaderLemmas

namespace Verif.C13.Loader.L.RT
open Verif.C13 Verif.C13.Loader

/-! ### character and string facts -/

private theorem digit_not_ws (c : Char) (h : c.isDigit = true) : isPyWs c = false := by
  cases hc : isPyWs c
  · rfl
  · exfalso
    simp only [isPyWs, Bool.or_eq_true, decide_eq_true_eq] at hc
    rcases hc with ((((((((hc | hc) | hc) | hc) | hc) | hc) | hc) | hc) | hc) | hc <;>
      (subst hc; revert h; decide)

private theorem rstrip_nil : rstrip [] = [] := rfl

private theorem rstrip_of_last (s : Str) (c : Char) (hc : isPyWs c = false) :
    rstrip (s ++ [c]) = s ++ [c] := by
  simp [rstrip, hc]

private theorem isDigits_ne_nil {n : Str} (h : isDigits n = true) : n ≠ [] := by
  intro h0; subst h0; simp [isDigits] at h

private theorem rstrip_digits {n : Str} (h : isDigits n = true) : rstrip n = n := by
  have hne := isDigits_ne_nil h
  have hall : ∀ c ∈ n, c.isDigit = true := by
    simp [isDigits] at h; exact h.2
  obtain ⟨s, c, rfl⟩ : ∃ s c, n = s ++ [c] :=
    ⟨n.dropLast, n.getLast hne, (List.dropLast_concat_getLast hne).symm⟩
  exact rstrip_of_last s c (digit_not_ws c (hall c (by simp)))

private theorem skip_false (c : Char) (tl : Str) (h1 : c ≠ ';') (h2 : isPyWs c = false) :
    skipLine (c :: tl) = false := by
  simp [skipLine, h1, h2]

private theorem takeWhile_all {α} (q : α → Bool) (l : List α) (h : ∀ c ∈ l, q c = true) :
    l.takeWhile q = l := by
  induction l with
  | nil => rfl
  | cons a l ih =>
    have ha := h a (by simp)
    simp only [List.takeWhile_cons, ha, if_true]
    rw [ih (fun c hc => h c (by simp [hc]))]

private theorem parseRule_ok (p t : Str) (hp : p ≠ []) (hpt : p.contains '\t' = false)
    (ht : tplOk t = true) : parseRule (p ++ '\t' :: t) = some (p, t) := by
  have h1 : ∀ c ∈ p, c ≠ '\t' := by
    intro c hc hct; subst hct
    have : p.contains '\t' = true := by simpa using hc
    rw [hpt] at this; cases this
  have htk : (p ++ '\t' :: t).takeWhile (· ≠ '\t') = p := by
    rw [List.takeWhile_append_of_pos (by simpa using h1)]
    simp
  have hdr : (p ++ '\t' :: t).dropWhile (· ≠ '\t') = '\t' :: t := by
    rw [List.dropWhile_append_of_pos (by simpa using h1)]
    simp
  simp only [tplOk, Bool.and_eq_true, Bool.not_eq_true', decide_eq_true_eq] at ht
  obtain ⟨ht1, ht2⟩ := ht
  have hd2 : ('\t' :: t).dropWhile (· = '\t') = t := by
    cases t with
    | nil => simp
    | cons a t' =>
      have : a ≠ '\t' := by intro h; subst h; simp at ht1
      simp [this]
  have htn : t.takeWhile (· ≠ '\n') = t := by
    apply takeWhile_all
    intro c hc
    have : c ≠ '\n' := by
      intro h; subst h
      have : t.contains '\n' = true := by simpa using hc
      rw [ht2] at this; cases this
    simpa using this
  unfold parseRule
  simp only [htk, hdr, hd2, htn]
  cases p with
  | nil => exact absurd rfl hp
  | cons a p' => simp

/-! ### the state after a run of lines -/

/-- `st` after lines that push `ops` on the current frame, close the groups `defs`, open `opened`
and call `called`. -/
private def adv (st : PState) (ops : List LOp) (defs : List (Str × List LOp))
    (opened called : List Str) : PState :=
  match st.opn with
  | [] => ⟨st.base ++ ops, [], st.defs ++ defs, st.opened ++ opened, st.called ++ called,
      st.tok, st.info, st.mods⟩
  | f :: r => ⟨st.base, ⟨f.name, f.ops ++ ops⟩ :: r, st.defs ++ defs, st.opened ++ opened,
      st.called ++ called, st.tok, st.info, st.mods⟩

private theorem adv_nil (st : PState) : adv st [] [] [] [] = st := by
  obtain ⟨b, o, d, op, ca, t, i, m⟩ := st
  cases o <;> simp [adv]

private theorem adv_adv (st : PState) (o1 o2 : List LOp) (d1 d2 : List (Str × List LOp))
    (p1 p2 c1 c2 : List Str) :
    adv (adv st o1 d1 p1 c1) o2 d2 p2 c2 = adv st (o1 ++ o2) (d1 ++ d2) (p1 ++ p2) (c1 ++ c2) := by
  obtain ⟨b, o, d, op, ca, t, i, m⟩ := st
  cases o <;> simp [adv, List.append_assoc]

private theorem push_eq (st : PState) (op : LOp) : st.push op = adv st [op] [] [] [] := by
  obtain ⟨b, o, d, op', ca, t, i, m⟩ := st
  cases o <;> simp [adv, PState.push]

private theorem push_called_eq (st : PState) (n : Str) :
    ({ st with called := st.called ++ [n] } : PState).push (.call n) = adv st [.call n] [] [] [n] := by
  obtain ⟨b, o, d, op', ca, t, i, m⟩ := st
  cases o <;> simp [adv, PState.push]

private theorem parse_nil (env : Env) (k : Nat) (st : PState) : parse env k st [] = .ok st := by
  cases k <;> rfl

/-! ### one line -/

private theorem step_rule (env : Env) (k : Nat) (st : PState) (p t : Str) (rest : List Str)
    (hp : p ≠ []) (hpt : p.contains '\t' = false) (ht : tplOk t = true) :
    parse env (k + 1) st ((('!' :: p) ++ '\t' :: t) :: rest)
      = parse env k (adv st [.rule p t] [] [] []) rest := by
  rw [List.cons_append, parse]
  rw [skip_false _ _ (by decide) (by decide)]
  simp [parseRule_ok p t hp hpt ht, push_eq]

private theorem step_mask (env : Env) (k : Nat) (st : PState) (p : Str) (rest : List Str) :
    parse env (k + 1) st (('=' :: p) :: rest) = parse env k (adv st [.mask p] [] [] []) rest := by
  rw [parse]
  rw [skip_false _ _ (by decide) (by decide)]
  simp [push_eq]

private theorem step_call (env : Env) (k : Nat) (st : PState) (n : Str) (rest : List Str)
    (hn : isDigits n = true) :
    parse env (k + 1) st (('>' :: n) :: rest) = parse env k (adv st [.call n] [] [] [n]) rest := by
  rw [parse]
  rw [skip_false _ _ (by decide) (by decide)]
  simp [rstrip_digits hn, hn, push_called_eq]

private theorem step_ext (env : Env) (k : Nat) (st : PState) (nm : Str) (rest : List Str)
    (h1 : nm ≠ []) (h2 : isDigits nm = false) (h3 : rstrip nm = nm) (h4 : env.pre.contains nm = true) :
    parse env (k + 1) st (('>' :: nm) :: rest) = parse env k (adv st [.ext nm] [] [] []) rest := by
  rw [parse]
  rw [skip_false _ _ (by decide) (by decide)]
  cases nm with
  | nil => exact absurd rfl h1
  | cons a nm' =>
    have h4' : a :: nm' ∈ env.pre := by simpa using h4
    simp [h3, h2, h4', push_eq]

private theorem step_open (env : Env) (k : Nat) (st : PState) (n : Str) (rest : List Str)
    (hn : isDigits n = true) (ho : n ∉ st.opened) :
    parse env (k + 1) st (('#' :: n) :: rest)
      = parse env k { st with opn := ⟨n, []⟩ :: st.opn, opened := st.opened ++ [n] } rest := by
  rw [parse]
  rw [skip_false _ _ (by decide) (by decide)]
  simp [rstrip_digits hn, hn, ho]

private theorem step_close (env : Env) (k : Nat) (st : PState) (f : Frame) (r : List Frame)
    (rest : List Str) (ho : st.opn = f :: r) :
    parse env (k + 1) st (['#'] :: rest)
      = parse env k { st with opn := r, defs := st.defs ++ [(f.name, f.ops)] } rest := by
  rw [parse]
  rw [skip_false _ _ (by decide) (by decide)]
  simp [rstrip_nil, isDigits, ho]

/-! ### the opened and called names in line order -/

mutual
private def openedOfNode : Node → List Str
  | .defcall n body _ => n :: openedOfNodes body
  | .rule _ _ => []
  | .mask _ => []
  | .call _ => []
  | .ext _ => []
private def openedOfNodes : List Node → List Str
  | [] => []
  | x :: r => openedOfNode x ++ openedOfNodes r
end

mutual
private def calledOfNode : Node → List Str
  | .defcall n body after => if after then n :: calledOfNodes body else calledOfNodes body ++ [n]
  | .call n => [n]
  | .rule _ _ => []
  | .mask _ => []
  | .ext _ => []
private def calledOfNodes : List Node → List Str
  | [] => []
  | x :: r => calledOfNode x ++ calledOfNodes r
end

private theorem adv_opened (st : PState) (o : List LOp) (d : List (Str × List LOp)) (p c : List Str) :
    (adv st o d p c).opened = st.opened ++ p := by
  obtain ⟨b, o', d', op, ca, t, i, m⟩ := st
  cases o' <;> simp [adv]

/-! ### a tree of lines -/

mutual
private theorem run_node (env : Env) : (x : Node) → (k : Nat) → (st : PState) → (rest : List Str) →
    wfNode env.pre x = true → (openedOfNode x).Nodup → (∀ m ∈ openedOfNode x, m ∉ st.opened) →
    parse env (k + (renderNode x).length) st (renderNode x ++ rest)
      = parse env k (adv st [x.toLOp] (defsOfNode x) (openedOfNode x) (calledOfNode x)) rest
  | .rule p t, k, st, rest, hwf, _, _ => by
    simp only [wfNode, Bool.and_eq_true, Bool.not_eq_true'] at hwf
    obtain ⟨⟨h1, h2⟩, h3⟩ := hwf
    have hp : p ≠ [] := by intro h; subst h; simp at h1
    simp only [renderNode, List.length_singleton, List.singleton_append, Node.toLOp, defsOfNode,
      openedOfNode, calledOfNode]
    exact step_rule env k st p t rest hp h2 h3
  | .mask p, k, st, rest, _, _, _ => by
    simp only [renderNode, List.length_singleton, List.singleton_append, Node.toLOp, defsOfNode,
      openedOfNode, calledOfNode]
    exact step_mask env k st p rest
  | .call n, k, st, rest, hwf, _, _ => by
    simp only [wfNode] at hwf
    simp only [renderNode, List.length_singleton, List.singleton_append, Node.toLOp, defsOfNode,
      openedOfNode, calledOfNode]
    exact step_call env k st n rest hwf
  | .ext nm, k, st, rest, hwf, _, _ => by
    simp only [wfNode, Bool.and_eq_true, Bool.not_eq_true', decide_eq_true_eq] at hwf
    obtain ⟨⟨⟨h1, h2⟩, h3⟩, h4⟩ := hwf
    have hp : nm ≠ [] := by intro h; subst h; simp at h1
    simp only [renderNode, List.length_singleton, List.singleton_append, Node.toLOp, defsOfNode,
      openedOfNode, calledOfNode]
    exact step_ext env k st nm rest hp h2 h3 h4
  | .defcall n body after, k, st, rest, hwf, hnd, hdis => by
    simp only [wfNode, Bool.and_eq_true] at hwf
    obtain ⟨hn, hb⟩ := hwf
    simp only [openedOfNode, List.nodup_cons] at hnd
    obtain ⟨hnb, hndb⟩ := hnd
    simp only [openedOfNode, List.mem_cons, forall_eq_or_imp] at hdis
    obtain ⟨hno, hbo⟩ := hdis
    cases after with
    | false =>
      have hlen : k + (renderNode (.defcall n body false)).length
          = ((k + 2) + (renderNodes body).length) + 1 := by
        simp [renderNode]; omega
      rw [hlen]
      simp only [renderNode, Bool.false_eq_true, if_false, List.cons_append, List.append_assoc]
      rw [step_open env _ st n _ hn hno]
      rw [run_nodes env body (k + 2) _ _ hb hndb (by
        intro m hm; simp only [List.mem_append, List.mem_singleton, not_or]
        exact ⟨hbo m hm, fun h => hnb (h ▸ hm)⟩)]
      simp only [List.nil_append]
      rw [step_close env (k + 1) _ ⟨n, [] ++ opsOfNodes body⟩ st.opn _ rfl]
      rw [step_call env k _ n rest hn]
      congr 1
      simp only [Node.toLOp, defsOfNode, openedOfNode, calledOfNode, Bool.false_eq_true, if_false]
      obtain ⟨b, o, d, op, ca, t, i, m⟩ := st
      cases o <;> simp [adv]
    | true =>
      have hlen : k + (renderNode (.defcall n body true)).length
          = (((k + 1) + (renderNodes body).length) + 1) + 1 := by
        simp [renderNode]; omega
      rw [hlen]
      simp only [renderNode, if_true, List.cons_append, List.append_assoc]
      rw [step_call env _ st n _ hn]
      rw [step_open env _ _ n _ hn (by rw [adv_opened]; simpa using hno)]
      rw [run_nodes env body (k + 1) _ _ hb hndb (by
        intro m hm; simp only [adv_opened, List.mem_append, List.mem_singleton, not_or]
        exact ⟨⟨hbo m hm, by simp⟩, fun h => hnb (h ▸ hm)⟩)]
      try simp only [List.nil_append]
      rw [step_close env k _ ⟨n, [] ++ opsOfNodes body⟩ (adv st [.call n] [] [] [n]).opn _ rfl]
      congr 1
      simp only [Node.toLOp, defsOfNode, openedOfNode, calledOfNode, if_true]
      obtain ⟨b, o, d, op, ca, t, i, m⟩ := st
      cases o <;> simp [adv]
private theorem run_nodes (env : Env) : (xs : List Node) → (k : Nat) → (st : PState) → (rest : List Str) →
    wfNodes env.pre xs = true → (openedOfNodes xs).Nodup → (∀ m ∈ openedOfNodes xs, m ∉ st.opened) →
    parse env (k + (renderNodes xs).length) st (renderNodes xs ++ rest)
      = parse env k (adv st (opsOfNodes xs) (defsOfNodes xs) (openedOfNodes xs) (calledOfNodes xs)) rest
  | [], k, st, rest, _, _, _ => by
    simp [renderNodes, opsOfNodes, defsOfNodes, openedOfNodes, calledOfNodes, adv_nil]
  | x :: r, k, st, rest, hwf, hnd, hdis => by
    simp only [wfNodes, Bool.and_eq_true] at hwf
    obtain ⟨hx, hr⟩ := hwf
    simp only [openedOfNodes, List.nodup_append] at hnd
    obtain ⟨hndx, hndr, hxr⟩ := hnd
    simp only [openedOfNodes, List.mem_append] at hdis
    have hlen : k + (renderNodes (x :: r)).length
        = (k + (renderNodes r).length) + (renderNode x).length := by
      simp [renderNodes]; omega
    rw [hlen]
    simp only [renderNodes, List.append_assoc]
    rw [run_node env x _ st _ hx hndx (fun m hm => hdis m (Or.inl hm))]
    rw [run_nodes env r k _ rest hr hndr (by
      intro m hm; simp only [adv_opened, List.mem_append, not_or]
      exact ⟨hdis m (Or.inr hm), fun h => hxr m h m hm rfl⟩)]
    rw [adv_adv]
    simp [opsOfNodes, defsOfNodes, openedOfNodes, calledOfNodes]
end

/-! ### opened names are the defined names, called names are `callsOfNodes` -/

mutual
private theorem opened_perm_node : (x : Node) →
    (openedOfNode x).Perm ((defsOfNode x).map (·.1))
  | .rule _ _ => by simp [openedOfNode, defsOfNode]
  | .mask _ => by simp [openedOfNode, defsOfNode]
  | .call _ => by simp [openedOfNode, defsOfNode]
  | .ext _ => by simp [openedOfNode, defsOfNode]
  | .defcall n body _ => by
    simp only [openedOfNode, defsOfNode, List.map_append, List.map_cons, List.map_nil]
    exact (List.Perm.cons n (opened_perm_nodes body)).trans
      (List.perm_append_comm (l₁ := [n]))
private theorem opened_perm_nodes : (xs : List Node) →
    (openedOfNodes xs).Perm ((defsOfNodes xs).map (·.1))
  | [] => by simp [openedOfNodes, defsOfNodes]
  | x :: r => by
    simp only [openedOfNodes, defsOfNodes, List.map_append]
    exact (opened_perm_node x).append (opened_perm_nodes r)
end

mutual
private theorem called_mem_node : (x : Node) → ∀ m, m ∈ calledOfNode x → m ∈ callsOfNode x
  | .rule _ _ => by simp [calledOfNode]
  | .mask _ => by simp [calledOfNode]
  | .call _ => by simp [calledOfNode, callsOfNode]
  | .ext _ => by simp [calledOfNode]
  | .defcall n body after => by
    intro m hm
    have ih := called_mem_nodes body m
    cases after <;> simp [calledOfNode] at hm <;> simp only [callsOfNode, List.mem_cons] <;>
      rcases hm with hm | hm
    · exact Or.inr (ih hm)
    · exact Or.inl hm
    · exact Or.inl hm
    · exact Or.inr (ih hm)
private theorem called_mem_nodes : (xs : List Node) → ∀ m, m ∈ calledOfNodes xs → m ∈ callsOfNodes xs
  | [] => by simp [calledOfNodes]
  | x :: r => by
    intro m hm
    simp only [calledOfNodes, List.mem_append] at hm
    simp only [callsOfNodes, List.mem_append]
    exact hm.imp (called_mem_node x m) (called_mem_nodes r m)
end

/-! ### the optional lines -/

private theorem step_info (env : Env) (k : Nat) (st : PState) (s : Str) (rest : List Str)
    (hs : rstrip s = s) (ho : st.opn = []) (hi : st.info = none) :
    parse env (k + 1) st (('@' :: s) :: rest) = parse env k { st with info := some s } rest := by
  rw [parse]
  rw [skip_false _ _ (by decide) (by decide)]
  simp [hs, ho, hi]

private theorem step_tok (env : Env) (k : Nat) (st : PState) (s : Str) (rest : List Str)
    (hs : rstrip s = s) (ho : st.opn = []) (hi : st.tok = none) :
    parse env (k + 1) st ((':' :: s) :: rest) = parse env k { st with tok := some s } rest := by
  rw [parse]
  rw [skip_false _ _ (by decide) (by decide)]
  simp [hs, ho, hi]

private theorem run_info (env : Env) (k : Nat) (info : Option Str) (rest : List Str)
    (hinfo : ∀ s, info = some s → rstrip s = s) :
    parse env (k + (optLine '@' info).length) ⟨[], [], [], [], [], none, none, []⟩
        (optLine '@' info ++ rest)
      = parse env k ⟨[], [], [], [], [], none, info, []⟩ rest := by
  cases info with
  | none => simp [optLine]
  | some s =>
    simp only [optLine, List.length_singleton, List.singleton_append]
    rw [step_info env k _ s rest (hinfo s rfl) rfl rfl]

private theorem run_tok (env : Env) (k : Nat) (info tok : Option Str) (rest : List Str)
    (htok : ∀ s, tok = some s → rstrip s = s) :
    parse env (k + (optLine ':' tok).length) ⟨[], [], [], [], [], none, info, []⟩
        (optLine ':' tok ++ rest)
      = parse env k ⟨[], [], [], [], [], tok, info, []⟩ rest := by
  cases tok with
  | none => simp [optLine]
  | some s =>
    simp only [optLine, List.length_singleton, List.singleton_append]
    rw [step_tok env k _ s rest (htok s rfl) rfl rfl]

end Verif.C13.Loader.L.RT

namespace Verif.C13.Loader.L
open Verif.C13 Verif.C13.Loader
open Verif.C13.Loader.L.RT

/-- loading the rendered text of an operation tree gives the tree back. -/
theorem load_roundtrip (env : Env) (info tok : Option Str) (nodes : List Node)
    (hwf : wfNodes env.pre nodes = true)
    (hnd : ((defsOfNodes nodes).map (·.1)).Nodup)
    (hcalls : ∀ n ∈ callsOfNodes nodes, n ∈ (defsOfNodes nodes).map (·.1))
    (hinfo : ∀ s, info = some s → rstrip s = s) (htok : ∀ s, tok = some s → rstrip s = s) :
    ∃ k0, ∀ k, k0 ≤ k →
      loadLines env k (renderModule info tok nodes)
        = .ok (⟨opsOfNodes nodes, defsOfNodes nodes, tok, info⟩, []) := by
  refine ⟨(renderModule info tok nodes).length, ?_⟩
  intro k hk
  obtain ⟨k', rfl⟩ : ∃ k', k = k' + (renderModule info tok nodes).length := ⟨k - (renderModule info tok nodes).length, by omega⟩
  have hperm := opened_perm_nodes nodes
  have hndo : (openedOfNodes nodes).Nodup := hperm.nodup_iff.mpr hnd
  have hrun := run_nodes env nodes k' ⟨[], [], [], [], [], tok, info, []⟩ [] hwf hndo (by simp)
  rw [List.append_nil, RT.parse_nil] at hrun
  have hlen : k' + (renderModule info tok nodes).length
      = ((k' + (renderNodes nodes).length) + (optLine ':' tok).length) + (optLine '@' info).length := by
    simp [renderModule]; omega
  have hparse : parse env (k' + (renderModule info tok nodes).length) (PState.init [])
      (renderModule info tok nodes)
      = .ok (adv ⟨[], [], [], [], [], tok, info, []⟩ (opsOfNodes nodes) (defsOfNodes nodes)
          (openedOfNodes nodes) (calledOfNodes nodes)) := by
    rw [hlen]
    simp only [renderModule, List.append_assoc, PState.init]
    rw [run_info env _ info _ hinfo, run_tok env _ info tok _ htok, hrun]
  have hall : ∀ m, m ∈ calledOfNodes nodes → m ∈ openedOfNodes nodes := by
    intro m hm
    exact hperm.mem_iff.mpr (hcalls m (called_mem_nodes nodes m hm))
  simp only [loadLines, hparse]
  simp only [adv, finish, List.nil_append, List.reverse_nil, List.map_nil, List.append_nil,
    List.all_eq_true, List.contains_eq_mem, decide_eq_true_eq]
  rw [if_pos hall]

end Verif.C13.Loader.L
