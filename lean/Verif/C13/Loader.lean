/-
C13 — line-level model of the REPP module loader: `_parse_repp_module`, `_parse_rewrite_rule`,
`_handle_group_call`, `_handle_internal_group`, `_handle_tokenization_pattern`,
`_handle_metainfo_declaration`, `_verify_internal_groups` (delphin/repp.py), as used by
`REPP.from_string` (no directory) and `REPP.from_file` (directory given).  Core Lean only.

Parameters: the directory's files (`files : name → lines`, what `_repp_lines` returns after
`splitlines()`), whether there is a directory, and the names of the modules passed in preloaded
(`modules=`).  Compiling the regular expressions is outside this model (a rule line whose pattern
or template `re` rejects raises `re.error` in the real loader; generated loader cases use valid
ones).  Blanks are ASCII (`str.strip/rstrip` and `str.isdigit` on other characters are not modelled).

The loaded module is kept UNEXPANDED: internal group calls and external calls are by name; the
groups defined in the module (global namespace of the module, issue 308) and the external modules
loaded from files are tables.
-/
import Verif.C13.Model

namespace Verif.C13.Loader
open Verif.C13

inductive LErr where
  | reppError        -- REPPError
  | indexError       -- IndexError: a closing `#` with no open group (`stack.pop()` then `stack[-1]`)
  | attributeError   -- AttributeError: `<file` without a directory (`None.joinpath`)
  | fuel             -- the model's fuel ran out (include / module recursion: real code does not terminate)
deriving Repr, DecidableEq

inductive LOp where
  | rule (pat tpl : Str)
  | mask (pat : Str)
  | call (n : Str)       -- `>n` with a numeric name: internal (iterative) group
  | ext (name : Str)     -- `>name`: external module
deriving Repr, DecidableEq

structure Module where
  ops : List LOp
  groups : List (Str × List LOp)   -- internal groups defined in the module, in the order they were closed
  tok : Option Str
  info : Option Str
deriving Repr, DecidableEq

structure Env where
  files : Str → Option (List Str)
  hasDir : Bool
  pre : List Str                   -- names of preloaded modules (`modules=`), all `_loaded`

/-- `c.isspace()` for ASCII. -/
def isPyWs (c : Char) : Bool :=
  c = ' ' || c = '\t' || c = '\n' || c = '\r' || c = Char.ofNat 11 || c = Char.ofNat 12
  || c = Char.ofNat 28 || c = Char.ofNat 29 || c = Char.ofNat 30 || c = Char.ofNat 31

/-- `s.rstrip()`. -/
def rstrip (s : Str) : Str := (s.reverse.dropWhile isPyWs).reverse

/-- `line.startswith(';') or line.strip() == ''`. -/
def skipLine (line : Str) : Bool := line.head? = some ';' || line.all isPyWs

/-- `operand.isdigit()` (ASCII). -/
def isDigits (s : Str) : Bool := !s.isEmpty && s.all Char.isDigit

/-- `re.match(r'([^\t]+)\t+(.*)', operand)`: pattern up to the first tab, the tabs, the rest of the
line (`.` stops at a line feed). -/
def parseRule (tl : Str) : Option (Str × Str) :=
  let p := tl.takeWhile (· ≠ '\t')
  let r1 := tl.dropWhile (· ≠ '\t')
  if p.isEmpty then none
  else match r1 with
    | [] => none
    | _ :: _ => some (p, (r1.dropWhile (· = '\t')).takeWhile (· ≠ '\n'))

/-- an open `#n` group: its name and the operations appended so far. -/
structure Frame where
  name : Str
  ops : List LOp
deriving Repr, DecidableEq

structure PState where
  base : List LOp                    -- `r.operations`
  opn : List Frame                   -- open groups, innermost first (`stack[1:]` reversed)
  defs : List (Str × List LOp)       -- closed groups
  opened : List Str                  -- groups with `_loaded = True`
  called : List Str                  -- groups referred to by `>n`
  tok : Option Str
  info : Option Str
  mods : List (Str × Module)         -- external modules loaded from files so far
deriving Repr, DecidableEq

def PState.init (mods : List (Str × Module)) : PState := ⟨[], [], [], [], [], none, none, mods⟩

/-- `operations.append(op)` where `operations = stack[-1]`. -/
def PState.push (st : PState) (op : LOp) : PState :=
  match st.opn with
  | [] => { st with base := st.base ++ [op] }
  | f :: r => { st with opn := { f with ops := f.ops ++ [op] } :: r }

/-- end of the lines: groups still open stay defined with what they have; `_verify_internal_groups`. -/
def finish (st : PState) : Except LErr Module :=
  if st.called.all (fun n => st.opened.contains n) then
    .ok ⟨st.base, st.defs ++ st.opn.reverse.map (fun f => (f.name, f.ops)), st.tok, st.info⟩
  else .error .reppError

/-- The `while lines:` loop of `_parse_repp_module`. -/
def parse (env : Env) : Nat → PState → List Str → Except LErr PState
  | _, st, [] => .ok st
  | 0, _, _ :: _ => .error .fuel
  | k + 1, st, line :: rest =>
    if skipLine line then parse env k st rest
    else match line with
      | [] => parse env k st rest
      | c :: tl =>
        let operand := rstrip tl
        if c = '!' then
          match parseRule tl with
          | none => .error .reppError
          | some (p, t) => parse env k (st.push (.rule p t)) rest
        else if c = '<' then
          if !env.hasDir then .error .attributeError
          else match env.files operand with
            | none => .error .reppError
            | some fl => parse env k st (fl ++ rest)
        else if c = '>' then
          if isDigits operand then
            parse env k ({ st with called := st.called ++ [operand] }.push (.call operand)) rest
          else if operand.isEmpty then .error .reppError
          else if env.pre.contains operand || (st.mods.map (·.1)).contains operand then
            parse env k (st.push (.ext operand)) rest
          else if !env.hasDir then .error .reppError
          else match env.files (operand ++ ".rpp".toList) with
            | none => .error .reppError
            | some fl =>
              match parse env k (PState.init st.mods) fl with
              | .error e => .error e
              | .ok st' =>
                match finish st' with
                | .error e => .error e
                | .ok m => parse env k ({ st with mods := st'.mods ++ [(operand, m)] }.push (.ext operand)) rest
        else if c = '=' then parse env k (st.push (.mask tl)) rest
        else if c = '#' then
          if isDigits operand then
            if st.opened.contains operand then .error .reppError
            else parse env k { st with opn := ⟨operand, []⟩ :: st.opn, opened := st.opened ++ [operand] } rest
          else if operand.isEmpty then
            match st.opn with
            | [] => .error .indexError
            | f :: r => parse env k { st with opn := r, defs := st.defs ++ [(f.name, f.ops)] } rest
          else .error .reppError
        else if c = ':' then
          if !st.opn.isEmpty then .error .reppError
          else if st.tok.isSome then .error .reppError
          else parse env k { st with tok := some operand } rest
        else if c = '@' then
          if !st.opn.isEmpty then .error .reppError
          else if st.info.isSome then .error .reppError
          else parse env k { st with info := some operand } rest
        else .error .reppError

/-- `REPP.from_string(text)` / `REPP.from_file(path)` on the lines of the top module: the module and
the external modules loaded from files. -/
def loadLines (env : Env) (k : Nat) (lines : List Str) : Except LErr (Module × List (Str × Module)) :=
  match parse env k (PState.init []) lines with
  | .error e => .error e
  | .ok st =>
    match finish st with
    | .error e => .error e
    | .ok m => .ok (m, st.mods)

/-! ### the renderer of the harness (harness/c13.py `render_nodes`) -/

inductive Node where
  | rule (pat tpl : Str)
  | mask (pat : Str)
  | defcall (n : Str) (body : List Node) (after : Bool)   -- `#n … #` next to its call `>n`
  | call (n : Str)                                         -- a further call `>n`
  | ext (name : Str)
deriving Repr

mutual
def renderNode : Node → List Str
  | .rule p t => [('!' :: p) ++ '\t' :: t]
  | .mask p => ['=' :: p]
  | .call n => ['>' :: n]
  | .ext nm => ['>' :: nm]
  | .defcall n body after =>
    if after then ('>' :: n) :: ('#' :: n) :: (renderNodes body ++ [['#']])
    else ('#' :: n) :: (renderNodes body ++ [['#'], '>' :: n])
def renderNodes : List Node → List Str
  | [] => []
  | x :: r => renderNode x ++ renderNodes r
end

def optLine (c : Char) : Option Str → List Str
  | none => []
  | some s => [c :: s]

/-- the text of a module: optional `@` and `:` lines, then the operations. -/
def renderModule (info tok : Option Str) (nodes : List Node) : List Str :=
  optLine '@' info ++ optLine ':' tok ++ renderNodes nodes

/-- what loading must give back. -/
def Node.toLOp : Node → LOp
  | .rule p t => .rule p t
  | .mask p => .mask p
  | .defcall n _ _ => .call n
  | .call n => .call n
  | .ext nm => .ext nm

mutual
/-- the group table in closing order (inner definitions first). -/
def defsOfNode : Node → List (Str × List LOp)
  | .defcall n body _ => defsOfNodes body ++ [(n, opsOfNodes body)]
  | _ => []
def defsOfNodes : List Node → List (Str × List LOp)
  | [] => []
  | x :: r => defsOfNode x ++ defsOfNodes r
def opsOfNodes : List Node → List LOp
  | [] => []
  | x :: r => x.toLOp :: opsOfNodes r
end

mutual
def callsOfNode : Node → List Str
  | .defcall n body _ => n :: callsOfNodes body
  | .call n => [n]
  | _ => []
def callsOfNodes : List Node → List Str
  | [] => []
  | x :: r => callsOfNode x ++ callsOfNodes r
end

/-- a template the rule-line regex gives back: does not begin with a tab, has no line feed. -/
def tplOk (t : Str) : Bool := t.head? ≠ some '\t' && !t.contains '\n'

mutual
/-- the strings of the tree survive the line syntax. -/
def wfNode (pre : List Str) : Node → Bool
  | .rule p t => !p.isEmpty && !p.contains '\t' && tplOk t
  | .mask _ => true
  | .call n => isDigits n
  | .ext nm => !nm.isEmpty && !isDigits nm && rstrip nm = nm && pre.contains nm
  | .defcall n body _ => isDigits n && wfNodes pre body
def wfNodes (pre : List Str) : List Node → Bool
  | [] => true
  | x :: r => wfNode pre x && wfNodes pre r
end

end Verif.C13.Loader
