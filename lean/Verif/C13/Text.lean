/-
C13 — from TEXT to lines: `str.splitlines()` as used by `REPP.from_string` (`s.splitlines()`) and
`_repp_lines` (`path.read_text(encoding='utf-8').splitlines()`; the universal-newline translation of
`read_text` — `\r\n` and `\r` become `\n` — changes nothing for `splitlines`, which treats all three as
one boundary).  Core Lean only.
-/
import Verif.C13.Loader

namespace Verif.C13.Loader
open Verif.C13

/-- the line boundaries of `str.splitlines()`: LF, CR, VT, FF, FS, GS, RS, NEL, LS, PS
(`\r\n` counts as one boundary, see `splitAux`). -/
def isBreak (c : Char) : Bool :=
  c = '\n' || c = '\r' || c = Char.ofNat 0x0b || c = Char.ofNat 0x0c || c = Char.ofNat 0x1c
  || c = Char.ofNat 0x1d || c = Char.ofNat 0x1e || c = Char.ofNat 0x85 || c = Char.ofNat 0x2028
  || c = Char.ofNat 0x2029

/-- the scan of `splitlines`: `acc` is the (reversed) line being read, `cr` says that the previous
character was a CR (a LF directly after it belongs to the same boundary).  No empty last line. -/
def splitAux : Str → Str → Bool → List Str
  | [], acc, _ => if acc.isEmpty then [] else [acc.reverse]
  | c :: r, acc, cr =>
    if cr && c = '\n' then splitAux r acc false
    else if isBreak c then acc.reverse :: splitAux r [] (c = '\r')
    else splitAux r (c :: acc) false

/-- `text.splitlines()`. -/
def splitLines (t : Str) : List Str := splitAux t [] false

/-- how a line ends in a file. -/
inductive Eol where
  | lf | crlf | cr | other (c : Char)
deriving Repr, DecidableEq

def Eol.chars : Eol → Str
  | .lf => ['\n']
  | .crlf => ['\r', '\n']
  | .cr => ['\r']
  | .other c => [c]

/-- a line terminator that `splitlines` honours, and that does not merge with what follows: after a
bare CR the next line is one more character, so it does not begin … with LF (expressed on the text:
`renderText` puts the next line right after). -/
def Eol.ok : Eol → Bool
  | .other c => isBreak c && c ≠ '\r'
  | _ => true

/-- the text of a file: every line followed by its terminator, then a last line without one. -/
def renderText : List (Str × Eol) → Str → Str
  | [], final => final
  | (l, e) :: r, final => l ++ e.chars ++ renderText r final

def noBreak (l : Str) : Bool := l.all (fun c => !isBreak c)

/-- a bare CR directly before a text that begins with LF would read as CRLF. -/
def crSafe : List (Str × Eol) → Str → Bool
  | [], _ => true
  | (_, e) :: r, final =>
    (if e = .cr then (renderText r final).head? ≠ some '\n' else true) && crSafe r final

/-- `REPP.from_string(text)` / `REPP.from_file(path)` on the TEXT of the top module; the directory's
files are texts too. -/
structure TextEnv where
  texts : Str → Option Str
  hasDir : Bool
  pre : List Str

def TextEnv.toEnv (te : TextEnv) : Env := ⟨fun n => (te.texts n).map splitLines, te.hasDir, te.pre⟩

def loadText (te : TextEnv) (k : Nat) (text : Str) : Except LErr (Module × List (Str × Module)) :=
  loadLines te.toEnv k (splitLines text)

namespace L

theorem splitAux_line (l : Str) (hl : noBreak l = true) (rest acc : Str) (cr : Bool) (hcr : cr = true → l.head? ≠ some '\n') :
    splitAux (l ++ rest) acc cr = splitAux rest (l.reverse ++ acc) (if l.isEmpty then cr else false) := by
  induction l generalizing acc cr with
  | nil => simp
  | cons c r ih =>
    simp only [noBreak, List.all_cons, Bool.and_eq_true, Bool.not_eq_true'] at hl
    have hc : isBreak c = false := hl.1
    have hn : c ≠ '\n' := by
      intro h; subst h; simp [isBreak] at hc
    simp only [List.cons_append, splitAux, hn, decide_false, Bool.and_false, Bool.false_eq_true, if_false, hc]
    rw [ih (by simpa [noBreak] using hl.2) (c :: acc) false (by intro h; cases h)]
    simp

theorem isBreak_lf : isBreak '\n' = true := by decide
theorem isBreak_cr : isBreak '\r' = true := by decide

theorem splitAux_render (ls : List (Str × Eol)) (final : Str)
    (hls : ∀ p ∈ ls, noBreak p.1 = true ∧ p.2.ok = true) (hf : noBreak final = true)
    (hs : crSafe ls final = true) (cr : Bool) (hcr : cr = true → (renderText ls final).head? ≠ some '\n') :
    splitAux (renderText ls final) [] cr = ls.map (·.1) ++ (if final.isEmpty then [] else [final]) := by
  induction ls generalizing cr with
  | nil =>
    simp only [renderText, List.map_nil, List.nil_append]
    have := splitAux_line final hf [] [] cr (by simpa [renderText] using hcr)
    rw [List.append_nil] at this
    rw [this]
    simp only [List.append_nil, splitAux, List.isEmpty_reverse, List.reverse_reverse]
  | cons p r ih =>
    obtain ⟨l, e⟩ := p
    have hp := hls (l, e) List.mem_cons_self
    simp only [renderText, List.map_cons, List.cons_append]
    simp only [crSafe, Bool.and_eq_true] at hs
    -- the scan over the line itself may start in the `cr` state
    rw [List.append_assoc, splitAux_line l hp.1 _ [] cr (by
      intro h
      have := hcr h
      simp only [renderText] at this
      cases l with
      | nil => simp
      | cons a b => simpa using this)]
    by_cases hle : l.isEmpty = true
    · -- empty line: the terminator is read in state `cr`
      have hl0 : l = [] := List.isEmpty_iff.mp hle
      subst hl0
      simp only [List.reverse_nil, List.nil_append, List.isEmpty_nil, if_true]
      have hhead := hcr
      simp only [renderText, List.nil_append] at hhead
      cases e with
      | lf =>
        have : cr = false := by
          cases cr with
          | false => rfl
          | true => exact absurd (show List.head? (Eol.lf.chars ++ renderText r final) = some '\n' from rfl) (hhead rfl)
        subst this
        simp only [Eol.chars, List.cons_append, List.nil_append, splitAux, Bool.false_and, Bool.false_eq_true, if_false,
          isBreak_lf, if_true, List.reverse_nil]
        rw [ih (fun q hq => hls q (List.mem_cons_of_mem _ hq)) hs.2 _ (by simp)]
      | crlf =>
        simp only [Eol.chars, List.cons_append, List.nil_append, splitAux, isBreak_cr, if_true, List.reverse_nil,
          Bool.and_eq_true, decide_eq_true_eq]
        have h1 : ¬ (cr = true ∧ '\r' = '\n') := by intro h; exact absurd h.2 (by decide)
        simp only [h1, if_false]
        rw [ih (fun q hq => hls q (List.mem_cons_of_mem _ hq)) hs.2 _ (by simp)]
        simp
      | cr =>
        have h1 : ¬ (cr = true ∧ '\r' = '\n') := by intro h; exact absurd h.2 (by decide)
        simp only [Eol.chars, List.cons_append, List.nil_append, splitAux, isBreak_cr, if_true, List.reverse_nil,
          Bool.and_eq_true, decide_eq_true_eq, h1, if_false]
        rw [ih (fun q hq => hls q (List.mem_cons_of_mem _ hq)) hs.2 _ (by
          intro _; simpa using hs.1)]
      | other c =>
        have hc := hp.2
        simp only [Eol.ok, Bool.and_eq_true, decide_eq_true_eq] at hc
        have hcn : cr = false ∨ c ≠ '\n' := by
          cases cr with
          | false => exact Or.inl rfl
          | true => exact Or.inr (by
              intro h; exact absurd (by simp [Eol.chars, h]) (hhead rfl))
        have h1 : ¬ (cr = true ∧ c = '\n') := by
          intro h; rcases hcn with h2 | h2
          · rw [h2] at h; cases h.1
          · exact h2 h.2
        simp only [Eol.chars, List.cons_append, List.nil_append, splitAux, Bool.and_eq_true, decide_eq_true_eq, h1,
          if_false, hc.1, if_true, List.reverse_nil]
        rw [ih (fun q hq => hls q (List.mem_cons_of_mem _ hq)) hs.2 _ (by simp [hc.2])]
    · simp only [hle, Bool.false_eq_true, if_false, List.append_nil]
      cases e with
      | lf =>
        simp only [Eol.chars, List.cons_append, List.nil_append, splitAux, Bool.false_and, Bool.false_eq_true, if_false,
          isBreak_lf, if_true, List.reverse_reverse]
        rw [ih (fun q hq => hls q (List.mem_cons_of_mem _ hq)) hs.2 _ (by simp)]
      | crlf =>
        simp only [Eol.chars, List.cons_append, List.nil_append, splitAux, Bool.false_and, Bool.false_eq_true, if_false,
          isBreak_cr, if_true, List.reverse_reverse, Bool.true_and, decide_true]
        rw [ih (fun q hq => hls q (List.mem_cons_of_mem _ hq)) hs.2 _ (by simp)]
      | cr =>
        simp only [Eol.chars, List.cons_append, List.nil_append, splitAux, Bool.false_and, Bool.false_eq_true, if_false,
          isBreak_cr, if_true, List.reverse_reverse, decide_true]
        rw [ih (fun q hq => hls q (List.mem_cons_of_mem _ hq)) hs.2 _ (by intro _; simpa using hs.1)]
      | other c =>
        have hc := hp.2
        simp only [Eol.ok, Bool.and_eq_true, decide_eq_true_eq] at hc
        simp only [Eol.chars, List.cons_append, List.nil_append, splitAux, Bool.false_and, Bool.false_eq_true, if_false,
          hc.1, if_true, List.reverse_reverse]
        rw [ih (fun q hq => hls q (List.mem_cons_of_mem _ hq)) hs.2 _ (by simp [hc.2])]

end L
end Verif.C13.Loader
