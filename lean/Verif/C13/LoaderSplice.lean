/-
C13 — "including files in place" for EVERY include depth: all `<file` lines of a text (inside open
groups, inside included files, inside included files of included files …) replaced by their files'
lines, recursively.  Loading the text = loading the fully spliced text, in any parser state — so the
stack of open groups, the group table and the module table come out the same.
-/
import Verif.C13.LoaderLemmas

namespace Verif.C13.Loader
open Verif.C13

/-- the lines an include line stands for: `<name` with a directory and an existing file. -/
def includeOf (env : Env) (line : Str) : Option (List Str) :=
  match line with
  | '<' :: f => if env.hasDir then env.files (rstrip f) else none
  | _ => none

/-- every include line replaced by its file's lines, those by theirs, … to depth `d`. -/
def spliceAll (env : Env) : Nat → List Str → List Str
  | 0, lines => lines
  | d + 1, lines => lines.flatMap (fun l => match includeOf env l with
      | some fl => spliceAll env d fl
      | none => [l])

/-- no line of the text is an include the loader would follow. -/
def includeFree (env : Env) (lines : List Str) : Bool := lines.all (fun l => (includeOf env l).isNone)

namespace L

theorem includeOf_some (env : Env) (l : Str) (fl : List Str) (h : includeOf env l = some fl) :
    ∃ f, l = '<' :: f ∧ env.hasDir = true ∧ env.files (rstrip f) = some fl := by
  unfold includeOf at h
  split at h
  · rename_i f
    by_cases hd : env.hasDir = true
    · simp only [hd, if_true] at h
      exact ⟨f, rfl, hd, h⟩
    · simp only [hd] at h
      cases h
  · cases h

theorem spliceAll_cons (env : Env) (d : Nat) (l : Str) (rest : List Str) :
    spliceAll env (d + 1) (l :: rest) =
      (match includeOf env l with | some fl => spliceAll env d fl | none => [l]) ++ spliceAll env (d + 1) rest := by
  simp only [spliceAll, List.flatMap_cons]

theorem spliceAll_parse (env : Env) (d : Nat) :
    ∀ (lines pre post : List Str) (st : PState) (r : Except LErr PState), r ≠ .error .fuel →
      ((∃ k, parse env k st (pre ++ lines ++ post) = r) ↔
       (∃ k, parse env k st (pre ++ spliceAll env d lines ++ post) = r)) := by
  induction d with
  | zero => intro lines pre post st r _; exact Iff.rfl
  | succ d ih =>
    intro lines
    induction lines with
    | nil => intro pre post st r _; simp [spliceAll]
    | cons l rest ihl =>
      intro pre post st r hr
      rw [spliceAll_cons]
      cases hi : includeOf env l with
      | none =>
        simp only
        have := ihl (pre ++ [l]) post st r hr
        simpa [List.append_assoc] using this
      | some fl =>
        simp only
        obtain ⟨f, rfl, hd, hf⟩ := includeOf_some env l fl hi
        have h1 := parse_include env f fl hd hf st pre (rest ++ post) r hr
        have h2 := ih fl pre (rest ++ post) st r hr
        have h3 := ihl (pre ++ spliceAll env d fl) post st r hr
        simp only [List.append_assoc, List.cons_append] at h1 h2 h3 ⊢
        exact h1.trans (h2.trans h3)

theorem spliceAll_load (env : Env) (d : Nat) (lines : List Str)
    (r : Except LErr (Module × List (Str × Module))) (hr : r ≠ .error .fuel) :
    (∃ k, loadLines env k lines = r) ↔ (∃ k, loadLines env k (spliceAll env d lines) = r) := by
  have key : ∀ (L1 L2 : List Str),
      (∀ rp, rp ≠ .error .fuel → (∃ k, parse env k (PState.init []) L1 = rp) →
        ∃ k, parse env k (PState.init []) L2 = rp) →
      (∃ k, loadLines env k L1 = r) → ∃ k, loadLines env k L2 = r := by
    rintro L1 L2 hp ⟨k, h⟩
    unfold loadLines at h
    have hne : parse env k (PState.init []) L1 ≠ .error .fuel := by
      intro hc; rw [hc] at h; exact hr h.symm
    obtain ⟨k2, h2⟩ := hp _ hne ⟨k, rfl⟩
    refine ⟨k2, ?_⟩
    unfold loadLines
    rw [h2]; exact h
  have base := fun rp hrp => spliceAll_parse env d lines [] [] (PState.init []) rp hrp
  simp only [List.nil_append, List.append_nil] at base
  constructor
  · exact key _ _ (fun rp hrp => (base rp hrp).1)
  · exact key _ _ (fun rp hrp => (base rp hrp).2)

/-- a text without followable include lines is a fixpoint of the splicing. -/
theorem spliceAll_includeFree (env : Env) (d : Nat) (lines : List Str) (h : includeFree env lines = true) :
    spliceAll env d lines = lines := by
  cases d with
  | zero => rfl
  | succ d =>
    induction lines with
    | nil => rfl
    | cons l rest ih =>
      simp only [includeFree, List.all_cons, Bool.and_eq_true, Option.isNone_iff_eq_none] at h
      rw [spliceAll_cons, h.1]
      simp only [List.cons_append, List.nil_append]
      rw [ih (by simpa [includeFree] using h.2)]

end L
end Verif.C13.Loader
