/-
C13 — lemmas about the mask model (Verif/C13/Mask.lean).
-/
import Verif.C13.Mask
import Verif.C13.Lemmas

namespace Verif.C13.L
open Verif.C13

/-- every entry is O. -/
def AllZero (mk : MaskA) : Prop := ∀ x ∈ mk, x = 0

private theorem az_nil : AllZero [] := by
  intro x hx; cases hx

private theorem az_anyM {mk : MaskA} (h : AllZero mk) : anyM mk = false := by
  unfold anyM
  rw [List.any_eq_false]
  intro x hx
  rw [h x hx]
  decide

private theorem az_mslice {mk : MaskA} (h : AllZero mk) (a b : Nat) : AllZero (mslice mk a b) := by
  intro x hx
  exact h x (List.mem_of_mem_drop (List.mem_of_mem_take hx))

private theorem az_replicate (n : Nat) : AllZero (List.replicate n 0) := by
  intro x hx
  exact (List.mem_replicate.mp hx).2

private theorem az_append {a b : MaskA} (ha : AllZero a) (hb : AllZero b) : AllZero (a ++ b) := by
  intro x hx
  rcases List.mem_append.mp hx with h | h
  · exact ha x h
  · exact hb x h

private theorem az_cons {a : MaskA} (ha : AllZero a) : AllZero (0 :: a) := by
  intro x hx
  rcases List.mem_cons.mp hx with h | h
  · exact h
  · exact ha x h

private theorem trackedMask_az (s : Str) (m : M) (mk : MaskA) (h : AllZero mk) (segs : List Seg) (pos : Nat) :
    ∃ r, trackedMask s m mk segs pos = some r ∧ AllZero r.1 := by
  induction segs generalizing pos with
  | nil => exact ⟨([], pos), by simp only [trackedMask], az_nil⟩
  | cons sg rest ih =>
    cases sg with
    | lit l =>
      obtain ⟨r, hr, hz⟩ := ih (nextStart m pos rest)
      refine ⟨(List.replicate l.length 0 ++ r.1, r.2), ?_, az_append (az_replicate _) hz⟩
      simp only [trackedMask, az_anyM (az_mslice h _ _), hr, Option.map_some]
      rfl
    | grp g =>
      simp only [trackedMask]
      cases hsp : m.span g with
      | none => exact ih pos
      | some p =>
        obtain ⟨gs, ge⟩ := p
        simp only
        split
        · obtain ⟨r, hr, hz⟩ := ih pos
          exact ⟨_, by rw [hr]; rfl, az_append (az_replicate _) hz⟩
        · obtain ⟨r, hr, hz⟩ := ih ge
          exact ⟨_, by rw [hr]; rfl, az_append (az_mslice h _ _) hz⟩

private theorem untracked_az (m : M) (mk : MaskA) (h : AllZero mk) (un : List Seg) :
    untrackedGroupMasked m mk un = false := by
  unfold untrackedGroupMasked
  rw [List.any_eq_false]
  intro seg _
  cases seg with
  | lit l => simp only [Bool.false_eq_true, not_false_eq_true]
  | grp g =>
    cases hsp : m.span g with
    | none => simp only [hsp, Bool.and_false, Bool.false_eq_true, not_false_eq_true]
    | some p =>
      obtain ⟨a, b⟩ := p
      simp only [hsp, az_anyM (az_mslice h _ _), Bool.and_false, Bool.false_eq_true, not_false_eq_true]

private theorem checkMask_az (s : Str) (m : M) (sub : Str) (nw mk : MaskA) (h : AllZero mk) :
    checkMask s m sub nw mk = false := by
  unfold checkMask
  simp only [az_anyM (az_mslice h _ _), Bool.not_false, if_true]

/-- under an all-zero mask nothing is blocked and the emitted mask entries are zero. -/
theorem blockedM_allZero (s : Str) (m : M) (mk : MaskA) (tr un : List Seg) (h : AllZero mk) :
    (blockedM s m mk tr un).1 = false ∧ AllZero (blockedM s m mk tr un).2 := by
  unfold blockedM
  simp only [checkMask_az _ _ _ _ _ h]
  split
  · exact ⟨rfl, az_nil⟩
  · obtain ⟨r, hr, hz⟩ := trackedMask_az s m mk h tr m.s
    obtain ⟨rm, rp⟩ := r
    rw [hr]
    simp only [az_anyM (az_mslice h _ _), untracked_az m mk h un, Bool.or_false, Bool.false_eq_true, if_false]
    split
    · exact ⟨rfl, hz⟩
    · exact ⟨rfl, az_append hz (az_replicate _)⟩

private theorem liveMatches_cons_blocked (s : Str) (m : M) (ms : List M) (mk : MaskA) (tr un : List Seg)
    (hb : (blockedM s m mk tr un).1 = true) :
    liveMatches s (m :: ms) mk tr un = liveMatches s ms mk tr un := by
  unfold liveMatches
  rw [List.filter_cons]
  simp only [hb, Bool.not_true, Bool.false_eq_true, if_false]

private theorem liveMatches_cons_live (s : Str) (m : M) (ms : List M) (mk : MaskA) (tr un : List Seg)
    (hb : (blockedM s m mk tr un).1 = false) :
    liveMatches s (m :: ms) mk tr un = m :: liveMatches s ms mk tr un := by
  unfold liveMatches
  rw [List.filter_cons]
  simp only [hb, Bool.not_false, if_true]

private theorem ruleLoopM_filter_aux (s : Str) (mk : MaskA) (tr un : List Seg) (ms : List M) (pos : Nat)
    (shift : Int) :
    (ruleLoopM s mk tr un ms pos shift).part
        = (ruleLoop s tr un (liveMatches s ms mk tr un) pos shift).1 ∧
    (ruleLoopM s mk tr un ms pos shift).shift
        = (ruleLoop s tr un (liveMatches s ms mk tr un) pos shift).2 ∧
    (ruleLoopM s mk tr un ms pos shift).mask = maskLoop s mk tr un (liveMatches s ms mk tr un) pos ∧
    (ruleLoopM s mk tr un ms pos shift).applied = !(liveMatches s ms mk tr un).isEmpty := by
  induction ms generalizing pos shift with
  | nil => exact ⟨rfl, rfl, rfl, rfl⟩
  | cons m ms ih =>
    cases hb : (blockedM s m mk tr un).1 with
    | true =>
      simp only [ruleLoopM, hb, if_true, liveMatches_cons_blocked s m ms mk tr un hb]
      exact ih pos shift
    | false =>
      obtain ⟨i1, i2, i3, i4⟩ := ih m.e (shift + (processMatch s m shift tr un).2)
      simp only [ruleLoopM, hb, Bool.false_eq_true, if_false, liveMatches_cons_live s m ms mk tr un hb,
        ruleLoop, maskLoop, List.isEmpty_cons, Bool.not_false, i1, i2, i3, and_self]

/-- the line-by-line loop (every match tested, a blocked one skipped) is the mask-free loop over the
matches that are not blocked, with the mask entries of `maskLoop`. -/
theorem ruleLoopM_eq_filter (s : Str) (mk : MaskA) (tr un : List Seg) (ms : List M) (pos : Nat) (shift : Int) :
    let r := ruleLoopM s mk tr un ms pos shift
    let live := liveMatches s ms mk tr un
    r.part = (ruleLoop s tr un live pos shift).1 ∧ r.shift = (ruleLoop s tr un live pos shift).2 ∧
    r.mask = maskLoop s mk tr un live pos ∧ r.applied = !live.isEmpty :=
  ruleLoopM_filter_aux s mk tr un ms pos shift

/-- `_REPPRule._apply` as the code runs it = its filter form. -/
theorem applyRuleM_eq_filter (s : Str) (ms : List M) (mk : MaskA) (tr un : List Seg) :
    applyRuleM s ms mk tr un = applyRuleF s ms mk tr un := by
  unfold applyRuleM applyRuleF
  split
  · rfl
  · obtain ⟨i1, i2, i3, i4⟩ := ruleLoopM_filter_aux s mk tr un ms 0 0
    simp only [i1, i2, i3, i4]

private theorem applyRuleF_string (s : Str) (ms : List M) (mk : MaskA) (tr un : List Seg) :
    (applyRuleF s ms mk tr un).res.out = subst s (tr ++ un) (liveMatches s ms mk tr un) 0 := by
  unfold applyRuleF
  split
  · rename_i h
    simp only [List.isEmpty_iff] at h
    subst h
    simp only [liveMatches, List.filter_nil, subst, List.drop_zero]
  · simp only [ruleLoop_out]

private theorem liveMatches_all (s : Str) (ms : List M) (mk : MaskA) (tr un : List Seg)
    (h : ∀ m ∈ ms, (blockedM s m mk tr un).1 = false) : liveMatches s ms mk tr un = ms := by
  unfold liveMatches
  rw [List.filter_eq_self]
  intro m hm
  rw [h m hm]
  rfl

private theorem applyRuleF_not_blocked (s : Str) (ms : List M) (mk : MaskA) (tr un : List Seg)
    (h : ∀ m ∈ ms, (blockedM s m mk tr un).1 = false) :
    (applyRuleF s ms mk tr un).res = applyRule s ms tr un := by
  unfold applyRuleF applyRule
  split
  · rfl
  · rename_i hne
    simp only [liveMatches_all s ms mk tr un h, hne, Bool.not_false]

private theorem applyRuleF_live (s : Str) (ms : List M) (mk : MaskA) (tr un : List Seg)
    (h : liveMatches s ms mk tr un ≠ []) :
    (applyRuleF s ms mk tr un).res = applyRule s (liveMatches s ms mk tr un) tr un := by
  have hl : (liveMatches s ms mk tr un).isEmpty = false := by
    cases hq : liveMatches s ms mk tr un with
    | nil => exact absurd hq h
    | cons a b => rfl
  have hms : ms.isEmpty = false := by
    cases ms with
    | nil => exact absurd rfl h
    | cons a b => rfl
  unfold applyRuleF applyRule
  simp only [hl, hms, Bool.false_eq_true, if_false, Bool.not_false]

private theorem rep_sm (n : Nat) : (0 : Int) :: List.replicate n 0 ++ [0] = List.replicate (n + 2) 0 := by
  rw [List.replicate_succ, List.replicate_succ']
  rfl

private theorem rep_em (n : Nat) :
    (0 : Int) :: List.replicate n 0 ++ [0 - 1] = List.replicate (n + 1) 0 ++ [-1] := by
  rw [List.replicate_succ]
  rfl

private theorem applyRuleF_all_blocked (s : Str) (ms : List M) (mk : MaskA) (tr un : List Seg) (hne : ms ≠ [])
    (h : ∀ m ∈ ms, (blockedM s m mk tr un).1 = true) :
    (applyRuleF s ms mk tr un).res.out = s ∧ (applyRuleF s ms mk tr un).res.applied = false ∧
    (applyRuleF s ms mk tr un).res.sm = zeromap s ∧
    (applyRuleF s ms mk tr un).res.em = List.replicate (s.length + 1) 0 ++ [-1] := by
  have hl : liveMatches s ms mk tr un = [] := by
    unfold liveMatches
    rw [List.filter_eq_nil_iff]
    intro m hm
    rw [h m hm]
    decide
  have hms : ms.isEmpty = false := by
    cases ms with
    | nil => exact absurd rfl hne
    | cons a b => rfl
  unfold applyRuleF
  simp only [hms, Bool.false_eq_true, if_false, hl, ruleLoop, List.isEmpty_nil, Bool.not_true, List.drop_zero]
  by_cases hs : 0 < s.length
  · simp only [hs, if_true, copyPart, zeromap, rep_sm, rep_em, and_self]
  · have : s = [] := List.eq_nil_of_length_eq_zero (by omega)
    subst this
    simp only [List.length_nil, Nat.lt_irrefl, if_false, Part.empty, zeromap]
    exact ⟨trivial, trivial, rfl, rfl⟩

/-- the string under a mask: substitution of the matches that are not blocked. -/
theorem applyRuleM_string (s : Str) (ms : List M) (mk : MaskA) (tr un : List Seg) :
    (applyRuleM s ms mk tr un).res.out = subst s (tr ++ un) (liveMatches s ms mk tr un) 0 := by
  rw [applyRuleM_eq_filter]
  exact applyRuleF_string s ms mk tr un

/-- no match blocked: exactly the mask-free rule application. -/
theorem applyRuleM_not_blocked (s : Str) (ms : List M) (mk : MaskA) (tr un : List Seg)
    (h : ∀ m ∈ ms, (blockedM s m mk tr un).1 = false) :
    (applyRuleM s ms mk tr un).res = applyRule s ms tr un := by
  rw [applyRuleM_eq_filter]
  exact applyRuleF_not_blocked s ms mk tr un h

/-- some match not blocked: the mask-free rule application on the matches that are not blocked. -/
theorem applyRuleM_live (s : Str) (ms : List M) (mk : MaskA) (tr un : List Seg)
    (h : liveMatches s ms mk tr un ≠ []) :
    (applyRuleM s ms mk tr un).res = applyRule s (liveMatches s ms mk tr un) tr un := by
  rw [applyRuleM_eq_filter]
  exact applyRuleF_live s ms mk tr un h

/-- every match blocked: string unchanged, not applied, zero maps (the end sentinel holds -1). -/
theorem applyRuleM_all_blocked (s : Str) (ms : List M) (mk : MaskA) (tr un : List Seg) (hne : ms ≠ [])
    (h : ∀ m ∈ ms, (blockedM s m mk tr un).1 = true) :
    (applyRuleM s ms mk tr un).res.out = s ∧ (applyRuleM s ms mk tr un).res.applied = false ∧
    (applyRuleM s ms mk tr un).res.sm = zeromap s ∧
    (applyRuleM s ms mk tr un).res.em = List.replicate (s.length + 1) 0 ++ [-1] := by
  rw [applyRuleM_eq_filter]
  exact applyRuleF_all_blocked s ms mk tr un hne h

private theorem validFrom_weaken (n : Nat) (pos pos' : Nat) (ms : List M) (h : ValidFrom n pos ms)
    (hp : pos' ≤ pos) : ValidFrom n pos' ms := by
  cases ms with
  | nil => trivial
  | cons m ms =>
    obtain ⟨h1, h2, h3⟩ := h
    exact ⟨Nat.le_trans hp h1, h2, h3⟩

private theorem filter_validFrom (n : Nat) (p : M → Bool) (ms : List M) (pos : Nat) (h : ValidFrom n pos ms) :
    ValidFrom n pos (ms.filter p) := by
  induction ms generalizing pos with
  | nil => trivial
  | cons m ms ih =>
    obtain ⟨h1, h2, h3⟩ := h
    rw [List.filter_cons]
    split
    · exact ⟨h1, h2, ih m.e h3⟩
    · exact validFrom_weaken n m.e pos _ (ih m.e h3) (Nat.le_trans h1 h2.1)

/-- dropping matches keeps a match list valid. -/
theorem liveMatches_valid (s : Str) (ms : List M) (mk : MaskA) (tr un : List Seg) (hv : ValidMatches s ms) :
    ValidMatches s (liveMatches s ms mk tr un) :=
  filter_validFrom _ _ ms 0 hv

private theorem maskLoop_az (s : Str) (mk : MaskA) (h : AllZero mk) (tr un : List Seg) (ms : List M) (pos : Nat) :
    AllZero (maskLoop s mk tr un ms pos) := by
  induction ms generalizing pos with
  | nil => exact az_mslice h _ _
  | cons m ms ih =>
    simp only [maskLoop]
    exact az_append (az_append (az_mslice h _ _) (blockedM_allZero s m mk tr un h).2) (ih m.e)

private theorem applyRuleM_mask_az (s : Str) (ms : List M) (mk : MaskA) (tr un : List Seg) (h : AllZero mk) :
    AllZero (applyRuleM s ms mk tr un).mask := by
  rw [applyRuleM_eq_filter]
  unfold applyRuleF
  split
  · exact h
  · exact az_cons (az_append (maskLoop_az s mk h tr un _ 0) (az_cons az_nil))

private theorem ruleStepM_step (eng : Eng) (id : Nat) (tr un : List Seg) (s : Str) (mk : MaskA) (h : AllZero mk) :
    (ruleStepM eng id tr un s mk).step = ruleStep eng id tr un s := by
  unfold ruleStepM ruleStep
  simp only [applyRuleM_not_blocked s (eng id s) mk tr un (fun m _ => (blockedM_allZero s m mk tr un h).1)]

private theorem lastMask_az (st : List StepM) (mk : MaskA) (h : AllZero mk) (hs : ∀ x ∈ st, AllZero x.mask) :
    AllZero (lastMask st mk) := by
  induction st with
  | nil => exact h
  | cons x r ih =>
    cases r with
    | nil => exact hs x (List.mem_cons_self)
    | cons y r =>
      simp only [lastMask]
      exact ih (fun z hz => hs z (List.mem_cons_of_mem _ hz))

private theorem any_applied (st : List StepM) :
    (st.map (·.step)).any (·.applied) = st.any (·.step.applied) := by
  rw [List.any_map]
  rfl

private theorem mf_joint (eng meng : Eng) (f : Nat) :
    (∀ op s mk, AllZero mk → op.maskFree = true →
      (applyOpM eng meng f op s mk).map (fun st => st.map (·.step)) = applyOp eng f op s ∧
      ∀ st, applyOpM eng meng f op s mk = some st → ∀ x ∈ st, AllZero x.mask) ∧
    (∀ ops s mk, AllZero mk → opsMaskFree ops = true →
      (applyOpsM eng meng f ops s mk).map (fun p => (p.1.map (·.step), p.2.1)) = applyOps eng f ops s ∧
      ∀ st o mk2, applyOpsM eng meng f ops s mk = some (st, o, mk2) →
        (∀ x ∈ st, AllZero x.mask) ∧ AllZero mk2) ∧
    (∀ ops s mk, AllZero mk → opsMaskFree ops = true →
      (groupApplyM eng meng f ops s mk).map (fun st => st.map (·.step)) = groupApply eng f ops s ∧
      ∀ st, groupApplyM eng meng f ops s mk = some st → ∀ x ∈ st, AllZero x.mask) ∧
    (∀ ops s mk, AllZero mk → opsMaskFree ops = true →
      (iterApplyM eng meng f ops s mk).map (fun st => st.map (·.step)) = iterApply eng f ops s ∧
      ∀ st, iterApplyM eng meng f ops s mk = some st → ∀ x ∈ st, AllZero x.mask) := by
  induction f with
  | zero =>
    refine ⟨?_, ?_, ?_, ?_⟩
    · intro op s mk _ _
      refine ⟨by simp only [applyOpM, applyOp, Option.map_none], ?_⟩
      intro st h; simp only [applyOpM] at h; cases h
    · intro ops s mk _ _
      refine ⟨by simp only [applyOpsM, applyOps, Option.map_none], ?_⟩
      intro st o mk2 h; simp only [applyOpsM] at h; cases h
    · intro ops s mk _ _
      refine ⟨by simp only [groupApplyM, groupApply, Option.map_none], ?_⟩
      intro st h; simp only [groupApplyM] at h; cases h
    · intro ops s mk _ _
      refine ⟨by simp only [iterApplyM, iterApply, Option.map_none], ?_⟩
      intro st h; simp only [iterApplyM] at h; cases h
  | succ f ih =>
    obtain ⟨h1, h2, h3, h4⟩ := ih
    refine ⟨?_, ?_, ?_, ?_⟩
    · intro op s mk hz hf
      cases op with
      | rule id tr un =>
        refine ⟨by simp only [applyOpM, applyOp, Option.map_some, List.map_cons, List.map_nil,
          ruleStepM_step eng id tr un s mk hz], ?_⟩
        intro st h
        simp only [applyOpM, Option.some.injEq] at h
        subst h
        intro x hx
        simp only [List.mem_singleton] at hx
        subst hx
        exact applyRuleM_mask_az s _ mk tr un hz
      | mask id => simp only [Op.maskFree, Bool.false_eq_true] at hf
      | iter ops =>
        simp only [Op.maskFree] at hf
        simp only [applyOpM, applyOp]
        exact h4 ops s mk hz hf
      | ext a ops =>
        simp only [Op.maskFree] at hf
        simp only [applyOpM, applyOp]
        split
        · exact h3 ops s mk hz hf
        · refine ⟨by simp only [Option.map_some, List.map_nil], ?_⟩
          intro st h
          simp only [Option.some.injEq] at h
          subst h
          intro x hx; cases hx
    · intro ops s mk hz hf
      cases ops with
      | nil =>
        refine ⟨by simp only [applyOpsM, applyOps, Option.map_some, List.map_nil], ?_⟩
        intro st o mk2 h
        simp only [applyOpsM, Option.some.injEq, Prod.mk.injEq] at h
        obtain ⟨e1, e2, e3⟩ := h
        subst e1 e2 e3
        exact ⟨fun x hx => (by cases hx), hz⟩
      | cons op r =>
        simp only [opsMaskFree, Bool.and_eq_true] at hf
        obtain ⟨hf1, hf2⟩ := hf
        obtain ⟨a1, a2⟩ := h1 op s mk hz hf1
        simp only [applyOpsM, applyOps]
        rw [← a1]
        cases hop : applyOpM eng meng f op s mk with
        | none =>
          refine ⟨by simp only [Option.map_none], ?_⟩
          intro st o mk2 h; cases h
        | some st1 =>
          have z1 := a2 st1 hop
          have zl := lastMask_az st1 mk hz z1
          obtain ⟨b1, b2⟩ := h2 r (lastOut (st1.map (·.step)) s) (lastMask st1 mk) zl hf2
          simp only [Option.map_some]
          rw [← b1]
          cases hops : applyOpsM eng meng f r (lastOut (st1.map (·.step)) s) (lastMask st1 mk) with
          | none =>
            refine ⟨by simp only [Option.map_none], ?_⟩
            intro st o mk2 h; cases h
          | some p =>
            obtain ⟨st2, o2, m2⟩ := p
            obtain ⟨c1, c2⟩ := b2 st2 o2 m2 hops
            refine ⟨by simp only [Option.map_some, List.map_append], ?_⟩
            intro st o mk2 h
            simp only [Option.some.injEq, Prod.mk.injEq] at h
            obtain ⟨e1, e2, e3⟩ := h
            subst e1 e2 e3
            refine ⟨?_, c2⟩
            intro x hx
            rcases List.mem_append.mp hx with hx | hx
            · exact z1 x hx
            · exact c1 x hx
    · intro ops s mk hz hf
      obtain ⟨b1, b2⟩ := h2 ops s mk hz hf
      simp only [groupApplyM, groupApply]
      rw [← b1]
      cases hops : applyOpsM eng meng f ops s mk with
      | none =>
        refine ⟨by simp only [Option.map_none], ?_⟩
        intro st h; cases h
      | some p =>
        obtain ⟨st2, o2, m2⟩ := p
        obtain ⟨c1, c2⟩ := b2 st2 o2 m2 hops
        refine ⟨by simp only [Option.map_some, List.map_append, List.map_cons, List.map_nil, any_applied], ?_⟩
        intro st h
        simp only [Option.some.injEq] at h
        subst h
        intro x hx
        rcases List.mem_append.mp hx with hx | hx
        · exact c1 x hx
        · simp only [List.mem_singleton] at hx
          subst hx
          exact c2
    · intro ops s mk hz hf
      obtain ⟨g1, g2⟩ := h3 ops s mk hz hf
      simp only [iterApplyM, iterApply]
      rw [← g1]
      cases hg : groupApplyM eng meng f ops s mk with
      | none =>
        refine ⟨by simp only [Option.map_none], ?_⟩
        intro st h; cases h
      | some st1 =>
        have z1 := g2 st1 hg
        have zl := lastMask_az st1 mk hz z1
        simp only [Option.map_some]
        by_cases ho : lastOut (st1.map (·.step)) s = s
        · simp only [ho, if_true, Option.map_some]
          refine ⟨trivial, ?_⟩
          intro st h
          simp only [Option.some.injEq] at h
          subst h
          exact z1
        · obtain ⟨i1, i2⟩ := h4 ops (lastOut (st1.map (·.step)) s) (lastMask st1 mk) zl hf
          simp only [ho, if_false]
          rw [← i1]
          cases hi : iterApplyM eng meng f ops (lastOut (st1.map (·.step)) s) (lastMask st1 mk) with
          | none =>
            refine ⟨by simp only [Option.map_none], ?_⟩
            intro st h; cases h
          | some st2 =>
            refine ⟨by simp only [Option.map_some, List.map_append], ?_⟩
            intro st h
            simp only [Option.some.injEq] at h
            subst h
            intro x hx
            rcases List.mem_append.mp hx with hx | hx
            · exact z1 x hx
            · exact i2 st2 hi x hx

/-- a program without mask rules run with the mask-threading semantics from an all-zero mask is the
mask-free semantics, and the mask stays all-zero. -/
theorem applyOpM_maskFree (eng meng : Eng) (f : Nat) (op : Op) (s : Str) (mk : MaskA) (hz : AllZero mk)
    (hf : op.maskFree = true) :
    (applyOpM eng meng f op s mk).map (fun st => st.map (·.step)) = applyOp eng f op s
    ∧ ∀ st, applyOpM eng meng f op s mk = some st → ∀ x ∈ st, AllZero x.mask :=
  (mf_joint eng meng f).1 op s mk hz hf

theorem traceStepsM_maskFree (eng meng : Eng) (f : Nat) (ops : List Op) (s : Str) (hf : opsMaskFree ops = true) :
    (traceStepsM eng meng f ops s).map (fun p => (p.1.map (·.step), p.2)) = traceSteps eng f ops s := by
  obtain ⟨g1, _⟩ := (mf_joint eng meng f).2.2.1 ops s (zeroMask s) (az_replicate _) hf
  unfold traceStepsM traceSteps
  rw [← g1]
  cases hg : groupApplyM eng meng f ops s (zeroMask s) with
  | none => rfl
  | some st => rfl

end Verif.C13.L
