/-
C13 — what the model assumes about the regex engine's match list (`list(pattern.finditer(s))`,
CPython ≥ 3.7 semantics), as an executable check the driver evaluates on every list the harness
sends, and what follows from it.

Documented semantics (`re.sub`): "Empty matches for the pattern are replaced when adjacent to a
previous non-empty match", e.g. `re.sub('a*', '-', 'baac') == '-b--c-'`: the matches are
(0,0) (1,3) (3,3) (4,4) — the empty match (3,3) starts where the non-empty (1,3) ended.  Two EMPTY
matches never stand at the same position; a non-empty match may start where an empty one stood.
-/
import Verif.C13.Lemmas

namespace Verif.C13

def groupInsideB (m : M) : Option (Nat × Nat) → Bool
  | none => true
  | some (a, b) => decide (m.s ≤ a) && decide (a ≤ b) && decide (b ≤ m.e)

def M.validB (n : Nat) (m : M) : Bool := decide (m.s ≤ m.e) && decide (m.e ≤ n) && m.groups.all (groupInsideB m)

/-- the finditer list from position `pos` on; `pe`: the previous match was empty and stood at `pos`. -/
def findIterOk (n : Nat) : Nat → Bool → List M → Bool
  | _, _, [] => true
  | pos, pe, m :: ms =>
    decide (pos ≤ m.s) && m.validB n && !(pe && m.s == pos && m.e == pos) && findIterOk n m.e (m.s == m.e) ms

/-- characters consumed by the matches. -/
def matchedLen (ms : List M) : Nat := (ms.map (fun m => m.e - m.s)).sum

/-- empty matches that start exactly where the previous (non-empty) match ended. -/
def adjacentEmpty : Nat → List M → Nat
  | _, [] => 0
  | prevEnd, m :: ms => (if m.s = m.e ∧ m.s = prevEnd ∧ 0 < prevEnd then 1 else 0) + adjacentEmpty m.e ms

namespace L

theorem groupInsideB_iff (m : M) (g : Option (Nat × Nat)) : groupInsideB m g = true ↔ groupInside m g := by
  cases g with
  | none => simp [groupInsideB, groupInside]
  | some p => obtain ⟨a, b⟩ := p; simp [groupInsideB, groupInside, and_assoc]

theorem validB_valid (n : Nat) (m : M) (h : m.validB n = true) : m.Valid n := by
  simp only [M.validB, Bool.and_eq_true, decide_eq_true_eq, List.all_eq_true] at h
  exact ⟨h.1.1, h.1.2, fun g hg => (groupInsideB_iff m g).mp (h.2 g hg)⟩

/-- the executable check implies the hypothesis the theorems use. -/
theorem findIterOk_valid (n : Nat) (ms : List M) : ∀ pos pe, findIterOk n pos pe ms = true → ValidFrom n pos ms := by
  induction ms with
  | nil => intro _ _ _; trivial
  | cons m ms ih =>
    intro pos pe h
    simp only [findIterOk, Bool.and_eq_true, decide_eq_true_eq] at h
    exact ⟨h.1.1.1, validB_valid n m h.1.1.2, ih _ _ h.2⟩

theorem slice_length (s : Str) (a b : Nat) (hab : a ≤ b) (hb : b ≤ s.length) : (slice s a b).length = b - a := by
  simp only [slice, List.length_take, List.length_drop]
  omega

/-- no match of the list is skipped: with a literal template every match contributes the literal once,
whatever its width — also an empty match directly after a non-empty one. -/
theorem subst_lit_length (s l : Str) (ms : List M) : ∀ pos, ValidFrom s.length pos ms → pos ≤ s.length →
    (subst s [.lit l] ms pos).length + matchedLen ms = (s.length - pos) + ms.length * l.length := by
  induction ms with
  | nil => intro pos _ _; simp [subst, matchedLen]
  | cons m ms ih =>
    intro pos h hp
    obtain ⟨h1, hv, h3⟩ := h
    obtain ⟨hse, hen, _⟩ := hv
    have := ih m.e h3 hen
    simp only [subst, expand, List.append_nil, List.length_append, slice_length s pos m.s h1 (by omega),
      matchedLen, List.map_cons, List.sum_cons, List.length_cons, Nat.succ_mul] at this ⊢
    omega

end L
end Verif.C13
