/-
C13 — module registries and two REPP objects.

`REPP.__init__(modules=D, active=A)` keeps its OWN copy `dict(D)` of the registry, but the module
objects in it are shared with the caller and with every other REPP built from them, and the
constructor writes each module's `name` attribute (`mod.name = modname`); `REPP._apply` of a module
runs iff its CURRENT `name` is in the active set.  `World` is the heap of module objects (their `name`
attributes), `RObj` a REPP object (registry copy, default activations).
-/
import Verif.C13.Active

namespace Verif.C13.Link

/-- module object id ↦ its `name` attribute. -/
abbrev World := Nat → Str

def World.rename (w : World) (id : Nat) (nm : Str) : World := fun i => if i = id then nm else w i

structure RObj where
  registry : List (Str × Nat)     -- `self.modules = dict(modules)`: key ↦ module object
  obj : Obj                       -- `self.active`
deriving Repr, DecidableEq

/-- the `for modname, mod in self.modules.items(): mod.name = modname` loop. -/
def renameAll (w : World) (D : List (Str × Nat)) : World := D.foldl (fun w p => w.rename p.2 p.1) w

/-- `REPP(modules=D, active=A)`. -/
def construct (w : World) (D : List (Str × Nat)) (A : List Str) : World × RObj :=
  (renameAll w D, ⟨D, Obj.after ⟨[]⟩ (A.map Call.activate)⟩)

/-- the external calls `>key` of the object's program, in order, that RUN under `active`: those whose
module object's current name is in the set (as module object ids). -/
def runningCalls (w : World) (r : RObj) (calls : List Str) (active : List Str) : List Nat :=
  calls.filterMap (fun key => match lookupG key r.registry with
    | some id => if active.contains (w id) then some id else none
    | none => none)

/-- the key under which the loop leaves module object `i` (the last one in dict order). -/
def lastKey (i : Nat) : List (Str × Nat) → Option Str
  | [] => none
  | (k, id) :: r => match lastKey i r with
    | some k' => some k'
    | none => if i = id then some k else none

/-- two REPP objects addressed in one history: `false` = the first, `true` = the second. -/
def runCalls2 {α} (run1 run2 : List Str → Str → Bool → α) : Obj × Obj → List (Bool × Call) → List (Bool × Option α)
  | _, [] => []
  | (o1, o2), (false, c) :: r => (false, o1.answer run1 c) :: runCalls2 run1 run2 (o1.step c, o2) r
  | (o1, o2), (true, c) :: r => (true, o2.answer run2 c) :: runCalls2 run1 run2 (o1, o2.step c) r

namespace L

theorem renameAll_apply (D : List (Str × Nat)) : ∀ (w : World) (i : Nat), renameAll w D i = (lastKey i D).getD (w i) := by
  induction D with
  | nil => intro w i; rfl
  | cons p r ih =>
    intro w i
    obtain ⟨k, id⟩ := p
    show renameAll (w.rename id k) r i = _
    rw [ih, lastKey]
    cases lastKey i r with
    | some k' => rfl
    | none =>
      simp only [Option.getD_none, World.rename]
      by_cases h : i = id <;> simp [h]

/-- building a second REPP from the same registry leaves every module's name as the first left it. -/
theorem renameAll_idem (w : World) (D : List (Str × Nat)) : renameAll (renameAll w D) D = renameAll w D := by
  funext i
  rw [renameAll_apply, renameAll_apply]
  cases lastKey i D <;> rfl

theorem runCalls2_fst {α} (run1 run2 : List Str → Str → Bool → α) (cs : List (Bool × Call)) : ∀ (o1 o2 : Obj),
    ((runCalls2 run1 run2 (o1, o2) cs).filter (fun x => !x.1)).map (·.2)
      = runCalls run1 o1 ((cs.filter (fun x => !x.1)).map (·.2)) := by
  induction cs with
  | nil => intro _ _; rfl
  | cons x r ih =>
    intro o1 o2
    obtain ⟨b, c⟩ := x
    cases b with
    | false => simp [runCalls2, runCalls, ih]
    | true => simp [runCalls2, ih]

theorem runCalls2_snd {α} (run1 run2 : List Str → Str → Bool → α) (cs : List (Bool × Call)) : ∀ (o1 o2 : Obj),
    ((runCalls2 run1 run2 (o1, o2) cs).filter (fun x => x.1)).map (·.2)
      = runCalls run2 o2 ((cs.filter (fun x => x.1)).map (·.2)) := by
  induction cs with
  | nil => intro _ _; rfl
  | cons x r ih =>
    intro o1 o2
    obtain ⟨b, c⟩ := x
    cases b with
    | false => simp [runCalls2, ih]
    | true => simp [runCalls2, runCalls, ih]

end L
end Verif.C13.Link
