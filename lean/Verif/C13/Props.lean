/-
C13 — property theorems: REPP rewriting equals ordered regex substitution with fixpoint groups.
Only property statements live here; proofs are references to Lemmas.lean.
The regex engine is a parameter (`eng`); no hypothesis on it is needed for the string clauses.
-/
import Verif.C13.Lemmas

namespace Verif.C13

/-! ## "produces exactly the string obtained by performing its rewrite rules in order as global
regular-expression substitutions" -/

/-- One rule: the string built segment by segment with offset tracking is the plain substitution
`gap₀ ++ expand(m₁) ++ gap₁ ++ …` — for every template (tracked or not, groups in any order,
repeated, unmatched groups expand to nothing) and every match list. -/
theorem applyRule_string (s : Str) (ms : List M) (tr un : List Seg) :
    (applyRule s ms tr un).out = subst s (tr ++ un) ms 0 := L.applyRule_string s ms tr un

/-- The tracked/untracked split made when a rule is constructed loses nothing of the template. -/
theorem loadRule_template (id n : Nat) (segs tr un : List Seg) (h : loadRule id n segs = .ok (.rule id tr un)) :
    tr ++ un = segs := L.loadRule_segs id n segs tr un h

/-- A whole operation (rule, mask, iterative group, external group active or not): the output of
the model's trace is the reference semantics `runOp` — same fuel, including "no result". -/
theorem applyOp_eq_run (eng : Eng) (f : Nat) (op : Op) (s : Str) :
    (applyOp eng f op s).map (fun st => lastOut st s) = runOp eng f op s := L.applyOp_run eng f op s

/-- The module (`REPP.apply`): its result string is the reference run of its operations in order. -/
theorem apply_eq_run (eng : Eng) (f : Nat) (ops : List Op) (s : Str) (st : List Step) (o : Str)
    (h : traceSteps eng f ops s = .ok (st, o)) : runGroup eng f ops s = some o := by
  have := L.groupApply_run eng f ops s
  unfold traceSteps at h
  cases hg : groupApply eng f ops s with
  | none => rw [hg] at h; cases h
  | some st' =>
    rw [hg] at h this
    simp only [Except.ok.injEq, Prod.mk.injEq] at h
    rw [← this, ← h.2]
    rfl

/-- The fuel only bounds the computation: more fuel, same result. -/
theorem run_fuel_irrelevant (eng : Eng) (f f' : Nat) (ops : List Op) (s o : Str)
    (h : runGroup eng f ops s = some o) (hf : f ≤ f') : runGroup eng f' ops s = some o :=
  L.runGroup_mono eng f f' ops s o h hf

/-! ## "re-running each numbered iterative group until its output stops changing" -/

/-- The result of an iterative group is reached from its input by re-running the body while the
output differs from the input of the round, and it is a fixpoint of the body. -/
theorem iter_reaches_fixpoint (eng : Eng) (f : Nat) (ops : List Op) (s o : Str) (h : runIter eng f ops s = some o) :
    IterTo (GroupRel eng ops) s o ∧ GroupRel eng ops o o :=
  ⟨L.runIter_sound eng f ops s o h, L.iterTo_fixpoint _ s o (L.runIter_sound eng f ops s o h)⟩

/-- Whenever re-running the body reaches a fixpoint after finitely many rounds, some fuel suffices
(the model does not give up early; without a fixpoint the real code does not terminate). -/
theorem iter_fuel_suffices (eng : Eng) (ops : List Op) (s o : Str) (h : IterTo (GroupRel eng ops) s o) :
    ∃ f, runIter eng f ops s = some o := L.runIter_complete eng ops s o h

/-! ## "applying an external group only when it is active … a module with no applicable rule returns its input" -/

/-- An inactive external group yields no step and leaves the string alone. -/
theorem inactive_ext_identity (eng : Eng) (f : Nat) (ops : List Op) (s : Str) :
    applyOp eng (f + 1) (.ext false ops) s = some [] ∧ runOp eng (f + 1) (.ext false ops) s = some s := by
  constructor <;> simp [applyOp, runOp]

/-- A rule without a match returns its input, with zero maps, not applied. -/
theorem no_match_identity (s : Str) (tr un : List Seg) :
    applyRule s [] tr un = ⟨s, false, zeromap s, zeromap s⟩ := rfl

/-- A rule step that did not apply changed nothing. -/
theorem unapplied_identity (s : Str) (ms : List M) (tr un : List Seg) (h : (applyRule s ms tr un).applied = false) :
    applyRule s ms tr un = ⟨s, false, zeromap s, zeromap s⟩ := L.applyRule_unapplied s ms tr un h

/-! ## "including files in place" -/

theorem include_inline (a f b : List Line) :
    flattenLines (a ++ [Line.incl f] ++ b) = flattenLines a ++ flattenLines f ++ flattenLines b :=
  L.flatten_include a f b

/-! ## "The trace is a chain in which each step's input is the previous step's output and whose
last element equals the result of apply"

Reading: the steps are the rule and mask steps; a group's summary step repeats its group's input
and reports the current string as output (also proved, `trace_structure`). -/

theorem trace_structure (eng : Eng) (f : Nat) (ops : List Op) (s : Str) (st : List Step) (o : Str)
    (h : traceSteps eng f ops s = .ok (st, o)) : TraceFrom eng s st o := by
  unfold traceSteps at h
  cases hg : groupApply eng f ops s with
  | none => rw [hg] at h; cases h
  | some st' =>
    rw [hg] at h
    simp only [Except.ok.injEq, Prod.mk.injEq] at h
    rw [← h.1, ← h.2]
    exact L.groupApply_traceFrom eng f ops s st' hg

/-- verbose trace: rule and mask steps form a chain from the input to the result of apply. -/
theorem trace_chain (eng : Eng) (f : Nat) (ops : List Op) (s : Str) (st : List Step) (o : Str)
    (h : traceSteps eng f ops s = .ok (st, o)) : Chain s (st.filter Step.isBasic) o :=
  L.chainFrom_basic s st o (L.traceFrom_chainFrom eng s st o (trace_structure eng f ops s st o h))

/-- non-verbose trace (only applied steps are shown): still a chain ending in the result. -/
theorem trace_chain_applied (eng : Eng) (f : Nat) (ops : List Op) (s : Str) (st : List Step) (o : Str)
    (h : traceSteps eng f ops s = .ok (st, o)) : Chain s (st.filter (fun x => x.isBasic && x.applied)) o :=
  L.traceFrom_applied_chain eng s st o (trace_structure eng f ops s st o h)

/-! ## "a mask rule by itself never changes the string or any reported span" -/

/-- the step a mask rule yields: same string, zero maps. -/
theorem mask_step_identity (id : Nat) (s : Str) :
    (maskStep id s).out = s ∧ (maskStep id s).sm = zeromap s ∧ (maskStep id s).em = zeromap s := ⟨rfl, rfl, rfl⟩

/-- a module of mask rules only: the result is the input and every yielded step reports zero maps
(so the merged maps stay the initial ones: `Verif.C14.mask_alone_maps`). -/
theorem mask_alone_identity (eng : Eng) (f : Nat) (ops : List Op) (s : Str) (st : List Step)
    (hm : ∀ op ∈ ops, ∃ id, op = Op.mask id) (h : groupApply eng f ops s = some st) :
    lastOut st s = s ∧ ∀ x ∈ st, x.out = s ∧ x.sm = zeromap s ∧ x.em = zeromap s :=
  L.masks_only eng f ops s st hm h

/-! ## hypotheses are satisfiable / concrete instances (past failures as regression) -/

/-- `!wo(n't)<TAB>\1` on "I won't go" (F16 witness): string. -/
example : (applyRule "I won't go".toList [⟨2, 7, [some (4, 7)]⟩] [.grp 1] []).out = "I n't go".toList := by decide

/-- `!a(b)?<TAB>\1` on "a" (F22 witness): the unmatched group expands to nothing, no error. -/
example : (applyRule "a".toList [⟨0, 1, [none]⟩] [.grp 1] []).out = [] := by decide

/-- the repaired template parser: `a\101b` is `a`, `A`, `b`; `\0` is NUL; `\1\t` keeps the group. -/
example : parseTemplate [] "a\\101b".toList = .ok [.lit ['a'], .lit ['A'], .lit ['b']] := by rfl
example : parseTemplate [] "\\0".toList = .ok [.lit [Char.ofNat 0]] := by rfl
example : parseTemplate [] "\\1\\t".toList = .ok [.grp 1, .lit ['\t']] := by rfl

end Verif.C13
