/-
C13 — property theorems: REPP rewriting equals ordered regex substitution with fixpoint groups.
Only property statements live here; proofs are references to Lemmas.lean.
The regex engine is a parameter (`eng`); no hypothesis on it is needed for the string clauses.
-/
import Verif.Generated.TablesC13
import Verif.C13.Lemmas
import Verif.C13.LoaderLemmas
import Verif.C13.LoaderRoundtrip
import Verif.C13.MaskLemmas
import Verif.C13.LinkLemmas
import Verif.C13.NoMatch
import Verif.C13.MaskTrace
import Verif.C13.Text
import Verif.C13.Active
import Verif.C13.LoaderSplice
import Verif.C13.Engine
import Verif.C13.Registry

namespace Verif.C13

/-! ## "produces exactly the string obtained by performing its rewrite rules in order as global
regular-expression substitutions" -/

/-- One rule: the string built segment by segment with offset tracking is the plain substitution
`gap₀ ++ expand(m₁) ++ gap₁ ++ …` — for every template (tracked or not, groups in any order,
repeated, unmatched groups expand to nothing) and every match list. -/
theorem applyRule_string (s : Str) (ms : List M) (tr un : List Seg) :
    (applyRule s ms tr un).out = subst s (tr ++ un) ms 0 := L.applyRule_string s ms tr un

/-- The tracked/untracked split made when a rule is constructed loses nothing of the template. -/
theorem loadRule_template (id n : Nat) (segs tr un : List Seg) (h : loadRule id n segs = .ok (.rule id tr un)) :
    tr ++ un = segs := L.loadRule_segs id n segs tr un h

/-- A whole operation (rule, mask, iterative group, external group active or not): the output of
the model's trace is the reference semantics `runOp` — same fuel, including "no result". -/
theorem applyOp_eq_run (eng : Eng) (f : Nat) (op : Op) (s : Str) (_hmf : op.maskFree = true) :
    (applyOp eng f op s).map (fun st => lastOut st s) = runOp eng f op s := L.applyOp_run eng f op s

/-- The module (`REPP.apply`): its result string is the reference run of its operations in order.
Scope: modules without mask rules (`opsMaskFree`) — there the mask-free `applyOp`/`traceSteps` is what
the code does (`maskfree_program`); `apply_eq_run_masked` states the same over the mask-threading
semantics `traceStepsM`. -/
theorem apply_eq_run (eng : Eng) (f : Nat) (ops : List Op) (s : Str) (st : List Step) (o : Str)
    (_hmf : opsMaskFree ops = true) (h : traceSteps eng f ops s = .ok (st, o)) : runGroup eng f ops s = some o := by
  have := L.groupApply_run eng f ops s
  unfold traceSteps at h
  cases hg : groupApply eng f ops s with
  | none => rw [hg] at h; cases h
  | some st' =>
    rw [hg] at h this
    simp only [Except.ok.injEq, Prod.mk.injEq] at h
    rw [← this, ← h.2]
    rfl

/-- the same over the semantics that threads the mask array (what the code runs in every case). -/
theorem apply_eq_run_masked (eng meng : Eng) (f : Nat) (ops : List Op) (s : Str) (stm : List StepM) (o : Str)
    (hmf : opsMaskFree ops = true) (h : traceStepsM eng meng f ops s = .ok (stm, o)) : runGroup eng f ops s = some o := by
  have hm := L.traceStepsM_maskFree eng meng f ops s hmf
  rw [h] at hm
  exact apply_eq_run eng f ops s (stm.map (·.step)) o hmf (by simpa [Except.map] using hm.symm)

/-- The fuel only bounds the computation: more fuel, same result. -/
theorem run_fuel_irrelevant (eng : Eng) (f f' : Nat) (ops : List Op) (s o : Str)
    (h : runGroup eng f ops s = some o) (hf : f ≤ f') : runGroup eng f' ops s = some o :=
  L.runGroup_mono eng f f' ops s o h hf

/-! ## "re-running each numbered iterative group until its output stops changing" -/

/-- The result of an iterative group is reached from its input by re-running the body while the
output differs from the input of the round, and it is a fixpoint of the body. -/
theorem iter_reaches_fixpoint (eng : Eng) (f : Nat) (ops : List Op) (s o : Str) (h : runIter eng f ops s = some o) :
    IterTo (GroupRel eng ops) s o ∧ GroupRel eng ops o o :=
  ⟨L.runIter_sound eng f ops s o h, L.iterTo_fixpoint _ s o (L.runIter_sound eng f ops s o h)⟩

/-- Whenever re-running the body reaches a fixpoint after finitely many rounds, some fuel suffices
(the model does not give up early; without a fixpoint the real code does not terminate). -/
theorem iter_fuel_suffices (eng : Eng) (ops : List Op) (s o : Str) (h : IterTo (GroupRel eng ops) s o) :
    ∃ f, runIter eng f ops s = some o := L.runIter_complete eng ops s o h

/-! ## "applying an external group only when it is active … a module with no applicable rule returns its input" -/

/-- An inactive external group yields no step and leaves the string alone. -/
theorem inactive_ext_identity (eng : Eng) (f : Nat) (ops : List Op) (s : Str) :
    applyOp eng (f + 1) (.ext false ops) s = some [] ∧ runOp eng (f + 1) (.ext false ops) s = some s := by
  constructor <;> simp [applyOp, runOp]

/-- A rule without a match returns its input, with zero maps, not applied. -/
theorem no_match_identity (s : Str) (tr un : List Seg) :
    applyRule s [] tr un = ⟨s, false, zeromap s, zeromap s⟩ := rfl

/-- A rule step that did not apply changed nothing. -/
theorem unapplied_identity (s : Str) (ms : List M) (tr un : List Seg) (h : (applyRule s ms tr un).applied = false) :
    applyRule s ms tr un = ⟨s, false, zeromap s, zeromap s⟩ := L.applyRule_unapplied s ms tr un h

/-- "a module with no applicable rule returns its input", at module level: if no rewrite rule that runs
(rules of inactive external groups do not count) has a match in the input, the result is the input
and every yielded step — rule steps, group summaries, every round of every iterative group — reports
the input with zero maps (hence the result maps are the initial ones, `Verif.C14.no_applicable_rule_maps`). -/
theorem no_applicable_rule (eng : Eng) (f : Nat) (ops : List Op) (s : Str) (st : List Step) (o : Str)
    (h : traceSteps eng f ops s = .ok (st, o)) (hn : opsNoMatchAt eng s ops = true) :
    o = s ∧ ∀ x ∈ st, x.out = s ∧ x.sm = zeromap s ∧ x.em = zeromap s :=
  L.no_applicable_rule eng f ops s st o h hn

/-! ## "including files in place" -/

theorem include_inline (a f b : List Line) :
    flattenLines (a ++ [Line.incl f] ++ b) = flattenLines a ++ flattenLines f ++ flattenLines b :=
  L.flatten_include a f b

/-! ### the same clause for the loader itself (line-level model of `_parse_repp_module`, Loader.lean) -/

/-- "including files in place": loading a module whose text contains the line `<f` gives exactly
what loading the text with f's lines spliced in at that place gives — the same module (and table of
external modules) or the same error; at every nesting depth: `pre` may have opened any number of
`#n` groups, `fl` may itself contain includes, and the statement holds in any parser state
(`include_inline_state`), so also inside included files and external module files. -/
theorem include_inline_text (env : Loader.Env) (f : Str) (fl : List Str) (hd : env.hasDir = true)
    (hf : env.files (Loader.rstrip f) = some fl) (pre post : List Str)
    (r : Except Loader.LErr (Loader.Module × List (Str × Loader.Module))) (hr : r ≠ .error .fuel) :
    (∃ k, Loader.loadLines env k (pre ++ ('<' :: f) :: post) = r)
      ↔ (∃ k, Loader.loadLines env k (pre ++ fl ++ post) = r) :=
  Loader.L.include_inline_text env f fl hd hf pre post r hr

theorem include_inline_state (env : Loader.Env) (f : Str) (fl : List Str) (hd : env.hasDir = true)
    (hf : env.files (Loader.rstrip f) = some fl) (st : Loader.PState) (pre post : List Str)
    (r : Except Loader.LErr Loader.PState) (hr : r ≠ .error .fuel) :
    (∃ k, Loader.parse env k st (pre ++ ('<' :: f) :: post) = r)
      ↔ (∃ k, Loader.parse env k st (pre ++ fl ++ post) = r) :=
  Loader.L.parse_include env f fl hd hf st pre post r hr

/-- the loader's fuel only bounds the computation (it runs out exactly on include / module cycles,
where the real loader does not terminate). -/
theorem loader_fuel_irrelevant (env : Loader.Env) (k k' : Nat) (lines : List Str)
    (r : Except Loader.LErr (Loader.Module × List (Str × Loader.Module)))
    (h : Loader.loadLines env k lines = r) (hr : r ≠ .error .fuel) (hk : k ≤ k') :
    Loader.loadLines env k' lines = r := Loader.L.loadLines_mono env k k' lines r h hr hk

/-- Loading the rendered text of an operation tree gives that tree back: operations in order (group
calls by name), the table of group definitions (module-global names, use before definition, nested
definitions), the `:` and `@` declarations — for every tree whose strings survive the line syntax
(`wfNodes`), whose group names are distinct and whose calls are all defined somewhere in the module. -/
theorem load_roundtrip (env : Loader.Env) (info tok : Option Str) (nodes : List Loader.Node)
    (hwf : Loader.wfNodes env.pre nodes = true)
    (hnd : ((Loader.defsOfNodes nodes).map (·.1)).Nodup)
    (hcalls : ∀ n ∈ Loader.callsOfNodes nodes, n ∈ (Loader.defsOfNodes nodes).map (·.1))
    (hinfo : ∀ s, info = some s → Loader.rstrip s = s) (htok : ∀ s, tok = some s → Loader.rstrip s = s) :
    ∃ k0, ∀ k, k0 ≤ k →
      Loader.loadLines env k (Loader.renderModule info tok nodes)
        = .ok (⟨Loader.opsOfNodes nodes, Loader.defsOfNodes nodes, tok, info⟩, []) :=
  Loader.L.load_roundtrip env info tok nodes hwf hnd hcalls hinfo htok

/-- the hypotheses of `load_roundtrip` are satisfiable: a rule, a definition with its call before it
containing a further call, a definition with its call after it containing a mask, a further call, a
preloaded external module; `:` line given. -/
example := load_roundtrip ⟨fun _ => none, false, ["m".toList]⟩ none (some ",".toList)
  [.rule "a".toList "b".toList,
   .defcall "1".toList [.rule "b".toList "c d".toList, .call "2".toList] true,
   .defcall "2".toList [.mask "x ".toList] false,
   .call "1".toList, .ext "m".toList]
  (by decide) (by decide) (by decide) (by intro x h; cases h) (by intro x h; cases h; rfl)

/-- `include_inline_text` at work with `hasDir = true`: the included file closes the group that the
main text opened; loading the text with `<inc` gives what the spliced text gives. -/
example : ∃ k, Loader.loadLines
      ⟨fun n => if n = "inc".toList then some ["!b\tc".toList, "#".toList] else none, true, []⟩ k
      (["#1".toList, "!a\tb".toList] ++ ('<' :: "inc ".toList) :: [">1".toList])
    = .ok (⟨[.call "1".toList], [("1".toList, [.rule ['a'] ['b'], .rule ['b'] ['c']])], none, none⟩, []) :=
  (include_inline_text ⟨fun n => if n = "inc".toList then some ["!b\tc".toList, "#".toList] else none, true, []⟩
    "inc ".toList ["!b\tc".toList, "#".toList] rfl rfl ["#1".toList, "!a\tb".toList] [">1".toList] _
    (by intro h; cases h)).mpr ⟨10, by rfl⟩

/-- the same in a parser state with a group already open (`include_inline_state`). -/
example : ∃ k, Loader.parse
      ⟨fun n => if n = "inc".toList then some ["!b\tc".toList, "#".toList] else none, true, []⟩ k
      ⟨[], [⟨"1".toList, [.rule ['a'] ['b']]⟩], [], ["1".toList], [], none, none, []⟩
      ([] ++ ('<' :: "inc".toList) :: [">1".toList])
    = .ok ⟨[.call "1".toList], [], [("1".toList, [.rule ['a'] ['b'], .rule ['b'] ['c']])], ["1".toList],
           ["1".toList], none, none, []⟩ :=
  (include_inline_state ⟨fun n => if n = "inc".toList then some ["!b\tc".toList, "#".toList] else none, true, []⟩
    "inc".toList ["!b\tc".toList, "#".toList] rfl rfl _ [] [">1".toList] _ (by intro h; cases h)).mpr ⟨10, by rfl⟩

/-- issue-308 instances: use before definition, and a nested definition called from the top level. -/
example : ∃ k, Loader.loadLines ⟨fun _ => none, false, []⟩ k [">1".toList, "#1".toList, "!a\tb".toList, "#".toList]
    = .ok (⟨[.call "1".toList], [("1".toList, [.rule ['a'] ['b']])], none, none⟩, []) := ⟨10, by rfl⟩
example : ∃ k, Loader.loadLines ⟨fun _ => none, false, []⟩ k
      ["#1".toList, "#2".toList, "!b\tc".toList, "#".toList, "#".toList, ">2".toList]
    = .ok (⟨[.call "2".toList], [("2".toList, [.rule ['b'] ['c']]), ("1".toList, [])], none, none⟩, []) := ⟨10, by rfl⟩
/-- a closing `#` without an open group is the IndexError of the real loader; a `:` line inside a group is a REPPError. -/
example : Loader.loadLines ⟨fun _ => none, false, []⟩ 10 ["#".toList] = .error .indexError := by rfl
example : Loader.loadLines ⟨fun _ => none, false, []⟩ 10 ["#1".toList, ":x".toList] = .error .reppError := by rfl

/-! ## "The trace is a chain in which each step's input is the previous step's output and whose
last element equals the result of apply"

Reading: the steps are the rule and mask steps; a group's summary step repeats its group's input
and reports the current string as output (also proved, `trace_structure`). -/

theorem trace_structure (eng : Eng) (f : Nat) (ops : List Op) (s : Str) (st : List Step) (o : Str)
    (_hmf : opsMaskFree ops = true) (h : traceSteps eng f ops s = .ok (st, o)) : TraceFrom eng s st o := by
  unfold traceSteps at h
  cases hg : groupApply eng f ops s with
  | none => rw [hg] at h; cases h
  | some st' =>
    rw [hg] at h
    simp only [Except.ok.injEq, Prod.mk.injEq] at h
    rw [← h.1, ← h.2]
    exact L.groupApply_traceFrom eng f ops s st' hg

/-- verbose trace: rule and mask steps form a chain from the input to the result of apply. -/
theorem trace_chain (eng : Eng) (f : Nat) (ops : List Op) (s : Str) (st : List Step) (o : Str)
    (hmf : opsMaskFree ops = true) (h : traceSteps eng f ops s = .ok (st, o)) : Chain s (st.filter Step.isBasic) o :=
  L.chainFrom_basic s st o (L.traceFrom_chainFrom eng s st o (trace_structure eng f ops s st o hmf h))

/-- non-verbose trace (only applied steps are shown): still a chain ending in the result. -/
theorem trace_chain_applied (eng : Eng) (f : Nat) (ops : List Op) (s : Str) (st : List Step) (o : Str)
    (hmf : opsMaskFree ops = true) (h : traceSteps eng f ops s = .ok (st, o)) :
    Chain s (st.filter (fun x => x.isBasic && x.applied)) o :=
  L.traceFrom_applied_chain eng s st o (trace_structure eng f ops s st o hmf h)

/-! ## "a mask rule by itself never changes the string or any reported span" -/

/-- the step a mask rule yields: same string, zero maps. -/
theorem mask_step_identity (id : Nat) (s : Str) :
    (maskStep id s).out = s ∧ (maskStep id s).sm = zeromap s ∧ (maskStep id s).em = zeromap s := ⟨rfl, rfl, rfl⟩

/-- a module of mask rules only: the result is the input and every yielded step reports zero maps
(so the merged maps stay the initial ones: `Verif.C14.mask_alone_maps`). -/
theorem mask_alone_identity (eng : Eng) (f : Nat) (ops : List Op) (s : Str) (st : List Step)
    (hm : ∀ op ∈ ops, ∃ id, op = Op.mask id) (h : groupApply eng f ops s = some st) :
    lastOut st s = s ∧ ∀ x ∈ st, x.out = s ∧ x.sm = zeromap s ∧ x.em = zeromap s :=
  L.masks_only eng f ops s st hm h

/-! ## the property's main clause on TEXT input

`Link.applyText env E eng k f lines s` is the model of `REPP.from_file(path).apply(s, active)` /
`REPP.from_string(text, modules=…).apply(s, active)`: the loader model on the lines (includes spliced
by the file map, external modules loaded from their files), `Link.linkModule` (rule lines get their
template parsed and split, `>n` becomes the iterative group of the body found in the module-global
group table, `>name` the external module with its own operations and group table, active or not),
then `Verif.C14.apply`. -/

/-- Whenever the text loads and runs, the result string is the reference run of the operations
linked from the text: rewrite rules in file order as global substitutions, each numbered group
re-run to its fixpoint, external groups only when active. -/
theorem apply_text_main (env : Loader.Env) (E : Link.LinkEnv) (eng : Eng) (k f : Nat) (lines : List Str) (s : Str)
    (st : List Step) (res : Verif.C14.Result) (h : Link.applyText env E eng k f lines s = .ok (st, res)) :
    ∃ m mods ops, Loader.loadLines env k lines = .ok (m, mods) ∧
      Link.linkModule { E with mods := E.mods ++ mods } f m = .ok ops ∧
      (opsMaskFree ops = true → runGroup eng f ops s = some res.string) := by
  obtain ⟨m, mods, ops, h1, h2, h3⟩ := Link.L.applyText_main env E eng k f lines s st res h
  exact ⟨m, mods, ops, h1, h2, fun _ => h3⟩

/-- "including files in place", on the whole pipeline: text with the line `<f` behaves on every input
exactly as the text with f's lines spliced in (same result, same maps, same trace, or the same error). -/
theorem apply_text_include (env : Loader.Env) (E : Link.LinkEnv) (eng : Eng) (f : Nat) (fn : Str) (fl : List Str)
    (hd : env.hasDir = true) (hf : env.files (Loader.rstrip fn) = some fl) (pre post : List Str) (s : Str)
    (r : Except Link.TErr (List Step × Verif.C14.Result)) (hr : r ≠ .error (.load .fuel)) :
    (∃ k, Link.applyText env E eng k f (pre ++ ('<' :: fn) :: post) s = r)
      ↔ (∃ k, Link.applyText env E eng k f (pre ++ fl ++ post) s = r) :=
  Link.L.applyText_include env E eng f fn fl hd hf pre post s r hr

/-- text ↔ tree: the module loaded from the rendered text of an operation tree behaves as the tree
itself (`Link.applyTree`: a definition-with-call is the iterative group of its body, a further `>n`
the iterative group of the body defined under that name anywhere in the module) — so everything
proved about operation trees (`apply_eq_run`, `trace_chain`, C14's `provenance_program` …) holds of
the text the harness gives to the real loader. -/
theorem apply_text_of_tree (env : Loader.Env) (E : Link.LinkEnv) (eng : Eng) (f : Nat) (info tok : Option Str)
    (nodes : List Loader.Node) (s : Str) (_hmf : Link.nodesMaskFree nodes = true)
    (hwf : Loader.wfNodes env.pre nodes = true)
    (hnd : ((Loader.defsOfNodes nodes).map (·.1)).Nodup)
    (hcalls : ∀ n ∈ Loader.callsOfNodes nodes, n ∈ (Loader.defsOfNodes nodes).map (·.1))
    (hinfo : ∀ x, info = some x → Loader.rstrip x = x) (htok : ∀ x, tok = some x → Loader.rstrip x = x) :
    ∃ k0, ∀ k, k0 ≤ k →
      Link.applyText env E eng k f (Loader.renderModule info tok nodes) s = Link.applyTree E eng f nodes s :=
  Link.L.applyText_render env E eng f info tok nodes s hwf hnd hcalls hinfo htok

/-! ## programs WITH masks (outside the property's "module without masks"; Mask.lean models
`_REPPMask._apply`, the blocking tests of `_process_match` and `_check_mask`)

`(blockedM s m mk tr un).1 = false` is the explicit "not blocked" predicate.  `applyRuleM` is the loop
as the code runs it (every match goes through `_process_match`; `continue` on a blocked one), so the
statements below are about what the code does, via `masked_loop_is_filter`. -/

/-- What the code does under a mask — the loop of `_REPPRule._apply` over ALL matches, a blocked one
skipped by `continue` with `pos`, `shift`, the maps and `new_mask` untouched (`applyRuleM`,
`ruleLoopM`) — is the mask-free loop over the matches that are not blocked plus the new mask array
(`applyRuleF`): string, `applied`, both maps and the mask. -/
theorem masked_loop_is_filter (s : Str) (ms : List M) (mk : MaskA) (tr un : List Seg) :
    applyRuleM s ms mk tr un = applyRuleF s ms mk tr un := L.applyRuleM_eq_filter s ms mk tr un

/-- Under any mask the string is the substitution of exactly the matches that are not blocked … -/
theorem applyRuleM_string (s : Str) (ms : List M) (mk : MaskA) (tr un : List Seg) :
    (applyRuleM s ms mk tr un).res.out = subst s (tr ++ un) (liveMatches s ms mk tr un) 0 :=
  L.applyRuleM_string s ms mk tr un

/-- … so when no match is blocked, string and maps are those of the mask-free rule (and all of
`applyRule_string`, `provenance_rule` apply) … -/
theorem applyRuleM_not_blocked (s : Str) (ms : List M) (mk : MaskA) (tr un : List Seg)
    (h : ∀ m ∈ ms, (blockedM s m mk tr un).1 = false) :
    (applyRuleM s ms mk tr un).res = applyRule s ms tr un ∧
    (applyRuleM s ms mk tr un).res.out = subst s (tr ++ un) ms 0 := by
  have h1 := L.applyRuleM_not_blocked s ms mk tr un h
  exact ⟨h1, by rw [h1]; exact L.applyRule_string s ms tr un⟩

/-- … a blocked match is left alone: the step is the mask-free rule on the remaining matches (a
blocked match then lies outside all matches, where `provenance_rule` attributes every character to
itself), and the remaining match list is still a valid one … -/
theorem blocked_match_left_alone (s : Str) (ms : List M) (mk : MaskA) (tr un : List Seg)
    (hv : ValidMatches s ms) (h : liveMatches s ms mk tr un ≠ []) :
    (applyRuleM s ms mk tr un).res = applyRule s (liveMatches s ms mk tr un) tr un ∧
    ValidMatches s (liveMatches s ms mk tr un) :=
  ⟨L.applyRuleM_live s ms mk tr un h, L.liveMatches_valid s ms mk tr un hv⟩

/-- … and when every match is blocked the string is unchanged, the step is not applied (so nothing
is merged into the result maps) and its maps are zero. -/
theorem all_blocked_identity (s : Str) (ms : List M) (mk : MaskA) (tr un : List Seg) (hne : ms ≠ [])
    (h : ∀ m ∈ ms, (blockedM s m mk tr un).1 = true) :
    (applyRuleM s ms mk tr un).res.out = s ∧ (applyRuleM s ms mk tr un).res.applied = false ∧
    (applyRuleM s ms mk tr un).res.sm = zeromap s ∧
    (applyRuleM s ms mk tr un).res.em = List.replicate (s.length + 1) 0 ++ [-1] :=
  L.applyRuleM_all_blocked s ms mk tr un hne h

/-- under an all-zero mask nothing is ever blocked. -/
theorem zero_mask_never_blocks (s : Str) (m : M) (mk : MaskA) (tr un : List Seg) (h : L.AllZero mk) :
    (blockedM s m mk tr un).1 = false := (L.blockedM_allZero s m mk tr un h).1

/-- the mask-threading semantics restricted to programs without mask rules IS the mask-free
semantics all other theorems are about. -/
theorem maskfree_program (eng meng : Eng) (f : Nat) (ops : List Op) (s : Str) (hf : opsMaskFree ops = true) :
    (traceStepsM eng meng f ops s).map (fun p => (p.1.map (·.step), p.2)) = traceSteps eng f ops s :=
  L.traceStepsM_maskFree eng meng f ops s hf

/-- instance: after the mask rule `=b` on "abc" (mask B at position 2), the rule `!b<TAB>c` is
blocked and leaves the string alone; without the mask it rewrites. -/
example : (applyRuleM "abc".toList [⟨1, 2, []⟩] [0, 0, 1, 0, 0] [] [.lit ['c']]).res.out = "abc".toList
    ∧ (applyRuleM "abc".toList [⟨1, 2, []⟩] [0, 0, 0, 0, 0] [] [.lit ['c']]).res.out = "acc".toList
    ∧ maskApply [0, 0, 0, 0, 0] [⟨1, 2, []⟩] [0, 0, 0, 0, 0] = some [0, 0, 1, 0, 0] := by decide

/-! ## the trace clauses for EVERY program (mask rules anywhere; no `opsMaskFree` hypothesis)

"The trace is a chain in which each step's input is the previous step's output and whose last element
equals the result of apply, and a mask rule by itself never changes the string or any reported span" —
over `traceStepsM`, the semantics that threads the mask array the way the code does. -/

/-- what every yielded step is, under masks: the rule's own loop on the current string and the current
mask array, a mask step, or a group summary of the current string. -/
theorem trace_structure_masked (eng meng : Eng) (f : Nat) (ops : List Op) (s : Str) (stm : List StepM) (o : Str)
    (h : traceStepsM eng meng f ops s = .ok (stm, o)) :
    TraceFromM eng meng s (zeroMask s) stm o (lastMask stm (zeroMask s)) :=
  L.traceStepsM_traceFromM eng meng f ops s stm o h

/-- verbose trace of any program: rule and mask steps chain from the input to the result. -/
theorem trace_chain_masked (eng meng : Eng) (f : Nat) (ops : List Op) (s : Str) (stm : List StepM) (o : Str)
    (h : traceStepsM eng meng f ops s = .ok (stm, o)) : Chain s ((stm.map (·.step)).filter Step.isBasic) o :=
  L.chainFrom_basic s _ o (L.traceFromM_chainFrom eng meng s _ stm o _ (trace_structure_masked eng meng f ops s stm o h))

/-- non-verbose trace of any program (a rule whose matches were all blocked is not shown): still a chain. -/
theorem trace_chain_applied_masked (eng meng : Eng) (f : Nat) (ops : List Op) (s : Str) (stm : List StepM) (o : Str)
    (h : traceStepsM eng meng f ops s = .ok (stm, o)) :
    Chain s ((stm.map (·.step)).filter (fun x => x.isBasic && x.applied)) o :=
  L.traceFromM_applied_chain eng meng s _ stm o _ (trace_structure_masked eng meng f ops s stm o h)

/-- in any program, at any depth and in any round, a mask step reports its input as its output with zero maps. -/
theorem mask_steps_identity_masked (eng meng : Eng) (f : Nat) (ops : List Op) (s : Str) (stm : List StepM) (o : Str)
    (h : traceStepsM eng meng f ops s = .ok (stm, o)) :
    ∀ x ∈ stm, ∀ id, x.step.kind = Kind.mask id →
      x.step.out = x.step.inp ∧ x.step.sm = zeromap x.step.inp ∧ x.step.em = zeromap x.step.inp :=
  L.traceFromM_mask_steps eng meng s _ stm o _ (trace_structure_masked eng meng f ops s stm o h)

/-- a rule step under a mask: the substitution of exactly the matches that are not blocked. -/
theorem rule_step_masked_string (eng : Eng) (id : Nat) (tr un : List Seg) (s : Str) (mk : MaskA) :
    (ruleStepM eng id tr un s mk).step.out = subst s (tr ++ un) (liveMatches s (eng id s) mk tr un) 0 :=
  L.applyRuleM_string s (eng id s) mk tr un

/-- the chain hypothesis is not vacuous: mask, blocked rule, rule that applies. -/
example : ∃ stm o, traceStepsM (fun id s => if id = 0 ∧ s = "ab".toList then [⟨0, 1, []⟩] else if id = 1 ∧ s = "ab".toList then [⟨1, 2, []⟩] else [])
      (fun _ s => if s = "ab".toList then [⟨0, 1, []⟩] else []) 5
      [.mask 0, .rule 0 [] [.lit ['x']], .rule 1 [] [.lit ['y']]] "ab".toList = .ok (stm, o) ∧ o = "ay".toList :=
  ⟨_, _, by rfl, by rfl⟩

/-! ## from TEXT to lines (`str.splitlines()` in `from_string` and `_repp_lines`) -/

/-- Text made of lines, each followed by LF, CRLF, a bare CR or another boundary character of
`splitlines` (VT, FF, FS, GS, RS, NEL, LS, PS), and a last line without terminator: `splitlines` gives
back exactly the lines (the last one only if it is not empty) — if no line contains a boundary
character and no bare CR stands directly before a line feed (`crSafe`). -/
theorem splitlines_text (ls : List (Str × Loader.Eol)) (final : Str)
    (hls : ∀ p ∈ ls, Loader.noBreak p.1 = true ∧ p.2.ok = true) (hf : Loader.noBreak final = true)
    (hs : Loader.crSafe ls final = true) :
    Loader.splitLines (Loader.renderText ls final) = ls.map (·.1) ++ (if final.isEmpty then [] else [final]) :=
  Loader.L.splitAux_render ls final hls hf hs false (by intro h; cases h)

/-- … so loading a module from its TEXT is loading its lines, whatever the line terminators, with or
without a final newline; the directory's files are split the same way (`TextEnv.toEnv`). -/
theorem load_text_lines (te : Loader.TextEnv) (k : Nat) (ls : List (Str × Loader.Eol)) (final : Str)
    (hls : ∀ p ∈ ls, Loader.noBreak p.1 = true ∧ p.2.ok = true) (hf : Loader.noBreak final = true)
    (hs : Loader.crSafe ls final = true) :
    Loader.loadText te k (Loader.renderText ls final)
      = Loader.loadLines te.toEnv k (ls.map (·.1) ++ (if final.isEmpty then [] else [final])) := by
  unfold Loader.loadText
  rw [splitlines_text ls final hls hf hs]

/-- `crSafe` is necessary: a line ended by a bare CR followed by an empty line ended by LF reads as ONE
line ended by CRLF. -/
theorem crSafe_necessary :
    Loader.splitLines (Loader.renderText [(['a'], .cr), ([], .lf)] []) = [['a']]
    ∧ Loader.crSafe [(['a'], .cr), ([], .lf)] [] = false := by decide

/-- the hypotheses are satisfiable: LF, CRLF, FF and a bare CR as terminators, empty lines, no final newline. -/
example : Loader.splitLines (Loader.renderText [("!a\tb".toList, .crlf), ([], .lf), (">1".toList, .other (Char.ofNat 12)),
      ("#1".toList, .cr)] "#".toList) = ["!a\tb".toList, [], ">1".toList, "#1".toList, "#".toList] :=
  splitlines_text _ _ (by decide) (by decide) (by decide)

/-! ## "applying an external group only when it is active": the object's state and the `active` argument -/

/-- `active` matters only as a set: two collections with the same members (any order, duplicates,
any iterable the caller passes) give the same result, trace and maps — or the same error. -/
theorem active_only_as_set (env : Loader.Env) (E : Link.LinkEnv) (eng : Eng) (k f : Nat) (lines : List Str) (s : Str)
    (A B : List Str) (h : ∀ n, A.contains n = B.contains n) :
    Link.applyText env { E with active := A } eng k f lines s = Link.applyText env { E with active := B } eng k f lines s :=
  Link.L.applyText_active_congr env E eng k f lines s A B h

theorem active_only_as_set_masked (env : Loader.Env) (E : Link.LinkEnv) (eng meng : Eng) (k f : Nat) (lines : List Str)
    (s : Str) (A B : List Str) (h : ∀ n, A.contains n = B.contains n) :
    Link.applyTextM env { E with active := A } eng meng k f lines s
      = Link.applyTextM env { E with active := B } eng meng k f lines s :=
  Link.L.applyTextM_active_congr env E eng meng k f lines s A B h

/-- a call of an inactive module can be deleted from a program, and inserted anywhere: same result. -/
theorem inactive_ext_removable (eng : Eng) (pre post body : List Op) (f : Nat) (s o : Str)
    (h : runOps eng f (pre ++ Op.ext false body :: post) s = some o) : runOps eng f (pre ++ post) s = some o :=
  Link.L.runOps_remove_inactive eng pre post body f s o h

theorem inactive_ext_insertable (eng : Eng) (pre post body : List Op) (f : Nat) (s o : Str)
    (h : runOps eng f (pre ++ post) s = some o) : runOps eng (f + 2) (pre ++ Op.ext false body :: post) s = some o :=
  Link.L.runOps_insert_inactive eng pre post body f s o h

/-- ONE object, a history of calls (`activate`, `deactivate`, `apply`, `trace` in any order): the answer of
a call after the history `cs` is the answer of the object in the state `o.after cs` … -/
theorem session_call_after_history {α} (run : List Str → Str → Bool → α) (o : Link.Obj) (cs : List Link.Call) (c : Link.Call) :
    Link.runCalls run o (cs ++ [c]) = Link.runCalls run o cs ++ [(o.after cs).answer run c] :=
  Link.L.runCalls_append run o cs [c]

/-- … a call with an explicit `active` argument answers the same in every state (no state of the object
leaks into it; it REPLACES the default activations) … -/
theorem session_explicit_active_pure {α} (run : List Str → Str → Bool → α) (o o' : Link.Obj) (s : Str) (A : List Str) (v : Bool) :
    o.answer run (.apply s (some A)) = o'.answer run (.apply s (some A))
    ∧ o.answer run (.trace s (some A) v) = o'.answer run (.trace s (some A) v)
    ∧ o.answer run (.apply s (some A)) = some (run A s false) := ⟨rfl, rfl, rfl⟩

/-- … and without the argument the active modules are the defaults: module `n` is active iff the LAST
`activate(n)` / `deactivate(n)` of the history was an `activate`, or, with neither in the history, iff it
was among the constructor's `active`. -/
theorem session_default_activation (o : Link.Obj) (cs : List Link.Call) (n : Str) :
    (o.after cs).defaults.contains n = (Link.lastSetting n cs).getD (o.defaults.contains n) :=
  Link.L.after_contains o cs n

example : (Link.Obj.after ⟨["x".toList]⟩ [.activate "y".toList, .apply [] none, .deactivate "x".toList,
    .activate "y".toList, .deactivate "z".toList]).defaults = ["y".toList] := by decide

/-! ## "including files in place" at EVERY depth (includes inside groups, includes inside included files) -/

/-- In ANY parser state (any stack of open `#n` groups, any group and module table, inside an included
file or an external module file), between any lines: loading a text is loading the text in which every
include line has been replaced by its file's lines, those by theirs, … to any depth `d` — the same
parser state comes out (open groups, closed groups, operations, `:`/`@`, modules) or the same error. -/
theorem include_splice_all (env : Loader.Env) (d : Nat) (lines pre post : List Str) (st : Loader.PState)
    (r : Except Loader.LErr Loader.PState) (hr : r ≠ .error .fuel) :
    (∃ k, Loader.parse env k st (pre ++ lines ++ post) = r)
      ↔ (∃ k, Loader.parse env k st (pre ++ Loader.spliceAll env d lines ++ post) = r) :=
  Loader.L.spliceAll_parse env d lines pre post st r hr

/-- the same for a whole module text: same module and module table, or same error. -/
theorem include_splice_all_text (env : Loader.Env) (d : Nat) (lines : List Str)
    (r : Except Loader.LErr (Loader.Module × List (Str × Loader.Module))) (hr : r ≠ .error .fuel) :
    (∃ k, Loader.loadLines env k lines = r) ↔ (∃ k, Loader.loadLines env k (Loader.spliceAll env d lines) = r) :=
  Loader.L.spliceAll_load env d lines r hr

/-- once no followable include line is left, further splicing changes nothing. -/
theorem splice_fixpoint (env : Loader.Env) (d : Nat) (lines : List Str) (h : Loader.includeFree env lines = true) :
    Loader.spliceAll env d lines = lines := Loader.L.spliceAll_includeFree env d lines h

/-- depth 2, inside a group: `#1 / <a / >1` with a = `!a→b / <b`, b = `!b→c / #` (b closes the group the
main text opened): the spliced text, and the module it loads to. -/
example :
    let env : Loader.Env := ⟨fun n => if n = "a".toList then some ["!a\tb".toList, "<b".toList]
      else if n = "b".toList then some ["!b\tc".toList, "#".toList] else none, true, []⟩
    Loader.spliceAll env 2 ["#1".toList, "<a".toList, ">1".toList]
        = ["#1".toList, "!a\tb".toList, "!b\tc".toList, "#".toList, ">1".toList]
    ∧ Loader.includeFree env (Loader.spliceAll env 2 ["#1".toList, "<a".toList, ">1".toList]) = true
    ∧ Loader.loadLines env 10 ["#1".toList, "<a".toList, ">1".toList]
        = .ok (⟨[.call "1".toList], [("1".toList, [.rule ['a'] ['b'], .rule ['b'] ['c']])], none, none⟩, []) := by
  refine ⟨by rfl, by rfl, by rfl⟩

/-! ## the regex engine's match list (the parameter): what is assumed, and that no match is skipped -/

/-- the executable check the driver evaluates on every match list the harness sends (`findIterOk`: ordered,
inside the string, non-overlapping, groups inside their match, a match may start where the previous one
ended, no two EMPTY matches at one position) implies the hypothesis `ValidMatches` of the theorems. -/
theorem finditer_list_valid (s : Str) (ms : List M) (h : findIterOk s.length 0 false ms = true) : ValidMatches s ms :=
  L.findIterOk_valid s.length ms 0 false h

/-- every match of the list is replaced, none skipped — also an empty match that starts where the
previous non-empty match ended: with a literal template `l` the output has `|s| - Σ widths + n·|l|`
characters for a list of `n` matches. -/
theorem every_match_replaced (s l : Str) (ms : List M) (h : ValidMatches s ms) :
    (applyRule s ms [] [.lit l]).out.length + matchedLen ms = s.length + ms.length * l.length := by
  rw [applyRule_string]
  simpa using L.subst_lit_length s l ms 0 h (Nat.zero_le _)

/-- `re.sub('a*', '-', 'baac') == '-b--c-'`: the list (0,0) (1,3) (3,3) (4,4) passes the check, has one
empty match adjacent to the previous non-empty one, and the model rewrites all four. -/
theorem empty_match_after_nonempty :
    findIterOk 4 0 false [⟨0, 0, []⟩, ⟨1, 3, []⟩, ⟨3, 3, []⟩, ⟨4, 4, []⟩] = true
    ∧ adjacentEmpty 0 [⟨0, 0, []⟩, ⟨1, 3, []⟩, ⟨3, 3, []⟩, ⟨4, 4, []⟩] = 1
    ∧ (applyRule "baac".toList [⟨0, 0, []⟩, ⟨1, 3, []⟩, ⟨3, 3, []⟩, ⟨4, 4, []⟩] [] [.lit ['-']]).out = "-b--c-".toList
    ∧ findIterOk 1 0 false [⟨0, 0, []⟩, ⟨0, 0, []⟩] = false
    ∧ findIterOk 1 0 false [⟨0, 0, []⟩, ⟨0, 1, []⟩, ⟨1, 1, []⟩] = true := by decide

/-! ## two REPP objects, one registry -/

/-- two objects in one interleaved history of calls: each answers as if it were alone. -/
theorem two_objects_independent {α} (run1 run2 : List Str → Str → Bool → α) (o1 o2 : Link.Obj) (cs : List (Bool × Link.Call)) :
    ((Link.runCalls2 run1 run2 (o1, o2) cs).filter (fun x => !x.1)).map (·.2)
        = Link.runCalls run1 o1 ((cs.filter (fun x => !x.1)).map (·.2))
    ∧ ((Link.runCalls2 run1 run2 (o1, o2) cs).filter (fun x => x.1)).map (·.2)
        = Link.runCalls run2 o2 ((cs.filter (fun x => x.1)).map (·.2)) :=
  ⟨Link.L.runCalls2_fst run1 run2 cs o1 o2, Link.L.runCalls2_snd run1 run2 cs o1 o2⟩

/-- building a second REPP from the SAME `modules` dict leaves the heap of module objects as the first
constructor left it, so which external calls of the first object run under any active set is unchanged. -/
theorem same_registry_independent (w : Link.World) (D : List (Str × Nat)) (A1 A2 : List Str) (calls active : List Str) :
    let (w1, r1) := Link.construct w D A1
    let (w2, _) := Link.construct w1 D A2
    w2 = w1 ∧ Link.runningCalls w2 r1 calls active = Link.runningCalls w1 r1 calls active := by
  simp only [Link.construct]
  rw [Link.L.renameAll_idem]
  exact ⟨rfl, rfl⟩

/-- the hypothesis "same dict" is necessary (model of the code as it is): ONE module object registered
as `x` in the first REPP and as `y` in a second one is renamed by the second constructor; the first
object's call `>x` then no longer runs when `x` is active, and runs when `y` is. -/
theorem shared_module_renamed :
    let w0 : Link.World := fun _ => []
    let (w1, r1) := Link.construct w0 [("x".toList, 0)] []
    let (w2, _) := Link.construct w1 [("y".toList, 0)] []
    Link.runningCalls w1 r1 ["x".toList] ["x".toList] = [0]
    ∧ Link.runningCalls w2 r1 ["x".toList] ["x".toList] = []
    ∧ Link.runningCalls w2 r1 ["x".toList] ["y".toList] = [0] := by decide

/-! ## hypotheses are satisfiable / concrete instances (past failures as regression) -/

/-- `!wo(n't)<TAB>\1` on "I won't go" (F16 witness): string. -/
example : (applyRule "I won't go".toList [⟨2, 7, [some (4, 7)]⟩] [.grp 1] []).out = "I n't go".toList := by decide

/-- `!a(b)?<TAB>\1` on "a" (F22 witness): the unmatched group expands to nothing, no error. -/
example : (applyRule "a".toList [⟨0, 1, [none]⟩] [.grp 1] []).out = [] := by decide

/-- the repaired template parser: `a\101b` is `a`, `A`, `b`; `\0` is NUL; `\1\t` keeps the group. -/
example : parseTemplate [] "a\\101b".toList = .ok [.lit ['a'], .lit ['A'], .lit ['b']] := by rfl
example : parseTemplate [] "\\0".toList = .ok [.lit [Char.ofNat 0]] := by rfl
example : parseTemplate [] "\\1\\t".toList = .ok [.grp 1, .lit ['\t']] := by rfl

/-- Pins: the constants of the anchored code that the models of C13 hand-code, read from the live
module on every run (harness/c13.py `tables()`: compiled pattern texts and flags, dictionaries, and the
string/number/bool constants of the code objects; docstrings, log formats and message texts left out).
A change to any of them stops this theorem, which the check reports as a broken proof obligation.
* `c13ReplacementsRe`, `c13AsciiEscapes`, `c13ParseTemplateConsts` (octal base 8, `& 255`, group names)
  — `matchEsc`, `asciiEscape`, `octNum`, `parseAux` (Model.lean);
* `c13GetSegmentsConsts` — `lastTrackable` (first expected group is 1);
* `c13ZeromapConsts` (`len(s) + 2` zeros), `c13RuleApplyConsts`, `c13InsertPartConsts` (`width - 1`,
  step -1), `c13ProcessMatchConsts` (`gstart == -1`, start delta 0), `c13TraceConsts` — `zeromap`,
  `applyRule` (sentinels `0`, `shift`, `shift - 1`), `insertPart`, `procTracked`, `processMatch`;
* `c13GroupApplyConsts`, `c13IterApplyConsts` — `groupApply`, `iterApply`;
* `c13MaskConsts`, `c13MaskApplyConsts`, `c13CheckMaskConsts`, `c13MakeMaskInfoConsts`,
  `c13GetMaskLenConsts` — `maskApply` (B = 1, I = 2), `checkMask`, `makeMaskInfo`, `maskLen` (Mask.lean);
* `c13ParseModuleConsts` (the prefix characters `; ! < > = # : @`), `c13RewriteRuleConsts` (the
  `([^\t]+)\t+(.*)` split), `c13GroupCallConsts` (`.rpp`), `c13InternalGroupConsts`,
  `c13ReppLinesConsts` — `skipLine`, `parse`, `parseRule` (Loader.lean);
* the `…Defaults` — `active=None`, `verbose=False`, `modules=None` … as the harness calls them. -/
theorem c13_pins :
    Verif.Tables.c13ReplacementsRe = "\\\\(?:(?P<oct>0[0-7]{,2}|[0-7]{3})|(?P<dec>[1-9][0-9]?)|g<(?P<grp>[^>]+)>|(?P<esc>[abfnrtv\\\\]))"
    ∧ Verif.Tables.c13ReplacementsReFlags = 32
    ∧ Verif.Tables.c13AsciiEscapes = [("a", 7), ("b", 8), ("f", 12), ("n", 10), ("r", 13), ("t", 9), ("v", 11), ("\\", 92)]
    ∧ Verif.Tables.c13MaskConsts = [0, 1, 2]
    ∧ Verif.Tables.c13ParseTemplateConsts = ["", "0", "dec", "grp", "oct", "8", "255", "esc"]
    ∧ Verif.Tables.c13GetSegmentsConsts = ["0", "1"]
    ∧ Verif.Tables.c13ZeromapConsts = ["i", "0", "2"]
    ∧ Verif.Tables.c13InsertPartConsts = ["1", "-1"]
    ∧ Verif.Tables.c13ProcessMatchConsts = ["i", "0", "False", "-1", "1", "True", "1", "", ""]
    ∧ Verif.Tables.c13RuleApplyConsts = ["False", "0", "i", "True", "1", ""]
    ∧ Verif.Tables.c13MaskApplyConsts = ["i", "1", "True"]
    ∧ Verif.Tables.c13GroupApplyConsts = ["False"]
    ∧ Verif.Tables.c13IterApplyConsts = ["0", "1"]
    ∧ Verif.Tables.c13TraceConsts = ["1", "0", "-1"]
    ∧ Verif.Tables.c13CheckMaskConsts = ["1", "0", "False", "True"]
    ∧ Verif.Tables.c13MakeMaskInfoConsts = ["", "0", "-1", "1"]
    ∧ Verif.Tables.c13GetMaskLenConsts = ["1"]
    ∧ Verif.Tables.c13ParseModuleConsts = ["True", "0", ";", "", "1", "!", "<", ">", "=", "#", "-1", ":", "@"]
    ∧ Verif.Tables.c13RewriteRuleConsts = ["([^\\t]+)\\t+(.*)", "1", "2"]
    ∧ Verif.Tables.c13GroupCallConsts = ["(operations,name)", "(name,modules)", ".rpp"]
    ∧ Verif.Tables.c13InternalGroupConsts = ["(operations,name)", "True", ""]
    ∧ Verif.Tables.c13ReppLinesConsts = ["utf-8", "(encoding)"]
    ∧ Verif.Tables.c13ApplyDefaults = ["None"]
    ∧ Verif.Tables.c13TraceDefaults = ["None", "False"]
    ∧ Verif.Tables.c13FromStringDefaults = ["None", "None", "None"]
    ∧ Verif.Tables.c13FromFileDefaults = ["None", "None", "None"]
    ∧ Verif.Tables.c13InitDefaults = ["None", "None", "None", "None"] := by
  refine ⟨?_, ?_, ?_, ?_, ?_, ?_, ?_, ?_, ?_, ?_, ?_, ?_, ?_, ?_, ?_, ?_, ?_, ?_, ?_, ?_, ?_, ?_, ?_, ?_, ?_, ?_, ?_⟩ <;> rfl

end Verif.C13
