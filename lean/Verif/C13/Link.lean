/-
C13 — from the loaded module to the operation tree that `apply()` executes, and the whole pipeline
on TEXT: `REPP.from_file(path).apply(s)` / `REPP.from_string(text, modules=…).apply(s, active)`.

In the real code there is no separate step: the loader builds the objects (`_REPPRule` with its
parsed template, `_REPPInternalGroup` objects shared between their calls, `REPP` modules) and `apply`
walks them.  The loader model (Loader.lean) keeps calls by name; `link` resolves them: a rule line gets
its template parsed and split (`_REPPRule.__init__`), `>n` becomes the iterative group with the body
found in the module's group table, `>name` the external module (active or not) with ITS operations
and ITS group table.  Pattern-level facts come from the regex engine (parameters): the id under
which the engine answers for a rule object, `_re.groups`, `_re.groupindex`.
-/
import Verif.C13.Loader
import Verif.C13.Mask
import Verif.C14.Model
import Verif.C14.Masked

namespace Verif.C13.Link
open Verif.C13 Verif.C13.Loader

structure LinkEnv where
  ruleId : Str → Str → Nat                  -- the rule object's id for (pattern, template)
  maskId : Str → Nat
  ngroups : Str → Nat                       -- `_re.groups`
  names : Str → List (Str × Nat)            -- `_re.groupindex`
  mods : List (Str × Loader.Module)         -- every module by name: preloaded ones and those loaded from files
  active : List Str

def lookupG {α} (n : Str) : List (Str × α) → Option α
  | [] => none
  | (k, v) :: r => if k = n then some v else lookupG n r

/-- `_REPPRule(pattern, replacement)`: template parsed, validated against the group count, split. -/
def linkRule (E : LinkEnv) (p t : Str) : Except Err Op :=
  match parseTemplate (E.names p) t with
  | .error e => .error e
  | .ok segs => loadRule (E.ruleId p t) (E.ngroups p) segs

mutual
def linkOp (E : LinkEnv) (groups : List (Str × List LOp)) : Nat → LOp → Except Err Op
  | 0, _ => .error .fuel
  | _ + 1, .rule p t => linkRule E p t
  | _ + 1, .mask p => .ok (.mask (E.maskId p))
  | f + 1, .call n =>
    match lookupG n groups with
    | none => .error .engine          -- excluded by `_verify_internal_groups` (`finish`)
    | some body =>
      match linkOps E groups f body with
      | .error e => .error e
      | .ok ops => .ok (.iter ops)
  | f + 1, .ext nm =>
    match lookupG nm E.mods with
    | none => .error .engine          -- every external call of a loaded module is in the module table
    | some m =>
      match linkOps E m.groups f m.ops with
      | .error e => .error e
      | .ok ops => .ok (.ext (E.active.contains nm) ops)
def linkOps (E : LinkEnv) (groups : List (Str × List LOp)) : Nat → List LOp → Except Err (List Op)
  | 0, _ => .error .fuel
  | _ + 1, [] => .ok []
  | f + 1, op :: r =>
    match linkOp E groups f op with
    | .error e => .error e
    | .ok o =>
      match linkOps E groups f r with
      | .error e => .error e
      | .ok os => .ok (o :: os)
end

/-- the operations of the top module. -/
def linkModule (E : LinkEnv) (f : Nat) (m : Loader.Module) : Except Err (List Op) := linkOps E m.groups f m.ops

inductive TErr where
  | load (e : LErr)
  | run (e : Err)
deriving Repr, DecidableEq

/-- what `apply` does once the text is loaded: link, then run (with the maps). -/
def afterLoad (E : LinkEnv) (eng : Eng) (f : Nat) (s : Str) (lm : Loader.Module × List (Str × Loader.Module)) :
    Except TErr (List Step × Verif.C14.Result) :=
  match linkModule { E with mods := E.mods ++ lm.2 } f lm.1 with
  | .error e => .error (.run e)
  | .ok ops =>
    match Verif.C14.apply eng f ops s with
    | .error e => .error (.run e)
    | .ok r => .ok r

/-- `REPP.from_file / from_string` on the lines of the top module, then `apply(s, active)`.
`E.mods` holds the preloaded modules (`modules=`); modules loaded from files are added. -/
def applyText (env : Loader.Env) (E : LinkEnv) (eng : Eng) (k f : Nat) (lines : List Str) (s : Str) :
    Except TErr (List Step × Verif.C14.Result) :=
  match loadLines env k lines with
  | .error e => .error (.load e)
  | .ok lm => afterLoad E eng f s lm

/-- the same with the mask-threading semantics (`traceStepsM`, Mask.lean) — programs with mask rules. -/
def afterLoadM (E : LinkEnv) (eng meng : Eng) (f : Nat) (s : Str) (lm : Loader.Module × List (Str × Loader.Module)) :
    Except TErr (List StepM × Verif.C14.Result) :=
  match linkModule { E with mods := E.mods ++ lm.2 } f lm.1 with
  | .error e => .error (.run e)
  | .ok ops =>
    match Verif.C14.applyM eng meng f ops s with
    | .error e => .error (.run e)
    | .ok r => .ok r

def applyTextM (env : Loader.Env) (E : LinkEnv) (eng meng : Eng) (k f : Nat) (lines : List Str) (s : Str) :
    Except TErr (List StepM × Verif.C14.Result) :=
  match loadLines env k lines with
  | .error e => .error (.load e)
  | .ok lm => afterLoadM E eng meng f s lm

/-! ### the same, directly on the operation tree the harness renders (no text) -/

mutual
/-- the group bodies of a tree, in the order `defsOfNodes` lists them. -/
def bodiesOfNode : Node → List (Str × List Node)
  | .defcall n body _ => bodiesOfNodes body ++ [(n, body)]
  | _ => []
def bodiesOfNodes : List Node → List (Str × List Node)
  | [] => []
  | x :: r => bodiesOfNode x ++ bodiesOfNodes r
end

mutual
/-- the tree's own semantics: a definition-with-call is the iterative group of its body, a further
call `>n` the iterative group of the body defined under that name anywhere in the module. -/
def semNode (E : LinkEnv) (D : List (Str × List Node)) : Nat → Node → Except Err Op
  | 0, _ => .error .fuel
  | _ + 1, .rule p t => linkRule E p t
  | _ + 1, .mask p => .ok (.mask (E.maskId p))
  | f + 1, .defcall _ body _ =>
    match semNodes E D f body with
    | .error e => .error e
    | .ok ops => .ok (.iter ops)
  | f + 1, .call n =>
    match lookupG n D with
    | none => .error .engine
    | some body =>
      match semNodes E D f body with
      | .error e => .error e
      | .ok ops => .ok (.iter ops)
  | f + 1, .ext nm =>
    match lookupG nm E.mods with
    | none => .error .engine
    | some m =>
      match linkOps E m.groups f m.ops with
      | .error e => .error e
      | .ok ops => .ok (.ext (E.active.contains nm) ops)
def semNodes (E : LinkEnv) (D : List (Str × List Node)) : Nat → List Node → Except Err (List Op)
  | 0, _ => .error .fuel
  | _ + 1, [] => .ok []
  | f + 1, x :: r =>
    match semNode E D f x with
    | .error e => .error e
    | .ok o =>
      match semNodes E D f r with
      | .error e => .error e
      | .ok os => .ok (o :: os)
end

mutual
/-- no mask rule in the tree. -/
def nodeMaskFree : Node → Bool
  | .mask _ => false
  | .defcall _ body _ => nodesMaskFree body
  | _ => true
def nodesMaskFree : List Node → Bool
  | [] => true
  | x :: r => nodeMaskFree x && nodesMaskFree r
end

/-- `apply` of the module whose operation tree is `nodes` (what the harness builds and renders). -/
def applyTree (E : LinkEnv) (eng : Eng) (f : Nat) (nodes : List Node) (s : Str) :
    Except TErr (List Step × Verif.C14.Result) :=
  match semNodes E (bodiesOfNodes nodes) f nodes with
  | .error e => .error (.run e)
  | .ok ops =>
    match Verif.C14.apply eng f ops s with
    | .error e => .error (.run e)
    | .ok r => .ok r

end Verif.C13.Link
