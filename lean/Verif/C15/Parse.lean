/- C15 — parser round trip on flat conjunctions (leaf terms) -/
import Verif.C15.Lemmas

namespace Verif.C15
set_option linter.unusedSimpArgs false

def isLeaf : Term → Bool
  | .ident .. | .str .. | .regex .. | .coref .. => true
  | _ => false

def allLeaves : Terms → Bool
  | .nil => true
  | .cons t ts => isLeaf t && allLeaves ts

def noAmp : List Tok → Prop
  | .amp :: _ => False
  | _ => True

theorem parseTerm_leaf (t : Term) (h : isLeaf t = true) (n : Nat) (rest : List Tok) :
    parseTerm (n + 1) (toksTerm t ++ rest) = .ok (t, rest) := by
  cases t with
  | ident d s => cases d <;> simp [toksTerm, docTok, parseTerm]
  | str d s => cases d <;> simp [toksTerm, docTok, parseTerm]
  | regex d s => cases d <;> simp [toksTerm, docTok, parseTerm]
  | coref d s => cases d <;> simp [toksTerm, docTok, parseTerm]
  | avm _ _ => simp [isLeaf] at h
  | cons _ _ _ => simp [isLeaf] at h
  | diff _ _ => simp [isLeaf] at h

theorem parseTerms_leaves : ∀ (ts : Terms) (t : Term), isLeaf t = true → allLeaves ts = true →
    ∀ (n : Nat), n ≥ 2 * (ts.toList.length + 1) → ∀ rest, noAmp rest →
    parseTerms n (toksTerms (.cons t ts) ++ rest) = .ok (t :: ts.toList, rest)
  | .nil, t, ht, _, n, hn, rest, hr => by
    obtain ⟨m, rfl⟩ : ∃ m, n = m + 2 := ⟨n - 2, by simp [Terms.toList] at hn; omega⟩
    simp only [toksTerms, toksAmp, List.append_nil, parseTerms, parseTerm_leaf t ht m rest]
    cases rest with
    | nil => simp [Terms.toList]
    | cons a r => cases a <;> simp_all [noAmp, Terms.toList]
  | .cons t2 ts, t, ht, hts, n, hn, rest, hr => by
    simp only [allLeaves, Bool.and_eq_true] at hts
    obtain ⟨m, rfl⟩ : ∃ m, n = m + 2 := ⟨n - 2, by simp [Terms.toList] at hn; omega⟩
    have ih := parseTerms_leaves ts t2 hts.1 hts.2 (m + 1) (by simp [Terms.toList] at hn ⊢; omega) rest hr
    simp only [toksTerms, List.append_assoc] at ih
    rw [parseTerms]
    simp only [toksTerms, toksAmp, List.append_assoc, List.cons_append,
      parseTerm_leaf t ht m _, ih, Terms.toList]

end Verif.C15
