/- C15 — round trip of files: every item kind, sequences, nested environments -/
import Verif.C15.TopLevel

namespace Verif.C15
set_option linter.unusedSimpArgs false
set_option linter.unusedVariables false

theorem typeNeInstance : ":type".toList ≠ ":instance".toList := by
  intro h
  have := congrArg List.length h
  simp at this

theorem envTypeText_true : envTypeText true = ":instance".toList := by simp only [envTypeText, if_true]
theorem envTypeText_false : envTypeText false = ":type".toList := by
  simp only [envTypeText, Bool.false_eq_true, if_false]
theorem text_ident (s : Str) : (Tok.ident s).text = s := rfl
theorem text_envtype (s : Str) : (Tok.envtype s).text = s := rfl

theorem pi_other (x : Item) (hw : wfItem x = true) : PI x := by
  cases x with
  | typedef id ts doc => exact pi_typedef id ts doc hw
  | addendum id ts doc => exact pi_addendum id ts doc hw
  | lexrule id a pats ts doc => exact pi_lexrule id a pats ts doc hw
  | letterset var chars =>
    intro m hm n cur stack R its cs hstep hrec
    simp only [envStep, Option.some.injEq] at hstep
    subst hstep
    simp only [] at hrec
    simp only [toksItem, List.cons_append, List.nil_append, parseItems,
      parseMorph_letterset var chars (by simpa [wfItem] using hw), hrec, canonItem]
  | wildcard var chars =>
    intro m hm n cur stack R its cs hstep hrec
    simp only [envStep, Option.some.injEq] at hstep
    subst hstep
    simp only [] at hrec
    simp only [toksItem, List.cons_append, List.nil_append, parseItems,
      parseMorph_wildcard var chars (by simpa [wfItem] using hw), hrec, canonItem]
  | beginEnv inst status =>
    intro m hm n cur stack R its cs hstep hrec
    simp only [envStep, Option.some.injEq] at hstep
    subst hstep
    simp only [] at hrec
    cases inst with
    | true =>
      cases status with
      | none => simp only [wfItem, if_true] at hw; cases hw
      | some st =>
        have hne : st.isEmpty = false := by
          simp only [wfItem, if_true, Bool.not_eq_true'] at hw; exact hw
        simp only [toksItem, hne, Bool.false_eq_true, if_false, List.cons_append, List.nil_append]
        rw [parseItems]
        simp only [envTypeText_true, if_true, hrec, text_ident, canonItem]
    | false =>
      cases status with
      | some st => simp only [wfItem, Bool.false_eq_true, if_false, Option.isNone] at hw
      | none =>
        have hne : ":type".toList ≠ ":instance".toList := typeNeInstance
        simp only [toksItem, List.cons_append, List.nil_append]
        rw [parseItems]
        simp only [envTypeText_false, hne, if_false, hrec, canonItem]
  | endEnv inst =>
    intro m hm n cur stack R its cs hstep hrec
    simp only [envStep] at hstep
    split at hstep
    · rename_i hcur
      subst hcur
      cases stack with
      | nil => simp at hstep
      | cons prev st =>
        simp only [Option.some.injEq] at hstep
        subst hstep
        simp only [] at hrec
        have h1 : ":type".toList ≠ ":instance".toList := typeNeInstance
        cases inst
        · simp only [toksItem, List.cons_append, List.nil_append]
          rw [parseItems]
          simp [envTypeText_false, text_envtype, h1, hrec, canonItem]
        · simp only [toksItem, List.cons_append, List.nil_append]
          rw [parseItems]
          simp [envTypeText_true, text_envtype, h1.symm, hrec, canonItem]
    · cases hstep
  | include_ v =>
    intro m hm n cur stack R its cs hstep hrec
    simp only [envStep, Option.some.injEq] at hstep
    subst hstep
    simp only [] at hrec
    simp [toksItem, parseItems, hrec, canonItem]
  | lcomment c =>
    intro m hm n cur stack R its cs hstep hrec
    simp only [envStep, Option.some.injEq] at hstep
    subst hstep
    simp only [] at hrec
    simp [toksItem, parseItems, hrec, canonItem]
  | bcomment c =>
    intro m hm n cur stack R its cs hstep hrec
    simp only [envStep, Option.some.injEq] at hstep
    subst hstep
    simp only [] at hrec
    simp [toksItem, parseItems, hrec, canonItem]

theorem toksItem_pos (x : Item) : 1 ≤ (toksItem x).length := by
  cases x <;> simp [toksItem]

/-- files: any sequence of well-formed items whose environments are properly nested (from the
state `cur`/`stack`) is parsed back, item by item, to the canonical items — with any item budget
`n ≥ number of items` and any definition fuel `m ≥ 6 · number of tokens`. -/
theorem parseItems_toks : ∀ (xs : List Item) (cur : Option Bool) (stack : List (Option Bool)),
    (∀ x ∈ xs, wfItem x = true) → envOK cur stack xs = true →
    ∀ n m, xs.length ≤ n → 6 * (xs.flatMap toksItem).length ≤ m →
      parseItems n m cur stack (xs.flatMap toksItem) = .ok (xs.map canonItem)
  | [], cur, stack, _, _ => fun n m _ _ => by cases n <;> simp [parseItems]
  | x :: xs, cur, stack, hw, henv => by
    intro n m hn hm
    simp only [envOK] at henv
    cases hstep : envStep cur stack x with
    | none => simp [hstep] at henv
    | some cs =>
      simp only [hstep] at henv
      simp only [List.flatMap_cons, List.length_append, List.length_cons] at hn hm
      obtain ⟨n', rfl⟩ : ∃ n', n = n' + 1 := ⟨n - 1, by omega⟩
      have ih := parseItems_toks xs cs.1 cs.2 (fun y hy => hw y (List.mem_cons_of_mem _ hy)) henv n' m
        (by omega) (by omega)
      simp only [List.flatMap_cons, List.map_cons]
      exact pi_other x (hw x (List.mem_cons_self ..)) m (by omega) n' cur stack _ _ cs hstep ih

theorem length_le_flatMap : ∀ xs : List Item, xs.length ≤ (xs.flatMap toksItem).length
  | [] => by simp
  | x :: xs => by
    have := toksItem_pos x
    have := length_le_flatMap xs
    simp only [List.flatMap_cons, List.length_append, List.length_cons]; omega

/-- the driver's parser (`parseFile`: item budget `|tokens|+1`, definition fuel `6·|tokens|+10`) -/
theorem parseFile_toks (xs : List Item) (hw : ∀ x ∈ xs, wfItem x = true) (henv : envOK none [] xs = true) :
    parseFile (xs.flatMap toksItem) = .ok (xs.map canonItem) := by
  unfold parseFile
  have := length_le_flatMap xs
  exact parseItems_toks xs none [] hw henv _ _ (by omega) (by omega)

end Verif.C15
