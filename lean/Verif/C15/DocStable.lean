/- C15 — a formatted docstring is a fixed point of `_format_docstring`:
   fmtDoc k (fmtDoc k d) = fmtDoc k d  (dedent / re-indent / escape stability) -/
import Verif.C15.Lemmas

namespace Verif.C15
set_option linter.unusedSimpArgs false
set_option linter.unusedVariables false

theorem escapeDoc_idem' (s : Str) : escapeDoc (escapeDoc s) = escapeDoc s := escGo_idem s (some 0)

def render (k : Nat) (ls : List Str) : Str :=
  '\n' :: spaces k ++ joinLines ('\n' :: spaces k) ls ++ '\n' :: spaces k

theorem fmtDoc_eq (k : Nat) (d : Str) : fmtDoc k d = escapeDoc (render k (docLines d)) := rfl

/-! ### lines -/

theorem splitNL_ne_nil : ∀ s : Str, splitNL s ≠ []
  | [] => by simp [splitNL]
  | c :: cs => by
    simp only [splitNL]
    split
    · simp
    · split <;> simp

theorem splitNL_cons_ne (c : Char) (s : Str) (hc : c ≠ '\n') :
    ∃ l ls, splitNL s = l :: ls ∧ splitNL (c :: s) = (c :: l) :: ls := by
  cases h : splitNL s with
  | nil => exact absurd h (splitNL_ne_nil s)
  | cons l ls => exact ⟨l, ls, rfl, by simp [splitNL, hc, h]⟩

theorem splitNL_noNL : ∀ l : Str, '\n' ∉ l → splitNL l = [l]
  | [], _ => by simp [splitNL]
  | c :: cs, h => by
    simp only [List.mem_cons, not_or] at h
    have hc : c ≠ '\n' := fun e => h.1 e.symm
    obtain ⟨l, ls, h1, h2⟩ := splitNL_cons_ne c cs hc
    rw [splitNL_noNL cs h.2] at h1
    simp only [List.cons.injEq] at h1
    rw [h2, ← h1.1, ← h1.2]

theorem splitNL_line : ∀ (l r : Str), '\n' ∉ l → splitNL (l ++ '\n' :: r) = l :: splitNL r
  | [], r, _ => by simp [splitNL]
  | c :: cs, r, h => by
    simp only [List.mem_cons, not_or] at h
    have hc : c ≠ '\n' := fun e => h.1 e.symm
    obtain ⟨l, ls, h1, h2⟩ := splitNL_cons_ne c (cs ++ '\n' :: r) hc
    rw [splitNL_line cs r h.2] at h1
    simp only [List.cons.injEq] at h1
    simp only [List.cons_append]
    rw [h2, ← h1.1, ← h1.2]

theorem spaces_noNL (k : Nat) : '\n' ∉ spaces k := by
  simp [spaces]

theorem splitNL_body (k : Nat) : ∀ (E : List Str), E ≠ [] → (∀ e ∈ E, '\n' ∉ e) →
    splitNL (spaces k ++ joinLines ('\n' :: spaces k) E ++ '\n' :: spaces k)
      = E.map (spaces k ++ ·) ++ [spaces k]
  | [], h, _ => absurd rfl h
  | [e], _, hn => by
    have h1 : '\n' ∉ spaces k ++ e := by
      simp only [List.mem_append, not_or]; exact ⟨spaces_noNL k, hn e (by simp)⟩
    have := splitNL_line (spaces k ++ e) (spaces k) h1
    simp only [joinLines, List.map_cons, List.map_nil, List.append_assoc] at this ⊢
    rw [this, splitNL_noNL _ (spaces_noNL k)]
    simp
  | e :: e2 :: es, _, hn => by
    have h1 : '\n' ∉ spaces k ++ e := by
      simp only [List.mem_append, not_or]; exact ⟨spaces_noNL k, hn e (by simp)⟩
    have ih := splitNL_body k (e2 :: es) (by simp) (fun x hx => hn x (List.mem_cons_of_mem _ hx))
    have := splitNL_line (spaces k ++ e)
      (spaces k ++ joinLines ('\n' :: spaces k) (e2 :: es) ++ '\n' :: spaces k) h1
    simp only [joinLines, List.map_cons, List.append_assoc, List.cons_append] at this ih ⊢
    rw [this, ih]

theorem splitNL_render (k : Nat) (E : List Str) (hE : E ≠ []) (hn : ∀ e ∈ E, '\n' ∉ e) :
    splitNL (render k E) = [] :: (E.map (spaces k ++ ·) ++ [spaces k]) := by
  have := splitNL_line [] (spaces k ++ joinLines ('\n' :: spaces k) E ++ '\n' :: spaces k) (by simp)
  simp only [List.nil_append] at this
  simp only [render, List.cons_append, List.append_assoc] at this ⊢
  rw [this]
  have h2 := splitNL_body k E hE hn
  simp only [List.append_assoc] at h2
  rw [h2]


/-! ### blank lines, indentation -/

theorem isBlank_spaces (k : Nat) : isBlank (spaces k) = true := by
  simp [isBlank, spaces]

theorem isBlank_nil : isBlank [] = true := by simp [isBlank]

theorem isBlank_spaces_append (k : Nat) (e : Str) : isBlank (spaces k ++ e) = isBlank e := by
  simp [isBlank, spaces]

theorem leadSp_spaces_append : ∀ (k : Nat) (e : Str), leadSp (spaces k ++ e) = k + leadSp e
  | 0, e => by simp [spaces]
  | k + 1, e => by
    have ih := leadSp_spaces_append k e
    simp only [leadSp, spaces] at ih ⊢
    simp [List.replicate_succ, ih]; omega

theorem drop_spaces_append (k : Nat) (e : Str) : (spaces k ++ e).drop k = e := by
  simp [spaces]

def Norm (E : List Str) : Prop :=
  (∀ e ∈ E, '\n' ∉ e) ∧ (∀ e ∈ E, isBlank e = true → e = []) ∧
  ((∀ e ∈ E, isBlank e = true) ∨ ∃ e ∈ E, isBlank e = false ∧ leadSp e = 0)

theorem foldl_min_spec : ∀ (as : List Nat) (a : Nat),
    (as.foldl min a ∈ a :: as) ∧ ∀ x ∈ a :: as, as.foldl min a ≤ x
  | [], a => by simp
  | b :: bs, a => by
    obtain ⟨h1, h2⟩ := foldl_min_spec bs (min a b)
    simp only [List.foldl_cons]
    constructor
    · rcases List.mem_cons.mp h1 with h | h
      · rw [h]
        by_cases hab : a ≤ b
        · simp [Nat.min_eq_left hab]
        · simp [Nat.min_eq_right (Nat.le_of_not_le hab)]
      · simp [h]
    · intro x hx
      have hm := h2 (min a b) (by simp)
      rcases List.mem_cons.mp hx with rfl | hx
      · exact Nat.le_trans hm (Nat.min_le_left ..)
      · rcases List.mem_cons.mp hx with rfl | hx
        · exact Nat.le_trans hm (Nat.min_le_right ..)
        · exact h2 x (by simp [hx])

/-- the margin `textwrap.dedent` computes from the indentations of the non-blank lines -/
def marginOf (ind : List Nat) : Nat :=
  match ind with
  | [] => 0
  | m :: ms => ms.foldl min m

theorem marginOf_eq (ind : List Nat) (k : Nat) (hk : k ∈ ind) (hall : ∀ x ∈ ind, k ≤ x) : marginOf ind = k := by
  cases ind with
  | nil => simp at hk
  | cons a as =>
    obtain ⟨h1, h2⟩ := foldl_min_spec as a
    simp only [marginOf]
    exact Nat.le_antisymm (h2 k hk) (hall _ h1)

theorem dedentLines_eq (doc : Str) :
    dedentLines doc =
      let ls1 := (splitNL doc).map (fun l => if isBlank l then [] else l)
      ls1.map (fun l => l.drop (marginOf ((ls1.filter (fun l => !l.isEmpty)).map leadSp))) := by
  rfl


/-- what `textwrap.dedent(...).split('\n')` returns for a rendered docstring: the empty piece
before the first newline, the lines without their indentation, the (blank) last piece -/
theorem dedent_render (k : Nat) (E : List Str) (hE : E ≠ []) (hN : Norm E) :
    dedentLines (render k E) = [] :: (E ++ [[]]) := by
  obtain ⟨hnl, hbl, hmin⟩ := hN
  let g : Str → Str := fun e => if isBlank e then [] else spaces k ++ e
  have hls1 : (splitNL (render k E)).map (fun l => if isBlank l then [] else l) = [] :: (E.map g ++ [[]]) := by
    rw [splitNL_render k E hE hnl]
    simp only [List.map_cons, List.map_append, List.map_map, List.map_nil, isBlank_nil, isBlank_spaces, if_true]
    congr 2
    apply List.map_congr_left
    intro e _
    simp only [Function.comp, isBlank_spaces_append, g]
  rw [dedentLines_eq]
  simp only [hls1]
  generalize hM : marginOf ((([] :: (E.map g ++ [[]])).filter (fun l => !l.isEmpty)).map leadSp) = M
  have hdrop : ∀ e ∈ E, (g e).drop M = e := by
    rcases hmin with hall | ⟨e0, he0, hb0, hl0⟩
    · intro e he
      have : g e = [] := by simp only [g, hall e he, if_true]
      rw [this, hbl e he (hall e he)]; simp
    · have hMk : M = k := by
        rw [← hM]
        apply marginOf_eq
        · simp only [List.mem_map, List.mem_filter]
          refine ⟨spaces k ++ e0, ⟨?_, ?_⟩, ?_⟩
          · simp only [List.mem_cons, List.mem_append, List.mem_map]
            right; left
            exact ⟨e0, he0, by simp only [g, hb0]; simp⟩
          · have : e0 ≠ [] := by intro h; rw [h, isBlank_nil] at hb0; cases hb0
            cases e0 with
            | nil => exact absurd rfl this
            | cons c cs => simp [spaces]
          · rw [leadSp_spaces_append, hl0]; simp
        · intro x hx
          simp only [List.mem_map, List.mem_filter] at hx
          obtain ⟨l, ⟨hl, hne⟩, rfl⟩ := hx
          simp only [List.mem_cons, List.mem_append, List.mem_map, List.mem_nil_iff, or_false] at hl
          rcases hl with rfl | ⟨e, he, rfl⟩ | rfl
          · simp at hne
          · by_cases hb : isBlank e = true
            · simp [g, hb] at hne
            · have hb' : isBlank e = false := by simpa using hb
              simp only [g, hb', Bool.false_eq_true, if_false, leadSp_spaces_append]; omega
          · simp at hne
      intro e he
      rw [hMk]
      by_cases hb : isBlank e = true
      · simp only [g, hb, if_true]; rw [hbl e he hb]; simp
      · have hb' : isBlank e = false := by simpa using hb
        simp only [g, hb', Bool.false_eq_true, if_false, drop_spaces_append]
  simp only [List.map_cons, List.map_append, List.map_map, List.map_nil, List.drop_nil]
  congr 2
  have : E.map ((fun l => List.drop M l) ∘ g) = E.map id := by
    apply List.map_congr_left
    intro e he
    simp only [Function.comp, id, hdrop e he]
  simpa using this

theorem docLines_render (k : Nat) (E : List Str) (hE : E ≠ []) (hN : Norm E) :
    docLines (render k E) = E := by
  simp only [docLines, dedent_render k E hE hN, isBlank_nil, if_true]
  have : (E ++ [[]]).getLast? = some [] := by simp
  simp only [this, isBlank_nil, if_true, List.dropLast_concat]


/-! ### what escaping does: it only inserts backslashes directly before quotes -/

inductive Ins : Str → Str → Prop
  | nil : Ins [] []
  | keep (c : Char) {s s' : Str} : Ins s s' → Ins (c :: s) (c :: s')
  | esc {s s' : Str} : Ins s s' → Ins ('"' :: s) ('\\' :: '"' :: s')

theorem ins_escGo : ∀ (s : Str) (st : Option Nat), Ins s (escGo st s)
  | [], st => by simp [escGo]; exact Ins.nil
  | c :: cs, none => by rw [escGo_none]; exact Ins.keep c (ins_escGo cs _)
  | c :: cs, some k => by
    by_cases hq : c = '"'
    · subst hq
      by_cases h3 : k + 1 = 3 ∨ cs = []
      · rw [escGo_quote_esc _ _ h3]; exact Ins.esc (ins_escGo cs _)
      · rw [escGo_quote_plain _ _ h3]; exact Ins.keep _ (ins_escGo cs _)
    · by_cases hb : c = '\\'
      · subst hb; rw [escGo_bs]; exact Ins.keep _ (ins_escGo cs _)
      · rw [escGo_other _ _ _ hq hb]; exact Ins.keep _ (ins_escGo cs _)

theorem ins_nil_left {x : Str} (h : Ins [] x) : x = [] := by cases h; rfl

theorem ins_peel : ∀ (l r x : Str), '\n' ∉ l → Ins (l ++ '\n' :: r) x →
    ∃ e x', x = e ++ '\n' :: x' ∧ Ins l e ∧ Ins r x'
  | [], r, x, _, h => by
    cases h with
    | keep c h' => exact ⟨[], _, rfl, Ins.nil, h'⟩
  | c :: cs, r, x, hn, h => by
    simp only [List.mem_cons, not_or] at hn
    cases h with
    | keep c h' =>
      obtain ⟨e, x', rfl, h1, h2⟩ := ins_peel cs r _ hn.2 h'
      exact ⟨c :: e, x', rfl, Ins.keep c h1, h2⟩
    | esc h' =>
      obtain ⟨e, x', rfl, h1, h2⟩ := ins_peel cs r _ hn.2 h'
      exact ⟨'\\' :: '"' :: e, x', rfl, Ins.esc h1, h2⟩

theorem ins_spaces_prefix : ∀ (k : Nat) (l m : Str), Ins (spaces k ++ l) m → ∃ e, m = spaces k ++ e ∧ Ins l e
  | 0, l, m, h => ⟨m, by simp [spaces], by simpa [spaces] using h⟩
  | k + 1, l, m, h => by
    have hs : spaces (k + 1) = ' ' :: spaces k := by simp [spaces, List.replicate_succ]
    rw [hs] at h
    cases h with
    | keep c h' =>
      obtain ⟨e, rfl, he⟩ := ins_spaces_prefix k l _ h'
      exact ⟨e, by rw [hs]; rfl, he⟩

theorem ins_spaces (k : Nat) (x : Str) (h : Ins (spaces k) x) : x = spaces k := by
  have h' : Ins (spaces k ++ []) x := by simpa using h
  obtain ⟨e, rfl, he⟩ := ins_spaces_prefix k [] x h'
  rw [ins_nil_left he]; simp

/-- line-wise `Ins` -/
inductive InsL : List Str → List Str → Prop
  | nil : InsL [] []
  | cons {l e : Str} {L E : List Str} : Ins l e → InsL L E → InsL (l :: L) (e :: E)

def body (k : Nat) (L : List Str) : Str :=
  spaces k ++ joinLines ('\n' :: spaces k) L ++ '\n' :: spaces k

theorem render_eq (k : Nat) (L : List Str) : render k L = '\n' :: body k L := by
  simp [render, body]

theorem body_one (k : Nat) (e : Str) : body k [e] = (spaces k ++ e) ++ '\n' :: spaces k := by
  simp [body, joinLines]

theorem body_cons (k : Nat) (e e2 : Str) (es : List Str) :
    body k (e :: e2 :: es) = (spaces k ++ e) ++ '\n' :: body k (e2 :: es) := by
  simp [body, joinLines]

theorem ins_body (k : Nat) : ∀ (L : List Str) (x : Str), L ≠ [] → (∀ l ∈ L, '\n' ∉ l) → Ins (body k L) x →
    ∃ E, x = body k E ∧ InsL L E
  | [], _, h, _, _ => absurd rfl h
  | [l], x, _, hn, h => by
    rw [body_one] at h
    have h1 : '\n' ∉ spaces k ++ l := by
      simp only [List.mem_append, not_or]; exact ⟨spaces_noNL k, hn l (by simp)⟩
    obtain ⟨e', x', rfl, he, hx⟩ := ins_peel _ _ _ h1 h
    obtain ⟨e, rfl, he2⟩ := ins_spaces_prefix k l e' he
    rw [ins_spaces k x' hx]
    exact ⟨[e], by rw [body_one], InsL.cons he2 InsL.nil⟩
  | l :: l2 :: ls, x, _, hn, h => by
    rw [body_cons] at h
    have h1 : '\n' ∉ spaces k ++ l := by
      simp only [List.mem_append, not_or]; exact ⟨spaces_noNL k, hn l (by simp)⟩
    obtain ⟨e', x', rfl, he, hx⟩ := ins_peel _ _ _ h1 h
    obtain ⟨e, rfl, he2⟩ := ins_spaces_prefix k l e' he
    obtain ⟨E, rfl, hE⟩ := ins_body k (l2 :: ls) x' (by simp) (fun y hy => hn y (List.mem_cons_of_mem _ hy)) hx
    cases E with
    | nil => cases hE
    | cons e2 es => exact ⟨e :: e2 :: es, by rw [body_cons], InsL.cons he2 hE⟩

theorem ins_render (k : Nat) (L : List Str) (x : Str) (hL : L ≠ []) (hn : ∀ l ∈ L, '\n' ∉ l)
    (h : Ins (render k L) x) : ∃ E, x = render k E ∧ InsL L E := by
  rw [render_eq] at h
  cases h with
  | keep c h' =>
    obtain ⟨E, rfl, hE⟩ := ins_body k L _ hL hn h'
    exact ⟨E, by rw [render_eq], hE⟩


/-! ### the properties of lines that escaping preserves -/

theorem isBlank_cons (c : Char) (s : Str) : isBlank (c :: s) = (c == ' ' && isBlank s) := by
  simp [isBlank]

theorem leadSp_cons (c : Char) (s : Str) : leadSp (c :: s) = if c = ' ' then leadSp s + 1 else 0 := by
  by_cases h : c = ' ' <;> simp [leadSp, List.takeWhile_cons, h]

theorem ins_props {l e : Str} (h : Ins l e) :
    ('\n' ∉ l → '\n' ∉ e) ∧ isBlank e = isBlank l ∧ (isBlank l = true → e = l) ∧ leadSp e = leadSp l := by
  induction h with
  | nil => simp
  | keep c h ih =>
    obtain ⟨a, b, c', d⟩ := ih
    refine ⟨?_, ?_, ?_, ?_⟩
    · intro hn
      simp only [List.mem_cons, not_or] at hn ⊢
      exact ⟨hn.1, a hn.2⟩
    · simp only [isBlank_cons, b]
    · intro hb
      simp only [isBlank_cons, Bool.and_eq_true] at hb
      rw [c' hb.2]
    · simp only [leadSp_cons, d]
  | esc h ih =>
    obtain ⟨a, b, c', d⟩ := ih
    refine ⟨?_, ?_, ?_, ?_⟩
    · intro hn
      simp only [List.mem_cons, not_or] at hn ⊢
      exact ⟨by decide, by decide, a hn.2⟩
    · simp [isBlank_cons]
    · intro hb; simp [isBlank_cons] at hb
    · simp [leadSp_cons]

theorem insL_right {L E : List Str} (h : InsL L E) : ∀ e ∈ E, ∃ l ∈ L, Ins l e := by
  induction h with
  | nil => intro e he; simp at he
  | cons h1 _ ih =>
    intro e he
    rcases List.mem_cons.mp he with rfl | he
    · exact ⟨_, by simp, h1⟩
    · obtain ⟨l, hl, hi⟩ := ih e he
      exact ⟨l, by simp [hl], hi⟩

theorem insL_left {L E : List Str} (h : InsL L E) : ∀ l ∈ L, ∃ e ∈ E, Ins l e := by
  induction h with
  | nil => intro l hl; simp at hl
  | cons h1 _ ih =>
    intro l hl
    rcases List.mem_cons.mp hl with rfl | hl
    · exact ⟨_, by simp, h1⟩
    · obtain ⟨e, he, hi⟩ := ih l hl
      exact ⟨e, by simp [he], hi⟩

theorem insL_ne_nil {L E : List Str} (h : InsL L E) (hL : L ≠ []) : E ≠ [] := by
  cases h with
  | nil => exact absurd rfl hL
  | cons _ _ => simp

theorem norm_transfer {L E : List Str} (h : InsL L E) (hN : Norm L) : Norm E := by
  obtain ⟨h1, h2, h3⟩ := hN
  refine ⟨?_, ?_, ?_⟩
  · intro e he
    obtain ⟨l, hl, hi⟩ := insL_right h e he
    exact (ins_props hi).1 (h1 l hl)
  · intro e he hb
    obtain ⟨l, hl, hi⟩ := insL_right h e he
    obtain ⟨_, pb, pe, _⟩ := ins_props hi
    have hbl : isBlank l = true := by rw [← pb]; exact hb
    rw [pe hbl]; exact h2 l hl hbl
  · rcases h3 with hall | ⟨l, hl, hb, hs⟩
    · left
      intro e he
      obtain ⟨l, hl, hi⟩ := insL_right h e he
      rw [(ins_props hi).2.1]; exact hall l hl
    · right
      obtain ⟨e, he, hi⟩ := insL_left h l hl
      obtain ⟨_, pb, _, ps⟩ := ins_props hi
      exact ⟨e, he, by rw [pb]; exact hb, by rw [ps]; exact hs⟩

/-- the heart of the stability: the escaped contents written for normalised lines are read back,
dedented and stripped to lines that render to exactly the same contents -/
theorem render_docLines_escape (k : Nat) (L : List Str) (hL : L ≠ []) (hN : Norm L) :
    render k (docLines (escapeDoc (render k L))) = escapeDoc (render k L) := by
  obtain ⟨E, hx, hE⟩ := ins_render k L _ hL hN.1 (ins_escGo (render k L) (some 0))
  have hx' : escapeDoc (render k L) = render k E := hx
  rw [hx', docLines_render k E (insL_ne_nil hE hL) (norm_transfer hE hN)]


/-! ### the lines `_format_docstring` computes from any text are normalised -/

theorem splitNL_mem_noNL : ∀ (s : Str), ∀ l ∈ splitNL s, '\n' ∉ l
  | [], l, h => by simp [splitNL] at h; subst h; simp
  | c :: cs, l, h => by
    by_cases hc : c = '\n'
    · subst hc
      simp only [splitNL, if_true, List.mem_cons] at h
      rcases h with rfl | h
      · simp
      · exact splitNL_mem_noNL cs l h
    · obtain ⟨l0, ls, h1, h2⟩ := splitNL_cons_ne c cs hc
      rw [h2] at h
      have ih := splitNL_mem_noNL cs
      rw [h1] at ih
      rcases List.mem_cons.mp h with rfl | h
      · simp only [List.mem_cons, not_or]
        exact ⟨fun e => hc e.symm, ih l0 (by simp)⟩
      · exact ih l (by simp [h])

theorem marginOf_spec (ind : List Nat) (h : ind ≠ []) :
    marginOf ind ∈ ind ∧ ∀ x ∈ ind, marginOf ind ≤ x := by
  cases ind with
  | nil => exact absurd rfl h
  | cons a as => exact foldl_min_spec as a

theorem drop_nonblank : ∀ (m : Nat) (l : Str), isBlank l = false → m ≤ leadSp l →
    isBlank (l.drop m) = false ∧ leadSp (l.drop m) = leadSp l - m
  | 0, l, hb, _ => by simp [hb]
  | m + 1, [], hb, _ => by simp [isBlank_nil] at hb
  | m + 1, c :: s, hb, hm => by
    rw [leadSp_cons] at hm
    by_cases hc : c = ' '
    · subst hc
      simp only [if_true] at hm
      have hb' : isBlank s = false := by simpa [isBlank_cons] using hb
      have := drop_nonblank m s hb' (by omega)
      simp only [List.drop_succ_cons, leadSp_cons, if_true]
      exact ⟨this.1, by rw [this.2]; omega⟩
    · simp [hc] at hm

theorem norm_dedent (d : Str) : Norm (dedentLines d) := by
  rw [dedentLines_eq]
  simp only
  generalize hls1 : (splitNL d).map (fun l => if isBlank l then [] else l) = ls1
  generalize hM : marginOf ((ls1.filter (fun l => !l.isEmpty)).map leadSp) = M
  -- every element of ls1 is [] or a non-blank line of d
  have hel : ∀ l ∈ ls1, l = [] ∨ (isBlank l = false ∧ '\n' ∉ l) := by
    intro l hl
    rw [← hls1] at hl
    simp only [List.mem_map] at hl
    obtain ⟨l0, hl0, rfl⟩ := hl
    by_cases hb : isBlank l0 = true
    · left; simp [hb]
    · right
      have hb' : isBlank l0 = false := by simpa using hb
      simp only [hb', Bool.false_eq_true, if_false]
      exact ⟨trivial, splitNL_mem_noNL d l0 hl0⟩
  have hne_of_nb : ∀ l : Str, isBlank l = false → l ≠ [] := by
    intro l hb h; rw [h, isBlank_nil] at hb; cases hb
  have hMle : ∀ l ∈ ls1, isBlank l = false → M ≤ leadSp l := by
    intro l hl hb
    have hmem : leadSp l ∈ (ls1.filter (fun l => !l.isEmpty)).map leadSp := by
      simp only [List.mem_map, List.mem_filter]
      exact ⟨l, ⟨hl, by simp [hne_of_nb l hb]⟩, rfl⟩
    have := (marginOf_spec _ (List.ne_nil_of_mem hmem)).2 _ hmem
    rw [hM] at this; exact this
  refine ⟨?_, ?_, ?_⟩
  · intro e he
    simp only [List.mem_map] at he
    obtain ⟨l, hl, rfl⟩ := he
    rcases hel l hl with rfl | ⟨_, hn⟩
    · simp
    · exact fun h => hn (List.mem_of_mem_drop h)
  · intro e he hbe
    simp only [List.mem_map] at he
    obtain ⟨l, hl, rfl⟩ := he
    rcases hel l hl with rfl | ⟨hb, _⟩
    · simp
    · have := (drop_nonblank M l hb (hMle l hl hb)).1
      rw [this] at hbe; cases hbe
  · by_cases hind : (ls1.filter (fun l => !l.isEmpty)).map leadSp = []
    · left
      intro e he
      simp only [List.mem_map] at he
      obtain ⟨l, hl, rfl⟩ := he
      rcases hel l hl with rfl | ⟨hb, _⟩
      · simp [isBlank_nil]
      · exfalso
        have : leadSp l ∈ (ls1.filter (fun l => !l.isEmpty)).map leadSp := by
          simp only [List.mem_map, List.mem_filter]
          exact ⟨l, ⟨hl, by simp [hne_of_nb l hb]⟩, rfl⟩
        rw [hind] at this; simp at this
    · right
      have hsp := (marginOf_spec _ hind).1
      rw [hM] at hsp
      simp only [List.mem_map, List.mem_filter] at hsp
      obtain ⟨l0, ⟨hl0, hne0⟩, hlead⟩ := hsp
      have hb0 : isBlank l0 = false := by
        rcases hel l0 hl0 with rfl | ⟨hb, _⟩
        · simp at hne0
        · exact hb
      have := drop_nonblank M l0 hb0 (by omega)
      exact ⟨l0.drop M, by simp only [List.mem_map]; exact ⟨l0, hl0, rfl⟩, this.1, by rw [this.2]; omega⟩

theorem norm_tail (l : Str) (ls : List Str) (h : Norm (l :: ls)) (hb : isBlank l = true) : Norm ls := by
  obtain ⟨h1, h2, h3⟩ := h
  refine ⟨fun e he => h1 e (by simp [he]), fun e he => h2 e (by simp [he]), ?_⟩
  rcases h3 with hall | ⟨e, he, hbe, hs⟩
  · exact .inl (fun e he => hall e (by simp [he]))
  · right
    rcases List.mem_cons.mp he with rfl | he
    · rw [hb] at hbe; cases hbe
    · exact ⟨e, he, hbe, hs⟩

theorem dropLast_decomp : ∀ (ls : List Str) (z : Str), ls.getLast? = some z → ls = ls.dropLast ++ [z]
  | [], z, h => by simp at h
  | [a], z, h => by simp at h; simp [h]
  | a :: b :: r, z, h => by
    have h' : (b :: r).getLast? = some z := by simpa [List.getLast?_cons_cons] using h
    have ih := dropLast_decomp (b :: r) z h'
    simp only [List.dropLast_cons_cons, List.cons_append]
    rw [← ih]

theorem norm_dropLast (ls : List Str) (z : Str) (h : Norm ls) (hz : ls.getLast? = some z)
    (hb : isBlank z = true) : Norm ls.dropLast := by
  obtain ⟨h1, h2, h3⟩ := h
  have hdecomp : ls = ls.dropLast ++ [z] := dropLast_decomp ls z hz
  have hmem : ∀ e ∈ ls.dropLast, e ∈ ls := fun e he => by rw [hdecomp]; simp [he]
  refine ⟨fun e he => h1 e (hmem e he), fun e he => h2 e (hmem e he), ?_⟩
  rcases h3 with hall | ⟨e, he, hbe, hs⟩
  · exact .inl (fun e he => hall e (hmem e he))
  · right
    rw [hdecomp] at he
    rcases List.mem_append.mp he with he | he
    · exact ⟨e, he, hbe, hs⟩
    · simp at he; subst he; rw [hb] at hbe; cases hbe

theorem norm_docLines (d : Str) : Norm (docLines d) := by
  have hN := norm_dedent d
  simp only [docLines]
  cases hdl : dedentLines d with
  | nil => exact ⟨by simp, by simp, .inl (by simp)⟩
  | cons l ls =>
    rw [hdl] at hN
    simp only
    have hN1 : Norm (if isBlank l = true then ls else l :: ls) := by
      by_cases hb : isBlank l = true
      · simp only [hb, if_true]; exact norm_tail l ls hN hb
      · simp only [hb, if_false]; exact hN
    generalize (if isBlank l = true then ls else l :: ls) = ls1 at hN1
    cases hlast : ls1.getLast? with
    | none => simp only; exact hN1
    | some z =>
      simp only
      by_cases hb : isBlank z = true
      · simp only [hb, if_true]; exact norm_dropLast ls1 z hN1 hlast hb
      · simp only [hb, if_false]; exact hN1

/-- **Stability of a formatted docstring**: formatting the contents that `_format_docstring`
wrote (what the parser hands back) at the same indentation gives the same contents — for every
documentation text and every indentation. -/
theorem fmtDoc_idem (k : Nat) (d : Str) : fmtDoc k (fmtDoc k d) = fmtDoc k d := by
  rw [fmtDoc_eq k d]
  -- an empty line list renders like one empty line
  have hr : ∃ L, L ≠ [] ∧ Norm L ∧ render k (docLines d) = render k L := by
    by_cases he : docLines d = []
    · exact ⟨[[]], by simp, ⟨by simp, by simp, .inl (by simp [isBlank_nil])⟩, by simp [he, render, joinLines]⟩
    · exact ⟨docLines d, he, norm_docLines d, rfl⟩
  obtain ⟨L, hL, hN, hr⟩ := hr
  rw [hr, fmtDoc_eq, render_docLines_escape k L hL hN]
  exact escapeDoc_idem' _

end Verif.C15
