/- C15 — token-level round trip: parse (toks x ++ rest) = ok (canon x, rest) -/
import Verif.C15.Parse
import Verif.C15.Canon

namespace Verif.C15
set_option linter.unusedSimpArgs false
set_option linter.unusedVariables false

/-! ### pass-through (folded) feature values -/

def isPass : Val → Bool
  | .term (.avm none (.cons _ _ .nil)) => true
  | _ => false

def chainOf : Val → List Str
  | .term (.avm none (.cons k2 v2 .nil)) => k2 :: chainOf v2
  | _ => []

def leafOf : Val → Val
  | .term (.avm none (.cons _ v2 .nil)) => leafOf v2
  | v => v

theorem pass_or (v : Val) : (∃ k2 v2, v = .term (.avm none (.cons k2 v2 .nil))) ∨ isPass v = false := by
  by_cases h : ∃ k2 v2, v = .term (.avm none (.cons k2 v2 .nil))
  · exact .inl h
  · right
    apply isPass.eq_2
    intro k v2 e
    exact h ⟨k, v2, e⟩

theorem leafOf_nonpass (v : Val) (h : isPass v = false) : leafOf v = v := by
  apply leafOf.eq_2
  intro k2 v2 e; subst e; simp [isPass] at h

theorem chainOf_nonpass (v : Val) (h : isPass v = false) : chainOf v = [] := by
  apply chainOf.eq_2
  intro k2 v2 e; subst e; simp [isPass] at h

theorem toksFeat_nonpass (pre : List Str) (k : Str) (v : Val) (h : isPass v = false) :
    toksFeat pre k v = pathToks (pre ++ [k]) ++ toksVal v := by
  apply toksFeat.eq_2
  intro k2 v2 e; subst e; simp [isPass] at h

theorem leafOf_pass (k2 : Str) (v2 : Val) : leafOf (.term (.avm none (.cons k2 v2 .nil))) = leafOf v2 := by
  simp [leafOf]

theorem chainOf_pass (k2 : Str) (v2 : Val) :
    chainOf (.term (.avm none (.cons k2 v2 .nil))) = k2 :: chainOf v2 := by
  simp [chainOf]

theorem toksFeat_pass (pre : List Str) (k k2 : Str) (v2 : Val) :
    toksFeat pre k (.term (.avm none (.cons k2 v2 .nil))) = toksFeat (pre ++ [k]) k2 v2 := by
  simp [toksFeat]

/-- tokens of one feature entry: the dotted path through the folded AVMs, then the value -/
theorem toksFeat_eq : ∀ (n : Nat) (v : Val), sizeOf v ≤ n → ∀ (pre : List Str) (k : Str),
    toksFeat pre k v = pathToks (pre ++ k :: chainOf v) ++ toksVal (leafOf v) := by
  intro n
  induction n with
  | zero => intro v h; cases v <;> simp at h
  | succ n ih =>
    intro v h pre k
    rcases pass_or v with ⟨k2, v2, rfl⟩ | hnp
    · rw [toksFeat_pass, leafOf_pass, chainOf_pass, ih v2 (by simp at h; omega)]
      simp
    · rw [toksFeat_nonpass _ _ _ hnp, leafOf_nonpass _ hnp, chainOf_nonpass _ hnp]


/-! ### token-shape facts -/

def Start : Tok → Bool
  | .doc _ | .str _ | .regex _ | .coref _ | .ident _ | .lbrack | .ldiff | .langle => true
  | _ => false

def startsTerm : List Tok → Prop
  | t :: _ => Start t = true
  | [] => False

def noDot : List Tok → Prop
  | .dot :: _ => False
  | _ => True

theorem starts_noAmp : ∀ X : List Tok, startsTerm X → noAmp X
  | [], h => by simp [startsTerm] at h
  | t :: r, h => by cases t <;> simp_all [startsTerm, Start, noAmp]

theorem starts_noDot : ∀ X : List Tok, startsTerm X → noDot X
  | [], h => by simp [startsTerm] at h
  | t :: r, h => by cases t <;> simp_all [startsTerm, Start, noDot]

theorem toksTerm_starts (t : Term) (X : List Tok) : startsTerm (toksTerm t ++ X) := by
  cases t with
  | ident d s => cases d <;> simp [toksTerm, docTok, startsTerm, Start]
  | str d s => cases d <;> simp [toksTerm, docTok, startsTerm, Start]
  | regex d s => cases d <;> simp [toksTerm, docTok, startsTerm, Start]
  | coref d s => cases d <;> simp [toksTerm, docTok, startsTerm, Start]
  | avm d fs => cases d <;> simp [toksTerm, docTok, startsTerm, Start]
  | cons d vs e => cases d <;> simp [toksTerm, docTok, startsTerm, Start]
  | diff d vs => cases d <;> simp [toksTerm, docTok, startsTerm, Start]

theorem toksVal_starts (v : Val) (h : wfVal v = true) (X : List Tok) : startsTerm (toksVal v ++ X) := by
  cases v with
  | term t => simp only [toksVal]; exact toksTerm_starts t X
  | conj ts =>
    cases ts with
    | nil => simp [wfVal] at h
    | cons t ts =>
      simp only [toksVal, toksTerms, List.append_assoc]
      exact toksTerm_starts t _

def brkTok (diff : Bool) : Tok := if diff then .rdiff else .rangle

theorem parseList_start (n : Nat) (diff : Bool) : ∀ X : List Tok, startsTerm X →
    parseList (n + 1) diff X = parseListLoop n diff X
  | [], h => by simp [startsTerm] at h
  | t :: r, h => by cases t <;> simp_all [startsTerm, Start, parseList, isBrk]

theorem parseListLoop_start (n : Nat) (diff : Bool) : ∀ X : List Tok, startsTerm X →
    parseListLoop (n + 1) diff X = parseListItem n diff X
  | [], h => by simp [startsTerm] at h
  | t :: r, h => by cases t <;> simp_all [startsTerm, Start, parseListLoop]

/-- `.A.B.C` after the first name of a path -/
def dotToks : List Str → List Tok
  | [] => []
  | c :: cs => .dot :: .ident c :: dotToks cs

theorem pathToks_cons : ∀ (p : List Str) (k : Str), pathToks (k :: p) = .ident k :: dotToks p
  | [], k => by simp [pathToks, dotToks]
  | c :: cs, k => by simp [pathToks, dotToks, pathToks_cons cs c]

theorem parsePath_dots : ∀ (p acc : List Str) (Y : List Tok), noDot Y →
    parsePath acc (dotToks p ++ Y) = .ok (acc ++ p, Y)
  | [], acc, Y, h => by
    cases Y with
    | nil => simp [dotToks, parsePath]
    | cons t r => cases t <;> simp_all [dotToks, parsePath, noDot]
  | c :: cs, acc, Y, h => by
    simp only [dotToks, List.cons_append, parsePath]
    rw [parsePath_dots cs (acc ++ [c]) Y h]
    simp

/-! ### list conversions -/

theorem Terms.ofList_toList : ∀ ts : Terms, Terms.ofList ts.toList = ts
  | .nil => by simp [Terms.toList, Terms.ofList]
  | .cons t ts => by simp [Terms.toList, Terms.ofList, Terms.ofList_toList ts]

theorem Items.ofList_toList : ∀ vs : Items, Items.ofList vs.toList = vs
  | .nil => by simp [Items.toList, Items.ofList]
  | .cons v vs => by simp [Items.toList, Items.ofList, Items.ofList_toList vs]

def canonList : Val → List Term
  | .term t => [canonTerm t]
  | .conj ts => (canonTerms ts).toList

theorem valOfList_canonList (v : Val) : valOfList (canonList v) = canonVal v := by
  cases v with
  | term t => simp [canonList, valOfList, canonVal]
  | conj ts =>
    cases ts with
    | nil => simp [canonList, valOfList, canonVal, canonTerms, Terms.toList, Terms.ofList]
    | cons t ts =>
      cases ts with
      | nil => simp [canonList, valOfList, canonVal, canonTerms, Terms.toList]
      | cons t2 ts =>
        have h := Terms.ofList_toList (canonTerms (.cons t (.cons t2 ts)))
        simp only [canonTerms, Terms.toList] at h
        simp [canonList, valOfList, canonVal, canonTerms, Terms.toList, h]


/-! ### statements (fuel: every n from an explicit bound, linear in the number of tokens, on) -/

def PT (t : Term) : Prop :=
  ∃ n0, n0 ≤ 6 * (toksTerm t).length + 1 ∧ ∀ n, n0 ≤ n → ∀ rest, parseTerm n (toksTerm t ++ rest) = .ok (canonTerm t, rest)

def PTs (t : Term) (ts : Terms) : Prop :=
  ∃ n0, n0 ≤ 6 * ((toksTerm t).length + (toksAmp ts).length) + 2 ∧ ∀ n, n0 ≤ n → ∀ rest, noAmp rest →
    parseTerms n (toksTerm t ++ (toksAmp ts ++ rest)) = .ok (canonTerm t :: (canonTerms ts).toList, rest)

def PV (v : Val) : Prop :=
  ∃ n0, n0 ≤ 6 * (toksVal v).length + 2 ∧ ∀ n, n0 ≤ n → ∀ rest, noAmp rest →
    parseTerms n (toksVal v ++ rest) = .ok (canonList v, rest)

theorem pterms_nil (t : Term) (ht : PT t) : PTs t .nil := by
  obtain ⟨n1, b1, h1⟩ := ht
  refine ⟨n1 + 1, by simp only [toksAmp, List.length_nil]; omega, fun n hn rest hr => ?_⟩
  obtain ⟨m, rfl⟩ : ∃ m, n = m + 1 := ⟨n - 1, by omega⟩
  rw [parseTerms]
  simp only [toksAmp, List.nil_append, h1 m (by omega) rest, canonTerms, Terms.toList]
  cases rest with
  | nil => rfl
  | cons a r => cases a <;> simp_all [noAmp]

theorem pterms_cons (t t2 : Term) (ts : Terms) (ht : PT t) (hts : PTs t2 ts) : PTs t (.cons t2 ts) := by
  obtain ⟨n1, b1, h1⟩ := ht
  obtain ⟨n2, b2, h2⟩ := hts
  refine ⟨n1 + n2 + 1, by simp only [toksAmp, List.length_cons, List.length_append]; omega,
    fun n hn rest hr => ?_⟩
  obtain ⟨m, rfl⟩ : ∃ m, n = m + 1 := ⟨n - 1, by omega⟩
  rw [parseTerms]
  simp only [toksAmp, List.cons_append, List.append_assoc, h1 m (by omega) _, h2 m (by omega) rest hr,
    canonTerms, Terms.toList]

theorem pval_term (t : Term) (ht : PT t) : PV (.term t) := by
  obtain ⟨n1, b1, h1⟩ := pterms_nil t ht
  refine ⟨n1, by simpa [toksVal, toksAmp] using b1, fun n hn rest hr => ?_⟩
  have := h1 n hn rest hr
  simpa [toksVal, toksAmp, canonList, canonTerms, Terms.toList] using this

theorem pval_conj (t : Term) (ts : Terms) (h : PTs t ts) : PV (.conj (.cons t ts)) := by
  obtain ⟨n1, b1, h1⟩ := h
  refine ⟨n1, by simpa [toksVal, toksTerms] using b1, fun n hn rest hr => ?_⟩
  have := h1 n hn rest hr
  simpa [toksVal, toksTerms, canonList, canonTerms, Terms.toList] using this


/-! ### lists -/

def pendOf : End → PEnd
  | .closed => .none
  | .opn => .opn
  | .dotted w => .dotted (canonVal w)

/-- what the list loop needs to know about the end of the list -/
def PE : End → Prop
  | .dotted w => PV w
  | _ => True

def PL (diff : Bool) (v : Val) (vs : Items) (e : End) : Prop :=
  ∃ n0, n0 ≤ 6 * ((toksVal v).length + (toksItemsC vs).length + (toksEnd false e).length) + 3 ∧
    ∀ n, n0 ≤ n → ∀ rest,
    parseListItem n diff (toksVal v ++ (toksItemsC vs ++ (toksEnd false e ++ brkTok diff :: rest)))
      = .ok (canonVal v :: (canonItems vs).toList, pendOf e, rest)

theorem plist_last (diff : Bool) (v : Val) (e : End) (hv : PV v) (he : PE e) : PL diff v .nil e := by
  obtain ⟨n1, b1, h1⟩ := hv
  cases e with
  | closed =>
    refine ⟨n1 + 1, by simp only [toksItemsC, toksEnd, List.length_nil]; omega, fun n hn rest => ?_⟩
    obtain ⟨m, rfl⟩ : ∃ m, n = m + 1 := ⟨n - 1, by omega⟩
    rw [parseListItem]
    have hp := h1 m (by omega) (brkTok diff :: rest) (by cases diff <;> simp [brkTok, noAmp])
    simp only [toksItemsC, toksEnd, List.nil_append, hp, valOfList_canonList, canonItems, Items.toList, pendOf]
    cases diff <;> simp [brkTok, isBrk]
  | opn =>
    refine ⟨n1 + 2, by simp [toksItemsC, toksEnd]; omega, fun n hn rest => ?_⟩
    obtain ⟨m, rfl⟩ : ∃ m, n = m + 2 := ⟨n - 2, by omega⟩
    rw [parseListItem]
    have hp := h1 (m + 1) (by omega) (.comma :: .ellipsis :: brkTok diff :: rest) (by simp [noAmp])
    simp only [toksItemsC, toksEnd, List.nil_append, List.cons_append, Bool.false_eq_true, if_false, hp,
      valOfList_canonList, canonItems, Items.toList, pendOf, parseListLoop]
    cases diff <;> simp [brkTok, isBrk]
  | dotted w =>
    obtain ⟨n2, b2, h2⟩ := he
    refine ⟨n1 + n2 + 1, by simp only [toksItemsC, toksEnd, List.length_nil, List.length_cons]; omega,
      fun n hn rest => ?_⟩
    obtain ⟨m, rfl⟩ : ∃ m, n = m + 1 := ⟨n - 1, by omega⟩
    rw [parseListItem]
    have hp := h1 m (by omega) (.dot :: (toksVal w ++ brkTok diff :: rest)) (by simp [noAmp])
    have hw := h2 m (by omega) (brkTok diff :: rest) (by cases diff <;> simp [brkTok, noAmp])
    simp only [toksItemsC, toksEnd, List.nil_append, List.cons_append, List.append_assoc, hp, hw,
      valOfList_canonList, canonItems, Items.toList, pendOf]
    cases diff <;> simp [brkTok, isBrk]

theorem plist_cons (diff : Bool) (v v2 : Val) (vs : Items) (e : End) (hv : PV v) (hw2 : wfVal v2 = true)
    (h2 : PL diff v2 vs e) : PL diff v (.cons v2 vs) e := by
  obtain ⟨n1, b1, h1⟩ := hv
  obtain ⟨n2, b2, h2⟩ := h2
  refine ⟨n1 + n2 + 2, by simp only [toksItemsC, List.length_cons, List.length_append]; omega,
    fun n hn rest => ?_⟩
  obtain ⟨m, rfl⟩ : ∃ m, n = m + 2 := ⟨n - 2, by omega⟩
  rw [parseListItem]
  have hp := h1 (m + 1) (by omega)
    (.comma :: (toksVal v2 ++ (toksItemsC vs ++ (toksEnd false e ++ brkTok diff :: rest)))) (by simp [noAmp])
  have hs := parseListLoop_start m diff _ (toksVal_starts v2 hw2 (toksItemsC vs ++ (toksEnd false e ++ brkTok diff :: rest)))
  simp only [toksItemsC, List.cons_append, List.append_assoc, hp, hs, h2 m (by omega) rest,
    valOfList_canonList, canonItems, Items.toList]

theorem mkCons_canon (d : Option Str) (L : List Val) (e : End) (hL : L ≠ []) (he : wfEnd false e = true) :
    mkCons d L (pendOf e) = .ok (.cons d (Items.ofList L) (canonEnd e)) := by
  cases e with
  | closed => simp [pendOf, mkCons, canonEnd]
  | opn => simp [pendOf, mkCons, canonEnd]
  | dotted w =>
    simp only [wfEnd, Bool.not_false, Bool.true_and, Bool.and_eq_true, Bool.not_eq_true'] at he
    obtain ⟨⟨_, h1⟩, h2⟩ := he
    cases L with
    | nil => exact absurd rfl hL
    | cons a l => simp [pendOf, mkCons, canonEnd, h1, h2]


theorem canonItems_cons_toList (v : Val) (vs : Items) :
    Items.ofList (canonVal v :: (canonItems vs).toList) = canonItems (.cons v vs) := by
  simp [Items.ofList, canonItems, Items.ofList_toList]

theorem pterm_leaf (t : Term) (h : isLeaf t = true) : PT t := by
  refine ⟨1, by omega, fun n hn rest => ?_⟩
  obtain ⟨m, rfl⟩ : ∃ m, n = m + 1 := ⟨n - 1, by omega⟩
  rw [parseTerm_leaf t h m rest]
  cases t <;> simp_all [canonTerm, isLeaf]

theorem pterm_cons_nil (d : Option Str) (e : End) (he : wfEnd true e = true) : PT (.cons d .nil e) := by
  refine ⟨3, by simp [toksTerm]; omega, fun n hn rest => ?_⟩
  obtain ⟨m, rfl⟩ : ∃ m, n = m + 3 := ⟨n - 3, by omega⟩
  cases e with
  | closed =>
    cases d <;>
      simp [toksTerm, toksItems, toksEnd, docTok, Items.isNil, parseTerm, parseList, isBrk, mkCons,
        Items.ofList, canonTerm, canonItems, canonEnd]
  | opn =>
    cases d <;>
      simp [toksTerm, toksItems, toksEnd, docTok, Items.isNil, parseTerm, parseList, parseListLoop, isBrk,
        mkCons, Items.ofList, canonTerm, canonItems, canonEnd]
  | dotted w => simp [wfEnd] at he

theorem pterm_cons_cons (d : Option Str) (v : Val) (vs : Items) (e : End) (hv : wfVal v = true)
    (he : wfEnd false e = true) (hl : PL false v vs e) : PT (.cons d (.cons v vs) e) := by
  obtain ⟨n1, b1, h1⟩ := hl
  refine ⟨n1 + 3, by simp [toksTerm, toksItems, Items.isNil]; omega, fun n hn rest => ?_⟩
  obtain ⟨m, rfl⟩ : ∃ m, n = m + 3 := ⟨n - 3, by omega⟩
  have hs := toksVal_starts v hv (toksItemsC vs ++ (toksEnd false e ++ brkTok false :: rest))
  have h := h1 m (by omega) rest
  have hmk := mkCons_canon d (canonVal v :: (canonItems vs).toList) e (by simp) he
  rw [canonItems_cons_toList] at hmk
  have e1 : parseList (m + 2) false (toksVal v ++ (toksItemsC vs ++ (toksEnd false e ++ brkTok false :: rest)))
      = .ok (canonVal v :: (canonItems vs).toList, pendOf e, rest) := by
    rw [parseList_start _ _ _ hs, parseListLoop_start _ _ _ hs, h]
  simp only [brkTok, Bool.false_eq_true, if_false] at e1
  cases d <;>
    simp [toksTerm, toksItems, docTok, Items.isNil, parseTerm, e1, hmk, canonTerm]

theorem pterm_diff_nil (d : Option Str) : PT (.diff d .nil) := by
  refine ⟨2, by simp [toksTerm]; omega, fun n hn rest => ?_⟩
  obtain ⟨m, rfl⟩ : ∃ m, n = m + 2 := ⟨n - 2, by omega⟩
  cases d <;>
    simp [toksTerm, toksItems, docTok, parseTerm, parseList, isBrk, Items.ofList, canonTerm, canonItems]

theorem pterm_diff_cons (d : Option Str) (v : Val) (vs : Items) (hv : wfVal v = true)
    (hl : PL true v vs .closed) : PT (.diff d (.cons v vs)) := by
  obtain ⟨n1, b1, h1⟩ := hl
  refine ⟨n1 + 3, by simp [toksTerm, toksItems, toksEnd] at b1 ⊢; omega, fun n hn rest => ?_⟩
  obtain ⟨m, rfl⟩ : ∃ m, n = m + 3 := ⟨n - 3, by omega⟩
  have hs := toksVal_starts v hv (toksItemsC vs ++ (toksEnd false .closed ++ brkTok true :: rest))
  have h := h1 m (by omega) rest
  have e1 : parseList (m + 2) true (toksVal v ++ (toksItemsC vs ++ (toksEnd false .closed ++ brkTok true :: rest)))
      = .ok (canonVal v :: (canonItems vs).toList, pendOf .closed, rest) := by
    rw [parseList_start _ _ _ hs, parseListLoop_start _ _ _ hs, h]
  simp only [brkTok, if_true, toksEnd, List.nil_append] at e1
  have e2 := canonItems_cons_toList v vs
  cases d <;>
    simp [toksTerm, toksItems, docTok, parseTerm, e1, e2, canonTerm]


/-! ### feature structures -/

theorem wf_pass (k2 : Str) (v2 : Val) (h : wfVal (.term (.avm none (.cons k2 v2 .nil))) = true) :
    upper k2 = k2 ∧ wfVal v2 = true := by
  simp [wfVal, wfTerm, wfFeats, keysOK, distinct, Feats.keys] at h
  exact ⟨h.1, h.2⟩

theorem wf_leaf_chain : ∀ (n : Nat) (v : Val), sizeOf v ≤ n → wfVal v = true →
    wfVal (leafOf v) = true ∧ (∀ c ∈ chainOf v, upper c = c) ∧
      mkNested (chainOf v) (canonVal (leafOf v)) = canonVal v := by
  intro n
  induction n with
  | zero => intro v h; cases v <;> simp at h
  | succ n ih =>
    intro v h hw
    rcases pass_or v with ⟨k2, v2, rfl⟩ | hnp
    · obtain ⟨hk, hw2⟩ := wf_pass k2 v2 hw
      obtain ⟨a, b, c⟩ := ih v2 (by simp at h; omega) hw2
      rw [leafOf_pass, chainOf_pass]
      refine ⟨a, ?_, ?_⟩
      · intro c' hc'
        rcases List.mem_cons.mp hc' with rfl | hc'
        · exact hk
        · exact b c' hc'
      · simp [mkNested, c, hk, canonVal, canonTerm, canonFeats]
    · rw [leafOf_nonpass _ hnp, chainOf_nonpass _ hnp]
      exact ⟨hw, by simp, by simp [mkNested]⟩

def entry (k : Str) (v : Val) : List Str × Val := (k :: chainOf v, canonVal (leafOf v))

def entries : Feats → List (List Str × Val)
  | .nil => []
  | .cons k v fs => entry k v :: entries fs

def PFs (k : Str) (v : Val) (fs : Feats) : Prop :=
  ∃ n0, n0 ≤ 6 * ((toksFeat [] k v).length + (toksFeatsC fs).length) + 3 ∧ ∀ n, n0 ≤ n → ∀ rest,
    parseFeatLoop n (toksFeat [] k v ++ (toksFeatsC fs ++ .rbrack :: rest)) = .ok (entry k v :: entries fs, rest)

theorem toksFeat_shape (k : Str) (v : Val) (X : List Tok) :
    toksFeat [] k v ++ X = .ident k :: (dotToks (chainOf v) ++ (toksVal (leafOf v) ++ X)) := by
  rw [toksFeat_eq (sizeOf v) v (Nat.le_refl _) [] k]
  simp [pathToks_cons]

theorem toksFeat_length (k : Str) (v : Val) :
    (toksFeat [] k v).length = 1 + (dotToks (chainOf v)).length + (toksVal (leafOf v)).length := by
  have := congrArg List.length (toksFeat_shape k v [])
  simpa [Nat.add_assoc, Nat.add_comm, Nat.add_left_comm] using this

theorem pfeats_nil (k : Str) (v : Val) (hw : wfVal (leafOf v) = true) (hv : PV (leafOf v)) : PFs k v .nil := by
  obtain ⟨n1, b1, h1⟩ := hv
  refine ⟨n1 + 1, by rw [toksFeat_length]; simp only [toksFeatsC, List.length_nil]; omega, fun n hn rest => ?_⟩
  obtain ⟨m, rfl⟩ : ∃ m, n = m + 1 := ⟨n - 1, by omega⟩
  rw [toksFeat_shape, parseFeatLoop]
  have hs := starts_noDot _ (toksVal_starts (leafOf v) hw (toksFeatsC .nil ++ .rbrack :: rest))
  have hp := h1 m (by omega) (.rbrack :: rest) (by simp [noAmp])
  simp only [toksFeatsC, List.nil_append] at hs hp ⊢
  simp only [parsePath_dots _ _ _ hs, hp, valOfList_canonList, entries, entry, List.singleton_append]

theorem pfeats_cons (k k2 : Str) (v v2 : Val) (fs : Feats) (hw : wfVal (leafOf v) = true)
    (hv : PV (leafOf v)) (h2 : PFs k2 v2 fs) : PFs k v (.cons k2 v2 fs) := by
  obtain ⟨n1, b1, h1⟩ := hv
  obtain ⟨n2, b2, h2⟩ := h2
  refine ⟨n1 + n2 + 1, by
    rw [toksFeat_length]; simp only [toksFeatsC, List.length_cons, List.length_append]; omega,
    fun n hn rest => ?_⟩
  obtain ⟨m, rfl⟩ : ∃ m, n = m + 1 := ⟨n - 1, by omega⟩
  rw [toksFeat_shape, parseFeatLoop]
  have hs := starts_noDot _ (toksVal_starts (leafOf v) hw (toksFeatsC (.cons k2 v2 fs) ++ .rbrack :: rest))
  have hp := h1 m (by omega) (.comma :: (toksFeat [] k2 v2 ++ (toksFeatsC fs ++ .rbrack :: rest))) (by simp [noAmp])
  simp only [toksFeatsC, List.cons_append, List.append_assoc] at hs hp ⊢
  simp only [parsePath_dots _ _ _ hs, hp, h2 m (by omega) rest, valOfList_canonList, entries, entry,
    List.singleton_append]


theorem lookup_snoc_ne : ∀ (fs : Feats) (k k' : Str) (v : Val), k ≠ k' →
    (fs.snoc k v).lookup k' = fs.lookup k'
  | .nil, k, k', v, h => by simp [Feats.snoc, Feats.lookup, h]
  | .cons k0 v0 fs, k, k', v, h => by
    simp [Feats.snoc, Feats.lookup, lookup_snoc_ne fs k k' v h]

theorem snoc_append : ∀ (fs g : Feats) (k : Str) (v : Val), (fs.snoc k v).append g = fs.append (.cons k v g)
  | .nil, g, k, v => by simp [Feats.snoc, Feats.append]
  | .cons k0 v0 fs, g, k, v => by simp [Feats.snoc, Feats.append, snoc_append fs g k v]

theorem append_nil : ∀ fs : Feats, fs.append .nil = fs
  | .nil => by simp [Feats.append]
  | .cons k v fs => by simp [Feats.append, append_nil fs]

theorem setPath_fresh (fs : Feats) (k : Str) (chain : List Str) (x : Val) (hl : fs.lookup k = none)
    (hk : upper k = k) : setPath fs (k :: chain) x = .ok (fs.snoc k (mkNested chain x)) := by
  cases chain with
  | nil => simp [setPath, hk, hl, mkNested]
  | cons c cs => simp [setPath, hk, hl]

theorem mkAVM_entries : ∀ (fs acc : Feats), keysOK fs.keys = true → wfFeats fs = true →
    (∀ k ∈ fs.keys, acc.lookup k = none) → mkAVM (entries fs) acc = .ok (acc.append (canonFeats fs))
  | .nil, acc, _, _, _ => by simp [entries, mkAVM, canonFeats, append_nil]
  | .cons k v fs, acc, hk, hw, hacc => by
    simp only [keysOK, Feats.keys, distinct, List.all_cons, Bool.and_eq_true, Bool.not_eq_true',
      beq_iff_eq] at hk
    obtain ⟨⟨hnc, hd⟩, hu, hall⟩ := hk
    simp only [wfFeats, Bool.and_eq_true] at hw
    obtain ⟨a, b, c⟩ := wf_leaf_chain (sizeOf v) v (Nat.le_refl _) hw.1
    have hfresh := setPath_fresh acc k (chainOf v) (canonVal (leafOf v))
      (hacc k (by simp [Feats.keys])) hu
    rw [c] at hfresh
    simp only [entries, entry, mkAVM, hfresh]
    rw [mkAVM_entries fs (acc.snoc k (canonVal v)) (by simp [keysOK, hd, hall]) hw.2]
    · simp [snoc_append, canonFeats]
    · intro k' hk'
      have hne : k ≠ k' := by
        intro e; subst e
        have : fs.keys.contains k = true := by simpa using hk'
        rw [this] at hnc; cases hnc
      rw [lookup_snoc_ne _ _ _ _ hne]
      exact hacc k' (by simp [Feats.keys, hk'])

theorem pterm_avm_nil (d : Option Str) : PT (.avm d .nil) := by
  refine ⟨2, by simp [toksTerm]; omega, fun n hn rest => ?_⟩
  obtain ⟨m, rfl⟩ : ∃ m, n = m + 2 := ⟨n - 2, by omega⟩
  cases d <;> simp [toksTerm, toksFeats, docTok, parseTerm, parseFeats, mkAVM, canonTerm, canonFeats]

theorem pterm_avm_cons (d : Option Str) (k : Str) (v : Val) (fs : Feats)
    (hw : wfTerm (.avm d (.cons k v fs)) = true) (hf : PFs k v fs) : PT (.avm d (.cons k v fs)) := by
  obtain ⟨n1, b1, h1⟩ := hf
  refine ⟨n1 + 2, by simp [toksTerm, toksFeats]; omega, fun n hn rest => ?_⟩
  obtain ⟨m, rfl⟩ : ∃ m, n = m + 2 := ⟨n - 2, by omega⟩
  simp only [wfTerm, Bool.and_eq_true] at hw
  have hmk := mkAVM_entries (.cons k v fs) .nil hw.1 hw.2 (by simp [Feats.lookup])
  simp only [Feats.append, entries] at hmk
  have h := h1 m (by omega) rest
  have e1 : parseFeats (m + 1) (toksFeat [] k v ++ (toksFeatsC fs ++ .rbrack :: rest))
      = .ok (entry k v :: entries fs, rest) := by
    rw [toksFeat_shape] at h ⊢
    simp only [parseFeats, h]
  cases d <;>
    simp [toksTerm, toksFeats, docTok, parseTerm, e1, hmk, canonTerm]


/-! ### assembling: induction on the size of the object -/

theorem sizeOf_leafOf : ∀ (n : Nat) (v : Val), sizeOf v ≤ n → sizeOf (leafOf v) ≤ sizeOf v := by
  intro n
  induction n with
  | zero => intro v h; cases v <;> simp at h
  | succ n ih =>
    intro v h
    rcases pass_or v with ⟨k2, v2, rfl⟩ | hnp
    · rw [leafOf_pass]
      have := ih v2 (by simp at h; omega)
      simp; omega
    · rw [leafOf_nonpass _ hnp]; exact Nat.le_refl _

def Main (n : Nat) : Prop :=
  (∀ t : Term, sizeOf t ≤ n → wfTerm t = true → PT t) ∧
  (∀ v : Val, sizeOf v ≤ n → wfVal v = true → PV v) ∧
  (∀ ts : Terms, sizeOf ts ≤ n → wfTerms ts = true → ∀ t, PT t → PTs t ts) ∧
  (∀ fs : Feats, sizeOf fs ≤ n → wfFeats fs = true → ∀ k v, wfVal (leafOf v) = true → PV (leafOf v) → PFs k v fs) ∧
  (∀ vs : Items, sizeOf vs ≤ n → wfItems vs = true → ∀ diff v e, PV v → PE e → PL diff v vs e)

theorem main : ∀ n, Main n := by
  intro n
  induction n with
  | zero =>
    refine ⟨?_, ?_, ?_, ?_, ?_⟩ <;> intro x h <;> cases x <;> simp at h
  | succ n ih =>
    obtain ⟨iT, iV, iTs, iFs, iVs⟩ := ih
    have leafPV : ∀ v : Val, sizeOf v ≤ n → wfVal v = true → wfVal (leafOf v) = true ∧ PV (leafOf v) := by
      intro v hs hw
      have hwl := (wf_leaf_chain (sizeOf v) v (Nat.le_refl _) hw).1
      exact ⟨hwl, iV (leafOf v) (Nat.le_trans (sizeOf_leafOf _ v (Nat.le_refl _)) hs) hwl⟩
    refine ⟨?_, ?_, ?_, ?_, ?_⟩
    · intro t hs hw
      cases t with
      | ident d s => exact pterm_leaf _ rfl
      | str d s => exact pterm_leaf _ rfl
      | regex d s => exact pterm_leaf _ rfl
      | coref d s => exact pterm_leaf _ rfl
      | avm d fs =>
        cases fs with
        | nil => exact pterm_avm_nil d
        | cons k v fs =>
          have hw' := hw
          simp only [wfTerm, wfFeats, Bool.and_eq_true] at hw'
          simp at hs
          obtain ⟨hwl, hpl⟩ := leafPV v (by omega) hw'.2.1
          exact pterm_avm_cons d k v fs hw (iFs fs (by omega) hw'.2.2 k v hwl hpl)
      | cons d vs e =>
        simp only [wfTerm, Bool.and_eq_true] at hw
        cases vs with
        | nil => exact pterm_cons_nil d e (by simpa [Items.isNil] using hw.2)
        | cons v vs =>
          simp only [wfItems, Bool.and_eq_true, Items.isNil] at hw
          simp at hs
          have hPE : PE e := by
            cases e with
            | closed => trivial
            | opn => trivial
            | dotted w =>
              have hww : wfVal w = true := by
                have := hw.2; simp [wfEnd] at this; exact this.1.1
              simp at hs
              exact iV w (by omega) hww
          exact pterm_cons_cons d v vs e hw.1.1 hw.2
            (iVs vs (by omega) hw.1.2 false v e (iV v (by omega) hw.1.1) hPE)
      | diff d vs =>
        simp only [wfTerm] at hw
        cases vs with
        | nil => exact pterm_diff_nil d
        | cons v vs =>
          simp only [wfItems, Bool.and_eq_true] at hw
          simp at hs
          exact pterm_diff_cons d v vs hw.1
            (iVs vs (by omega) hw.2 true v .closed (iV v (by omega) hw.1) trivial)
    · intro v hs hw
      cases v with
      | term t =>
        simp at hs
        exact pval_term t (iT t (by omega) (by simpa [wfVal] using hw))
      | conj ts =>
        cases ts with
        | nil => simp [wfVal] at hw
        | cons t ts =>
          simp only [wfVal, wfTerms, Bool.and_eq_true] at hw
          simp at hs
          exact pval_conj t ts (iTs ts (by omega) hw.2.2 t (iT t (by omega) hw.2.1))
    · intro ts hs hw t ht
      cases ts with
      | nil => exact pterms_nil t ht
      | cons t2 ts =>
        simp only [wfTerms, Bool.and_eq_true] at hw
        simp at hs
        exact pterms_cons t t2 ts ht (iTs ts (by omega) hw.2 t2 (iT t2 (by omega) hw.1))
    · intro fs hs hw k v hwl hpl
      cases fs with
      | nil => exact pfeats_nil k v hwl hpl
      | cons k2 v2 fs =>
        simp only [wfFeats, Bool.and_eq_true] at hw
        simp at hs
        obtain ⟨hwl2, hpl2⟩ := leafPV v2 (by omega) hw.1
        exact pfeats_cons k k2 v v2 fs hwl hpl (iFs fs (by omega) hw.2 k2 v2 hwl2 hpl2)
    · intro vs hs hw diff v e hv he
      cases vs with
      | nil => exact plist_last diff v e hv he
      | cons v2 vs =>
        simp only [wfItems, Bool.and_eq_true] at hw
        simp at hs
        exact plist_cons diff v v2 vs e hv hw.1
          (iVs vs (by omega) hw.2 diff v2 e (iV v2 (by omega) hw.1) he)

/-- MAIN (values): every well-formed value, written as tokens and followed by anything that does not
continue the conjunction, is parsed back — with all sufficiently large fuel — to `canonVal v` and
exactly the rest. -/
theorem parseConj_toksVal (v : Val) (hw : wfVal v = true) (n : Nat) (hn : 6 * (toksVal v).length + 2 ≤ n)
    (rest : List Tok) (hr : noAmp rest) : parseConj n (toksVal v ++ rest) = .ok (canonVal v, rest) := by
  obtain ⟨n0, b, h⟩ := (main (sizeOf v)).2.1 v (Nat.le_refl _) hw
  simp [parseConj, h n (by omega) rest hr, valOfList_canonList]

theorem parseTerm_toksTerm (t : Term) (hw : wfTerm t = true) (n : Nat) (hn : 6 * (toksTerm t).length + 1 ≤ n)
    (rest : List Tok) : parseTerm n (toksTerm t ++ rest) = .ok (canonTerm t, rest) := by
  obtain ⟨n0, b, h⟩ := (main (sizeOf t)).1 t (Nat.le_refl _) hw
  exact h n (by omega) rest

end Verif.C15
