/- C15 — lemmas about `canon` (what a re-parse returns): tokens and expanded features -/
import Verif.C15.Lemmas

namespace Verif.C15
set_option linter.unusedSimpArgs false

theorem canonItems_isNil : ∀ vs : Items, (canonItems vs).isNil = vs.isNil
  | .nil => by simp [canonTerm, canonVal, canonItems, canonEnd, canonTerms, canonFeats, Items.isNil, Items.length, isAvmLike]
  | .cons _ _ => by simp [canonTerm, canonVal, canonItems, canonEnd, canonTerms, canonFeats, Items.isNil, Items.length, isAvmLike]

theorem canonItems_length : ∀ vs : Items, (canonItems vs).length = vs.length
  | .nil => by simp [canonTerm, canonVal, canonItems, canonEnd, canonTerms, canonFeats, Items.isNil, Items.length, isAvmLike]
  | .cons _ vs => by simp [canonItems, Items.length, canonItems_length vs]

/-! ### expanded features are unchanged -/

mutual
theorem expand_canonTerm : ∀ (t : Term) (pre : List Str), expandTerm pre (canonTerm t) = expandTerm pre t
  | .ident _ _, _ => by simp [canonTerm, canonVal, canonItems, canonEnd, canonTerms, canonFeats, Items.isNil, Items.length, isAvmLike]
  | .str _ _, _ => by simp [canonTerm, canonVal, canonItems, canonEnd, canonTerms, canonFeats, Items.isNil, Items.length, isAvmLike]
  | .regex _ _, _ => by simp [canonTerm, canonVal, canonItems, canonEnd, canonTerms, canonFeats, Items.isNil, Items.length, isAvmLike]
  | .coref _ _, _ => by simp [canonTerm, canonVal, canonItems, canonEnd, canonTerms, canonFeats, Items.isNil, Items.length, isAvmLike]
  | .avm _ fs, pre => by simp only [canonTerm, expandTerm]; exact expand_canonFeats fs pre
  | .cons _ vs e, pre => by
    simp only [canonTerm, expandTerm, canonItems_isNil, canonItems_length]
    rw [expand_canonItems vs pre, expand_canonEnd e _ _]
  | .diff _ vs, pre => by
    simp only [canonTerm, expandTerm, canonItems_length]
    rw [expand_canonItems vs _]
theorem expand_canonVal : ∀ (v : Val) (pre : List Str), expandVal pre (canonVal v) = expandVal pre v
  | .term t, pre => by simp only [canonVal, expandVal]; exact expand_canonTerm t pre
  | .conj .nil, _ => by simp [canonTerm, canonVal, canonItems, canonEnd, canonTerms, canonFeats, Items.isNil, Items.length, isAvmLike]
  | .conj (.cons t .nil), pre => by
    simp only [canonVal, expandVal, expandTerms, List.append_nil]; exact expand_canonTerm t pre
  | .conj (.cons t (.cons t2 ts)), pre => by
    simp only [canonVal, expandVal]; exact expand_canonTerms (.cons t (.cons t2 ts)) pre
theorem expand_canonTerms : ∀ (ts : Terms) (pre : List Str), expandTerms pre (canonTerms ts) = expandTerms pre ts
  | .nil, _ => by simp [canonTerm, canonVal, canonItems, canonEnd, canonTerms, canonFeats, Items.isNil, Items.length, isAvmLike]
  | .cons t ts, pre => by
    simp only [canonTerms, expandTerms]; rw [expand_canonTerm t pre, expand_canonTerms ts pre]
theorem expand_canonFeats : ∀ (fs : Feats) (pre : List Str), expandFeats pre (canonFeats fs) = expandFeats pre fs
  | .nil, _ => by simp [canonTerm, canonVal, canonItems, canonEnd, canonTerms, canonFeats, Items.isNil, Items.length, isAvmLike]
  | .cons k v fs, pre => by
    simp only [canonFeats, expandFeats]; rw [expand_canonVal v _, expand_canonFeats fs pre]
theorem expand_canonItems : ∀ (vs : Items) (pre : List Str), expandItems pre (canonItems vs) = expandItems pre vs
  | .nil, _ => by simp [canonTerm, canonVal, canonItems, canonEnd, canonTerms, canonFeats, Items.isNil, Items.length, isAvmLike]
  | .cons v vs, pre => by
    simp only [canonItems, expandItems]; rw [expand_canonVal v _, expand_canonItems vs _]
theorem expand_canonEnd : ∀ (e : End) (pre : List Str) (emp : Bool),
    expandEnd pre emp (canonEnd e) = expandEnd pre emp e
  | .closed, _, _ => by simp [canonTerm, canonVal, canonItems, canonEnd, canonTerms, canonFeats, Items.isNil, Items.length, isAvmLike]
  | .opn, _, _ => by simp [canonTerm, canonVal, canonItems, canonEnd, canonTerms, canonFeats, Items.isNil, Items.length, isAvmLike]
  | .dotted v, pre, _ => by simp only [canonEnd, expandEnd]; exact expand_canonVal v pre
end

theorem expandTop_canon : ∀ ts : Terms, expandTop (canonTerms ts) = expandTop ts
  | .nil => by simp [canonTerm, canonVal, canonItems, canonEnd, canonTerms, canonFeats, Items.isNil, Items.length, isAvmLike]
  | .cons t ts => by
    have h : isAvmLike (canonTerm t) = isAvmLike t := by cases t <;> simp [canonTerm, isAvmLike]
    simp only [canonTerms, expandTop, h, expand_canonTerm t [], expandTop_canon ts]

end Verif.C15
