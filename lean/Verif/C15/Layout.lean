/- C15 — the layout stage (docstrings replaced by their formatted contents) and the second format -/
import Verif.C15.DocStable
import Verif.C15.Second

namespace Verif.C15
set_option linter.unusedSimpArgs false
set_option linter.unusedVariables false

theorem mapDocOpt_idem (f : Str → Str) (hf : ∀ d, f (f d) = f d) (d : Option Str) :
    mapDocOpt f (mapDocOpt f d) = mapDocOpt f d := by
  cases d <;> simp [mapDocOpt, hf]

mutual
theorem mapDocTerm_idem (f : Str → Str) (hf : ∀ d, f (f d) = f d) :
    ∀ t : Term, mapDocTerm f (mapDocTerm f t) = mapDocTerm f t
  | .ident d s => by simp [mapDocTerm, mapDocOpt_idem f hf]
  | .str d s => by simp [mapDocTerm, mapDocOpt_idem f hf]
  | .regex d s => by simp [mapDocTerm, mapDocOpt_idem f hf]
  | .coref d s => by simp [mapDocTerm, mapDocOpt_idem f hf]
  | .avm d fs => by simp [mapDocTerm, mapDocOpt_idem f hf, mapDocFeats_idem f hf fs]
  | .cons d vs e => by simp [mapDocTerm, mapDocOpt_idem f hf, mapDocItems_idem f hf vs, mapDocEnd_idem f hf e]
  | .diff d vs => by simp [mapDocTerm, mapDocOpt_idem f hf, mapDocItems_idem f hf vs]
theorem mapDocVal_idem (f : Str → Str) (hf : ∀ d, f (f d) = f d) :
    ∀ v : Val, mapDocVal f (mapDocVal f v) = mapDocVal f v
  | .term t => by simp [mapDocVal, mapDocTerm_idem f hf t]
  | .conj ts => by simp [mapDocVal, mapDocTerms_idem f hf ts]
theorem mapDocTerms_idem (f : Str → Str) (hf : ∀ d, f (f d) = f d) :
    ∀ ts : Terms, mapDocTerms f (mapDocTerms f ts) = mapDocTerms f ts
  | .nil => by simp [mapDocTerms]
  | .cons t ts => by simp [mapDocTerms, mapDocTerm_idem f hf t, mapDocTerms_idem f hf ts]
theorem mapDocFeats_idem (f : Str → Str) (hf : ∀ d, f (f d) = f d) :
    ∀ fs : Feats, mapDocFeats f (mapDocFeats f fs) = mapDocFeats f fs
  | .nil => by simp [mapDocFeats]
  | .cons k v fs => by simp [mapDocFeats, mapDocVal_idem f hf v, mapDocFeats_idem f hf fs]
theorem mapDocItems_idem (f : Str → Str) (hf : ∀ d, f (f d) = f d) :
    ∀ vs : Items, mapDocItems f (mapDocItems f vs) = mapDocItems f vs
  | .nil => by simp [mapDocItems]
  | .cons v vs => by simp [mapDocItems, mapDocVal_idem f hf v, mapDocItems_idem f hf vs]
theorem mapDocEnd_idem (f : Str → Str) (hf : ∀ d, f (f d) = f d) :
    ∀ e : End, mapDocEnd f (mapDocEnd f e) = mapDocEnd f e
  | .closed => by simp [mapDocEnd]
  | .opn => by simp [mapDocEnd]
  | .dotted v => by simp [mapDocEnd, mapDocVal_idem f hf v]
end

mutual
theorem canon_mapDocTerm (f : Str → Str) : ∀ t : Term, canonTerm (mapDocTerm f t) = mapDocTerm f (canonTerm t)
  | .ident d s => by simp [mapDocTerm, canonTerm]
  | .str d s => by simp [mapDocTerm, canonTerm]
  | .regex d s => by simp [mapDocTerm, canonTerm]
  | .coref d s => by simp [mapDocTerm, canonTerm]
  | .avm d fs => by simp [mapDocTerm, canonTerm, canon_mapDocFeats f fs]
  | .cons d vs e => by simp [mapDocTerm, canonTerm, canon_mapDocItems f vs, canon_mapDocEnd f e]
  | .diff d vs => by simp [mapDocTerm, canonTerm, canon_mapDocItems f vs]
theorem canon_mapDocVal (f : Str → Str) : ∀ v : Val, canonVal (mapDocVal f v) = mapDocVal f (canonVal v)
  | .term t => by simp [mapDocVal, canonVal, canon_mapDocTerm f t]
  | .conj .nil => by simp [mapDocVal, mapDocTerms, canonVal, canonTerms]
  | .conj (.cons t .nil) => by simp [mapDocVal, mapDocTerms, canonVal, canon_mapDocTerm f t]
  | .conj (.cons t (.cons t2 ts)) => by
    have := canon_mapDocTerms f (.cons t (.cons t2 ts))
    simp only [mapDocTerms] at this
    simp [mapDocVal, mapDocTerms, canonVal, this]
theorem canon_mapDocTerms (f : Str → Str) : ∀ ts : Terms, canonTerms (mapDocTerms f ts) = mapDocTerms f (canonTerms ts)
  | .nil => by simp [mapDocTerms, canonTerms]
  | .cons t ts => by simp [mapDocTerms, canonTerms, canon_mapDocTerm f t, canon_mapDocTerms f ts]
theorem canon_mapDocFeats (f : Str → Str) : ∀ fs : Feats, canonFeats (mapDocFeats f fs) = mapDocFeats f (canonFeats fs)
  | .nil => by simp [mapDocFeats, canonFeats]
  | .cons k v fs => by simp [mapDocFeats, canonFeats, canon_mapDocVal f v, canon_mapDocFeats f fs]
theorem canon_mapDocItems (f : Str → Str) : ∀ vs : Items, canonItems (mapDocItems f vs) = mapDocItems f (canonItems vs)
  | .nil => by simp [mapDocItems, canonItems]
  | .cons v vs => by simp [mapDocItems, canonItems, canon_mapDocVal f v, canon_mapDocItems f vs]
theorem canon_mapDocEnd (f : Str → Str) : ∀ e : End, canonEnd (mapDocEnd f e) = mapDocEnd f (canonEnd e)
  | .closed => by simp [mapDocEnd, canonEnd]
  | .opn => by simp [mapDocEnd, canonEnd]
  | .dotted v => by simp [mapDocEnd, canonEnd, canon_mapDocVal f v]
end

theorem trivFeat_mapDoc (f : Str → Str) (v : Val) : trivFeat (mapDocVal f v) = trivFeat v := by
  cases v with
  | term t => simp [mapDocVal, trivFeat]
  | conj ts =>
    cases ts with
    | nil => simp [mapDocVal, mapDocTerms, trivFeat]
    | cons t ts =>
      cases ts with
      | cons t2 ts => simp [mapDocVal, mapDocTerms, trivFeat]
      | nil =>
        cases t with
        | avm d fs =>
          cases d with
          | some d => simp [mapDocVal, mapDocTerms, mapDocTerm, mapDocOpt, trivFeat]
          | none =>
            cases fs with
            | nil => simp [mapDocVal, mapDocTerms, mapDocTerm, mapDocOpt, mapDocFeats, trivFeat]
            | cons k v fs =>
              cases fs <;> simp [mapDocVal, mapDocTerms, mapDocTerm, mapDocOpt, mapDocFeats, trivFeat]
        | ident d s => simp [mapDocVal, mapDocTerms, mapDocTerm, trivFeat]
        | str d s => simp [mapDocVal, mapDocTerms, mapDocTerm, trivFeat]
        | regex d s => simp [mapDocVal, mapDocTerms, mapDocTerm, trivFeat]
        | coref d s => simp [mapDocVal, mapDocTerms, mapDocTerm, trivFeat]
        | cons d vs e => simp [mapDocVal, mapDocTerms, mapDocTerm, trivFeat]
        | diff d vs => simp [mapDocVal, mapDocTerms, mapDocTerm, trivFeat]

mutual
theorem clean_mapDocTerm (f : Str → Str) : ∀ t : Term, cleanTerm (mapDocTerm f t) = cleanTerm t
  | .ident d s => by simp [mapDocTerm, cleanTerm]
  | .str d s => by simp [mapDocTerm, cleanTerm]
  | .regex d s => by simp [mapDocTerm, cleanTerm]
  | .coref d s => by simp [mapDocTerm, cleanTerm]
  | .avm d fs => by simp [mapDocTerm, cleanTerm, clean_mapDocFeats f fs]
  | .cons d vs e => by simp [mapDocTerm, cleanTerm, clean_mapDocItems f vs, clean_mapDocEnd f e]
  | .diff d vs => by simp [mapDocTerm, cleanTerm, clean_mapDocItems f vs]
theorem clean_mapDocVal (f : Str → Str) : ∀ v : Val, cleanVal (mapDocVal f v) = cleanVal v
  | .term t => by simp [mapDocVal, cleanVal, clean_mapDocTerm f t]
  | .conj ts => by simp [mapDocVal, cleanVal, clean_mapDocTerms f ts]
theorem clean_mapDocTerms (f : Str → Str) : ∀ ts : Terms, cleanTerms (mapDocTerms f ts) = cleanTerms ts
  | .nil => by simp [mapDocTerms, cleanTerms]
  | .cons t ts => by simp [mapDocTerms, cleanTerms, clean_mapDocTerm f t, clean_mapDocTerms f ts]
theorem clean_mapDocFeats (f : Str → Str) : ∀ fs : Feats, cleanFeats (mapDocFeats f fs) = cleanFeats fs
  | .nil => by simp [mapDocFeats, cleanFeats]
  | .cons k v fs => by
    simp [mapDocFeats, cleanFeats, trivFeat_mapDoc, clean_mapDocVal f v, clean_mapDocFeats f fs]
theorem clean_mapDocItems (f : Str → Str) : ∀ vs : Items, cleanItems (mapDocItems f vs) = cleanItems vs
  | .nil => by simp [mapDocItems, cleanItems]
  | .cons v vs => by simp [mapDocItems, cleanItems, clean_mapDocVal f v, clean_mapDocItems f vs]
theorem clean_mapDocEnd (f : Str → Str) : ∀ e : End, cleanEnd (mapDocEnd f e) = cleanEnd e
  | .closed => by simp [mapDocEnd, cleanEnd]
  | .opn => by simp [mapDocEnd, cleanEnd]
  | .dotted v => by simp [mapDocEnd, cleanEnd, clean_mapDocVal f v]
end

theorem layoutDoc_idem (d : Str) : layoutDoc (layoutDoc d) = layoutDoc d := fmtDoc_idem 0 d

theorem layoutItem_idem (x : Item) : layoutItem (layoutItem x) = layoutItem x := by
  cases x <;>
    simp [layoutItem, mapDocItem, mapDocTerms_idem layoutDoc layoutDoc_idem, mapDocOpt_idem layoutDoc layoutDoc_idem]

theorem canon_layoutItem (x : Item) : canonItem (layoutItem x) = layoutItem (canonItem x) := by
  cases x <;> simp [layoutItem, mapDocItem, canonItem, canon_mapDocTerms]

theorem toksItem_canon (x : Item) (hc : ∀ ts, x.terms? = some ts → cleanTerms ts = true) :
    toksItem (canonItem x) = toksItem x := by
  cases x <;> simp_all [canonItem, toksItem, Item.terms?, toksTerms_canon]

/-- what the real second `format` writes: the parsed item (`canonItem` of the laid-out item, whose
docstrings are the formatted contents) is laid out again and tokenised — same tokens as the first
time, docstrings included -/
theorem second_layout_item (x : Item) (hc : ∀ ts, x.terms? = some ts → cleanTerms ts = true) :
    toksItem (layoutItem (canonItem (layoutItem x))) = toksItem (layoutItem x) := by
  rw [canon_layoutItem, layoutItem_idem, ← canon_layoutItem]
  apply toksItem_canon
  intro ts hts
  cases x <;> simp_all [layoutItem, mapDocItem, Item.terms?] <;>
    (subst hts; rw [clean_mapDocTerms]; assumption)

end Verif.C15
