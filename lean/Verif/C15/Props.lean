/-
C15 — property theorems (TDL text <-> TDL objects round trip).  Helper lemmas are in Lemmas.lean.
The model (Model.lean) is the token-level composite `_lex ∘ format` (`toks*`), the parser
(`parse*`), the constructors, docstring formatting/escaping/scanning and feature paths.
-/
import Verif.C15.Lemmas
import Verif.C15.Canon
import Verif.C15.Parse

namespace Verif.C15
set_option linter.unusedSimpArgs false

/-! ## Documentation strings, character level -/

/-- "formatting the parsed entity gives the same text" (docstrings): the parser does not
unescape, so what makes the second formatting reproduce the first is that escaping an escaped
docstring changes nothing — for every string (quotes, runs of quotes, backslashes, a quote at
the very end). -/
theorem escapeDoc_idem (s : Str) : escapeDoc (escapeDoc s) = escapeDoc s :=
  escGo_idem s (some 0)

/-- "documentation strings ... parsing the text yields an entity with the same structure":
the lexer's scan for the closing `"""` (`_bounded`) returns exactly the escaped contents and
leaves exactly the rest of the text, for every string that does not end inside an escape. -/
theorem scan_escapeDoc (s rest : Str) (h : dangling s = false) :
    scanB q3 (escapeDoc s ++ (q3 ++ rest)) = some (escapeDoc s, rest) :=
  scan_escGo_aux s.length s (Nat.le_refl _) 0 (by omega) h rest

/-- the hypothesis of `scan_escapeDoc` is needed: a docstring text ending in a lone backslash
swallows the first closing quote. -/
theorem scan_escapeDoc_dangling_counterexample :
    scanB q3 (escapeDoc ['a', '\\'] ++ (q3 ++ ['.'])) ≠ some (escapeDoc ['a', '\\'], ['.']) := by
  decide

/-- The contents `_format_docstring` writes always end with a newline and the indentation, so
they never end inside an escape: for EVERY documentation text (quotes, quote runs, backslashes,
blank lines) and every indentation the lexer reads back exactly the written contents. -/
theorem scan_fmtDoc (k : Nat) (d rest : Str) :
    scanB q3 (fmtDoc k d ++ (q3 ++ rest)) = some (fmtDoc k d, rest) := by
  unfold fmtDoc
  apply scan_escapeDoc
  have := dangling_tail k _ ('\n' :: (spaces k ++ joinLines ('\n' :: spaces k) (docLines d))) (Nat.le_refl _)
  simpa using this

/-- ... and escaping those contents again is the identity (second format = first). -/
theorem fmtDoc_escape_stable (k : Nat) (d : Str) : escapeDoc (fmtDoc k d) = fmtDoc k d := by
  unfold fmtDoc
  exact escapeDoc_idem _

/-- regression (F42, repaired): a docstring that is one blank line is formatted. -/
example : fmtDoc 2 ['\n'] = ['\n', ' ', ' ', '\n', ' ', ' '] := by decide

/-- regression (F46, repaired): blank lines at the end of a docstring survive a second formatting. -/
example : fmtDoc 2 (fmtDoc 2 ['x', '\n', '\n', '\n']) = fmtDoc 2 ['x', '\n', '\n', '\n'] := by decide

/-! ## Feature-structure access -/

/-- "a value stored under a dotted path is retrieved by that path in any letter case":
whenever `fs[p] = v` succeeds, `fs[p']` returns `v` for every `p'` that equals `p` up to
letter case (component-wise `upper`). -/
theorem getPath_setPath : ∀ (p : List Str) (fs fs' : Feats) (v : Val), setPath fs p v = .ok fs' →
    ∀ p' : List Str, p'.map upper = p.map upper → getPath fs' p' = .ok v := by
  intro p
  induction p with
  | nil => intro fs fs' v h; simp [setPath] at h
  | cons k rest ih =>
    intro fs fs' v h p' hp
    cases p' with
    | nil => simp at hp
    | cons k' rest' =>
      simp only [List.map_cons, List.cons.injEq] at hp
      obtain ⟨hk, hr⟩ := hp
      cases rest with
      | nil =>
        have : rest' = [] := by simpa using hr
        subst this
        simp only [setPath] at h
        simp only [getPath, hk]
        cases hl : fs.lookup (upper k) with
        | none =>
          simp only [hl, Except.ok.injEq] at h
          subst h
          rw [lookup_snoc_self _ _ _ hl]
        | some w =>
          simp only [hl, Except.ok.injEq] at h
          subst h
          rw [lookup_replace_self _ _ _ (by simp [hl])]
      | cons k2 q =>
        cases rest' with
        | nil => simp at hr
        | cons k2' q' =>
          simp only [setPath] at h
          simp only [getPath, hk]
          cases hl : fs.lookup (upper k) with
          | none =>
            simp only [hl, Except.ok.injEq] at h
            subst h
            rw [lookup_snoc_self _ _ _ hl]
            simp only [mkNested]
            simp only [List.map_cons, List.cons.injEq] at hr
            exact getPath_nested v q q' k2 k2' hr.1 hr.2
          | some w =>
            simp only [hl] at h
            cases w with
            | conj ts => simp only at h; split at h <;> cases h
            | term t =>
              cases t with
              | avm d sub =>
                simp only at h
                cases hs : setPath sub (k2 :: q) v with
                | error e => simp [hs] at h
                | ok sub' =>
                  simp only [hs, Except.ok.injEq] at h
                  subst h
                  rw [lookup_replace_self _ _ _ (by simp [hl])]
                  exact ih sub sub' v hs (k2' :: q') hr
              | ident _ _ => cases h
              | str _ _ => cases h
              | regex _ _ => cases h
              | coref _ _ => cases h
              | cons _ _ _ => cases h
              | diff _ _ => cases h

/-- setting below a value that is not a structure is the `TFSError` of the code. -/
theorem setPath_through_type_term :
    setPath (.cons "A".toList (.term (.ident none "x".toList)) .nil) ["a".toList, "b".toList]
      (.term (.ident none "y".toList)) = .error .tfsError := by rfl


/-! ## Expanded features -/

/-- "the expanded feature list of a body is unchanged by the round trip": `canonTerms ts` is the
body a re-parse returns for `ts` (one-term Conjunction objects become bare terms, passed-through
one-feature AVMs come back as fresh AVMs — see `canonVal` in Model.lean, tied to the
parser by the correspondence run); its `features(expand=True)` list is the same, for every body. -/
theorem expandTop_roundtrip (ts : Terms) : expandTop (canonTerms ts) = expandTop ts :=
  expandTop_canon ts

/-- the same for every value below a feature path. -/
theorem expandVal_roundtrip (v : Val) (pre : List Str) : expandVal pre (canonVal v) = expandVal pre v :=
  expand_canonVal v pre

/-- "cons and diff lists (open, closed, dotted)": a list of `n` items expands to the `REST^i.FIRST`
paths; closed lists add `REST^n` = None, open lists add nothing, dotted lists add the end's
expansion at `REST^n`. (Checked here on the shapes of the ConsList table.) -/
theorem expand_list_shapes :
    let a : Val := .term (.ident none ['a'])
    let b : Val := .term (.coref none ['x'])
    expandTerm [] (.cons none (.cons a (.cons a .nil)) .closed)
      = [(["FIRST".toList], some (.ident none ['a'])), (["REST".toList, "FIRST".toList], some (.ident none ['a'])),
         (["REST".toList, "REST".toList], none)]
    ∧ expandTerm [] (.cons none (.cons a .nil) .opn) = [(["FIRST".toList], some (.ident none ['a']))]
    ∧ expandTerm [] (.cons none (.cons a .nil) (.dotted b))
      = [(["FIRST".toList], some (.ident none ['a'])), (["REST".toList], some (.coref none ['x']))]
    ∧ expandTerm [] (.cons none .nil .closed) = []
    ∧ expandTerm [] (.cons none .nil .opn) = [] := by
  simp [expandTerm, expandItems, expandEnd, expandVal, restPath, Items.length, Items.isNil]


/-! ## Parsing what was formatted (token level) -/

-- FULL STATEMENT (not proved): for every well-formed value `v` (`wfVal v`), all sufficiently large
-- fuel `n` and every `rest` that does not start with `&`:
--   parseConj n (toksVal v ++ rest) = .ok (canonVal v, rest)
-- and for every item list `xs` with balanced environments:  parseFile (xs.flatMap toksItem) = .ok (xs.map canonItem).
-- Missing: the mutual induction through AVMs (`mkAVM (features fs) = canonFeats fs`) and lists.
-- These statements are what the correspondence run checks on every generated entity
-- (model `parsed` = implementation `parsed`, and `parsed` is compared with `orig` by the oracle).

/-- "type definitions ... whose bodies nest conjunctions ..., coreferences, strings, regexes and
documentation strings": proved part — a conjunction of any number of leaf terms (identifiers,
strings, regexes, coreferences, each with or without a docstring), written as tokens and followed
by anything that does not continue the conjunction, is parsed back to exactly those terms and
exactly that rest.  Hypothesis of the partial result: `allLeaves` (no AVM or list among the terms). -/
theorem parse_toks_conjunction_partial (t : Term) (ts : Terms) (ht : isLeaf t = true)
    (hts : allLeaves ts = true) (n : Nat) (hn : n ≥ 2 * (ts.toList.length + 1)) (rest : List Tok)
    (hr : noAmp rest) :
    parseTerms n (toksTerms (.cons t ts) ++ rest) = .ok (t :: ts.toList, rest) :=
  parseTerms_leaves ts t ht hts n hn rest hr

/-- the hypotheses are satisfiable, and the result is not vacuous: `a & "s" & #x` before a dot. -/
example : parseTerms 6 (toksTerms (.cons (.ident none ['a']) (.cons (.str (some ['d']) ['s'])
      (.cons (.coref none ['x']) .nil))) ++ [.dot])
    = .ok ([.ident none ['a'], .str (some ['d']) ['s'], .coref none ['x']], [.dot]) :=
  parseTerms_leaves _ _ rfl rfl 6 (by simp [Terms.toList]) [.dot] trivial

/-- F44 (model level): the second formatting differs from the first when a feature value is a
one-term Conjunction around a one-feature AVM — `[ A [ B x ] ]` comes back as `[ A.B x ]`. -/
theorem second_format_differs_counterexample :
    let x : Val := .term (.ident none ['x'])
    let t : Term := .avm none (.cons ['A'] (.conj (.cons (.avm none (.cons ['B'] x .nil)) .nil)) .nil)
    toksTerm (canonTerm t) ≠ toksTerm t := by
  simp [toksTerm, toksFeats, toksFeat, toksFeatsC, toksVal, toksTerms, toksAmp, canonTerm, canonFeats,
    canonVal, docTok, pathToks]

/-- regression (F43, repaired): the docstring of a one-feature AVM used as a feature value is
written (the AVM is no longer folded into a dotted path). -/
example :
    let x : Val := .term (.ident none ['x'])
    let t : Term := .avm none (.cons ['A'] (.term (.avm (some ['d']) (.cons ['B'] x .nil))) .nil)
    Tok.doc ['d'] ∈ toksTerm t := by
  simp [toksTerm, toksFeats, toksFeat, toksFeatsC, toksVal, toksTerms, toksAmp, docTok, pathToks]

end Verif.C15
