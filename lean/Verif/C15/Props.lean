/-
C15 — property theorems (TDL text <-> TDL objects round trip).  Helper lemmas are in Lemmas.lean.
The model (Model.lean) is the token-level composite `_lex ∘ format` (`toks*`), the parser
(`parse*`), the constructors, docstring formatting/escaping/scanning and feature paths.
-/
import Verif.Generated.TablesC15
import Verif.C15.Lemmas
import Verif.C15.Canon
import Verif.C15.Parse
import Verif.C15.RoundTrip
import Verif.C15.TopLevel
import Verif.C15.Files
import Verif.C15.Second
import Verif.C15.Shapes
import Verif.C15.DocStable
import Verif.C15.Layout

namespace Verif.C15
open Verif.Tables
set_option linter.unusedSimpArgs false

/-! ## Documentation strings, character level -/

/-- "formatting the parsed entity gives the same text" (docstrings): the parser does not
unescape, so what makes the second formatting reproduce the first is that escaping an escaped
docstring changes nothing — for every string (quotes, runs of quotes, backslashes, a quote at
the very end). -/
theorem escapeDoc_idem (s : Str) : escapeDoc (escapeDoc s) = escapeDoc s :=
  escGo_idem s (some 0)

/-- "documentation strings ... parsing the text yields an entity with the same structure":
the lexer's scan for the closing `"""` (`_bounded`) returns exactly the escaped contents and
leaves exactly the rest of the text, for every string that does not end inside an escape. -/
theorem scan_escapeDoc (s rest : Str) (h : dangling s = false) :
    scanB q3 (escapeDoc s ++ (q3 ++ rest)) = some (escapeDoc s, rest) :=
  scan_escGo_aux s.length s (Nat.le_refl _) 0 (by omega) h rest

/-- the hypothesis of `scan_escapeDoc` is needed: a docstring text ending in a lone backslash
swallows the first closing quote. -/
theorem scan_escapeDoc_dangling_counterexample :
    scanB q3 (escapeDoc ['a', '\\'] ++ (q3 ++ ['.'])) ≠ some (escapeDoc ['a', '\\'], ['.']) := by
  decide

/-- The contents `_format_docstring` writes always end with a newline and the indentation, so
they never end inside an escape: for EVERY documentation text (quotes, quote runs, backslashes,
blank lines) and every indentation the lexer reads back exactly the written contents. -/
theorem scan_fmtDoc (k : Nat) (d rest : Str) :
    scanB q3 (fmtDoc k d ++ (q3 ++ rest)) = some (fmtDoc k d, rest) := by
  unfold fmtDoc
  apply scan_escapeDoc
  have := dangling_tail k _ ('\n' :: (spaces k ++ joinLines ('\n' :: spaces k) (docLines d))) (Nat.le_refl _)
  simpa using this

/-- ... and escaping those contents again is the identity (second format = first). -/
theorem fmtDoc_escape_stable (k : Nat) (d : Str) : escapeDoc (fmtDoc k d) = fmtDoc k d := by
  unfold fmtDoc
  exact escapeDoc_idem _

/-- "formatting the parsed entity gives the same text" (docstrings, in full): the parser hands back
the written contents `fmtDoc k d` as the docstring; formatting them again at the same indentation
(`textwrap.dedent`, `split('\n')`, dropping the blank first/last line, re-indenting, escaping) gives
exactly the same contents — for EVERY documentation text and every indentation. -/
theorem fmtDoc_stable (k : Nat) (d : Str) : fmtDoc k (fmtDoc k d) = fmtDoc k d :=
  fmtDoc_idem k d

/-- regression (F42, repaired): a docstring that is one blank line is formatted. -/
example : fmtDoc 2 ['\n'] = ['\n', ' ', ' ', '\n', ' ', ' '] := by decide

/-- regression (F46, repaired): blank lines at the end of a docstring survive a second formatting. -/
example : fmtDoc 2 (fmtDoc 2 ['x', '\n', '\n', '\n']) = fmtDoc 2 ['x', '\n', '\n', '\n'] := by decide

/-! ## Feature-structure access -/

/-- "a value stored under a dotted path is retrieved by that path in any letter case", for paths
THROUGH PLAIN AVMs (`tfs.FeatureStructure` semantics): whenever `fs[p] = v` succeeds in the model,
`fs[p']` returns `v` for every `p'` that equals `p` up to letter case (component-wise `upper`).
`setPath` answers `unmodelled` — so nothing is claimed — when the path runs into a ConsList/DiffList
(whose FIRST/REST structure the model abstracts to values+end) or into a Conjunction (where the code
sets in the last AVM but reads the conjunction of ALL AVMs' values, so the clause does not hold as
stated). -/
theorem getPath_setPath : ∀ (p : List Str) (fs fs' : Feats) (v : Val), setPath fs p v = .ok fs' →
    ∀ p' : List Str, p'.map upper = p.map upper → getPath fs' p' = .ok v := by
  intro p
  induction p with
  | nil => intro fs fs' v h; simp [setPath] at h
  | cons k rest ih =>
    intro fs fs' v h p' hp
    cases p' with
    | nil => simp at hp
    | cons k' rest' =>
      simp only [List.map_cons, List.cons.injEq] at hp
      obtain ⟨hk, hr⟩ := hp
      cases rest with
      | nil =>
        have : rest' = [] := by simpa using hr
        subst this
        simp only [setPath] at h
        simp only [getPath, hk]
        cases hl : fs.lookup (upper k) with
        | none =>
          simp only [hl, Except.ok.injEq] at h
          subst h
          rw [lookup_snoc_self _ _ _ hl]
        | some w =>
          simp only [hl, Except.ok.injEq] at h
          subst h
          rw [lookup_replace_self _ _ _ (by simp [hl])]
      | cons k2 q =>
        cases rest' with
        | nil => simp at hr
        | cons k2' q' =>
          simp only [setPath] at h
          simp only [getPath, hk]
          cases hl : fs.lookup (upper k) with
          | none =>
            simp only [hl, Except.ok.injEq] at h
            subst h
            rw [lookup_snoc_self _ _ _ hl]
            simp only [mkNested]
            simp only [List.map_cons, List.cons.injEq] at hr
            exact getPath_nested v q q' k2 k2' hr.1 hr.2
          | some w =>
            simp only [hl] at h
            cases w with
            | conj ts => simp only at h; split at h <;> cases h
            | term t =>
              cases t with
              | avm d sub =>
                simp only at h
                cases hs : setPath sub (k2 :: q) v with
                | error e => simp [hs] at h
                | ok sub' =>
                  simp only [hs, Except.ok.injEq] at h
                  subst h
                  rw [lookup_replace_self _ _ _ (by simp [hl])]
                  exact ih sub sub' v hs (k2' :: q') hr
              | ident _ _ => cases h
              | str _ _ => cases h
              | regex _ _ => cases h
              | coref _ _ => cases h
              | cons _ _ _ => cases h
              | diff _ _ => cases h

/-- setting below a value that is not a structure (a type term or a coreference) is the `TFSError`
of the code — for every structure, path and value. -/
theorem setPath_below_type_term (fs : Feats) (k k2 : Str) (p : List Str) (v : Val) (t : Term)
    (hl : fs.lookup (upper k) = some (.term t)) (ht : isAvmLike t = false) :
    setPath fs (k :: k2 :: p) v = .error .tfsError :=
  setPath_below_nonstructure fs k k2 p v t hl ht

/-! ## Expanded features -/

/-- "the expanded feature list of a body is unchanged by the round trip": `canonTerms ts` is the
body a re-parse returns for `ts` (one-term Conjunction objects become bare terms, passed-through
one-feature AVMs come back as fresh AVMs — see `canonVal` in Model.lean, tied to the
parser by the correspondence run); its `features(expand=True)` list is the same, for every body. -/
theorem expandTop_roundtrip (ts : Terms) : expandTop (canonTerms ts) = expandTop ts :=
  expandTop_canon ts

/-- the same for every value below a feature path. -/
theorem expandVal_roundtrip (v : Val) (pre : List Str) : expandVal pre (canonVal v) = expandVal pre v :=
  expand_canonVal v pre

/-- "cons and diff lists (open, closed, dotted)": EVERY cons list of `n` leaf items (any docstring,
any `n`) expands to the paths `REST^i.FIRST` (`i < n`, in order) followed by its end: a closed list
adds `REST^n` = None (nothing when empty), an open list adds nothing, a dotted list adds its end at
`REST^n` (`expandEnd_shapes`). -/
theorem expand_cons_list_general (pre : List Str) (d : Option Str) (ts : List Term) (e : End)
    (h : ∀ t ∈ ts, isAvmLike t = false) :
    expandTerm pre (.cons d (Items.ofList (ts.map Val.term)) e)
      = (ts.zipIdx 0).map (fun ti => (restPath pre ti.2 ++ ["FIRST".toList], some ti.1))
        ++ expandEnd (restPath pre ts.length) ts.isEmpty e :=
  expand_cons_list pre d ts e h

theorem expand_list_end_general (pre : List Str) (n : Nat) (emp : Bool) (w : Term) (hw : isAvmLike w = false) :
    expandEnd (restPath pre n) emp .closed = (if emp then [] else [(restPath pre n, none)])
    ∧ expandEnd (restPath pre n) emp .opn = []
    ∧ expandEnd (restPath pre n) emp (.dotted (.term w)) = [(restPath pre n, some w)] :=
  expandEnd_shapes pre n emp w hw

/-- every diff list of leaf items: the items under `LIST`, then the anonymous coreference at the tail
of `LIST` and under `LAST`. -/
theorem expand_diff_list_general (pre : List Str) (d : Option Str) (ts : List Term)
    (h : ∀ t ∈ ts, isAvmLike t = false) :
    expandTerm pre (.diff d (Items.ofList (ts.map Val.term)))
      = (ts.zipIdx 0).map (fun ti => (restPath (pre ++ ["LIST".toList]) ti.2 ++ ["FIRST".toList], some ti.1))
        ++ [(restPath (pre ++ ["LIST".toList]) ts.length, some anonCoref), (pre ++ ["LAST".toList], some anonCoref)] :=
  expand_diff_list pre d ts h

/-- an instance: `< a, a >`, `< a, ... >`, `< a . #x >`, `< >`, `< ... >` -/
example :
    let a : Val := .term (.ident none ['a'])
    let b : Val := .term (.coref none ['x'])
    expandTerm [] (.cons none (.cons a (.cons a .nil)) .closed)
      = [(["FIRST".toList], some (.ident none ['a'])), (["REST".toList, "FIRST".toList], some (.ident none ['a'])),
         (["REST".toList, "REST".toList], none)]
    ∧ expandTerm [] (.cons none (.cons a .nil) .opn) = [(["FIRST".toList], some (.ident none ['a']))]
    ∧ expandTerm [] (.cons none (.cons a .nil) (.dotted b))
      = [(["FIRST".toList], some (.ident none ['a'])), (["REST".toList], some (.coref none ['x']))]
    ∧ expandTerm [] (.cons none .nil .closed) = []
    ∧ expandTerm [] (.cons none .nil .opn) = [] := by
  simp [expandTerm, expandItems, expandEnd, expandVal, restPath, Items.length, Items.isNil]

/-! ## Parsing what was formatted (token level)

`toks*` is the composite `_lex ∘ format` (layout-free), `parse*` the recursive-descent parser,
`canon*` what a re-parse returns: the identity except that a one-term Conjunction object comes
back as its bare term.  `wf*` states what the constructors guarantee (distinct upper-case feature
names, non-empty conjunctions, a dotted list has items and its end is not a list-type name).
Fuel is the recursion budget of the model parser; every theorem gives an explicit sufficient bound,
linear in the number of tokens written (`6·|tokens|+2` for a value, `6·|tokens|` for the definitions
of a file), and `parse_file` is stated for the fuel the driver really uses (`parseFile`: item budget
`|tokens|+1`, definition fuel `6·|tokens|+10`).  Running out of fuel is a distinct error
(`Err.fuel`), so an insufficient budget could never be mistaken for a parse result. -/

/-- "Formatting any TDL entity ... whose bodies nest conjunctions, feature structures with dotted
paths, cons and diff lists (open, closed, dotted), coreferences, strings, regexes and documentation
strings ... and parsing the text yields an entity with the same structure": for EVERY well-formed
value `v` (arbitrary nesting of conjunctions, AVMs with folded dotted paths, cons lists closed /
open / dotted / empty, diff lists, leaves, each with or without docstring), the parser run on
`toksVal v ++ rest` returns exactly `canonVal v` and exactly `rest`, for every `rest` that does not
start with `&`. -/
theorem parse_toks_value (v : Val) (hw : wfVal v = true) (n : Nat) (hn : 6 * (toksVal v).length + 2 ≤ n)
    (rest : List Tok) (hr : noAmp rest) : parseConj n (toksVal v ++ rest) = .ok (canonVal v, rest) :=
  parseConj_toksVal v hw n hn rest hr

/-- the same for a single term, with no condition on what follows. -/
theorem parse_toks_term (t : Term) (hw : wfTerm t = true) (n : Nat) (hn : 6 * (toksTerm t).length + 1 ≤ n)
    (rest : List Tok) : parseTerm n (toksTerm t ++ rest) = .ok (canonTerm t, rest) :=
  parseTerm_toksTerm t hw n hn rest

/-- "letter sets, wild cards" (character level, after the repair of F45): the formatter's escaped
character list is read back by `_parse_letterset` as exactly the characters — including `)`,
spaces and backslashes. -/
theorem parse_format_letterset (var chars : Str) (h : morphOK '!' var chars = true) :
    parseMorph (morphText "letter-set".toList var chars) = .ok (.letterset var chars) :=
  parseMorph_letterset var chars h

theorem parse_format_wildcard (var chars : Str) (h : morphOK '?' var chars = true) :
    parseMorph (morphText "wild-card".toList var chars) = .ok (.wildcard var chars) :=
  parseMorph_wildcard var chars h

/-- "type definitions, addenda and lexical rules ..., as well as letter sets, wild cards,
environments, includes and comments ... all sequences of top-level entities in a file": every list
of well-formed items (`wfItem`: a type definition has a supertype, an addendum has terms or a
docstring, affix sub-patterns and letter-set texts are in source form, an instance environment
has a status) whose `:begin`/`:end` items are properly nested from the state `cur`/`stack`
(`envOK`) is parsed back, item by item, to `canonItem` of each item.  With `cur = none`,
`stack = []` this is a whole file. -/
theorem parse_toks_file (xs : List Item) (cur : Option Bool) (stack : List (Option Bool))
    (hw : ∀ x ∈ xs, wfItem x = true) (henv : envOK cur stack xs = true) (n m : Nat)
    (hn : xs.length ≤ n) (hm : 6 * (xs.flatMap toksItem).length ≤ m) :
    parseItems n m cur stack (xs.flatMap toksItem) = .ok (xs.map canonItem) :=
  parseItems_toks xs cur stack hw henv n m hn hm

/-- the same for the parser entry point the driver runs, with the fuel it really uses: a whole
file of well-formed items with properly nested environments is read back as its canonical items. -/
theorem parse_file (xs : List Item) (hw : ∀ x ∈ xs, wfItem x = true) (henv : envOK none [] xs = true) :
    parseFile (xs.flatMap toksItem) = .ok (xs.map canonItem) :=
  parseFile_toks xs hw henv

/-- the hypotheses are satisfiable and the result is not vacuous: an instance environment holding
`t := s & [ A.B < #x, "q" . #y > ] """d""".` -/
example :
    let body : Terms := .cons (.ident none ['s']) (.cons (.avm none (.cons ['A']
      (.term (.avm none (.cons ['B'] (.term (.cons none (.cons (.term (.coref none ['x']))
        (.cons (.term (.str none ['q'])) .nil)) (.dotted (.term (.coref none ['y']))))) .nil))) .nil)) .nil)
    let xs : List Item := [.beginEnv true (some ['r']), .typedef ['t'] body (some ['d']), .endEnv true]
    (∀ x ∈ xs, wfItem x = true) ∧ envOK none [] xs = true := by
  simp [wfItem, envOK, envStep, termsNonempty, wfTerms, wfTerm, wfFeats, wfVal, wfItems, wfEnd, keysOK,
    distinct, Feats.keys, upper, Items.isNil, Terms.toList, isTypeTerm, valEqStr, canonVal, canonTerm]

/-- "formatting the parsed entity gives the same text" (token level): when no feature value is a
one-term Conjunction around a one-feature AVM without docstring (`clean*`, i.e. outside F44), the
re-parsed value is written with exactly the same tokens. -/
theorem second_format_value (v : Val) (hc : cleanVal v = true) : toksVal (canonVal v) = toksVal v :=
  toksVal_canon v hc

theorem second_format_terms (ts : Terms) (hc : cleanTerms ts = true) :
    toksTerms (canonTerms ts) = toksTerms ts :=
  toksTerms_canon ts hc

/-- ... for every top-level item -/
theorem second_format_item (x : Item) (hc : ∀ ts, x.terms? = some ts → cleanTerms ts = true) :
    toksItem (canonItem x) = toksItem x := by
  cases x <;> simp_all [canonItem, toksItem, Item.terms?, toksTerms_canon]

/-- ... with the docstrings as the code has them: the first text is `toksItem (layoutItem x)` (every
docstring replaced by its formatted contents), the parser returns `canonItem (layoutItem x)` whose
docstrings ARE those contents, and the second `format` lays them out again; by `fmtDoc_stable` the
tokens, docstring tokens included, are the same. (`layoutItem` takes the indentation as 0 because
the harness strips the real indentation from lexed docstrings; `fmtDoc_stable` holds for every
indentation.) -/
theorem second_format_with_docstrings (x : Item) (hc : ∀ ts, x.terms? = some ts → cleanTerms ts = true) :
    toksItem (layoutItem (canonItem (layoutItem x))) = toksItem (layoutItem x) :=
  second_layout_item x hc

/-- ... and therefore parsing the second text gives the same value again. -/
theorem parse_second_format (v : Val) (hw : wfVal v = true) (hc : cleanVal v = true) (n : Nat)
    (hn : 6 * (toksVal v).length + 2 ≤ n) (rest : List Tok) (hr : noAmp rest) :
    parseConj n (toksVal (canonVal v) ++ rest) = .ok (canonVal v, rest) := by
  rw [toksVal_canon v hc]; exact parseConj_toksVal v hw n hn rest hr

-- FULL STATEMENT (not proved), what is left of the property beyond the theorems above:
-- * fuel: the round-trip theorems carry explicit sufficient bounds and `parse_file` is about the driver's
--   own fuel, so nothing about fuel is left for formatted input.  NOT proved: that the same budget
--   suffices on ARBITRARY token lists (the malformed streams of the `toks` correspondence cases) and
--   that a non-fuel result is independent of the fuel; there an exhausted budget would show up as the
--   distinct answer `fuel`, which no run has produced.
-- * text level: the formatter's text is now in the model (`fmtFile`, Text.lean) and the second-format clause is
--   proved on the text (PropsText.lean).  What is left is the lexer: `lex (fmtFile xs) = (relLines 0 xs).flatMap toksItem`
--   — that the line breaks and indentation only insert white space between tokens and that the regex lexer
--   returns the string/regex/identifier tokens — is compared on every generated entity, not proved
--   (docstrings and block comments excepted: `scan_fmtDoc`).  Docstring tokens are compared raw (the model knows
--   the indentation of every place), so no indentation is stripped by the harness any more.

/-- F44 (model level): the second formatting differs from the first when a feature value is a
one-term Conjunction around a one-feature AVM — `[ A [ B x ] ]` comes back as `[ A.B x ]`. -/
theorem second_format_differs_counterexample :
    let x : Val := .term (.ident none ['x'])
    let t : Term := .avm none (.cons ['A'] (.conj (.cons (.avm none (.cons ['B'] x .nil)) .nil)) .nil)
    toksTerm (canonTerm t) ≠ toksTerm t := by
  simp [toksTerm, toksFeats, toksFeat, toksFeatsC, toksVal, toksTerms, toksAmp, canonTerm, canonFeats,
    canonVal, docTok, pathToks]

/-- regression (F43, repaired): the docstring of a one-feature AVM used as a feature value is
written (the AVM is no longer folded into a dotted path). -/
example :
    let x : Val := .term (.ident none ['x'])
    let t : Term := .avm none (.cons ['A'] (.term (.avm (some ['d']) (.cons ['B'] x .nil))) .nil)
    Tok.doc ['d'] ∈ toksTerm t := by
  simp [toksTerm, toksFeats, toksFeat, toksFeatsC, toksVal, toksTerms, toksAmp, docTok, pathToks]


/-! ## Pins: the source constants that the hand-written model mirrors -/

/-- Read from the live code on every run (`harness/c15.py: tables()` → `Verif/Generated/TablesC15.lean`)
and compared here with a literal copy.  A change to any of them makes this theorem stop checking; the
check then reports a broken proof obligation and searches for a failing input.

* `c15LexPattern` (the 30-alternative `_tdl_lex_re`, `re.VERBOSE` layout and comments removed),
  `c15LexGroups`, `c15LexFlags`, `c15IdentifierPattern`: the group numbering is `Tok.gid`/`Tok.ofGid`
  (1 docstring … 30 unexpected); gid 1/2 openers + `_bounded` are `scanB q3` / `scanB ['|','#']`; gid 20 is
  the token `morphText` builds; gid 22 is `Tok.affixpat` (`splitAffix`); the harness alphabets for strings,
  regexes and identifiers are the texts of gids 4, 6, 24.
* `c15Consts "tdl._parse_*"`: the gid numbers each parser function tests — `parseTerm` (1,4,5,6,13,14,15,19,24
  and the break gids 17/18), `parseTerms` (11), `parseFeats/parseFeatLoop/parsePath` (16,24,10,12),
  `parseList*` (9,10,12), `parseDef/finishDef/takeAffixPats` (7,8,21,22,1,10), `parseItems` (2,3,20,24,25,26,29
  and the event names), environment keywords (27, `:instance`, `:status`, `:type`) — and
  `_is_comment`/`_shift` (2,3; look-ahead 1).
* `c15Consts "tdl._parse_letterset"`: the three regexes and the unescape substitution mirrored by
  `morphBody`/`morphChars`/`parseMorph`; `"tdl._format_morphset"`: the escape set (`escMorph`) and the text
  shape (`morphText`).
* `c15Consts "tdl._format_*"`: delimiters and separators that `toks*`/`toksItem` turn into tokens (string
  quotes, `^ $`, `#`, `[ ]`, `< >`, `, ...`, ` . `, `<! !>`, ` & `, the definition / affix / final-dot shapes,
  `:begin/:end/:status`, `:include`, `;`, `#| |#`) and the indentation increments (2, 3, 4) that only the
  oracle sees.
* `c15Consts "tdl._format_docstring" / "tdl._escape_docstring" / "tdl._bounded" / "tdl._lex"`: `fmtDoc` (newline,
  indentation, lines, newline, indentation between triple quotes), `escGo` (the `cnt` values 0, 1, -1, 3 and the
  quote/backslash set), `scanB` (skip 2 after a backslash, else 1).
* `c15ListNames`, `c15Defaults`, `c15Operators`: `listType`/`emptyListType`, the `FIRST/REST/LIST/LAST` paths of
  `expand*`, the default `end` of `ConsList` (open list), `:=`/`:+` (`Tok.defop`/`Tok.addop`).
* `c15Consts "tfs.FeatureStructure.*"`, `"tdl.ConsList.append"`, `"tdl.DiffList.__init__"`,
  `"tdl._collect_list_items"`, `"tdl.AVM.features"`: the `.` path separator of `setPath/getPath/expand*`, the
  "exactly one feature" test of `_is_notable` (`toksFeat`), `LIST.` of diff lists.
* `c15Layout` = `_base_indent`, `_max_inline_list_items`, `_line_width`: the constants `baseIndent`, `maxInline`,
  `lineWidth` of the text-level model (Text.lean; tied by `c15_text_pins` in PropsText.lean); the generator's
  list sizes (0–8, 16, 65, 200) and long identifiers are chosen against them so that both layouts occur. -/
theorem c15_pins :
    c15LexPattern =
      "(\"\"\")|(\\#\\|)|;([^\\n]*)|\"([^\"\\\\]*(?:\\\\.[^\"\\\\]*)*)\"|'([^\\s!\"#$%&'(),.\\/:;<=>[\\]^|]+)|\\^([^$\\\\]*(?:\\\\.|[^$\\\\]*)*)\\$|(:[=<])|(:\\+)|(\\.\\.\\.)|(\\.)|(&)|(,)|(\\[)|(<!)|(<)|(\\])|(!>)|(>)|\\#([^\\s!\"#$%&'(),.\\/:;<=>[\\]^|]+)|%\\s*\\((.*)\\)\\s*$|%(prefix|suffix)|\\(([^ ]+\\s+(?:[^ )\\\\]|\\\\.)+)\\)|(\\/)|([^\\s!\"#$%&'(),.\\/:;<=>[\\]^|]+)|(:begin)|(:end)|(:type|:instance)|(:status)|(:include)|([^\\s])"
    ∧ c15LexFlags =
      96
    ∧ c15LexGroups =
      30
    ∧ c15IdentifierPattern =
      "[^\\s!\"#$%&'(),.\\/:;<=>[\\]^|]+"
    ∧ c15Layout =
      [2, 3, 79]
    ∧ c15ListNames =
      ["*list*", "*null*", "FIRST", "REST", "LIST", "LAST"]
    ∧ c15Operators =
      [":=", ":+", ":="]
    ∧ c15Defaults =
      [
      ("tdl.ConsList.__init__", "(None, '*list*', None)"),
      ("tdl.DiffList.__init__", "(None, None)"),
      ("tdl.format", "(0,)"),
      ("tdl._peek", "(0,)"),
      ("tdl.AVM.features", "(False,)"),
      ("tfs.FeatureStructure.features", "(False,)"),
      ("tdl.TypeAddendum.__init__", "(None, None)")]
    ∧ c15Consts =
      [
      ("tdl._is_comment", ["2", "0", "3"]),
      ("tdl._shift", ["1", "0", "2"]),
      ("tdl._lex", ["1", "0", "2", "\"\"\"", "#|", "|#", "30"]),
      ("tdl._bounded", ["\\", "2", "1", "\"\"\"", "0", ""]),
      ("tdl._parse_tdl", ["1", "2", "BlockComment", "3", "LineComment", "20", "24", "25", "BeginEnvironment", "26", "EndEnvironment", "29", "FileInclude"]),
      ("tdl._parse_tdl_definition", ["7", "21", ":<", "2", "0", "8", "1", "10"]),
      ("tdl._parse_letterset", ["\\s+((?:[^) \\\\]|\\\\.)+)\\)\\s*$", "\\s*letter-set\\s*\\((!.)", "\\\\(.)", "\\1", "2", "1", "\\s*wild-card\\s*\\((\\?.)"]),
      ("tdl._parse_tdl_affixes", ["21", "22", "1"]),
      ("tdl._parse_tdl_conjunction", ["11", "1", "0"]),
      ("tdl._parse_tdl_term", ["1", "4", "5", "2", "6", "13", "14", "17", "15", "18", "19", "24"]),
      ("tdl._parse_tdl_feature_structure", ["16", "24", "10", ".", "12"]),
      ("tdl._parse_tdl_list", ["0", "9", "10", "12"]),
      ("tdl._parse_tdl_begin_environment", ["27", ":instance", "1", ":status", "10"]),
      ("tdl._parse_tdl_end_environment", [":type", ":instance", "10"]),
      ("tdl._parse_tdl_include", ["4", "10"]),
      ("tdl._format_term", ["{}\n{}{}", " "]),
      ("tdl._format_string", ["\""]),
      ("tdl._format_regex", ["^", "$"]),
      ("tdl._format_coref", ["#"]),
      ("tdl._format_avm", ["3", "\n", " ", "[ ]", "[ {} ]", ",\n", "2"]),
      ("tdl._format_conslist", ["2", "", ", ...", "...", " . ", "-1", "< >", "2", "< {} >", ", ", " ", "< ", "0", "1", ",\n", " >"]),
      ("tdl._format_difflist", ["3", "<! !>", "2", "4", "<! {} !>", ", ", ",\n", " "]),
      ("tdl._format_conjunction", ["0", "", "3", " &\n", " ", " & "]),
      ("tdl._format_typedef", [" ", "affix_type", "(", " ", ")", "2", "{}{} {}\n%{} {}\n  {}.", "4", "{}{} {} {}."]),
      ("tdl._format_typedef_body", ["1", "-1", "0", "2", "{} &\n{}{}", " ", "\n  ", ""]),
      ("tdl._format_docstring", ["", "\n", "0", "1", "-1", " ", "\n{0}{1}\n{0}", "\"\"\""]),
      ("tdl._escape_docstring", ["0", "1", "-1", "\"\\", "\"", "3", "\\", ""]),
      ("tdl._format_morphset", ["letter-set", "wild-card", "([) \\\\])", "\\\\\\1", "{}%({} ({} {}))", " "]),
      ("tdl._format_environment", ["", ":type", ":instance", " :status ", "\n", "2", "{0}:begin {1}{2}.\n{3}{0}:end {1}.", " "]),
      ("tdl._format_include", ["{}:include \"{}\".", " "]),
      ("tdl._format_linecomment", ["{};{}", " "]),
      ("tdl._format_blockcomment", ["{}#|{}|#", " "]),
      ("tdl._collect_list_items", ["."]),
      ("tdl.ConsList.append", ["."]),
      ("tdl.ConsList.terminate", []),
      ("tdl.DiffList.__init__", ["LIST.", "LIST"]),
      ("tdl.AVM.features", ["."]),
      ("tdl.Coreference.__str__", [""]),
      ("tfs.FeatureStructure.__setitem__", [".", "1", "0", "__setitem__"]),
      ("tfs.FeatureStructure.__getitem__", ["."]),
      ("tfs.FeatureStructure._is_notable", ["1"]),
      ("tfs.FeatureStructure.features", ["{}.{}"])] := by
  refine ⟨?_, ?_, ?_, ?_, ?_, ?_, ?_, ?_, ?_⟩ <;> rfl

end Verif.C15
