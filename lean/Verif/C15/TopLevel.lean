/- C15 — round trip of top-level entities and of files (item sequences with environments) -/
import Verif.C15.RoundTrip

namespace Verif.C15
set_option linter.unusedSimpArgs false
set_option linter.unusedVariables false

/-- a term start, and if it is a docstring then a non-docstring term start follows -/
def startsStrong : List Tok → Prop
  | .doc _ :: t :: _ => Start t = true ∧ (∀ d, t ≠ .doc d)
  | .doc _ :: [] => False
  | t :: _ => Start t = true
  | [] => False

theorem toksTerm_startsStrong (t : Term) (X : List Tok) : startsStrong (toksTerm t ++ X) := by
  cases t with
  | ident d s => cases d <;> simp [toksTerm, docTok, startsStrong, Start]
  | str d s => cases d <;> simp [toksTerm, docTok, startsStrong, Start]
  | regex d s => cases d <;> simp [toksTerm, docTok, startsStrong, Start]
  | coref d s => cases d <;> simp [toksTerm, docTok, startsStrong, Start]
  | avm d fs => cases d <;> simp [toksTerm, docTok, startsStrong, Start]
  | cons d vs e => cases d <;> simp [toksTerm, docTok, startsStrong, Start]
  | diff d vs => cases d <;> simp [toksTerm, docTok, startsStrong, Start]

theorem finishDef_doc (mk : Option Str → Item) (doc : Option Str) (rest : List Tok) :
    finishDef mk (docTok doc ++ .dot :: rest) = .ok (mk doc, rest) := by
  cases doc <;> simp [docTok, finishDef]

theorem noAmp_docdot (doc : Option Str) (rest : List Tok) : noAmp (docTok doc ++ .dot :: rest) := by
  cases doc <;> simp [docTok, noAmp]

theorem parseDef_typedef (m : Nat) (id op : Str) (l : List Term) (r2 : List Tok) :
    ∀ Y : List Tok, startsTerm Y → parseTerms m Y = .ok (l, r2) → l.any isTypeTerm = true →
    parseDef m id (.defop op :: Y) = finishDef (fun d => .typedef id (Terms.ofList l) d) r2
  | [], hs, _, _ => by simp [startsTerm] at hs
  | t :: r, hs, hp, ht => by
    cases t <;> simp_all [startsTerm, Start, parseDef]

theorem parseDef_addendum (m : Nat) (id : Str) (l : List Term) (r2 : List Tok) :
    ∀ Y : List Tok, startsStrong Y → parseTerms m Y = .ok (l, r2) →
    parseDef m id (.addop :: Y) = finishDef (fun d => .addendum id (Terms.ofList l) d) r2
  | [], hs, _ => by simp [startsStrong] at hs
  | t :: r, hs, hp => by
    cases t
    case doc d =>
      cases r with
      | nil => simp [startsStrong] at hs
      | cons t2 r' =>
        cases t2 <;> simp_all [startsStrong, Start, parseDef]
    all_goals simp_all [startsStrong, Start, parseDef]


/-! ### affix sub-patterns -/

theorem dropSp_ne (c : Char) (cs : Str) (h : c ≠ ' ') : dropSp (c :: cs) = c :: cs := by
  apply dropSp.eq_2
  intro cs' e
  simp only [List.cons.injEq] at e
  exact h e.1

theorem dropSp_nil : dropSp [] = [] := by
  apply dropSp.eq_2
  intro cs' e; cases e

def affixOK (mr : Str × Str) : Bool :=
  !mr.1.isEmpty && mr.1.all (· ≠ ' ') && (match mr.2 with | [] => true | c :: _ => c ≠ ' ')

theorem takeWhile_nosp : ∀ (m r : Str), m.all (· ≠ ' ') = true →
    (m ++ ' ' :: r).takeWhile (· ≠ ' ') = m ∧ (m ++ ' ' :: r).dropWhile (· ≠ ' ') = ' ' :: r
  | [], r, _ => by simp
  | c :: m, r, h => by
    simp only [List.all_cons, Bool.and_eq_true, decide_eq_true_eq] at h
    have := takeWhile_nosp m r h.2
    simp [h.1] at this ⊢
    exact this

theorem splitAffix_ok (m r : Str) (h : affixOK (m, r) = true) : splitAffix (m ++ ' ' :: r) = (m, r) := by
  simp only [affixOK, Bool.and_eq_true, Bool.not_eq_true', List.isEmpty_eq_false_iff] at h
  obtain ⟨⟨hne, hall⟩, hr⟩ := h
  cases m with
  | nil => exact absurd rfl hne
  | cons c m' =>
    have hc : c ≠ ' ' := by simp at hall; exact hall.1
    have h1 : dropSp ((c :: m') ++ ' ' :: r) = (c :: m') ++ ' ' :: r := dropSp_ne c _ hc
    have h2 := takeWhile_nosp (c :: m') r hall
    have h3 : dropSp (' ' :: r) = r := by
      rw [dropSp]
      cases r with
      | nil => exact dropSp_nil
      | cons d r' => exact dropSp_ne d r' (by simpa using hr)
    simp only [splitAffix, h1, h2.1, h2.2, h3]

def patToks (pats : List (Str × Str)) : List Tok :=
  pats.map (fun mr => Tok.affixpat (mr.1 ++ ' ' :: mr.2))

theorem takeAffixPats_start : ∀ Y : List Tok, startsTerm Y → takeAffixPats Y = ([], Y)
  | [], h => by simp [startsTerm] at h
  | t :: r, h => by cases t <;> simp_all [startsTerm, Start, takeAffixPats]

theorem takeAffixPats_ok : ∀ (pats : List (Str × Str)) (Y : List Tok), pats.all affixOK = true →
    startsTerm Y → takeAffixPats (patToks pats ++ Y) = (pats, Y)
  | [], Y, _, hs => by simpa [patToks] using takeAffixPats_start Y hs
  | (m, r) :: pats, Y, h, hs => by
    simp only [List.all_cons, Bool.and_eq_true] at h
    have ih := takeAffixPats_ok pats Y h.2 hs
    simp only [patToks] at ih
    simp [patToks, takeAffixPats, splitAffix_ok m r h.1, ih]

/-! ### letter-sets and wild-cards (character level) -/

theorem stripPrefix_append : ∀ (p X : Str), stripPrefix p (p ++ X) = some X
  | [], X => by cases X <;> simp [stripPrefix]
  | c :: p, X => by simp [stripPrefix, stripPrefix_append p X]

def morphCharOK (c : Char) : Bool := c ≠ '\n'

theorem morphChars_esc : ∀ cs : Str, cs.all morphCharOK = true → morphChars (escMorph cs ++ [')']) = some cs
  | [], _ => by simp [escMorph, morphChars, dropSp_nil]
  | c :: cs, h => by
    simp only [List.all_cons, Bool.and_eq_true, morphCharOK, decide_eq_true_eq] at h
    have ih := morphChars_esc cs h.2
    by_cases h1 : c = ')'
    · subst h1; simp [escMorph, morphChars, ih]
    · by_cases h2 : c = ' '
      · subst h2; simp [escMorph, morphChars, ih]
      · by_cases h3 : c = '\\'
        · subst h3; simp [escMorph, morphChars, ih]
        · have : morphChars (c :: (escMorph cs ++ [')'])) = (morphChars (escMorph cs ++ [')'])).map (c :: ·) := by
            apply morphChars.eq_6 <;> intros <;> simp_all
          simp [escMorph, h1, h2, h3, this, ih]

theorem dropSp_escMorph (c : Char) (cs Y : Str) : dropSp (escMorph (c :: cs) ++ Y) = escMorph (c :: cs) ++ Y := by
  by_cases h : c = ')' ∨ c = ' ' ∨ c = '\\'
  · simp only [escMorph, h, if_true, List.cons_append]
    exact dropSp_ne _ _ (by decide)
  · simp only [escMorph, h, if_false, List.cons_append]
    exact dropSp_ne _ _ (fun e => h (Or.inr (Or.inl e)))

def morphOK (sigil : Char) (var chars : Str) : Bool :=
  (match var with
   | [s, v] => s = sigil && v ≠ '\n'
   | _ => false) && !chars.isEmpty && chars.all morphCharOK


theorem morphBody_ok (k0 : Char) (k' : Str) (sigil v : Char) (chars : Str) (hk0 : k0 ≠ ' ')
    (hv : v ≠ '\n') (hne : chars ≠ []) (hall : chars.all morphCharOK = true) :
    morphBody (k0 :: k') sigil ((k0 :: k') ++ (' ' :: '(' :: sigil :: v :: ' ' :: (escMorph chars ++ [')'])))
      = some ([sigil, v], chars) := by
  cases chars with
  | nil => exact absurd rfl hne
  | cons c cs =>
    have h1 : dropSp ((k0 :: k') ++ (' ' :: '(' :: sigil :: v :: ' ' :: (escMorph (c :: cs) ++ [')'])))
        = (k0 :: k') ++ (' ' :: '(' :: sigil :: v :: ' ' :: (escMorph (c :: cs) ++ [')'])) :=
      dropSp_ne k0 _ hk0
    have h2 : dropSp (' ' :: '(' :: sigil :: v :: ' ' :: (escMorph (c :: cs) ++ [')']))
        = '(' :: sigil :: v :: ' ' :: (escMorph (c :: cs) ++ [')']) := by
      rw [dropSp]; exact dropSp_ne _ _ (by decide)
    simp only [morphBody, h1, stripPrefix_append, h2, dropSp_escMorph, morphChars_esc _ hall, hv, ne_eq,
      not_false_eq_true, and_self, if_true]

theorem letterSetName : "letter-set".toList = 'l' :: "etter-set".toList := by decide
theorem wildCardName : "wild-card".toList = 'w' :: "ild-card".toList := by decide
theorem morphSep : " (".toList = [' ', '('] := by decide

theorem parseMorph_letterset (var chars : Str) (h : morphOK '!' var chars = true) :
    parseMorph (morphText "letter-set".toList var chars) = .ok (.letterset var chars) := by
  simp only [morphOK, Bool.and_eq_true, Bool.not_eq_true', List.isEmpty_eq_false_iff] at h
  obtain ⟨⟨hvar, hne⟩, hall⟩ := h
  match var, hvar with
  | [s, v], hvar =>
    simp only [Bool.and_eq_true, decide_eq_true_eq] at hvar
    obtain ⟨rfl, hv⟩ := hvar
    have := morphBody_ok 'l' "etter-set".toList '!' v chars (by decide) hv hne hall
    simp only [parseMorph, morphText, letterSetName, morphSep, List.cons_append, List.nil_append,
      List.append_assoc] at this ⊢
    simp only [this]

theorem parseMorph_wildcard (var chars : Str) (h : morphOK '?' var chars = true) :
    parseMorph (morphText "wild-card".toList var chars) = .ok (.wildcard var chars) := by
  simp only [morphOK, Bool.and_eq_true, Bool.not_eq_true', List.isEmpty_eq_false_iff] at h
  obtain ⟨⟨hvar, hne⟩, hall⟩ := h
  match var, hvar with
  | [s, v], hvar =>
    simp only [Bool.and_eq_true, decide_eq_true_eq] at hvar
    obtain ⟨rfl, hv⟩ := hvar
    have := morphBody_ok 'w' "ild-card".toList '?' v chars (by decide) hv hne hall
    have hno : morphBody "letter-set".toList '!' (morphText "wild-card".toList ['?', v] chars) = none := by
      simp only [morphBody, morphText, wildCardName, letterSetName, List.cons_append]
      rw [dropSp_ne 'w' _ (by decide)]
      simp [stripPrefix]
    simp only [parseMorph, hno]
    simp only [morphText, wildCardName, morphSep, List.cons_append, List.nil_append,
      List.append_assoc] at this ⊢
    simp only [this]


/-! ### definitions -/

theorem parseTerms_toksTerms (t : Term) (ts : Terms) (hw : wfTerms (.cons t ts) = true) (n : Nat)
    (hn : 6 * (toksTerms (.cons t ts)).length + 2 ≤ n) (rest : List Tok) (hr : noAmp rest) :
    parseTerms n (toksTerms (.cons t ts) ++ rest) = .ok ((canonTerms (.cons t ts)).toList, rest) := by
  simp only [wfTerms, Bool.and_eq_true] at hw
  have ht := (main (sizeOf t)).1 t (Nat.le_refl _) hw.1
  obtain ⟨n0, b, h⟩ := (main (sizeOf ts)).2.2.1 ts (Nat.le_refl _) hw.2 t ht
  simp only [toksTerms, List.length_append] at hn
  simpa [toksTerms, canonTerms, Terms.toList] using h n (by omega) rest hr

theorem isTypeTerm_canon (t : Term) : isTypeTerm (canonTerm t) = isTypeTerm t := by
  cases t <;> simp [canonTerm, isTypeTerm]

theorem any_type_canon : ∀ ts : Terms, (canonTerms ts).toList.any isTypeTerm = ts.toList.any isTypeTerm
  | .nil => by simp [canonTerms, Terms.toList]
  | .cons t ts => by simp [canonTerms, Terms.toList, isTypeTerm_canon, any_type_canon ts]

def termsNonempty : Terms → Bool
  | .nil => false
  | _ => true

def wfItem : Item → Bool
  | .typedef _ ts _ => termsNonempty ts && wfTerms ts && ts.toList.any isTypeTerm
  | .addendum _ ts doc => (match ts with | .nil => doc.isSome | _ => wfTerms ts)
  | .lexrule _ _ pats ts _ => termsNonempty ts && wfTerms ts && pats.all affixOK
  | .letterset var chars => morphOK '!' var chars
  | .wildcard var chars => morphOK '?' var chars
  | .beginEnv inst status =>
    if inst then (match status with | some st => !st.isEmpty | none => false) else status.isNone
  | _ => true

/-- `environment`/`envstack` of `_parse_tdl` after an item -/
def envStep (cur : Option Bool) (stack : List (Option Bool)) : Item → Option (Option Bool × List (Option Bool))
  | .beginEnv inst _ => some (some inst, cur :: stack)
  | .endEnv inst =>
    if cur = some inst then
      match stack with
      | prev :: st => some (prev, st)
      | [] => none
    else none
  | _ => some (cur, stack)

def envOK : Option Bool → List (Option Bool) → List Item → Bool
  | _, _, [] => true
  | cur, stack, x :: xs =>
    match envStep cur stack x with
    | some cs => envOK cs.1 cs.2 xs
    | none => false

/-- one item: if the rest of the file parses (in the environment state after the item), the item
followed by the rest parses to `canonItem x` followed by that result -/
def PI (x : Item) : Prop :=
  ∀ m, 6 * (toksItem x).length ≤ m → ∀ (n : Nat) (cur : Option Bool) (stack : List (Option Bool)) (R : List Tok)
    (its : List Item) (cs : Option Bool × List (Option Bool)),
    envStep cur stack x = some cs → parseItems n m cs.1 cs.2 R = .ok its →
    parseItems (n + 1) m cur stack (toksItem x ++ R) = .ok (canonItem x :: its)

theorem pi_typedef (id : Str) (ts : Terms) (doc : Option Str) (hw : wfItem (.typedef id ts doc) = true) :
    PI (.typedef id ts doc) := by
  cases ts with
  | nil => simp [wfItem, termsNonempty] at hw
  | cons t ts =>
    simp only [wfItem, termsNonempty, Bool.true_and, Bool.and_eq_true] at hw
    intro m hm n cur stack R its cs hstep hrec
    simp only [envStep, Option.some.injEq] at hstep
    subst hstep
    have hp := parseTerms_toksTerms t ts hw.1 m
      (by simp only [toksItem, List.length_cons, List.length_append] at hm; omega)
      (docTok doc ++ .dot :: R) (noAmp_docdot doc R)
    have hs : startsTerm (toksTerms (.cons t ts) ++ (docTok doc ++ .dot :: R)) := by
      simp only [toksTerms, List.append_assoc]; exact toksTerm_starts t _
    have hd := parseDef_typedef m id ":=".toList _ _ _ hs hp (by rw [any_type_canon]; exact hw.2)
    rw [finishDef_doc, Terms.ofList_toList] at hd
    simp only [] at hrec
    simp only [toksItem, List.cons_append, List.append_assoc, List.nil_append, parseItems, hd, hrec, canonItem]

theorem pi_addendum (id : Str) (ts : Terms) (doc : Option Str) (hw : wfItem (.addendum id ts doc) = true) :
    PI (.addendum id ts doc) := by
  cases ts with
  | nil =>
    simp only [wfItem] at hw
    cases doc with
    | none => simp at hw
    | some d =>
      intro m hm n cur stack R its cs hstep hrec
      simp only [envStep, Option.some.injEq] at hstep
      subst hstep
      simp only [] at hrec
      simp [toksItem, toksTerms, docTok, parseItems, parseDef, hrec, canonItem, canonTerms]
  | cons t ts =>
    simp only [wfItem] at hw
    intro m hm n cur stack R its cs hstep hrec
    simp only [envStep, Option.some.injEq] at hstep
    subst hstep
    have hp := parseTerms_toksTerms t ts hw m
      (by simp only [toksItem, List.length_cons, List.length_append] at hm; omega)
      (docTok doc ++ .dot :: R) (noAmp_docdot doc R)
    have hs : startsStrong (toksTerms (.cons t ts) ++ (docTok doc ++ .dot :: R)) := by
      simp only [toksTerms, List.append_assoc]; exact toksTerm_startsStrong t _
    have hd := parseDef_addendum m id _ _ _ hs hp
    rw [finishDef_doc, Terms.ofList_toList] at hd
    simp only [] at hrec
    simp only [toksItem, List.cons_append, List.append_assoc, List.nil_append, parseItems, hd, hrec, canonItem]

theorem pi_lexrule (id a : Str) (pats : List (Str × Str)) (ts : Terms) (doc : Option Str)
    (hw : wfItem (.lexrule id a pats ts doc) = true) : PI (.lexrule id a pats ts doc) := by
  cases ts with
  | nil => simp [wfItem, termsNonempty] at hw
  | cons t ts =>
    simp only [wfItem, termsNonempty, Bool.true_and, Bool.and_eq_true] at hw
    intro m hm n cur stack R its cs hstep hrec
    simp only [envStep, Option.some.injEq] at hstep
    subst hstep
    have hp := parseTerms_toksTerms t ts hw.1 m
      (by simp only [toksItem, List.length_cons, List.length_append] at hm; omega)
      (docTok doc ++ .dot :: R) (noAmp_docdot doc R)
    have hs : startsTerm (toksTerms (.cons t ts) ++ (docTok doc ++ .dot :: R)) := by
      simp only [toksTerms, List.append_assoc]; exact toksTerm_starts t _
    have hpat := takeAffixPats_ok pats _ hw.2 hs
    simp only [patToks] at hpat
    simp only [] at hrec
    simp only [toksItem, List.cons_append, List.append_assoc, List.nil_append, parseItems, parseDef, hpat, hp,
      finishDef_doc, Terms.ofList_toList, hrec, canonItem]


end Verif.C15
