/- C15 — text level, top-level entities and files: the second `format` writes the same characters -/
import Verif.C15.TextLemmas

namespace Verif.C15
set_option linter.unusedSimpArgs false
set_option linter.unusedVariables false

/-! ### the split of `_format_typedef_body` -/

theorem isAvmLike_rel (i : Nat) (t : Term) : isAvmLike (relTerm i t) = isAvmLike t := by
  cases t <;> simp [relTerm, isAvmLike]

theorem isAvmLike_canon (t : Term) : isAvmLike (canonTerm t) = isAvmLike t := by
  cases t <;> simp [canonTerm, isAvmLike]

def Terms.noAvm : Terms → Bool
  | .nil => true
  | .cons t ts => !isAvmLike t && ts.noAvm

theorem before_noAvm : ∀ ts : Terms, ts.before.noAvm = true
  | .nil => by simp [Terms.before, Terms.noAvm]
  | .cons t ts => by
    by_cases h : isAvmLike t = true
    · simp [Terms.before, h, Terms.noAvm]
    · simp [Terms.before, h, Terms.noAvm, before_noAvm ts]

theorem fromAvm_before_isNil : ∀ ts : Terms, ts.fromAvm.before.isNil = true
  | .nil => by simp [Terms.fromAvm, Terms.before, Terms.isNil]
  | .cons t ts => by
    by_cases h : isAvmLike t = true
    · simp [Terms.fromAvm, h, Terms.before, Terms.isNil]
    · simp [Terms.fromAvm, h, fromAvm_before_isNil ts]

theorem relTerms_isNil (w : Nat) (ts : Terms) : (relTerms w ts).isNil = ts.isNil := by
  cases ts with
  | nil => simp [relTerms]
  | cons t ts => rw [relTerms_cons]; simp [Terms.isNil]

theorem relTerms_before_isNil (w : Nat) (ts : Terms) : (relTerms w ts).before.isNil = ts.before.isNil := by
  cases ts with
  | nil => simp [relTerms]
  | cons t ts =>
    rw [relTerms_cons]
    by_cases h : isAvmLike t = true
    · simp [Terms.before, isAvmLike_rel, h, Terms.isNil]
    · simp [Terms.before, isAvmLike_rel, h, Terms.isNil]

theorem relTerms_fromAvm_isNil : ∀ (ts : Terms) (w : Nat), (relTerms w ts).fromAvm.isNil = ts.fromAvm.isNil
  | .nil, w => by simp [relTerms]
  | .cons t ts, w => by
    rw [relTerms_cons]
    by_cases h : isAvmLike t = true
    · simp [Terms.fromAvm, isAvmLike_rel, h, Terms.isNil]
    · simp [Terms.fromAvm, isAvmLike_rel, h, relTerms_fromAvm_isNil ts]

theorem relTerms_noAvm : ∀ (ts : Terms) (w : Nat), (relTerms w ts).noAvm = ts.noAvm
  | .nil, w => by simp [relTerms]
  | .cons t ts, w => by
    rw [relTerms_cons]
    simp [Terms.noAvm, isAvmLike_rel, relTerms_noAvm ts]

theorem append_before : ∀ (a b : Terms), a.noAvm = true → b.before.isNil = true → (a.append b).before = a
  | .nil, b, _, hb => by
    cases b with
    | nil => simp [Terms.append, Terms.before]
    | cons t ts =>
      by_cases h : isAvmLike t = true
      · simp [Terms.append, Terms.before, h]
      · simp [Terms.before, h, Terms.isNil] at hb
  | .cons t ts, b, ha, hb => by
    simp only [Terms.noAvm, Bool.and_eq_true, Bool.not_eq_true'] at ha
    simp [Terms.append, Terms.before, ha.1, append_before ts b ha.2 hb]

theorem append_fromAvm : ∀ (a b : Terms), a.noAvm = true → b.before.isNil = true → (a.append b).fromAvm = b
  | .nil, b, _, hb => by
    cases b with
    | nil => simp [Terms.append, Terms.fromAvm]
    | cons t ts =>
      by_cases h : isAvmLike t = true
      · simp [Terms.append, Terms.fromAvm, h]
      · simp [Terms.before, h, Terms.isNil] at hb
  | .cons t ts, b, ha, hb => by
    simp only [Terms.noAvm, Bool.and_eq_true, Bool.not_eq_true'] at ha
    simp [Terms.append, Terms.fromAvm, ha.1, append_fromAvm ts b ha.2 hb]

theorem append_isNil (a b : Terms) : (a.append b).isNil = (a.isNil && b.isNil) := by
  cases a <;> cases b <;> simp [Terms.append, Terms.isNil]

theorem canonTerms_before : ∀ ts : Terms, (canonTerms ts).before = canonTerms ts.before
  | .nil => by simp [canonTerms, Terms.before]
  | .cons t ts => by
    by_cases h : isAvmLike t = true
    · simp [canonTerms, Terms.before, isAvmLike_canon, h]
    · simp [canonTerms, Terms.before, isAvmLike_canon, h, canonTerms_before ts]

theorem canonTerms_fromAvm : ∀ ts : Terms, (canonTerms ts).fromAvm = canonTerms ts.fromAvm
  | .nil => by simp [canonTerms, Terms.fromAvm]
  | .cons t ts => by
    by_cases h : isAvmLike t = true
    · simp [canonTerms, Terms.fromAvm, isAvmLike_canon, h]
    · simp [canonTerms, Terms.fromAvm, isAvmLike_canon, h, canonTerms_fromAvm ts]

theorem canonTerms_isNil (ts : Terms) : (canonTerms ts).isNil = ts.isNil := by
  cases ts <;> simp [canonTerms, Terms.isNil]

theorem clean_before_fromAvm : ∀ ts : Terms, (cleanTerms ts.before && cleanTerms ts.fromAvm) = cleanTerms ts
  | .nil => by simp [Terms.before, Terms.fromAvm, cleanTerms]
  | .cons t ts => by
    by_cases h : isAvmLike t = true
    · simp [Terms.before, Terms.fromAvm, h, cleanTerms]
    · simp [Terms.before, Terms.fromAvm, h, cleanTerms, ← clean_before_fromAvm ts, Bool.and_assoc]

/-! ### the body of a definition -/

theorem bodyConj_rel (indent offset : Nat) (ts : Terms) :
    bodyConj indent offset (relBody indent offset ts) = bodyConj indent offset ts := by
  unfold relBody
  by_cases h : (ts.before.isNil || ts.fromAvm.isNil) = true
  · simp only [h, if_true]
    unfold bodyConj
    simp only [relTerms_before_isNil, relTerms_fromAvm_isNil, h, if_true, fmtTerms_rel]
  · simp only [h, if_false, Bool.false_eq_true]
    have hA : (relTerms offset ts.before).noAvm = true := by rw [relTerms_noAvm]; exact before_noAvm ts
    have hB : (relTerms (baseIndent + indent) ts.fromAvm).before.isNil = true := by
      rw [relTerms_before_isNil]; exact fromAvm_before_isNil ts
    unfold bodyConj
    rw [append_before _ _ hA hB, append_fromAvm _ _ hA hB]
    simp only [relTerms_isNil, h, if_false, Bool.false_eq_true, fmtTerms_rel]

theorem bodyConj_canon (indent offset : Nat) (ts : Terms) (hc : cleanTerms ts = true) :
    bodyConj indent offset (canonTerms ts) = bodyConj indent offset ts := by
  have hc2 := clean_before_fromAvm ts
  rw [hc, Bool.and_eq_true] at hc2
  unfold bodyConj
  simp only [canonTerms_before, canonTerms_fromAvm, canonTerms_isNil, fmtTerms_canon _ _ hc,
    fmtTerms_canon _ _ hc2.1, fmtTerms_canon _ _ hc2.2]

theorem bodyText_second (indent offset : Nat) (ts : Terms) (doc : Option Str)
    (hc : cleanTerms (relBody indent offset ts) = true) :
    bodyText indent offset (canonTerms (relBody indent offset ts)) (relDoc 2 doc) = bodyText indent offset ts doc := by
  unfold bodyText
  rw [bodyConj_canon _ _ _ hc, bodyConj_rel]
  cases doc with
  | none => rfl
  | some d => simp only [relDoc, fmtDoc_idem]

/-! ### items and files -/

theorem fmtItem_second (i : Nat) (x : Item)
    (hc : ∀ ts, (relItem i x).terms? = some ts → cleanTerms ts = true) :
    fmtItem i (canonItem (relItem i x)) = fmtItem i x := by
  cases x with
  | typedef id ts doc =>
    have := hc _ rfl
    simp only [relItem, canonItem, fmtItem, bodyText_second _ _ _ _ this]
  | addendum id ts doc =>
    have := hc _ rfl
    simp only [relItem, canonItem, fmtItem, bodyText_second _ _ _ _ this]
  | lexrule id a pats ts doc =>
    have := hc _ rfl
    simp only [relItem, canonItem, fmtItem, bodyText_second _ _ _ _ this]
  | letterset _ _ => rfl
  | wildcard _ _ => rfl
  | beginEnv _ _ => rfl
  | endEnv _ => rfl
  | include_ _ => rfl
  | lcomment _ => rfl
  | bcomment _ => rfl

def isEnvItem : Item → Bool
  | .beginEnv .. | .endEnv .. => true
  | _ => false

theorem fmtLines_other (lvl : Nat) (x : Item) (r : List Item) (h : isEnvItem x = false) :
    fmtLines lvl (x :: r) = fmtItem lvl x :: fmtLines lvl r := by
  cases x <;> simp [isEnvItem] at h <;> simp [fmtLines]

theorem relLines_other (lvl : Nat) (x : Item) (r : List Item) (h : isEnvItem x = false) :
    relLines lvl (x :: r) = relItem lvl x :: relLines lvl r := by
  cases x <;> simp [isEnvItem] at h <;> simp [relLines]

theorem isEnvItem_canon_rel (i : Nat) (x : Item) : isEnvItem (canonItem (relItem i x)) = isEnvItem x := by
  cases x <;> simp [relItem, canonItem, isEnvItem]

/-- every definition body of the parsed file (`relLines`) is outside F44 -/
def cleanParsed (lvl : Nat) (xs : List Item) : Prop :=
  ∀ x ∈ relLines lvl xs, ∀ ts, x.terms? = some ts → cleanTerms ts = true

theorem fmtLines_second : ∀ (xs : List Item) (lvl : Nat), cleanParsed lvl xs →
    fmtLines lvl ((relLines lvl xs).map canonItem) = fmtLines lvl xs
  | [], _, _ => by simp [relLines, fmtLines]
  | x :: r, lvl, hc => by
    by_cases he : isEnvItem x = true
    · cases x with
      | beginEnv inst st =>
        have hr : cleanParsed (lvl + 2) r := by
          intro y hy; exact hc y (by simp [relLines, hy])
        simp only [relLines, List.map_cons, canonItem, fmtLines, fmtLines_second r (lvl + 2) hr]
      | endEnv inst =>
        have hr : cleanParsed (lvl - 2) r := by
          intro y hy; exact hc y (by simp [relLines, hy])
        simp only [relLines, List.map_cons, canonItem, fmtLines, fmtLines_second r (lvl - 2) hr]
      | typedef _ _ _ => simp [isEnvItem] at he
      | addendum _ _ _ => simp [isEnvItem] at he
      | lexrule _ _ _ _ _ => simp [isEnvItem] at he
      | letterset _ _ => simp [isEnvItem] at he
      | wildcard _ _ => simp [isEnvItem] at he
      | include_ _ => simp [isEnvItem] at he
      | lcomment _ => simp [isEnvItem] at he
      | bcomment _ => simp [isEnvItem] at he
    · have he' : isEnvItem x = false := by simpa using he
      have hr : cleanParsed lvl r := by
        intro y hy; exact hc y (by rw [relLines_other _ _ _ he']; simp [hy])
      have hx : ∀ ts, (relItem lvl x).terms? = some ts → cleanTerms ts = true :=
        hc (relItem lvl x) (by rw [relLines_other _ _ _ he']; simp)
      rw [relLines_other _ _ _ he', List.map_cons,
        fmtLines_other _ _ _ (by rw [isEnvItem_canon_rel]; exact he'), fmtLines_other _ _ _ he',
        fmtItem_second _ _ hx, fmtLines_second r lvl hr]

theorem fmtFile_second (xs : List Item) (hc : cleanParsed 0 xs) :
    fmtFile ((relLines 0 xs).map canonItem) = fmtFile xs := by
  unfold fmtFile
  rw [fmtLines_second xs 0 hc]

end Verif.C15
