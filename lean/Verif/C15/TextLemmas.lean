/- C15 — lemmas about the text-level formatter model (Text.lean): the docstrings the parser returns
(`rel*`) and the re-parsed structure (`canon*`) are written with exactly the same characters -/
import Verif.C15.Text
import Verif.C15.Second
import Verif.C15.DocStable

namespace Verif.C15
set_option linter.unusedSimpArgs false
set_option linter.unusedVariables false

/-! ### unfolding lemmas -/

theorem fmtFeat_pass (i : Nat) (pre : List Str) (k k2 : Str) (v2 : Val) :
    fmtFeat i pre k (.term (.avm none (.cons k2 v2 .nil))) = fmtFeat i (pre ++ [k]) k2 v2 :=
  fmtFeat.eq_1 i pre k k2 v2

theorem fmtFeat_nonpass (i : Nat) (pre : List Str) (k : Str) (v : Val) (h : isPass v = false) :
    fmtFeat i pre k v = featLine (joinDot (pre ++ [k])) (fmtVal (i + (joinDot (pre ++ [k])).length + 3) v) := by
  cases v with
  | term t =>
    rw [fmtFeat.eq_2, fmtVal]
    intro k2 v2 e; subst e; simp [isPass] at h
  | conj ts => rw [fmtFeat.eq_3, fmtVal]

theorem relFeat_pass (i : Nat) (pre : List Str) (k k2 : Str) (v2 : Val) :
    relFeat i pre k (.term (.avm none (.cons k2 v2 .nil)))
      = .term (.avm none (.cons k2 (relFeat i (pre ++ [k]) k2 v2) .nil)) :=
  relFeat.eq_1 i pre k k2 v2

theorem relFeat_nonpass (i : Nat) (pre : List Str) (k : Str) (v : Val) (h : isPass v = false) :
    relFeat i pre k v = relVal (i + (joinDot (pre ++ [k])).length + 3) v := by
  cases v with
  | term t =>
    rw [relFeat.eq_2, relVal]
    intro k2 v2 e; subst e; simp [isPass] at h
  | conj ts => rw [relFeat.eq_3, relVal]

theorem relTerms_cons (w : Nat) (t : Term) (ts : Terms) :
    relTerms w (.cons t ts) = .cons (relTerm w t) (relTerms (w + maxLineLen (fmtTerm w t) + 3) ts) := by
  cases ts with
  | nil => simp [relTerms]
  | cons t2 ts => rw [relTerms.eq_3]; intro h; cases h

theorem docText_rel (i : Nat) (d : Option Str) : docText i (relDoc i d) = docText i d := by
  cases d with
  | none => rfl
  | some d => simp only [relDoc, docText, fmtDoc_idem]

theorem isPass_relVal (j : Nat) (v : Val) : isPass (relVal j v) = isPass v := by
  cases v with
  | conj ts => simp [relVal, isPass]
  | term t =>
    cases t with
    | avm d fs =>
      cases d with
      | some d => simp [relVal, relTerm, relDoc, isPass]
      | none =>
        cases fs with
        | nil => simp [relVal, relTerm, relDoc, relFeats, isPass]
        | cons k v fs =>
          cases fs <;> simp [relVal, relTerm, relDoc, relFeats, isPass]
    | ident d s => simp [relVal, relTerm, isPass]
    | str d s => simp [relVal, relTerm, isPass]
    | regex d s => simp [relVal, relTerm, isPass]
    | coref d s => simp [relVal, relTerm, isPass]
    | cons d vs e => simp [relVal, relTerm, isPass]
    | diff d vs => simp [relVal, relTerm, isPass]

/-! ### formatting what the parser returns (docstrings): same text -/

def FmtRel (n : Nat) : Prop :=
  (∀ t : Term, sizeOf t ≤ n → ∀ i, fmtTerm i (relTerm i t) = fmtTerm i t) ∧
  (∀ v : Val, sizeOf v ≤ n → ∀ i, fmtVal i (relVal i v) = fmtVal i v) ∧
  (∀ ts : Terms, sizeOf ts ≤ n → ∀ w,
    fmtTerms w (relTerms w ts) = fmtTerms w ts ∧ fmtAmp w (relTerms w ts) = fmtAmp w ts) ∧
  (∀ v : Val, sizeOf v ≤ n → ∀ i pre k, fmtFeat i pre k (relFeat i pre k v) = fmtFeat i pre k v) ∧
  (∀ fs : Feats, sizeOf fs ≤ n → ∀ i, fmtFeats i (relFeats i fs) = fmtFeats i fs) ∧
  (∀ vs : Items, sizeOf vs ≤ n → ∀ i, fmtItems i (relItems i vs) = fmtItems i vs) ∧
  (∀ e : End, sizeOf e ≤ n → ∀ i, fmtEnd i (relEnd i e) = fmtEnd i e)

theorem fmtRel : ∀ n, FmtRel n := by
  intro n
  induction n with
  | zero =>
    refine ⟨?_, ?_, ?_, ?_, ?_, ?_, ?_⟩ <;> intro x h <;> cases x <;> simp at h
  | succ n ih =>
    obtain ⟨iT, iV, iTs, iF, iFs, iVs, iE⟩ := ih
    have hT : ∀ t : Term, sizeOf t ≤ n + 1 → ∀ i, fmtTerm i (relTerm i t) = fmtTerm i t := by
      intro t hs i
      cases t with
      | ident d s => simp only [relTerm, fmtTerm, docText_rel]
      | str d s => simp only [relTerm, fmtTerm, docText_rel]
      | regex d s => simp only [relTerm, fmtTerm, docText_rel]
      | coref d s => simp only [relTerm, fmtTerm, docText_rel]
      | avm d fs =>
        simp at hs
        simp only [relTerm, fmtTerm, docText_rel, iFs fs (by omega)]
      | cons d vs e =>
        simp at hs
        simp only [relTerm, fmtTerm, docText_rel, iVs vs (by omega), iE e (by omega)]
      | diff d vs =>
        simp at hs
        simp only [relTerm, fmtTerm, docText_rel, iVs vs (by omega)]
    have hV : ∀ v : Val, sizeOf v ≤ n + 1 → ∀ i, fmtVal i (relVal i v) = fmtVal i v := by
      intro v hs i
      cases v with
      | term t =>
        simp at hs
        simp only [relVal, fmtVal, iT t (by omega)]
      | conj ts =>
        simp at hs
        simp only [relVal, fmtVal, (iTs ts (by omega) i).1]
    refine ⟨hT, hV, ?_, ?_, ?_, ?_, ?_⟩
    · intro ts hs w
      cases ts with
      | nil => simp [relTerms]
      | cons t ts =>
        simp at hs
        have h1 := iT t (by omega) w
        have h2 := iTs ts (by omega) (w + maxLineLen (fmtTerm w t) + 3)
        rw [relTerms_cons]
        simp only [fmtTerms, fmtAmp, h1, h2.2, and_self]
    · intro v hs i pre k
      rcases pass_or v with ⟨k2, v2, rfl⟩ | hnp
      · simp at hs
        rw [relFeat_pass, fmtFeat_pass, fmtFeat_pass]
        exact iF v2 (by omega) _ _ _
      · rw [relFeat_nonpass _ _ _ _ hnp, fmtFeat_nonpass _ _ _ _ (by rw [isPass_relVal]; exact hnp),
          fmtFeat_nonpass _ _ _ _ hnp, hV v hs]
    · intro fs hs i
      cases fs with
      | nil => simp [relFeats]
      | cons k v fs =>
        simp at hs
        simp only [relFeats, fmtFeats, iF v (by omega), iFs fs (by omega)]
    · intro vs hs i
      cases vs with
      | nil => simp [relItems]
      | cons v vs =>
        simp at hs
        simp only [relItems, fmtItems, iV v (by omega), iVs vs (by omega)]
    · intro e hs i
      cases e with
      | closed => simp [relEnd]
      | opn => simp [relEnd]
      | dotted w =>
        simp at hs
        simp only [relEnd, fmtEnd, iV w (by omega)]

theorem fmtTerm_rel (i : Nat) (t : Term) : fmtTerm i (relTerm i t) = fmtTerm i t :=
  (fmtRel (sizeOf t)).1 t (Nat.le_refl _) i
theorem fmtVal_rel (i : Nat) (v : Val) : fmtVal i (relVal i v) = fmtVal i v :=
  (fmtRel (sizeOf v)).2.1 v (Nat.le_refl _) i
theorem fmtTerms_rel (w : Nat) (ts : Terms) : fmtTerms w (relTerms w ts) = fmtTerms w ts :=
  ((fmtRel (sizeOf ts)).2.2.1 ts (Nat.le_refl _) w).1

/-! ### the parser's docstrings are a fixed point: reading the second text gives the same object -/

theorem relDoc_idem (i : Nat) (d : Option Str) : relDoc i (relDoc i d) = relDoc i d := by
  cases d with
  | none => rfl
  | some d => simp only [relDoc, fmtDoc_idem]

def RelRel (n : Nat) : Prop :=
  (∀ t : Term, sizeOf t ≤ n → ∀ i, relTerm i (relTerm i t) = relTerm i t) ∧
  (∀ v : Val, sizeOf v ≤ n → ∀ i, relVal i (relVal i v) = relVal i v) ∧
  (∀ ts : Terms, sizeOf ts ≤ n → ∀ w, relTerms w (relTerms w ts) = relTerms w ts) ∧
  (∀ v : Val, sizeOf v ≤ n → ∀ i pre k, relFeat i pre k (relFeat i pre k v) = relFeat i pre k v) ∧
  (∀ fs : Feats, sizeOf fs ≤ n → ∀ i, relFeats i (relFeats i fs) = relFeats i fs) ∧
  (∀ vs : Items, sizeOf vs ≤ n → ∀ i, relItems i (relItems i vs) = relItems i vs) ∧
  (∀ e : End, sizeOf e ≤ n → ∀ i, relEnd i (relEnd i e) = relEnd i e)

theorem relRel : ∀ n, RelRel n := by
  intro n
  induction n with
  | zero =>
    refine ⟨?_, ?_, ?_, ?_, ?_, ?_, ?_⟩ <;> intro x h <;> cases x <;> simp at h
  | succ n ih =>
    obtain ⟨iT, iV, iTs, iF, iFs, iVs, iE⟩ := ih
    have hT : ∀ t : Term, sizeOf t ≤ n + 1 → ∀ i, relTerm i (relTerm i t) = relTerm i t := by
      intro t hs i
      cases t with
      | ident d s => simp only [relTerm, relDoc_idem]
      | str d s => simp only [relTerm, relDoc_idem]
      | regex d s => simp only [relTerm, relDoc_idem]
      | coref d s => simp only [relTerm, relDoc_idem]
      | avm d fs =>
        simp at hs
        simp only [relTerm, relDoc_idem, iFs fs (by omega)]
      | cons d vs e =>
        simp at hs
        simp only [relTerm, relDoc_idem, iVs vs (by omega), iE e (by omega)]
      | diff d vs =>
        simp at hs
        simp only [relTerm, relDoc_idem, iVs vs (by omega)]
    have hV : ∀ v : Val, sizeOf v ≤ n + 1 → ∀ i, relVal i (relVal i v) = relVal i v := by
      intro v hs i
      cases v with
      | term t =>
        simp at hs
        simp only [relVal, iT t (by omega)]
      | conj ts =>
        simp at hs
        simp only [relVal, iTs ts (by omega) i]
    refine ⟨hT, hV, ?_, ?_, ?_, ?_, ?_⟩
    · intro ts hs w
      cases ts with
      | nil => simp [relTerms]
      | cons t ts =>
        simp at hs
        rw [relTerms_cons, relTerms_cons, fmtTerm_rel, iT t (by omega), iTs ts (by omega)]
    · intro v hs i pre k
      rcases pass_or v with ⟨k2, v2, rfl⟩ | hnp
      · simp at hs
        rw [relFeat_pass, relFeat_pass, iF v2 (by omega)]
      · rw [relFeat_nonpass _ _ _ _ hnp, relFeat_nonpass _ _ _ _ (by rw [isPass_relVal]; exact hnp), hV v hs]
    · intro fs hs i
      cases fs with
      | nil => simp [relFeats]
      | cons k v fs =>
        simp at hs
        simp only [relFeats, iF v (by omega), iFs fs (by omega)]
    · intro vs hs i
      cases vs with
      | nil => simp [relItems]
      | cons v vs =>
        simp at hs
        simp only [relItems, iV v (by omega), iVs vs (by omega)]
    · intro e hs i
      cases e with
      | closed => simp [relEnd]
      | opn => simp [relEnd]
      | dotted w =>
        simp at hs
        simp only [relEnd, iV w (by omega)]

theorem relTerms_idem (w : Nat) (ts : Terms) : relTerms w (relTerms w ts) = relTerms w ts :=
  (relRel (sizeOf ts)).2.2.1 ts (Nat.le_refl _) w

/-! ### formatting the re-parsed structure (`canon`): same text, outside F44 -/

def FmtCanon (n : Nat) : Prop :=
  (∀ t : Term, sizeOf t ≤ n → cleanTerm t = true → ∀ i, fmtTerm i (canonTerm t) = fmtTerm i t) ∧
  (∀ v : Val, sizeOf v ≤ n → cleanVal v = true → ∀ i, fmtVal i (canonVal v) = fmtVal i v) ∧
  (∀ ts : Terms, sizeOf ts ≤ n → cleanTerms ts = true → ∀ w,
    fmtTerms w (canonTerms ts) = fmtTerms w ts ∧ fmtAmp w (canonTerms ts) = fmtAmp w ts) ∧
  (∀ v : Val, sizeOf v ≤ n → cleanVal v = true → trivFeat v = false →
    ∀ i pre k, fmtFeat i pre k (canonVal v) = fmtFeat i pre k v) ∧
  (∀ fs : Feats, sizeOf fs ≤ n → cleanFeats fs = true → ∀ i, fmtFeats i (canonFeats fs) = fmtFeats i fs) ∧
  (∀ vs : Items, sizeOf vs ≤ n → cleanItems vs = true → ∀ i, fmtItems i (canonItems vs) = fmtItems i vs) ∧
  (∀ e : End, sizeOf e ≤ n → cleanEnd e = true → ∀ i, fmtEnd i (canonEnd e) = fmtEnd i e)

theorem fmtCanon : ∀ n, FmtCanon n := by
  intro n
  induction n with
  | zero =>
    refine ⟨?_, ?_, ?_, ?_, ?_, ?_, ?_⟩ <;> intro x h <;> cases x <;> simp at h
  | succ n ih =>
    obtain ⟨iT, iV, iTs, iF, iFs, iVs, iE⟩ := ih
    have hT : ∀ t : Term, sizeOf t ≤ n + 1 → cleanTerm t = true → ∀ i, fmtTerm i (canonTerm t) = fmtTerm i t := by
      intro t hs hc i
      cases t with
      | ident d s => simp [canonTerm]
      | str d s => simp [canonTerm]
      | regex d s => simp [canonTerm]
      | coref d s => simp [canonTerm]
      | avm d fs =>
        simp at hs
        simp only [cleanTerm] at hc
        simp only [canonTerm, fmtTerm, iFs fs (by omega) hc]
      | cons d vs e =>
        simp at hs
        simp only [cleanTerm, Bool.and_eq_true] at hc
        simp only [canonTerm, fmtTerm, iVs vs (by omega) hc.1, iE e (by omega) hc.2]
      | diff d vs =>
        simp at hs
        simp only [cleanTerm] at hc
        simp only [canonTerm, fmtTerm, iVs vs (by omega) hc]
    have hV : ∀ v : Val, sizeOf v ≤ n + 1 → cleanVal v = true → ∀ i, fmtVal i (canonVal v) = fmtVal i v := by
      intro v hs hc i
      cases v with
      | term t =>
        simp at hs
        simp only [cleanVal] at hc
        simp only [canonVal, fmtVal, iT t (by omega) hc]
      | conj ts =>
        simp at hs
        simp only [cleanVal] at hc
        cases ts with
        | nil => simp [canonVal, canonTerms]
        | cons t ts =>
          cases ts with
          | nil =>
            simp only [cleanTerms, Bool.and_true] at hc
            simp at hs
            simp [canonVal, fmtVal, fmtTerms, fmtAmp, iT t (by omega) hc]
          | cons t2 ts =>
            have := (iTs (.cons t (.cons t2 ts)) (by omega) hc i).1
            simp only [canonVal, fmtVal, this]
    refine ⟨hT, hV, ?_, ?_, ?_, ?_, ?_⟩
    · intro ts hs hc w
      cases ts with
      | nil => simp [canonTerms]
      | cons t ts =>
        simp at hs
        simp only [cleanTerms, Bool.and_eq_true] at hc
        have h1 := iT t (by omega) hc.1 w
        have h2 := iTs ts (by omega) hc.2 (w + maxLineLen (fmtTerm w t) + 3)
        simp only [canonTerms, fmtTerms, fmtAmp, h1, h2.2, and_self]
    · intro v hs hc ht i pre k
      rcases pass_or v with ⟨k2, v2, rfl⟩ | hnp
      · simp at hs
        simp only [cleanVal, cleanTerm, cleanFeats, Bool.and_eq_true, Bool.not_eq_true', Bool.and_true] at hc
        simp only [canonVal, canonTerm, canonFeats, fmtFeat_pass]
        exact iF v2 (by omega) hc.2 hc.1 _ _ _
      · rw [fmtFeat_nonpass _ _ _ _ (canon_nonpass v hnp ht), fmtFeat_nonpass _ _ _ _ hnp, hV v hs hc]
    · intro fs hs hc i
      cases fs with
      | nil => simp [canonFeats]
      | cons k v fs =>
        simp at hs
        simp only [cleanFeats, Bool.and_eq_true, Bool.not_eq_true'] at hc
        simp only [canonFeats, fmtFeats, iF v (by omega) hc.1.2 hc.1.1, iFs fs (by omega) hc.2]
    · intro vs hs hc i
      cases vs with
      | nil => simp [canonItems]
      | cons v vs =>
        simp at hs
        simp only [cleanItems, Bool.and_eq_true] at hc
        simp only [canonItems, fmtItems, iV v (by omega) hc.1, iVs vs (by omega) hc.2]
    · intro e hs hc i
      cases e with
      | closed => simp [canonEnd]
      | opn => simp [canonEnd]
      | dotted w =>
        simp at hs
        simp only [cleanEnd] at hc
        simp only [canonEnd, fmtEnd, iV w (by omega) hc]

theorem fmtTerms_canon (w : Nat) (ts : Terms) (hc : cleanTerms ts = true) :
    fmtTerms w (canonTerms ts) = fmtTerms w ts :=
  ((fmtCanon (sizeOf ts)).2.2.1 ts (Nat.le_refl _) hc w).1

theorem fmtVal_canon (i : Nat) (v : Val) (hc : cleanVal v = true) : fmtVal i (canonVal v) = fmtVal i v :=
  (fmtCanon (sizeOf v)).2.1 v (Nat.le_refl _) hc i

end Verif.C15
