/- C15 — text level: well-formedness (`wf*`, `wfItem`, `envOK`) is about structure only, so the file the
parser returns for the written text (`relLines`) is well-formed iff the written one is; hence the
token-level round trip applies to the tokens of the real text -/
import Verif.C15.TextClean
import Verif.C15.Files

namespace Verif.C15
set_option linter.unusedSimpArgs false
set_option linter.unusedVariables false

theorem valEq_canon_rel (i : Nat) (v : Val) (s : Str) :
    valEqStr (canonVal (relVal i v)) s = valEqStr (canonVal v) s := by
  cases v with
  | term t => cases t <;> simp [relVal, relTerm, canonVal, canonTerm, valEqStr]
  | conj ts =>
    cases ts with
    | nil => simp [relVal, relTerms, canonVal, canonTerms, valEqStr]
    | cons t ts =>
      cases ts with
      | nil => cases t <;> simp [relVal, relTerms, relTerm, canonVal, canonTerm, valEqStr]
      | cons t2 ts => simp [relVal, relTerms_cons, canonVal, canonTerms, valEqStr]

def WfRel (n : Nat) : Prop :=
  (∀ t : Term, sizeOf t ≤ n → ∀ i, wfTerm (relTerm i t) = wfTerm t) ∧
  (∀ v : Val, sizeOf v ≤ n → ∀ i, wfVal (relVal i v) = wfVal v) ∧
  (∀ ts : Terms, sizeOf ts ≤ n → ∀ w, wfTerms (relTerms w ts) = wfTerms ts) ∧
  (∀ v : Val, sizeOf v ≤ n → ∀ i pre k, wfVal (relFeat i pre k v) = wfVal v) ∧
  (∀ fs : Feats, sizeOf fs ≤ n → ∀ i, wfFeats (relFeats i fs) = wfFeats fs ∧ (relFeats i fs).keys = fs.keys) ∧
  (∀ vs : Items, sizeOf vs ≤ n → ∀ i, wfItems (relItems i vs) = wfItems vs ∧ (relItems i vs).isNil = vs.isNil) ∧
  (∀ e : End, sizeOf e ≤ n → ∀ i emp, wfEnd emp (relEnd i e) = wfEnd emp e)

theorem wfRel : ∀ n, WfRel n := by
  intro n
  induction n with
  | zero =>
    refine ⟨?_, ?_, ?_, ?_, ?_, ?_, ?_⟩ <;> intro x h <;> cases x <;> simp at h
  | succ n ih =>
    obtain ⟨iT, iV, iTs, iF, iFs, iVs, iE⟩ := ih
    have hT : ∀ t : Term, sizeOf t ≤ n + 1 → ∀ i, wfTerm (relTerm i t) = wfTerm t := by
      intro t hs i
      cases t with
      | ident d s => simp only [relTerm, wfTerm]
      | str d s => simp only [relTerm, wfTerm]
      | regex d s => simp only [relTerm, wfTerm]
      | coref d s => simp only [relTerm, wfTerm]
      | avm d fs =>
        simp at hs
        simp only [relTerm, wfTerm, (iFs fs (by omega) i).1, (iFs fs (by omega) i).2]
      | cons d vs e =>
        simp at hs
        simp only [relTerm, wfTerm, (iVs vs (by omega) _).1, (iVs vs (by omega) _).2, iE e (by omega)]
      | diff d vs =>
        simp at hs
        simp only [relTerm, wfTerm, (iVs vs (by omega) _).1]
    have hV : ∀ v : Val, sizeOf v ≤ n + 1 → ∀ i, wfVal (relVal i v) = wfVal v := by
      intro v hs i
      cases v with
      | term t =>
        simp at hs
        simp only [relVal, wfVal, iT t (by omega)]
      | conj ts =>
        simp at hs
        have h := iTs ts (by omega) i
        cases ts with
        | nil => simp [relVal, relTerms, wfVal]
        | cons t ts =>
          rw [relTerms_cons] at h
          simp only [relVal, relTerms_cons, wfVal, h]
    refine ⟨hT, hV, ?_, ?_, ?_, ?_, ?_⟩
    · intro ts hs w
      cases ts with
      | nil => simp [relTerms]
      | cons t ts =>
        simp at hs
        rw [relTerms_cons]
        simp only [wfTerms, iT t (by omega), iTs ts (by omega)]
    · intro v hs i pre k
      rcases pass_or v with ⟨k2, v2, rfl⟩ | hnp
      · simp at hs
        rw [relFeat_pass]
        simp only [wfVal, wfTerm, wfFeats, Feats.keys, iF v2 (by omega)]
      · rw [relFeat_nonpass _ _ _ _ hnp, hV v hs]
    · intro fs hs i
      cases fs with
      | nil => simp [relFeats]
      | cons k v fs =>
        simp at hs
        simp only [relFeats, wfFeats, Feats.keys, iF v (by omega), (iFs fs (by omega) i).1,
          (iFs fs (by omega) i).2, and_self]
    · intro vs hs i
      cases vs with
      | nil => simp [relItems]
      | cons v vs =>
        simp at hs
        simp only [relItems, wfItems, Items.isNil, iV v (by omega), (iVs vs (by omega) i).1, and_self]
    · intro e hs i emp
      cases e with
      | closed => simp [relEnd]
      | opn => simp [relEnd]
      | dotted w =>
        simp at hs
        simp only [relEnd, wfEnd, iV w (by omega), valEq_canon_rel]

theorem wfTerms_rel (w : Nat) (ts : Terms) : wfTerms (relTerms w ts) = wfTerms ts :=
  (wfRel (sizeOf ts)).2.2.1 ts (Nat.le_refl _) w

/-! ### bodies -/

def Terms.anyTT : Terms → Bool
  | .nil => false
  | .cons t ts => isTypeTerm t || ts.anyTT

theorem anyTT_toList : ∀ ts : Terms, ts.toList.any isTypeTerm = ts.anyTT
  | .nil => by simp [Terms.toList, Terms.anyTT]
  | .cons t ts => by simp [Terms.toList, Terms.anyTT, anyTT_toList ts]

theorem isTypeTerm_rel (i : Nat) (t : Term) : isTypeTerm (relTerm i t) = isTypeTerm t := by
  cases t <;> simp [relTerm, isTypeTerm]

theorem anyTT_rel : ∀ (ts : Terms) (w : Nat), (relTerms w ts).anyTT = ts.anyTT
  | .nil, w => by simp [relTerms]
  | .cons t ts, w => by rw [relTerms_cons]; simp [Terms.anyTT, isTypeTerm_rel, anyTT_rel ts]

theorem anyTT_append : ∀ a b : Terms, (a.append b).anyTT = (a.anyTT || b.anyTT)
  | .nil, b => by simp [Terms.append, Terms.anyTT]
  | .cons t ts, b => by simp [Terms.append, Terms.anyTT, anyTT_append ts b, Bool.or_assoc]

theorem anyTT_before_fromAvm : ∀ ts : Terms, (ts.before.anyTT || ts.fromAvm.anyTT) = ts.anyTT
  | .nil => by simp [Terms.before, Terms.fromAvm, Terms.anyTT]
  | .cons t ts => by
    by_cases h : isAvmLike t = true
    · simp [Terms.before, Terms.fromAvm, h, Terms.anyTT]
    · simp [Terms.before, Terms.fromAvm, h, Terms.anyTT, ← anyTT_before_fromAvm ts, Bool.or_assoc]

theorem wfTerms_append : ∀ a b : Terms, wfTerms (a.append b) = (wfTerms a && wfTerms b)
  | .nil, b => by simp [Terms.append, wfTerms]
  | .cons t ts, b => by simp [Terms.append, wfTerms, wfTerms_append ts b, Bool.and_assoc]

theorem wf_before_fromAvm : ∀ ts : Terms, (wfTerms ts.before && wfTerms ts.fromAvm) = wfTerms ts
  | .nil => by simp [Terms.before, Terms.fromAvm, wfTerms]
  | .cons t ts => by
    by_cases h : isAvmLike t = true
    · simp [Terms.before, Terms.fromAvm, h, wfTerms]
    · simp [Terms.before, Terms.fromAvm, h, wfTerms, ← wf_before_fromAvm ts, Bool.and_assoc]

theorem termsNonempty_isNil (ts : Terms) : termsNonempty ts = !ts.isNil := by
  cases ts <;> simp [termsNonempty, Terms.isNil]

theorem before_isNil_of_nil (ts : Terms) (h : ts.isNil = true) : ts.before.isNil = true := by
  cases ts with
  | nil => simp [Terms.before, Terms.isNil]
  | cons _ _ => simp [Terms.isNil] at h

theorem relBody_props (indent offset : Nat) (ts : Terms) :
    wfTerms (relBody indent offset ts) = wfTerms ts
    ∧ (relBody indent offset ts).anyTT = ts.anyTT
    ∧ (relBody indent offset ts).isNil = ts.isNil := by
  unfold relBody
  by_cases h : (ts.before.isNil || ts.fromAvm.isNil) = true
  · simp only [h, if_true]
    exact ⟨wfTerms_rel _ _, anyTT_rel _ _, relTerms_isNil _ _⟩
  · simp only [h, if_false, Bool.false_eq_true]
    refine ⟨?_, ?_, ?_⟩
    · rw [wfTerms_append, wfTerms_rel, wfTerms_rel, wf_before_fromAvm]
    · rw [anyTT_append, anyTT_rel, anyTT_rel, anyTT_before_fromAvm]
    · rw [append_isNil, relTerms_isNil, relTerms_isNil]
      have hb : ts.before.isNil = false := by
        cases hb : ts.before.isNil <;> simp [hb] at h ⊢
      have : ts.isNil = false := by
        cases hn : ts.isNil
        · rfl
        · rw [before_isNil_of_nil ts hn] at hb; cases hb
      simp [hb, this]

theorem relDoc_isSome (i : Nat) (d : Option Str) : (relDoc i d).isSome = d.isSome := by
  cases d <;> rfl

theorem wfItem_rel (i : Nat) (x : Item) : wfItem (relItem i x) = wfItem x := by
  cases x with
  | typedef id ts doc =>
    obtain ⟨h1, h2, h3⟩ := relBody_props i (i + id.length + 4) ts
    simp only [relItem, wfItem, termsNonempty_isNil, anyTT_toList, h1, h2, h3]
  | addendum id ts doc =>
    obtain ⟨h1, h2, h3⟩ := relBody_props i (i + id.length + 4) ts
    simp only [relItem, wfItem]
    cases ts with
    | nil =>
      have : relBody i (i + id.length + 4) .nil = .nil := by simp [relBody, Terms.before, Terms.isNil, relTerms]
      rw [this]; simp only [relDoc_isSome]
    | cons t ts =>
      cases hb : relBody i (i + id.length + 4) (.cons t ts) with
      | nil => rw [hb] at h3; simp [Terms.isNil] at h3
      | cons t' ts' => rw [hb] at h1; simp only [h1]
  | lexrule id a pats ts doc =>
    obtain ⟨h1, h2, h3⟩ := relBody_props i (i + 2) ts
    simp only [relItem, wfItem, termsNonempty_isNil, h1, h3]
  | letterset _ _ => rfl
  | wildcard _ _ => rfl
  | beginEnv _ _ => rfl
  | endEnv _ => rfl
  | include_ _ => rfl
  | lcomment _ => rfl
  | bcomment _ => rfl

theorem envStep_rel (i : Nat) (cur : Option Bool) (stack : List (Option Bool)) (x : Item) :
    envStep cur stack (relItem i x) = envStep cur stack x := by
  cases x <;> rfl

theorem relLines_cons (lvl : Nat) (x : Item) (r : List Item) :
    ∃ lvl', relLines lvl (x :: r) = relItem lvl x :: relLines lvl' r := by
  cases x with
  | beginEnv inst st => exact ⟨lvl + 2, rfl⟩
  | endEnv inst => exact ⟨lvl - 2, rfl⟩
  | typedef _ _ _ => exact ⟨lvl, rfl⟩
  | addendum _ _ _ => exact ⟨lvl, rfl⟩
  | lexrule _ _ _ _ _ => exact ⟨lvl, rfl⟩
  | letterset _ _ => exact ⟨lvl, rfl⟩
  | wildcard _ _ => exact ⟨lvl, rfl⟩
  | include_ _ => exact ⟨lvl, rfl⟩
  | lcomment _ => exact ⟨lvl, rfl⟩
  | bcomment _ => exact ⟨lvl, rfl⟩

theorem envOK_relLines : ∀ (xs : List Item) (lvl : Nat) (cur : Option Bool) (stack : List (Option Bool)),
    envOK cur stack (relLines lvl xs) = envOK cur stack xs
  | [], _, _, _ => by simp [relLines, envOK]
  | x :: r, lvl, cur, stack => by
    obtain ⟨lvl', h⟩ := relLines_cons lvl x r
    rw [h]
    simp only [envOK, envStep_rel]
    cases envStep cur stack x with
    | none => rfl
    | some cs => exact envOK_relLines r lvl' cs.1 cs.2

theorem wf_relLines : ∀ (xs : List Item) (lvl : Nat), (∀ x ∈ xs, wfItem x = true) →
    ∀ y ∈ relLines lvl xs, wfItem y = true
  | [], _, _ => by intro y hy; simp [relLines] at hy
  | x :: r, lvl, hw => by
    obtain ⟨lvl', h⟩ := relLines_cons lvl x r
    rw [h]
    intro y hy
    rcases List.mem_cons.mp hy with rfl | hy
    · rw [wfItem_rel]; exact hw x (by simp)
    · exact wf_relLines r lvl' (fun z hz => hw z (by simp [hz])) y hy

/-- the parser on the tokens of the written text (docstrings as written at their places) -/
theorem parseFile_relLines (xs : List Item) (hw : ∀ x ∈ xs, wfItem x = true) (henv : envOK none [] xs = true) :
    parseFile ((relLines 0 xs).flatMap toksItem) = .ok ((relLines 0 xs).map canonItem) :=
  parseFile_toks (relLines 0 xs) (wf_relLines xs 0 hw) (by rw [envOK_relLines]; exact henv)

end Verif.C15
