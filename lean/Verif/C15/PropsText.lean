/-
C15 — property theorems at TEXT level.  `fmt*` (Text.lean) is `delphin.tdl.format` character by
character — line breaks, indentation and the width bookkeeping that decides between inline and
broken lists included — and is compared with the real formatter's text on every generated entity.
`rel*` is the object the parser hands back for that text as far as docstrings go (each docstring
= the contents the formatter wrote at the indentation of its place), `canon*` as far as structure
goes (Model.lean); `canonItem ∘ relItem` is compared with the real `iterparse` events, raw
docstrings included.
-/
import Verif.Generated.TablesC15
import Verif.C15.TextClean

namespace Verif.C15
open Verif.Tables
set_option linter.unusedSimpArgs false

/-- "Formatting any TDL entity ... and parsing the text yields an entity ..., and formatting the parsed
entity gives the same TEXT": for EVERY file (type definitions, addenda, lexical rules, letter sets,
wild cards, nested environments, includes, comments; any nesting, any docstrings, any widths — so
whatever the layout decisions were) in which no feature value is a one-term Conjunction around a
one-feature AVM without docstring (outside F44), the parsed file `(relLines 0 xs).map canonItem`
is written with exactly the same characters, line breaks and indentation as `xs`. -/
theorem text_second_format_file (xs : List Item)
    (hc : ∀ x ∈ xs, ∀ ts, x.terms? = some ts → cleanTerms ts = true) :
    fmtFile ((relLines 0 xs).map canonItem) = fmtFile xs :=
  fmtFile_second xs (cleanParsed_of_clean xs 0 hc)

/-- the same for one entity at any indentation (entities inside environments are indented). -/
theorem text_second_format_item (i : Nat) (x : Item) (hc : ∀ ts, x.terms? = some ts → cleanTerms ts = true) :
    fmtItem i (canonItem (relItem i x)) = fmtItem i x := by
  apply fmtItem_second
  intro ts hts
  obtain ⟨ts0, h0, hcl⟩ := terms_relItem i x ts hts
  rw [hcl]; exact hc ts0 h0

/-- the same for a value (`format(term_or_conjunction, indent)`) at every indentation. -/
theorem text_second_format_value (i : Nat) (v : Val) (hc : cleanVal v = true) :
    fmtVal i (canonVal (relVal i v)) = fmtVal i v := by
  rw [fmtVal_canon i _ (by rw [(cleanRel (sizeOf v)).2.1 v (Nat.le_refl _) i]; exact hc), fmtVal_rel]

/-- the docstrings of a parsed object are a fixed point of format-then-parse: writing the parsed
body and reading it again returns the same docstrings (for every body, widths and indentation). -/
theorem text_parsed_docstrings_stable (w : Nat) (ts : Terms) : relTerms w (relTerms w ts) = relTerms w ts :=
  relTerms_idem w ts

/-- ... and without the structural step the text is the same for EVERY value, F44 shapes included:
what differs in F44 is the structure the parser returns, never the docstrings. -/
theorem text_format_parsed_docstrings (i : Nat) (v : Val) : fmtVal i (relVal i v) = fmtVal i v :=
  fmtVal_rel i v

/-- non-vacuity and the layout at work: a definition with a docstring whose body has an inline list
(3 items) and a broken one (4 items), inside an instance environment (indentation 2). -/
example :
    let a : Val := .term (.ident none ['a'])
    let l3 : Term := .cons none (.cons a (.cons a (.cons a .nil))) .opn
    let l4 : Term := .diff (some ['x']) (.cons a (.cons a (.cons a (.cons a .nil))))
    let body : Terms := .cons (.ident none ['s']) (.cons (.avm none
      (.cons ['L'] (.term l3) (.cons ['M'] (.term (.avm none (.cons ['N'] (.term l4) .nil))) .nil))) .nil)
    let xs : List Item := [.beginEnv true (some ['r']), .typedef ['t'] body (some ['d', '"']), .endEnv true]
    (∀ x ∈ xs, ∀ ts, x.terms? = some ts → cleanTerms ts = true)
    ∧ fmtFile xs = (":begin :instance :status r.\n" ++
        "  t := s &\n" ++
        "    [ L < a, a, a, ... >,\n" ++
        "      M.N \"\"\"\n" ++
        "          x\n" ++
        "          \"\"\"\n" ++
        "          <! a,\n" ++
        "             a,\n" ++
        "             a,\n" ++
        "             a !> ]\n" ++
        "  \"\"\"\n" ++
        "  d\"\n" ++
        "  \"\"\".\n" ++
        ":end :instance.\n").toList := by
  refine ⟨?_, ?_⟩
  · simp [Item.terms?, cleanTerms, cleanTerm, cleanFeats, cleanVal, cleanItems, cleanEnd, trivFeat]
  · set_option maxRecDepth 20000 in decide

/-- F44 at text level: `[ A [ B x ] ]` is read back as a bare AVM and then written `[ A.B x ]`. -/
theorem text_second_format_differs_counterexample :
    let x : Val := .term (.ident none ['x'])
    let t : Term := .avm none (.cons ['A'] (.conj (.cons (.avm none (.cons ['B'] x .nil)) .nil)) .nil)
    fmtTerm 0 t = "[ A [ B x ] ]".toList ∧ fmtTerm 0 (canonTerm (relTerm 0 t)) = "[ A.B x ]".toList := by
  decide

/-- the three layout constants of the text model are those of the live code (`_base_indent`,
`_max_inline_list_items`, `_line_width`), read on every run into `c15Layout`. -/
theorem c15_text_pins : c15Layout = [baseIndent, maxInline, lineWidth] := by
  rfl

end Verif.C15
