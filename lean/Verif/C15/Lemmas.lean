/- C15 — helper lemmas -/
import Verif.C15.Model

namespace Verif.C15

theorem escGo_eq_nil (st : Option Nat) (s : Str) : escGo st s = [] ↔ s = [] := by
  cases s with
  | nil => simp [escGo]
  | cons c cs =>
    cases st with
    | none => simp [escGo]
    | some k =>
      simp only [escGo]
      split
      · split <;> simp
      · split <;> simp

theorem escGo_none (c : Char) (cs : Str) : escGo none (c :: cs) = c :: escGo (some 0) cs := by
  rw [escGo]

theorem escGo_quote_esc (k : Nat) (cs : Str) (h : k + 1 = 3 ∨ cs = []) :
    escGo (some k) ('"' :: cs) = '\\' :: '"' :: escGo (some 0) cs := by
  rw [escGo, if_pos rfl, if_pos h]

theorem escGo_quote_plain (k : Nat) (cs : Str) (h : ¬ (k + 1 = 3 ∨ cs = [])) :
    escGo (some k) ('"' :: cs) = '"' :: escGo (some (k + 1)) cs := by
  rw [escGo, if_pos rfl, if_neg h]

theorem escGo_bs (k : Nat) (cs : Str) :
    escGo (some k) ('\\' :: cs) = '\\' :: escGo none cs := by
  rw [escGo, if_neg (by decide), if_pos rfl]

theorem escGo_other (k : Nat) (c : Char) (cs : Str) (hq : c ≠ '"') (hb : c ≠ '\\') :
    escGo (some k) (c :: cs) = c :: escGo (some 0) cs := by
  rw [escGo, if_neg hq, if_neg hb]

/-- idempotence of the escaping state machine, for every start state -/
theorem escGo_idem (s : Str) : ∀ st, escGo st (escGo st s) = escGo st s := by
  induction s with
  | nil => intro st; simp [escGo]
  | cons c cs ih =>
    intro st
    cases st with
    | none => rw [escGo_none, escGo_none, ih]
    | some k =>
      by_cases hq : c = '"'
      · subst hq
        by_cases hk : k + 1 = 3 ∨ cs = []
        · rw [escGo_quote_esc k cs hk, escGo_bs, escGo_none, ih]
        · have hk' : ¬ (k + 1 = 3 ∨ escGo (some (k + 1)) cs = []) := by
            rw [escGo_eq_nil]; exact hk
          rw [escGo_quote_plain k cs hk, escGo_quote_plain k _ hk', ih]
      · by_cases hb : c = '\\'
        · subst hb
          rw [escGo_bs, escGo_bs, ih none]
        · rw [escGo_other k c cs hq hb, escGo_other k c _ hq hb, ih]


/-! ### scanning an escaped docstring -/

theorem sw_q3_cons (c : Char) (t : Str) : startsWith q3 (c :: t) = (c == '"' && startsWith ['"', '"'] t) := by
  simp only [q3, startsWith]
  by_cases h : c = '"'
  · subst h; simp
  · have : ('"' == c) = false := by
      simp only [beq_eq_false_iff_ne, ne_eq]; exact fun e => h e.symm
    simp [this, h]

theorem sw_qq_cons (c : Char) (t : Str) : startsWith ['"', '"'] (c :: t) = (c == '"' && startsWith ['"'] t) := by
  simp only [startsWith]
  by_cases h : c = '"'
  · subst h; simp
  · have : ('"' == c) = false := by
      simp only [beq_eq_false_iff_ne, ne_eq]; exact fun e => h e.symm
    simp [this, h]

theorem sw_q_cons (c : Char) (t : Str) : startsWith ['"'] (c :: t) = (c == '"') := by
  simp only [startsWith]
  by_cases h : c = '"'
  · subst h; simp
  · have : ('"' == c) = false := by
      simp only [beq_eq_false_iff_ne, ne_eq]; exact fun e => h e.symm
    simp [this, h]

/-- after `k+1 ≤ 2` plain quotes the escaped text never continues with two more plain quotes -/
theorem noQQ (k : Nat) (hk : k ≤ 1) (cs t : Str) (hne : cs ≠ []) :
    startsWith ['"', '"'] (escGo (some (k + 1)) cs ++ t) = false := by
  cases cs with
  | nil => exact absurd rfl hne
  | cons d ds =>
    by_cases hq : d = '"'
    · subst hq
      by_cases h2 : k + 1 + 1 = 3 ∨ ds = []
      · rw [escGo_quote_esc _ _ h2]
        simp [sw_qq_cons]
      · rw [escGo_quote_plain _ _ h2]
        have hds : ds ≠ [] := fun e => h2 (Or.inr e)
        have hk0 : k = 0 := by
          rcases Nat.lt_or_ge k 1 with h | h
          · omega
          · exfalso; apply h2; left; omega
        subst hk0
        cases ds with
        | nil => exact absurd rfl hds
        | cons e es =>
          by_cases he : e = '"'
          · subst he
            rw [escGo_quote_esc _ _ (Or.inl rfl)]
            simp [sw_qq_cons, sw_q_cons]
          · by_cases hb : e = '\\'
            · subst hb
              rw [escGo_bs]
              simp [sw_qq_cons, sw_q_cons]
            · rw [escGo_other _ _ _ he hb]
              simp [sw_qq_cons, sw_q_cons, he]
    · by_cases hb : d = '\\'
      · subst hb
        rw [escGo_bs]
        simp [sw_qq_cons]
      · rw [escGo_other _ _ _ hq hb]
        simp [sw_qq_cons, hq]

theorem scanB_q3_nil (rest : Str) : scanB q3 (q3 ++ rest) = some ([], rest) := by
  simp [q3, scanB, startsWith]

theorem scanB_step (c : Char) (t : Str) (hs : startsWith q3 (c :: t) = false) (hb : c ≠ '\\') :
    scanB q3 (c :: t) = (scanB q3 t).map (fun r => (c :: r.1, r.2)) := by
  cases t <;> simp [scanB, hs, hb]

theorem scanB_bs (d : Char) (t : Str) :
    scanB q3 ('\\' :: d :: t) = (scanB q3 t).map (fun r => ('\\' :: d :: r.1, r.2)) := by
  simp [scanB, sw_q3_cons]

theorem dangling_cons_other (c : Char) (cs : Str) (h : c ≠ '\\') : dangling (c :: cs) = dangling cs := by
  cases cs <;> simp [dangling, h]

theorem dangling_bs (d : Char) (ds : Str) : dangling ('\\' :: d :: ds) = dangling ds := by
  simp [dangling]

theorem scan_escGo_aux : ∀ (n : Nat) (s : Str), s.length ≤ n → ∀ k, k ≤ 2 → dangling s = false →
    ∀ rest, scanB q3 (escGo (some k) s ++ (q3 ++ rest)) = some (escGo (some k) s, rest) := by
  intro n
  induction n with
  | zero =>
    intro s hl k _ _ rest
    have : s = [] := List.eq_nil_of_length_eq_zero (by omega)
    subst this
    simp [escGo, scanB_q3_nil]
  | succ n ih =>
    intro s hl k hk hd rest
    cases s with
    | nil => simp [escGo, scanB_q3_nil]
    | cons c cs =>
      have hlc : cs.length ≤ n := by simp at hl; omega
      by_cases hq : c = '"'
      · subst hq
        have hdc : dangling cs = false := by rw [← hd, dangling_cons_other _ _ (by decide)]
        by_cases h3 : k + 1 = 3 ∨ cs = []
        · rw [escGo_quote_esc _ _ h3]
          show scanB q3 ('\\' :: '"' :: (escGo (some 0) cs ++ (q3 ++ rest))) = _
          rw [scanB_bs, ih cs hlc 0 (by omega) hdc rest]
          rfl
        · rw [escGo_quote_plain _ _ h3]
          have hk1 : k ≤ 1 := by
            rcases Nat.lt_or_ge k 2 with h | h
            · omega
            · exfalso; apply h3; left; omega
          have hne : cs ≠ [] := fun e => h3 (Or.inr e)
          show scanB q3 ('"' :: (escGo (some (k + 1)) cs ++ (q3 ++ rest))) = _
          rw [scanB_step _ _ (by rw [sw_q3_cons, noQQ k hk1 cs _ hne]; simp) (by decide),
            ih cs hlc (k + 1) (by omega) hdc rest]
          rfl
      · by_cases hb : c = '\\'
        · subst hb
          rw [escGo_bs]
          cases cs with
          | nil => simp [dangling] at hd
          | cons d ds =>
            have hdd : dangling ds = false := by rw [← hd, dangling_bs]
            have hld : ds.length ≤ n := by simp at hlc; omega
            rw [escGo_none]
            show scanB q3 ('\\' :: d :: (escGo (some 0) ds ++ (q3 ++ rest))) = _
            rw [scanB_bs, ih ds hld 0 (by omega) hdd rest]
            rfl
        · have hdc : dangling cs = false := by rw [← hd, dangling_cons_other _ _ hb]
          rw [escGo_other _ _ _ hq hb]
          show scanB q3 (c :: (escGo (some 0) cs ++ (q3 ++ rest))) = _
          rw [scanB_step _ _ (by rw [sw_q3_cons]; simp [hq]) hb, ih cs hlc 0 (by omega) hdc rest]
          rfl

/-- text ending in a newline and then only spaces never ends inside an escape -/
theorem dangling_tail (k : Nat) : ∀ (n : Nat) (body : Str), body.length ≤ n →
    dangling (body ++ '\n' :: spaces k) = false := by
  have hsp : ∀ k, dangling (spaces k) = false := by
    intro k
    induction k with
    | zero => simp [spaces, dangling]
    | succ k ih =>
      show dangling (' ' :: spaces k) = false
      rw [dangling_cons_other _ _ (by decide)]; exact ih
  intro n
  induction n with
  | zero =>
    intro body hl
    have : body = [] := List.eq_nil_of_length_eq_zero (by omega)
    subst this
    show dangling ('\n' :: spaces k) = false
    rw [dangling_cons_other _ _ (by decide)]; exact hsp k
  | succ n ih =>
    intro body hl
    cases body with
    | nil =>
      show dangling ('\n' :: spaces k) = false
      rw [dangling_cons_other _ _ (by decide)]; exact hsp k
    | cons c cs =>
      have hlc : cs.length ≤ n := by simp at hl; omega
      by_cases hb : c = '\\'
      · subst hb
        cases cs with
        | nil =>
          show dangling ('\\' :: '\n' :: spaces k) = false
          rw [dangling_bs]; exact hsp k
        | cons d ds =>
          show dangling ('\\' :: d :: (ds ++ '\n' :: spaces k)) = false
          rw [dangling_bs]
          exact ih ds (by simp at hlc; omega)
      · show dangling (c :: (cs ++ '\n' :: spaces k)) = false
        rw [dangling_cons_other _ _ hb]
        exact ih cs hlc


/-! ### feature paths -/

theorem lookup_snoc_self : ∀ (fs : Feats) (k : Str) (v : Val), fs.lookup k = none →
    (fs.snoc k v).lookup k = some v
  | .nil, k, v, _ => by simp [Feats.snoc, Feats.lookup]
  | .cons k' v' fs, k, v, h => by
    simp only [Feats.lookup] at h
    by_cases hk : k' = k
    · simp [hk] at h
    · simp only [hk, if_false] at h
      simp [Feats.snoc, Feats.lookup, hk, lookup_snoc_self fs k v h]

theorem lookup_replace_self : ∀ (fs : Feats) (k : Str) (v : Val), (fs.lookup k).isSome →
    (fs.replace k v).lookup k = some v
  | .nil, k, v, h => by simp [Feats.lookup] at h
  | .cons k' v' fs, k, v, h => by
    by_cases hk : k' = k
    · simp [Feats.replace, Feats.lookup, hk]
    · simp only [Feats.lookup, hk, if_false] at h
      simp [Feats.replace, Feats.lookup, hk, lookup_replace_self fs k v h]

theorem getPath_nested (v : Val) : ∀ (q q' : List Str) (k k' : Str), upper k' = upper k →
    q'.map upper = q.map upper →
    getPath (.cons (upper k) (mkNested q v) .nil) (k' :: q') = .ok v := by
  intro q
  induction q with
  | nil =>
    intro q' k k' hk hq
    have : q' = [] := by simpa using hq
    subst this
    simp [getPath, Feats.lookup, hk, mkNested]
  | cons k2 q ih =>
    intro q' k k' hk hq
    cases q' with
    | nil => simp at hq
    | cons k2' q'' =>
      simp only [List.map_cons, List.cons.injEq] at hq
      simp only [getPath, Feats.lookup, hk, if_true, mkNested]
      exact ih q'' k2 k2' hq.1 hq.2

end Verif.C15
