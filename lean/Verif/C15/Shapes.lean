/- C15 — expanded features of every cons / diff list of leaf items; setPath below type terms -/
import Verif.C15.Canon

namespace Verif.C15
set_option linter.unusedSimpArgs false

theorem restPath_succ (pre : List Str) (k : Nat) :
    restPath pre k ++ ["REST".toList] = restPath pre (k + 1) := by
  simp [restPath, List.replicate_succ']

theorem restPath_zero (pre : List Str) : restPath pre 0 = pre := by simp [restPath]

theorem expandTerm_leaf (pre : List Str) (t : Term) (h : isAvmLike t = false) :
    expandTerm pre t = [(pre, some t)] := by
  cases t <;> simp_all [expandTerm, isAvmLike]

theorem Items.length_ofList : ∀ l : List Val, (Items.ofList l).length = l.length
  | [] => by simp [Items.ofList, Items.length]
  | v :: l => by simp [Items.ofList, Items.length, Items.length_ofList l]

theorem Items.isNil_ofList (l : List Val) : (Items.ofList l).isNil = l.isEmpty := by
  cases l <;> simp [Items.ofList, Items.isNil]

/-- the items of a list of `n` leaf terms expand to the paths `REST^i.FIRST`, `i < n`, in order -/
theorem expandItems_leaves : ∀ (ts : List Term) (pre : List Str) (k : Nat),
    (∀ t ∈ ts, isAvmLike t = false) →
    expandItems (restPath pre k) (Items.ofList (ts.map Val.term))
      = (ts.zipIdx k).map (fun ti => (restPath pre ti.2 ++ ["FIRST".toList], some ti.1))
  | [], pre, k, _ => by simp [Items.ofList, expandItems]
  | t :: ts, pre, k, h => by
    have ht := h t (List.mem_cons_self ..)
    have ih := expandItems_leaves ts pre (k + 1) (fun u hu => h u (List.mem_cons_of_mem _ hu))
    simp only [List.map_cons, Items.ofList, expandItems, expandVal, expandTerm_leaf _ t ht,
      restPath_succ, ih, List.zipIdx_cons, List.singleton_append]

/-- the end of a list of `n` items: closed → `REST^n` = None (nothing for the empty list), open →
nothing, dotted leaf `w` → `REST^n` = `w` -/
theorem expandEnd_shapes (pre : List Str) (n : Nat) (emp : Bool) (w : Term) (hw : isAvmLike w = false) :
    expandEnd (restPath pre n) emp .closed = (if emp then [] else [(restPath pre n, none)])
    ∧ expandEnd (restPath pre n) emp .opn = []
    ∧ expandEnd (restPath pre n) emp (.dotted (.term w)) = [(restPath pre n, some w)] := by
  simp [expandEnd, expandVal, expandTerm_leaf _ w hw]

/-- every cons list of leaf items, whatever its length, docstring and end -/
theorem expand_cons_list (pre : List Str) (d : Option Str) (ts : List Term) (e : End)
    (h : ∀ t ∈ ts, isAvmLike t = false) :
    expandTerm pre (.cons d (Items.ofList (ts.map Val.term)) e)
      = (ts.zipIdx 0).map (fun ti => (restPath pre ti.2 ++ ["FIRST".toList], some ti.1))
        ++ expandEnd (restPath pre ts.length) ts.isEmpty e := by
  have := expandItems_leaves ts pre 0 h
  rw [restPath_zero] at this
  simp [expandTerm, this, Items.length_ofList, Items.isNil_ofList]

/-- every diff list of leaf items: the items under `LIST`, then the anonymous coreference at the
tail of `LIST` and under `LAST` -/
theorem expand_diff_list (pre : List Str) (d : Option Str) (ts : List Term)
    (h : ∀ t ∈ ts, isAvmLike t = false) :
    expandTerm pre (.diff d (Items.ofList (ts.map Val.term)))
      = (ts.zipIdx 0).map (fun ti => (restPath (pre ++ ["LIST".toList]) ti.2 ++ ["FIRST".toList], some ti.1))
        ++ [(restPath (pre ++ ["LIST".toList]) ts.length, some anonCoref), (pre ++ ["LAST".toList], some anonCoref)] := by
  have := expandItems_leaves ts (pre ++ ["LIST".toList]) 0 h
  rw [restPath_zero] at this
  simp only [expandTerm, this, Items.length_ofList, List.length_map]

/-- setting below a value that is a type term or a coreference is the `TFSError` of the code,
for every structure, path and value -/
theorem setPath_below_nonstructure (fs : Feats) (k k2 : Str) (p : List Str) (v : Val) (t : Term)
    (hl : fs.lookup (upper k) = some (.term t)) (ht : isAvmLike t = false) :
    setPath fs (k :: k2 :: p) v = .error .tfsError := by
  cases t <;> simp_all [setPath, isAvmLike]

end Verif.C15
