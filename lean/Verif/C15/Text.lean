/-
C15 — TEXT-level model of `delphin.tdl.format`: the exact characters, line breaks and indentation
(`_format_term/_avm/_conslist/_difflist/_conjunction/_typedef/_typedef_body/_morphset/_environment/
_include/_linecomment/_blockcomment`), with the width bookkeeping (`_line_width` 79,
`_max_inline_list_items` 3, `_base_indent` 2) that decides between inline and broken lists, and
`rel*`: the object the parser hands back for that text as far as docstrings go — every docstring
replaced by the contents the formatter wrote AT THE INDENTATION OF ITS PLACE.  Core Lean only.
-/
import Verif.C15.Model

namespace Verif.C15

/-- `max(len(s) for s in tok.splitlines())` (line separator: LF only; `0` for the empty text, where
Python raises ValueError — only an empty identifier gives an empty text, outside the generators) -/
def maxLineLenGo : Str → Nat → Nat → Nat
  | [], cur, best => max cur best
  | c :: cs, cur, best => if c = '\n' then maxLineLenGo cs 0 (max cur best) else maxLineLenGo cs (cur + 1) best

/-- (a loop, not `splitNL`: the text of one term can run to a million characters when broken lists nest
at large indentations) -/
def maxLineLen (s : Str) : Nat := maxLineLenGo s 0 0

/-- `'.'.join(path)` -/
def joinDot : List Str → Str
  | [] => []
  | [k] => k
  | k :: p => k ++ '.' :: joinDot p

/-- `_format_docstring(doc, i) + '\n' + ' ' * i` in front of a term that has a docstring -/
def docText (i : Nat) : Option Str → Str
  | none => []
  | some d => q3 ++ (fmtDoc i d ++ (q3 ++ '\n' :: spaces i))

def lineWidth : Nat := 79
def maxInline : Nat := 3
def baseIndent : Nat := 2

/-- the inline test of `_format_conslist` (`extra` 2) and `_format_difflist` (`extra` 4) -/
def listFits (extra i : Nat) (vals : List Str) : Bool :=
  decide (vals.length ≤ maxInline) && decide ((vals.map (fun v => v.length + 2)).sum + extra + i ≤ lineWidth)

/-- the end of a cons list as text -/
inductive EndT where
  | closed
  | opn
  | dotted (s : Str)

/-- `_format_conslist` once the items and the end have been formatted -/
def consText (i : Nat) (vals : List Str) (e : EndT) : Str :=
  let ve : List Str × Str := match e with
    | .closed => (vals, [])
    | .opn => if vals.isEmpty then (["...".toList], []) else (vals, ", ...".toList)
    | .dotted s => (vals, " . ".toList ++ s)
  match ve.1 with
  | [] => "< >".toList
  | v0 :: vr =>
    if listFits 2 i ve.1 then "< ".toList ++ (joinLines ", ".toList ve.1 ++ (ve.2 ++ " >".toList))
    else joinLines ",\n".toList (("< ".toList ++ v0) :: vr.map (fun v => spaces (i + 2) ++ v)) ++ (ve.2 ++ " >".toList)

/-- `_format_difflist` once the items have been formatted -/
def diffText (i : Nat) (vals : List Str) : Str :=
  match vals with
  | [] => "<! !>".toList
  | _ =>
    if listFits 4 i vals then "<! ".toList ++ (joinLines ", ".toList vals ++ " !>".toList)
    else "<! ".toList ++ (joinLines (",\n".toList ++ spaces (i + 3)) vals ++ " !>".toList)

/-- `_format_avm` once the `feat value` lines have been formatted -/
def avmText (i : Nat) (lines : List Str) : Str :=
  match lines with
  | [] => "[ ]".toList
  | _ => "[ ".toList ++ (joinLines (",\n".toList ++ spaces (i + 2)) lines ++ " ]".toList)

/-- one line of `_format_avm`: the feature path, a blank unless the value starts on a new line, the value -/
def featLine (feat val : Str) : Str :=
  (if val.head? = some '\n' then feat else feat ++ [' ']) ++ val

mutual
/-- `_format_term(term, i)` -/
def fmtTerm (i : Nat) : Term → Str
  | .ident d s => docText i d ++ s
  | .str d s => docText i d ++ '"' :: (s ++ ['"'])
  | .regex d s => docText i d ++ '^' :: (s ++ ['$'])
  | .coref d s => docText i d ++ '#' :: s
  | .avm d fs => docText i d ++ avmText i (fmtFeats i fs)
  | .cons d vs e => docText i d ++ consText i (fmtItems (i + 2) vs) (fmtEnd (i + 2) e)
  | .diff d vs => docText i d ++ diffText i (fmtItems (i + 3) vs)
/-- `_format_conjunction(val, i)` -/
def fmtVal (i : Nat) : Val → Str
  | .term t => fmtTerm i t
  | .conj ts => fmtTerms i ts
/-- the terms joined by ` & `, each formatted at the running width -/
def fmtTerms (w : Nat) : Terms → Str
  | .nil => []
  | .cons t ts => let s := fmtTerm w t; s ++ fmtAmp (w + maxLineLen s + 3) ts
def fmtAmp (w : Nat) : Terms → Str
  | .nil => []
  | .cons t ts => let s := fmtTerm w t; " & ".toList ++ (s ++ fmtAmp (w + maxLineLen s + 3) ts)
/-- one entry of `avm.features()`: a bare one-feature AVM without docstring is passed through -/
def fmtFeat (i : Nat) (pre : List Str) (k : Str) : Val → Str
  | .term (.avm none (.cons k2 v2 .nil)) => fmtFeat i (pre ++ [k]) k2 v2
  | .term t => featLine (joinDot (pre ++ [k])) (fmtTerm (i + (joinDot (pre ++ [k])).length + 3) t)
  | .conj ts => featLine (joinDot (pre ++ [k])) (fmtTerms (i + (joinDot (pre ++ [k])).length + 3) ts)
def fmtFeats (i : Nat) : Feats → List Str
  | .nil => []
  | .cons k v fs => fmtFeat i [] k v :: fmtFeats i fs
def fmtItems (i : Nat) : Items → List Str
  | .nil => []
  | .cons v vs => fmtVal i v :: fmtItems i vs
def fmtEnd (i : Nat) : End → EndT
  | .closed => .closed
  | .opn => .opn
  | .dotted v => .dotted (fmtVal i v)
end

/-! ### docstrings as the parser returns them -/

def relDoc (i : Nat) : Option Str → Option Str
  | none => none
  | some d => some (fmtDoc i d)

mutual
def relTerm (i : Nat) : Term → Term
  | .ident d s => .ident (relDoc i d) s
  | .str d s => .str (relDoc i d) s
  | .regex d s => .regex (relDoc i d) s
  | .coref d s => .coref (relDoc i d) s
  | .avm d fs => .avm (relDoc i d) (relFeats i fs)
  | .cons d vs e => .cons (relDoc i d) (relItems (i + 2) vs) (relEnd (i + 2) e)
  | .diff d vs => .diff (relDoc i d) (relItems (i + 3) vs)
def relVal (i : Nat) : Val → Val
  | .term t => .term (relTerm i t)
  | .conj ts => .conj (relTerms i ts)
def relTerms (w : Nat) : Terms → Terms
  | .nil => .nil
  | .cons t .nil => .cons (relTerm w t) .nil      -- (the width is not needed after the last term)
  | .cons t ts => .cons (relTerm w t) (relTerms (w + maxLineLen (fmtTerm w t) + 3) ts)
def relFeat (i : Nat) (pre : List Str) (k : Str) : Val → Val
  | .term (.avm none (.cons k2 v2 .nil)) => .term (.avm none (.cons k2 (relFeat i (pre ++ [k]) k2 v2) .nil))
  | .term t => .term (relTerm (i + (joinDot (pre ++ [k])).length + 3) t)
  | .conj ts => .conj (relTerms (i + (joinDot (pre ++ [k])).length + 3) ts)
def relFeats (i : Nat) : Feats → Feats
  | .nil => .nil
  | .cons k v fs => .cons k (relFeat i [] k v) (relFeats i fs)
def relItems (i : Nat) : Items → Items
  | .nil => .nil
  | .cons v vs => .cons (relVal i v) (relItems i vs)
def relEnd (i : Nat) : End → End
  | .closed => .closed
  | .opn => .opn
  | .dotted v => .dotted (relVal i v)
end

/-! ### definitions and the other top-level entities -/

/-- the terms before the first AVM / list term (`parts[0]` of `_format_typedef_body`) -/
def Terms.before : Terms → Terms
  | .nil => .nil
  | .cons t ts => if isAvmLike t then .nil else .cons t ts.before
/-- the terms from the first AVM / list term on (`parts[1]`) -/
def Terms.fromAvm : Terms → Terms
  | .nil => .nil
  | .cons t ts => if isAvmLike t then .cons t ts else ts.fromAvm
def Terms.isNil : Terms → Bool
  | .nil => true
  | _ => false

/-- the conjunction part of `_format_typedef_body(td, indent, offset)` -/
def bodyConj (indent offset : Nat) (ts : Terms) : Str :=
  if ts.before.isNil || ts.fromAvm.isNil then fmtTerms offset ts
  else fmtTerms offset ts.before ++ (" &\n".toList ++ (spaces (baseIndent + indent)
        ++ fmtTerms (baseIndent + indent) ts.fromAvm))

def relBody (indent offset : Nat) (ts : Terms) : Terms :=
  if ts.before.isNil || ts.fromAvm.isNil then relTerms offset ts
  else (relTerms offset ts.before).append (relTerms (baseIndent + indent) ts.fromAvm)

/-- `_format_typedef_body`: conjunction, then the definition's docstring (always at indentation 2) -/
def bodyText (indent offset : Nat) (ts : Terms) (doc : Option Str) : Str :=
  let c := bodyConj indent offset ts
  c ++ (match doc with
    | none => []
    | some d => (if c.isEmpty then [] else "\n  ".toList) ++ (q3 ++ (fmtDoc 2 d ++ q3)))

def patsText (pats : List (Str × Str)) : Str :=
  joinLines [' '] (pats.map (fun mr => '(' :: (mr.1 ++ ' ' :: (mr.2 ++ [')']))))

/-- `format(obj, i)` for every top-level entity except environments (which are a begin and an end item) -/
def fmtItem (i : Nat) : Item → Str
  | .typedef id ts doc =>
    spaces i ++ (id ++ " := ".toList ++ (bodyText i (i + id.length + 4) ts doc ++ ['.']))
  | .addendum id ts doc =>
    spaces i ++ (id ++ " :+ ".toList ++ (bodyText i (i + id.length + 4) ts doc ++ ['.']))
  | .lexrule id a pats ts doc =>
    spaces i ++ (id ++ " :=\n%".toList ++ (a ++ ' ' :: (patsText pats ++ ("\n  ".toList
      ++ (bodyText i (i + 2) ts doc ++ ['.'])))))
  | .letterset var chars => spaces i ++ ('%' :: '(' :: (morphText "letter-set".toList var chars ++ [')']))
  | .wildcard var chars => spaces i ++ ('%' :: '(' :: (morphText "wild-card".toList var chars ++ [')']))
  | .beginEnv inst status =>
    spaces i ++ (":begin ".toList ++ (envTypeText inst ++ ((match inst, status with
      | true, some st => if st.isEmpty then [] else " :status ".toList ++ st
      | _, _ => []) ++ ['.'])))
  | .endEnv inst => spaces i ++ (":end ".toList ++ (envTypeText inst ++ ['.']))
  | .include_ v => spaces i ++ (":include \"".toList ++ (v ++ "\".".toList))
  | .lcomment s => spaces i ++ (';' :: s)
  | .bcomment s => spaces i ++ ('#' :: '|' :: (s ++ ['|', '#']))

def relItem (i : Nat) : Item → Item
  | .typedef id ts doc => .typedef id (relBody i (i + id.length + 4) ts) (relDoc 2 doc)
  | .addendum id ts doc => .addendum id (relBody i (i + id.length + 4) ts) (relDoc 2 doc)
  | .lexrule id a pats ts doc => .lexrule id a pats (relBody i (i + 2) ts) (relDoc 2 doc)
  | it => it

/-- the lines of a file: `_format_environment` indents its entries by 2 -/
def fmtLines (lvl : Nat) : List Item → List Str
  | [] => []
  | .beginEnv inst st :: r => fmtItem lvl (.beginEnv inst st) :: fmtLines (lvl + 2) r
  | .endEnv inst :: r => fmtItem (lvl - 2) (.endEnv inst) :: fmtLines (lvl - 2) r
  | x :: r => fmtItem lvl x :: fmtLines lvl r

def relLines (lvl : Nat) : List Item → List Item
  | [] => []
  | .beginEnv inst st :: r => .beginEnv inst st :: relLines (lvl + 2) r
  | .endEnv inst :: r => .endEnv inst :: relLines (lvl - 2) r
  | x :: r => relItem lvl x :: relLines lvl r

/-- the text of a file: `'\n'.join(format(o) for o in objs) + '\n'` -/
def fmtFile (xs : List Item) : Str := joinLines ['\n'] (fmtLines 0 xs) ++ ['\n']

end Verif.C15
