/-
C15 — property theorems that go through the LEXER model (Lex.lean: the 30 alternatives of `_tdl_lex_re`
as matchers in source order, `_bounded`, white-space skipping; compared with the real `tdl._lex` on the
text of every generated entity and on character-mutated texts) and the composed round trip
text → lexer → parser → text.
-/
import Verif.C15.LexLemmas
import Verif.C15.TextWf
import Verif.C15.PropsText

namespace Verif.C15
set_option linter.unusedSimpArgs false

/-- the well-formedness the token-level round trip needs is preserved by format-then-parse: the file
the parser returns for the written text (`relLines`) is `wfItem` item by item and has the same
environment nesting — for every file. -/
theorem parsed_file_wellformed (xs : List Item) (hw : ∀ x ∈ xs, wfItem x = true) (cur : Option Bool)
    (stack : List (Option Bool)) :
    (∀ y ∈ relLines 0 xs, wfItem y = true) ∧ envOK cur stack (relLines 0 xs) = envOK cur stack xs :=
  ⟨wf_relLines xs 0 hw, envOK_relLines xs 0 cur stack⟩

/-- "parsing the text yields an entity with the same structure" on the tokens of the REAL text (each
docstring token holding what the formatter wrote at the indentation of its place): the parser, with
the driver's own fuel, returns `canonItem` of every item — hypotheses on the WRITTEN file only. -/
theorem parse_text_tokens (xs : List Item) (hw : ∀ x ∈ xs, wfItem x = true) (henv : envOK none [] xs = true) :
    parseFile ((relLines 0 xs).flatMap toksItem) = .ok ((relLines 0 xs).map canonItem) :=
  parseFile_relLines xs hw henv

/-- The composed round trip, from text: `format` (fmtFile) → `_lex` (lexText) → `_parse_tdl` (parseFile) →
`format` again.  For every well-formed file outside F44 whose text the lexer model turns into the
formatter's token stream (`hlex`: decided by running `lexText` — the driver does it for every generated
case and the result is compared with the real lexer's tokens; proved below for the token classes),
reading the written text returns exactly `canonItem ∘ relItem` of every entity, and writing that again
gives the same text, character by character. -/
theorem roundtrip_from_text (xs : List Item) (hw : ∀ x ∈ xs, wfItem x = true) (henv : envOK none [] xs = true)
    (hc : ∀ x ∈ xs, ∀ ts, x.terms? = some ts → cleanTerms ts = true)
    (hlex : lexText (fmtFile xs) = .ok ((relLines 0 xs).flatMap toksItem)) :
    readText (fmtFile xs) = .ok ((relLines 0 xs).map canonItem)
    ∧ fmtFile ((relLines 0 xs).map canonItem) = fmtFile xs := by
  refine ⟨?_, text_second_format_file xs hc⟩
  unfold readText
  rw [hlex]
  exact parse_text_tokens xs hw henv

/-- ... and without the F44 side condition the structure clause alone (first half) still holds. -/
theorem read_written_text (xs : List Item) (hw : ∀ x ∈ xs, wfItem x = true) (henv : envOK none [] xs = true)
    (hlex : lexText (fmtFile xs) = .ok ((relLines 0 xs).flatMap toksItem)) :
    readText (fmtFile xs) = .ok ((relLines 0 xs).map canonItem) := by
  unfold readText
  rw [hlex]
  exact parse_text_tokens xs hw henv

/-- executable form of `hlex` -/
def lexIs (s : Str) (e : List Tok) : Bool :=
  match lexText s with
  | .ok ts => decide (ts = e)
  | .error _ => false

theorem lexIs_sound (s : Str) (e : List Tok) (h : lexIs s e = true) : lexText s = .ok e := by
  unfold lexIs at h
  cases hl : lexText s with
  | error _ => simp [hl] at h
  | ok ts => simp [hl] at h; rw [h]

/-- `t := s & [ A.B < #x, "q\\"" . #y > ] """d""".` as an object -/
def exampleFile : List Item :=
  [.typedef ['t'] (.cons (.ident none ['s']) (.cons (.avm none (.cons ['A']
      (.term (.avm none (.cons ['B'] (.term (.cons none (.cons (.term (.coref none ['x']))
        (.cons (.term (.str none ['q', '\\', '"'])) .nil)) (.dotted (.term (.coref none ['y']))))) .nil))) .nil)) .nil))
    (some ['d'])]

def exampleTokens : List Tok :=
  [.ident ['t'], .defop [':', '='], .ident ['s'], .amp, .lbrack, .ident ['A'], .dot, .ident ['B'], .langle,
   .coref ['x'], .comma, .str ['q', '\\', '"'], .dot, .coref ['y'], .rangle, .rbrack,
   .doc ['\n', ' ', ' ', 'd', '\n', ' ', ' '], .dot]

/-- `hlex` is satisfiable and the composed statement is not vacuous: a definition with a dotted path, an
inline list, a string with an escaped quote, coreferences and a docstring is lexed to the formatter's
tokens (`decide`), hence read back as `canonItem ∘ relItem`. -/
example : readText (fmtFile exampleFile) = .ok ((relLines 0 exampleFile).map canonItem) := by
  apply read_written_text
  · simp [exampleFile, wfItem, termsNonempty, wfTerms, wfTerm, wfFeats, wfVal, wfItems, wfEnd, keysOK, distinct,
      Feats.keys, upper, Items.isNil, Terms.toList, isTypeTerm, valEqStr, canonVal, canonTerm]
  · simp [exampleFile, envOK, envStep]
  · have h1 : lexText (fmtFile exampleFile) = .ok exampleTokens := by
      apply lexIs_sound
      set_option maxRecDepth 20000 in decide
    have h2 : (relLines 0 exampleFile).flatMap toksItem = exampleTokens := by
      simp [exampleFile, exampleTokens, relLines, relItem, relBody, Terms.before, Terms.fromAvm, Terms.isNil,
        Terms.append, isAvmLike, relTerms, relTerm, relFeats, relFeat, relItems, relEnd, relVal, relDoc, toksItem,
        toksTerms, toksAmp, toksTerm, toksFeats, toksFeatsC, toksFeat, toksItems, toksItemsC, toksEnd, toksVal,
        docTok, pathToks, Items.isNil, baseIndent]
      decide
    rw [h1, h2]

/-! ### the token classes of the lexer on what the formatter writes -/

/-- identifiers (alternative 24): any non-empty run of identifier characters followed by a character
that is not one (the formatter always follows an identifier by a blank, a line end, `.`, `,` or the end
of the text) is one identifier token; no earlier alternative takes any of its characters. -/
theorem lex_identifier (c : Char) (w rest : Str) (hc : identChar c = true) (hw : w.all identChar = true)
    (hr : ∀ x ∈ rest.head?, identChar x = false) :
    lexOne (c :: w ++ rest) = .ok (.ident (c :: w), rest) :=
  lexOne_ident c w rest hc hw hr

/-- strings (alternative 4) and regexes (alternative 6): every text in the lexer's own source form
(`srcForm`: no raw closing delimiter, no line end, no dangling backslash — the alphabet of the
quantifier, DESIGN C15 "Reading") written between its delimiters is read back whole, whatever follows. -/
theorem lex_string (s rest : Str) (hs : srcForm '"' s = true)
    (h3 : startsWith q3 ('"' :: s ++ '"' :: rest) = false) :
    lexOne ('"' :: s ++ '"' :: rest) = .ok (.str s, rest) :=
  lexOne_string s rest hs h3

/-- the side condition of `lex_string` is needed: the empty string followed by a quote is the opener of a
docstring (`""` + `"`), alternative 1 comes first. -/
theorem lex_string_needs_no_triple_quote :
    lexOne ('"' :: [] ++ '"' :: ['"', 'x']) = .error .syntaxError := by
  rfl

theorem lex_regex (s rest : Str) (hs : srcForm '$' s = true) :
    lexOne ('^' :: s ++ '$' :: rest) = .ok (.regex s, rest) :=
  lexOne_regex s rest hs

/-- coreferences (alternative 19; a name starting with `|` would be the block-comment opener `#|`). -/
theorem lex_coreference (w rest : Str) (hne : w ≠ []) (hw : w.all identChar = true)
    (hr : ∀ x ∈ rest.head?, identChar x = false) (hb : w.head? ≠ some '|') :
    lexOne ('#' :: w ++ rest) = .ok (.coref w, rest) :=
  lexOne_coref w rest hne hw hr hb

/-- docstrings (alternative 1 + `_bounded`): the docstring the formatter writes — for EVERY documentation
text and every indentation — is one docstring token holding exactly the written contents. -/
theorem lex_docstring (k : Nat) (d rest : Str) :
    lexOne (q3 ++ (fmtDoc k d ++ (q3 ++ rest))) = .ok (.doc (fmtDoc k d), rest) :=
  lexOne_docstring k d rest

-- FULL STATEMENT (not proved): `∀ xs, wfItem … → lexText (fmtFile xs) = .ok ((relLines 0 xs).flatMap toksItem)`,
-- i.e. `hlex` for every file: the composition of the token-class theorems above along the formatter's
-- layout (blanks, line ends and indentation between tokens; `.`/`,` glued to the token before) and the
-- remaining classes (punctuation, letter-sets, affix patterns, comments, keywords).  It is decided per case
-- by the driver (`lex` = tokens) and compared with the real lexer on every generated text.

end Verif.C15
