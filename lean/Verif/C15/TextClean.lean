/- C15 — text level: the F44 side condition (`clean*`) is about structure only, so it holds for the
parsed object (`rel*`: docstrings replaced) iff it holds for the object that was written -/
import Verif.C15.TextFiles

namespace Verif.C15
set_option linter.unusedSimpArgs false
set_option linter.unusedVariables false

theorem trivFeat_relVal (j : Nat) (v : Val) : trivFeat (relVal j v) = trivFeat v := by
  cases v with
  | term t => simp [relVal, trivFeat]
  | conj ts =>
    cases ts with
    | nil => simp [relVal, relTerms, trivFeat]
    | cons t ts =>
      cases ts with
      | cons t2 ts => simp [relVal, relTerms_cons, trivFeat]
      | nil =>
        cases t with
        | avm d fs =>
          cases d with
          | some d => simp [relVal, relTerms, relTerm, relDoc, trivFeat]
          | none =>
            cases fs with
            | nil => simp [relVal, relTerms, relTerm, relDoc, relFeats, trivFeat]
            | cons k v fs =>
              cases fs <;> simp [relVal, relTerms, relTerm, relDoc, relFeats, trivFeat]
        | ident d s => simp [relVal, relTerms, relTerm, trivFeat]
        | str d s => simp [relVal, relTerms, relTerm, trivFeat]
        | regex d s => simp [relVal, relTerms, relTerm, trivFeat]
        | coref d s => simp [relVal, relTerms, relTerm, trivFeat]
        | cons d vs e => simp [relVal, relTerms, relTerm, trivFeat]
        | diff d vs => simp [relVal, relTerms, relTerm, trivFeat]

def CleanRel (n : Nat) : Prop :=
  (∀ t : Term, sizeOf t ≤ n → ∀ i, cleanTerm (relTerm i t) = cleanTerm t) ∧
  (∀ v : Val, sizeOf v ≤ n → ∀ i, cleanVal (relVal i v) = cleanVal v) ∧
  (∀ ts : Terms, sizeOf ts ≤ n → ∀ w, cleanTerms (relTerms w ts) = cleanTerms ts) ∧
  (∀ v : Val, sizeOf v ≤ n → ∀ i pre k,
    cleanVal (relFeat i pre k v) = cleanVal v ∧ trivFeat (relFeat i pre k v) = trivFeat v) ∧
  (∀ fs : Feats, sizeOf fs ≤ n → ∀ i, cleanFeats (relFeats i fs) = cleanFeats fs) ∧
  (∀ vs : Items, sizeOf vs ≤ n → ∀ i, cleanItems (relItems i vs) = cleanItems vs) ∧
  (∀ e : End, sizeOf e ≤ n → ∀ i, cleanEnd (relEnd i e) = cleanEnd e)

theorem cleanRel : ∀ n, CleanRel n := by
  intro n
  induction n with
  | zero =>
    refine ⟨?_, ?_, ?_, ?_, ?_, ?_, ?_⟩ <;> intro x h <;> cases x <;> simp at h
  | succ n ih =>
    obtain ⟨iT, iV, iTs, iF, iFs, iVs, iE⟩ := ih
    have hT : ∀ t : Term, sizeOf t ≤ n + 1 → ∀ i, cleanTerm (relTerm i t) = cleanTerm t := by
      intro t hs i
      cases t with
      | ident d s => simp only [relTerm, cleanTerm]
      | str d s => simp only [relTerm, cleanTerm]
      | regex d s => simp only [relTerm, cleanTerm]
      | coref d s => simp only [relTerm, cleanTerm]
      | avm d fs =>
        simp at hs
        simp only [relTerm, cleanTerm, iFs fs (by omega)]
      | cons d vs e =>
        simp at hs
        simp only [relTerm, cleanTerm, iVs vs (by omega), iE e (by omega)]
      | diff d vs =>
        simp at hs
        simp only [relTerm, cleanTerm, iVs vs (by omega)]
    have hV : ∀ v : Val, sizeOf v ≤ n + 1 → ∀ i, cleanVal (relVal i v) = cleanVal v := by
      intro v hs i
      cases v with
      | term t =>
        simp at hs
        simp only [relVal, cleanVal, iT t (by omega)]
      | conj ts =>
        simp at hs
        simp only [relVal, cleanVal, iTs ts (by omega) i]
    refine ⟨hT, hV, ?_, ?_, ?_, ?_, ?_⟩
    · intro ts hs w
      cases ts with
      | nil => simp [relTerms]
      | cons t ts =>
        simp at hs
        rw [relTerms_cons]
        simp only [cleanTerms, iT t (by omega), iTs ts (by omega)]
    · intro v hs i pre k
      rcases pass_or v with ⟨k2, v2, rfl⟩ | hnp
      · simp at hs
        have := iF v2 (by omega) i (pre ++ [k]) k2
        rw [relFeat_pass]
        refine ⟨?_, ?_⟩
        · simp only [cleanVal, cleanTerm, cleanFeats, this.1, this.2]
        · rfl
      · rw [relFeat_nonpass _ _ _ _ hnp, hV v hs, trivFeat_relVal]
        exact ⟨rfl, rfl⟩
    · intro fs hs i
      cases fs with
      | nil => simp [relFeats]
      | cons k v fs =>
        simp at hs
        have := iF v (by omega) i [] k
        simp only [relFeats, cleanFeats, this.1, this.2, iFs fs (by omega)]
    · intro vs hs i
      cases vs with
      | nil => simp [relItems]
      | cons v vs =>
        simp at hs
        simp only [relItems, cleanItems, iV v (by omega), iVs vs (by omega)]
    · intro e hs i
      cases e with
      | closed => simp [relEnd]
      | opn => simp [relEnd]
      | dotted w =>
        simp at hs
        simp only [relEnd, cleanEnd, iV w (by omega)]

theorem cleanTerms_rel (w : Nat) (ts : Terms) : cleanTerms (relTerms w ts) = cleanTerms ts :=
  (cleanRel (sizeOf ts)).2.2.1 ts (Nat.le_refl _) w

theorem cleanTerms_append : ∀ a b : Terms, cleanTerms (a.append b) = (cleanTerms a && cleanTerms b)
  | .nil, b => by simp [Terms.append, cleanTerms]
  | .cons t ts, b => by simp [Terms.append, cleanTerms, cleanTerms_append ts b, Bool.and_assoc]

theorem cleanTerms_relBody (indent offset : Nat) (ts : Terms) :
    cleanTerms (relBody indent offset ts) = cleanTerms ts := by
  unfold relBody
  split
  · exact cleanTerms_rel _ _
  · rw [cleanTerms_append, cleanTerms_rel, cleanTerms_rel, clean_before_fromAvm]

theorem terms_relItem (i : Nat) (x : Item) (ts : Terms) (h : (relItem i x).terms? = some ts) :
    ∃ ts0, x.terms? = some ts0 ∧ cleanTerms ts = cleanTerms ts0 := by
  cases x <;> simp [relItem, Item.terms?] at h <;> subst h <;>
    exact ⟨_, rfl, cleanTerms_relBody _ _ _⟩

/-- the F44 side condition on the written file carries over to the parsed one -/
theorem cleanParsed_of_clean : ∀ (xs : List Item) (lvl : Nat),
    (∀ x ∈ xs, ∀ ts, x.terms? = some ts → cleanTerms ts = true) → cleanParsed lvl xs
  | [], _, _ => by intro y hy; simp [relLines] at hy
  | x :: r, lvl, hc => by
    have hr : ∀ y ∈ r, ∀ ts, y.terms? = some ts → cleanTerms ts = true :=
      fun y hy => hc y (by simp [hy])
    by_cases he : isEnvItem x = true
    · cases x with
      | beginEnv inst st =>
        intro y hy ts hts
        simp only [relLines, List.mem_cons] at hy
        rcases hy with rfl | hy
        · simp [Item.terms?] at hts
        · exact cleanParsed_of_clean r (lvl + 2) hr y hy ts hts
      | endEnv inst =>
        intro y hy ts hts
        simp only [relLines, List.mem_cons] at hy
        rcases hy with rfl | hy
        · simp [Item.terms?] at hts
        · exact cleanParsed_of_clean r (lvl - 2) hr y hy ts hts
      | typedef _ _ _ => simp [isEnvItem] at he
      | addendum _ _ _ => simp [isEnvItem] at he
      | lexrule _ _ _ _ _ => simp [isEnvItem] at he
      | letterset _ _ => simp [isEnvItem] at he
      | wildcard _ _ => simp [isEnvItem] at he
      | include_ _ => simp [isEnvItem] at he
      | lcomment _ => simp [isEnvItem] at he
      | bcomment _ => simp [isEnvItem] at he
    · have he' : isEnvItem x = false := by simpa using he
      intro y hy ts hts
      rw [relLines_other _ _ _ he', List.mem_cons] at hy
      rcases hy with rfl | hy
      · obtain ⟨ts0, h0, hcl⟩ := terms_relItem lvl x ts hts
        rw [hcl]; exact hc x (by simp) ts0 h0
      · exact cleanParsed_of_clean r lvl hr y hy ts hts

end Verif.C15
