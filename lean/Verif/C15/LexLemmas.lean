/- C15 — the lexer model on what the formatter writes: token classes -/
import Verif.C15.Lex
import Verif.C15.Lemmas
import Verif.C15.DocStable
import Verif.C15.Props

namespace Verif.C15
set_option linter.unusedSimpArgs false
set_option linter.unusedVariables false

theorem scanQuoted_close (close : Char) (rest : Str) : scanQuoted close (close :: rest) = some ([], rest) := by
  rw [scanQuoted.eq_def]; simp

theorem scanQuoted_plain (close c : Char) (cs : Str) (h1 : c ≠ close) (h2 : c ≠ '\n') (h3 : c ≠ '\\') :
    scanQuoted close (c :: cs) = (scanQuoted close cs).map (fun r => (c :: r.1, r.2)) := by
  rw [scanQuoted.eq_def]; simp [h1, h2, h3]

theorem scanQuoted_esc (close d : Char) (ds : Str) (hb : close ≠ '\\') (hd : d ≠ '\n') :
    scanQuoted close ('\\' :: d :: ds) = (scanQuoted close ds).map (fun r => ('\\' :: d :: r.1, r.2)) := by
  rw [scanQuoted.eq_def]; simp [hb.symm, hd]

theorem scanQuoted_src (close : Char) (hc : close ≠ '\n') (hb : close ≠ '\\') :
    ∀ (n : Nat) (s : Str), s.length ≤ n → srcForm close s = true →
      ∀ rest, scanQuoted close (s ++ close :: rest) = some (s, rest) := by
  intro n
  induction n with
  | zero =>
    intro s hl _ rest
    have : s = [] := by cases s <;> simp at hl ⊢
    subst this; exact scanQuoted_close close rest
  | succ n ih =>
    intro s hl hs rest
    cases s with
    | nil => exact scanQuoted_close close rest
    | cons c cs =>
      rw [srcForm.eq_def] at hs
      simp only at hs
      by_cases h1 : c = close ∨ c = '\n'
      · simp [h1] at hs
      · simp only [h1, if_false] at hs
        have hcc : c ≠ close := fun h => h1 (.inl h)
        have hcn : c ≠ '\n' := fun h => h1 (.inr h)
        by_cases h2 : c = '\\'
        · simp only [h2, if_true] at hs
          cases cs with
          | nil => simp at hs
          | cons d ds =>
            simp only [Bool.and_eq_true, decide_eq_true_eq] at hs
            have := ih ds (by simp at hl; omega) hs.2 rest
            subst h2
            simp only [List.cons_append]
            rw [scanQuoted_esc close d _ hb hs.1, this]; rfl
        · simp only [h2, if_false] at hs
          have := ih cs (by simp at hl; omega) hs rest
          simp only [List.cons_append]
          rw [scanQuoted_plain close c _ hcc hcn h2, this]; rfl

/-- a character of an identifier is none of the characters the other alternatives start with -/
theorem identChar_ne (c : Char) (h : identChar c = true) (x : Char)
    (hx : identChar x = false) : c ≠ x := by
  intro e; subst e; rw [h] at hx; cases hx

theorem startsWith_cons_ne (p : Char) (ps : Str) (c : Char) (cs : Str) (h : c ≠ p) :
    startsWith (p :: ps) (c :: cs) = false := by
  simp [startsWith, Ne.symm h]

theorem takeWhile_ident (w rest : Str) (hw : w.all identChar = true)
    (hr : ∀ c ∈ rest.head?, identChar c = false) :
    (w ++ rest).takeWhile identChar = w ∧ (w ++ rest).dropWhile identChar = rest := by
  induction w with
  | nil =>
    cases rest with
    | nil => simp
    | cons c cs => have := hr c (by simp); simp [this]
  | cons c cs ih =>
    simp only [List.all_cons, Bool.and_eq_true] at hw
    have := ih hw.2
    simp [hw.1, this.1, this.2]

/-- alternative 24: an identifier (non-empty, identifier characters only) followed by anything that is
not an identifier character is returned whole, and nothing earlier in the source order takes it -/
theorem lexOne_ident (c : Char) (w rest : Str) (hc : identChar c = true) (hw : w.all identChar = true)
    (hr : ∀ x ∈ rest.head?, identChar x = false) :
    lexOne (c :: w ++ rest) = .ok (.ident (c :: w), rest) := by
  have ne := fun x (hx : identChar x = false) => identChar_ne c hc x hx
  have tw := takeWhile_ident (c :: w) rest (by simp [hc, hw]) hr
  simp only [List.cons_append] at tw
  simp only [lexOne, List.cons_append,
    startsWith_cons_ne '"' _ c _ (ne '"' (by decide)), startsWith_cons_ne '#' _ c _ (ne '#' (by decide)),
    startsWith_cons_ne ':' _ c _ (ne ':' (by decide)), startsWith_cons_ne '.' _ c _ (ne '.' (by decide)),
    startsWith_cons_ne '<' _ c _ (ne '<' (by decide)), startsWith_cons_ne '!' _ c _ (ne '!' (by decide)),
    ne ';' (by decide), ne '"' (by decide), ne '\'' (by decide), ne '^' (by decide), ne '.' (by decide),
    ne '&' (by decide), ne ',' (by decide), ne '[' (by decide), ne '<' (by decide), ne ']' (by decide),
    ne '>' (by decide), ne '#' (by decide), ne '%' (by decide), ne '(' (by decide), ne '/' (by decide),
    q3, hc, if_true, if_false, Bool.false_eq_true, tw.1, tw.2]

/-- alternative 4: a String in source form is returned whole, whatever follows -/
theorem lexOne_string (s rest : Str) (hs : srcForm '"' s = true) (h3 : startsWith q3 ('"' :: s ++ '"' :: rest) = false) :
    lexOne ('"' :: s ++ '"' :: rest) = .ok (.str s, rest) := by
  have := scanQuoted_src '"' (by decide) (by decide) s.length s (Nat.le_refl _) hs rest
  simp only [List.cons_append] at h3
  simp [lexOne, h3, startsWith, this]

/-- alternative 6: a Regex in source form -/
theorem lexOne_regex (s rest : Str) (hs : srcForm '$' s = true) :
    lexOne ('^' :: s ++ '$' :: rest) = .ok (.regex s, rest) := by
  have := scanQuoted_src '$' (by decide) (by decide) s.length s (Nat.le_refl _) hs rest
  simp [lexOne, startsWith, q3, this]

/-- alternative 19: a coreference -/
theorem lexOne_coref (w rest : Str) (hne : w ≠ []) (hw : w.all identChar = true)
    (hr : ∀ x ∈ rest.head?, identChar x = false) (hb : w.head? ≠ some '|') :
    lexOne ('#' :: w ++ rest) = .ok (.coref w, rest) := by
  have tw := takeWhile_ident w rest hw hr
  cases w with
  | nil => exact absurd rfl hne
  | cons c cs =>
    have hc : c ≠ '|' := by simpa using hb
    simp only [List.cons_append] at tw
    simp [lexOne, startsWith, q3, hc, Ne.symm hc, tw.1, tw.2]

/-- alternative 1: the docstring the formatter writes (any text, any indentation) is returned whole -/
theorem lexOne_docstring (k : Nat) (d rest : Str) :
    lexOne (q3 ++ (fmtDoc k d ++ (q3 ++ rest))) = .ok (.doc (fmtDoc k d), rest) := by
  have h := scan_fmtDoc k d rest
  have hne : (fmtDoc k d ++ (q3 ++ rest)).isEmpty = false := by
    simp [fmtDoc, escapeDoc, escGo, q3]
  simp only [lexOne, q3, List.cons_append, List.nil_append, startsWith, beq_self_eq_true, Bool.and_self,
    if_true, List.drop_succ_cons, List.drop_zero] at h hne ⊢
  simp only [hne, Bool.false_eq_true, if_false, h]

end Verif.C15
