/-
C15 — model of `delphin.tdl` (format ∘ lex as a token stream, the recursive-descent
parser, ConsList/DiffList/AVM construction, docstring escaping and scanning) and of
`delphin.tfs.FeatureStructure` path access.  Core Lean only.  Strings are `List Char`.

What is modelled, function by function:
* `escGo/escapeDoc`      = `tdl._escape_docstring` (the `cnt` state machine, `lastindex` quirk)
* `scanB`                = `tdl._bounded` on the concatenated remaining text
* `fmtDoc`               = `tdl._format_docstring` (textwrap.dedent for space-indented text,
                           `split('\n')`, dropping a blank first/last line, re-indent, escape)
* `Term/Val/...`         = the *constructed* objects (AVM with nested `_avm`, ConsList as
                           values+end, DiffList as values)
* `setPath/mkAVM/mkCons` = `FeatureStructure.__setitem__`, `AVM(featvals)`, `ConsList(values,end)`
* `toks*`                = `_lex(format(x))` (layout-free: only tokens)
* `parse*`               = `_parse_tdl_*` on a token list (fuel = recursion depth budget)
* `expand*`              = `features(expand=True)`
-/
namespace Verif.C15

abbrev Str := List Char

inductive Err where
  | syntaxError      -- tdl.TDLSyntaxError
  | tfsError         -- tfs.TFSError
  | tdlError         -- tdl.TDLError
  | indexError       -- IndexError
  | keyError         -- KeyError
  | typeError        -- TypeError
  | assertionError   -- AssertionError
  | fuel             -- model ran out of fuel (never equal to an implementation result)
  | unmodelled       -- outside the modelled fragment (never compared)
deriving Repr, DecidableEq

/-! ## Docstrings, character level -/

/-- `_escape_docstring`: `st = none` is `cnt == -1` (previous char was an unescaped backslash),
`some k` is `cnt == k`. -/
def escGo : Option Nat → Str → Str
  | _, [] => []
  | none, c :: cs => c :: escGo (some 0) cs
  | some k, c :: cs =>
    if c = '"' then
      if k + 1 = 3 ∨ cs = [] then '\\' :: '"' :: escGo (some 0) cs
      else '"' :: escGo (some (k + 1)) cs
    else if c = '\\' then '\\' :: escGo none cs
    else c :: escGo (some 0) cs

def escapeDoc (s : Str) : Str := escGo (some 0) s

def startsWith : Str → Str → Bool
  | [], _ => true
  | _ :: _, [] => false
  | p :: ps, c :: cs => p == c && startsWith ps cs

/-- `_bounded(p1, close, …)` seen on the concatenation of the remaining lines: returns the
collected contents and the text after the closing delimiter; `none` = unterminated. -/
def scanB (close : Str) : Str → Option (Str × Str)
  | [] => none
  | c :: cs =>
    if startsWith close (c :: cs) then some ([], (c :: cs).drop close.length)
    else if c = '\\' then
      match cs with
      | [] => none
      | d :: ds => (scanB close ds).map (fun r => (c :: d :: r.1, r.2))
    else (scanB close cs).map (fun r => (c :: r.1, r.2))

def q3 : Str := ['"', '"', '"']

/-- the text ends inside an escape (odd backslash at the very end). -/
def dangling : Str → Bool
  | [] => false
  | c :: cs =>
    if c = '\\' then
      match cs with
      | [] => true
      | _ :: ds => dangling ds
    else dangling cs

/-- `str.split('\n')` -/
def splitNL : Str → List Str
  | [] => [[]]
  | c :: cs =>
    if c = '\n' then [] :: splitNL cs
    else match splitNL cs with
      | [] => [[c]]
      | l :: ls => (c :: l) :: ls

def isBlank (l : Str) : Bool := l.all (· == ' ')
def leadSp (l : Str) : Nat := (l.takeWhile (· == ' ')).length

/-- `textwrap.dedent(doc).split('\n')` for text whose only white space is ' ' and '\n'. -/
def dedentLines (doc : Str) : List Str :=
  let ls1 := (splitNL doc).map (fun l => if isBlank l then [] else l)
  let ind := (ls1.filter (fun l => !l.isEmpty)).map leadSp
  let margin := match ind with
    | [] => 0
    | m :: ms => ms.foldl min m
  ls1.map (fun l => l.drop margin)

def joinLines (sep : Str) : List Str → Str
  | [] => []
  | [l] => l
  | l :: ls => l ++ sep ++ joinLines sep ls

/-- the `lines` that `_format_docstring` re-indents: a blank first line and then a blank last
line (if one is left) are dropped. -/
def docLines (doc : Str) : List Str :=
  match dedentLines doc with
  | [] => []
  | l :: ls =>
    let ls1 := if isBlank l then ls else l :: ls
    match ls1.getLast? with
    | none => ls1
    | some z => if isBlank z then ls1.dropLast else ls1

def spaces (n : Nat) : Str := List.replicate n ' '

/-- contents between the `"""` written by `_format_docstring(doc, indent)`. -/
def fmtDoc (indent : Nat) (doc : Str) : Str :=
  let ind := spaces indent
  escapeDoc ('\n' :: ind ++ joinLines ('\n' :: ind) (docLines doc) ++ '\n' :: ind)

/-! ## Objects -/

mutual
inductive Term where
  | ident (doc : Option Str) (s : Str)
  | str (doc : Option Str) (s : Str)
  | regex (doc : Option Str) (s : Str)
  | coref (doc : Option Str) (s : Str)
  | avm (doc : Option Str) (fs : Feats)
  | cons (doc : Option Str) (vs : Items) (e : End)
  | diff (doc : Option Str) (vs : Items)
/-- value of a feature / list item / list end: a bare term or a `Conjunction` object -/
inductive Val where
  | term (t : Term)
  | conj (ts : Terms)
inductive Terms where
  | nil
  | cons (t : Term) (ts : Terms)
inductive Feats where
  | nil
  | cons (k : Str) (v : Val) (fs : Feats)
inductive Items where
  | nil
  | cons (v : Val) (vs : Items)
inductive End where
  | closed
  | opn
  | dotted (v : Val)
end

deriving instance Repr for Term, Val, Terms, Feats, Items, End

def Terms.ofList : List Term → Terms
  | [] => .nil
  | t :: ts => .cons t (Terms.ofList ts)
def Terms.toList : Terms → List Term
  | .nil => []
  | .cons t ts => t :: ts.toList
def Items.ofList : List Val → Items
  | [] => .nil
  | v :: vs => .cons v (Items.ofList vs)
def Items.toList : Items → List Val
  | .nil => []
  | .cons v vs => v :: vs.toList
def Items.isNil : Items → Bool
  | .nil => true
  | _ => false
def Feats.toList : Feats → List (Str × Val)
  | .nil => []
  | .cons k v fs => (k, v) :: fs.toList
def Feats.keys : Feats → List Str
  | .nil => []
  | .cons k _ fs => k :: fs.keys
def Feats.snoc : Feats → Str → Val → Feats
  | .nil, k, v => .cons k v .nil
  | .cons k' v' fs, k, v => .cons k' v' (fs.snoc k v)
def Feats.append : Feats → Feats → Feats
  | .nil, g => g
  | .cons k v fs, g => .cons k v (fs.append g)
def Feats.lookup : Feats → Str → Option Val
  | .nil, _ => none
  | .cons k' v fs, k => if k' = k then some v else fs.lookup k
/-- `avm[k] = v` for an existing key (position kept) -/
def Feats.replace : Feats → Str → Val → Feats
  | .nil, _, _ => .nil
  | .cons k' v' fs, k, v => if k' = k then .cons k' v fs else .cons k' v' (fs.replace k v)

/-! ## Case folding (ASCII; the generators stay where Python's `str.upper/lower` agree) -/

def upper (s : Str) : Str := s.map Char.toUpper
def lower (s : Str) : Str := s.map Char.toLower

/-! ## `FeatureStructure.__setitem__` / `__getitem__` -/

/-- value created for the missing part of a path: `_default()` AVMs all the way down -/
def mkNested : List Str → Val → Val
  | [], v => v
  | k :: p, v => .term (.avm none (.cons (upper k) (mkNested p v) .nil))

def Terms.hasAvm : Terms → Bool
  | .nil => false
  | .cons (.avm ..) _ => true
  | .cons (.cons ..) _ => true
  | .cons (.diff ..) _ => true
  | .cons _ ts => ts.hasAvm

/-- `fs[path] = v`.  Through an existing plain AVM: recursive; through a type term or a
coreference: `TFSError`; through a Conjunction without AVM: `TDLError`; through a list or a
Conjunction with an AVM (in-place mutation of a shared object): outside the model. -/
def setPath : Feats → List Str → Val → Except Err Feats
  | _, [], _ => .error .unmodelled
  | fs, [k], v =>
    match fs.lookup (upper k) with
    | none => .ok (fs.snoc (upper k) v)
    | some _ => .ok (fs.replace (upper k) v)
  | fs, k :: k2 :: p, v =>
    match fs.lookup (upper k) with
    | none => .ok (fs.snoc (upper k) (mkNested (k2 :: p) v))
    | some (.term (.avm d sub)) =>
      match setPath sub (k2 :: p) v with
      | .ok sub' => .ok (fs.replace (upper k) (.term (.avm d sub')))
      | .error e => .error e
    | some (.term (.cons ..)) => .error .unmodelled
    | some (.term (.diff ..)) => .error .unmodelled
    | some (.term _) => .error .tfsError
    | some (.conj ts) => if ts.hasAvm then .error .unmodelled else .error .tdlError

/-- `fs[path]` through plain AVMs (`KeyError` for a missing key; indexing into a type term is a
`TypeError`; through lists/conjunctions: outside the model). -/
def getPath : Feats → List Str → Except Err Val
  | _, [] => .error .unmodelled
  | fs, [k] =>
    match fs.lookup (upper k) with
    | none => .error .keyError
    | some v => .ok v
  | fs, k :: k2 :: p =>
    match fs.lookup (upper k) with
    | none => .error .keyError
    | some (.term (.avm _ sub)) => getPath sub (k2 :: p)
    | some (.term (.ident ..)) => .error .typeError
    | some (.term (.str ..)) => .error .typeError
    | some (.term (.regex ..)) => .error .typeError
    | some (.term (.coref ..)) => .error .typeError
    | some _ => .error .unmodelled

/-- `AVM(featvals)` -/
def mkAVM : List (List Str × Val) → Feats → Except Err Feats
  | [], acc => .ok acc
  | (p, v) :: rest, acc =>
    match setPath acc p v with
    | .ok acc' => mkAVM rest acc'
    | .error e => .error e

def listType : Str := "*list*".toList
def emptyListType : Str := "*null*".toList

/-- `end == s` for the two list-type strings (identifier: case-insensitive `TypeIdentifier.__eq__`;
String/Regex: the reflected `str.__eq__`) -/
def valEqStr (v : Val) (s : Str) : Bool :=
  match v with
  | .term (.ident _ x) => lower x == lower s
  | .term (.str _ x) => x == s
  | .term (.regex _ x) => x == s
  | _ => false

inductive PEnd where
  | none      -- parser: no `. x` and no `...`
  | opn       -- `...`
  | dotted (v : Val)

/-- `ConsList(values, end)` -/
def mkCons (d : Option Str) (vs : List Val) (e : PEnd) : Except Err Term :=
  match e with
  | .none => .ok (.cons d (Items.ofList vs) .closed)
  | .opn => .ok (.cons d (Items.ofList vs) .opn)
  | .dotted v =>
    if valEqStr v listType then .ok (.cons d (Items.ofList vs) .opn)
    else if valEqStr v emptyListType then .ok (.cons d (Items.ofList vs) .closed)
    else if vs.isEmpty then .error .tdlError
    else .ok (.cons d (Items.ofList vs) (.dotted v))

/-! ## Tokens -/

inductive Tok where
  | doc (s : Str)        -- 1
  | bcomment (s : Str)   -- 2
  | lcomment (s : Str)   -- 3
  | str (s : Str)        -- 4
  | qsym (s : Str)       -- 5
  | regex (s : Str)      -- 6
  | defop (s : Str)      -- 7  := or :<
  | addop                -- 8
  | ellipsis             -- 9
  | dot                  -- 10
  | amp                  -- 11
  | comma                -- 12
  | lbrack               -- 13
  | ldiff                -- 14
  | langle               -- 15
  | rbrack               -- 16
  | rdiff                -- 17
  | rangle               -- 18
  | coref (s : Str)      -- 19
  | morph (s : Str)      -- 20
  | affix (s : Str)      -- 21
  | affixpat (s : Str)   -- 22
  | slash                -- 23
  | ident (s : Str)      -- 24
  | begin_               -- 25
  | end_                 -- 26
  | envtype (s : Str)    -- 27
  | status               -- 28
  | include_             -- 29
deriving Repr, DecidableEq

def Tok.gid : Tok → Nat
  | .doc _ => 1 | .bcomment _ => 2 | .lcomment _ => 3 | .str _ => 4 | .qsym _ => 5 | .regex _ => 6
  | .defop _ => 7 | .addop => 8 | .ellipsis => 9 | .dot => 10 | .amp => 11 | .comma => 12
  | .lbrack => 13 | .ldiff => 14 | .langle => 15 | .rbrack => 16 | .rdiff => 17 | .rangle => 18
  | .coref _ => 19 | .morph _ => 20 | .affix _ => 21 | .affixpat _ => 22 | .slash => 23
  | .ident _ => 24 | .begin_ => 25 | .end_ => 26 | .envtype _ => 27 | .status => 28 | .include_ => 29

def Tok.text : Tok → Str
  | .doc s | .bcomment s | .lcomment s | .str s | .qsym s | .regex s | .defop s | .coref s
  | .morph s | .affix s | .affixpat s | .ident s | .envtype s => s
  | .addop => ":+".toList | .ellipsis => "...".toList | .dot => ".".toList | .amp => "&".toList
  | .comma => ",".toList | .lbrack => "[".toList | .ldiff => "<!".toList | .langle => "<".toList
  | .rbrack => "]".toList | .rdiff => "!>".toList | .rangle => ">".toList | .slash => "/".toList
  | .begin_ => ":begin".toList | .end_ => ":end".toList | .status => ":status".toList
  | .include_ => ":include".toList

def Tok.ofGid (g : Nat) (s : Str) : Option Tok :=
  match g with
  | 1 => some (.doc s) | 2 => some (.bcomment s) | 3 => some (.lcomment s) | 4 => some (.str s)
  | 5 => some (.qsym s) | 6 => some (.regex s) | 7 => some (.defop s) | 8 => some .addop
  | 9 => some .ellipsis | 10 => some .dot | 11 => some .amp | 12 => some .comma
  | 13 => some .lbrack | 14 => some .ldiff | 15 => some .langle | 16 => some .rbrack
  | 17 => some .rdiff | 18 => some .rangle | 19 => some (.coref s) | 20 => some (.morph s)
  | 21 => some (.affix s) | 22 => some (.affixpat s) | 23 => some .slash | 24 => some (.ident s)
  | 25 => some .begin_ | 26 => some .end_ | 27 => some (.envtype s) | 28 => some .status
  | 29 => some .include_ | _ => none

/-! ## format ∘ lex : objects to tokens -/

def docTok : Option Str → List Tok
  | none => []
  | some d => [.doc d]

/-- `A.B.C` -/
def pathToks : List Str → List Tok
  | [] => []
  | [k] => [.ident k]
  | k :: p => .ident k :: .dot :: pathToks p

mutual
def toksTerm : Term → List Tok
  | .ident d s => docTok d ++ [.ident s]
  | .str d s => docTok d ++ [.str s]
  | .regex d s => docTok d ++ [.regex s]
  | .coref d s => docTok d ++ [.coref s]
  | .avm d fs => docTok d ++ .lbrack :: (toksFeats fs ++ [.rbrack])
  | .cons d vs e => docTok d ++ .langle :: (toksItems vs ++ (toksEnd vs.isNil e ++ [.rangle]))
  | .diff d vs => docTok d ++ .ldiff :: (toksItems vs ++ [.rdiff])
def toksVal : Val → List Tok
  | .term t => toksTerm t
  | .conj ts => toksTerms ts
def toksTerms : Terms → List Tok
  | .nil => []
  | .cons t ts => toksTerm t ++ toksAmp ts
def toksAmp : Terms → List Tok
  | .nil => []
  | .cons t ts => .amp :: (toksTerm t ++ toksAmp ts)
/-- one `feat value` entry as `AVM.features()` lists it: a bare AVM value with exactly one
feature and no docstring (`AVM._is_notable`) is passed through (`A.B x`). -/
def toksFeat (pre : List Str) (k : Str) : Val → List Tok
  | .term (.avm none (.cons k2 v2 .nil)) => toksFeat (pre ++ [k]) k2 v2
  | v => pathToks (pre ++ [k]) ++ toksVal v
def toksFeats : Feats → List Tok
  | .nil => []
  | .cons k v fs => toksFeat [] k v ++ toksFeatsC fs
def toksFeatsC : Feats → List Tok
  | .nil => []
  | .cons k v fs => .comma :: (toksFeat [] k v ++ toksFeatsC fs)
def toksItems : Items → List Tok
  | .nil => []
  | .cons v vs => toksVal v ++ toksItemsC vs
def toksItemsC : Items → List Tok
  | .nil => []
  | .cons v vs => .comma :: (toksVal v ++ toksItemsC vs)
def toksEnd (emp : Bool) : End → List Tok
  | .closed => []
  | .opn => if emp then [.ellipsis] else [.comma, .ellipsis]
  | .dotted v => .dot :: toksVal v
end

/-! ## Parser (`_parse_tdl_conjunction/_term/_feature_structure/_list`) -/

def isBrk (diff : Bool) : Tok → Bool
  | .rdiff => diff
  | .rangle => !diff
  | _ => false

def valOfList (l : List Term) : Val :=
  match l with
  | [t] => .term t
  | _ => .conj (Terms.ofList l)

/-- the `while nextgid == 10` loop collecting a dotted path -/
def parsePath (acc : List Str) : List Tok → Except Err (List Str × List Tok)
  | .dot :: .ident k :: r => parsePath (acc ++ [k]) r
  | .dot :: [] => .error .syntaxError
  | .dot :: _ :: _ => .error .assertionError
  | r => .ok (acc, r)

mutual
def parseTerm : Nat → List Tok → Except Err (Term × List Tok)
  | 0, _ => .error .fuel
  | n + 1, ts =>
    let dr : Option Str × List Tok := match ts with
      | .doc d :: r => (some d, r)
      | _ => (none, ts)
    match dr.2 with
    | .str s :: r => .ok (.str dr.1 s, r)
    | .qsym s :: r => .ok (.ident dr.1 s, r)
    | .regex s :: r => .ok (.regex dr.1 s, r)
    | .coref s :: r => .ok (.coref dr.1 s, r)
    | .ident s :: r => .ok (.ident dr.1 s, r)
    | .lbrack :: r =>
      match parseFeats n r with
      | .error e => .error e
      | .ok (fvs, r') =>
        match mkAVM fvs .nil with
        | .error e => .error e
        | .ok fs => .ok (.avm dr.1 fs, r')
    | .ldiff :: r =>
      match parseList n true r with
      | .error e => .error e
      | .ok (vs, _, r') => .ok (.diff dr.1 (Items.ofList vs), r')
    | .langle :: r =>
      match parseList n false r with
      | .error e => .error e
      | .ok (vs, e, r') =>
        match mkCons dr.1 vs e with
        | .error e => .error e
        | .ok t => .ok (t, r')
    | _ => .error .syntaxError
def parseTerms : Nat → List Tok → Except Err (List Term × List Tok)
  | 0, _ => .error .fuel
  | n + 1, ts =>
    match parseTerm n ts with
    | .error e => .error e
    | .ok (t, r) =>
      match r with
      | .amp :: r' =>
        match parseTerms n r' with
        | .error e => .error e
        | .ok (l, r'') => .ok (t :: l, r'')
      | _ => .ok ([t], r)
def parseFeats : Nat → List Tok → Except Err (List (List Str × Val) × List Tok)
  | 0, _ => .error .fuel
  | n + 1, ts =>
    match ts with
    | .rbrack :: r => .ok ([], r)
    | _ => parseFeatLoop n ts
def parseFeatLoop : Nat → List Tok → Except Err (List (List Str × Val) × List Tok)
  | 0, _ => .error .fuel
  | n + 1, ts =>
    match ts with
    | .ident k :: r =>
      match parsePath [k] r with
      | .error e => .error e
      | .ok (path, r1) =>
        match parseTerms n r1 with
        | .error e => .error e
        | .ok (l, r2) =>
          match r2 with
          | .comma :: r3 =>
            match parseFeatLoop n r3 with
            | .error e => .error e
            | .ok (fs, r4) => .ok ((path, valOfList l) :: fs, r4)
          | .rbrack :: r3 => .ok ([(path, valOfList l)], r3)
          | _ => .error .syntaxError
    | _ => .error .syntaxError
def parseList : Nat → Bool → List Tok → Except Err (List Val × PEnd × List Tok)
  | 0, _, _ => .error .fuel
  | n + 1, diff, ts =>
    match ts with
    | [] => .error .syntaxError
    | t :: r => if isBrk diff t then .ok ([], .none, r) else parseListLoop n diff ts
def parseListLoop : Nat → Bool → List Tok → Except Err (List Val × PEnd × List Tok)
  | 0, _, _ => .error .fuel
  | n + 1, diff, ts =>
    match ts with
    | .ellipsis :: r =>
      match r with
      | t :: r' => if isBrk diff t then .ok ([], .opn, r') else .error .syntaxError
      | [] => .error .syntaxError
    | _ => parseListItem n diff ts
def parseListItem : Nat → Bool → List Tok → Except Err (List Val × PEnd × List Tok)
  | 0, _, _ => .error .fuel
  | n + 1, diff, ts =>
    match parseTerms n ts with
    | .error e => .error e
    | .ok (l, r) =>
      match r with
      | .dot :: r1 =>
        match parseTerms n r1 with
        | .error e => .error e
        | .ok (l2, r2) =>
          match r2 with
          | t :: r3 => if isBrk diff t then .ok ([valOfList l], .dotted (valOfList l2), r3) else .error .syntaxError
          | [] => .error .syntaxError
      | .comma :: r1 =>
        match parseListLoop n diff r1 with
        | .error e => .error e
        | .ok (vs, e, r2) => .ok (valOfList l :: vs, e, r2)
      | t :: r1 => if isBrk diff t then .ok ([valOfList l], .none, r1) else .error .syntaxError
      | [] => .error .syntaxError
end

/-- `_parse_tdl_conjunction`: a bare term when there is one term, else a Conjunction -/
def parseConj (n : Nat) (ts : List Tok) : Except Err (Val × List Tok) :=
  match parseTerms n ts with
  | .error e => .error e
  | .ok (l, r) => .ok (valOfList l, r)


/-! ## Top-level entities (a file is a flat list of items; an environment is its begin item,
its entries, its end item — this is the event view of `iterparse`) -/

inductive Item where
  | typedef (id : Str) (ts : Terms) (doc : Option Str)
  | addendum (id : Str) (ts : Terms) (doc : Option Str)
  | lexrule (id : Str) (affix : Str) (pats : List (Str × Str)) (ts : Terms) (doc : Option Str)
  | letterset (var chars : Str)
  | wildcard (var chars : Str)
  | beginEnv (inst : Bool) (status : Option Str)
  | endEnv (inst : Bool)
  | include_ (v : Str)
  | lcomment (s : Str)
  | bcomment (s : Str)
deriving Repr

def envTypeText (inst : Bool) : Str := if inst then ":instance".toList else ":type".toList

/-- `re.sub(r'([) \\])', r'\\\1', characters)` in `_format_morphset` -/
def escMorph : Str → Str
  | [] => []
  | c :: cs => if c = ')' ∨ c = ' ' ∨ c = '\\' then '\\' :: c :: escMorph cs else c :: escMorph cs

def morphText (kind : Str) (var chars : Str) : Str :=
  kind ++ " (".toList ++ var ++ ' ' :: escMorph chars ++ [')']

def toksItem : Item → List Tok
  | .typedef id ts doc => .ident id :: .defop ":=".toList :: (toksTerms ts ++ (docTok doc ++ [.dot]))
  | .addendum id ts doc => .ident id :: .addop :: (toksTerms ts ++ (docTok doc ++ [.dot]))
  | .lexrule id a pats ts doc =>
    .ident id :: .defop ":=".toList :: .affix a ::
      (pats.map (fun mr => Tok.affixpat (mr.1 ++ ' ' :: mr.2)) ++ (toksTerms ts ++ (docTok doc ++ [.dot])))
  | .letterset var chars => [.morph (morphText "letter-set".toList var chars)]
  | .wildcard var chars => [.morph (morphText "wild-card".toList var chars)]
  | .beginEnv inst status =>
    .begin_ :: .envtype (envTypeText inst) ::
      ((match inst, status with
        | true, some st => if st.isEmpty then [] else [.status, .ident st]
        | _, _ => []) ++ [.dot])
  | .endEnv inst => [.end_, .envtype (envTypeText inst), .dot]
  | .include_ v => [.include_, .str v, .dot]
  | .lcomment s => [.lcomment s]
  | .bcomment s => [.bcomment s]

def Item.terms? : Item → Option Terms
  | .typedef _ ts _ | .addendum _ ts _ | .lexrule _ _ _ ts _ => some ts
  | _ => none

/-! ### letter-sets and wild-cards, character level -/

def dropSp : Str → Str
  | ' ' :: cs => dropSp cs
  | cs => cs

def stripPrefix : Str → Str → Option Str
  | [], cs => some cs
  | _ :: _, [] => none
  | p :: ps, c :: cs => if p = c then stripPrefix ps cs else none

/-- `((?:[^) \\]|\\.)+)\)\s*$` then `re.sub(r'\\(.)', r'\1', …)`: returns the unescaped
characters (`.` does not match a newline). -/
def morphChars : Str → Option Str
  | [] => none
  | ')' :: r => if dropSp r = [] then some [] else none
  | ' ' :: _ => none
  | '\\' :: d :: r => if d = '\n' then none else (morphChars r).map (d :: ·)
  | '\\' :: [] => none
  | c :: r => (morphChars r).map (c :: ·)

def morphBody (kind : Str) (sigil : Char) (s : Str) : Option (Str × Str) :=
  match stripPrefix kind (dropSp s) with
  | none => none
  | some r =>
    match dropSp r with
    | '(' :: sg :: v :: ' ' :: r2 =>
      if sg = sigil ∧ v ≠ '\n' then
        match morphChars (dropSp r2) with
        | some [] => none
        | some cs => some ([sg, v], cs)
        | none => none
      else none
    | _ => none

/-- `_parse_letterset` -/
def parseMorph (s : Str) : Except Err Item :=
  match morphBody "letter-set".toList '!' s with
  | some (v, cs) => .ok (.letterset v cs)
  | none =>
    match morphBody "wild-card".toList '?' s with
    | some (v, cs) => .ok (.wildcard v cs)
    | none => .error .syntaxError

/-! ### definitions and the top-level loop -/

/-- `token.split(None, 1)` of an affix sub-pattern (white space = ' ') -/
def splitAffix (s : Str) : Str × Str :=
  let s1 := dropSp s
  (s1.takeWhile (· ≠ ' '), dropSp (s1.dropWhile (· ≠ ' ')))

def takeAffixPats : List Tok → List (Str × Str) × List Tok
  | .affixpat s :: r => let pr := takeAffixPats r; (splitAffix s :: pr.1, pr.2)
  | r => ([], r)

def isTypeTerm : Term → Bool
  | .ident .. | .str .. | .regex .. => true
  | _ => false

/-- the tail of `_parse_tdl_definition`: optional pre-dot docstring, then `.` -/
def finishDef (mk : Option Str → Item) : List Tok → Except Err (Item × List Tok)
  | .doc d :: .dot :: r => .ok (mk (some d), r)
  | .dot :: r => .ok (mk none, r)
  | _ => .error .syntaxError

/-- `_parse_tdl_definition` (the identifier has been consumed) -/
def parseDef (n : Nat) (id : Str) : List Tok → Except Err (Item × List Tok)
  | .defop _ :: .affix a :: r =>
    let pr := takeAffixPats r
    match parseTerms n pr.2 with
    | .error e => .error e
    | .ok (l, r2) => finishDef (fun d => .lexrule id a pr.1 (Terms.ofList l) d) r2
  | .defop _ :: r =>
    match parseTerms n r with
    | .error e => .error e
    | .ok (l, r2) =>
      if l.any isTypeTerm then finishDef (fun d => .typedef id (Terms.ofList l) d) r2
      else .error .syntaxError
  | .addop :: .doc d :: .dot :: r => .ok (.addendum id .nil (some d), r)
  | .addop :: r =>
    match parseTerms n r with
    | .error e => .error e
    | .ok (l, r2) => finishDef (fun d => .addendum id (Terms.ofList l) d) r2
  | _ => .error .syntaxError

/-- `_parse_tdl`: `cur` is `environment` (`none` = top level, `some inst`), `stack` is `envstack`.
`n` bounds the number of items, `m` is the fuel given to each definition. -/
def parseItems : Nat → Nat → Option Bool → List (Option Bool) → List Tok → Except Err (List Item)
  | _, _, _, _, [] => .ok []
  | 0, _, _, _, _ :: _ => .error .fuel
  | n + 1, m, cur, stack, t :: r =>
    let continue_ (it : Item) (cur' : Option Bool) (stack' : List (Option Bool)) (r' : List Tok) :=
      match parseItems n m cur' stack' r' with
      | .error e => Except.error e
      | .ok its => .ok (it :: its)
    match t with
    | .bcomment s => continue_ (.bcomment s) cur stack r
    | .lcomment s => continue_ (.lcomment s) cur stack r
    | .morph s =>
      match parseMorph s with
      | .error e => .error e
      | .ok it => continue_ it cur stack r
    | .ident id =>
      match parseDef m id r with
      | .error e => .error e
      | .ok (it, r') => continue_ it cur stack r'
    | .begin_ =>
      match r with
      | .envtype e :: r1 =>
        if e = ":instance".toList then
          match r1 with
          | .status :: st :: .dot :: r2 => continue_ (.beginEnv true (some st.text)) (some true) (cur :: stack) r2
          | .dot :: r2 => continue_ (.beginEnv true (some "instance".toList)) (some true) (cur :: stack) r2
          | _ => .error .syntaxError
        else
          match r1 with
          | .dot :: r2 => continue_ (.beginEnv false none) (some false) (cur :: stack) r2
          | _ => .error .syntaxError
      | _ => .error .syntaxError
    | .end_ =>
      match r with
      | e :: .dot :: r2 =>
        if e.text = ":type".toList ∧ cur ≠ some false then .error .syntaxError
        else if e.text = ":instance".toList ∧ cur ≠ some true then .error .syntaxError
        else
          match cur, stack with
          | some inst, prev :: stack' => continue_ (.endEnv inst) prev stack' r2
          | _, _ => .error .indexError
      | _ => .error .syntaxError
    | .include_ =>
      match r with
      | .str v :: .dot :: r2 => continue_ (.include_ v) cur stack r2
      | _ => .error .syntaxError
    | _ => .error .syntaxError

def parseFile (ts : List Tok) : Except Err (List Item) :=
  parseItems (ts.length + 1) (6 * ts.length + 10) none [] ts

/-! ## What a re-parse returns (`canon`) -/

mutual
def canonTerm : Term → Term
  | .avm d fs => .avm d (canonFeats fs)
  | .cons d vs e => .cons d (canonItems vs) (canonEnd e)
  | .diff d vs => .diff d (canonItems vs)
  | .ident d s => .ident d s
  | .str d s => .str d s
  | .regex d s => .regex d s
  | .coref d s => .coref d s
def canonVal : Val → Val
  | .term t => .term (canonTerm t)
  | .conj (.cons t .nil) => .term (canonTerm t)
  | .conj ts => .conj (canonTerms ts)
def canonTerms : Terms → Terms
  | .nil => .nil
  | .cons t ts => .cons (canonTerm t) (canonTerms ts)
def canonFeats : Feats → Feats
  | .nil => .nil
  | .cons k v fs => .cons k (canonVal v) (canonFeats fs)
def canonItems : Items → Items
  | .nil => .nil
  | .cons v vs => .cons (canonVal v) (canonItems vs)
def canonEnd : End → End
  | .closed => .closed
  | .opn => .opn
  | .dotted v => .dotted (canonVal v)
end

def canonItem : Item → Item
  | .typedef id ts doc => .typedef id (canonTerms ts) doc
  | .addendum id ts doc => .addendum id (canonTerms ts) doc
  | .lexrule id a pats ts doc => .lexrule id a pats (canonTerms ts) doc
  | it => it

/-! ## `features(expand=True)` -/

abbrev Leaf := Option Term

def restPath (pre : List Str) (n : Nat) : List Str := pre ++ List.replicate n "REST".toList

def Items.length : Items → Nat
  | .nil => 0
  | .cons _ vs => vs.length + 1

def anonCoref : Term := .coref none []

mutual
def expandTerm (pre : List Str) : Term → List (List Str × Leaf)
  | .avm _ fs => expandFeats pre fs
  | .cons _ vs e => expandItems pre vs ++ expandEnd (restPath pre vs.length) vs.isNil e
  | .diff _ vs =>
    expandItems (pre ++ ["LIST".toList]) vs
      ++ [(restPath (pre ++ ["LIST".toList]) vs.length, some anonCoref), (pre ++ ["LAST".toList], some anonCoref)]
  | t => [(pre, some t)]
def expandVal (pre : List Str) : Val → List (List Str × Leaf)
  | .term t => expandTerm pre t
  | .conj ts => expandTerms pre ts
def expandTerms (pre : List Str) : Terms → List (List Str × Leaf)
  | .nil => []
  | .cons t ts => expandTerm pre t ++ expandTerms pre ts
def expandFeats (pre : List Str) : Feats → List (List Str × Leaf)
  | .nil => []
  | .cons k v fs => expandVal (pre ++ [k]) v ++ expandFeats pre fs
def expandItems (pre : List Str) : Items → List (List Str × Leaf)
  | .nil => []
  | .cons v vs => expandVal (pre ++ ["FIRST".toList]) v ++ expandItems (pre ++ ["REST".toList]) vs
def expandEnd (pre : List Str) (emp : Bool) : End → List (List Str × Leaf)
  | .closed => if emp then [] else [(pre, none)]
  | .opn => []
  | .dotted v => expandVal pre v
end

def isAvmLike : Term → Bool
  | .avm .. | .cons .. | .diff .. => true
  | _ => false

/-- `TypeDefinition.features(expand=True)`: only the AVM terms of the top conjunction -/
def expandTop : Terms → List (List Str × Leaf)
  | .nil => []
  | .cons t ts => (if isAvmLike t then expandTerm [] t else []) ++ expandTop ts

/-! ## Well-formedness of constructed objects (what the constructors guarantee) and the two
input classes on which the round trip is not the identity -/

def distinct : List Str → Bool
  | [] => true
  | k :: ks => !ks.contains k && distinct ks

def keysOK (ks : List Str) : Bool := distinct ks && ks.all (fun k => upper k == k)

mutual
def wfTerm : Term → Bool
  | .avm _ fs => keysOK fs.keys && wfFeats fs
  | .cons _ vs e => wfItems vs && wfEnd vs.isNil e
  | .diff _ vs => wfItems vs
  | _ => true
def wfVal : Val → Bool
  | .term t => wfTerm t
  | .conj ts => (match ts with | .nil => false | _ => true) && wfTerms ts
def wfTerms : Terms → Bool
  | .nil => true
  | .cons t ts => wfTerm t && wfTerms ts
def wfFeats : Feats → Bool
  | .nil => true
  | .cons _ v fs => wfVal v && wfFeats fs
def wfItems : Items → Bool
  | .nil => true
  | .cons v vs => wfVal v && wfItems vs
def wfEnd (emp : Bool) : End → Bool
  | .dotted v => !emp && wfVal v && !valEqStr (canonVal v) listType && !valEqStr (canonVal v) emptyListType
  | _ => true
end

/-- a feature value that is a one-term Conjunction holding a one-feature AVM without docstring
(F44: written `A [ B x ]`, read back as a bare AVM, then written `A.B x`) -/
def trivFeat : Val → Bool
  | .conj (.cons (.avm none (.cons _ _ .nil)) .nil) => true
  | _ => false

mutual
/-- no feature value anywhere is `trivFeat` -/
def cleanTerm : Term → Bool
  | .avm _ fs => cleanFeats fs
  | .cons _ vs e => cleanItems vs && cleanEnd e
  | .diff _ vs => cleanItems vs
  | _ => true
def cleanVal : Val → Bool
  | .term t => cleanTerm t
  | .conj ts => cleanTerms ts
def cleanTerms : Terms → Bool
  | .nil => true
  | .cons t ts => cleanTerm t && cleanTerms ts
def cleanFeats : Feats → Bool
  | .nil => true
  | .cons _ v fs => !trivFeat v && cleanVal v && cleanFeats fs
def cleanItems : Items → Bool
  | .nil => true
  | .cons v vs => cleanVal v && cleanItems vs
def cleanEnd : End → Bool
  | .dotted v => cleanVal v
  | _ => true
end

/-! ## The layout stage of `format`: every docstring is replaced by its formatted contents
(`_format_docstring`; the indentation is taken as 0 — the harness removes the real indentation
from what the lexer returns) -/

def mapDocOpt (f : Str → Str) : Option Str → Option Str
  | none => none
  | some d => some (f d)

mutual
def mapDocTerm (f : Str → Str) : Term → Term
  | .ident d s => .ident (mapDocOpt f d) s
  | .str d s => .str (mapDocOpt f d) s
  | .regex d s => .regex (mapDocOpt f d) s
  | .coref d s => .coref (mapDocOpt f d) s
  | .avm d fs => .avm (mapDocOpt f d) (mapDocFeats f fs)
  | .cons d vs e => .cons (mapDocOpt f d) (mapDocItems f vs) (mapDocEnd f e)
  | .diff d vs => .diff (mapDocOpt f d) (mapDocItems f vs)
def mapDocVal (f : Str → Str) : Val → Val
  | .term t => .term (mapDocTerm f t)
  | .conj ts => .conj (mapDocTerms f ts)
def mapDocTerms (f : Str → Str) : Terms → Terms
  | .nil => .nil
  | .cons t ts => .cons (mapDocTerm f t) (mapDocTerms f ts)
def mapDocFeats (f : Str → Str) : Feats → Feats
  | .nil => .nil
  | .cons k v fs => .cons k (mapDocVal f v) (mapDocFeats f fs)
def mapDocItems (f : Str → Str) : Items → Items
  | .nil => .nil
  | .cons v vs => .cons (mapDocVal f v) (mapDocItems f vs)
def mapDocEnd (f : Str → Str) : End → End
  | .closed => .closed
  | .opn => .opn
  | .dotted v => .dotted (mapDocVal f v)
end

def mapDocItem (f : Str → Str) : Item → Item
  | .typedef id ts doc => .typedef id (mapDocTerms f ts) (mapDocOpt f doc)
  | .addendum id ts doc => .addendum id (mapDocTerms f ts) (mapDocOpt f doc)
  | .lexrule id a pats ts doc => .lexrule id a pats (mapDocTerms f ts) (mapDocOpt f doc)
  | it => it

/-- formatted contents at indentation 0 -/
def layoutDoc (d : Str) : Str := fmtDoc 0 d

def layoutItem : Item → Item := mapDocItem layoutDoc


/-! ## Public mutators (objects built by a history of calls rather than in one go) -/

def Feats.erase : Feats → Str → Feats
  | .nil, _ => .nil
  | .cons k' v fs, k => if k' = k then fs else .cons k' v (fs.erase k)

/-- `del fs[path]` through plain AVMs (`KeyError` for a missing key, `TypeError` below a type term;
through lists / conjunctions: outside the model) -/
def delPath : Feats → List Str → Except Err Feats
  | _, [] => .error .unmodelled
  | fs, [k] =>
    match fs.lookup (upper k) with
    | none => .error .keyError
    | some _ => .ok (fs.erase (upper k))
  | fs, k :: k2 :: p =>
    match fs.lookup (upper k) with
    | none => .error .keyError
    | some (.term (.avm d sub)) =>
      match delPath sub (k2 :: p) with
      | .ok sub' => .ok (fs.replace (upper k) (.term (.avm d sub')))
      | .error e => .error e
    | some (.term (.ident ..)) => .error .typeError
    | some (.term (.str ..)) => .error .typeError
    | some (.term (.regex ..)) => .error .typeError
    | some (.term (.coref ..)) => .error .typeError
    | some _ => .error .unmodelled

def Items.snoc : Items → Val → Items
  | .nil, v => .cons v .nil
  | .cons v' vs, v => .cons v' (vs.snoc v)

/-- `ConsList.append` -/
def consAppend : Term → Val → Except Err Term
  | .cons d vs .opn, v => .ok (.cons d (vs.snoc v) .opn)
  | .cons _ _ _, _ => .error .tdlError
  | _, _ => .error .unmodelled

/-- `ConsList.terminate` -/
def consTerminate : Term → PEnd → Except Err Term
  | .cons d vs .opn, e => mkCons d vs.toList e
  | .cons _ _ _, _ => .error .tdlError
  | _, _ => .error .unmodelled

def Terms.append : Terms → Terms → Terms
  | .nil, g => g
  | .cons t ts, g => .cons t (ts.append g)

/-- `Conjunction.add` / `&` -/
def conjAdd (ts : Terms) : Val → Terms
  | .term t => ts.append (.cons t .nil)
  | .conj us => ts.append us

def isCoref : Term → Bool
  | .coref .. => true
  | _ => false

/-- the reordering of `Conjunction.normalize`: coreferences, then type terms, then AVMs -/
def normOrder (l : List Term) : List Term :=
  l.filter isCoref ++ l.filter isTypeTerm ++ l.filter isAvmLike

mutual
/-- `AVM.normalize` (on lists it walks the FIRST/REST structure; `< >` has no structure: TypeError) -/
def normTerm : Term → Except Err Term
  | .avm d fs =>
    match normFeats fs with
    | .ok fs' => .ok (.avm d fs')
    | .error e => .error e
  | .cons d vs e =>
    match vs, e with
    | .nil, .closed => .error .typeError
    | _, _ =>
      match normItems vs with
      | .error e' => .error e'
      | .ok vs' =>
        match normEnd e with
        | .error e' => .error e'
        | .ok e2 => .ok (.cons d vs' e2)
  | .diff d vs =>
    match normItems vs with
    | .ok vs' => .ok (.diff d vs')
    | .error e => .error e
  | t => .ok t
/-- a value inside an AVM: a Conjunction is normalised and replaced by its term when that is one AVM -/
def normVal : Val → Except Err Val
  | .term t =>
    match normTerm t with
    | .ok t' => .ok (.term t')
    | .error e => .error e
  | .conj ts =>
    match normTerms ts with
    | .error e => .error e
    | .ok l =>
      match normOrder l with
      | [t] => if isAvmLike t then .ok (.term t) else .ok (.conj (Terms.ofList [t]))
      | l' => .ok (.conj (Terms.ofList l'))
def normTerms : Terms → Except Err (List Term)
  | .nil => .ok []
  | .cons t ts =>
    match normTerm t with
    | .error e => .error e
    | .ok t' =>
      match normTerms ts with
      | .error e => .error e
      | .ok l => .ok (t' :: l)
def normFeats : Feats → Except Err Feats
  | .nil => .ok .nil
  | .cons k v fs =>
    match normVal v with
    | .error e => .error e
    | .ok v' =>
      match normFeats fs with
      | .error e => .error e
      | .ok fs' => .ok (.cons k v' fs')
def normItems : Items → Except Err Items
  | .nil => .ok .nil
  | .cons v vs =>
    match normVal v with
    | .error e => .error e
    | .ok v' =>
      match normItems vs with
      | .error e => .error e
      | .ok vs' => .ok (.cons v' vs')
def normEnd : End → Except Err End
  | .dotted v =>
    match normVal v with
    | .ok v' => .ok (.dotted v')
    | .error e => .error e
  | e => .ok e
end

/-- `Conjunction.normalize` on a top-level conjunction -/
def normTop (ts : Terms) : Except Err Terms :=
  match normTerms ts with
  | .ok l => .ok (Terms.ofList (normOrder l))
  | .error e => .error e

end Verif.C15
