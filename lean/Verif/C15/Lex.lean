/-
C15 — character-level model of the TDL lexer (`tdl._lex` over `_tdl_lex_re`): the 30 alternatives as
hand-coded matchers tried in source order at every position, white space skipped between matches,
docstrings / block comments through `_bounded` (`scanB`), alternative 30 = TDLSyntaxError.
The text is taken as a whole (the code works line by line; the matchers that cannot cross a line end —
strings, regexes, line comments, letter-sets, affix sub-patterns — stop at LF here).  Core Lean only.
-/
import Verif.C15.Model

namespace Verif.C15

/-- Python's `\s` on str (`re.UNICODE`) -/
def isWs (c : Char) : Bool :=
  let n := c.toNat
  (9 ≤ n && n ≤ 13) || (28 ≤ n && n ≤ 32) || n == 133 || n == 160 || n == 5760 || (8192 ≤ n && n ≤ 8202)
    || n == 8232 || n == 8233 || n == 8239 || n == 8287 || n == 12288

/-- `[^\s!"#$%&'(),.\/:;<=>[\]^|]` -/
def identChar (c : Char) : Bool :=
  !isWs c && !("!\"#$%&'(),./:;<=>[]^|".toList.contains c)

/-- `[^"\\]*(?:\\.[^"\\]*)*"` resp. `[^$\\]*(?:\\.|[^$\\]*)*\$` after the opening delimiter: the body and
the text after the closing delimiter; `none` when the line ends first (`.` does not match LF and the
code matches within one line) -/
def scanQuoted (close : Char) : Str → Option (Str × Str)
  | [] => none
  | c :: cs =>
    if c = close then some ([], cs)
    else if c = '\n' then none
    else if c = '\\' then
      match cs with
      | [] => none
      | d :: ds => if d = '\n' then none else (scanQuoted close ds).map (fun r => (c :: d :: r.1, r.2))
    else (scanQuoted close cs).map (fun r => (c :: r.1, r.2))

def dropWsLine : Str → Str
  | c :: cs => if isWs c && c != '\n' then dropWsLine cs else c :: cs
  | [] => []

/-- position of the last `)` of a line after which only white space follows -/
def lastParen (line : Str) : Option Nat :=
  let r := line.reverse.dropWhile isWs
  match r with
  | ')' :: _ => some (r.length - 1)
  | _ => none

/-- alternative 20 after `%`: `\s*\((.*)\)\s*$` on the rest of the line -/
def matchMorph (s : Str) : Option (Str × Str) :=
  let line := s.takeWhile (· ≠ '\n')
  let rest := (s.dropWhile (· ≠ '\n')).drop 1
  match dropWsLine line with
  | '(' :: body =>
    match lastParen body with
    | some k => some (body.take k, rest)
    | none => none
  | _ => none

/-- `(?:[^ )\\]|\\.)+` -/
def affixBody : Str → Str × Str
  | [] => ([], [])
  | c :: cs =>
    if c = ' ' ∨ c = ')' ∨ c = '\n' then ([], c :: cs)
    else if c = '\\' then
      match cs with
      | d :: ds => if d = '\n' then ([], c :: cs) else let r := affixBody ds; (c :: d :: r.1, r.2)
      | [] => ([], c :: cs)
    else let r := affixBody cs; (c :: r.1, r.2)

/-- alternative 22 after `(`: `[^ ]+\s+(?:[^ )\\]|\\.)+\)` (white space inside = blanks) -/
def matchAffix (s : Str) : Option (Str × Str) :=
  let m := s.takeWhile (fun c => c ≠ ' ' && c ≠ '\n')
  let r1 := s.dropWhile (fun c => c ≠ ' ' && c ≠ '\n')
  match m, r1 with
  | _ :: _, ' ' :: _ =>
    let sp := r1.takeWhile (· = ' ')
    let r2 := r1.dropWhile (· = ' ')
    let b := affixBody r2
    match b.1, b.2 with
    | _ :: _, ')' :: rest => some (m ++ sp ++ b.1, rest)
    | _, _ => none
  | _, _ => none

def keywords : List (Str × Tok) :=
  [(":begin".toList, .begin_), (":end".toList, .end_), (":type".toList, .envtype ":type".toList),
   (":instance".toList, .envtype ":instance".toList), (":status".toList, .status), (":include".toList, .include_)]

def matchKeyword (s : Str) : List (Str × Tok) → Option (Tok × Str)
  | [] => none
  | (k, t) :: ks => if startsWith k s then some (t, s.drop k.length) else matchKeyword s ks

/-- one match at a position that is not white space: the alternatives in source order -/
def lexOne (s : Str) : Except Err (Tok × Str) :=
  match s with
  | [] => .error .syntaxError
  | c :: cs =>
    if startsWith q3 s then                                   -- 1
      -- (`_bounded` reads `line[end]` before anything else: an opener at the very end of the input, with no
      -- line end after it, is an IndexError, not a TDLSyntaxError)
      if (s.drop 3).isEmpty then .error .indexError else
      match scanB q3 (s.drop 3) with
      | some (d, r) => .ok (.doc d, r)
      | none => .error .syntaxError
    else if startsWith ['#', '|'] s then                      -- 2
      if (s.drop 2).isEmpty then .error .indexError else
      match scanB ['|', '#'] (s.drop 2) with
      | some (d, r) => .ok (.bcomment d, r)
      | none => .error .syntaxError
    else if c = ';' then                                      -- 3
      .ok (.lcomment (cs.takeWhile (· ≠ '\n')), cs.dropWhile (· ≠ '\n'))
    else if c = '"' then                                      -- 4
      match scanQuoted '"' cs with
      | some (b, r) => .ok (.str b, r)
      | none => .error .syntaxError
    else if c = '\'' then                                     -- 5
      match cs.takeWhile identChar with
      | [] => .error .syntaxError
      | w => .ok (.qsym w, cs.dropWhile identChar)
    else if c = '^' then                                      -- 6
      match scanQuoted '$' cs with
      | some (b, r) => .ok (.regex b, r)
      | none => .error .syntaxError
    else if startsWith [':', '='] s then .ok (.defop [':', '='], s.drop 2)      -- 7
    else if startsWith [':', '<'] s then .ok (.defop [':', '<'], s.drop 2)
    else if startsWith [':', '+'] s then .ok (.addop, s.drop 2)                 -- 8
    else if startsWith ['.', '.', '.'] s then .ok (.ellipsis, s.drop 3)         -- 9
    else if c = '.' then .ok (.dot, cs)                                         -- 10
    else if c = '&' then .ok (.amp, cs)                                         -- 11
    else if c = ',' then .ok (.comma, cs)                                       -- 12
    else if c = '[' then .ok (.lbrack, cs)                                      -- 13
    else if startsWith ['<', '!'] s then .ok (.ldiff, s.drop 2)                 -- 14
    else if c = '<' then .ok (.langle, cs)                                      -- 15
    else if c = ']' then .ok (.rbrack, cs)                                      -- 16
    else if startsWith ['!', '>'] s then .ok (.rdiff, s.drop 2)                 -- 17
    else if c = '>' then .ok (.rangle, cs)                                      -- 18
    else if c = '#' then                                                        -- 19
      match cs.takeWhile identChar with
      | [] => .error .syntaxError
      | w => .ok (.coref w, cs.dropWhile identChar)
    else if c = '%' then
      match matchMorph cs with                                                  -- 20
      | some (b, r) => .ok (.morph b, r)
      | none =>
        if startsWith "prefix".toList cs then .ok (.affix "prefix".toList, cs.drop 6)      -- 21
        else if startsWith "suffix".toList cs then .ok (.affix "suffix".toList, cs.drop 6)
        else .error .syntaxError
    else if c = '(' then                                                        -- 22
      match matchAffix cs with
      | some (b, r) => .ok (.affixpat b, r)
      | none => .error .syntaxError
    else if c = '/' then .ok (.slash, cs)                                       -- 23
    else if identChar c then                                                    -- 24
      .ok (.ident (s.takeWhile identChar), s.dropWhile identChar)
    else
      match matchKeyword s keywords with                                        -- 25..29
      | some (t, r) => .ok (t, r)
      | none => .error .syntaxError                                             -- 30

/-- `_lex`: white space skipped, one match after the other (a loop: texts run to megabytes) -/
def lexGo : Nat → Str → List Tok → Except Err (List Tok)
  | 0, _, _ => .error .fuel
  | _ + 1, [], acc => .ok acc.reverse
  | n + 1, c :: cs, acc =>
    if isWs c then lexGo n cs acc
    else
      match lexOne (c :: cs) with
      | .error e => .error e
      | .ok (t, r) => lexGo n r (t :: acc)

def lexText (s : Str) : Except Err (List Tok) := lexGo (s.length + 1) s []

/-- `iterparse` on a text: lexer, then parser -/
def readText (s : Str) : Except Err (List Item) :=
  match lexText s with
  | .ok ts => parseFile ts
  | .error e => .error e

/-- a String / Regex text in the lexer's own source form: no raw closing delimiter, no line end, every
backslash followed by a character that is not a line end -/
def srcForm (close : Char) : Str → Bool
  | [] => true
  | c :: cs =>
    if c = close ∨ c = '\n' then false
    else if c = '\\' then
      match cs with
      | [] => false
      | d :: ds => d ≠ '\n' && srcForm close ds
    else srcForm close cs

end Verif.C15
