/- C15 — second formatting: toks (canon x) = toks x when no feature value is `trivFeat` (F44) -/
import Verif.C15.RoundTrip

namespace Verif.C15
set_option linter.unusedSimpArgs false
set_option linter.unusedVariables false

theorem canon_nonpass (v : Val) (hp : isPass v = false) (ht : trivFeat v = false) :
    isPass (canonVal v) = false := by
  cases v with
  | term t =>
    cases t with
    | avm d fs =>
      cases d with
      | some d => simp [canonVal, canonTerm, isPass]
      | none =>
        cases fs with
        | nil => simp [canonVal, canonTerm, canonFeats, isPass]
        | cons k v fs =>
          cases fs with
          | nil => simp [isPass] at hp
          | cons k2 v2 fs => simp [canonVal, canonTerm, canonFeats, isPass]
    | ident d s => simp [canonVal, canonTerm, isPass]
    | str d s => simp [canonVal, canonTerm, isPass]
    | regex d s => simp [canonVal, canonTerm, isPass]
    | coref d s => simp [canonVal, canonTerm, isPass]
    | cons d vs e => simp [canonVal, canonTerm, isPass]
    | diff d vs => simp [canonVal, canonTerm, isPass]
  | conj ts =>
    cases ts with
    | nil => simp [canonVal, canonTerms, isPass]
    | cons t ts =>
      cases ts with
      | cons t2 ts => simp [canonVal, canonTerms, isPass]
      | nil =>
        cases t with
        | avm d fs =>
          cases d with
          | some d => simp [canonVal, canonTerm, isPass]
          | none =>
            cases fs with
            | nil => simp [canonVal, canonTerm, canonFeats, isPass]
            | cons k v fs =>
              cases fs with
              | nil => simp [trivFeat] at ht
              | cons k2 v2 fs => simp [canonVal, canonTerm, canonFeats, isPass]
        | ident d s => simp [canonVal, canonTerm, isPass]
        | str d s => simp [canonVal, canonTerm, isPass]
        | regex d s => simp [canonVal, canonTerm, isPass]
        | coref d s => simp [canonVal, canonTerm, isPass]
        | cons d vs e => simp [canonVal, canonTerm, isPass]
        | diff d vs => simp [canonVal, canonTerm, isPass]

def Second (n : Nat) : Prop :=
  (∀ t : Term, sizeOf t ≤ n → cleanTerm t = true → toksTerm (canonTerm t) = toksTerm t) ∧
  (∀ v : Val, sizeOf v ≤ n → cleanVal v = true → toksVal (canonVal v) = toksVal v) ∧
  (∀ ts : Terms, sizeOf ts ≤ n → cleanTerms ts = true →
    toksTerms (canonTerms ts) = toksTerms ts ∧ toksAmp (canonTerms ts) = toksAmp ts) ∧
  (∀ v : Val, sizeOf v ≤ n → cleanVal v = true → trivFeat v = false →
    ∀ pre k, toksFeat pre k (canonVal v) = toksFeat pre k v) ∧
  (∀ fs : Feats, sizeOf fs ≤ n → cleanFeats fs = true →
    toksFeats (canonFeats fs) = toksFeats fs ∧ toksFeatsC (canonFeats fs) = toksFeatsC fs) ∧
  (∀ vs : Items, sizeOf vs ≤ n → cleanItems vs = true →
    toksItems (canonItems vs) = toksItems vs ∧ toksItemsC (canonItems vs) = toksItemsC vs) ∧
  (∀ e : End, sizeOf e ≤ n → cleanEnd e = true → ∀ emp, toksEnd emp (canonEnd e) = toksEnd emp e)

theorem second : ∀ n, Second n := by
  intro n
  induction n with
  | zero =>
    refine ⟨?_, ?_, ?_, ?_, ?_, ?_, ?_⟩ <;> intro x h <;> cases x <;> simp at h
  | succ n ih =>
    obtain ⟨iT, iV, iTs, iF, iFs, iVs, iE⟩ := ih
    have hT : ∀ t : Term, sizeOf t ≤ n + 1 → cleanTerm t = true → toksTerm (canonTerm t) = toksTerm t := by
      intro t hs hc
      cases t with
      | ident d s => simp [canonTerm]
      | str d s => simp [canonTerm]
      | regex d s => simp [canonTerm]
      | coref d s => simp [canonTerm]
      | avm d fs =>
        simp at hs
        simp only [cleanTerm] at hc
        simp only [canonTerm, toksTerm, (iFs fs (by omega) hc).1]
      | cons d vs e =>
        simp at hs
        simp only [cleanTerm, Bool.and_eq_true] at hc
        simp only [canonTerm, toksTerm, canonItems_isNil, (iVs vs (by omega) hc.1).1, iE e (by omega) hc.2]
      | diff d vs =>
        simp at hs
        simp only [cleanTerm] at hc
        simp only [canonTerm, toksTerm, (iVs vs (by omega) hc).1]
    have hV : ∀ v : Val, sizeOf v ≤ n + 1 → cleanVal v = true → toksVal (canonVal v) = toksVal v := by
      intro v hs hc
      cases v with
      | term t =>
        simp at hs
        simp only [cleanVal] at hc
        simp only [canonVal, toksVal, iT t (by omega) hc]
      | conj ts =>
        simp at hs
        simp only [cleanVal] at hc
        cases ts with
        | nil => simp [canonVal, canonTerms]
        | cons t ts =>
          cases ts with
          | nil =>
            simp only [cleanTerms, Bool.and_true] at hc
            simp at hs
            simp [canonVal, toksVal, toksTerms, toksAmp, iT t (by omega) hc]
          | cons t2 ts =>
            have := (iTs (.cons t (.cons t2 ts)) (by omega) hc).1
            simp only [canonVal, toksVal, this]
    refine ⟨hT, hV, ?_, ?_, ?_, ?_, ?_⟩
    · intro ts hs hc
      cases ts with
      | nil => simp [canonTerms]
      | cons t ts =>
        simp at hs
        simp only [cleanTerms, Bool.and_eq_true] at hc
        have h1 := iT t (by omega) hc.1
        have h2 := iTs ts (by omega) hc.2
        simp only [canonTerms, toksTerms, toksAmp, h1, h2.2, and_self]
    · intro v hs hc ht pre k
      rcases pass_or v with ⟨k2, v2, rfl⟩ | hnp
      · simp at hs
        simp only [cleanVal, cleanTerm, cleanFeats, Bool.and_eq_true, Bool.not_eq_true', Bool.and_true] at hc
        simp only [canonVal, canonTerm, canonFeats, toksFeat_pass]
        exact iF v2 (by omega) hc.2 hc.1 _ _
      · rw [toksFeat_nonpass _ _ _ (canon_nonpass v hnp ht), toksFeat_nonpass _ _ _ hnp, hV v hs hc]
    · intro fs hs hc
      cases fs with
      | nil => simp [canonFeats]
      | cons k v fs =>
        simp at hs
        simp only [cleanFeats, Bool.and_eq_true, Bool.not_eq_true'] at hc
        have h1 := iF v (by omega) hc.1.2 hc.1.1 [] k
        have h2 := iFs fs (by omega) hc.2
        simp only [canonFeats, toksFeats, toksFeatsC, h1, h2.2, and_self]
    · intro vs hs hc
      cases vs with
      | nil => simp [canonItems]
      | cons v vs =>
        simp at hs
        simp only [cleanItems, Bool.and_eq_true] at hc
        have h1 := iV v (by omega) hc.1
        have h2 := iVs vs (by omega) hc.2
        simp only [canonItems, toksItems, toksItemsC, h1, h2.2, and_self]
    · intro e hs hc emp
      cases e with
      | closed => simp [canonEnd]
      | opn => simp [canonEnd]
      | dotted w =>
        simp at hs
        simp only [cleanEnd] at hc
        simp only [canonEnd, toksEnd, iV w (by omega) hc]

theorem toksTerms_canon (ts : Terms) (hc : cleanTerms ts = true) : toksTerms (canonTerms ts) = toksTerms ts :=
  ((second (sizeOf ts)).2.2.1 ts (Nat.le_refl _) hc).1

theorem toksVal_canon (v : Val) (hc : cleanVal v = true) : toksVal (canonVal v) = toksVal v :=
  (second (sizeOf v)).2.1 v (Nat.le_refl _) hc

end Verif.C15
