/- C15 line-protocol driver: `lake env lean --run Verif/C15/Driver.lean` -/
import Verif.Common.Proto
import Verif.C15.Model
import Verif.C15.Text
import Verif.C15.Lex
open Lean Verif.Proto Verif.C15

namespace Verif.C15.Driver

def errTag : Err → String
  | .syntaxError => "TDLSyntaxError"
  | .tfsError => "TFSError"
  | .tdlError => "TDLError"
  | .indexError => "IndexError"
  | .keyError => "KeyError"
  | .typeError => "TypeError"
  | .assertionError => "AssertionError"
  | .fuel => "fuel"
  | .unmodelled => "unmodelled"

/-- constructor errors travel through `Except String` with an `E:` prefix -/
def liftE {α} : Except Err α → Except String α
  | .ok a => .ok a
  | .error e => .error ("E:" ++ errTag e)

/-- docstrings are compared in the form `_format_docstring(d, 0)` gives them -/
def jDoc : Option Str → Json
  | none => Json.null
  | some d =>
    cps (fmtDoc 0 d)

def jRawDoc : Option Str → Json
  | none => Json.null
  | some d => cps d

mutual
partial def jTermW (jDoc : Option Str → Json) : Term → Json
  | .ident d s => Json.mkObj [("k", "id"), ("d", jDoc d), ("s", cps s)]
  | .str d s => Json.mkObj [("k", "str"), ("d", jDoc d), ("s", cps s)]
  | .regex d s => Json.mkObj [("k", "re"), ("d", jDoc d), ("s", cps s)]
  | .coref d s => Json.mkObj [("k", "co"), ("d", jDoc d), ("s", cps s)]
  | .avm d fs => Json.mkObj [("k", "avm"), ("d", jDoc d),
      ("f", jList (fun kv => Json.arr #[cps kv.1, jValW jDoc kv.2]) fs.toList)]
  | .cons d vs e => Json.mkObj [("k", "cons"), ("d", jDoc d), ("v", jList (jValW jDoc) vs.toList),
      ("e", match e with
        | .closed => Json.str "closed"
        | .opn => Json.str "open"
        | .dotted v => jValW jDoc v)]
  | .diff d vs => Json.mkObj [("k", "diff"), ("d", jDoc d), ("v", jList (jValW jDoc) vs.toList)]
partial def jValW (jDoc : Option Str → Json) : Val → Json
  | .term t => jTermW jDoc t
  | .conj ts => Json.mkObj [("k", "conj"), ("t", jList (jTermW jDoc) ts.toList)]
end

def jTerm := jTermW jDoc
def jVal := jValW jDoc

def jOptCps : Option Str → Json
  | none => Json.null
  | some s => cps s

def jItemW (jDoc : Option Str → Json) : Item → Json
  | .typedef id ts doc => Json.mkObj [("k", "typedef"), ("id", cps id), ("t", jList (jTermW jDoc) ts.toList), ("d", jDoc doc)]
  | .addendum id ts doc => Json.mkObj [("k", "addendum"), ("id", cps id), ("t", jList (jTermW jDoc) ts.toList), ("d", jDoc doc)]
  | .lexrule id a pats ts doc => Json.mkObj [("k", "lexrule"), ("id", cps id), ("a", cps a),
      ("p", jList (fun mr => Json.arr #[cps mr.1, cps mr.2]) pats), ("t", jList (jTermW jDoc) ts.toList), ("d", jDoc doc)]
  | .letterset v c => Json.mkObj [("k", "letterset"), ("var", cps v), ("chars", cps c)]
  | .wildcard v c => Json.mkObj [("k", "wildcard"), ("var", cps v), ("chars", cps c)]
  | .beginEnv inst st => Json.mkObj [("k", "begin"), ("inst", Json.bool inst), ("status", jOptCps st)]
  | .endEnv inst => Json.mkObj [("k", "end"), ("inst", Json.bool inst)]
  | .include_ v => Json.mkObj [("k", "include"), ("v", cps v)]
  | .lcomment s => Json.mkObj [("k", "lcomment"), ("s", cps s)]
  | .bcomment s => Json.mkObj [("k", "bcomment"), ("s", cps s)]

def jItem := jItemW jDoc
def jItemRaw := jItemW jRawDoc

mutual
/-- build the object the way the Python constructors do -/
partial def ofTerm (j : Json) : Except String Term := do
  let k ← getStr j "k"
  let d ← getOptCps j "d"
  match k with
  | "id" => pure (.ident d (← getCps j "s"))
  | "str" => pure (.str d (← getCps j "s"))
  | "re" => pure (.regex d (← getCps j "s"))
  | "co" => pure (.coref d (← getCps j "s"))
  | "avm" => do
    let fvs ← (← getArr j "f").mapM (fun e => do
      let a ← e.getArr?
      match a.toList with
      | [p, v] => do
        let path ← (← p.getArr?).toList.mapM ofCps
        pure (path, ← ofVal v)
      | _ => throw "bad featval")
    pure (.avm d (← liftE (mkAVM fvs .nil)))
  | "cons" => do
    let vs ← (← getArr j "v").mapM ofVal
    let e ← j.getObjVal? "e"
    let pe : PEnd ← match e with
      | Json.str "closed" => pure PEnd.none
      | Json.str "open" => pure PEnd.opn
      | _ => do pure (PEnd.dotted (← ofVal e))
    liftE (mkCons d vs pe)
  | "diff" => do
    let vs ← (← getArr j "v").mapM ofVal
    pure (.diff d (Items.ofList vs))
  | "hist" => do
    match ← ofVal j with
    | .term t => pure t
    | .conj _ => throw "hist: a Conjunction where a term is expected"
  | _ => throw s!"bad term kind {k}"
partial def ofVal (j : Json) : Except String Val := do
  let k ← getStr j "k"
  if k == "conj" then
    let ts ← (← getArr j "t").mapM ofTerm
    pure (.conj (Terms.ofList ts))
  else if k == "hist" then
    let base ← ofVal (← j.getObjVal? "base")
    (← getArr j "ops").foldlM applyOp base
  else
    pure (.term (← ofTerm j))
/-- one public mutator call on a constructed object -/
partial def applyOp (v : Val) (op : Json) : Except String Val := do
  let a := (← op.getArr?).toList
  let name ← match a with
    | n :: _ => n.getStr?
    | [] => throw "empty op"
  let path (i : Nat) : Except String (List Str) := do
    match a[i]? with
    | some p => (← p.getArr?).toList.mapM ofCps
    | none => throw "op: missing path"
  let arg (i : Nat) : Except String Val := do
    match a[i]? with
    | some x => ofVal x
    | none => throw "op: missing value"
  match name, v with
  | "set", .term (.avm d fs) => do pure (.term (.avm d (← liftE (setPath fs (← path 1) (← arg 2)))))
  | "del", .term (.avm d fs) => do pure (.term (.avm d (← liftE (delPath fs (← path 1)))))
  | "normalize", .term t => do pure (.term (← liftE (normTerm t)))
  | "normalize", .conj ts => do pure (.conj (← liftE (normTop ts)))
  | "append", .term t => do pure (.term (← liftE (consAppend t (← arg 1))))
  | "terminate", .term t => do
    let e ← match a[1]? with
      | some (Json.str "closed") => pure PEnd.none
      | some (Json.str "open") => pure PEnd.opn
      | some x => do pure (PEnd.dotted (← ofVal x))
      | none => throw "terminate: missing end"
    pure (.term (← liftE (consTerminate t e)))
  | "add", .conj ts => do pure (.conj (conjAdd ts (← arg 1)))
  | "and", .conj ts => do pure (.conj (conjAdd ts (← arg 1)))
  | "and", .term t => do pure (.conj (conjAdd (.cons t .nil) (← arg 1)))
  | _, _ => liftE (.error .unmodelled)
end

/-- `Conjunction.__setitem__`: set in the last (plain) AVM term -/
def setLast (p : List Str) (v : Val) : List Term → Except Err (Option (List Term))
  | [] => .ok none
  | t :: r =>
    match setLast p v r with
    | .error e => .error e
    | .ok (some r') => .ok (some (t :: r'))
    | .ok none =>
      match t with
      | .avm d fs =>
        match setPath fs p v with
        | .ok fs' => .ok (some (.avm d fs' :: r))
        | .error e => .error e
      | _ => .ok none

/-- `td[path] = v`, `del td[path]`, `td.conjunction.normalize()` on the body of a definition -/
def bodyOp (ts : Terms) (op : Json) : Except String Terms := do
  let a := (← op.getArr?).toList
  let name ← match a with
    | n :: _ => n.getStr?
    | [] => throw "empty op"
  match name with
  | "normalize" => liftE (normTop ts)
  | "set" | "del" => do
    let l := ts.toList
    -- Conjunction.__setitem__ uses the last AVM; __delitem__ every AVM that has the key
    if l.any (fun t => match t with | .cons .. | .diff .. => true | _ => false) then liftE (.error .unmodelled)
    else
      let p ← match a[1]? with
        | some p => (← p.getArr?).toList.mapM ofCps
        | none => throw "op: missing path"
      if name == "set" then
        let v ← match a[2]? with
          | some x => ofVal x
          | none => throw "op: missing value"
        match ← liftE (setLast p v l) with
        | some l' => pure (Terms.ofList l')
        | none => liftE (.error .tdlError)
      else
        let has (t : Term) : Except Err Bool :=
          match t with
          | .avm _ fs =>
            match getPath fs p with
            | .ok _ => .ok true
            | .error .keyError => .ok false
            | .error _ => .error .unmodelled
          | _ => .ok false
        let flags ← liftE (l.mapM has)
        if !flags.any id then liftE (.error .keyError)
        else
          let l' ← liftE (l.mapM (fun t => match t with
            | .avm d fs =>
              match getPath fs p with
              | .ok _ => (match delPath fs p with | .ok fs' => .ok (.avm d fs') | .error e => .error e)
              | .error _ => .ok t
            | t => Except.ok t))
          pure (Terms.ofList l')
  | _ => liftE (.error .unmodelled)

def withOps (j : Json) (ts : List Term) : Except String Terms := do
  match j.getObjVal? "ops" with
  | .ok ops => (← ops.getArr?).toList.foldlM bodyOp (Terms.ofList ts)
  | .error _ => pure (Terms.ofList ts)

def ofItem (j : Json) : Except String Item := do
  let k ← getStr j "k"
  match k with
  | "typedef" => do
    let ts ← (← getArr j "t").mapM ofTerm
    pure (.typedef (← getCps j "id") (← withOps j ts) (← getOptCps j "d"))
  | "addendum" => do
    let ts ← (← getArr j "t").mapM ofTerm
    pure (.addendum (← getCps j "id") (← withOps j ts) (← getOptCps j "d"))
  | "lexrule" => do
    let ts ← (← getArr j "t").mapM ofTerm
    let pats ← (← getArr j "p").mapM (fun e => do
      match (← e.getArr?).toList with
      | [m, r] => do pure (← ofCps m, ← ofCps r)
      | _ => throw "bad pattern")
    pure (.lexrule (← getCps j "id") (← getCps j "a") pats (Terms.ofList ts) (← getOptCps j "d"))
  | "letterset" => pure (.letterset (← getCps j "var") (← getCps j "chars"))
  | "wildcard" => pure (.wildcard (← getCps j "var") (← getCps j "chars"))
  | "begin" => pure (.beginEnv (← getBool j "inst") (← getOptCps j "status"))
  | "end" => pure (.endEnv (← getBool j "inst"))
  | "include" => pure (.include_ (← getCps j "v"))
  | "lcomment" => pure (.lcomment (← getCps j "s"))
  | "bcomment" => pure (.bcomment (← getCps j "s"))
  | _ => throw s!"bad item kind {k}"

def jTok (t : Tok) : Json := Json.arr #[jNat t.gid, cps t.text]

def jLeaf (jd : Option Str → Json) : Leaf → Json
  | none => Json.null
  | some t => jTermW jd t

def jExpand (jd : Option Str → Json) (l : List (List Str × Leaf)) : Json :=
  jList (fun pl => Json.arr #[jList cps pl.1, jLeaf jd pl.2]) l

def itemExpand (jd : Option Str → Json) (it : Item) : Json :=
  match it.terms? with
  | some ts => jExpand jd (expandTop ts)
  | none => Json.null

def itemFlags (it : Item) : Json :=
  match it.terms? with
  | some ts => Json.mkObj [("wf", Json.bool (wfTerms ts)), ("noD4", Json.bool (cleanTerms ts))]
  | none => Json.null

def jParse (r : Except Err (List Item)) (f : List Item → Json) : Json :=
  match r with
  | .error e => jErr (errTag e)
  | .ok its => f its

def handleItems (j : Json) : Except String Json := do
  match (← getArr j "items").mapM ofItem with
  | .error e =>
    if e.startsWith "E:" then pure (Json.mkObj [("construct", Json.str (e.drop 2).toString)]) else throw e
  | .ok items =>
    -- the text `format` writes; the tokens the lexer returns for it are those of `relLines 0 items`
    -- (every docstring in the form the formatter wrote at the indentation of its place)
    let toks := (relLines 0 items).flatMap toksItem
    let parsed := parseFile toks
    -- long files: the text is compared only when the request asks for it
    let wantText := match j.getObjVal? "text" with
      | .ok (Json.bool false) => false
      | _ => true
    let jLex (r : Except Err (List Tok)) : Json := match r with
      | .ok ts => jList jTok ts
      | .error e => jErr (errTag e)
    pure (Json.mkObj ((if wantText then [("text", cps (fmtFile items)),
        -- the lexer model on the model's own text: must be the tokens above (and the real lexer's)
        ("lex", jLex (lexText (fmtFile items))),
        ("text2", jParse parsed (fun its => cps (fmtFile its)))] else []) ++ [
      ("orig", jList jItem items),
      ("toks", jList jTok toks),
      ("parsed", jParse parsed (jList jItemRaw)),
      ("toks2", jParse parsed (fun its =>
        jList jTok ((relLines 0 its).flatMap toksItem))),
      ("expand", jList (itemExpand jDoc) items),
      ("expand2", jParse parsed (jList (itemExpand jRawDoc))),
      ("flags", jList itemFlags items)]))

def ofTok (j : Json) : Except String Tok := do
  match (← j.getArr?).toList with
  | [g, s] => do
    match Tok.ofGid (← g.getNat?) (← ofCps s) with
    | some t => pure t
    | none => throw "bad gid"
  | _ => throw "bad token"

def jScan : Option (Str × Str) → Json
  | none => Json.null
  | some (a, b) => Json.arr #[cps a, cps b]

def handle (j : Json) : Except String Json := do
  let op ← getStr j "op"
  match op with
  | "items" => handleItems j
  | "toks" => do
    let ts ← (← getArr j "toks").mapM ofTok
    pure (jParse (parseFile ts) (jList jItemRaw))
  | "lex" => do
    match lexText (← getCps j "text") with
    | .ok ts => pure (jList jTok ts)
    | .error e => pure (jErr (errTag e))
  | "doc" => do
    let d ← getCps j "doc"
    let ind ← getNat j "indent"
    let rest ← getCps j "rest"
    let c := fmtDoc ind d
    pure (Json.mkObj [("fmt", cps c), ("scan", jScan (scanB q3 (c ++ q3 ++ rest)))])
  | "esc" => do
    let s ← getCps j "s"
    let rest ← getCps j "rest"
    let close : Str := if (← getNat j "close") == 1 then q3 else ['|', '#']
    pure (Json.mkObj [("esc", cps (escapeDoc s)), ("scan", jScan (scanB close (s ++ close ++ rest))),
      ("escscan", jScan (scanB q3 (escapeDoc s ++ q3 ++ rest))), ("dangling", Json.bool (dangling s))])
  | "path" => do
    match ofTerm (← j.getObjVal? "avm") with
    | .error e =>
      if e.startsWith "E:" then pure (Json.mkObj [("construct", Json.str (e.drop 2).toString)]) else throw e
    | .ok (.avm _ fs) => do
      let p ← (← getArr j "set").mapM ofCps
      let g ← (← getArr j "get").mapM ofCps
      let v ← ofVal (← j.getObjVal? "val")
      match setPath fs p v with
      | .error e => pure (Json.mkObj [("set", jErr (errTag e))])
      | .ok fs' =>
        pure (Json.mkObj [("set", jTerm (.avm none fs')),
          ("get", match getPath fs' g with
            | .ok r => jVal r
            | .error e => jErr (errTag e))])
    | .ok _ => throw "path: not an avm"
  | _ => throw s!"bad op {op}"

end Verif.C15.Driver

def main : IO Unit := Verif.Proto.serve Verif.C15.Driver.handle
