/-
C08 — SOURCE-TRANSLATION tie for the TYPED branches of `tsdb.split(line, fields)` / `tsdb.join(values, fields)`
(TRANSLATOR.md, round 3).  `Verif/Generated/TransC08.lean` is regenerated on every run; `split_typed` / `join_typed`
are the translations of the SAME source functions as `split` / `join`, for the call shape "`fields` is non-empty"
(the test `if fields:` is decided, the untyped branch is the other pair of theorems in Translated.lean).  The callees
`tsdb.cast` and `tsdb.format` are OPAQUE (regexes, datetime, isinstance: not translated): they are explicit function
parameters of the translated functions and are instantiated here with the model's `castPy` / `formatPy` (`castM`,
`formatM` of TypedTypes.lean — that these describe the real cast/format is what the correspondence run and the C08
property theorems are about).  `_mismatched_counts` IS translated (it raises TSDBError).
What the theorems tie to the model's `splitTyped` / `joinTyped`: the order raw values → column count → casts, the
count check itself, which field attribute goes to which callee argument (`f.datatype`, `default=f.default`), the
pairing `zip(raw_values, fields)` / `zip(fields, values)`, escaping and joining.
-/
import Verif.C08.Translated
import Verif.C08.TypedTypes

namespace Verif.C08
open Verif.PyRt Verif.Py Verif.Tables

theorem errPyT_eq : errPyT = errPy := by
  funext e; cases e <;> rfl

/-- the typed `split` after its raw values. -/
def splitTail (castO : List Char → Option (List Char) → Except PyErr Val) (pf : List PyFieldD)
    (raw : List (Option (List Char))) : Except PyErr (List Val) := do
  if ((pyLen raw) != (pyLen pf)) then
    let _ ← Verif.Trans.C08.mismatched_counts
    pure ()
  let r ← List.mapM (m := Except PyErr) (fun (x : Option (List Char) × PyFieldD) => castO x.2.datatype x.1) (List.zip raw pf)
  return r

theorem split_typed_unfold (castO : List Char → Option (List Char) → Except PyErr Val) (line : List Char)
    (pf : List PyFieldD) :
    Verif.Trans.C08.split_typed castO line pf = (Verif.Trans.C08.split line >>= splitTail castO pf) := by
  unfold Verif.Trans.C08.split_typed Verif.Trans.C08.split splitTail
  simp only [bind_pure]

/-- one cell: the opaque cast instantiated with the model's. -/
theorem castM_cell (f : Field) (col : Option (List Char)) :
    castM f.pyD.datatype col = mapErr errPy (cellOf (castPy f.dt (col.getD []))) := by
  simp only [castM, Field.pyD, DType.ofPy_pyName, errPyT_eq]
  cases castPy f.dt (col.getD []) <;> rfl

theorem cells_typed (fields : List Field) : ∀ raw : List (Option (List Char)),
    (List.zip raw (fields.map Field.pyD)).mapM (fun (x : Option (List Char) × PyFieldD) => castM x.2.datatype x.1)
      = mapErr errPy ((List.zipWith (fun (col : Option (List Char)) (f : Field) => (f.dt, col.getD [])) raw fields).mapM
          (fun p => cellOf (castPy p.1 p.2))) := by
  intro raw
  rw [mapErr_mapM]
  induction fields generalizing raw with
  | nil => cases raw <;> rfl
  | cons f fs ih =>
    cases raw with
    | nil => rfl
    | cons c cs =>
      simp only [List.map_cons, List.zip_cons_cons, List.zipWith_cons_cons, List.mapM_cons, ih cs, castM_cell]

/-- `tsdb.split(line, fields)` with a non-empty `fields` (source, opaque `cast` := model's) = `splitTyped` (model). -/
theorem split_typed_translated (fields : List Field) (hne : fields ≠ []) (line : List Char) :
    Verif.Trans.C08.split_typed castM line (fields.map Field.pyD) = mapErr errPy (splitTyped fields line) := by
  rw [split_typed_unfold, split_translated]
  unfold splitTyped
  cases hs : splitRaw line with
  | error e => rfl
  | ok raw =>
    have he : fields.isEmpty = false := by cases fields with | nil => exact absurd rfl hne | cons _ _ => rfl
    simp only [mapErr_ok, he]
    show splitTail castM (fields.map Field.pyD) raw = _
    unfold splitTail
    by_cases hl : raw.length = fields.length
    · have h1 : ((pyLen raw) != (pyLen (fields.map Field.pyD))) = false := by simp [pyLen, hl]
      simp only [h1, hl, cells_typed]
      simp
    · have h1 : ((pyLen raw) != (pyLen (fields.map Field.pyD))) = true := by
        simp only [pyLen, List.length_map, bne_iff_ne, ne_eq]
        intro h; exact hl (by exact_mod_cast h)
      have hl' : raw.length ≠ fields.length := hl
      simp only [h1, hl', Bool.false_eq_true, ↓reduceIte, ne_eq, not_false_eq_true, mapErr_error]
      rfl

/-! ### join -/

theorem formatM_field (f : Field) (v : Val) :
    formatM f.pyD.datatype v (some f.pyD.default) = .ok (formatField f v) := by
  simp only [formatM, Field.pyD, DType.ofPy_pyName]
  cases v <;> rfl

theorem formats_typed (fields : List Field) : ∀ vals : List Val,
    (List.zip (fields.map Field.pyD) vals).mapM (fun (x : PyFieldD × Val) => formatM x.1.datatype x.2 (some x.1.default))
      = (.ok (List.zipWith formatField fields vals) : Except PyErr (List (List Char))) := by
  induction fields with
  | nil => intro vals; rfl
  | cons f fs ih =>
    intro vals
    cases vals with
    | nil => rfl
    | cons v vs =>
      simp only [List.map_cons, List.zip_cons_cons, List.zipWith_cons_cons, List.mapM_cons, ih vs, formatM_field]
      rfl

theorem zipWith_escape (fields : List Field) (vals : List Val) :
    List.map Verif.Trans.C08.escape (List.zipWith formatField fields vals)
      = List.zipWith (fun f v => escape (formatField f v)) fields vals := by
  rw [List.map_zipWith]
  congr 1
  funext f v
  exact escape_translated _

/-- `tsdb.join(values, fields)` with a non-empty `fields` (source, opaque `format` := model's) = `joinTyped` (model). -/
theorem join_typed_translated (fields : List Field) (hne : fields ≠ []) (vals : List Val) :
    Verif.Trans.C08.join_typed formatM vals (fields.map Field.pyD) = mapErr errPy (joinTyped fields vals) := by
  have he : fields.isEmpty = false := by cases fields with | nil => exact absurd rfl hne | cons _ _ => rfl
  unfold Verif.Trans.C08.join_typed joinTyped
  by_cases hl : vals.length = fields.length
  · have h1 : ((pyLen vals) != (pyLen (fields.map Field.pyD))) = false := by simp [pyLen, hl]
    simp only [h1, he, hl, formats_typed]
    simp only [Bool.false_eq_true, ↓reduceIte, bind_pure_comp]
    show (pure (pyJoin ['@'] (List.map (fun t4_ => Verif.Trans.C08.escape t4_) (List.zipWith formatField fields vals)))
        : Except PyErr (List Char)) = _
    rw [zipWith_escape, pyJoin_single]
    simp [fieldDelimiter]
    rfl
  · have h1 : ((pyLen vals) != (pyLen (fields.map Field.pyD))) = true := by
      simp only [pyLen, List.length_map, bne_iff_ne, ne_eq]
      intro h; exact hl (by exact_mod_cast h)
    have hl' : vals.length ≠ fields.length := hl
    simp only [h1, he, hl', Bool.false_eq_true, ↓reduceIte, ne_eq, not_false_eq_true, mapErr_error]
    rfl

end Verif.C08
