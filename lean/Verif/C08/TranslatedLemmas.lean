/-
C08 — helper lemmas for `Translated.lean`: the loop of the translated `tsdb.unescape` (a `for` with an escape flag)
against the model's structural recursion with one character of look-ahead.
-/
import Verif.Generated.TransC08
import Verif.C08.Lemmas
import Verif.Common.PyRtLemmas

namespace Verif.C08
open Verif.PyRt Verif.Py Verif.Tables

def tsdbErr : PyErr := .user "TSDBError"

abbrev St := List Str × Bool

def unescBody (c : Str) (st : St) : Except PyErr (ForInStep St) :=
  if st.2 = true then
    if c = ['\\'] then pure (.yield (st.1 ++ [['\\']], false))
    else if c = ['s'] then pure (.yield (st.1 ++ [['@']], false))
    else if c = ['n'] then pure (.yield (st.1 ++ [['\n']], false))
    else throw tsdbErr
  else if c = ['\\'] then pure (.yield (st.1, true))
  else pure (.yield (st.1 ++ [c], false))

def unescPost (st : St) : Except PyErr Str :=
  if st.2 = true then throw tsdbErr else pure (pyJoin [] st.1)

theorem unescape_unfold (s : Str) :
    Verif.Trans.C08.unescape s = (forIn (pyIterStr s) (([] : List Str), false) unescBody >>= unescPost) := by
  unfold Verif.Trans.C08.unescape
  show (forIn _ _ _ >>= _) = _
  congr 1
  · congr 1
    funext c st
    rcases st with ⟨chars, esc⟩
    cases esc <;> simp only [unescBody, beq_iff_eq, Bool.false_eq_true, ↓reduceIte] <;> (repeat' split) <;> first | rfl | simp_all

def errPy : Err → PyErr
  | .tsdbError => .user "TSDBError"
  | .valueError => .ValueError
  | .indexError => .IndexError
  | .keyError => .KeyError
  | .unmodelled => .user "unmodelled"

def afterBs : List Char → Except Err (List Char)
  | [] => .error .tsdbError
  | d :: rest' =>
    if d = '\\' then (unescape rest').map ('\\' :: ·)
    else if d = 's' then (unescape rest').map (fieldDelimiter :: ·)
    else if d = 'n' then (unescape rest').map ('\n' :: ·)
    else .error .tsdbError

theorem unescape_bs (rest : List Char) : unescape ('\\' :: rest) = afterBs rest := by
  rw [unescape.eq_def]
  cases rest <;> simp [afterBs]

theorem unesc_loop (s : Str) : ∀ chars : List Str,
    (forIn (pyIterStr s) (chars, false) unescBody >>= unescPost)
        = mapErr errPy ((unescape s).map (chars.flatten ++ ·))
    ∧ (forIn (pyIterStr s) (chars, true) unescBody >>= unescPost)
        = mapErr errPy ((afterBs s).map (chars.flatten ++ ·)) := by
  induction s with
  | nil =>
    intro chars
    constructor
    · simp [pyIterStr, unescPost, unescape, pyJoin_nil, Except.map]; rfl
    · simp [pyIterStr, unescPost, afterBs, tsdbErr]; rfl
  | cons c rest ih =>
    intro chars
    have hit : pyIterStr (c :: rest) = [c] :: pyIterStr rest := rfl
    rw [hit]
    constructor
    · by_cases hc : c = '\\'
      · subst hc
        rw [forIn_cons_bind _ _ _ _ (chars, true) _ (by simp [unescBody]), (ih chars).2, unescape_bs]
      · rw [forIn_cons_bind _ _ _ _ (chars ++ [[c]], false) _ (by simp [unescBody, hc]), (ih _).1,
          unescape_cons_ne c rest hc]
        cases unescape rest <;> simp [Except.map, mapErr]
    · by_cases h1 : c = '\\'
      · subst h1
        rw [forIn_cons_bind _ _ _ _ (chars ++ [['\\']], false) _ (by simp [unescBody]), (ih _).1]
        simp only [afterBs, ↓reduceIte]
        cases unescape rest <;> simp [Except.map, mapErr]
      · by_cases h2 : c = 's'
        · subst h2
          rw [forIn_cons_bind _ _ _ _ (chars ++ [['@']], false) _ (by simp [unescBody]), (ih _).1]
          simp only [afterBs, fieldDelimiter]
          cases unescape rest <;> simp [Except.map, mapErr]
        · by_cases h3 : c = 'n'
          · subst h3
            rw [forIn_cons_bind _ _ _ _ (chars ++ [['\n']], false) _ (by simp [unescBody]), (ih _).1]
            simp only [afterBs]
            cases unescape rest <;> simp [Except.map, mapErr]
          · rw [forIn_cons_throw _ _ _ _ tsdbErr _ (by simp [unescBody, h1, h2, h3])]
            simp [afterBs, h1, h2, h3, tsdbErr]; rfl

end Verif.C08
