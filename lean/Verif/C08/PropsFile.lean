/-
C08 — property theorems of round 6: relation files (records), `make_record`, `Row.__str__`, `format` with a default.
Only property statements live here; helper lemmas are in FileLemmas.lean / TypedLemmas.lean.
-/
import Verif.C08.Props
import Verif.C08.FileLemmas

namespace Verif.C08
open Verif.Py Verif.Tables

/-! ## "no value can create, merge or shift columns or records"

`tsdb.write` puts `join(record, fields) + '\n'` per record into the relation file (`writeText`); reading iterates
the file with `newline='\n'` (`linesOf`) and splits every line (`readRaw` = `Database(dir)[name]`,
`readTyped` = `Database(dir, autocast=True)[name]`). -/

/-- whatever the values (strings with newlines, carriage returns, delimiters, backslashes, values of the wrong
type, an empty field list): if the records are written, the file holds exactly one newline and exactly one line
per record — no value creates or merges records. -/
theorem file_lines (fields : List Field) (recs : List (List Val)) (text : List Char)
    (h : writeText fields recs = .ok text) :
    text.count '\n' = recs.length ∧ (linesOf text).length = recs.length := by
  unfold writeText at h
  cases hm : recs.mapM (joinTyped fields) with
  | error e => rw [hm] at h; cases h
  | ok ls =>
    rw [hm] at h
    have e := Except.ok.inj h
    subst e
    obtain ⟨hlen, hall⟩ := mapM_ok_inv recs (joinTyped fields) ls hm
    have hnl : ∀ l ∈ ls, '\n' ∉ l := fun l hl => by
      obtain ⟨r, _, hr⟩ := hall l hl
      exact joinTyped_no_newline fields r l hr
    exact ⟨by rw [count_flatten_lines ls hnl, hlen], by rw [linesOf_flatten ls hnl]; simp [hlen]⟩

/-- a record with a wrong number of values anywhere in the batch makes the whole `write` fail with a
`TSDBError` (nothing is written: the text is built in a temporary file first). -/
theorem write_rejects_mismatch (fields : List Field) (recs : List (List Val)) (hne : fields ≠ [])
    (hbad : ∃ r ∈ recs, r.length ≠ fields.length) : writeText fields recs = .error .tsdbError := by
  unfold writeText
  rw [mapM_error recs (joinTyped fields) .tsdbError (fun r _ e he => joinTyped_error fields r e he)
    (by
      obtain ⟨r, hr, hl⟩ := hbad
      exact ⟨r, hr, .tsdbError, join_typed_count_mismatch fields r hne hl⟩)]

/-- raw reading of a written file: for every batch of records with the right number of values (any values) the file
reads back, line by line, as the formatted column texts with `''` read as `None` — the same number of records, the
same number of columns, nothing shifted. -/
theorem file_round_trip_raw (fields : List Field) (recs : List (List Val)) (hne : fields ≠ [])
    (hl : ∀ r ∈ recs, r.length = fields.length) :
    ∃ text, writeText fields recs = .ok text
      ∧ readRaw text = .ok (recs.map (fun r => ((List.zipWith formatField fields r).map some).map normEmpty)) := by
  have hj : recs.mapM (joinTyped fields) = .ok (recs.map (lineOf fields)) :=
    mapM_ok' recs _ _ (fun r hr => joinTyped_eq_joinRaw fields r hne (hl r hr))
  refine ⟨_, by unfold writeText; rw [hj], ?_⟩
  unfold readRaw
  rw [linesOf_flatten _ (by
    intro l hl'
    simp only [List.mem_map] at hl'
    obtain ⟨r, _, rfl⟩ := hl'
    exact join_no_newline _), List.map_map]
  apply mapM_map_ok
  intro r hr
  have hcne : (List.zipWith formatField fields r).map some ≠ [] := by
    have := hl r hr
    cases fields with
    | nil => exact absurd rfl hne
    | cons f fs => cases r with
      | nil => simp at this
      | cons v vs => simp
  exact (split_join _ hcne).2

/-- typed reading of a written file: records whose values fit their columns (`Fits`) are read back, record by
record and column by column, as themselves up to the documented exceptions (`readBack`: `None` ↦ the cast of the
field default, `''` ↦ `None`). -/
theorem file_round_trip_typed (fields : List Field) (recs : List (List Val)) (hne : fields ≠ [])
    (hl : ∀ r ∈ recs, r.length = fields.length) (hf : ∀ r ∈ recs, ∀ p ∈ fields.zip r, Fits p.1 p.2) :
    ∃ text, writeText fields recs = .ok text
      ∧ readTyped fields text = .ok (recs.map (List.zipWith readBack fields)) := by
  have hj : recs.mapM (joinTyped fields) = .ok (recs.map (lineOf fields)) :=
    mapM_ok' recs _ _ (fun r hr => joinTyped_eq_joinRaw fields r hne (hl r hr))
  refine ⟨_, by unfold writeText; rw [hj], ?_⟩
  unfold readTyped
  rw [linesOf_flatten _ (by
    intro l hl'
    simp only [List.mem_map] at hl'
    obtain ⟨r, _, rfl⟩ := hl'
    exact join_no_newline _), List.map_map]
  apply mapM_map_ok
  intro r hr
  obtain ⟨line, h1, _, h3⟩ := split_join_typed fields r hne (hl r hr) (hf r hr)
  rw [joinTyped_eq_joinRaw fields r hne (hl r hr)] at h1
  have e := Except.ok.inj h1
  subst e
  exact h3

example : writeText [⟨"i-id".toList, .integer⟩, ⟨"i-input".toList, .string⟩]
    [[.int 1, .str "a\nb@".toList], [.none, .none]] = .ok "1@a\\nb\\s\n-1@\n".toList := by rfl
example : readTyped [⟨"i-id".toList, .integer⟩, ⟨"a".toList, .string⟩] "1@b\n-1@\n".toList
    = .ok [[.int 1, .str "b".toList], [.int (-1), .none]] := by decide
example : linesOf "a\rb\n\nc".toList = ["a\rb\n".toList, "\n".toList, "c".toList] := by decide
example : writeText [⟨"a".toList, .string⟩] [[.none], []] = .error .tsdbError := by decide

/-! ## `make_record` -/

/-- `make_record(colmap, fields)` has one value per field, in field order: the value the mapping holds for the
field's name, `None` if it holds none — extra keys are dropped, nothing shifts. -/
theorem make_record_spec (cm : List (List Char × Val)) (fields : List Field) :
    (makeRecord cm fields).length = fields.length ∧
    ∀ i (h : i < fields.length), (makeRecord cm fields)[i]? = some ((cm.lookup fields[i].name).getD .none) := by
  refine ⟨makeRecord_length cm fields, fun i h => ?_⟩
  simp [makeRecord, h]

/-- a made record can always be joined with its fields (the column count is right by construction) and the line
is delimiter-safe. -/
theorem join_make_record (cm : List (List Char × Val)) (fields : List Field) (hne : fields ≠ []) :
    ∃ line, joinTyped fields (makeRecord cm fields) = .ok line
      ∧ line.count fieldDelimiter = fields.length - 1 ∧ '\n' ∉ line :=
  join_typed_safe fields (makeRecord cm fields) hne (makeRecord_length cm fields)

example : makeRecord [("b".toList, .int 2), ("a".toList, .none), ("zz".toList, .int 9)]
    [⟨"a".toList, .integer⟩, ⟨"b".toList, .integer⟩, ⟨"c".toList, .string⟩] = [.none, .int 2, .none] := by decide

/-! ## "a row object always exposes exactly the cast of its stored raw data" — through `str(row)` -/

/-- a row built from values that fit their columns iterates to those values up to the documented exceptions
(`rowBack`: `None` ↦ `-1` in an `:integer` column — the row stores `format(datatype, None)`, not the field
default — and `''` ↦ `None`), and never raises. -/
theorem row_values (types : List DType) (names : List (List Char)) (vals : List Val)
    (hf : ∀ p ∈ types.zip vals, FitsT p.1 p.2) :
    (mkRow types names vals).values = .ok (List.zipWith rowBack types vals) :=
  row_values_fits types names vals hf

/-- `str(row)` is the typed join of the row's iteration with the row's own fields (`Row.__str__`), so for fitting
values it is the join of `rowBack` of the values. -/
theorem row_str (types : List DType) (names : List (List Char)) (vals : List Val)
    (hf : ∀ p ∈ types.zip vals, FitsT p.1 p.2) :
    (mkRow types names vals).str = joinTyped (mkRow types names vals).fields (List.zipWith rowBack types vals) := by
  unfold Row.str
  rw [row_values_fits types names vals hf]

/-- `Row(fields, data)` with a wrong number of values is an error, otherwise the row of `mkRow`. -/
theorem row_count_checked (types : List DType) (names : List (List Char)) (vals : List Val) :
    mkRowChecked types names vals = (if vals.length = types.length then .ok (mkRow types names vals) else .error .tsdbError) := by
  unfold mkRowChecked
  by_cases h : vals.length = types.length <;> simp [h]

example : (mkRow [.integer, .string, .integer] ["i-id".toList, "a".toList, "i-wf".toList]
    [.int 5, .str "x@".toList, .none]).str = .ok "5@x\\s@-1".toList := by decide

/-! ## `format` with and without a default -/

/-- (BY CONSTRUCTION of the model: three spellings of one function.)  `format(f.datatype, v, default=f.default)` and
`format(datatype, v)` are `formatPy` — the function the correspondence run compares with `tsdb.format` for every
datatype, value kind (fitting or not) and default. -/
theorem format_cases (f : Field) (dt : DType) (v : Val) :
    formatField f v = formatPy f.dt v (some f.default) ∧ format dt v = formatPy dt v none := by
  cases v <;> exact ⟨rfl, rfl⟩

end Verif.C08
