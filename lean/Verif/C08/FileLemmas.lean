/-
C08 — helper lemmas for PropsFile.lean: lines of a relation file, `mapM` over `Except`, newline-freeness of every
`join`, `make_record`, `Row.values`.
-/
import Verif.C08.TypedLemmas

namespace Verif.C08
open Verif.Py Verif.Tables

/-! ### lines -/

theorem linesOf_line (l rest : List Char) (h : '\n' ∉ l) :
    linesOf (l ++ '\n' :: rest) = (l ++ ['\n']) :: linesOf rest := by
  induction l with
  | nil => simp [linesOf]
  | cons c l ih =>
    have hc : c ≠ '\n' := fun e => h (by simp [e])
    have hl : '\n' ∉ l := fun e => h (by simp [e])
    simp only [List.cons_append, linesOf, hc, if_false, ih hl]

theorem linesOf_flatten (ls : List (List Char)) (h : ∀ l ∈ ls, '\n' ∉ l) :
    linesOf ((ls.map (· ++ ['\n'])).flatten) = ls.map (· ++ ['\n']) := by
  induction ls with
  | nil => simp [linesOf]
  | cons l ls ih =>
    simp only [List.map_cons, List.flatten_cons, List.append_assoc, List.singleton_append]
    rw [linesOf_line l _ (h l (by simp)), ih (fun x hx => h x (by simp [hx]))]

theorem count_flatten_lines (ls : List (List Char)) (h : ∀ l ∈ ls, '\n' ∉ l) :
    ((ls.map (· ++ ['\n'])).flatten).count '\n' = ls.length := by
  induction ls with
  | nil => simp
  | cons l ls ih =>
    simp only [List.map_cons, List.flatten_cons, List.count_append, List.length_cons]
    rw [ih (fun x hx => h x (by simp [hx])), List.count_eq_zero.mpr (h l (by simp))]
    simp
    omega

/-! ### `mapM` in `Except` -/

theorem mapM_map_ok {α β γ : Type} (xs : List α) (g : α → β) (f : β → Except Err γ) (k : α → γ)
    (h : ∀ x ∈ xs, f (g x) = .ok (k x)) : (xs.map g).mapM f = .ok (xs.map k) := by
  induction xs with
  | nil => rfl
  | cons x xs ih =>
    simp only [List.map_cons, List.mapM_cons, h x (by simp), ih (fun y hy => h y (by simp [hy]))]
    rfl

theorem mapM_ok' {α γ : Type} (xs : List α) (f : α → Except Err γ) (k : α → γ)
    (h : ∀ x ∈ xs, f x = .ok (k x)) : xs.mapM f = .ok (xs.map k) := by
  have := mapM_map_ok xs id f k (by simpa using h)
  simpa using this

theorem mapM_ok_inv {α γ : Type} (xs : List α) (f : α → Except Err γ) (ys : List γ)
    (h : xs.mapM f = .ok ys) : ys.length = xs.length ∧ ∀ y ∈ ys, ∃ x ∈ xs, f x = .ok y := by
  induction xs generalizing ys with
  | nil =>
    have : ys = [] := by
      have h' : (Except.ok [] : Except Err (List γ)) = .ok ys := h
      exact (Except.ok.inj h').symm
    subst this; simp
  | cons x xs ih =>
    rw [List.mapM_cons] at h
    cases hx : f x with
    | error e => rw [hx] at h; cases h
    | ok y =>
      cases hr : xs.mapM f with
      | error e => rw [hx, hr] at h; cases h
      | ok ys' =>
        rw [hx, hr] at h
        have h' : (Except.ok (y :: ys') : Except Err (List γ)) = .ok ys := h
        have e := Except.ok.inj h'
        subst e
        obtain ⟨h1, h2⟩ := ih ys' hr
        refine ⟨by simp [h1], ?_⟩
        intro z hz
        rcases List.mem_cons.mp hz with rfl | hz
        · exact ⟨x, by simp, hx⟩
        · obtain ⟨x', hx', hf⟩ := h2 z hz
          exact ⟨x', by simp [hx'], hf⟩

theorem mapM_error {α γ : Type} (xs : List α) (f : α → Except Err γ) (e : Err)
    (hall : ∀ x ∈ xs, ∀ e', f x = .error e' → e' = e) (hex : ∃ x ∈ xs, ∃ e', f x = .error e') :
    xs.mapM f = .error e := by
  induction xs with
  | nil => obtain ⟨x, hx, _⟩ := hex; simp at hx
  | cons x xs ih =>
    rw [List.mapM_cons]
    cases hx : f x with
    | error e' =>
      have := hall x (by simp) e' hx
      subst this; rfl
    | ok y =>
      have hex' : ∃ x' ∈ xs, ∃ e', f x' = .error e' := by
        obtain ⟨x', hx', e', he'⟩ := hex
        rcases List.mem_cons.mp hx' with rfl | hm
        · rw [hx] at he'; cases he'
        · exact ⟨x', hm, e', he'⟩
      rw [ih (fun z hz => hall z (by simp [hz])) hex']
      rfl

/-! ### every `join` is newline-free and fails only with `TSDBError` -/

theorem joinTyped_no_newline (fields : List Field) (vals : List Val) (line : List Char)
    (h : joinTyped fields vals = .ok line) : '\n' ∉ line := by
  unfold joinTyped at h
  split at h
  · have e := Except.ok.inj h
    subst e
    rw [tables_ok.2]
    apply not_mem_joinWith '@' '\n' _ (by decide)
    intro p hp
    simp only [List.mem_map] at hp
    obtain ⟨v, _, rfl⟩ := hp
    exact (L.escape_safe _).1
  · split at h
    · cases h
    · have e := Except.ok.inj h
      subst e
      rw [tables_ok.2]
      apply not_mem_joinWith '@' '\n' _ (by decide)
      intro p hp
      obtain ⟨i, hi, rfl⟩ := List.mem_iff_getElem.mp hp
      simp only [List.getElem_zipWith]
      exact (L.escape_safe _).1

theorem joinTyped_error (fields : List Field) (vals : List Val) (e : Err)
    (h : joinTyped fields vals = .error e) : e = .tsdbError := by
  unfold joinTyped at h
  split at h
  · cases h
  · split at h
    · exact (Except.error.inj h).symm
    · cases h

/-- the line of a record with the right number of values -/
def lineOf (fields : List Field) (r : List Val) : List Char :=
  joinRaw ((List.zipWith formatField fields r).map some)

/-! ### `make_record` -/

theorem makeRecord_length (cm : List (List Char × Val)) (fields : List Field) :
    (makeRecord cm fields).length = fields.length := by
  simp [makeRecord]

/-! ### rows built from fitting values -/

/-- what a fitting value reads as through a `Row` (stored with `format(datatype, value)`, no field default):
`None` ↦ `-1` in an `:integer` column, else `None`; `''` ↦ `None`. -/
def rowBack (dt : DType) (v : Val) : Val :=
  match v with
  | .none => if dt = .integer then .int (-1) else .none
  | .str [] => .none
  | v => v

def FitsT (dt : DType) (v : Val) : Prop := Fits ⟨[], dt⟩ v

theorem row_cell (dt : DType) (v : Val) (h : FitsT dt v) : cellOf (castPy dt (format dt v)) = .ok (rowBack dt v) := by
  cases v with
  | none =>
    cases dt
    · have : castPy .integer ['-', '1'] = .val (.int (-1)) := by decide
      simp [format, rowBack, cellOf, this]
    · simp [format, castPy, cellOf, rowBack]
    · simp [format, castPy, cellOf, rowBack]
  | int i =>
    simp only [FitsT, Fits] at h
    subst h
    simp [format, castPy_formatInt, cellOf, rowBack]
  | str s =>
    simp only [FitsT, Fits] at h
    subst h
    cases s with
    | nil => simp [format, castPy, cellOf, rowBack]
    | cons c s => simp [format, castPy, cellOf, rowBack]
  | date t =>
    simp only [FitsT, Fits] at h
    obtain ⟨h1, h2⟩ := h
    subst h1
    simp [format, castPy_formatDate t h2, cellOf, rowBack]

theorem row_values_fits (types : List DType) (names : List (List Char)) (vals : List Val)
    (hf : ∀ p ∈ types.zip vals, FitsT p.1 p.2) :
    (mkRow types names vals).values = .ok (List.zipWith rowBack types vals) := by
  unfold Row.values mkRow
  simp only
  induction types generalizing vals with
  | nil => simp; rfl
  | cons t ts ih =>
    cases vals with
    | nil => simp; rfl
    | cons v vs =>
      have h1 := row_cell t v (hf (t, v) (by simp))
      have h2 := ih vs (fun p hp => hf p (by simp [hp]))
      simp only [List.zipWith_cons_cons, List.mapM_cons, h1, h2]
      rfl

end Verif.C08
