/-
C08: lemmas for (a) the wider `int()` / date casts (`castIntPy`, `parseDatePy`, `castPy`) refining the core
ones, (b) typed `split`/`join`, (c) independent specifications of `Row` access.
-/
import Verif.C08.Lemmas
import Verif.C08.DateLemmas

deriving instance DecidableEq for Except

namespace Verif.C08
open Verif.Py Verif.Tables

/-! ### (a) `castIntPy` refines `castInt` -/

theorem dropWhile_none (p : Char → Bool) (s : List Char) (h : ∀ c ∈ s, p c = false) : s.dropWhile p = s := by
  cases s with
  | nil => rfl
  | cons c r => simp [List.dropWhile, h c (by simp)]

theorem stripBlanks_noblank (s : List Char) (h : ∀ c ∈ s, isBlank c = false) : stripBlanks s = s := by
  unfold stripBlanks
  rw [dropWhile_none _ s h, dropWhile_none _ s.reverse (fun c hc => h c (by simpa using hc))]
  simp

theorem undigits_digits (ds : List Char) (hd : ds.all isDigit = true) :
    ∀ prev : Bool, (prev = true ∨ ds ≠ []) → undigits prev ds = some ds := by
  induction ds with
  | nil => intro prev h; rcases h with rfl | h; rfl; exact absurd rfl h
  | cons c r ih =>
    intro prev _
    simp only [List.all_cons, Bool.and_eq_true] at hd
    simp [undigits, hd.1, ih hd.2 true (Or.inl rfl)]

theorem digit_ascii (c : Char) (h : isDigit c = true) : isAscii c = true := by
  simp only [isDigit, Char.isDigit, Bool.and_eq_true, decide_eq_true_eq, ge_iff_le, UInt32.le_iff_toNat_le] at h
  simp only [isAscii, Char.toNat, decide_eq_true_eq]
  have e9 : ('9' : Char).val.toNat = 57 := rfl
  have := h.2
  omega

theorem digit_not_blank (c : Char) (h : isDigit c = true) : isBlank c = false := by
  obtain ⟨_, q1, _, _, q4, q5, q6, q7, q8⟩ := dg_ne c h
  simp [isBlank, q1, q4, q5, q6, q7, q8]

/-- the part of `castInt` after the sign. -/
def coreTail (neg : Bool) (body : List Char) : Except Err Int :=
  if body.isEmpty then .error .valueError
  else if body.all isDigit then
    let n := digitsToNat body
    .ok (if neg then - (n : Int) else (n : Int))
  else if body.any (fun c => isDigit c || c = '_' || c.toNat > 127 || c = ' ' || c = '\t' || c = '\n'
                      || c = '\r' || c.toNat = 11 || c.toNat = 12 || (c.toNat ≥ 28 && c.toNat ≤ 31)) then .error .unmodelled
  else .error .valueError

/-- the part of `castIntPy` after the sign. -/
def pyTail (neg : Bool) (body : List Char) : Except Err Int :=
  match undigits false body with
  | some ds =>
    let n := digitsToNat ds
    .ok (if neg then - (n : Int) else (n : Int))
  | none => .error .valueError

theorem tail_refines (neg : Bool) (body : List Char) (h : coreTail neg body ≠ .error .unmodelled) :
    pyTail neg body = coreTail neg body ∧ (∀ c ∈ body, isBlank c = false) ∧ body.all isAscii = true := by
  unfold coreTail at h ⊢
  by_cases h1 : body.isEmpty = true
  · have : body = [] := by simpa using h1
    subst this
    exact ⟨rfl, by simp, rfl⟩
  · simp only [h1, Bool.false_eq_true, if_false] at h ⊢
    by_cases h2 : body.all isDigit = true
    · simp only [h2, if_true]
      have hne : body ≠ [] := by simpa using h1
      refine ⟨by simp [pyTail, undigits_digits body h2 false (Or.inr hne)], ?_, ?_⟩
      · intro c hc; exact digit_not_blank c (List.all_eq_true.mp h2 c hc)
      · exact List.all_eq_true.mpr (fun c hc => digit_ascii c (List.all_eq_true.mp h2 c hc))
    · simp only [h2, Bool.false_eq_true, if_false] at h ⊢
      by_cases h3 : body.any (fun c => isDigit c || c = '_' || c.toNat > 127 || c = ' ' || c = '\t' || c = '\n'
                      || c = '\r' || c.toNat = 11 || c.toNat = 12 || (c.toNat ≥ 28 && c.toNat ≤ 31)) = true
      · simp [h3] at h
      · simp only [h3, Bool.false_eq_true, if_false]
        have hall : ∀ c ∈ body, isDigit c = false ∧ c ≠ '_' ∧ c.toNat ≤ 127 ∧ c ≠ ' ' ∧ c ≠ '\t' ∧ c ≠ '\n'
            ∧ c ≠ '\r' ∧ c.toNat ≠ 11 ∧ c.toNat ≠ 12 := by
          intro c hc
          have := h3
          simp only [List.any_eq_true, not_exists, not_and, Bool.or_eq_true, decide_eq_true_eq, not_or,
            Bool.not_eq_true] at this
          have hc' := this c hc
          refine ⟨by simpa using hc'.1.1.1.1.1.1.1.1.1, hc'.1.1.1.1.1.1.1.1.2, ?_, hc'.1.1.1.1.1.1.2, hc'.1.1.1.1.1.2,
            hc'.1.1.1.1.2, hc'.1.1.1.2, hc'.1.1.2, hc'.1.2⟩
          have := hc'.1.1.1.1.1.1.1.2
          omega
        refine ⟨?_, ?_, ?_⟩
        · cases body with
          | nil => simp at h1
          | cons c r =>
            have hc := hall c (by simp)
            simp [pyTail, undigits, hc.1]
        · intro c hc
          obtain ⟨_, _, _, q1, q2, q3, q4, q5, q6⟩ := hall c hc
          have e11 : c ≠ Char.ofNat 11 := fun e => q5 (by rw [e]; rfl)
          have e12 : c ≠ Char.ofNat 12 := fun e => q6 (by rw [e]; rfl)
          simp [isBlank, q1, q2, q3, q4, e11, e12]
        · exact List.all_eq_true.mpr (fun c hc => by simpa [isAscii] using (hall c hc).2.2.1)

theorem castInt_nil : castInt [] = coreTail false [] := rfl
theorem castInt_minus (r : List Char) : castInt ('-' :: r) = coreTail true r := rfl
theorem castInt_plus (r : List Char) : castInt ('+' :: r) = coreTail false r := rfl
theorem castInt_other (c : Char) (r : List Char) (hm : c ≠ '-') (hp : c ≠ '+') :
    castInt (c :: r) = coreTail false (c :: r) := by
  simp [castInt, coreTail, hm, hp]

/-- the sign step of `castIntPy` on the stripped text. -/
def pySign (b : List Char) : Except Err Int :=
  match b with
  | '-' :: r => pyTail true r
  | '+' :: r => pyTail false r
  | r => pyTail false r

theorem castIntPy_eq (s : List Char) (ha : s.all isAscii = true) : castIntPy s = pySign (stripBlanks s) := by
  unfold castIntPy pySign pyTail
  simp only [ha, Bool.not_true, Bool.false_eq_true, if_false]
  generalize stripBlanks s = b
  cases b with
  | nil => rfl
  | cons c r =>
    by_cases hm : c = '-'
    · subst hm; rfl
    · by_cases hp : c = '+'
      · subst hp; rfl
      · simp [hm, hp]; rfl

theorem pySign_other (c : Char) (r : List Char) (hm : c ≠ '-') (hp : c ≠ '+') :
    pySign (c :: r) = pyTail false (c :: r) := by
  simp [pySign, hm, hp]

/-- wherever the core model of `int()` gives an answer, the wider one gives the same. -/
theorem L.castIntPy_refines (s : List Char) (h : castInt s ≠ .error .unmodelled) : castIntPy s = castInt s := by
  have hm : isBlank '-' = false := by decide
  have hp : isBlank '+' = false := by decide
  have am : isAscii '-' = true := by decide
  have ap : isAscii '+' = true := by decide
  cases s with
  | nil => rfl
  | cons c r =>
    by_cases cm : c = '-'
    · subst cm
      rw [castInt_minus] at h ⊢
      obtain ⟨e, nb, asc⟩ := tail_refines true r h
      have hs : stripBlanks ('-' :: r) = '-' :: r :=
        stripBlanks_noblank _ (fun c hc => by rcases List.mem_cons.mp hc with rfl | hc; exact hm; exact nb c hc)
      rw [castIntPy_eq _ (by simp [am, asc]), hs]
      exact e
    · by_cases cp : c = '+'
      · subst cp
        rw [castInt_plus] at h ⊢
        obtain ⟨e, nb, asc⟩ := tail_refines false r h
        have hs : stripBlanks ('+' :: r) = '+' :: r :=
          stripBlanks_noblank _ (fun c hc => by rcases List.mem_cons.mp hc with rfl | hc; exact hp; exact nb c hc)
        rw [castIntPy_eq _ (by simp [ap, asc]), hs]
        exact e
      · rw [castInt_other c r cm cp] at h ⊢
        obtain ⟨e, nb, asc⟩ := tail_refines false (c :: r) h
        rw [castIntPy_eq _ asc, stripBlanks_noblank _ nb, pySign_other c r cm cp]
        exact e

/-- likewise for dates: on ASCII text that is not `today`/`now`, `parseDatePy` only turns `unmodelled`
into `invalid`. -/
theorem L.parseDatePy_refines (s : List Char) (ha : s.all isAscii = true) (ht : isTodayNow s = false)
    (h : parseDate s ≠ .unmodelled) : parseDatePy s = parseDate s := by
  unfold parseDatePy
  rw [if_neg (by simp [ha]), if_neg (by simp [ht])]
  cases hp : parseDate s with
  | unmodelled => exact absurd hp h
  | ok t => rfl
  | invalid => rfl
  | keyError => rfl

theorem L.castPy_refines (dt : DType) (raw : List Char) (ha : raw.all isAscii = true) (ht : isTodayNow raw = false)
    (h : cast dt raw ≠ .err .unmodelled) : castPy dt raw = cast dt raw := by
  unfold cast castPy at *
  by_cases he : raw.isEmpty = true
  · simp [he]
  · simp only [he, Bool.false_eq_true, if_false] at h ⊢
    cases dt with
    | string => rfl
    | integer =>
      have : castInt raw ≠ .error .unmodelled := fun e => by simp [e] at h
      simp only [L.castIntPy_refines raw this]
    | date =>
      have : parseDate raw ≠ .unmodelled := fun e => by simp [e] at h
      simp only [L.parseDatePy_refines raw ha ht this]

/-! the formatted forms are inside the refined fragment -/

theorem castPy_formatInt (i : Int) : castPy .integer (formatInt i) = .val (.int i) := by
  have hne : (formatInt i).isEmpty = false := by
    cases i with
    | ofNat n =>
      simp only [formatInt]
      cases h : natDigits n with
      | nil => exact absurd h (L.natDigits_ne_nil _)
      | cons _ _ => rfl
    | negSucc n => rfl
  have hc := L.castInt_formatInt i
  simp [castPy, hne, L.castIntPy_refines _ (by rw [hc]; simp), hc]

theorem lookup_all {α : Type} [BEq α] (P : List Char → Prop) (l : List (α × List Char)) (k : α) (h0 : P [])
    (h : ∀ p ∈ l, P p.2) : P ((l.lookup k).getD []) := by
  induction l with
  | nil => simpa [List.lookup] using h0
  | cons p l ih =>
    obtain ⟨a, b⟩ := p
    simp only [List.lookup]
    split
    · simpa using h (a, b) (by simp)
    · exact ih (fun q hq => h q (by simp [hq]))

theorem monthName_ascii (mo : Nat) : (monthName mo).all isAscii = true :=
  lookup_all (fun cs => cs.all isAscii = true) monthNames mo rfl (by decide)

theorem natDigits_ascii (n : Nat) : (natDigits n).all isAscii = true :=
  List.all_eq_true.mpr (fun c hc => digit_ascii c (List.all_eq_true.mp (L.natDigits_all n) c hc))

theorem pad2_ascii (n : Nat) : (pad2 n).all isAscii = true := by
  unfold pad2
  split
  · simp only [List.all_cons, natDigits_ascii, Bool.and_true]; decide
  · exact natDigits_ascii n

theorem formatDate_ascii (t : DT) : (formatDate t).all isAscii = true := by
  have c1 : isAscii '-' = true := by decide
  have c2 : isAscii ' ' = true := by decide
  have c3 : isAscii ':' = true := by decide
  unfold formatDate
  split <;> simp [List.all_append, natDigits_ascii, monthName_ascii, pad2_ascii, c1, c2, c3]

theorem formatDate_not_now (t : DT) : isTodayNow (formatDate t) = false := by
  unfold formatDate
  cases h : natDigits t.d with
  | nil => exact absurd h (L.natDigits_ne_nil _)
  | cons c r =>
    have hall := L.natDigits_all t.d
    rw [h] at hall
    simp only [List.all_cons, Bool.and_eq_true] at hall
    obtain ⟨_, _, _, q3, _⟩ := dg_ne c hall.1
    have nt : c ≠ 't' := by intro e; subst e; exact absurd hall.1 (by decide)
    have nn : c ≠ 'n' := by intro e; subst e; exact absurd hall.1 (by decide)
    simp [isTodayNow, q3, List.isPrefixOf, nt.symm, nn.symm]

theorem castPy_formatDate (t : DT) (hv : t.Valid = true) : castPy .date (formatDate t) = .val (.date t) := by
  have hne : (formatDate t).isEmpty = false := by
    unfold formatDate
    cases h : natDigits t.d with
    | nil => exact absurd h (L.natDigits_ne_nil _)
    | cons _ _ => rfl
  have hp := L.parseDate_formatDate t hv
  have := L.parseDatePy_refines _ (formatDate_ascii t) (formatDate_not_now t) (by rw [hp]; simp)
  simp [castPy, hne, this, hp]

/-! ### (b) typed split / join -/

theorem coded_pin : codedAttributes = [("i-wf", "1"), ("i-difficulty", "1"), ("polarity", "-1")] := rfl

/-- what `None` in a column reads back as: the cast of the field's default. -/
def defaultVal (f : Field) : Val :=
  match castPy f.dt f.default with
  | .val w => w
  | .err _ => .none

/-- the default of every field is castable (for the pinned table of coded attributes): `None` never
makes a record unreadable. -/
theorem default_casts (f : Field) : castPy f.dt f.default = .val (defaultVal f) := by
  obtain ⟨name, dt⟩ := f
  unfold defaultVal Field.default
  cases hf : codedAttributes.find? (fun p => p.1.toList == name) with
  | none => cases dt <;> rfl
  | some p =>
    have hm := List.mem_of_find?_eq_some hf
    rw [coded_pin] at hm
    simp only [List.mem_cons, List.not_mem_nil, or_false] at hm
    rcases hm with rfl | rfl | rfl <;> cases dt <;> (dsimp only; decide)

theorem default_uncoded (f : Field) (h : codedAttributes.find? (fun p => p.1.toList == f.name) = none) :
    f.default = (if f.dt = .integer then ['-', '1'] else []) ∧
    defaultVal f = (if f.dt = .integer then .int (-1) else .none) := by
  obtain ⟨name, dt⟩ := f
  simp only [defaultVal, Field.default, h]
  cases dt <;> refine ⟨by simp, ?_⟩ <;> rfl

/-- a value fits its column: an integer in `:integer`, a string in `:string`, a calendar-valid date-time
(years 1000–9999) in `:date`; `None` fits everywhere. -/
def Fits (f : Field) (v : Val) : Prop :=
  match v with
  | .none => True
  | .int _ => f.dt = .integer
  | .str _ => f.dt = .string
  | .date t => f.dt = .date ∧ t.Valid = true

/-- what the value reads back as: `None` ↦ the default's cast, `''` ↦ `None`, everything else itself. -/
def readBack (f : Field) (v : Val) : Val :=
  match v with
  | .none => defaultVal f
  | .str [] => .none
  | v => v

theorem cell_fits (f : Field) (v : Val) (h : Fits f v) : cellOf (castPy f.dt (formatField f v)) = .ok (readBack f v) := by
  cases v with
  | none => simp [formatField, default_casts, cellOf, readBack]
  | int i =>
    simp only [Fits] at h
    simp [formatField, strVal, h, castPy_formatInt, cellOf, readBack]
  | str s =>
    simp only [Fits] at h
    cases s with
    | nil => simp [formatField, strVal, castPy, cellOf, readBack]
    | cons c s => simp [formatField, strVal, h, castPy, cellOf, readBack]
  | date t =>
    simp only [Fits] at h
    simp [formatField, h.1, castPy_formatDate t h.2, cellOf, readBack]

theorem joinTyped_eq_joinRaw (fields : List Field) (vals : List Val) (hne : fields ≠ [])
    (hl : vals.length = fields.length) :
    joinTyped fields vals = .ok (joinRaw ((List.zipWith formatField fields vals).map some)) := by
  have he : fields.isEmpty = false := by cases fields <;> simp_all
  simp only [joinTyped, he, Bool.false_eq_true, if_false, hl, ne_eq, not_true_eq_false, joinRaw, List.map_map]
  congr 2
  rw [List.map_zipWith]
  rfl

theorem zip_cells (fields : List Field) (vals : List Val) :
    List.zipWith (fun (col : Option (List Char)) (f : Field) => (f.dt, col.getD []))
      (((List.zipWith formatField fields vals).map some).map normEmpty) fields
    = List.zipWith (fun f v => (f.dt, formatField f v)) fields vals := by
  induction fields generalizing vals with
  | nil => simp
  | cons f fs ih =>
    cases vals with
    | nil => simp
    | cons v vs =>
      simp only [List.zipWith_cons_cons, List.map_cons, ih vs]
      congr 2
      cases formatField f v <;> rfl

theorem cells_ok (fields : List Field) (vals : List Val) (hl : vals.length = fields.length)
    (hf : ∀ p ∈ fields.zip vals, Fits p.1 p.2) :
    (List.zipWith (fun f v => (f.dt, formatField f v)) fields vals).mapM (fun p => cellOf (castPy p.1 p.2))
    = .ok (List.zipWith readBack fields vals) := by
  induction fields generalizing vals with
  | nil => cases vals <;> first | rfl | simp at hl
  | cons f fs ih =>
    cases vals with
    | nil => simp at hl
    | cons v vs =>
      have h1 := cell_fits f v (hf (f, v) (by simp))
      have h2 := ih vs (by simpa using hl) (fun p hp => hf p (by simp [hp]))
      simp only [List.zipWith_cons_cons, List.mapM_cons, h1, h2]
      rfl

theorem splitTyped_of_raw (fields : List Field) (line : List Char) (raw : List (Option (List Char)))
    (hne : fields ≠ []) (hr : splitRaw line = .ok raw) (hl : raw.length = fields.length) :
    splitTyped fields line =
      (List.zipWith (fun (col : Option (List Char)) (f : Field) => (f.dt, col.getD [])) raw fields).mapM
        (fun p => cellOf (castPy p.1 p.2)) := by
  have he : fields.isEmpty = false := by cases fields <;> simp_all
  simp only [splitTyped, hr, he, Bool.false_eq_true, if_false, hl, ne_eq, not_true_eq_false]

theorem snoc_induction {α : Type} {P : List α → Prop} (h0 : P []) (hs : ∀ l a, P l → P (l ++ [a])) :
    ∀ l, P l := by
  intro l
  have : ∀ r : List α, P r.reverse := by
    intro r
    induction r with
    | nil => exact h0
    | cons a r ih => simpa using hs _ a ih
  simpa using this l.reverse

/-! ### (c) `Row`: independent specifications -/

/-- `{field.name: i for i, field in enumerate(fields)}` as a function: a later entry overwrites an
earlier one with the same name. -/
def dictIndex (names : List (List Char)) : List Char → Option Nat :=
  (names.zipIdx).foldl (fun m p k => if k = p.1 then some p.2 else m k) (fun _ => none)

theorem dictIndex_snoc (ns : List (List Char)) (n k : List Char) :
    dictIndex (ns ++ [n]) k = if k = n then some ns.length else dictIndex ns k := by
  simp [dictIndex, List.zipIdx_append, List.foldl_append]

/-- the last position holding `k`, by search from the end. -/
def lastIndexOf (names : List (List Char)) (k : List Char) : Option Nat :=
  (names.reverse.findIdx? (· == k)).map (fun j => names.length - 1 - j)

theorem filter_range_snoc (ns : List (List Char)) (n k : List Char) :
    (List.range (ns ++ [n]).length).filter (fun i => (ns ++ [n])[i]? = some k)
      = (List.range ns.length).filter (fun i => ns[i]? = some k) ++ (if n = k then [ns.length] else []) := by
  simp only [List.length_append, List.length_singleton, List.range_succ, List.filter_append]
  congr 1
  · apply List.filter_congr
    intro i hi
    have : i < ns.length := by simpa using hi
    simp [List.getElem?_append_left this]
  · by_cases h : n = k <;> simp [h]

theorem getLast_filter_dict (names : List (List Char)) (k : List Char) :
    ((List.range names.length).filter (fun i => names[i]? = some k)).getLast? = dictIndex names k := by
  refine snoc_induction (P := fun names =>
    ((List.range names.length).filter (fun i => names[i]? = some k)).getLast? = dictIndex names k) rfl ?_ names
  · intro ns n ih
    rw [filter_range_snoc, dictIndex_snoc]
    by_cases h : n = k
    · subst h; simp
    · have h' : ¬ k = n := fun e => h e.symm
      simp [h, h', ih]

theorem lastIndexOf_snoc (ns : List (List Char)) (n k : List Char) :
    lastIndexOf (ns ++ [n]) k = if n = k then some ns.length else lastIndexOf ns k := by
  unfold lastIndexOf
  simp only [List.reverse_append, List.reverse_cons, List.reverse_nil, List.nil_append, List.singleton_append,
    List.findIdx?_cons, List.length_append, List.length_singleton]
  by_cases h : n = k
  · simp [h]
  · simp only [beq_iff_eq, h, if_false, Option.map_map]
    cases hh : List.findIdx? (fun x => x == k) ns.reverse with
    | none => simp
    | some j =>
      have hj : j < ns.length := by
        have := List.findIdx?_eq_some_iff_getElem.mp hh
        simpa using this.1
      simp only [Option.map_some, Function.comp]
      congr 1
      omega

theorem dictIndex_eq_last (names : List (List Char)) (k : List Char) : dictIndex names k = lastIndexOf names k := by
  refine snoc_induction (P := fun names => dictIndex names k = lastIndexOf names k) rfl ?_ names
  · intro ns n ih
    rw [dictIndex_snoc, lastIndexOf_snoc, ih]
    by_cases h : n = k
    · subst h; simp
    · have h' : ¬ k = n := fun e => h e.symm
      simp [h, h']

/-- characterisation of the last index: it holds `k` and no later position does. -/
theorem getLast_filter_iff (n : Nat) (p : Nat → Bool) (i : Nat) :
    ((List.range n).filter p).getLast? = some i ↔ i < n ∧ p i = true ∧ ∀ j, i < j → j < n → p j = false := by
  induction n with
  | zero => simp
  | succ n ih =>
    rw [List.range_succ, List.filter_append]
    by_cases hp : p n = true
    · simp only [List.filter_cons, hp, if_true, List.filter_nil, List.getLast?_append, List.getLast?_singleton,
        Option.some_or, Option.some.injEq]
      constructor
      · rintro rfl
        exact ⟨by omega, hp, fun j h1 h2 => by omega⟩
      · rintro ⟨h1, h2, h3⟩
        by_cases e : i = n
        · exact e.symm
        · have := h3 n (by omega) (by omega)
          rw [hp] at this; cases this
    · have hp' : p n = false := by simpa using hp
      simp only [List.filter_cons, hp', Bool.false_eq_true, if_false, List.filter_nil, List.append_nil, ih]
      constructor
      · rintro ⟨h1, h2, h3⟩
        refine ⟨by omega, h2, fun j hj1 hj2 => ?_⟩
        by_cases e : j = n
        · subst e; exact hp'
        · exact h3 j hj1 (by omega)
      · rintro ⟨h1, h2, h3⟩
        have : i ≠ n := fun e => by subst e; rw [hp'] at h2; cases h2
        exact ⟨by omega, h2, fun j hj1 hj2 => h3 j hj1 (by omega)⟩

theorem iter_length (r : Row) : r.iter.length = min r.types.length r.data.length := by
  simp [Row.iter]

theorem iter_getElem (r : Row) (i : Nat) (h1 : i < r.types.length) (h2 : i < r.data.length) :
    r.iter[i]? = some (cast r.types[i] r.data[i]) := by
  simp [Row.iter, List.getElem?_zipWith, List.getElem?_eq_getElem h1, List.getElem?_eq_getElem h2]

end Verif.C08
