/-
C08 — model of `delphin.tsdb.escape/unescape/split/join/cast/format` and `itsdb.Row`.
Core Lean only.  Strings are `List Char`.
-/
import Verif.Common.Py
import Verif.Generated.Tables

namespace Verif.C08
open Verif.Py Verif.Tables

inductive Err where
  | tsdbError      -- tsdb.TSDBError (invalid escape, column count mismatch, bad datatype)
  | valueError     -- ValueError (int() on a non-number)
  | indexError
  | keyError
  | unmodelled     -- input outside the fragment this model covers (never compared)
deriving Repr, DecidableEq

/-- `tsdb.escape`: the chained `str.replace` calls, in the order of the generated table
(`\` first, then newline, then the field delimiter). -/
def escape (s : List Char) : List Char :=
  tsdbEscapes.foldl (fun acc cr => replaceChar cr.1 cr.2 acc) s

/-- `tsdb.unescape`: one pass with an escape flag; unknown escapes and a trailing
backslash are errors. -/
def unescape : List Char → Except Err (List Char)
  | [] => .ok []
  | c :: rest =>
    if c = '\\' then
      match rest with
      | [] => .error .tsdbError
      | d :: rest' =>
        if d = '\\' then (unescape rest').map ('\\' :: ·)
        else if d = 's' then (unescape rest').map (fieldDelimiter :: ·)
        else if d = 'n' then (unescape rest').map ('\n' :: ·)
        else .error .tsdbError
    else (unescape rest).map (c :: ·)

/-- Every backslash is followed by one of `\ s n`. -/
def WellEscaped : List Char → Bool
  | [] => true
  | c :: rest =>
    if c = '\\' then
      match rest with
      | [] => false
      | d :: rest' => (d = '\\' || d = 's' || d = 'n') && WellEscaped rest'
    else WellEscaped rest

/-- raw `split` (no fields): `rstrip('\n')`, split on the delimiter, empty ↦ None. -/
def splitRaw (line : List Char) : Except Err (List (Option (List Char))) :=
  (splitOn fieldDelimiter (rstripChar '\n' line)).mapM
    (fun col => if col.isEmpty then .ok none else (unescape col).map some)

/-- raw `join` (no fields): None ↦ '', escape, join with the delimiter. -/
def joinRaw (vs : List (Option (List Char))) : List Char :=
  joinWith fieldDelimiter (vs.map (fun v => escape (v.getD [])))

/-! ### integers -/

def digitChar (d : Nat) : Char := Char.ofNat (48 + d)

/-- decimal digits of `n`, most significant first (`str(n)` for `n ≥ 0`). -/
def natDigits (n : Nat) : List Char := (Nat.toDigits 10 n)

def formatInt (i : Int) : List Char :=
  match i with
  | .ofNat n => natDigits n
  | .negSucc n => '-' :: natDigits (n + 1)

def isDigit (c : Char) : Bool := c.isDigit

def digitsToNat (cs : List Char) : Nat :=
  cs.foldl (fun acc c => 10 * acc + (c.toNat - '0'.toNat)) 0

/-- `int(s)` on the language `[+-]?[0-9]+`; everything else that Python might
still accept (whitespace, underscores, non-ASCII digits) is `unmodelled`; strings
with no digit at all are `ValueError`. -/
def castInt (s : List Char) : Except Err Int :=
  let (neg, body) := match s with
    | '-' :: r => (true, r)
    | '+' :: r => (false, r)
    | r => (false, r)
  if body.isEmpty then .error .valueError
  else if body.all isDigit then
    let n := digitsToNat body
    .ok (if neg then - (n : Int) else (n : Int))
  else if body.any (fun c => isDigit c || c = '_' || c.toNat > 127 || c = ' ' || c = '\t' || c = '\n'
                      || c = '\r' || c.toNat = 11 || c.toNat = 12 || (c.toNat ≥ 28 && c.toNat ≤ 31)) then .error .unmodelled
  else .error .valueError

/-! ### dates -/

structure DT where
  y : Nat
  mo : Nat
  d : Nat
  H : Nat
  M : Nat
  S : Nat
deriving Repr, DecidableEq

def isLeap (y : Nat) : Bool := (y % 4 = 0 && y % 100 ≠ 0) || y % 400 = 0

def daysIn (y m : Nat) : Nat :=
  if m = 2 then (if isLeap y then 29 else 28)
  else if m = 4 || m = 6 || m = 9 || m = 11 then 30 else 31

def DT.Valid (t : DT) : Bool :=
  1000 ≤ t.y && t.y ≤ 9999 && 1 ≤ t.mo && t.mo ≤ 12 && 1 ≤ t.d && t.d ≤ daysIn t.y t.mo
  && t.H < 24 && t.M < 60 && t.S < 60

def pad2 (n : Nat) : List Char := if n < 10 then '0' :: natDigits n else natDigits n

def monthName (m : Nat) : List Char := (monthNames.lookup m).getD []

/-- `tsdb.format(':date', datetime)` : `D-mon-YYYY` plus ` HH:MM:SS` if the time is not midnight.
(`%Y` is 4 digits for years ≥ 1000, which `Valid` guarantees.) -/
def formatDate (t : DT) : List Char :=
  natDigits t.d ++ '-' :: monthName t.mo ++ '-' :: natDigits t.y ++
    (if t.H = 0 && t.M = 0 && t.S = 0 then []
     else ' ' :: pad2 t.H ++ ':' :: pad2 t.M ++ ':' :: pad2 t.S)

/-- take between `lo` and `hi` leading digits, greedy; `none` if fewer than `lo`. -/
def takeDigits (lo hi : Nat) (s : List Char) : Option (List Char × List Char) :=
  let ds := (s.takeWhile isDigit).take hi
  if ds.length < lo then none else some (ds, s.drop ds.length)

def isAsciiWord (c : Char) : Bool :=
  isDigit c || ('a' ≤ c && c ≤ 'z') || ('A' ≤ c && c ≤ 'Z') || c = '_'

def lowerAscii (c : Char) : Char := if 'A' ≤ c && c ≤ 'Z' then Char.ofNat (c.toNat + 32) else c

/-- the optional time group `(?:\s*\(?HH:MM(?::SS)?\)?)?`; returns (H, M, S) texts.
`\s` on ASCII text: blank, TAB, LF, CR, VT, FF and the separators U+001C–U+001F. -/
def parseTime (s : List Char) : Option (List Char × List Char × Option (List Char)) :=
  let s1 := s.dropWhile (fun c => c = ' ' || c = '\t' || c = '\n' || c = '\r' || c = Char.ofNat 11 || c = Char.ofNat 12
                                  || c = Char.ofNat 28 || c = Char.ofNat 29 || c = Char.ofNat 30 || c = Char.ofNat 31)
  let s2 := match s1 with | '(' :: r => r | r => r
  match s2 with
  | h1 :: h2 :: ':' :: m1 :: m2 :: r =>
    if isDigit h1 && isDigit h2 && isDigit m1 && isDigit m2 then
      match r with
      | ':' :: s1' :: s2' :: _ =>
        if isDigit s1' && isDigit s2' then some ([h1, h2], [m1, m2], some [s1', s2'])
        else some ([h1, h2], [m1, m2], none)
      | _ => some ([h1, h2], [m1, m2], none)
    else none
  | _ => none

/-- month field `[0-9]{1,2}|\w{3}` followed (in both patterns) by `-`: the alternatives are tried
in order with backtracking on the following `-`.  ASCII only (`\w` on non-ASCII is `unmodelled`
upstream: the generators stay ASCII in date fields). -/
def parseMonthDash (s : List Char) : Option (List Char × List Char) :=
  let try1 : Option (List Char × List Char) :=
    -- greedy 2 digits then 1 digit, each needing '-' next
    match s with
    | a :: b :: '-' :: r => if isDigit a && isDigit b then some ([a, b], r) else none
    | _ => none
  let try2 : Option (List Char × List Char) :=
    match s with
    | a :: '-' :: r => if isDigit a then some ([a], r) else none
    | _ => none
  let try3 : Option (List Char × List Char) :=
    match s with
    | a :: b :: c :: '-' :: r =>
      if isAsciiWord a && isAsciiWord b && isAsciiWord c then some ([a, b, c], r) else none
    | _ => none
  try1.orElse (fun _ => try2.orElse (fun _ => try3))

structure DateMatch where
  y : List Char
  m : List Char
  d : Option (List Char)
  time : Option (List Char × List Char × Option (List Char))

/-- first pattern: `YYYY-(M|MM|www)(-D{1,2})?(time)?` with `re.match` prefix semantics. -/
def matchYMD (s : List Char) : Option DateMatch :=
  match s with
  | y1 :: y2 :: y3 :: y4 :: '-' :: r =>
    if isDigit y1 && isDigit y2 && isDigit y3 && isDigit y4 then
      -- month: [0-9]{1,2} | \w{3}, no dash required after it here
      let mon : Option (List Char × List Char) :=
        match takeDigits 1 2 r with
        | some x => some x
        | none => match r with
          | a :: b :: c :: r' => if isAsciiWord a && isAsciiWord b && isAsciiWord c then some ([a,b,c], r') else none
          | _ => none
      match mon with
      | none => none
      | some (m, r1) =>
        let (d, r2) : Option (List Char) × List Char :=
          match r1 with
          | '-' :: r' => match takeDigits 1 2 r' with
            | some (ds, r'') => (some ds, r'')
            | none => (none, r1)
          | _ => (none, r1)
        some { y := [y1,y2,y3,y4], m := m, d := d, time := parseTime r2 }
    else none
  | _ => none

/-- second pattern: `(D{1,2}-)?(M|MM|www)-YY(YY)?(time)?`. -/
def matchDMY (s : List Char) : Option DateMatch :=
  let year (r : List Char) : Option (List Char × List Char) :=
    match takeDigits 2 4 r with
    | some (ds, r') => if ds.length = 3 then some (ds.take 2, r.drop 2) else some (ds, r')
    | none => none
  let withDay (ds : List Char) (r : List Char) : Option DateMatch :=
    match parseMonthDash r with
    | some (m, r1) => match year r1 with
      | some (y, r2) => some { y := y, m := m, d := some ds, time := parseTime r2 }
      | none => none
    | none => none
  let noDay : Option DateMatch :=
    match parseMonthDash s with
    | some (m, r1) => match year r1 with
      | some (y, r2) => some { y := y, m := m, d := none, time := parseTime r2 }
      | none => none
    | none => none
  let d2 : Option DateMatch := match s with
    | a :: b :: '-' :: r => if isDigit a && isDigit b then withDay [a, b] r else none
    | _ => none
  let d1 : Option DateMatch := match s with
    | a :: '-' :: r => if isDigit a then withDay [a] r else none
    | _ => none
  d2.orElse (fun _ => d1.orElse (fun _ => noDay))

/-- `_date_fix`: returns the y, m, d, H, M, S texts; `none` = `KeyError` for an unknown month name. -/
def dateFix (mt : DateMatch) : Option (List Char × List Char × List Char × List Char × List Char × List Char) :=
  let y := if mt.y.length = 2 then
      (if digitsToNat mt.y ≥ 93 then ['1','9'] else ['2','0']) ++ mt.y else mt.y
  let m? : Option (List Char) :=
    if mt.m.length = 3 then (monthNumbers.lookup (mt.m.map lowerAscii)).map natDigits else some mt.m
  match m? with
  | none => none
  | some m =>
    let d := match mt.d with | some d => d | none => ['0','1']
    let (H, M, S) := match mt.time with
      | some (h, mi, some s) => (h, mi, s)
      | some (h, mi, none) => (h, mi, ['0','0'])
      | none => (['0','0'], ['0','0'], ['0','0'])
    some (y, m, d, H, M, S)

/-- acceptance of `strptime(…, '%Y-%m-%d %H:%M:%S')` on the text `_date_fix` builds:
4-digit year, 1–2 digit fields, calendar validity. -/
def strptimeFixed (y m d H M S : List Char) : Option DT :=
  let ok (cs : List Char) (lo hi : Nat) := lo ≤ cs.length && cs.length ≤ hi && cs.all isDigit
  if ok y 4 4 && ok m 1 2 && ok d 1 2 && ok H 1 2 && ok M 1 2 && ok S 1 2 then
    let t : DT := { y := digitsToNat y, mo := digitsToNat m, d := digitsToNat d,
                    H := digitsToNat H, M := digitsToNat M, S := digitsToNat S }
    -- datetime accepts years 1..9999; seconds up to 61 are accepted by strptime but 60/61 are
    -- rejected by datetime(): net effect S < 60
    if 1 ≤ t.y && 1 ≤ t.mo && t.mo ≤ 12 && 1 ≤ t.d && t.d ≤ daysIn t.y t.mo && t.H < 24 && t.M < 60 && t.S < 60
    then some t else none
  else none

inductive DateRes where
  | ok (t : DT)
  | invalid          -- warning + None
  | keyError         -- unknown 3-letter month
  | unmodelled       -- no pattern matched: raw text goes to strptime (not modelled)
deriving Repr, DecidableEq

def parseDate (s : List Char) : DateRes :=
  let mt := (matchYMD s).orElse (fun _ => matchDMY s)
  match mt with
  | none => .unmodelled
  | some mt =>
    match dateFix mt with
    | none => .keyError
    | some (y, m, d, H, M, S) =>
      match strptimeFixed y m d H M S with
      | some t => .ok t
      | none => .invalid

/-! ### typed values, rows -/

inductive Val where
  | none
  | int (i : Int)
  | str (s : List Char)
  | date (t : DT)
deriving Repr, DecidableEq

inductive DType where | integer | string | date
deriving Repr, DecidableEq

def padTo (k : Nat) (cs : List Char) : List Char := List.replicate (k - cs.length) '0' ++ cs

/-- `str(datetime)` at second resolution: `YYYY-MM-DD HH:MM:SS`. -/
def strDateTime (t : DT) : List Char :=
  padTo 4 (natDigits t.y) ++ '-' :: pad2 t.mo ++ '-' :: pad2 t.d ++ ' ' :: pad2 t.H ++ ':' :: pad2 t.M ++ ':' :: pad2 t.S

/-- `str(value)` -/
def strVal (v : Val) : List Char :=
  match v with
  | .none => ['N', 'o', 'n', 'e']
  | .int i => formatInt i
  | .str s => s
  | .date t => strDateTime t

/-- `tsdb.format(datatype, value, default)`: `None` ↦ the default if one is given, else `-1` for `:integer` and
`''` otherwise; a date-time in a `:date` column ↦ the TSDB date format; everything else ↦ `str(value)` (also a
value whose Python type does not fit the datatype). -/
def formatPy (dt : DType) (v : Val) (default : Option (List Char)) : List Char :=
  match v with
  | .none => match default with
    | some d => d
    | none => if dt = .integer then ['-', '1'] else []
  | .date t => if dt = .date then formatDate t else strDateTime t
  | v => strVal v

/-- `tsdb.format(datatype, value)` with `default=None`, as `Row.__init__` calls it. -/
def format (dt : DType) (v : Val) : List Char :=
  match v with
  | .none => if dt = .integer then ['-', '1'] else []
  | .int i => formatInt i
  | .str s => s
  | .date t => if dt = .date then formatDate t else strDateTime t

inductive CastRes where
  | val (v : Val)
  | err (e : Err)
deriving Repr, DecidableEq

def cast (dt : DType) (raw : List Char) : CastRes :=
  if raw.isEmpty then .val .none else
  match dt with
  | .integer => match castInt raw with
    | .ok i => .val (.int i)
    | .error e => .err e
  | .string => .val (.str raw)
  | .date => match parseDate raw with
    | .ok t => .val (.date t)
    | .invalid => .val .none
    | .keyError => .err .keyError
    | .unmodelled => .err .unmodelled

structure Row where
  types : List DType
  names : List (List Char)
  data  : List (List Char)      -- formatted raw values

def mkRow (types : List DType) (names : List (List Char)) (vals : List Val) : Row :=
  { types := types, names := names, data := List.zipWith format types vals }

def Row.iter (r : Row) : List CastRes := List.zipWith cast r.types r.data

def Row.getIdx (r : Row) (i : Int) : Option CastRes :=
  match getIndex r.types i, getIndex r.data i with
  | some t, some d => some (cast t d)
  | _, _ => none

def Row.getSlice (r : Row) (sl : Slice) : Option (List CastRes) :=
  match Py.getSlice r.types sl, Py.getSlice r.data sl with
  | some ts, some ds => some (List.zipWith cast ts ds)
  | _, _ => none

/-- `make_field_index` keeps the *last* index for a repeated name (dict comprehension). -/
def Row.getName (r : Row) (k : List Char) : Option CastRes :=
  let idxs := (List.range r.names.length).filter (fun i => r.names[i]? = some k)
  match idxs.getLast? with
  | none => none
  | some i => r.getIdx i

/-! ### `int()` and `_parse_datetime` beyond the core fragment

`castInt`/`parseDate`/`cast` above answer `unmodelled` outside a core fragment.  The functions below
decide more of the input space and agree with the core ones wherever those give an answer
(`castIntPy_refines`, `castPy_refines` in Props.lean); the driver answers with these. -/

/-- what `int()` skips at both ends of an ASCII string (`Py_ISSPACE`): blank, TAB, LF, VT, FF, CR —
not the separators U+001C–U+001F. -/
def isBlank (c : Char) : Bool :=
  c = ' ' || c = '\t' || c = '\n' || c = '\r' || c = Char.ofNat 11 || c = Char.ofNat 12

def stripBlanks (s : List Char) : List Char :=
  ((s.dropWhile isBlank).reverse.dropWhile isBlank).reverse

/-- decimal digits with single underscores strictly between digits (PEP 515); the digits without the
underscores.  `prev` = the previous character was a digit. -/
def undigits : Bool → List Char → Option (List Char)
  | prev, [] => if prev then some [] else none
  | prev, c :: r =>
    if isDigit c then (undigits true r).map (c :: ·)
    else if c = '_' && prev then
      match r with
      | d :: _ => if isDigit d then undigits false r else none
      | [] => none
    else none

def isAscii (c : Char) : Bool := c.toNat ≤ 127

/-- `int(s)` on ASCII strings: surrounding blanks, one sign, digits with PEP 515 underscores; everything
else is `ValueError`.  Strings with a non-ASCII character (Unicode blanks and digits are accepted by
Python) stay `unmodelled`. -/
def castIntPy (s : List Char) : Except Err Int :=
  if !s.all isAscii then .error .unmodelled else
  let (neg, body) := match stripBlanks s with
    | '-' :: r => (true, r)
    | '+' :: r => (false, r)
    | r => (false, r)
  match undigits false body with
  | some ds =>
    let n := digitsToNat ds
    .ok (if neg then - (n : Int) else (n : Int))
  | none => .error .valueError

/-- `re.match(r':?(today|now)', s)`: such a text is cast to the current time (not a function of the
input: never compared). -/
def isTodayNow (s : List Char) : Bool :=
  let s' := match s with | ':' :: r => r | r => r
  ['t','o','d','a','y'].isPrefixOf s' || ['n','o','w'].isPrefixOf s'

/-- `_parse_datetime` on ASCII text: when neither date pattern matches, the raw text goes to
`strptime(s, '%Y-%m-%d %H:%M:%S')`, which would need `dddd-d` at the start — that the first pattern
matches; so the text is invalid (warning + `None`). -/
def parseDatePy (s : List Char) : DateRes :=
  if !s.all isAscii then .unmodelled
  else if isTodayNow s then .unmodelled
  else match parseDate s with
    | .unmodelled => .invalid
    | r => r

def castPy (dt : DType) (raw : List Char) : CastRes :=
  if raw.isEmpty then .val .none else
  match dt with
  | .integer => match castIntPy raw with
    | .ok i => .val (.int i)
    | .error e => .err e
  | .string => .val (.str raw)
  | .date => match parseDatePy raw with
    | .ok t => .val (.date t)
    | .invalid => .val .none
    | .keyError => .err .keyError
    | .unmodelled => .err .unmodelled

/-! ### typed `split(line, fields)` / `join(values, fields)` -/

structure Field where
  name : List Char
  dt : DType
deriving Repr, DecidableEq

/-- `Field.default`: `TSDB_CODED_ATTRIBUTES.get(name, '-1' if datatype == ':integer' else '')`. -/
def Field.default (f : Field) : List Char :=
  match codedAttributes.find? (fun p => p.1.toList == f.name) with
  | some p => p.2.toList
  | none => if f.dt = .integer then ['-', '1'] else []

/-- `format(f.datatype, value, default=f.default)`: `None` ↦ the field's default; a date-time in a
`:date` column ↦ the TSDB date format; everything else ↦ `str(value)`. -/
def formatField (f : Field) (v : Val) : List Char :=
  match v with
  | .none => f.default
  | .date t => if f.dt = .date then formatDate t else strDateTime t
  | v => strVal v

/-- `tsdb.join(values, fields)`.  A falsy `fields` (empty list) is the untyped branch
(`'' if v is None else str(v)`, no count check); otherwise the column count is checked first. -/
def joinTyped (fields : List Field) (vals : List Val) : Except Err (List Char) :=
  if fields.isEmpty then
    .ok (joinWith fieldDelimiter (vals.map (fun v => escape (match v with | .none => [] | v => strVal v))))
  else if vals.length ≠ fields.length then .error .tsdbError
  else .ok (joinWith fieldDelimiter (List.zipWith (fun f v => escape (formatField f v)) fields vals))

def rawVal : Option (List Char) → Val
  | none => .none
  | some s => .str s

/-- a cast that raised aborts the whole `split`. -/
def cellOf (r : CastRes) : Except Err Val :=
  match r with
  | .val v => .ok v
  | .err e => .error e

/-- `tsdb.split(line, fields)`: the raw values first (a bad escape is raised before anything else), then
the column count, then `cast` column by column (the first failing cast is raised). -/
def splitTyped (fields : List Field) (line : List Char) : Except Err (List Val) :=
  match splitRaw line with
  | .error e => .error e
  | .ok raw =>
    if fields.isEmpty then .ok (raw.map rawVal)
    else if raw.length ≠ fields.length then .error .tsdbError
    else (List.zipWith (fun (col : Option (List Char)) (f : Field) => (f.dt, col.getD [])) raw fields).mapM
      (fun p => cellOf (castPy p.1 p.2))

/-! ### `make_record`, `Row.__str__/__len__/keys`, relation files (round 6) -/

/-- the attributes of a Python `tsdb.Field` that the source-translated functions read (Generated/TransC08.lean):
the Lean field names are the Python attribute names. -/
structure PyField where
  name : List Char
  datatype : List Char
deriving Repr, DecidableEq

def DType.pyName : DType → List Char
  | .integer => ":integer".toList
  | .string => ":string".toList
  | .date => ":date".toList

def Field.py (f : Field) : PyField := { name := f.name, datatype := f.dt.pyName }

/-- `tsdb.make_record(colmap, fields)` = `tuple(colmap.get(f.name, None) for f in fields)`.  The dict is an
association list with distinct keys in insertion order; a missing column and a column holding `None` both give
`None`. -/
def makeRecord (colmap : List (List Char × Val)) (fields : List Field) : List Val :=
  fields.map (fun f => (colmap.lookup f.name).getD .none)

/-- the fields of a row (`names` and `types` come from one field list). -/
def Row.fields (r : Row) : List Field := List.zipWith Field.mk r.names r.types

/-- `Row(fields, data)` raises `ITSDBError` (a `TSDBError`) when the counts differ. -/
def mkRowChecked (types : List DType) (names : List (List Char)) (vals : List Val) : Except Err Row :=
  if vals.length ≠ types.length then .error .tsdbError else .ok (mkRow types names vals)

/-- iteration as the driver reports it: the values, or the first error raised by a cast. -/
def Row.values (r : Row) : Except Err (List Val) :=
  (List.zipWith (fun t d => (t, d)) r.types r.data).mapM (fun p => cellOf (castPy p.1 p.2))

/-- `str(row)` = `tsdb.join(row, row.fields)`: the row is iterated (cast of the raw data) and joined with
its fields. -/
def Row.str (r : Row) : Except Err (List Char) :=
  match r.values with
  | .error e => .error e
  | .ok vs => joinTyped r.fields vs

/-- the text `tsdb.write(dir, name, records, fields)` leaves in the relation file: `join(record, fields) + '\n'`
per record.  The first failing `join` aborts the call before anything reaches the file (temporary file). -/
def writeText (fields : List Field) (recs : List (List Val)) : Except Err (List Char) :=
  match recs.mapM (joinTyped fields) with
  | .error e => .error e
  | .ok ls => .ok (ls.map (· ++ ['\n'])).flatten

/-- the lines of a file opened with `newline='\n'` (what `tsdb.open` does): a line ends after each `\n`
and only there; a non-empty rest without `\n` is a last line. -/
def linesOf : List Char → List (List Char)
  | [] => []
  | c :: r =>
    if c = '\n' then ['\n'] :: linesOf r
    else match linesOf r with
      | [] => [[c]]
      | l :: ls => (c :: l) :: ls

/-- `Database(dir)[name]` (`autocast=False`) / `split(line)` per line of the file. -/
def readRaw (text : List Char) : Except Err (List (List (Option (List Char)))) :=
  (linesOf text).mapM splitRaw

/-- `Database(dir, autocast=True)[name]` / `split(line, fields)` per line of the file. -/
def readTyped (fields : List Field) (text : List Char) : Except Err (List (List Val)) :=
  (linesOf text).mapM (splitTyped fields)

end Verif.C08
