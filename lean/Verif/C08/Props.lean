/-
C08 — property theorems (TSDB record encoding).  Only property statements live here;
helper lemmas are in Lemmas.lean.
-/
import Verif.C08.Lemmas

namespace Verif.C08
open Verif.Py Verif.Tables

/-- "escape and unescape are mutually inverse" (1/2): unescape undoes escape, for every string. -/
theorem unescape_escape (s : List Char) : unescape (escape s) = .ok s := by
  induction s with
  | nil => rw [escape_nil]; rfl
  | cons c s ih =>
    rw [escape_cons]
    unfold escChar
    by_cases h1 : c = '\\'
    · subst h1; simp [unescape, ih, Except.map]
    · by_cases h2 : c = '\n'
      · subst h2; simp [unescape, ih, Except.map]
      · by_cases h3 : c = '@'
        · subst h3; simp [unescape, ih, Except.map, tables_ok.2]
        · rw [if_neg h1, if_neg h2, if_neg h3]; simp [unescape_cons_ne _ _ h1, ih, Except.map]

/-- "the encoded line never contains a raw newline [or a delimiter inside a value]". -/
theorem escape_safe (s : List Char) : '\n' ∉ escape s ∧ '@' ∉ escape s := by
  induction s with
  | nil => rw [escape_nil]; simp
  | cons c s ih =>
    rw [escape_cons]
    unfold escChar
    by_cases h1 : c = '\\'
    · subst h1; simp [ih]
    · by_cases h2 : c = '\n'
      · subst h2; simp [ih]
      · by_cases h3 : c = '@'
        · subst h3; simp [ih]
        · simp [h1, h2, h3, ih]; exact ⟨fun h => h2 h.symm, fun h => h3 h.symm⟩

/-- injectivity: two different values never get the same encoding. -/
theorem escape_injective (a b : List Char) (h : escape a = escape b) : a = b := by
  have ha := unescape_escape a
  rw [h, unescape_escape] at ha
  exact (Except.ok.inj ha).symm

example : escape ['a', '@', '\\', '\n'] = ['a', '\\', 's', '\\', '\\', '\\', 'n'] := by decide

end Verif.C08
